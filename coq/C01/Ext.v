(* C01 — the state only grows: every evaluation, in every mode, extends the frames heap and the trace (invariant
   [ext]); hence the cell a scope denotes for a name never changes in the reference evaluator. *)
From C01 Require Import Model.
Arguments apply_fn : simpl never.

Definition names (fr : frame) : list string := map fst fr.
Definition prefix {A} (l1 l2 : list A) : Prop := exists t, l2 = l1 ++ t.
(* the state only grows: frames are never removed, a frame keeps its cells in place (names fixed, new cells at the
   end), the trace is only extended *)
Definition ext (st st' : state) : Prop :=
  List.length (frames st) <= List.length (frames st') /\
  (forall f, prefix (names (get_frame st f)) (names (get_frame st' f))) /\
  prefix (trace st) (trace st').

Lemma prefix_refl : forall A (l : list A), prefix l l.
Proof. intros; exists []; rewrite app_nil_r; reflexivity. Qed.
Lemma prefix_trans : forall A (a b c : list A), prefix a b -> prefix b c -> prefix a c.
Proof. intros A a b c [t1 H1] [t2 H2]; subst; exists (t1 ++ t2); rewrite app_assoc; reflexivity. Qed.
Lemma ext_refl : forall st, ext st st.
Proof. intros; repeat split; auto using prefix_refl. Qed.
Lemma ext_trans : forall a b c, ext a b -> ext b c -> ext a c.
Proof.
  intros a b c (L1 & F1 & T1) (L2 & F2 & T2); repeat split; [lia | | eauto using prefix_trans].
  intros f; eapply prefix_trans; eauto.
Qed.

Lemma nth_set_nth : forall A (d : A) l n m x, nth m (set_nth n x l) d = if Nat.eqb m n then (if n <? List.length l then x else d) else nth m l d.
Proof.
  induction l as [|y l IH]; intros n m x; simpl.
  - destruct n, m; simpl; try reflexivity. destruct (Nat.eqb m n); reflexivity.
  - destruct n, m; simpl; try reflexivity.
    rewrite IH. destruct (Nat.eqb m n); try reflexivity.
Qed.
Lemma length_set_nth : forall A l n (x : A), List.length (set_nth n x l) = List.length l.
Proof. induction l; destruct n; simpl; auto. Qed.

Lemma names_fr_bind : forall fr x v, prefix (names fr) (names (fr_bind fr x v)).
Proof.
  induction fr as [|[y w] fr IH]; intros x v; simpl.
  - exists [x]; reflexivity.
  - destruct (String.eqb x y); simpl; [apply prefix_refl|].
    destruct (IH x v) as [t Ht]; exists t; unfold names in *; simpl; rewrite Ht; reflexivity.
Qed.
Lemma names_fr_set : forall fr i v, names (fr_set fr i v) = names fr.
Proof.
  induction fr as [|[y w] fr IH]; intros [|i] v; simpl; try reflexivity.
  unfold names in *; simpl; rewrite IH; reflexivity.
Qed.

Lemma ext_put_frame : forall st f fr, prefix (names (get_frame st f)) (names fr) -> ext st (put_frame st f fr).
Proof.
  intros st f fr H; unfold ext, put_frame, get_frame; simpl; repeat split.
  - rewrite length_set_nth; lia.
  - intros g; rewrite nth_set_nth. destruct (Nat.eqb g f) eqn:Hg; [|apply prefix_refl].
    apply Nat.eqb_eq in Hg; subst g.
    destruct (f <? List.length (frames st)) eqn:Hf; [exact H|].
    apply Nat.ltb_ge in Hf. rewrite nth_overflow by lia. apply prefix_refl.
  - apply prefix_refl.
Qed.
Lemma ext_bind_in : forall st0 st f x v, ext st0 st -> ext st0 (bind_in st f x v).
Proof. intros; eapply ext_trans; [eassumption|]. apply ext_put_frame, names_fr_bind. Qed.
Lemma ext_cell_set : forall st0 st l v, ext st0 st -> ext st0 (cell_set st l v).
Proof. intros; eapply ext_trans; [eassumption|]. apply ext_put_frame. rewrite names_fr_set. apply prefix_refl. Qed.
Lemma ext_alloc : forall st0 st fr, ext st0 st -> ext st0 (snd (alloc st fr)).
Proof.
  intros st0 st fr H; eapply ext_trans; [eassumption|]. unfold alloc, ext, get_frame; simpl; repeat split.
  - rewrite app_length; simpl; lia.
  - intros f. destruct (Nat.ltb f (List.length (frames st))) eqn:Hf.
    + apply Nat.ltb_lt in Hf. rewrite app_nth1 by exact Hf. apply prefix_refl.
    + apply Nat.ltb_ge in Hf. rewrite (nth_overflow (frames st)) by exact Hf. exists (names (nth f (frames st ++ [fr]) [])); reflexivity.
  - apply prefix_refl.
Qed.
Lemma ext_add_trace : forall st0 st k, ext st0 st -> ext st0 (add_trace st k).
Proof.
  intros st0 st k H; eapply ext_trans; [eassumption|]. unfold ext, add_trace, get_frame; simpl; repeat split; auto using prefix_refl.
  exists [k]; reflexivity.
Qed.
Lemma ext_add_fun : forall st0 st f c, ext st0 st -> ext st0 (add_fun st f c).
Proof. intros st0 st f c H; eapply ext_trans; [eassumption|]. unfold ext, add_fun, get_frame; simpl; repeat split; auto using prefix_refl. Qed.

Lemma ext_bind' : forall A B st0 (r : res A) (k : A -> state -> res B),
  ext st0 (snd r) -> (forall a s, ext st0 s -> ext st0 (snd (k a s))) -> ext st0 (snd (bind r k)).
Proof. intros A B st0 [[a|e] s] k H1 H2; simpl in *; auto. Qed.
Lemma ext_bindo' : forall A B st0 (o : out A) st (k : A -> res B),
  ext st0 st -> (forall a, ext st0 (snd (k a))) -> ext st0 (snd (bindo o st k)).
Proof. intros A B st0 [a|e] st k H1 H2; simpl in *; auto. Qed.

Section Ext.
Variable m : mode.
Variable ev : state -> scope -> expr -> result.
Hypothesis Hev : forall st0 st sc e, ext st0 st -> ext st0 (snd (ev st sc e)).

Ltac ext_go :=
  repeat match goal with
  | H : ext ?a ?b |- ext ?a ?b => exact H
  | |- ext _ (snd (bind _ _)) => apply ext_bind'; [|intros]
  | |- ext _ (snd (bindo _ _ _)) => apply ext_bindo'; [|intros]
  | |- ext _ (snd (ev _ _ _)) => apply Hev
  | |- ext _ (snd (alloc _ _)) => apply ext_alloc
  | |- ext _ (bind_in _ _ _ _) => apply ext_bind_in
  | |- ext _ (cell_set _ _ _) => apply ext_cell_set
  | |- ext _ (add_trace _ _) => apply ext_add_trace
  | |- ext _ (add_fun _ _ _) => apply ext_add_fun
  | |- ext _ (snd (_, _)) => simpl
  | |- ext _ (snd (if ?b then _ else _)) => destruct b
  | |- ext _ (snd (match ?x with _ => _ end)) => destruct x
  | |- ext _ (snd (let '(_, _) := ?x in _)) => destruct x eqn:?
  end.

Lemma ev_seq_ext : forall es st0 st sc last, ext st0 st -> ext st0 (snd (ev_seq ev st sc es last)).
Proof. induction es; intros; simpl; ext_go. apply IHes; assumption. Qed.
Lemma ev_args_ext : forall es st0 st sc, ext st0 st -> ext st0 (snd (ev_args m ev st sc es)).
Proof. induction es; intros; simpl; ext_go. apply IHes; assumption. Qed.
Lemma ev_inits_ext : forall es st0 st sc, ext st0 st -> ext st0 (snd (ev_inits m ev st sc es)).
Proof. induction es; intros; simpl; ext_go. apply IHes; assumption. Qed.
Lemma ev_test_ext : forall st0 st sc c, ext st0 st -> ext st0 (snd (ev_test m ev st sc c)).
Proof. intros; unfold ev_test; ext_go. Qed.

Lemma ev_cond_ext : forall cls st0 st sc, ext st0 st -> ext st0 (snd (ev_cond m ev st sc cls)).
Proof.
  induction cls as [|[c body] cls IH]; intros; simpl; ext_go.
  - apply ev_seq_ext; assumption.
  - apply IH; assumption.
Qed.
Lemma ev_and_ext : forall es st0 st sc, ext st0 st -> ext st0 (snd (ev_and m ev st sc es)).
Proof.
  induction es as [|e es IH]; intros; [simpl; assumption|].
  destruct es as [|e' es']; [simpl; ext_go|].
  change (ev_and m ev st sc (e :: e' :: es')) with
      (bind (ev_test m ev st sc e) (fun b st1 => if b then ev_and m ev st1 sc (e' :: es') else (Ok VNil, st1))).
  ext_go; [apply ev_test_ext; assumption | apply IH; assumption].
Qed.
Lemma ev_or_ext : forall es st0 st sc, ext st0 st -> ext st0 (snd (ev_or m ev st sc es)).
Proof.
  induction es as [|e es IH]; intros; [simpl; assumption|].
  destruct es as [|e' es']; [simpl; ext_go|].
  change (ev_or m ev st sc (e :: e' :: es')) with
      (bind (ev st sc e) (fun v st1 => bindo (or_step m v) st1 (fun o => match o with Some r => (Ok r, st1) | None => ev_or m ev st1 sc (e' :: es') end))).
  ext_go. apply IH; assumption.
Qed.
Lemma ev_letstar_ext : forall bs es st0 st sc, ext st0 st -> ext st0 (snd (ev_letstar m ev st sc bs es)).
Proof.
  induction bs as [|[x e] bs IH]; intros; simpl; [apply ev_seq_ext; assumption|].
  ext_go. apply IH. change (mkSt (frames s ++ [[(x, a0)]]) (funs s) (trace s)) with (snd (alloc s [(x, a0)])). ext_go.
Qed.
Lemma assign_ext : forall st0 st sc x v, ext st0 st -> ext st0 (snd (assign m st sc x v)).
Proof. intros; unfold assign; ext_go. Qed.
Lemma ev_setq_ext : forall ps st0 st sc last, ext st0 st -> ext st0 (snd (ev_setq m ev st sc ps last)).
Proof.
  induction ps as [|[x e] ps IH]; intros; simpl; ext_go.
  - apply assign_ext; assumption.
  - apply IH; assumption.
Qed.
Lemma ev_defaults_ext : forall os st0 st sc bnd, ext st0 st -> ext st0 (snd (ev_defaults m ev st sc bnd os)).
Proof.
  induction os as [|[x e] os IH]; intros; simpl; ext_go; apply IH; try assumption.
  change (mkSt (frames s ++ [[(x, a0)]]) (funs s) (trace s)) with (snd (alloc s [(x, a0)])). ext_go.
Qed.
Lemma apply_fn_ext : forall st0 st c args, ext st0 st -> ext st0 (snd (apply_fn m ev st c args)).
Proof.
  intros st0 st [ps os body csc|p] args H; unfold apply_fn; [|simpl; exact H].
  destruct (List.length ps + List.length os <? List.length args); [exact H|].
  destruct (List.length args <? List.length ps); [exact H|].
  assert (E1 : ext st0 (snd (alloc st (mk_frame (ps ++ map fst os) args)))) by (apply ext_alloc; exact H).
  destruct (alloc st (mk_frame (ps ++ map fst os) args)) as [f st1]. simpl in E1.
  destruct (drop os (List.length args - List.length ps)) as [|d ds].
  - apply ev_seq_ext; exact E1.
  - apply ext_bind'; [apply ev_defaults_ext; exact E1|]. intros. apply ev_seq_ext; assumption.
Qed.
Lemma ev_map_ext : forall rows st0 st c, ext st0 st -> ext st0 (snd (ev_map m ev st c rows)).
Proof.
  induction rows; intros; simpl; ext_go; [apply apply_fn_ext; assumption | apply IHrows; assumption].
Qed.
Lemma ev_iter_ext : forall vs st0 st sc f x es, ext st0 st -> ext st0 (snd (ev_iter ev st sc f x vs es)).
Proof.
  induction vs; intros; simpl; ext_go; [apply ev_seq_ext; ext_go | apply IHvs; assumption].
Qed.
Lemma ev_opt_ext : forall st0 st sc r, ext st0 st -> ext st0 (snd (ev_opt ev st sc r)).
Proof. intros st0 st sc [e|] H; simpl; ext_go. Qed.
Lemma ev_inits_seq_ext : forall bs st0 st sc, ext st0 st -> ext st0 (snd (ev_inits_seq m ev st sc bs)).
Proof.
  induction bs as [|[[x e] s0] bs IH]; intros; simpl; ext_go. apply IH.
  change (mkSt (frames s ++ [[(x, a0)]]) (funs s) (trace s)) with (snd (alloc s [(x, a0)])). ext_go.
Qed.
Lemma ev_steps_par_ext : forall bs st0 st sc, ext st0 st -> ext st0 (snd (ev_steps_par m ev st sc bs)).
Proof.
  induction bs as [|[[x e] [s0|]] bs IH]; intros; simpl; ext_go; apply IH; assumption.
Qed.
Lemma ev_steps_seq_ext : forall bs st0 st sc fs, ext st0 st -> ext st0 (snd (ev_steps_seq m ev st sc fs bs)).
Proof.
  induction bs as [|[[x e] [s0|]] bs IH]; intros st0 st sc [|f fs] H; simpl; ext_go; apply IH; ext_go.
Qed.
Lemma fold_bind_in_ext : forall (xs : list (string * val)) st0 st f, ext st0 st ->
  ext st0 (fold_left (fun s xv => bind_in s f (fst xv) (snd xv)) xs st).
Proof. induction xs; intros; simpl; [assumption|]. apply IHxs; ext_go. Qed.

Ltac ext_h :=
  match goal with
  | |- ext _ (snd (ev_seq _ _ _ _ _)) => apply ev_seq_ext
  | |- ext _ (snd (ev_args _ _ _ _ _)) => apply ev_args_ext
  | |- ext _ (snd (ev_inits _ _ _ _ _)) => apply ev_inits_ext
  | |- ext _ (snd (ev_test _ _ _ _ _)) => apply ev_test_ext
  | |- ext _ (snd (ev_cond _ _ _ _ _)) => apply ev_cond_ext
  | |- ext _ (snd (ev_and _ _ _ _ _)) => apply ev_and_ext
  | |- ext _ (snd (ev_or _ _ _ _ _)) => apply ev_or_ext
  | |- ext _ (snd (ev_letstar _ _ _ _ _ _)) => apply ev_letstar_ext
  | |- ext _ (snd (ev_setq _ _ _ _ _ _)) => apply ev_setq_ext
  | |- ext _ (snd (apply_fn _ _ _ _ _)) => apply apply_fn_ext
  | |- ext _ (snd (ev_map _ _ _ _ _)) => apply ev_map_ext
  | |- ext _ (snd (ev_iter _ _ _ _ _ _ _)) => apply ev_iter_ext
  | |- ext _ (snd (ev_opt _ _ _ _)) => apply ev_opt_ext
  | |- ext _ (snd (ev_inits_seq _ _ _ _ _)) => apply ev_inits_seq_ext
  | |- ext _ (snd (ev_steps_par _ _ _ _ _)) => apply ev_steps_par_ext
  | |- ext _ (snd (ev_steps_seq _ _ _ _ _ _)) => apply ev_steps_seq_ext
  | |- ext _ (fold_left _ _ _) => apply fold_bind_in_ext
  | |- ext _ (mkSt (frames ?s ++ [?fr]) (funs ?s) (trace ?s)) => change (mkSt (frames s ++ [fr]) (funs s) (trace s)) with (snd (alloc s fr))
  end.
Ltac ext_all := repeat (ext_go; try ext_h).

Lemma evalF_ext : forall st0 st sc e, ext st0 st -> ext st0 (snd (evalF m ev st sc e)).
Proof.
  intros st0 st sc e H; destruct e; simpl; ext_all.
Qed.
End Ext.
