(* C01 — correspondence: evaluated by coqc on every run over the programs the harness generated and what the
   interpreter returned for them (value(s) or condition class, and the trace of (tr k e) calls). *)
From C01 Require Import Model.

Inductive obs := OVal (vs : list val) | OErr (e : err).
(* program, what slip returned, the trace slip produced *)
Definition case := (list expr * (obs * list Z))%type.

Definition FUEL : nat := 400.

(* observable equality: closures are opaque (any two are equal), everything else structural *)
Fixpoint val_eqb (a b : val) : bool :=
  let fix list_eqb (xs ys : list val) : bool :=
    match xs, ys with
    | [], [] => true
    | x :: xs', y :: ys' => val_eqb x y && list_eqb xs' ys'
    | _, _ => false
    end in
  match a, b with
  | VNil, VNil | VT, VT => true
  | VInt x, VInt y => Z.eqb x y
  | VSym x, VSym y | VStr x, VStr y | VRaw x, VRaw y | VFn x, VFn y => String.eqb x y
  | VList xs, VList ys => list_eqb xs ys
  | VDot xs x, VDot ys y => list_eqb xs ys && val_eqb x y
  | VClo _ _ _ _, VClo _ _ _ _ => true
  | VValues xs, VValues ys => list_eqb xs ys
  | _, _ => false
  end.
Fixpoint vals_eqb (xs ys : list val) : bool :=
  match xs, ys with
  | [], [] => true
  | x :: xs', y :: ys' => val_eqb x y && vals_eqb xs' ys'
  | _, _ => false
  end.
Definition err_eqb (a b : err) : bool :=
  match a, b with
  | EFuel, EFuel | EDev, EDev | EUnbound, EUnbound | EUndefFun, EUndefFun | EType, EType | EArity, EArity
  | EFault, EFault | EMalformed, EMalformed | EOutOfModel, EOutOfModel => true
  | _, _ => false
  end.
Fixpoint zs_eqb (a b : list Z) : bool :=
  match a, b with [], [] => true | x :: a', y :: b' => Z.eqb x y && zs_eqb a' b' | _, _ => false end.

Definition obs_of (r : result) : obs * list Z :=
  (match fst r with Ok v => OVal (values_list v) | Er e => OErr e end, trace (snd r)).
Definition obs_eqb (a b : obs * list Z) : bool :=
  match fst a, fst b with
  | OVal xs, OVal ys => vals_eqb xs ys
  | OErr x, OErr y => err_eqb x y
  | _, _ => false
  end && zs_eqb (snd a) (snd b).

Definition undecided (r : result) : bool :=           (* the model does not decide this program *)
  match fst r with Er EFuel | Er EOutOfModel => true | _ => false end.
Definition in_guard (p : list expr) : bool :=
  match fst (run Chk FUEL p) with Er EDev => false | _ => true end.

(* 0 ok (or undecided by the model: counted by [undecided_count]).
   1 M <> slip, but no failing input established: slip's output is S's, or the program is outside the guard.
   2 M <> slip, the program is where M (the unchanged code) meets S, and slip's output is not S's: a failing input.
   3 self-check: M = slip, the guard run raises no deviation, and yet M <> S. *)
Definition check_case (c : case) : N :=
  let p := fst c in
  let rM := run Slip FUEL p in
  let rS := run Ref FUEL p in
  if undecided rM || undecided rS then 0%N
  else
    let oM := obs_of rM in let oS := obs_of rS in
    if obs_eqb oM (snd c) then (if in_guard p && negb (obs_eqb oM oS) then 3%N else 0%N)
    else if obs_eqb oM oS && negb (obs_eqb (snd c) oS) then 2%N else 1%N.

Fixpoint check_all_from (i : N) (cs : list case) : list (N * N) :=
  match cs with
  | [] => []
  | c :: cs' => let r := check_case c in (if N.eqb r 0 then [] else [(i, r)]) ++ check_all_from (N.succ i) cs'
  end.
Definition check_all := check_all_from 0%N.

Definition count (f : case -> bool) (cs : list case) : N := N.of_nat (List.length (filter f cs)).
Definition guard_count := count (fun c => in_guard (fst c)).
Definition deviating_count := count (fun c => negb (obs_eqb (obs_of (run Slip FUEL (fst c))) (obs_of (run Ref FUEL (fst c))))).
Definition undecided_count := count (fun c => undecided (run Slip FUEL (fst c)) || undecided (run Ref FUEL (fst c))).
