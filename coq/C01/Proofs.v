(* C01 — refutations (where the faithful model of the Go code violates the reference evaluator: the known findings,
   each outside the guard) and non-vacuity examples.  The general proofs are in Sim.v, Ext.v and Laws.v. *)
From C01 Require Export Model Spec Sim Ext Laws Wf.
From C01 Require Import Corr.
Open Scope string_scope.

Definition I (z : Z) : expr := EConst (DInt z).
Definition ENil : expr := EConst DNil.
Definition ET : expr := EConst DT.

Ltac differ := split; [let H := fresh "H" in intro H; vm_compute in H; discriminate H | vm_compute; reflexivity].

(* repaired (repo_fixes/C01-19): the tests of if, when, unless, cond, and, do, do* look at the primary value.
   (if (values nil t) 1 2) => 2 ; (list (when (values nil 1) 3) (unless (values nil 1) 4) (cond ((values nil 1) 5) (t 6))
   (and (values nil 1) 7) (do ((i 0 (1+ i))) ((values (> i 1) nil) i)))  => (nil 4 6 nil 2), in every mode *)
Definition w_values_test := [EIf (EValues [ENil; ET]) (I 1) (Some (I 2))].
Definition w_values_tests :=
  [EPrim PList [EWhen (EValues [ENil; I 1]) [I 3]; EUnless (EValues [ENil; I 1]) [I 4];
                ECond [(EValues [ENil; I 1], [I 5]); (ET, [I 6])]; EAnd [EValues [ENil; I 1]; I 7];
                EDo false [("i", I 0, Some (EPrim PInc [EVar "i"]))] (EValues [EPrim PGt [EVar "i"; I 1]; ENil]) [EVar "i"] []]].
Example tests_look_at_primary_value :
  forallb (fun m => match fst (run m 60 w_values_test), fst (run m 60 w_values_tests) with
                    | Ok (VInt 2), Ok (VList [VNil; VInt 4; VInt 6; VNil; VInt 2]) => true | _, _ => false end) [Slip; Ref; Chk] = true.
Proof. vm_compute; reflexivity. Qed.
(* what a test sees is the same in every mode: the primary value *)
Lemma truthy_primary : forall m v, truthy m v = Ok (negb (is_nil (primary v))).
Proof. reflexivity. Qed.
(* (let ((x (values 1 2))) (multiple-value-bind (a b) x (list a b))) : let stores the Values object, the variable
   then yields both values: (1 2) instead of (1 nil) *)
Definition w_let_values := [ELet [("x", EValues [I 1; I 2])] [EMvb ["a"; "b"] (EVar "x") [EPrim PList [EVar "a"; EVar "b"]]]].
Lemma let_binds_values_refuted : fst (runM 60 w_let_values) <> fst (runS 60 w_let_values) /\ guardb 60 w_let_values = false.
Proof. differ. Qed.
(* repaired (repo_fixes/C01-10): progn is the sequence of its forms and returns every value of the last one.
   (multiple-value-bind (a b) (progn (values 1 2)) (list a b)) => (1 2) in every mode *)
Definition w_progn_values := [EMvb ["a"; "b"] (EProgn [EValues [I 1; I 2]]) [EPrim PList [EVar "a"; EVar "b"]]].
Example progn_values_passed :
  forallb (fun m => match fst (run m 60 w_progn_values) with Ok (VList [VInt 1; VInt 2]) => true | _ => false end) [Slip; Ref; Chk] = true.
Proof. vm_compute; reflexivity. Qed.
Lemma progn_is_sequence : forall m n st sc es, eval m (S n) st sc (EProgn es) = ev_seq (eval m n) st sc es VNil.
Proof. reflexivity. Qed.
Lemma progn_single : forall m n st sc e, eval m (S n) st sc (EProgn [e]) = eval m n st sc e.
Proof. intros. simpl. destruct (eval m n st sc e) as [[v|er] s]; reflexivity. Qed.
(* repaired (repo_fixes/C01-17): mapcar collects the primary value of each call.
   (if (car (mapcar (lambda (x) (values nil x)) '(1 2))) 1 2) => 2 in every mode *)
Definition w_mapcar_values :=
  [EIf (EPrim PCar [EMapcar (ELambda ["x"] [EValues [ENil; EVar "x"]]) [EQuote (DList [DInt 1; DInt 2])]]) (I 1) (Some (I 2))].
Example mapcar_collects_primary_values :
  forallb (fun m => match fst (run m 60 w_mapcar_values) with Ok (VInt 2) => true | _ => false end) [Slip; Ref; Chk] = true.
Proof. vm_compute; reflexivity. Qed.
Lemma mapcar_collects_primary : forall m ev st c row rows v st1 vs st2,
  apply_fn m ev st c row = (Ok v, st1) -> ev_map m ev st1 c rows = (Ok vs, st2) ->
  ev_map m ev st c (row :: rows) = (Ok (primary v :: vs), st2).
Proof. intros m ev st c row rows v st1 vs st2 H1 H2. simpl. rewrite H1. simpl. rewrite H2. reflexivity. Qed.
(* repaired (repo_fixes/C01-15, C01-16): setq returns the one value it stored, a cond clause without forms the primary
   value of its test.
   (let ((x 0)) (multiple-value-bind (a b) (setq x (values 1 2)) (list a b)))   => (1 nil)
   (multiple-value-bind (a b) (cond ((values 1 2))) (list a b))                 => (1 nil)   in every mode *)
Definition w_setq_values :=
  [ELet [("x", I 0)] [EMvb ["a"; "b"] (ESetq [("x", EValues [I 1; I 2])]) [EPrim PList [EVar "a"; EVar "b"]]]].
Definition w_cond_values := [EMvb ["a"; "b"] (ECond [(EValues [I 1; I 2], [])]) [EPrim PList [EVar "a"; EVar "b"]]].
Example setq_cond_single_value :
  forallb (fun m => match fst (run m 60 w_setq_values), fst (run m 60 w_cond_values) with
                    | Ok (VList [VInt 1; VNil]), Ok (VList [VInt 1; VNil]) => true | _, _ => false end) [Slip; Ref; Chk] = true.
Proof. vm_compute; reflexivity. Qed.
(* in every mode the value of (setq x e) is never a multiple-values object built by e: it is the primary value, the
   one that was stored *)
Lemma setq_returns_stored : forall m ev st sc x e v st1 st2,
  ev st sc e = (Ok v, st1) -> assign m st1 sc x (primary v) = (Ok tt, st2) ->
  ev_setq m ev st sc [(x, e)] VNil = (Ok (primary v), st2).
Proof. intros m ev st sc x e v st1 st2 H A. simpl. rewrite H. simpl. rewrite A. reflexivity. Qed.
(* repaired (repo_fixes/C01-14): a form of or that is not the last is judged by, and contributes, its primary value.
   (multiple-value-bind (a b) (or (values nil 2) 5) (list a b)) => (5 nil) in every mode *)
Definition w_or_values := [EMvb ["a"; "b"] (EOr [EValues [ENil; I 2]; I 5]) [EPrim PList [EVar "a"; EVar "b"]]].
Example or_takes_primary_value :
  forallb (fun m => match fst (run m 60 w_or_values) with Ok (VList [VInt 5; VNil]) => true | _ => false end) [Slip; Ref; Chk] = true.
Proof. vm_compute; reflexivity. Qed.
(* what or does with a form that is not its last is the same in every mode, and it is what the language says: stop
   with the primary value unless that is nil *)
Lemma or_step_same : forall m v, or_step m v = Ok (if is_nil (primary v) then None else Some (primary v)).
Proof. reflexivity. Qed.
(* repaired (repo_fixes/C01-7): (dotimes (i -1 i)) => 0, the number of iterations, in every mode *)
Definition w_dotimes_neg := [EDotimes "i" (I (-1)) (Some (EVar "i")) []].
Example dotimes_negative_count_zero :
  forallb (fun m => match fst (run m 60 w_dotimes_neg) with Ok (VInt 0) => true | _ => false end) [Slip; Ref; Chk] = true.
Proof. vm_compute; reflexivity. Qed.
(* for every count: after the loop the variable holds the number of iterations made *)
Lemma dotimes_iterations : forall k, Z.max k 0 = Z.of_nat (List.length (seq 0 (Z.to_nat k))).
Proof. intros k. rewrite seq_length. lia. Qed.
(* repaired in slip (binder, bfffda3): a call with too few arguments is an error, like one with too many.
   (funcall (lambda (a b) (list a 'x)) 1) and (funcall (lambda (a b) a) 1 2 3): arity error in every mode *)
Definition w_short_args := [EFuncall (ELambda ["a"; "b"] [EPrim PList [EVar "a"; EQuote (DSym "x")]]) [I 1]].
Definition w_long_args := [EFuncall (ELambda ["a"; "b"] [EVar "a"]) [I 1; I 2; I 3]].
Example wrong_argument_count_is_error :
  forallb (fun m => match fst (run m 60 w_short_args), fst (run m 60 w_long_args) with
                    | Er EArity, Er EArity => true | _, _ => false end) [Slip; Ref; Chk] = true.
Proof. vm_compute; reflexivity. Qed.
(* for every function, state and argument list, in every mode: fewer arguments than required parameters, or more than
   required + optional ones, is the arity error and nothing else happens *)
Lemma arity_error : forall m ev st ps os body csc args,
  List.length args < List.length ps \/ List.length ps + List.length os < List.length args ->
  apply_fn m ev st (CClo ps os body csc) args = (Er EArity, st).
Proof.
  intros m ev st ps os body csc args H. unfold apply_fn.
  destruct (Nat.ltb (List.length ps + List.length os)%nat (List.length args)) eqn:E1; [reflexivity|].
  destruct (Nat.ltb (List.length args) (List.length ps)) eqn:E2; [reflexivity|].
  apply Nat.ltb_ge in E1. apply Nat.ltb_ge in E2. lia.
Qed.
(* &optional parameters: the arguments are evaluated first (left to right), then the default forms of the parameters
   that got no argument, left to right, each seeing the parameters before it.
   (funcall (lambda (a &optional (b (tr 3 (+ a 1))) (c (tr 4 (+ a b)))) (list a b c)) (tr 1 1))          => (1 2 3), trace 1 3 4
   (funcall (lambda (a &optional (b (tr 3 (+ a 1))) (c (tr 4 (+ a b)))) (list a b c)) (tr 1 1) (tr 2 10)) => (1 10 11), trace 1 2 4 *)
Definition opt_lambda :=
  ELambdaO ["a"] [("b", ETr 3 (EPrim PAdd [EVar "a"; I 1])); ("c", ETr 4 (EPrim PAdd [EVar "a"; EVar "b"]))]
           [EPrim PList [EVar "a"; EVar "b"; EVar "c"]].
Definition w_opt1 := [EFuncall opt_lambda [ETr 1 (I 1)]].
Definition w_opt2 := [EFuncall opt_lambda [ETr 1 (I 1); ETr 2 (I 10)]].
Example optional_defaults_in_order :
  forallb (fun m => match run m 60 w_opt1, run m 60 w_opt2 with
                    | (Ok (VList [VInt 1; VInt 2; VInt 3]), s1), (Ok (VList [VInt 1; VInt 10; VInt 11]), s2) =>
                        match trace s1, trace s2 with [1; 3; 4]%Z, [1; 2; 4]%Z => true | _, _ => false end
                    | _, _ => false end) [Slip; Ref; Chk] = true.
Proof. vm_compute; reflexivity. Qed.
(* repaired (repo_fixes/C01-21): every parameter that gets the value of its default form is bound in a scope of its own;
   a closure made by a default form sees the enclosing variable, not a parameter bound after it, and shares the
   parameters before it with the body
   (let ((b 1)) (funcall (lambda (&optional (f (lambda () b)) (b 5)) (funcall f))))                 => 1
   (funcall (lambda (&optional (a 1) (g (lambda () a))) (setq a 7) (funcall g)))                     => 7   in every mode *)
Definition w_default_closure :=
  [ELet [("b", I 1)] [EFuncall (ELambdaO [] [("f", ELambda [] [EVar "b"]); ("b", I 5)] [EFuncall (EVar "f") []]) []]].
Definition w_default_shares :=
  [EFuncall (ELambdaO [] [("a", I 1); ("g", ELambda [] [EVar "a"])] [ESetq [("a", I 7)]; EFuncall (EVar "g") []]) []].
Example default_closure_lexical :
  forallb (fun m => match fst (run m 60 w_default_closure), fst (run m 60 w_default_shares) with
                    | Ok (VInt 1), Ok (VInt 7) => true | _, _ => false end) [Slip; Ref; Chk] = true.
Proof. vm_compute; reflexivity. Qed.
(* the init form of a let* / let / do* binding is evaluated before the variable exists: a closure it makes over the NAME
   of the variable being bound reads and assigns the enclosing variable (10; 1 and the closure as the new value), in
   every mode, inside the guard *)
Definition w_letstar_own_read :=
  [ELet [("n", I 10)] [ELetStar [("n", ELambda [] [EVar "n"])] [EFuncall (EVar "n") []]]].
Definition w_letstar_own_write :=
  [ELet [("c", I 0)] [ELetStar [("c", ELambda [] [ESetq [("c", EPrim PInc [EVar "c"])]])] [EFuncall (EVar "c") []]; EVar "c"]].
Definition w_dostar_own_read :=
  [ELet [("n", I 10)] [EDo true [("n", ELambda [] [EVar "n"], None)] ET [EFuncall (EVar "n") []] []]].
Example init_closure_own_name :
  forallb (fun m => match fst (run m 60 w_letstar_own_read), fst (run m 60 w_letstar_own_write), fst (run m 60 w_dostar_own_read) with
                    | Ok (VInt 10), Ok (VInt 1), Ok (VInt 10) => true | _, _, _ => false end) [Slip; Ref; Chk] = true.
Proof. vm_compute; reflexivity. Qed.
(* the defaults proceed like the bindings of let*: the default form in the scope built so far, the parameter in a new
   scope that holds only it *)
Lemma defaults_like_letstar : forall m ev st sc bnd x e os, existsb (String.eqb x) bnd = false ->
  ev_defaults m ev st sc bnd ((x, e) :: os) =
  bind (ev st sc e) (fun v st1 => bindo (store_red m v) st1 (fun a =>
    ev_defaults m ev (snd (alloc st1 [(x, a)])) ((List.length (frames st1), 1) :: sc) (x :: bnd) os)).
Proof. intros m ev st sc bnd x e os H. simpl. rewrite H. reflexivity. Qed.
(* repaired (repo_fixes/C01-6): the end test of do / do* is evaluated whatever its shape.
   (do ((i 0 (1+ i))) (t 5)) => 5 ; (do* ((i 0 (1+ i)) (s nil (> i 2))) (s i)) => 3, in every mode, inside the guard *)
Definition w_do_atom := [EDo false [("i", I 0, Some (EPrim PInc [EVar "i"]))] ET [I 5] []].
Definition w_do_var :=
  [EDo true [("i", I 0, Some (EPrim PInc [EVar "i"])); ("s", ENil, Some (EPrim PGt [EVar "i"; I 2]))] (EVar "s") [EVar "i"] []].
Example do_atom_test_evaluated :
  forallb (fun m => match fst (run m 60 w_do_atom), fst (run m 60 w_do_var) with
                    | Ok (VInt 5), Ok (VInt 3) => true | _, _ => false end) [Slip; Ref; Chk] = true.
Proof. vm_compute; reflexivity. Qed.
(* repaired (repo_fixes/C01-12, C01-13): the list form of dolist and the count form of dotimes are evaluated in the
   enclosing scope, every variable of do* gets a scope of its own: a closure made there sees the enclosing variable
   (let ((x 10) (f nil)) (dolist (x (progn (setq f (lambda () x)) '(1 2))) nil) (funcall f))      10
   (let ((x 10) (f nil)) (dotimes (x (progn (setq f (lambda () x)) 2)) nil) (funcall f))          10
   (let ((y 1)) (funcall (do* ((f (lambda () y)) (y 5)) ((> y 0) f))))                             1
   in every mode: the guard run meets no deviation *)
Definition w_dolist_scope :=
  [ELet [("x", I 10); ("f", ENil)]
     [EDolist "x" (EProgn [ESetq [("f", ELambda [] [EVar "x"])]; EQuote (DList [DInt 1; DInt 2])]) None [ENil];
      EFuncall (EVar "f") []]].
Definition w_dotimes_scope :=
  [ELet [("x", I 10); ("f", ENil)]
     [EDotimes "x" (EProgn [ESetq [("f", ELambda [] [EVar "x"])]; I 2]) None [ENil];
      EFuncall (EVar "f") []]].
Definition w_dostar_scope :=
  [ELet [("y", I 1)]
     [EFuncall (EDo true [("f", ELambda [] [EVar "y"], None); ("y", I 5, None)] (EPrim PGt [EVar "y"; I 0]) [EVar "f"] []) []]].
Example loop_forms_outer_scope :
  forallb (fun m => match fst (run m 60 w_dolist_scope), fst (run m 60 w_dotimes_scope), fst (run m 60 w_dostar_scope) with
                    | Ok (VInt 10), Ok (VInt 10), Ok (VInt 1) => true | _, _, _ => false end) [Slip; Ref; Chk] = true.
Proof. vm_compute; reflexivity. Qed.
(* do* is nested binding: with at least one variable, (do* ((x e) b2 .. bk) ...) evaluates e in the enclosing scope and
   the remaining init forms in a new scope that holds only x - exactly the way let* proceeds *)
Lemma dostar_inits_like_letstar : forall m ev st sc x e s bs,
  ev_inits_seq m ev st sc ((x, e, s) :: bs) =
  bind (ev st sc e) (fun v st1 => bindo (store_red m v) st1 (fun a =>
    ev_inits_seq m ev (snd (alloc st1 [(x, a)])) ((List.length (frames st1), 1) :: sc) bs)).
Proof. reflexivity. Qed.

(* repaired (repo_fixes/C01-18): dolist and dotimes take the primary value of their list / count form.
   (dotimes (i (values 2 9) i)) => 2 ; (let ((r 0)) (dolist (x (values '(1 2) 3) r) (setq r (+ r x)))) => 3, every mode *)
Definition w_dotimes_values := [EDotimes "i" (EValues [I 2; I 9]) (Some (EVar "i")) []].
Definition w_dolist_values :=
  [ELet [("r", I 0)] [EDolist "x" (EValues [EQuote (DList [DInt 1; DInt 2]); I 3]) (Some (EVar "r"))
                        [ESetq [("r", EPrim PAdd [EVar "r"; EVar "x"])]]]].
Example loop_form_primary_value :
  forallb (fun m => match fst (run m 60 w_dotimes_values), fst (run m 60 w_dolist_values) with
                    | Ok (VInt 2), Ok (VInt 3) => true | _, _ => false end) [Slip; Ref; Chk] = true.
Proof. vm_compute; reflexivity. Qed.

(* repaired (repo_fixes/C01-20): length of a dotted list is a type error, (length (cons 9 t)), in every mode - the
   built-ins are the same function in M and S; the interpreter used to count the tail as an element *)
Example length_of_dotted_list_is_error :
  forallb (fun m => match fst (run m 20 [EPrim PLength [EPrim PCons [I 9; ET]]]) with Er EType => true | _ => false end)
          [Slip; Ref; Chk] = true.
Proof. vm_compute; reflexivity. Qed.

(* ---------------------------------------------------------------------------- case: key lists *)
(* a clause is selected by MEMBERSHIP of the key in its key list and by nothing else; t and otherwise written inside a
   key list are ordinary keys: such a clause is passed over unless the key is the object t / the symbol otherwise - in
   every mode (the clause search does not depend on the mode) *)
Lemma case_clause_by_membership : forall v ks body cls,
  find_clause v ((ks, body) :: cls) = if existsb (case_key v) ks then Some body else find_clause v cls.
Proof. reflexivity. Qed.
Lemma case_t_in_key_list_is_a_key : forall v ks body cls,
  val_eql v VT = false -> find_clause v ((DT :: ks, body) :: cls) = find_clause v ((ks, body) :: cls).
Proof. intros v ks body cls H. simpl. rewrite H. reflexivity. Qed.
Lemma case_otherwise_in_key_list_is_a_key : forall v ks body cls,
  val_eql v (VSym "otherwise") = false ->
  find_clause v ((DSym "otherwise" :: ks, body) :: cls) = find_clause v ((ks, body) :: cls).
Proof. intros v ks body cls H. simpl. rewrite H. reflexivity. Qed.
(* (case 1 ((t) (tr 1 1))) => nil, nothing traced; (case 5 ((1 otherwise) (tr 1 1)) (t (tr 3 3))) => 3, trace 3;
   (case t ((1 t) (tr 1 1)) (t (tr 3 3))) => 1, trace 1 *)
Example case_key_list_examples :
  forallb (fun m =>
    match run m 20 [ECase (I 1) [([DT], [ETr 1 (I 1)])] None],
          run m 20 [ECase (I 5) [([DInt 1; DSym "otherwise"], [ETr 1 (I 1)])] (Some [ETr 3 (I 3)])],
          run m 20 [ECase ET [([DInt 1; DT], [ETr 1 (I 1)])] (Some [ETr 3 (I 3)])] with
    | (Ok VNil, s1), (Ok (VInt 3), s2), (Ok (VInt 1), s3) =>
        match trace s1, trace s2, trace s3 with [], [3%Z], [1%Z] => true | _, _, _ => false end
    | _, _, _ => false end) [Slip; Ref; Chk] = true.
Proof. vm_compute; reflexivity. Qed.

(* ---------------------------------------------------------------------------- zero values in single-value positions *)
(* every place that takes ONE value from a form looks at the primary value only (in every mode; the place where a
   variable is bound: in the reference evaluator), and a form that returns NO value counts as nil there *)
Lemma single_value_primary : forall m v v', primary v = primary v' ->
  arg_red m v = arg_red m v' /\ truthy m v = truthy m v' /\ or_step m v = or_step m v' /\ store_red Ref v = store_red Ref v'.
Proof. intros m v v' H. unfold arg_red, truthy, or_step, store_red. rewrite H. repeat split; reflexivity. Qed.
Lemma zero_values_as_nil : forall m,
  arg_red m (VValues []) = Ok VNil /\ truthy m (VValues []) = Ok false /\ or_step m (VValues []) = Ok None /\
  store_red Ref (VValues []) = Ok VNil.
Proof. intros m. repeat split; reflexivity. Qed.
(* an argument form that returns no value contributes nil to the argument list, whatever the function and the mode *)
Lemma zero_value_argument : forall m ev sc st e es st1 vs st2,
  ev st sc e = (Ok (VValues []), st1) -> ev_args m ev st1 sc es = (Ok vs, st2) ->
  ev_args m ev st sc (e :: es) = (Ok (VNil :: vs), st2).
Proof. intros m ev sc st e es st1 vs st2 H1 H2. simpl. rewrite H1. simpl. rewrite H2. reflexivity. Qed.
(* the positions, as contexts: (values) in the hole is observably the same as nil in the hole - same value(s), same
   trace - in the model of the Go code and in the reference evaluator *)
Definition sv_contexts : list (expr -> expr) :=
  [ (fun x => EPrim PList [I 1; x; I 2]); (fun x => EPrim PNull [x]); (fun x => EPrim PNot [x]);
    (fun x => EFuncall (ELambda ["p"] [EIf (EVar "p") (I 1) (Some (I 2))]) [x]);
    (fun x => EApply (ELambda ["p"; "q"] [EPrim PList [EVar "p"; EVar "q"]]) [x; EPrim PList [I 3]]);
    (fun x => EPrim PList [ETr 1 x]); (fun x => EMvb ["a"; "b"] (EValues [x; I 9]) [EPrim PList [EVar "a"; EVar "b"]]);
    (fun x => ECase x [([DInt 1], [I 1])] (Some [I 2])); (fun x => EPrim PList [EProg1 x [I 5]]);
    (fun x => EProgn [x; I 5]); (fun x => EPrim PList [EProgn [I 1; x]]);
    (fun x => ELet [("v", x)] [EPrim PList [EVar "v"; EPrim PNull [EVar "v"]; EIf (EVar "v") (I 1) (Some (I 2))]]);
    (fun x => ELetStar [("v", x); ("w", EVar "v")] [EPrim PList [EVar "v"; EVar "w"]]);
    (fun x => ELet [("v", I 5)] [EPrim PList [ESetq [("v", x)]; EVar "v"]]);
    (fun x => EIf x (I 1) (Some (I 2))); (fun x => EWhen x [I 1]); (fun x => EUnless x [I 1]);
    (fun x => ECond [(x, [I 1]); (ET, [I 2])]); (fun x => ECond [(x, []); (ET, [I 2])]);
    (fun x => EAnd [x; I 1]); (fun x => EOr [x; I 3]);
    (fun x => EDo false [("i", I 0, Some (EPrim PInc [EVar "i"]))] (EOr [EPrim PGt [EVar "i"; I 1]; x]) [EVar "i"] []);
    (fun x => EDo true [("v", x, Some x); ("i", I 0, Some (EPrim PInc [EVar "i"]))] (EPrim PGt [EVar "i"; I 1]) [EPrim PList [EVar "v"]] []);
    (fun x => ELet [("r", I 0)] [EDolist "v" x (Some (EVar "r")) [ESetq [("r", EPrim PAdd [EVar "r"; I 1])]]]);
    (fun x => EDotimes "i" x (Some (EVar "i")) []);
    (fun x => EMapcar (ELambda ["v"] [x]) [EQuote (DList [DInt 1; DInt 2])]);
    (fun x => EFuncall (ELambdaO [] [("o", x)] [EPrim PList [EVar "o"; EPrim PNull [EVar "o"]]]) []) ].
Definition same_obs (a b : result) : bool :=
  match fst a, fst b with
  | Ok v, Ok w => val_eqb v w
  | Er e, Er e' => err_eqb e e'
  | _, _ => false
  end && zs_eqb (trace (snd a)) (trace (snd b)).
Example zero_values_behave_as_nil :
  forallb (fun m => forallb (fun c => same_obs (run m 80 [c (EValues [])]) (run m 80 [c ENil]) &&
                                      same_obs (run m 80 [c (EProgn [EValues []])]) (run m 80 [c ENil]) &&
                                      same_obs (run m 80 [c (EFuncall (ELambda [] [EValues []]) [])]) (run m 80 [c ENil]))
                             sv_contexts) [Slip; Ref] = true.
Proof. vm_compute; reflexivity. Qed.

(* ------------------------------------------------------------------------------------------ non-vacuity *)
(* the guard is satisfiable by programs that use closures, assignment through closures, shadowing, loops, recursion
   and multiple values in the places where Go and the language agree:
   (defun f (n a) (if (< n 1) a (f (- n 1) (+ a n))))
   (let ((c 0) (x 1))
     (let ((inc (lambda (d) (setq c (+ c d)))) (x 2))
       (dolist (y '(1 2 3)) (funcall inc (tr 1 y)))
       (multiple-value-bind (p q) (values (f 3 0) x) (list c p q (let ((x 3)) (funcall inc x)))))) *)
Definition ex_guarded :=
  [EDefun "f" ["n"; "a"] [EIf (EPrim PLt [EVar "n"; I 1]) (EVar "a")
      (Some (ECall "f" [EPrim PSub [EVar "n"; I 1]; EPrim PAdd [EVar "a"; EVar "n"]]))];
   ELet [("c", I 0); ("x", I 1)]
     [ELet [("inc", ELambda ["d"] [ESetq [("c", EPrim PAdd [EVar "c"; EVar "d"])]]); ("x", I 2)]
        [EDolist "y" (EQuote (DList [DInt 1; DInt 2; DInt 3])) None [EFuncall (EVar "inc") [ETr 1 (EVar "y")]];
         EMvb ["p"; "q"] (EValues [ECall "f" [I 3; I 0]; EVar "x"])
           [EPrim PList [EVar "c"; EVar "p"; EVar "q"; ELet [("x", I 3)] [EFuncall (EVar "inc") [EVar "x"]]]]]]].
Example guard_satisfiable :
  guardb 60 ex_guarded = true /\
  fst (runS 60 ex_guarded) = Ok (VList [VInt 6; VInt 6; VInt 2; VInt 9]) /\ trace (snd (runS 60 ex_guarded)) = [1; 1; 1]%Z.
Proof. repeat split; vm_compute; reflexivity. Qed.
Example guard_satisfiable_M_is_S : runM 60 ex_guarded = runS 60 ex_guarded.
Proof. apply guard_sound, guardb_guard. vm_compute; reflexivity. Qed.

(* hypotheses of let_parallel / letstar_sequential / call_args_once_ltr are met by evaluations that finish *)
Example let_parallel_nonvacuous :
  let p := ELet [("x", ETr 1 (I 1)); ("y", ETr 2 (I 2))] [EPrim PList [EVar "x"; EVar "y"]] in
  fst (eval Ref 10 st0 [] p) <> Er EFuel /\ fst (eval Ref 10 st0 [] p) = Ok (VList [VInt 1; VInt 2]).
Proof. split; [intro H; vm_compute in H; discriminate H | vm_compute; reflexivity]. Qed.
Example wf_scope_nonvacuous :
  let st := snd (run Ref 20 [ELet [("x", I 1)] [ELambda [] [EVar "x"]]]) in
  wf_scope st [(0, 1)] /\ locate true (frames st) [(0, 1)] "x" = Some (0, 0).
Proof.
  vm_compute. split; [|reflexivity]. repeat constructor.
Qed.

(* do steps in parallel, do* in sequence:
   (do  ((i 0 (+ i 1)) (j 10 (+ i j))) ((= i 3) (list i j)))  =>  (3 13)
   (do* ((i 0 (+ i 1)) (j 10 (+ i j))) ((= i 3) (list i j)))  =>  (3 16)   in every mode *)
Definition ex_do (star : bool) :=
  [EDo star [("i", I 0, Some (EPrim PAdd [EVar "i"; I 1])); ("j", I 10, Some (EPrim PAdd [EVar "i"; EVar "j"]))]
     (EPrim PNumEq [EVar "i"; I 3]) [EPrim PList [EVar "i"; EVar "j"]] []].
Example do_parallel_dostar_sequential :
  forallb (fun m => match fst (run m 60 (ex_do false)), fst (run m 60 (ex_do true)) with
                    | Ok (VList [VInt 3; VInt 13]), Ok (VList [VInt 3; VInt 16]) => true | _, _ => false end)
          [Slip; Ref; Chk] = true.
Proof. vm_compute; reflexivity. Qed.

(* Repair C01-22.  A lambda expression called where it stands - the lambda form ((lambda ps body) a ..), or
   (funcall (lambda ps body) a ..), with #' or with function: all are EFuncall (ELambda ps body) [a; ..] - makes its
   closure over the scope of THIS evaluation: the function called is (ps, body, sc) with sc the scope the form is
   evaluated in, whatever the state, i.e. whatever was evaluated before at the same code position.  (ListToFunc kept
   the closure of the first evaluation in the function object cached in the code.) *)
Lemma inline_lambda_call : forall m n st sc ps body es v st',
  eval m (S (S n)) st sc (EFuncall (ELambda ps body) es) = (Ok v, st') <->
  exists vs st1, args_ltr m (eval m (S n)) sc st es vs st1 /\
    apply_fn m (eval m (S n)) st1 (CClo ps [] body sc) vs = (Ok v, st').
Proof.
  intros m n st sc ps body es v st'. rewrite funcall_order. split.
  - intros (fv & vs & st1 & c & Ha & Hr & Hp).
    inversion Ha as [|s0 e0 es0 v0 a st2 vs0 s' H1 H2 H3]; subst.
    simpl in H1. inversion H1; subst. unfold arg_red in H2. simpl in H2. inversion H2; subst.
    simpl in Hr. inversion Hr; subst. exists vs, st1. split; assumption.
  - intros (vs & st1 & Ha & Hp). exists (VClo ps [] body sc), vs, st1, (CClo ps [] body sc).
    split; [|split; [reflexivity|exact Hp]].
    econstructor; [simpl; reflexivity | reflexivity | exact Ha].
Qed.

(* the former witnesses, in the three modes:
   (let ((r nil)) (dotimes (i 3) (let ((n i)) (setq r (cons ((lambda (x) (+ x n)) 1) r)))) r)  =>  (3 2 1)   [was (1 1 1)]
   (defun f (k) (let ((n k)) (list ((lambda (x) (setq n (+ n x))) 1) n))) (list (f 10) (f 20))
                                                                   =>  ((11 11) (21 21))   [was ((11 11) (12 20))] *)
Definition w_lambda_form_loop :=
  [ELet [("r", EConst DNil)]
     [EDotimes "i" (I 3) None
        [ELet [("n", EVar "i")]
           [ESetq [("r", EPrim PCons [EFuncall (ELambda ["x"] [EPrim PAdd [EVar "x"; EVar "n"]]) [I 1]; EVar "r"])]]];
      EVar "r"]].
Definition w_lambda_form_defun :=
  [EDefun "f" ["k"]
     [ELet [("n", EVar "k")]
        [EPrim PList [EFuncall (ELambda ["x"] [ESetq [("n", EPrim PAdd [EVar "n"; EVar "x"])]]) [I 1]; EVar "n"]]];
   EPrim PList [ECall "f" [I 10]; ECall "f" [I 20]]].
Example lambda_form_each_evaluation :
  forallb (fun m => match fst (run m 60 w_lambda_form_loop), fst (run m 60 w_lambda_form_defun) with
                    | Ok (VList [VInt 3; VInt 2; VInt 1]),
                      Ok (VList [VList [VInt 11; VInt 11]; VList [VInt 21; VInt 21]]) => true
                    | _, _ => false end) [Slip; Ref; Chk] = true.
Proof. vm_compute; reflexivity. Qed.
