From C01 Require Import Model Spec.
Lemma quote_identity : forall m n st sc d, eval m (S n) st sc (EQuote d) = (Ok (inj d), st).
Proof. reflexivity. Qed.
