(* C01 — S, the reference evaluator, is [eval Ref]; M is [eval Slip]; the guard is the run in mode Chk. *)
From C01 Require Export Model.
Definition evalS := eval Ref.
Definition evalM := eval Slip.
Definition runS := run Ref.
Definition runM := run Slip.
