(* C01 — the specification.

   S, the reference evaluator, is [eval Ref]: the evaluator of Model.v with every switch set to what the language
   definition says: lexical scoping (a scope sees the cells that existed when it was formed), a variable bound by
   let / let* / do / do* or by the default form of an &optional parameter holds the primary value of that form.  (Since the
   repairs C01-6..19 everything else - tests and the other single-value places take the primary value, the last form
   of progn / a body passes all its values on, dotimes leaves the number of iterations in its variable, the end test
   of do is evaluated whatever its shape - is the same definition in every mode.)
   M, the model of the Go code, is [eval Slip].
   The guard is the run in mode Chk: it stops with [Er EDev] at the first switch where M and S would part ways.
   [Laws.v] proves about S (and about M wherever the statement does not depend on the mode) the laws the property
   names; [guard_sound] proves M = S on the guard. *)
From C01 Require Export Model.

Definition evalS := eval Ref.
Definition evalM := eval Slip.
Definition runS := run Ref.
Definition runM := run Slip.
(* the guard, as a proposition and as a boolean *)
Definition guard (n : nat) (p : list expr) : Prop := fst (run Chk n p) <> Er EDev.
Definition guardb (n : nat) (p : list expr) : bool :=
  match fst (run Chk n p) with Er EDev => false | _ => true end.
Lemma guardb_guard : forall n p, guardb n p = true -> guard n p.
Proof.
  unfold guardb, guard; intros n p H C. rewrite C in H. discriminate.
Qed.
