(* C01 — the evaluator.  ONE fuelled big-step evaluator [eval m] for the core language, run in three modes:

     Slip : M, what the Go code does (function.go Function.Eval, scope.go get/set/Let, lambda.go Call/BoundCall,
            pkg/cl/{let,letx,setq,if,cond,case,and,or,when,unless,progn,prog1,dolist,dotimes,do,dox,lambda,
            defun,funcall,apply,mapcar,multiple-value-bind,values,quote}.go), including its deviations;
     Ref  : S, what the language definition says (the reference evaluator);
     Chk  : the guard: behaves like both where they agree and stops with [Er EDev] at the first point where
            the Go code and the language definition part ways.

   State.  slip.Scope = a map of variables + parent scopes.  Here: a heap of frames (frame = association list,
   cells are only ever appended or overwritten, never removed), a scope = list of (frame id, height), the frames
   searched innermost first exactly like Scope.get/localGet/set walk Vars and then parents.  The height is the
   number of cells the frame had when the scope was formed: the reference evaluator only sees that prefix (lexical
   scoping), the Go code sees the whole map.  (Before the repairs C01-12/13 a closure made while a dolist / dotimes /
   do* scope was still being filled later saw the cells added afterwards, and until the repair of the binder a closure
   made by a default form saw the parameters bound after it; now every frame is complete when the first scope over it
   is formed.)  No definition
   in this file is mode-dependent except through the small functions [store_red] and [locate_m]: they are
   the complete list of places where M and S differ.

   Side effects are calls of the harness-defined function (tr k e): evaluates e, appends k to the trace, returns
   the (primary) value of e.  No proofs in this file. *)
From Coq Require Export List Bool Arith ZArith String Lia.
Export ListNotations.
Open Scope list_scope.

(* ---------------------------------------------------------------------------------------------- syntax *)
Inductive datum :=
| DNil | DT | DInt (z : Z) | DSym (s : string) | DStr (s : string)
| DRaw (s : string)                       (* any other atom (character, float, ratio, keyword) by its printed text *)
| DList (ds : list datum) | DDot (ds : list datum) (tl : datum).

Inductive prim := PAdd | PSub | PInc | PLt | PGt | PNumEq | PList | PCons | PCar | PCdr | PNot | PNull | PEql | PLength.

Inductive expr :=
| EConst (d : datum)                                   (* self-evaluating: integer, string, nil, t, keyword *)
| EVar (x : string)
| EQuote (d : datum)
| EFun (f : string)                                    (* (function f) *)
| EProgn (es : list expr)
| EProg1 (e : expr) (es : list expr)
| EIf (c a : expr) (b : option expr)
| EWhen (c : expr) (es : list expr)
| EUnless (c : expr) (es : list expr)
| ECond (cls : list (expr * list expr))
| ECase (k : expr) (cls : list (list datum * list expr)) (dflt : option (list expr))
| EAnd (es : list expr)
| EOr (es : list expr)
| ELet (bs : list (string * expr)) (es : list expr)
| ELetStar (bs : list (string * expr)) (es : list expr)
| ESetq (ps : list (string * expr))
| ELambda (ps : list string) (es : list expr)
| EDefun (f : string) (ps : list string) (es : list expr)
| ELambdaO (ps : list string) (os : list (string * expr)) (es : list expr)      (* (lambda (p.. &optional (o default)..) ..) *)
| EDefunO (f : string) (ps : list string) (os : list (string * expr)) (es : list expr)
| ECall (f : string) (es : list expr)                  (* call of a function made by defun *)
| EPrim (p : prim) (es : list expr)                    (* call of a strict built-in *)
| EFuncall (f : expr) (es : list expr)
| EApply (f : expr) (es : list expr)                   (* the last of es is the list argument *)
| EMapcar (f : expr) (ls : list expr)
| EDolist (x : string) (l : expr) (r : option expr) (es : list expr)
| EDotimes (x : string) (n : expr) (r : option expr) (es : list expr)
| EDo (star : bool) (bs : list (string * expr * option expr)) (test : expr) (rs es : list expr)   (* do / do* *)
| EDoLoop (star : bool) (bs : list (string * expr * option expr)) (test : expr) (rs es : list expr)
      (* internal: the loop of a do whose variables are bound in the innermost frame; never generated *)
| EValues (es : list expr)
| EMvb (xs : list string) (e : expr) (es : list expr)
| ETr (k : Z) (e : expr).

(* ---------------------------------------------------------------------------------------------- values *)
Definition scope := list (nat * nat).                   (* (frame id, visible height), innermost first *)

Inductive val :=
| VNil | VT | VInt (z : Z) | VSym (s : string) | VStr (s : string) | VRaw (s : string)
| VList (vs : list val)                                 (* proper non-empty list *)
| VDot (vs : list val) (tl : val)
| VClo (ps : list string) (os : list (string * expr)) (body : list expr) (sc : scope)
      (* *slip.Lambda with its Closure: required parameters, &optional parameters with their default forms *)
| VFn (f : string)                                      (* *slip.FuncInfo, the value of (function f) *)
| VValues (vs : list val).                              (* slip.Values: in the Go code an ordinary object *)

Definition mk_list (vs : list val) : val := match vs with [] => VNil | _ => VList vs end.

Fixpoint inj (d : datum) : val :=
  match d with
  | DNil => VNil | DT => VT | DInt z => VInt z | DSym s => VSym s | DStr s => VStr s | DRaw s => VRaw s
  | DList ds => mk_list (map inj ds)
  | DDot ds tl => VDot (map inj ds) (inj tl)
  end.

Definition is_values (v : val) : bool := match v with VValues _ => true | _ => false end.
Definition primary (v : val) : val := match v with VValues (x :: _) => x | VValues [] => VNil | _ => v end.
Definition is_nil (v : val) : bool := match v with VNil => true | _ => false end.
Definition values_list (v : val) : list val := match v with VValues vs => vs | _ => [v] end.

(* ---------------------------------------------------------------------------------------------- state *)
Definition frame := list (string * val).
Record state := mkSt { frames : list frame; funs : list (string * val); trace : list Z }.
Definition st0 : state := mkSt [] [] [].

Inductive mode := Slip | Ref | Chk.
Inductive err := EFuel | EDev | EUnbound | EUndefFun | EType | EArity | EFault | EMalformed | EOutOfModel.
Inductive out (A : Type) := Ok (a : A) | Er (e : err).
Arguments Ok {A} a. Arguments Er {A} e.
Definition res (A : Type) := (out A * state)%type.
Definition bind {A B} (r : res A) (k : A -> state -> res B) : res B :=
  match r with (Ok a, st) => k a st | (Er e, st) => (Er e, st) end.
Definition bindo {A B} (o : out A) (st : state) (k : A -> res B) : res B :=
  match o with Ok a => k a | Er e => (Er e, st) end.
Notation result := (res val).

(* frames *)
Fixpoint fr_index (fr : frame) (x : string) : option nat :=
  match fr with
  | [] => None
  | (y, _) :: fr' => if String.eqb x y then Some 0 else option_map S (fr_index fr' x)
  end.
(* Scope.Let / UnsafeLet on one map: overwrite the cell of that name or add one *)
Fixpoint fr_bind (fr : frame) (x : string) (v : val) : frame :=
  match fr with
  | [] => [(x, v)]
  | (y, w) :: fr' => if String.eqb x y then (y, v) :: fr' else (y, w) :: fr_bind fr' x v
  end.
Fixpoint fr_set (fr : frame) (i : nat) (v : val) : frame :=
  match fr, i with
  | [], _ => []
  | (y, _) :: fr', O => (y, v) :: fr'
  | c :: fr', S i' => c :: fr_set fr' i' v
  end.
Definition mk_frame (ps : list string) (vs : list val) : frame :=      (* ss.Let(param, arg) in order *)
  fold_left (fun fr pv => fr_bind fr (fst pv) (snd pv)) (combine ps vs) [].

Fixpoint set_nth {A} (n : nat) (x : A) (l : list A) : list A :=
  match n, l with
  | O, _ :: l' => x :: l'
  | S n', y :: l' => y :: set_nth n' x l'
  | _, [] => []
  end.

Definition get_frame (st : state) (f : nat) : frame := nth f (frames st) [].
Definition put_frame (st : state) (f : nat) (fr : frame) : state :=
  mkSt (set_nth f fr (frames st)) (funs st) (trace st).
(* Scope.NewScope + the cells: the new frame gets the next id *)
Definition alloc (st : state) (fr : frame) : nat * state :=
  (List.length (frames st), mkSt (frames st ++ [fr]) (funs st) (trace st)).
Definition bind_in (st : state) (f : nat) (x : string) (v : val) : state :=
  put_frame st f (fr_bind (get_frame st f) x v).
Definition add_trace (st : state) (k : Z) : state := mkSt (frames st) (funs st) (trace st ++ [k]).
Definition add_fun (st : state) (f : string) (c : val) : state := mkSt (frames st) ((f, c) :: funs st) (trace st).
Fixpoint find_fun (fs : list (string * val)) (f : string) : option val :=
  match fs with [] => None | (g, c) :: fs' => if String.eqb f g then Some c else find_fun fs' f end.

(* Scope.get / localGet / set: this map, then the parents in order.  [lim] = only the visible prefix. *)
Fixpoint locate (lim : bool) (fs : list frame) (sc : scope) (x : string) : option (nat * nat) :=
  match sc with
  | [] => None
  | (f, h) :: sc' =>
      let fr := nth f fs [] in
      match fr_index (if lim then firstn h fr else fr) x with
      | Some i => Some (f, i)
      | None => locate lim fs sc' x
      end
  end.
Definition loc_eqb (a b : option (nat * nat)) : bool :=
  match a, b with
  | None, None => true
  | Some (f, i), Some (g, j) => Nat.eqb f g && Nat.eqb i j
  | _, _ => false
  end.
Definition cell_get (fs : list frame) (l : nat * nat) : option val :=
  option_map snd (nth_error (nth (fst l) fs []) (snd l)).
Definition cell_set (st : state) (l : nat * nat) (v : val) : state :=
  put_frame st (fst l) (fr_set (get_frame st (fst l)) (snd l) v).

(* ------------------------------------------------------------------ the places where M and S differ *)
(* which cell a name denotes *)
Definition locate_m (m : mode) (fs : list frame) (sc : scope) (x : string) : out (option (nat * nat)) :=
  match m with
  | Slip => Ok (locate false fs sc x)
  | Ref => Ok (locate true fs sc x)
  | Chk => if loc_eqb (locate false fs sc x) (locate true fs sc x) then Ok (locate true fs sc x) else Er EDev
  end.
(* Function.Eval: an evaluated argument that is a Values object is replaced by vs.First(): its first element, nil
   when there is none (the same in every mode since the repair of Values.First; the mode argument is kept for
   uniformity with the other switches) *)
Definition arg_red (m : mode) (v : val) : out val := Ok (primary v).
(* let, let*, do, do* (initial and step values): Go stores the object EvalArg returned, Values included *)
Definition store_red (m : mode) (v : val) : out val :=
  match m with
  | Slip => Ok v
  | Ref => Ok (primary v)
  | Chk => if is_values v then Er EDev else Ok v
  end.
(* tests of if, when, unless, cond, and, do, do* : the primary value is compared with nil (the same in every mode since the
   repair that routes the tests through firstValue; the mode argument is kept for uniformity with the other switches) *)
Definition truthy (m : mode) (v : val) : out bool := Ok (negb (is_nil (primary v))).
(* or, a form that is not the last one: Some r = stop with r.  The primary value is tested and returned (the same in
   every mode since the repair of or.go; the mode argument is kept for uniformity with the other switches) *)
Definition or_step (m : mode) (v : val) : out (option val) :=
  Ok (if is_nil (primary v) then None else Some (primary v)).

(* ---------------------------------------------------------------------------------------------- built-ins *)
Definition big : Z := 4611686018427387904%Z.             (* 2^62: beyond it fixnum arithmetic is C05's *)
Definition vint (z : Z) : out val := if (Z.abs z <? big)%Z then Ok (VInt z) else Er EOutOfModel.
Definition vbool (b : bool) : val := if b then VT else VNil.
Fixpoint ints (vs : list val) : option (list Z) :=
  match vs with
  | [] => Some []
  | VInt z :: vs' => option_map (cons z) (ints vs')
  | _ => None
  end.
Fixpoint chain (r : Z -> Z -> bool) (zs : list Z) : bool :=
  match zs with a :: ((b :: _) as zs') => r a b && chain r zs' | _ => true end.
Definition val_eql (a b : val) : bool :=
  match a, b with
  | VNil, VNil | VT, VT => true
  | VInt x, VInt y => Z.eqb x y
  | VSym x, VSym y => String.eqb x y
  | _, _ => false
  end.
Definition prim_apply (p : prim) (vs : list val) : out val :=
  match p with
  | PAdd => match ints vs with Some zs => vint (fold_left Z.add zs 0%Z) | None => Er EType end
  | PSub => match ints vs with
            | Some [z] => vint (- z)
            | Some (z :: zs) => vint (fold_left Z.sub zs z)
            | Some [] => Er EMalformed
            | None => Er EType
            end
  | PInc => match vs with [VInt z] => vint (z + 1) | [_] => Er EType | _ => Er EMalformed end
  | PLt => match vs with [] => Er EMalformed | _ => match ints vs with Some zs => Ok (vbool (chain Z.ltb zs)) | None => Er EType end end
  | PGt => match vs with [] => Er EMalformed | _ => match ints vs with Some zs => Ok (vbool (chain Z.gtb zs)) | None => Er EType end end
  | PNumEq => match vs with [] => Er EMalformed | _ => match ints vs with Some zs => Ok (vbool (chain Z.eqb zs)) | None => Er EType end end
  | PList => Ok (mk_list vs)
  | PCons => match vs with
             | [a; VNil] => Ok (VList [a])
             | [a; VList l] => Ok (VList (a :: l))
             | [a; VDot l t] => Ok (VDot (a :: l) t)
             | [a; b] => Ok (VDot [a] b)
             | _ => Er EMalformed
             end
  | PCar => match vs with
            | [VNil] => Ok VNil
            | [VList (x :: _)] => Ok x
            | [VDot (x :: _) _] => Ok x
            | [_] => Er EType
            | _ => Er EMalformed
            end
  | PCdr => match vs with
            | [VNil] => Ok VNil
            | [VList (_ :: l)] => Ok (mk_list l)
            | [VDot [_] t] => Ok t
            | [VDot (_ :: l) t] => Ok (VDot l t)
            | [_] => Er EType
            | _ => Er EMalformed
            end
  | PNot | PNull => match vs with [v] => Ok (vbool (is_nil v)) | _ => Er EMalformed end
  | PEql => match vs with [a; b] => Ok (vbool (val_eql a b)) | _ => Er EMalformed end
  | PLength => match vs with
               | [VNil] => Ok (VInt 0)
               | [VList l] => Ok (VInt (Z.of_nat (List.length l)))
               | [_] => Er EType
               | _ => Er EMalformed
               end
  end.
Definition prim_name (s : string) : option prim :=
  if String.eqb s "+" then Some PAdd else if String.eqb s "-" then Some PSub else if String.eqb s "1+" then Some PInc
  else if String.eqb s "<" then Some PLt else if String.eqb s ">" then Some PGt else if String.eqb s "=" then Some PNumEq
  else if String.eqb s "list" then Some PList else if String.eqb s "cons" then Some PCons
  else if String.eqb s "car" then Some PCar else if String.eqb s "cdr" then Some PCdr
  else if String.eqb s "not" then Some PNot else if String.eqb s "null" then Some PNull
  else if String.eqb s "eql" then Some PEql else if String.eqb s "length" then Some PLength else None.

(* what funcall / apply / mapcar can call: ResolveToCaller *)
Inductive callable := CClo (ps : list string) (os : list (string * expr)) (body : list expr) (sc : scope) | CPrim (p : prim).
Definition resolve_name (st : state) (f : string) : out callable :=
  match find_fun (funs st) f with
  | Some (VClo ps os body sc) => Ok (CClo ps os body sc)
  | Some _ => Er EMalformed
  | None => match prim_name f with Some p => Ok (CPrim p) | None => Er EUndefFun end
  end.
Definition resolve (st : state) (v : val) : out callable :=
  match v with
  | VClo ps os body sc => Ok (CClo ps os body sc)
  | VSym f | VFn f => resolve_name st f
  | _ => Er EType
  end.
Definition case_key (v : val) (d : datum) : bool :=
  match d with
  | DInt z => val_eql v (VInt z) | DSym s => val_eql v (VSym s) | DNil => is_nil v | DT => val_eql v VT
  | _ => false
  end.
Fixpoint drop {A} (l : list A) (k : nat) : list A :=
  match l with [] => [] | x :: l' => match k with O => l | S k' => drop l' k' end end.
Fixpoint pad (vs : list val) (n : nat) : list val :=
  match n with O => [] | S n' => match vs with [] => VNil :: pad [] n' | v :: vs' => v :: pad vs' n' end end.
Fixpoint transpose (n : nat) (ls : list (list val)) : list (list val) :=    (* the n argument rows of mapcar *)
  match n with
  | O => []
  | S n' => map (fun l => hd VNil l) ls :: transpose n' (map (fun l => tl l) ls)
  end.
Definition list_of (v : val) : option (list val) :=
  match v with VNil => Some [] | VList l => Some l | _ => None end.
Fixpoint lists_of (vs : list val) : option (list (list val)) :=
  match vs with
  | [] => Some []
  | v :: vs' => match list_of v, lists_of vs' with Some l, Some ls => Some (l :: ls) | _, _ => None end
  end.
Definition min_len (ls : list (list val)) : nat :=
  match ls with [] => 0 | l :: ls' => fold_left (fun a l' => Nat.min a (List.length l')) ls' (List.length l) end.

(* ---------------------------------------------------------------------------------------------- evaluator *)
Section Eval.
Variable m : mode.
Variable ev : state -> scope -> expr -> result.          (* the evaluator with one unit of fuel less *)

(* forms in sequence through EvalArg (bodies of let, when, cond clauses, lambdas ...): the last object *)
Fixpoint ev_seq (st : state) (sc : scope) (es : list expr) (last : val) : result :=
  match es with
  | [] => (Ok last, st)
  | e :: es' => bind (ev st sc e) (fun v st1 => ev_seq st1 sc es' v)
  end.
(* Function.Eval: left to right, each once, reduced to the primary value *)
Fixpoint ev_args (st : state) (sc : scope) (es : list expr) : res (list val) :=
  match es with
  | [] => (Ok [], st)
  | e :: es' =>
      bind (ev st sc e) (fun v st1 =>
      bindo (arg_red m v) st1 (fun a =>
      bind (ev_args st1 sc es') (fun vs st2 => (Ok (a :: vs), st2))))
  end.
(* init forms of let / do: evaluated in the outer scope, stored as [store_red] says *)
Fixpoint ev_inits (st : state) (sc : scope) (es : list expr) : res (list val) :=
  match es with
  | [] => (Ok [], st)
  | e :: es' =>
      bind (ev st sc e) (fun v st1 =>
      bindo (store_red m v) st1 (fun a =>
      bind (ev_inits st1 sc es') (fun vs st2 => (Ok (a :: vs), st2))))
  end.
Definition ev_test (st : state) (sc : scope) (c : expr) : res bool :=
  bind (ev st sc c) (fun v st1 => (truthy m v, st1)).

Fixpoint ev_cond (st : state) (sc : scope) (cls : list (expr * list expr)) : result :=
  match cls with
  | [] => (Ok VNil, st)
  | (c, body) :: cls' =>
      bind (ev st sc c) (fun v st1 =>
      bindo (truthy m v) st1 (fun b =>
      if b then match body with
                | [] => (Ok (primary v), st1)          (* the primary value of the test (after the repair) *)
                | _ => ev_seq st1 sc body VNil
                end
      else ev_cond st1 sc cls'))
  end.
Fixpoint find_clause (v : val) (cls : list (list datum * list expr)) : option (list expr) :=
  match cls with
  | [] => None
  | (ks, body) :: cls' => if existsb (case_key v) ks then Some body else find_clause v cls'
  end.
Fixpoint ev_and (st : state) (sc : scope) (es : list expr) : result :=
  match es with
  | [] => (Ok VT, st)
  | [e] => ev st sc e
  | e :: es' => bind (ev_test st sc e) (fun b st1 => if b then ev_and st1 sc es' else (Ok VNil, st1))
  end.
Fixpoint ev_or (st : state) (sc : scope) (es : list expr) : result :=
  match es with
  | [] => (Ok VNil, st)
  | [e] => ev st sc e
  | e :: es' =>
      bind (ev st sc e) (fun v st1 =>
      bindo (or_step m v) st1 (fun o => match o with Some r => (Ok r, st1) | None => ev_or st1 sc es' end))
  end.
(* let* (after the repair): one scope per binding, each init form sees the bindings before it *)
Fixpoint ev_letstar (st : state) (sc : scope) (bs : list (string * expr)) (es : list expr) : result :=
  match bs with
  | [] => ev_seq st sc es VNil
  | (x, e) :: bs' =>
      bind (ev st sc e) (fun v st1 =>
      bindo (store_red m v) st1 (fun a =>
      let '(f, st2) := alloc st1 [(x, a)] in ev_letstar st2 ((f, 1) :: sc) bs' es))
  end.
(* Scope.Set: the first scope that has the name *)
Definition assign (st : state) (sc : scope) (x : string) (v : val) : res unit :=
  bindo (locate_m m (frames st) sc x) st (fun l =>
  match l with
  | Some l => (Ok tt, cell_set st l v)
  | None => (Er EOutOfModel, st)                (* Go would create a package variable *)
  end).
Fixpoint ev_setq (st : state) (sc : scope) (ps : list (string * expr)) (last : val) : result :=
  match ps with
  | [] => (Ok last, st)
  | (x, e) :: ps' =>
      bind (ev st sc e) (fun v st1 =>
      bindo (arg_red m v) st1 (fun a =>              (* Scope.Set stores vs.First() *)
      bind (assign st1 sc x a) (fun _ st2 => ev_setq st2 sc ps' a)))      (* setq returns what it stored *)
  end.

(* the &optional parameters that got no argument, in order: the default form is evaluated in the scope built so far -
   it sees the parameters before it - and the parameter is bound in a NEW scope below it (after the repair of the
   binder: one scope per such parameter, like let*, so a closure made by a default form never sees the parameters
   that follow; cur.Let stores the object, Values included, like let).  [bnd]: the names bound so far in the scopes of
   this call; a parameter whose name is among them keeps its value (bound(name) in the Go code).  The result is the
   innermost scope, in which the body runs. *)
Fixpoint ev_defaults (st : state) (sc : scope) (bnd : list string) (os : list (string * expr)) : res scope :=
  match os with
  | [] => (Ok sc, st)
  | (x, e) :: os' =>
      if existsb (String.eqb x) bnd then ev_defaults st sc bnd os'
      else bind (ev st sc e) (fun v st1 =>
           bindo (store_red m v) st1 (fun a =>
           let '(f, st2) := alloc st1 [(x, a)] in ev_defaults st2 ((f, 1) :: sc) (x :: bnd) os'))
  end.
(* Lambda.Call + BoundCall; Caller.Call of a built-in.  Too many and (since the repair of the binder) too few
   arguments are errors; the arguments are bound to the required and then to the &optional parameters. *)
Definition apply_fn (st : state) (c : callable) (args : list val) : result :=
  match c with
  | CPrim p => (prim_apply p args, st)
  | CClo ps os body csc =>
      if List.length ps + List.length os <? List.length args then (Er EArity, st)
      else if List.length args <? List.length ps then (Er EArity, st)
      else let fr := mk_frame (ps ++ map fst os) args in
           let '(f, st1) := alloc st fr in
           match drop os (List.length args - List.length ps) with
           | [] => ev_seq st1 ((f, List.length fr) :: csc) body VNil
           | ds => bind (ev_defaults st1 ((f, List.length fr) :: csc) (map fst fr) ds) (fun sc1 st2 =>
                   ev_seq st2 sc1 body VNil)
           end
  end.
Fixpoint ev_map (st : state) (c : callable) (rows : list (list val)) : res (list val) :=
  match rows with
  | [] => (Ok [], st)
  | row :: rows' =>
      bind (apply_fn st c row) (fun v st1 =>                  (* the primary value of each call (after the repair) *)
      bind (ev_map st1 c rows') (fun vs st2 => (Ok (primary v :: vs), st2)))
  end.
(* dolist / dotimes: the variable lives in cell 0 of frame f *)
Fixpoint ev_iter (st : state) (sc : scope) (f : nat) (x : string) (vs : list val) (es : list expr) : res unit :=
  match vs with
  | [] => (Ok tt, st)
  | v :: vs' => bind (ev_seq (bind_in st f x v) sc es VNil) (fun _ st1 => ev_iter st1 sc f x vs' es)
  end.
Definition ev_opt (st : state) (sc : scope) (r : option expr) : result :=
  match r with None => (Ok VNil, st) | Some e => ev st sc e end.
(* do* (after the repair of setupDo): initial values in sequence, each init form sees the variables before it, each
   variable gets a scope of its own like let*; the result is the innermost scope *)
Fixpoint ev_inits_seq (st : state) (sc : scope) (bs : list (string * expr * option expr)) : res scope :=
  match bs with
  | [] => (Ok sc, st)
  | (x, e, _) :: bs' =>
      bind (ev st sc e) (fun v st1 =>
      bindo (store_red m v) st1 (fun a =>
      let '(f, st2) := alloc st1 [(x, a)] in ev_inits_seq st2 ((f, 1) :: sc) bs'))
  end.
(* do: all step forms, then all assignments; a variable without step form keeps its value (after the repair) *)
Fixpoint ev_steps_par (st : state) (sc : scope) (bs : list (string * expr * option expr)) : res (list (string * val)) :=
  match bs with
  | [] => (Ok [], st)
  | (x, _, None) :: bs' => ev_steps_par st sc bs'
  | (x, _, Some s) :: bs' =>
      bind (ev st sc s) (fun v st1 =>
      bindo (store_red m v) st1 (fun a =>
      bind (ev_steps_par st1 sc bs') (fun xs st2 => (Ok ((x, a) :: xs), st2))))
  end.
(* do*: each step form, evaluated in the innermost scope, is assigned at once to its variable in the scope where
   that variable lives (sb.scope.UnsafeLet): fs are the frames of the variables, in the order of the bindings *)
Fixpoint ev_steps_seq (st : state) (sc : scope) (fs : list nat) (bs : list (string * expr * option expr)) : res unit :=
  match bs, fs with
  | [], _ => (Ok tt, st)
  | _ :: _, [] => (Er EMalformed, st)
  | (x, _, None) :: bs', _ :: fs' => ev_steps_seq st sc fs' bs'
  | (x, _, Some s) :: bs', f :: fs' =>
      bind (ev st sc s) (fun v st1 =>
      bindo (store_red m v) st1 (fun a => ev_steps_seq (bind_in st1 f x a) sc fs' bs'))
  end.
(* the frames of the n variables of a do* whose innermost scope is sc, outermost variable first *)
Definition var_frames (n : nat) (sc : scope) : list nat := map fst (rev (firstn n sc)).

Definition evalF (st : state) (sc : scope) (e : expr) : result :=
  match e with
  | EConst d => (Ok (inj d), st)
  | EQuote d => (Ok (inj d), st)
  | EVar x =>
      bindo (locate_m m (frames st) sc x) st (fun l =>
      match l with
      | Some l => match cell_get (frames st) l with Some v => (Ok v, st) | None => (Er EMalformed, st) end
      | None => (Er EUnbound, st)
      end)
  | EFun f => bindo (resolve_name st f) st (fun _ => (Ok (VFn f), st))
  | EProgn es => ev_seq st sc es VNil        (* Progn.Call (after the repair): the forms in sequence, every value of the last *)
  | EProg1 e es =>
      bind (ev_args st sc (e :: es)) (fun vs st1 => (Ok (hd VNil vs), st1))
  | EIf c a b =>
      bind (ev_test st sc c) (fun t st1 => if t then ev st1 sc a else ev_opt st1 sc b)
  | EWhen c es =>
      bind (ev_test st sc c) (fun t st1 => if t then ev_seq st1 sc es VNil else (Ok VNil, st1))
  | EUnless c es =>
      bind (ev_test st sc c) (fun t st1 => if t then (Ok VNil, st1) else ev_seq st1 sc es VNil)
  | ECond cls => ev_cond st sc cls
  | ECase k cls dflt =>
      bind (ev_args st sc [k]) (fun vs st1 =>
      match find_clause (hd VNil vs) cls with
      | Some body => ev_seq st1 sc body VNil
      | None => match dflt with Some body => ev_seq st1 sc body VNil | None => (Ok VNil, st1) end
      end)
  | EAnd es => ev_and st sc es
  | EOr es => ev_or st sc es
  | ELet bs es =>
      bind (ev_inits st sc (map snd bs)) (fun vs st1 =>
      let fr := mk_frame (map fst bs) vs in
      let '(f, st2) := alloc st1 fr in
      ev_seq st2 ((f, List.length fr) :: sc) es VNil)
  | ELetStar bs es => ev_letstar st sc bs es
  | ESetq ps => ev_setq st sc ps VNil
  | ELambda ps es => (Ok (VClo ps [] es sc), st)
  | EDefun f ps es => (Ok (VSym f), add_fun st f (VClo ps [] es sc))
  | ELambdaO ps os es => (Ok (VClo ps os es sc), st)
  | EDefunO f ps os es => (Ok (VSym f), add_fun st f (VClo ps os es sc))
  | ECall f es =>
      match find_fun (funs st) f with
      | Some (VClo ps os body csc) =>
          bind (ev_args st sc es) (fun vs st1 => apply_fn st1 (CClo ps os body csc) vs)
      | Some _ => (Er EMalformed, st)
      | None => (Er EUndefFun, st)
      end
  | EPrim p es => bind (ev_args st sc es) (fun vs st1 => (prim_apply p vs, st1))
  | EFuncall f es =>
      bind (ev_args st sc (f :: es)) (fun vs st1 =>
      match vs with
      | fv :: args => bindo (resolve st1 fv) st1 (fun c => apply_fn st1 c args)
      | [] => (Er EMalformed, st1)
      end)
  | EApply f es =>
      bind (ev_args st sc (f :: es)) (fun vs st1 =>
      match vs with
      | fv :: args =>
          bindo (resolve st1 fv) st1 (fun c =>
          match rev args with
          | [] => (Er EMalformed, st1)
          | l :: front => match list_of l with
                          | Some tail => apply_fn st1 c (rev front ++ tail)
                          | None => (Er EType, st1)
                          end
          end)
      | [] => (Er EMalformed, st1)
      end)
  | EMapcar f ls =>
      bind (ev_args st sc (f :: ls)) (fun vs st1 =>
      match vs with
      | fv :: ((_ :: _) as lvs) =>
          bindo (resolve st1 fv) st1 (fun c =>
          match lists_of lvs with
          | Some lists => bind (ev_map st1 c (transpose (min_len lists) lists)) (fun rs st2 => (Ok (mk_list rs), st2))
          | None => (Er EType, st1)
          end)
      | _ => (Er EMalformed, st1)
      end)
  (* dolist / dotimes (after the repair): the list / count form is evaluated in the enclosing scope, then the scope
     of the variable is made *)
  | EDolist x l r es =>
      bind (ev st sc l) (fun v st2 =>
      let v' := primary v in                               (* the first value of the form (after the repair) *)
      match list_of v' with
      | None => (Er EType, st2)
      | Some vs =>
          let '(f, st3) := alloc st2 [(x, VNil)] in
          let sc1 := (f, 1) :: sc in
          bind (ev_iter st3 sc1 f x vs es) (fun _ st4 => ev_opt (bind_in st4 f x VNil) sc1 r)
      end)
  | EDotimes x n r es =>
      bind (ev st sc n) (fun v st2 =>
      let v' := primary v in                               (* the first value of the form (after the repair) *)
      match v' with
      | VInt k =>
          let '(f, st3) := alloc st2 [(x, VNil)] in
          let sc1 := (f, 1) :: sc in
          bind (ev_iter st3 sc1 f x (map (fun i => VInt (Z.of_nat i)) (seq 0 (Z.to_nat k))) es)
               (* the variable is finally bound to the number of iterations: 0 for a negative count (after the repair) *)
               (fun _ st4 => ev_opt (bind_in st4 f x (VInt (Z.max k 0))) sc1 r)
      | _ => (Er EType, st2)
      end)
  | EDo false bs test rs es =>
      bind (ev_inits st sc (map (fun b => snd (fst b)) bs)) (fun vs st1 =>
      let fr := mk_frame (map (fun b => fst (fst b)) bs) vs in
      let '(f, st2) := alloc st1 fr in
      ev st2 ((f, List.length fr) :: sc) (EDoLoop false bs test rs es))
  | EDo true bs test rs es =>
      let '(f, st1) := alloc st [] in                      (* ns := s.NewScope(): the scope with the block / tagbody flags *)
      bind (ev_inits_seq st1 ((f, 0) :: sc) bs) (fun sc1 st2 =>
      ev st2 sc1 (EDoLoop true bs test rs es))
  | EDoLoop star bs test rs es =>
      match sc with
      | [] => (Er EMalformed, st)
      | (f, _) :: _ =>
          (* the end test is evaluated whatever its shape (after the repair of setupDo: a variable or t too) *)
          bind (ev_test st sc test) (fun t st1 =>
          if t then ev_seq st1 sc rs VNil
          else bind (ev_seq st1 sc es VNil) (fun _ st2 =>
               bind (if star then ev_steps_seq st2 sc (var_frames (List.length bs) sc) bs
                     else bind (ev_steps_par st2 sc bs) (fun xs st3 =>
                          (Ok tt, fold_left (fun s xv => bind_in s f (fst xv) (snd xv)) xs st3)))
                    (fun _ st4 => ev st4 sc (EDoLoop star bs test rs es))))
      end
  | EValues es => bind (ev_args st sc es) (fun vs st1 => (Ok (VValues vs), st1))
  | EMvb xs e es =>
      bind (ev st sc e) (fun v st1 =>
      let fr := mk_frame xs (pad (values_list v) (List.length xs)) in
      let '(f, st2) := alloc st1 fr in
      ev_seq st2 ((f, List.length fr) :: sc) es VNil)
  | ETr k e =>
      bind (ev_args st sc [e]) (fun vs st1 => (Ok (hd VNil vs), add_trace st1 k))
  end.
End Eval.

Fixpoint eval (m : mode) (n : nat) : state -> scope -> expr -> result :=
  match n with
  | O => fun st _ _ => (Er EFuel, st)
  | S n' => evalF m (eval m n')
  end.

(* a program: top-level forms evaluated one after the other in the top-level scope (no frames) *)
Definition run (m : mode) (n : nat) (prog : list expr) : result := ev_seq (eval m n) st0 [] prog VNil.
