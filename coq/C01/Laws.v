(* C01 — the laws the property names, proved about the evaluator for all programs, states and fuel. *)
From C01 Require Import Model Sim Ext.

Lemma good_iff : forall A E (r : res A), good E r <-> fst r <> Er E.
Proof.
  intros A E [[a|e] s]; unfold good, goodo; simpl; split; intro H.
  - discriminate.
  - exact I.
  - intro C; inversion C; contradiction.
  - intro C; subst; apply H; reflexivity.
Qed.

(* ------------------------------------------------------------------------------------------------ fuel *)
Lemma eval_fuel_plus : forall m k n st sc e, good EFuel (eval m n st sc e) -> eval m (n + k) st sc e = eval m n st sc e.
Proof.
  induction k as [|k IH]; intros n st sc e H.
  - rewrite Nat.add_0_r; reflexivity.
  - rewrite Nat.add_succ_r. rewrite eval_fuel_S; rewrite IH; auto.
Qed.
Theorem eval_fuel_mono : forall m n n' st sc e,
  fst (eval m n st sc e) <> Er EFuel -> n <= n' -> eval m n' st sc e = eval m n st sc e.
Proof.
  intros m n n' st sc e H Hle. replace n' with (n + (n' - n)) by lia. apply eval_fuel_plus, good_iff, H.
Qed.
Theorem run_fuel_mono : forall m n n' p, fst (run m n p) <> Er EFuel -> n <= n' -> run m n' p = run m n p.
Proof.
  intros m n n' p H Hle. unfold run in *.
  apply (ev_seq_sim EFuel (eval m n) (eval m n')); [|apply good_iff; exact H].
  intros st sc e G. apply eval_fuel_mono; [apply good_iff; exact G | exact Hle].
Qed.

(* ------------------------------------------------------------------------------------------------ guard *)
Theorem chk_sound : forall m n st sc e,
  fst (eval Chk n st sc e) <> Er EDev -> eval m n st sc e = eval Chk n st sc e.
Proof. intros m n st sc e H. apply (eval_sim Chk m EDev (sim_chk m)), good_iff, H. Qed.
Theorem guard_sound : forall n p,
  fst (run Chk n p) <> Er EDev -> run Slip n p = run Ref n p.
Proof.
  intros n p H. unfold run in *.
  assert (A : forall m, ev_seq (eval m n) st0 [] p VNil = ev_seq (eval Chk n) st0 [] p VNil).
  { intros m. apply (ev_seq_sim EDev (eval Chk n) (eval m n)); [|apply good_iff; exact H].
    intros st sc e G. apply chk_sound, good_iff, G. }
  rewrite (A Slip), (A Ref); reflexivity.
Qed.

(* ------------------------------------------------------------------------------------------------ quote *)
Theorem quote_identity : forall m n st sc d, eval m (S n) st sc (EQuote d) = (Ok (inj d), st).
Proof. reflexivity. Qed.

(* ---------------------------------------------------------------------------------- arguments: once, left to right *)
(* the arguments es evaluated from state st yield vs and leave st': each argument is evaluated exactly once, in the
   state left by the one before it, and gives its primary value *)
Inductive args_ltr (m : mode) (ev : state -> scope -> expr -> result) (sc : scope) :
    state -> list expr -> list val -> state -> Prop :=
| al_nil : forall st, args_ltr m ev sc st [] [] st
| al_cons : forall st e es v a st1 vs st',
    ev st sc e = (Ok v, st1) -> arg_red m v = Ok a -> args_ltr m ev sc st1 es vs st' ->
    args_ltr m ev sc st (e :: es) (a :: vs) st'.

Lemma ev_args_ltr : forall m ev sc es st vs st',
  ev_args m ev st sc es = (Ok vs, st') <-> args_ltr m ev sc st es vs st'.
Proof.
  intros m ev sc; induction es as [|e es IH]; intros st vs st'; simpl.
  - split; intro H; [inversion H; constructor | inversion H; reflexivity].
  - split; intro H.
    + unfold bind, bindo in H. destruct (ev st sc e) as [[v|er] st1] eqn:E1; [|discriminate].
      unfold arg_red in H. simpl in H.
      destruct (ev_args m ev st1 sc es) as [[vs1|er] st2] eqn:E3; [|discriminate].
      inversion H; subst. econstructor; [exact E1 | reflexivity | apply IH; exact E3].
    + inversion H as [|s0 e0 es0 v a st1 vs0 s' H1 H2 H3]; subst. unfold bind, bindo.
      rewrite H1. unfold arg_red in *. inversion H2; subst. simpl. apply IH in H3. rewrite H3. reflexivity.
Qed.
Lemma args_ltr_length : forall m ev sc st es vs st', args_ltr m ev sc st es vs st' -> List.length vs = List.length es.
Proof. induction 1; simpl; auto. Qed.

(* a call of a defun'd function: the arguments left to right, each once, then the body in a new frame whose
   parent is the scope the function was made in; nothing of the caller's scope is visible to the body *)
Theorem call_args_once_ltr : forall m n st sc f es ps body csc v st',
  find_fun (funs st) f = Some (VClo ps [] body csc) -> List.length ps = List.length es ->
  (eval m (S n) st sc (ECall f es) = (Ok v, st') <->
   exists vs st1, args_ltr m (eval m n) sc st es vs st1 /\
     ev_seq (eval m n) (snd (alloc st1 (mk_frame ps vs))) ((List.length (frames st1), List.length (mk_frame ps vs)) :: csc) body VNil = (Ok v, st')).
Proof.
  intros m n st sc f es ps body csc v st' Hf Hlen. simpl. rewrite Hf. unfold bind.
  split.
  - destruct (ev_args m (eval m n) st sc es) as [[vs|er] st1] eqn:E; [|discriminate].
    apply ev_args_ltr in E. pose proof (args_ltr_length _ _ _ _ _ _ _ E) as L.
    unfold apply_fn. simpl. rewrite Nat.add_0_r, app_nil_r, Hlen, <- L, Nat.ltb_irrefl. simpl. intros H. exists vs, st1. split; [exact E|exact H].
  - intros (vs & st1 & E & H). pose proof (args_ltr_length _ _ _ _ _ _ _ E) as L.
    apply ev_args_ltr in E. rewrite E. unfold apply_fn. simpl. rewrite Nat.add_0_r, app_nil_r, Hlen, <- L, Nat.ltb_irrefl. simpl. exact H.
Qed.

Theorem funcall_order : forall m n st sc f es v st',
  eval m (S n) st sc (EFuncall f es) = (Ok v, st') <->
  exists fv vs st1 c, args_ltr m (eval m n) sc st (f :: es) (fv :: vs) st1 /\ resolve st1 fv = Ok c /\
    apply_fn m (eval m n) st1 c vs = (Ok v, st').
Proof.
  intros m n st sc f es v st'. change (eval m (S n) st sc (EFuncall f es)) with
    (bind (ev_args m (eval m n) st sc (f :: es)) (fun vs st1 =>
      match vs with
      | fv :: args => bindo (resolve st1 fv) st1 (fun c => apply_fn m (eval m n) st1 c args)
      | [] => (Er EMalformed, st1)
      end)).
  unfold bind, bindo. split.
  - destruct (ev_args m (eval m n) st sc (f :: es)) as [[vs|er] st1] eqn:E; [|discriminate].
    destruct vs as [|fv vs]; [discriminate|]. destruct (resolve st1 fv) as [c|er] eqn:R; [|discriminate].
    intros H. exists fv, vs, st1, c. split; [apply ev_args_ltr; exact E|split; assumption].
  - intros (fv & vs & st1 & c & E & R & H). apply ev_args_ltr in E. rewrite E, R. exact H.
Qed.

(* ---------------------------------------------------------------------------------- only the selected branch *)
(* the branch that is not selected can be replaced by any form whatsoever: it contributes no value, no event,
   no change of state *)
Theorem if_selected_only : forall m n st sc c a b t st1,
  ev_test m (eval m n) st sc c = (Ok t, st1) ->
  (t = true -> forall b', eval m (S n) st sc (EIf c a b') = eval m (S n) st sc (EIf c a b) /\
                           eval m (S n) st sc (EIf c a b) = eval m n st1 sc a) /\
  (t = false -> forall a', eval m (S n) st sc (EIf c a' b) = eval m (S n) st sc (EIf c a b) /\
                           eval m (S n) st sc (EIf c a b) = ev_opt (eval m n) st1 sc b).
Proof.
  intros m n st sc c a b t st1 H; simpl; rewrite H; simpl. split.
  - intros Ht x. subst t. split; reflexivity.
  - intros Ht x. subst t. split; reflexivity.
Qed.
Theorem when_unless_selected_only : forall m n st sc c es es' t st1,
  ev_test m (eval m n) st sc c = (Ok t, st1) ->
  (t = false -> eval m (S n) st sc (EWhen c es) = (Ok VNil, st1) /\ eval m (S n) st sc (EWhen c es') = (Ok VNil, st1)) /\
  (t = true -> eval m (S n) st sc (EUnless c es) = (Ok VNil, st1) /\ eval m (S n) st sc (EUnless c es') = (Ok VNil, st1)) /\
  (t = true -> eval m (S n) st sc (EWhen c es) = ev_seq (eval m n) st1 sc es VNil) /\
  (t = false -> eval m (S n) st sc (EUnless c es) = ev_seq (eval m n) st1 sc es VNil).
Proof.
  intros m n st sc c es es' t st1 H; simpl; rewrite H; simpl.
  split; [|split; [|split]]; intros Ht; subst t; try split; reflexivity.
Qed.
(* cond: the first clause whose test is true decides; the clauses after it are never looked at, and the body of
   a clause whose test is false is never looked at *)
Theorem cond_first_true_only : forall m n st sc c body rest t st1,
  ev_test m (eval m n) st sc c = (Ok t, st1) ->
  (t = true -> forall rest', eval m (S n) st sc (ECond ((c, body) :: rest')) = eval m (S n) st sc (ECond ((c, body) :: rest))) /\
  (t = false -> forall body', eval m (S n) st sc (ECond ((c, body') :: rest)) = ev_cond m (eval m n) st1 sc rest).
Proof.
  intros m n st sc c body rest t st1 H. unfold ev_test, bind in H. simpl. unfold bind, bindo.
  destruct (eval m n st sc c) as [[v|er] s]; [|discriminate]. unfold truthy in *. simpl in H.
  inversion H; subst.
  split; intros Ht x; rewrite Ht; reflexivity.
Qed.
(* case: the clause found by the key decides; clause lists that select the same body give the same evaluation *)
Theorem case_selected_only : forall m n st sc k cls cls' dflt,
  (forall v, find_clause v cls = find_clause v cls') ->
  eval m (S n) st sc (ECase k cls dflt) = eval m (S n) st sc (ECase k cls' dflt).
Proof.
  intros m n st sc k cls cls' dflt H. simpl. unfold bind, bindo.
  destruct (eval m n st sc k) as [[v|er] s]; [|reflexivity]. unfold arg_red. simpl.
  rewrite H. reflexivity.
Qed.
Lemma find_clause_skip : forall v ks body cls, existsb (case_key v) ks = false -> find_clause v ((ks, body) :: cls) = find_clause v cls.
Proof. intros; simpl; rewrite H; reflexivity. Qed.
Lemma find_clause_hit : forall v ks body cls cls', existsb (case_key v) ks = true ->
  find_clause v ((ks, body) :: cls) = find_clause v ((ks, body) :: cls').
Proof. intros; simpl; rewrite H; reflexivity. Qed.
(* and / or stop at the first form that decides: what follows it is never looked at (the result does not
   mention it); otherwise evaluation goes on with the rest, in the state the form left *)
Theorem and_or_short_circuit : forall m n st sc e e1 rest,
  (forall st1, ev_test m (eval m n) st sc e = (Ok false, st1) ->
     eval m (S n) st sc (EAnd (e :: e1 :: rest)) = (Ok VNil, st1)) /\
  (forall st1, ev_test m (eval m n) st sc e = (Ok true, st1) ->
     eval m (S n) st sc (EAnd (e :: e1 :: rest)) = ev_and m (eval m n) st1 sc (e1 :: rest)) /\
  (forall v st1 r, eval m n st sc e = (Ok v, st1) -> or_step m v = Ok (Some r) ->
     eval m (S n) st sc (EOr (e :: e1 :: rest)) = (Ok r, st1)) /\
  (forall v st1, eval m n st sc e = (Ok v, st1) -> or_step m v = Ok None ->
     eval m (S n) st sc (EOr (e :: e1 :: rest)) = ev_or m (eval m n) st1 sc (e1 :: rest)).
Proof.
  intros m n st sc e e1 rest.
  change (eval m (S n) st sc (EAnd (e :: e1 :: rest))) with
    (bind (ev_test m (eval m n) st sc e) (fun b s => if b then ev_and m (eval m n) s sc (e1 :: rest) else (Ok VNil, s))).
  change (eval m (S n) st sc (EOr (e :: e1 :: rest))) with
    (bind (eval m n st sc e) (fun v s => bindo (or_step m v) s (fun o => match o with Some r => (Ok r, s) | None => ev_or m (eval m n) s sc (e1 :: rest) end))).
  split; [|split; [|split]].
  - intros st1 H; rewrite H; reflexivity.
  - intros st1 H; rewrite H; reflexivity.
  - intros v st1 r H O; rewrite H; cbn [bind]; rewrite O; reflexivity.
  - intros v st1 H O; rewrite H; cbn [bind]; rewrite O; reflexivity.
Qed.

(* ---------------------------------------------------------------------------------- let in parallel, let* in sequence *)
Lemma arg_store_ref : forall v, arg_red Ref v = store_red Ref v.
Proof. reflexivity. Qed.
Lemma ev_inits_args_ref : forall ev es st sc, ev_inits Ref ev st sc es = ev_args Ref ev st sc es.
Proof.
  induction es as [|e es IH]; intros st sc; simpl; [reflexivity|]. unfold bind, bindo.
  destruct (ev st sc e) as [[v|er] st1]; [|reflexivity]. unfold arg_red. simpl.
  rewrite IH. reflexivity.
Qed.
Lemma ev_args_length : forall m ev es st sc vs st', ev_args m ev st sc es = (Ok vs, st') -> List.length vs = List.length es.
Proof. intros. apply ev_args_ltr in H. eapply args_ltr_length; eauto. Qed.

Lemma ev_args_mono : forall m n n' es st sc, n <= n' -> fst (ev_args m (eval m n) st sc es) <> Er EFuel ->
  ev_args m (eval m n') st sc es = ev_args m (eval m n) st sc es.
Proof.
  intros m n n' es st sc Hle H.
  apply (ev_args_sim m m EFuel (eval m n) (eval m n')); [|apply good_iff; exact H].
  intros s c e G. apply eval_fuel_mono; [apply good_iff; exact G|exact Hle].
Qed.
Lemma ev_seq_mono : forall m n n' es st sc last, n <= n' -> fst (ev_seq (eval m n) st sc es last) <> Er EFuel ->
  ev_seq (eval m n') st sc es last = ev_seq (eval m n) st sc es last.
Proof.
  intros m n n' es st sc last Hle H.
  apply (ev_seq_sim EFuel (eval m n) (eval m n')); [|apply good_iff; exact H].
  intros s c e G. apply eval_fuel_mono; [apply good_iff; exact G|exact Hle].
Qed.

(* (let ((x1 e1) ... (xk ek)) body) is ((lambda (x1 ... xk) body) e1 ... ek): the init forms are evaluated left to
   right in the OUTER scope, none of them sees any of the new bindings, then the body runs with all of them.
   Reference evaluator; the left side is given enough fuel to finish. *)
Theorem let_parallel : forall n st sc bs body,
  fst (eval Ref (S n) st sc (ELet bs body)) <> Er EFuel ->
  eval Ref (S (S n)) st sc (EFuncall (ELambda (map fst bs) body) (map snd bs)) = eval Ref (S n) st sc (ELet bs body).
Proof.
  intros n st sc bs body H.
  change (eval Ref (S (S n)) st sc (EFuncall (ELambda (map fst bs) body) (map snd bs))) with
    (bind (ev_args Ref (eval Ref (S n)) st sc (ELambda (map fst bs) body :: map snd bs)) (fun vs st1 =>
      match vs with
      | fv :: args => bindo (resolve st1 fv) st1 (fun c => apply_fn Ref (eval Ref (S n)) st1 c args)
      | [] => (Er EMalformed, st1)
      end)).
  change (eval Ref (S n) st sc (ELet bs body)) with
    (bind (ev_inits Ref (eval Ref n) st sc (map snd bs)) (fun vs st1 =>
      let fr := mk_frame (map fst bs) vs in
      let '(f, st2) := alloc st1 fr in ev_seq (eval Ref n) st2 ((f, List.length fr) :: sc) body VNil)) in *.
  rewrite ev_inits_args_ref in *.
  change (ev_args Ref (eval Ref (S n)) st sc (ELambda (map fst bs) body :: map snd bs)) with
    (bind (ev_args Ref (eval Ref (S n)) st sc (map snd bs)) (fun vs st2 => (Ok (VClo (map fst bs) [] body sc :: vs), st2))).
  assert (G : fst (ev_args Ref (eval Ref n) st sc (map snd bs)) <> Er EFuel).
  { intro C. apply H. unfold bind. destruct (ev_args Ref (eval Ref n) st sc (map snd bs)) as [[a|e] s]; simpl in *; congruence. }
  rewrite (ev_args_mono Ref n (S n)) by (auto; lia).
  unfold bind in *. destruct (ev_args Ref (eval Ref n) st sc (map snd bs)) as [[vs|er] st1] eqn:E; [|reflexivity].
  pose proof (ev_args_length _ _ _ _ _ _ _ E) as L. rewrite map_length in L.
  unfold apply_fn. simpl. rewrite Nat.add_0_r, app_nil_r, map_length, L, Nat.ltb_irrefl. simpl in *.
  apply (ev_seq_mono Ref n (S n)); [lia|exact H].
Qed.

(* (let* ((x e) b2 ... bk) body) is (let ((x e)) (let* (b2 ... bk) body)): each init form sees the bindings before
   it.  Every mode: after the repair of letx.go the Go model nests its scopes the same way. *)
Theorem letstar_sequential : forall m n st sc x e bs body,
  fst (eval m (S n) st sc (ELetStar ((x, e) :: bs) body)) <> Er EFuel ->
  eval m (S (S n)) st sc (ELet [(x, e)] [ELetStar bs body]) = eval m (S n) st sc (ELetStar ((x, e) :: bs) body).
Proof.
  intros m n st sc x e bs body H.
  change (eval m (S n) st sc (ELetStar ((x, e) :: bs) body)) with
    (bind (eval m n st sc e) (fun v st1 => bindo (store_red m v) st1 (fun a =>
       let '(f, st2) := alloc st1 [(x, a)] in ev_letstar m (eval m n) st2 ((f, 1) :: sc) bs body))) in *.
  change (eval m (S (S n)) st sc (ELet [(x, e)] [ELetStar bs body])) with
    (bind (bind (eval m (S n) st sc e) (fun v st1 => bindo (store_red m v) st1 (fun a => (Ok [a], st1)))) (fun vs st1 =>
       let fr := mk_frame [x] vs in
       let '(f, st2) := alloc st1 fr in
       bind (eval m (S n) st2 ((f, List.length fr) :: sc) (ELetStar bs body)) (fun v st3 => (Ok v, st3)))).
  assert (G : fst (eval m n st sc e) <> Er EFuel).
  { intro C. apply H. unfold bind. destruct (eval m n st sc e) as [[a|er] s]; simpl in *; congruence. }
  rewrite (eval_fuel_mono m n (S n)) by (auto; lia).
  unfold bind, bindo in *. destruct (eval m n st sc e) as [[v|er] st1]; [|reflexivity].
  destruct (store_red m v) as [a|er]; [|reflexivity]. simpl.
  destruct (ev_letstar m (eval m n) _ _ bs body) as [[r|er] s]; reflexivity.
Qed.
Theorem letstar_nil : forall m n st sc body, eval m (S n) st sc (ELetStar [] body) = ev_seq (eval m n) st sc body VNil.
Proof. reflexivity. Qed.

(* ---------------------------------------------------------------------------------- closures and their bindings *)
(* a scope is well formed in a state: its frames exist and it sees no more cells than they have *)
Definition wf_scope (st : state) (sc : scope) : Prop :=
  Forall (fun fh => fst fh < List.length (frames st) /\ snd fh <= List.length (get_frame st (fst fh))) sc.

Lemma fr_index_names : forall a b x, names a = names b -> fr_index a x = fr_index b x.
Proof.
  induction a as [|[y v] a IH]; intros [|[z w] b] x H; simpl in *; try discriminate; [reflexivity|].
  inversion H; subst. destruct (String.eqb x z); [reflexivity|]. rewrite (IH b x); auto.
Qed.
Lemma names_firstn : forall h fr, names (firstn h fr) = firstn h (names fr).
Proof. intros; unfold names; rewrite firstn_map; reflexivity. Qed.
Lemma firstn_prefix : forall A h (l t : list A), h <= List.length l -> firstn h (l ++ t) = firstn h l.
Proof. intros. rewrite firstn_app. replace (h - List.length l) with 0 by lia. simpl. apply app_nil_r. Qed.

(* what a scope denotes for a name does not change when the state grows (reference evaluator: visible prefixes) *)
Lemma locate_stable : forall st st' sc x, ext st st' -> wf_scope st sc ->
  locate true (frames st') sc x = locate true (frames st) sc x.
Proof.
  intros st st' sc x (_ & F & _) W. induction W as [|[f h] sc [Hf Hh] W IH]; simpl; [reflexivity|].
  simpl in *. destruct (F f) as [t Ht]. unfold get_frame in *.
  assert (E : fr_index (firstn h (nth f (frames st') [])) x = fr_index (firstn h (nth f (frames st) [])) x).
  { apply fr_index_names. rewrite !names_firstn, Ht. apply firstn_prefix. unfold names. rewrite map_length. exact Hh. }
  rewrite E, IH. reflexivity.
Qed.

Lemma eval_ext : forall m n st0 st sc e, ext st0 st -> ext st0 (snd (eval m n st sc e)).
Proof.
  intros m; induction n as [|n IH]; intros st0 st sc e H; simpl; [exact H|].
  apply evalF_ext; [exact IH|exact H].
Qed.

(* A closure keeps the binding it was created in.  Let sc be a scope that is well formed in state st (the scope a
   lambda captured, say).  Whatever is evaluated afterwards - any expression e, in any scope sc1, from any later
   state st1, with any fuel, ending in a value or an error - the cell that sc denotes for x is still the same. *)
Theorem closure_binding_stable : forall n st st1 sc sc1 e x,
  wf_scope st sc -> ext st st1 ->
  locate true (frames (snd (eval Ref n st1 sc1 e))) sc x = locate true (frames st) sc x.
Proof.
  intros n st st1 sc sc1 e x W H. apply locate_stable; [|exact W]. apply eval_ext; exact H.
Qed.

(* cells: an assignment changes the one cell the name denotes; it is seen through every scope that denotes the same
   cell for the name (the defining body, every copy of the closure), and no other cell changes *)
Lemma nth_error_fr_set_same : forall fr i v c, nth_error fr i = Some c -> nth_error (fr_set fr i v) i = Some (fst c, v).
Proof.
  induction fr as [|[y w] fr IH]; intros [|i] v c H; simpl in *; try discriminate.
  - inversion H; reflexivity.
  - apply IH; exact H.
Qed.
Lemma nth_error_fr_set_other : forall fr i j v, i <> j -> nth_error (fr_set fr i v) j = nth_error fr j.
Proof.
  induction fr as [|[y w] fr IH]; intros [|i] [|j] v H; simpl; try reflexivity; try congruence.
  apply IH; congruence.
Qed.
Theorem assign_seen_and_frame : forall st l v c,
  fst l < List.length (frames st) -> nth_error (get_frame st (fst l)) (snd l) = Some c ->
  cell_get (frames (cell_set st l v)) l = Some v /\
  (forall l', l' <> l -> cell_get (frames (cell_set st l v)) l' = cell_get (frames st) l') /\
  (forall b sc x, locate b (frames (cell_set st l v)) sc x = locate b (frames st) sc x).
Proof.
  intros st [f i] v c Hf Hc; simpl in *. unfold cell_get, cell_set, put_frame, get_frame in *; simpl.
  split; [|split].
  - rewrite nth_set_nth, Nat.eqb_refl. apply Nat.ltb_lt in Hf; rewrite Hf.
    rewrite (nth_error_fr_set_same _ _ _ _ Hc). reflexivity.
  - intros [g j] Hne; simpl. rewrite nth_set_nth. destruct (Nat.eqb g f) eqn:Hg; [|reflexivity].
    apply Nat.eqb_eq in Hg; subst g. apply Nat.ltb_lt in Hf; rewrite Hf.
    rewrite nth_error_fr_set_other; [reflexivity|]. intro; subst; apply Hne; reflexivity.
  - intros b sc x. induction sc as [|[g h] sc IH]; simpl; [reflexivity|].
    rewrite nth_set_nth. destruct (Nat.eqb g f) eqn:Hg.
    + apply Nat.eqb_eq in Hg; subst g. apply Nat.ltb_lt in Hf; rewrite Hf.
      assert (E : forall k, fr_index (if b then firstn k (fr_set (nth f (frames st) []) i v) else fr_set (nth f (frames st) []) i v) x =
                            fr_index (if b then firstn k (nth f (frames st) []) else nth f (frames st) []) x).
      { intros k. apply fr_index_names. destruct b; [rewrite !names_firstn|]; rewrite names_fr_set; reflexivity. }
      rewrite E, IH. reflexivity.
    + rewrite IH. reflexivity.
Qed.

(* ---------------------------------------------------------------------------------- iteration in order *)
(* dolist / dotimes: the body runs once per element, in list order, the variable assigned before each run; running
   over vs1 ++ vs2 is running over vs1 and then, in the state that leaves, over vs2 *)
Theorem iteration_in_order : forall ev vs1 vs2 st sc f x es,
  ev_iter ev st sc f x (vs1 ++ vs2) es = bind (ev_iter ev st sc f x vs1 es) (fun _ st1 => ev_iter ev st1 sc f x vs2 es).
Proof.
  intros ev; induction vs1 as [|v vs1 IH]; intros vs2 st sc f x es; simpl; [reflexivity|].
  unfold bind at 1 3. destruct (ev_seq ev (bind_in st f x v) sc es VNil) as [[a|er] st1]; [|reflexivity].
  apply IH.
Qed.

(* a closure sees the updates of the binding it was created in: sc is the closure's scope (well formed when it was
   made, in st) and denotes cell l for x; later, in st1, x is assigned through ANY scope sc2 that denotes the same
   cell (the defining body, another closure over the same binding, this closure itself): evaluating x in the
   closure's scope then yields the assigned value *)
Theorem closure_sees_update : forall ev st st1 sc sc2 x v l c,
  wf_scope st sc -> ext st st1 ->
  locate true (frames st) sc x = Some l -> locate true (frames st1) sc2 x = Some l ->
  fst l < List.length (frames st1) -> nth_error (get_frame st1 (fst l)) (snd l) = Some c ->
  assign Ref st1 sc2 x v = (Ok tt, cell_set st1 l v) /\
  evalF Ref ev (cell_set st1 l v) sc (EVar x) = (Ok v, cell_set st1 l v).
Proof.
  intros ev st st1 sc sc2 x v l c W H L L2 Hf Hc.
  split.
  - unfold assign; simpl. rewrite L2. reflexivity.
  - destruct (assign_seen_and_frame st1 l v c Hf Hc) as (A & _ & B).
    simpl. rewrite B. rewrite (locate_stable st st1 sc x H W), L. simpl.
    change (set_nth (fst l) (fr_set (get_frame st1 (fst l)) (snd l) v) (frames st1)) with (frames (cell_set st1 l v)).
    rewrite A. reflexivity.
Qed.
