(* C01 — property theorems only. *)
From C01 Require Import Model Spec Proofs.
Theorem C01_quote_identity : forall m n st sc d, eval m (S n) st sc (EQuote d) = (Ok (inj d), st).
Proof. exact quote_identity. Qed.
Print Assumptions C01_quote_identity.
