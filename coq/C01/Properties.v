(* C01 — property theorems only.  [eval m n st sc e]: evaluate e with fuel n in state st (frames, functions, trace)
   and scope sc, in mode m: Ref = S, the reference evaluator; Slip = M, the model of the Go code; Chk = the guard run.
   Theorems quantified over m hold for the reference evaluator AND for the model of the Go code. *)
From C01 Require Import Model Spec Sim Ext Laws Wf Proofs.

(* (1) Fuel.  A result obtained with some fuel (value or error other than "out of fuel") is the result with any
   larger fuel: evaluation is a function of the program, the fuel only bounds the search for it. *)
Theorem C01_fuel_monotone : forall m n n' st sc e,
  fst (eval m n st sc e) <> Er EFuel -> n <= n' -> eval m n' st sc e = eval m n st sc e.
Proof. exact eval_fuel_mono. Qed.
Print Assumptions C01_fuel_monotone.
Theorem C01_fuel_monotone_program : forall m n n' p, fst (run m n p) <> Er EFuel -> n <= n' -> run m n' p = run m n p.
Proof. exact run_fuel_mono. Qed.
Print Assumptions C01_fuel_monotone_program.

(* (2) M refines S on the guard.  If the guard run of a program raises no deviation, the model of the Go code and the
   reference evaluator return the same value(s), the same final state and the same trace.  (Every place where the
   two differ is one of the switch functions of Model.v; the guard run stops at the first one that matters.) *)
Theorem C01_guard_sound : forall n p, guard n p -> runM n p = runS n p.
Proof. exact guard_sound. Qed.
Print Assumptions C01_guard_sound.
Theorem C01_guard_sound_expr : forall m n st sc e,
  fst (eval Chk n st sc e) <> Er EDev -> eval m n st sc e = eval Chk n st sc e.
Proof. exact chk_sound. Qed.
Print Assumptions C01_guard_sound_expr.

(* (3) Arguments are evaluated exactly once, left to right, before the call.  [args_ltr m ev sc st es vs st']: the
   forms es, started in st, are evaluated one after the other, each exactly once and each in the state the previous
   one left, give the primary values vs and leave st'.  A call (f e1 .. ek) yields a value iff the arguments do so in
   that manner and then the body does, run in a new frame holding the parameters whose parent is the scope the
   function was DEFINED in: the trace of the call is the traces of e1 .. ek in this order followed by the body's. *)
Theorem C01_arguments_once_left_to_right : forall m n st sc f es ps body csc v st',
  find_fun (funs st) f = Some (VClo ps [] body csc) -> List.length ps = List.length es ->
  (eval m (S n) st sc (ECall f es) = (Ok v, st') <->
   exists vs st1, args_ltr m (eval m n) sc st es vs st1 /\
     ev_seq (eval m n) (snd (alloc st1 (mk_frame ps vs))) ((List.length (frames st1), List.length (mk_frame ps vs)) :: csc) body VNil = (Ok v, st')).
Proof. exact call_args_once_ltr. Qed.
Print Assumptions C01_arguments_once_left_to_right.
(* funcall: the function form first, then the arguments, then the call *)
Theorem C01_funcall_order : forall m n st sc f es v st',
  eval m (S n) st sc (EFuncall f es) = (Ok v, st') <->
  exists fv vs st1 c, args_ltr m (eval m n) sc st (f :: es) (fv :: vs) st1 /\ resolve st1 fv = Ok c /\
    apply_fn m (eval m n) st1 c vs = (Ok v, st').
Proof. exact funcall_order. Qed.
Print Assumptions C01_funcall_order.
(* the generic argument loop (Function.Eval) is characterised by args_ltr *)
Theorem C01_argument_loop : forall m ev sc es st vs st',
  ev_args m ev st sc es = (Ok vs, st') <-> args_ltr m ev sc st es vs st'.
Proof. exact ev_args_ltr. Qed.
Print Assumptions C01_argument_loop.

(* (4) Conditionals evaluate only the selected branch: the part that is not selected can be replaced by ANY form
   without changing value, state or trace. *)
Theorem C01_if_selected_only : forall m n st sc c a b t st1,
  ev_test m (eval m n) st sc c = (Ok t, st1) ->
  (t = true -> forall b', eval m (S n) st sc (EIf c a b') = eval m (S n) st sc (EIf c a b) /\
                           eval m (S n) st sc (EIf c a b) = eval m n st1 sc a) /\
  (t = false -> forall a', eval m (S n) st sc (EIf c a' b) = eval m (S n) st sc (EIf c a b) /\
                           eval m (S n) st sc (EIf c a b) = ev_opt (eval m n) st1 sc b).
Proof. exact if_selected_only. Qed.
Print Assumptions C01_if_selected_only.
Theorem C01_when_unless_selected_only : forall m n st sc c es es' t st1,
  ev_test m (eval m n) st sc c = (Ok t, st1) ->
  (t = false -> eval m (S n) st sc (EWhen c es) = (Ok VNil, st1) /\ eval m (S n) st sc (EWhen c es') = (Ok VNil, st1)) /\
  (t = true -> eval m (S n) st sc (EUnless c es) = (Ok VNil, st1) /\ eval m (S n) st sc (EUnless c es') = (Ok VNil, st1)) /\
  (t = true -> eval m (S n) st sc (EWhen c es) = ev_seq (eval m n) st1 sc es VNil) /\
  (t = false -> eval m (S n) st sc (EUnless c es) = ev_seq (eval m n) st1 sc es VNil).
Proof. exact when_unless_selected_only. Qed.
Print Assumptions C01_when_unless_selected_only.
Theorem C01_cond_first_true_only : forall m n st sc c body rest t st1,
  ev_test m (eval m n) st sc c = (Ok t, st1) ->
  (t = true -> forall rest', eval m (S n) st sc (ECond ((c, body) :: rest')) = eval m (S n) st sc (ECond ((c, body) :: rest))) /\
  (t = false -> forall body', eval m (S n) st sc (ECond ((c, body') :: rest)) = ev_cond m (eval m n) st1 sc rest).
Proof. exact cond_first_true_only. Qed.
Print Assumptions C01_cond_first_true_only.
Theorem C01_case_selected_only : forall m n st sc k cls cls' dflt,
  (forall v, find_clause v cls = find_clause v cls') ->
  eval m (S n) st sc (ECase k cls dflt) = eval m (S n) st sc (ECase k cls' dflt).
Proof. exact case_selected_only. Qed.
Print Assumptions C01_case_selected_only.
Theorem C01_and_or_short_circuit : forall m n st sc e e1 rest,
  (forall st1, ev_test m (eval m n) st sc e = (Ok false, st1) ->
     eval m (S n) st sc (EAnd (e :: e1 :: rest)) = (Ok VNil, st1)) /\
  (forall st1, ev_test m (eval m n) st sc e = (Ok true, st1) ->
     eval m (S n) st sc (EAnd (e :: e1 :: rest)) = ev_and m (eval m n) st1 sc (e1 :: rest)) /\
  (forall v st1 r, eval m n st sc e = (Ok v, st1) -> or_step m v = Ok (Some r) ->
     eval m (S n) st sc (EOr (e :: e1 :: rest)) = (Ok r, st1)) /\
  (forall v st1, eval m n st sc e = (Ok v, st1) -> or_step m v = Ok None ->
     eval m (S n) st sc (EOr (e :: e1 :: rest)) = ev_or m (eval m n) st1 sc (e1 :: rest)).
Proof. exact and_or_short_circuit. Qed.
Print Assumptions C01_and_or_short_circuit.

(* (5) let binds in parallel: (let ((x1 e1) .. (xk ek)) body) evaluates exactly like ((lambda (x1 .. xk) body) e1 .. ek):
   the init forms left to right in the outer scope, none sees a new binding, then the body with all of them.
   let* binds in sequence: (let* ((x e) b2 .. bk) body) evaluates exactly like (let ((x e)) (let* (b2 .. bk) body)).
   (Equality of value, final state and trace; the left side given enough fuel to end.) *)
Theorem C01_let_parallel : forall n st sc bs body,
  fst (evalS (S n) st sc (ELet bs body)) <> Er EFuel ->
  evalS (S (S n)) st sc (EFuncall (ELambda (map fst bs) body) (map snd bs)) = evalS (S n) st sc (ELet bs body).
Proof. exact let_parallel. Qed.
Print Assumptions C01_let_parallel.
Theorem C01_letstar_sequential : forall m n st sc x e bs body,
  fst (eval m (S n) st sc (ELetStar ((x, e) :: bs) body)) <> Er EFuel ->
  eval m (S (S n)) st sc (ELet [(x, e)] [ELetStar bs body]) = eval m (S n) st sc (ELetStar ((x, e) :: bs) body).
Proof. exact letstar_sequential. Qed.
Print Assumptions C01_letstar_sequential.

(* (6) A closure sees and updates the variables of the binding it was created in.
   (a) every evaluation, in every mode, only grows the state: no frame disappears, a frame keeps its cells in place,
       the trace is only extended;
   (b) hence, in S, the cell a scope denotes for a name never changes, whatever is evaluated in between, wherever
       and by whom: a closure refers for ever to the binding that was visible when it was made;
   (c) an assignment writes exactly that cell: it is seen through every scope denoting the cell (the defining body,
       any other closure over the binding) and no other cell, and no scope's meaning, changes;
   (d) so an update made through any of them is what the closure reads. *)
Theorem C01_state_only_grows : forall m n st0 st sc e, ext st0 st -> ext st0 (snd (eval m n st sc e)).
Proof. exact eval_ext. Qed.
Print Assumptions C01_state_only_grows.
Theorem C01_closure_binding_stable : forall n st st1 sc sc1 e x,
  wf_scope st sc -> ext st st1 ->
  locate true (frames (snd (evalS n st1 sc1 e))) sc x = locate true (frames st) sc x.
Proof. exact closure_binding_stable. Qed.
Print Assumptions C01_closure_binding_stable.
Theorem C01_assign_seen_and_frame : forall st l v c,
  fst l < List.length (frames st) -> nth_error (get_frame st (fst l)) (snd l) = Some c ->
  cell_get (frames (cell_set st l v)) l = Some v /\
  (forall l', l' <> l -> cell_get (frames (cell_set st l v)) l' = cell_get (frames st) l') /\
  (forall b sc x, locate b (frames (cell_set st l v)) sc x = locate b (frames st) sc x).
Proof. exact assign_seen_and_frame. Qed.
Print Assumptions C01_assign_seen_and_frame.
Theorem C01_closure_sees_update : forall ev st st1 sc sc2 x v l c,
  wf_scope st sc -> ext st st1 ->
  locate true (frames st) sc x = Some l -> locate true (frames st1) sc2 x = Some l ->
  fst l < List.length (frames st1) -> nth_error (get_frame st1 (fst l)) (snd l) = Some c ->
  assign Ref st1 sc2 x v = (Ok tt, cell_set st1 l v) /\
  evalF Ref ev (cell_set st1 l v) sc (EVar x) = (Ok v, cell_set st1 l v).
Proof. exact closure_sees_update. Qed.
Print Assumptions C01_closure_sees_update.

(* (e) the well-formedness assumed in (b) and (d) is an invariant of evaluation: whatever program is run from the
   initial state, in whatever mode and with whatever fuel, every closure in the final state - in a cell, in the
   function table, inside a list, in the result - has a well formed scope; so every closure a program produces
   keeps its bindings for ever. *)
Theorem C01_reachable_state_well_formed : forall m n p,
  wf_state (snd (run m n p)) /\ forall v, fst (run m n p) = Ok v -> wf_val (snd (run m n p)) v.
Proof. exact reachable_state_wf. Qed.
Print Assumptions C01_reachable_state_well_formed.
Theorem C01_evaluation_keeps_well_formed : forall m n st sc e, wf_state st -> wf_scope st sc ->
  ext st (snd (eval m n st sc e)) /\ wf_state (snd (eval m n st sc e)) /\
  forall v, fst (eval m n st sc e) = Ok v -> wf_val (snd (eval m n st sc e)) v.
Proof. exact eval_wf. Qed.
Print Assumptions C01_evaluation_keeps_well_formed.
Theorem C01_closure_binding_stable_reachable : forall n p v sc n' st1 sc1 e x,
  fst (runS n p) = Ok v -> In sc (scopes_of v) -> ext (snd (runS n p)) st1 ->
  locate true (frames (snd (evalS n' st1 sc1 e))) sc x = locate true (frames (snd (runS n p))) sc x.
Proof. exact closure_binding_stable_reachable. Qed.
Print Assumptions C01_closure_binding_stable_reachable.

(* (7) Quoting a datum of any kind yields exactly that datum, and nothing else happens. *)
Theorem C01_quote_identity : forall m n st sc d, eval m (S n) st sc (EQuote d) = (Ok (inj d), st).
Proof. exact quote_identity. Qed.
Print Assumptions C01_quote_identity.

(* (8) dolist / dotimes run their body once per element in order: iterating over vs1 ++ vs2 is iterating over vs1
   and then, from the state that leaves, over vs2. *)
Theorem C01_iteration_in_order : forall ev vs1 vs2 st sc f x es,
  ev_iter ev st sc f x (vs1 ++ vs2) es = bind (ev_iter ev st sc f x vs1 es) (fun _ st1 => ev_iter ev st1 sc f x vs2 es).
Proof. exact iteration_in_order. Qed.
Print Assumptions C01_iteration_in_order.

(* (9) Where the faithful model of the Go code violates the reference evaluator: the known findings.  Each witness
   is outside the guard. *)
Theorem C01_let_binds_values_refuted : fst (runM 60 w_let_values) <> fst (runS 60 w_let_values) /\ guardb 60 w_let_values = false.
Proof. exact let_binds_values_refuted. Qed.
Print Assumptions C01_let_binds_values_refuted.
(* (10) Repaired defects (repo_fixes/C01-6 ...): the former witnesses, evaluated in the three modes - the model of the
   repaired Go code, the reference evaluator and the guard run agree, i.e. the programs are now inside the guard.
   End test of do / do* that is not a list form (t, a variable): evaluated like any other test. *)
Theorem C01_do_atom_test_evaluated :
  forallb (fun m => match fst (run m 60 w_do_atom), fst (run m 60 w_do_var) with
                    | Ok (VInt 5), Ok (VInt 3) => true | _, _ => false end) [Slip; Ref; Chk] = true.
Proof. exact do_atom_test_evaluated. Qed.
Print Assumptions C01_do_atom_test_evaluated.
(* dotimes with a negative count: no iteration, the result form sees 0; and for every count the final value of the
   variable, Z.max k 0, is the number of iterations the model makes. *)
Theorem C01_dotimes_negative_count_zero :
  forallb (fun m => match fst (run m 60 w_dotimes_neg) with Ok (VInt 0) => true | _ => false end) [Slip; Ref; Chk] = true.
Proof. exact dotimes_negative_count_zero. Qed.
Print Assumptions C01_dotimes_negative_count_zero.
Theorem C01_dotimes_variable_is_iteration_count : forall k, Z.max k 0 = Z.of_nat (List.length (seq 0 (Z.to_nat k))).
Proof. exact dotimes_iterations. Qed.
Print Assumptions C01_dotimes_variable_is_iteration_count.

(* progn (repo_fixes/C01-10): in every mode progn evaluates its forms in sequence and its result is the result of the
   last form with ALL its values - (progn e) is e -; the former witness now yields (1 2). *)
Theorem C01_progn_is_sequence : forall m n st sc es, eval m (S n) st sc (EProgn es) = ev_seq (eval m n) st sc es VNil.
Proof. exact progn_is_sequence. Qed.
Print Assumptions C01_progn_is_sequence.
Theorem C01_progn_passes_all_values : forall m n st sc e, eval m (S n) st sc (EProgn [e]) = eval m n st sc e.
Proof. exact progn_single. Qed.
Print Assumptions C01_progn_passes_all_values.
Theorem C01_progn_values_passed :
  forallb (fun m => match fst (run m 60 w_progn_values) with Ok (VList [VInt 1; VInt 2]) => true | _ => false end) [Slip; Ref; Chk] = true.
Proof. exact progn_values_passed. Qed.
Print Assumptions C01_progn_values_passed.

(* loop forms (repo_fixes/C01-12, C01-13): the list form of dolist, the count form of dotimes and the init forms of do*
   are evaluated outside the scope of the variable(s) they precede; the former witnesses yield 10, 10 and 1 in every
   mode; the init forms of do* proceed like those of let*. *)
Theorem C01_loop_forms_outer_scope :
  forallb (fun m => match fst (run m 60 w_dolist_scope), fst (run m 60 w_dotimes_scope), fst (run m 60 w_dostar_scope) with
                    | Ok (VInt 10), Ok (VInt 10), Ok (VInt 1) => true | _, _, _ => false end) [Slip; Ref; Chk] = true.
Proof. exact loop_forms_outer_scope. Qed.
Print Assumptions C01_loop_forms_outer_scope.
Theorem C01_dostar_inits_like_letstar : forall m ev st sc x e s bs,
  ev_inits_seq m ev st sc ((x, e, s) :: bs) =
  bind (ev st sc e) (fun v st1 => bindo (store_red m v) st1 (fun a =>
    ev_inits_seq m ev (snd (alloc st1 [(x, a)])) ((List.length (frames st1), 1) :: sc) bs)).
Proof. exact dostar_inits_like_letstar. Qed.
Print Assumptions C01_dostar_inits_like_letstar.

(* or (repo_fixes/C01-14): a form that is not the last is judged by and contributes its primary value, in every mode
   (with C01_and_or_short_circuit: or stops at the first form whose primary value is not nil and returns that value). *)
Theorem C01_or_step_same : forall m v, or_step m v = Ok (if is_nil (primary v) then None else Some (primary v)).
Proof. exact or_step_same. Qed.
Print Assumptions C01_or_step_same.
Theorem C01_or_takes_primary_value :
  forallb (fun m => match fst (run m 60 w_or_values) with Ok (VList [VInt 5; VNil]) => true | _ => false end) [Slip; Ref; Chk] = true.
Proof. exact or_takes_primary_value. Qed.
Print Assumptions C01_or_takes_primary_value.

(* setq and cond (repo_fixes/C01-15, C01-16): (setq x e) stores and returns the primary value of e, in every mode; the
   former witnesses yield (1 nil). *)
Theorem C01_setq_returns_stored : forall m ev st sc x e v st1 st2,
  ev st sc e = (Ok v, st1) -> assign m st1 sc x (primary v) = (Ok tt, st2) ->
  ev_setq m ev st sc [(x, e)] VNil = (Ok (primary v), st2).
Proof. exact setq_returns_stored. Qed.
Print Assumptions C01_setq_returns_stored.
Theorem C01_setq_cond_single_value :
  forallb (fun m => match fst (run m 60 w_setq_values), fst (run m 60 w_cond_values) with
                    | Ok (VList [VInt 1; VNil]), Ok (VList [VInt 1; VNil]) => true | _, _ => false end) [Slip; Ref; Chk] = true.
Proof. exact setq_cond_single_value. Qed.
Print Assumptions C01_setq_cond_single_value.

(* mapcar (repo_fixes/C01-17): in every mode the result list holds the primary value of each call, in call order. *)
Theorem C01_mapcar_collects_primary : forall m ev st c row rows v st1 vs st2,
  apply_fn m ev st c row = (Ok v, st1) -> ev_map m ev st1 c rows = (Ok vs, st2) ->
  ev_map m ev st c (row :: rows) = (Ok (primary v :: vs), st2).
Proof. exact mapcar_collects_primary. Qed.
Print Assumptions C01_mapcar_collects_primary.
Theorem C01_mapcar_collects_primary_values :
  forallb (fun m => match fst (run m 60 w_mapcar_values) with Ok (VInt 2) => true | _ => false end) [Slip; Ref; Chk] = true.
Proof. exact mapcar_collects_primary_values. Qed.
Print Assumptions C01_mapcar_collects_primary_values.

(* dolist / dotimes (repo_fixes/C01-18): the list / count form contributes its primary value, in every mode. *)
Theorem C01_loop_form_primary_value :
  forallb (fun m => match fst (run m 60 w_dotimes_values), fst (run m 60 w_dolist_values) with
                    | Ok (VInt 2), Ok (VInt 3) => true | _, _ => false end) [Slip; Ref; Chk] = true.
Proof. exact loop_form_primary_value. Qed.
Print Assumptions C01_loop_form_primary_value.

(* tests (repo_fixes/C01-19): if, when, unless, cond, and, do, do* decide by the primary value of the test form, in every
   mode (so the conditional laws (4) speak about the same test in M and S). *)
Theorem C01_truthy_primary : forall m v, truthy m v = Ok (negb (is_nil (primary v))).
Proof. exact truthy_primary. Qed.
Print Assumptions C01_truthy_primary.
Theorem C01_tests_look_at_primary_value :
  forallb (fun m => match fst (run m 60 w_values_test), fst (run m 60 w_values_tests) with
                    | Ok (VInt 2), Ok (VList [VNil; VInt 4; VInt 6; VNil; VInt 2]) => true | _, _ => false end) [Slip; Ref; Chk] = true.
Proof. exact tests_look_at_primary_value. Qed.
Print Assumptions C01_tests_look_at_primary_value.

(* the binder (slip bfffda3): a wrong number of arguments is an error in every mode, for every function and state;
   &optional defaults are evaluated after the arguments, left to right, each seeing the parameters before it. *)
Theorem C01_arity_error : forall m ev st ps os body csc args,
  List.length args < List.length ps \/ List.length ps + List.length os < List.length args ->
  apply_fn m ev st (CClo ps os body csc) args = (Er EArity, st).
Proof. exact arity_error. Qed.
Print Assumptions C01_arity_error.
Theorem C01_wrong_argument_count_is_error :
  forallb (fun m => match fst (run m 60 w_short_args), fst (run m 60 w_long_args) with
                    | Er EArity, Er EArity => true | _, _ => false end) [Slip; Ref; Chk] = true.
Proof. exact wrong_argument_count_is_error. Qed.
Print Assumptions C01_wrong_argument_count_is_error.
Theorem C01_optional_defaults_in_order :
  forallb (fun m => match run m 60 w_opt1, run m 60 w_opt2 with
                    | (Ok (VList [VInt 1; VInt 2; VInt 3]), s1), (Ok (VList [VInt 1; VInt 10; VInt 11]), s2) =>
                        match trace s1, trace s2 with [1; 3; 4]%Z, [1; 2; 4]%Z => true | _, _ => false end
                    | _, _ => false end) [Slip; Ref; Chk] = true.
Proof. exact optional_defaults_in_order. Qed.
Print Assumptions C01_optional_defaults_in_order.

(* zero values: every place that takes ONE value from a form (argument, test, or, setq, ... : arg_red / truthy / or_step;
   binding a variable: store_red, in the reference evaluator) depends on the primary value only, a form that returns NO
   value counts as nil there, an argument form without value contributes nil to the argument list; and 27 contexts, one
   per single-value position of the language, evaluated with (values), (progn (values)) and a call returning no value
   in the hole: same value(s) and trace as with nil in the hole, in the model of the Go code and in the reference
   evaluator.  (The harness evaluates the same block, with eleven producers, against the interpreter on every run.) *)
Theorem C01_single_value_primary : forall m v v', primary v = primary v' ->
  arg_red m v = arg_red m v' /\ truthy m v = truthy m v' /\ or_step m v = or_step m v' /\ store_red Ref v = store_red Ref v'.
Proof. exact single_value_primary. Qed.
Print Assumptions C01_single_value_primary.
Theorem C01_zero_values_as_nil : forall m,
  arg_red m (VValues []) = Ok VNil /\ truthy m (VValues []) = Ok false /\ or_step m (VValues []) = Ok None /\
  store_red Ref (VValues []) = Ok VNil.
Proof. exact zero_values_as_nil. Qed.
Print Assumptions C01_zero_values_as_nil.
Theorem C01_zero_value_argument : forall m ev sc st e es st1 vs st2,
  ev st sc e = (Ok (VValues []), st1) -> ev_args m ev st1 sc es = (Ok vs, st2) ->
  ev_args m ev st sc (e :: es) = (Ok (VNil :: vs), st2).
Proof. exact zero_value_argument. Qed.
Print Assumptions C01_zero_value_argument.
Theorem C01_zero_values_behave_as_nil :
  forallb (fun m => forallb (fun c => same_obs (run m 80 [c (EValues [])]) (run m 80 [c ENil]) &&
                                      same_obs (run m 80 [c (EProgn [EValues []])]) (run m 80 [c ENil]) &&
                                      same_obs (run m 80 [c (EFuncall (ELambda [] [EValues []]) [])]) (run m 80 [c ENil]))
                             sv_contexts) [Slip; Ref] = true.
Proof. exact zero_values_behave_as_nil. Qed.
Print Assumptions C01_zero_values_behave_as_nil.

(* length of a dotted list (repo_fixes/C01-20, found by the thorough tier): a type error in every mode. *)
Theorem C01_length_of_dotted_list_is_error :
  forallb (fun m => match fst (run m 20 [EPrim PLength [EPrim PCons [I 9; ET]]]) with Er EType => true | _ => false end)
          [Slip; Ref; Chk] = true.
Proof. exact length_of_dotted_list_is_error. Qed.
Print Assumptions C01_length_of_dotted_list_is_error.

(* case (round-4 seed c01-10): a clause is selected by membership of the key in its key list; t / otherwise inside a
   key LIST are ordinary keys (only a clause whose key is the bare symbol t / otherwise is the default clause: the
   third component of ECase), in every mode. *)
Theorem C01_case_clause_by_membership : forall v ks body cls,
  find_clause v ((ks, body) :: cls) = if existsb (case_key v) ks then Some body else find_clause v cls.
Proof. exact case_clause_by_membership. Qed.
Print Assumptions C01_case_clause_by_membership.
Theorem C01_case_t_in_key_list_is_a_key : forall v ks body cls,
  val_eql v VT = false -> find_clause v ((DT :: ks, body) :: cls) = find_clause v ((ks, body) :: cls).
Proof. exact case_t_in_key_list_is_a_key. Qed.
Print Assumptions C01_case_t_in_key_list_is_a_key.
Theorem C01_case_otherwise_in_key_list_is_a_key : forall v ks body cls,
  val_eql v (VSym "otherwise") = false ->
  find_clause v ((DSym "otherwise" :: ks, body) :: cls) = find_clause v ((ks, body) :: cls).
Proof. exact case_otherwise_in_key_list_is_a_key. Qed.
Print Assumptions C01_case_otherwise_in_key_list_is_a_key.
Theorem C01_case_key_list_examples :
  forallb (fun m =>
    match run m 20 [ECase (I 1) [([DT], [ETr 1 (I 1)])] None],
          run m 20 [ECase (I 5) [([DInt 1; DSym "otherwise"], [ETr 1 (I 1)])] (Some [ETr 3 (I 3)])],
          run m 20 [ECase ET [([DInt 1; DT], [ETr 1 (I 1)])] (Some [ETr 3 (I 3)])] with
    | (Ok VNil, s1), (Ok (VInt 3), s2), (Ok (VInt 1), s3) =>
        match trace s1, trace s2, trace s3 with [], [3%Z], [1%Z] => true | _, _, _ => false end
    | _, _, _ => false end) [Slip; Ref; Chk] = true.
Proof. exact case_key_list_examples. Qed.
Print Assumptions C01_case_key_list_examples.

(* default forms (repo_fixes/C01-21): each parameter that gets the value of its default form is bound in a scope of its
   own, exactly as let* binds - the default form is evaluated in the scope built so far -, in every mode; the former
   witness yields 1 and a closure made by a default form shares the earlier parameters with the body. *)
Theorem C01_defaults_like_letstar : forall m ev st sc bnd x e os, existsb (String.eqb x) bnd = false ->
  ev_defaults m ev st sc bnd ((x, e) :: os) =
  bind (ev st sc e) (fun v st1 => bindo (store_red m v) st1 (fun a =>
    ev_defaults m ev (snd (alloc st1 [(x, a)])) ((List.length (frames st1), 1) :: sc) (x :: bnd) os)).
Proof. exact defaults_like_letstar. Qed.
Print Assumptions C01_defaults_like_letstar.
Theorem C01_default_closure_lexical :
  forallb (fun m => match fst (run m 60 w_default_closure), fst (run m 60 w_default_shares) with
                    | Ok (VInt 1), Ok (VInt 7) => true | _, _ => false end) [Slip; Ref; Chk] = true.
Proof. exact default_closure_lexical. Qed.
Print Assumptions C01_default_closure_lexical.

(* A variable is bound after its init form has been evaluated, in a frame that did not exist before (let*: per binding;
   let: one frame for all variables after all init forms), in every mode: when the binding is made, no closure in
   existence - the value of the init form, anything it stored in a cell or in the function table - and not the
   enclosing scope either has the new frame in its scope.  Hence (with C01_closure_binding_stable) a closure made by
   the init form of x that mentions x refers to the enclosing x for ever: it never reads or assigns the variable
   being bound.  Evaluated in the three modes: (let ((n 10)) (let* ((n (lambda () n))) (funcall n))) => 10, the same
   with do*, and (let ((c 0)) (let* ((c (lambda () (setq c (1+ c))))) (funcall c)) c) => 1. *)
Theorem C01_letstar_init_outside_own_binding : forall m n st sc x e bs body v st1 a,
  wf_state st -> wf_scope st sc ->
  eval m n st sc e = (Ok v, st1) -> store_red m v = Ok a ->
  eval m (S n) st sc (ELetStar ((x, e) :: bs) body) =
    ev_letstar m (eval m n) (snd (alloc st1 [(x, a)])) ((List.length (frames st1), 1) :: sc) bs body
  /\ unseen (List.length (frames st1)) a
  /\ (forall l w, cell_get (frames st1) l = Some w -> unseen (List.length (frames st1)) w)
  /\ (forall g c, find_fun (funs st1) g = Some c -> unseen (List.length (frames st1)) c)
  /\ ~ In (List.length (frames st1)) (map fst sc).
Proof. exact letstar_init_outside_own_binding. Qed.
Print Assumptions C01_letstar_init_outside_own_binding.
Theorem C01_let_inits_outside_binding : forall m n st sc bs body vs st1,
  wf_state st -> wf_scope st sc ->
  ev_inits m (eval m n) st sc (map snd bs) = (Ok vs, st1) ->
  eval m (S n) st sc (ELet bs body) =
    ev_seq (eval m n) (snd (alloc st1 (mk_frame (map fst bs) vs)))
           ((List.length (frames st1), List.length (mk_frame (map fst bs) vs)) :: sc) body VNil
  /\ Forall (unseen (List.length (frames st1))) vs
  /\ (forall l w, cell_get (frames st1) l = Some w -> unseen (List.length (frames st1)) w)
  /\ ~ In (List.length (frames st1)) (map fst sc).
Proof. exact let_inits_outside_binding. Qed.
Print Assumptions C01_let_inits_outside_binding.
Theorem C01_init_closure_own_name :
  forallb (fun m => match fst (run m 60 w_letstar_own_read), fst (run m 60 w_letstar_own_write), fst (run m 60 w_dostar_own_read) with
                    | Ok (VInt 10), Ok (VInt 1), Ok (VInt 10) => true | _, _, _ => false end) [Slip; Ref; Chk] = true.
Proof. exact init_closure_own_name. Qed.
Print Assumptions C01_init_closure_own_name.

(* Repair C01-22.  A lambda expression called where it stands - ((lambda ps body) a ..), (funcall (lambda ps body) a ..),
   with #' or function - closes over the scope of EACH evaluation: in every mode, state and scope the call yields a
   value iff the arguments, left to right in the scope sc of this evaluation, yield values and then the function
   (ps, body, sc) applied to them does - sc, not the scope of an earlier evaluation of the same code position
   (loop iteration, call of the enclosing function, recursion level).  The two former witnesses are evaluated in the
   three modes: (3 2 1) [the unrepaired code: (1 1 1)] and ((11 11) (21 21)) [was ((11 11) (12 20))]. *)
Theorem C01_inline_lambda_closes_over_each_evaluation : forall m n st sc ps body es v st',
  eval m (S (S n)) st sc (EFuncall (ELambda ps body) es) = (Ok v, st') <->
  exists vs st1, args_ltr m (eval m (S n)) sc st es vs st1 /\
    apply_fn m (eval m (S n)) st1 (CClo ps [] body sc) vs = (Ok v, st').
Proof. exact inline_lambda_call. Qed.
Print Assumptions C01_inline_lambda_closes_over_each_evaluation.
Theorem C01_lambda_form_each_evaluation :
  forallb (fun m => match fst (run m 60 w_lambda_form_loop), fst (run m 60 w_lambda_form_defun) with
                    | Ok (VList [VInt 3; VInt 2; VInt 1]),
                      Ok (VList [VList [VInt 11; VInt 11]; VList [VInt 21; VInt 21]]) => true
                    | _, _ => false end) [Slip; Ref; Chk] = true.
Proof. exact lambda_form_each_evaluation. Qed.
Print Assumptions C01_lambda_form_each_evaluation.
