(* C01 — one simulation lemma for two theorems.  If mode m2 makes the same choice as mode m1 at every switch
   whenever m1 does not stop with error E, and evaluator ev2 agrees with ev1 wherever ev1 does not stop with E,
   then [evalF m2 ev2] agrees with [evalF m1 ev1] wherever the latter does not stop with E.
   E = EFuel, m1 = m2: more fuel never changes a result.  E = EDev, m1 = Chk: a guard run without deviation is
   the run of the Go model and of the reference evaluator. *)
From C01 Require Import Model.
(* apply_fn is kept folded by simpl: its lemma apply_fn_sim is used instead *)
Arguments apply_fn : simpl never.

Section Sim.
Variables m1 m2 : mode.
Variable E : err.
Definition goodo {A} (o : out A) : Prop := match o with Er e => e <> E | Ok _ => True end.
Definition good {A} (r : res A) : Prop := goodo (fst r).

Record sim_modes : Prop := {
  sm_arg : forall v, goodo (arg_red m1 v) -> arg_red m2 v = arg_red m1 v;
  sm_store : forall v, goodo (store_red m1 v) -> store_red m2 v = store_red m1 v;
  sm_truthy : forall v, goodo (truthy m1 v) -> truthy m2 v = truthy m1 v;
  sm_or : forall v, goodo (or_step m1 v) -> or_step m2 v = or_step m1 v;
  sm_loc : forall fs sc x, goodo (locate_m m1 fs sc x) -> locate_m m2 fs sc x = locate_m m1 fs sc x
}.
Hypothesis SM : sim_modes.
Variables ev1 ev2 : state -> scope -> expr -> result.
Hypothesis Hev : forall st sc e, good (ev1 st sc e) -> ev2 st sc e = ev1 st sc e.

Lemma good_bind : forall A B (r : res A) (k : A -> state -> res B),
  good (bind r k) -> good r /\ forall a s, r = (Ok a, s) -> good (k a s).
Proof.
  unfold good, goodo, bind; intros A B [[a|e] s] k H; simpl in *; split.
  - exact I.
  - intros a0 s0 Heq; inversion Heq; subst; exact H.
  - exact H.
  - intros a0 s0 Heq; discriminate.
Qed.
Lemma good_bindo : forall A B (o : out A) st (k : A -> res B),
  good (bindo o st k) -> goodo o /\ forall a, o = Ok a -> good (k a).
Proof.
  unfold good, goodo, bindo; intros A B [a|e] st k H; simpl in *; split.
  - exact I.
  - intros a0 Heq; inversion Heq; subst; exact H.
  - exact H.
  - intros a0 Heq; discriminate.
Qed.


Lemma bind_assoc : forall A B C (r : res A) (k1 : A -> state -> res B) (k2 : B -> state -> res C),
  bind (bind r k1) k2 = bind r (fun a s => bind (k1 a s) k2).
Proof. intros A B C [[a|e] s] k1 k2; reflexivity. Qed.
Lemma bind_bindo : forall A B C (o : out A) st (k1 : A -> res B) (k2 : B -> state -> res C),
  bind (bindo o st k1) k2 = bindo o st (fun a => bind (k1 a) k2).
Proof. intros A B C [a|e] st k1 k2; reflexivity. Qed.
Lemma bind_ret : forall A B (a : A) (s : state) (k : A -> state -> res B), bind (Ok a, s) k = k a s.
Proof. reflexivity. Qed.

Ltac split_good :=
  match goal with
  | H : good (bind ?r ?k) |- _ =>
      let G := fresh "G" in let K := fresh "K" in destruct (good_bind _ _ r k H) as [G K]; clear H
  | H : good (bindo ?o ?st ?k) |- _ =>
      let G := fresh "G" in let K := fresh "K" in destruct (good_bindo _ _ o st k H) as [G K]; clear H
  end.
Ltac rw_lead :=
  match goal with
  | G : good (ev1 ?st ?sc ?e) |- _ => rewrite (Hev _ _ _ G); clear G
  | G : goodo (arg_red m1 ?v) |- _ => rewrite (sm_arg SM _ G); clear G
  | G : goodo (store_red m1 ?v) |- _ => rewrite (sm_store SM _ G); clear G
  | G : goodo (truthy m1 ?v) |- _ => rewrite (sm_truthy SM _ G); clear G
  | G : goodo (or_step m1 ?v) |- _ => rewrite (sm_or SM _ G); clear G
  | G : goodo (locate_m m1 ?fs ?sc ?x) |- _ => rewrite (sm_loc SM _ _ _ G); clear G
  end.
Ltac case_lead :=
  match goal with
  | K : forall a s, ?r = (Ok a, s) -> _ |- _ =>
      destruct r as [[?|?] ?]; simpl; [specialize (K _ _ eq_refl); simpl in K | reflexivity]
  | K : forall a, ?o = Ok a -> _ |- _ =>
      destruct o as [?|?]; simpl; [specialize (K _ eq_refl); simpl in K | reflexivity]
  end.
Ltac step rw := split_good; first [rw_lead | rw]; case_lead.
Ltac noop := fail.
Ltac dif := match goal with |- context[if ?b then _ else _] => is_var b; destruct b end.
Ltac dopt := match goal with |- context[match ?o with Some _ => _ | None => _ end] => is_var o; destruct o end.

Lemma ev_seq_sim : forall es st sc last, good (ev_seq ev1 st sc es last) -> ev_seq ev2 st sc es last = ev_seq ev1 st sc es last.
Proof.
  induction es as [|e es IH]; intros st sc last H; simpl in *; [reflexivity|].
  step noop. auto.
Qed.
Ltac rw_seq := idtac; match goal with G : good (ev_seq ev1 _ _ _ _) |- _ => rewrite (ev_seq_sim _ _ _ _ G); clear G end.

Lemma ev_args_sim : forall es st sc, good (ev_args m1 ev1 st sc es) -> ev_args m2 ev2 st sc es = ev_args m1 ev1 st sc es.
Proof.
  induction es as [|e es IH]; intros st sc H; simpl in *; [reflexivity|].
  step noop. try (step noop).
  step ltac:(idtac; match goal with G : good (ev_args _ _ _ _ _) |- _ => rewrite (IH _ _ G); clear G end).
  reflexivity.
Qed.

Ltac rw_args := idtac; match goal with G : good (ev_args m1 ev1 _ _ _) |- _ => rewrite (ev_args_sim _ _ _ G); clear G end.

Lemma ev_inits_sim : forall es st sc, good (ev_inits m1 ev1 st sc es) -> ev_inits m2 ev2 st sc es = ev_inits m1 ev1 st sc es.
Proof.
  induction es as [|e es IH]; intros st sc H; simpl in *; [reflexivity|].
  step noop. try (step noop).
  step ltac:(idtac; match goal with G : good (ev_inits _ _ _ _ _) |- _ => rewrite (IH _ _ G); clear G end).
  reflexivity.
Qed.
Ltac rw_inits := idtac; match goal with G : good (ev_inits m1 ev1 _ _ _) |- _ => rewrite (ev_inits_sim _ _ _ G); clear G end.

Lemma pair_sim : forall A (o1 o2 : out A) (s : state), (goodo o1 -> o2 = o1) -> good (o1, s) -> (o2, s) = (o1, s).
Proof. intros A o1 o2 s H G. rewrite (H G). reflexivity. Qed.

Lemma ev_test_sim : forall st sc c, good (ev_test m1 ev1 st sc c) -> ev_test m2 ev2 st sc c = ev_test m1 ev1 st sc c.
Proof.
  intros st sc c H; unfold ev_test in *. step noop.
  apply pair_sim; [apply (sm_truthy SM)|assumption].
Qed.
Ltac rw_test := idtac; match goal with G : good (ev_test m1 ev1 _ _ _) |- _ => rewrite (ev_test_sim _ _ _ G); clear G end.

Lemma ev_cond_sim : forall cls st sc, good (ev_cond m1 ev1 st sc cls) -> ev_cond m2 ev2 st sc cls = ev_cond m1 ev1 st sc cls.
Proof.
  induction cls as [|[c body] cls IH]; intros st sc H; simpl in *; [reflexivity|].
  step noop. unfold truthy in *; simpl in *.
  match goal with |- context[if ?b then _ else _] => destruct b end.
  - destruct body.
    + reflexivity.
    + apply ev_seq_sim; assumption.
  - apply IH; assumption.
Qed.

Lemma ev_and_sim : forall es st sc, good (ev_and m1 ev1 st sc es) -> ev_and m2 ev2 st sc es = ev_and m1 ev1 st sc es.
Proof.
  induction es as [|e es IH]; intros st sc H; [reflexivity|].
  destruct es as [|e' es'].
  - simpl in *. apply Hev; assumption.
  - change (ev_and m1 ev1 st sc (e :: e' :: es')) with
      (bind (ev_test m1 ev1 st sc e) (fun b st1 => if b then ev_and m1 ev1 st1 sc (e' :: es') else (Ok VNil, st1))) in *.
    change (ev_and m2 ev2 st sc (e :: e' :: es')) with
      (bind (ev_test m2 ev2 st sc e) (fun b st1 => if b then ev_and m2 ev2 st1 sc (e' :: es') else (Ok VNil, st1))).
    step rw_test. dif; [apply IH; assumption | reflexivity].
Qed.

Lemma ev_or_sim : forall es st sc, good (ev_or m1 ev1 st sc es) -> ev_or m2 ev2 st sc es = ev_or m1 ev1 st sc es.
Proof.
  induction es as [|e es IH]; intros st sc H; [reflexivity|].
  destruct es as [|e' es'].
  - simpl in *. apply Hev; assumption.
  - change (ev_or m1 ev1 st sc (e :: e' :: es')) with
      (bind (ev1 st sc e) (fun v st1 => bindo (or_step m1 v) st1 (fun o => match o with Some r => (Ok r, st1) | None => ev_or m1 ev1 st1 sc (e' :: es') end))) in *.
    change (ev_or m2 ev2 st sc (e :: e' :: es')) with
      (bind (ev2 st sc e) (fun v st1 => bindo (or_step m2 v) st1 (fun o => match o with Some r => (Ok r, st1) | None => ev_or m2 ev2 st1 sc (e' :: es') end))).
    step noop. unfold or_step in *. simpl in *. destruct (is_nil (primary a)); [|reflexivity]. apply (IH s sc). exact K.
Qed.

Lemma ev_letstar_sim : forall bs es st sc, good (ev_letstar m1 ev1 st sc bs es) -> ev_letstar m2 ev2 st sc bs es = ev_letstar m1 ev1 st sc bs es.
Proof.
  induction bs as [|[x e] bs IH]; intros es st sc H; simpl in *.
  - apply ev_seq_sim; assumption.
  - step noop. try (step noop). apply IH; assumption.
Qed.

Lemma assign_sim : forall st sc x v, good (assign m1 st sc x v) -> assign m2 st sc x v = assign m1 st sc x v.
Proof.
  intros st sc x v H; unfold assign in *. step noop. reflexivity.
Qed.
Ltac rw_assign := idtac; match goal with G : good (assign m1 _ _ _ _) |- _ => rewrite (assign_sim _ _ _ _ G); clear G end.

Lemma ev_setq_sim : forall ps st sc last, good (ev_setq m1 ev1 st sc ps last) -> ev_setq m2 ev2 st sc ps last = ev_setq m1 ev1 st sc ps last.
Proof.
  induction ps as [|[x e] ps IH]; intros st sc last H; simpl in *; [reflexivity|].
  step noop. try (step noop). step rw_assign. apply IH; assumption.
Qed.

Lemma ev_defaults_sim : forall os st sc bnd, good (ev_defaults m1 ev1 st sc bnd os) -> ev_defaults m2 ev2 st sc bnd os = ev_defaults m1 ev1 st sc bnd os.
Proof.
  induction os as [|[x e] os IH]; intros st sc bnd H; simpl in *; [reflexivity|].
  destruct (existsb (String.eqb x) bnd); [apply IH; assumption|].
  step noop. try (step noop). apply IH; assumption.
Qed.
Lemma apply_fn_sim : forall st c args, good (apply_fn m1 ev1 st c args) -> apply_fn m2 ev2 st c args = apply_fn m1 ev1 st c args.
Proof.
  intros st [ps os body csc|p] args H; [|reflexivity]. unfold apply_fn in *.
  destruct (List.length ps + List.length os <? List.length args); [reflexivity|].
  destruct (List.length args <? List.length ps); [reflexivity|].
  destruct (alloc st (mk_frame (ps ++ map fst os) args)) as [f st1].
  destruct (drop os (List.length args - List.length ps)) as [|d ds].
  - apply ev_seq_sim; assumption.
  - split_good. rewrite (ev_defaults_sim _ _ _ _ G). case_lead. apply ev_seq_sim; assumption.
Qed.
Ltac rw_apply := idtac; match goal with G : good (apply_fn m1 ev1 _ _ _) |- _ => rewrite (apply_fn_sim _ _ _ G); clear G end.

Lemma ev_map_sim : forall rows st c, good (ev_map m1 ev1 st c rows) -> ev_map m2 ev2 st c rows = ev_map m1 ev1 st c rows.
Proof.
  induction rows as [|row rows IH]; intros st c H; simpl in *; [reflexivity|].
  step rw_apply.
  step ltac:(idtac; match goal with G : good (ev_map _ _ _ _ _) |- _ => rewrite (IH _ _ G); clear G end).
  reflexivity.
Qed.

Lemma ev_iter_sim : forall vs st sc f x es, good (ev_iter ev1 st sc f x vs es) -> ev_iter ev2 st sc f x vs es = ev_iter ev1 st sc f x vs es.
Proof.
  induction vs as [|v vs IH]; intros st sc f x es H; simpl in *; [reflexivity|].
  step rw_seq. apply IH; assumption.
Qed.

Lemma ev_opt_sim : forall st sc r, good (ev_opt ev1 st sc r) -> ev_opt ev2 st sc r = ev_opt ev1 st sc r.
Proof. intros st sc [e|] H; simpl in *; [apply Hev; assumption|reflexivity]. Qed.

Lemma ev_inits_seq_sim : forall bs st sc, good (ev_inits_seq m1 ev1 st sc bs) -> ev_inits_seq m2 ev2 st sc bs = ev_inits_seq m1 ev1 st sc bs.
Proof.
  induction bs as [|[[x e] s0] bs IH]; intros st sc H; simpl in *; [reflexivity|].
  step noop. try (step noop). apply IH; assumption.
Qed.

Lemma ev_steps_par_sim : forall bs st sc, good (ev_steps_par m1 ev1 st sc bs) -> ev_steps_par m2 ev2 st sc bs = ev_steps_par m1 ev1 st sc bs.
Proof.
  induction bs as [|[[x e] [s0|]] bs IH]; intros st sc H; simpl in *; [reflexivity| |apply IH; assumption].
  step noop. try (step noop).
  step ltac:(idtac; match goal with G : good (ev_steps_par _ _ _ _ _) |- _ => rewrite (IH _ _ G); clear G end).
  reflexivity.
Qed.

Lemma ev_steps_seq_sim : forall bs st sc fs, good (ev_steps_seq m1 ev1 st sc fs bs) -> ev_steps_seq m2 ev2 st sc fs bs = ev_steps_seq m1 ev1 st sc fs bs.
Proof.
  induction bs as [|[[x e] [s0|]] bs IH]; intros st sc [|f fs] H; simpl in *; try reflexivity; [|apply IH; assumption].
  step noop. try (step noop). apply IH; assumption.
Qed.

Ltac rw_map := idtac; match goal with G : good (ev_map m1 ev1 _ _ _) |- _ => rewrite (ev_map_sim _ _ _ G); clear G end.
Ltac rw_iter := idtac; match goal with G : good (ev_iter ev1 _ _ _ _ _ _) |- _ => rewrite (ev_iter_sim _ _ _ _ _ _ G); clear G end.
Ltac rw_inits_seq := idtac; match goal with G : good (ev_inits_seq m1 ev1 _ _ _) |- _ => rewrite (ev_inits_seq_sim _ _ _ G); clear G end.
Ltac rw_steps_par := idtac; match goal with G : good (ev_steps_par m1 ev1 _ _ _) |- _ => rewrite (ev_steps_par_sim _ _ _ G); clear G end.
Ltac rw_steps_seq := idtac; match goal with G : good (ev_steps_seq m1 ev1 _ _ _ _) |- _ => rewrite (ev_steps_seq_sim _ _ _ _ G); clear G end.
Ltac rw_any := first [rw_seq|rw_args|rw_inits|rw_test|rw_assign|rw_apply|rw_map|rw_iter|rw_inits_seq|rw_steps_par|rw_steps_seq].
Ltac step' := split_good; try (first [rw_lead | rw_any]); case_lead.
Ltac fin := first
  [ reflexivity | assumption
  | apply Hev; assumption | apply ev_seq_sim; assumption | apply ev_cond_sim; assumption
  | apply ev_and_sim; assumption | apply ev_or_sim; assumption | apply ev_letstar_sim; assumption
  | apply ev_setq_sim; assumption | apply apply_fn_sim; assumption | apply ev_opt_sim; assumption
  ].
Ltac pre :=
  match goal with
  | H : good (bindo (if ?b then _ else _) _ _) |- _ => destruct b eqn:?
  | H : good (bind (if ?b then _ else _) _) |- _ => destruct b eqn:?
  | H : good (if ?b then _ else _) |- _ => destruct b eqn:?
  | H : good (match ?x with _ => _ end) |- _ => destruct x eqn:?
  end.
Ltac norm := repeat first [rewrite bind_assoc in * | rewrite bind_bindo in * | rewrite bind_ret in *].
Ltac go := repeat (first [ fin | step' | pre; simpl in * | progress norm ]).

Lemma evalF_sim : forall st sc e, good (evalF m1 ev1 st sc e) -> evalF m2 ev2 st sc e = evalF m1 ev1 st sc e.
Proof.
  intros st sc e H; destruct e; simpl in *; go.
Qed.
End Sim.

(* ---- instances ---- *)
Lemma sim_same : forall m E, sim_modes m m E.
Proof. intros; constructor; reflexivity. Qed.

Lemma sim_chk : forall m, sim_modes Chk m EDev.
Proof.
  intros m; constructor; unfold goodo.
  - reflexivity.
  - intros v; destruct m; simpl; try reflexivity; destruct (is_values v) eqn:Hv; try congruence.
    destruct v; try discriminate; reflexivity.
  - reflexivity.
  - reflexivity.
  - intros fs sc x; destruct m; simpl; try reflexivity.
    + destruct (loc_eqb (locate false fs sc x) (locate true fs sc x)) eqn:Hl; [|congruence].
      intros _. f_equal.
      destruct (locate false fs sc x) as [[f i]|], (locate true fs sc x) as [[g j]|]; simpl in Hl; try discriminate; try reflexivity.
      apply andb_prop in Hl; destruct Hl as [H1 H2]; apply Nat.eqb_eq in H1; apply Nat.eqb_eq in H2; subst; reflexivity.
    + destruct (loc_eqb (locate false fs sc x) (locate true fs sc x)); congruence.
Qed.

Lemma eval_sim : forall m1 m2 E, sim_modes m1 m2 E ->
  forall n st sc e, good E (eval m1 n st sc e) -> eval m2 n st sc e = eval m1 n st sc e.
Proof.
  intros m1 m2 E SM; induction n as [|n IH]; intros st sc e H; [reflexivity|].
  simpl in *. apply (evalF_sim m1 m2 E SM (eval m1 n) (eval m2 n) IH); exact H.
Qed.

Lemma eval_fuel_S : forall m n st sc e, good EFuel (eval m n st sc e) -> eval m (S n) st sc e = eval m n st sc e.
Proof.
  intros m; induction n as [|n IH]; intros st sc e H.
  - simpl in H. unfold good, goodo in H; simpl in H. congruence.
  - change (eval m (S (S n))) with (evalF m (eval m (S n))). change (eval m (S n)) with (evalF m (eval m n)) in *.
    apply (evalF_sim m m EFuel (sim_same m EFuel) (eval m n) (eval m (S n)) IH); exact H.
Qed.
