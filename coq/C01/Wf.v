(* C01 — every scope that evaluation produces is well formed: the hypothesis of the closure theorems holds for every
   closure of every state reachable from the initial one. *)
From C01 Require Import Model Sim Ext Laws.

(* the scopes captured by the closures inside a value *)
Fixpoint scopes_of (v : val) : list scope :=
  match v with
  | VClo _ _ _ sc => [sc]
  | VList vs | VValues vs => (fix go (l : list val) : list scope := match l with [] => [] | x :: l' => scopes_of x ++ go l' end) vs
  | VDot vs tl => (fix go (l : list val) : list scope := match l with [] => [] | x :: l' => scopes_of x ++ go l' end) vs ++ scopes_of tl
  | _ => []
  end.
Definition wf_val (st : state) (v : val) : Prop := Forall (wf_scope st) (scopes_of v).
Definition wf_vals (st : state) (vs : list val) : Prop := Forall (wf_val st) vs.
Definition wf_frame (st : state) (fr : frame) : Prop := Forall (fun c => wf_val st (snd c)) fr.
Definition wf_state (st : state) : Prop :=
  Forall (wf_frame st) (frames st) /\ Forall (fun fc => wf_val st (snd fc)) (funs st).

Lemma scopes_go : forall l, (fix go (l : list val) : list scope := match l with [] => [] | x :: l' => scopes_of x ++ go l' end) l = flat_map scopes_of l.
Proof. induction l as [|x l IH]; simpl; [reflexivity|]. rewrite IH. reflexivity. Qed.
Lemma wf_flat : forall st l, Forall (wf_scope st) (flat_map scopes_of l) <-> wf_vals st l.
Proof.
  intros st; induction l as [|x l IH]; simpl.
  - split; constructor.
  - rewrite Forall_app. unfold wf_vals in *. split.
    + intros [A B]; constructor; [exact A|apply IH; exact B].
    + intros H; inversion H; subst; split; [assumption|apply IH; assumption].
Qed.
Lemma wf_val_list : forall st vs, wf_val st (VList vs) <-> wf_vals st vs.
Proof. intros; unfold wf_val; simpl; rewrite scopes_go; apply wf_flat. Qed.
Lemma wf_val_values : forall st vs, wf_val st (VValues vs) <-> wf_vals st vs.
Proof. intros; unfold wf_val; simpl; rewrite scopes_go; apply wf_flat. Qed.
Lemma wf_val_dot : forall st vs tl, wf_val st (VDot vs tl) <-> wf_vals st vs /\ wf_val st tl.
Proof. intros; unfold wf_val; simpl; rewrite scopes_go, Forall_app, wf_flat; reflexivity. Qed.
Lemma wf_val_clo : forall st ps os body sc, wf_val st (VClo ps os body sc) <-> wf_scope st sc.
Proof.
  intros; unfold wf_val; simpl; split; intro H; [inversion H; assumption|constructor; [assumption|constructor]].
Qed.
Lemma wf_val_mk_list : forall st vs, wf_vals st vs -> wf_val st (mk_list vs).
Proof. intros st [|v vs] H; simpl; [constructor|apply wf_val_list; exact H]. Qed.
Lemma wf_val_inj : forall st d, wf_val st (inj d).
Proof.
  intros st. fix IH 1. intros d; destruct d; simpl; try (constructor; fail).
  - apply wf_val_mk_list. induction ds as [|x ds IHds]; simpl; constructor; [apply IH|exact IHds].
  - apply wf_val_dot. split; [|apply IH]. induction ds as [|x ds IHds]; simpl; constructor; [apply IH|exact IHds].
Qed.

(* monotone in the state *)
Lemma prefix_length : forall A (a b : list A), prefix a b -> List.length a <= List.length b.
Proof. intros A a b [t H]; subst; rewrite app_length; lia. Qed.
Lemma wf_scope_ext : forall st st' sc, ext st st' -> wf_scope st sc -> wf_scope st' sc.
Proof.
  intros st st' sc (L & F & _) W. unfold wf_scope in *. eapply Forall_impl; [|exact W].
  intros [f h] [A B]; simpl in *. split; [lia|].
  pose proof (prefix_length _ _ _ (F f)) as P. unfold names in P. rewrite !map_length in P. lia.
Qed.
Lemma wf_val_ext : forall st st' v, ext st st' -> wf_val st v -> wf_val st' v.
Proof. intros st st' v E W. unfold wf_val in *. eapply Forall_impl; [|exact W]. intros sc; apply wf_scope_ext; exact E. Qed.
Lemma wf_vals_ext : forall st st' vs, ext st st' -> wf_vals st vs -> wf_vals st' vs.
Proof. intros st st' vs E W. unfold wf_vals in *. eapply Forall_impl; [|exact W]. intros v; apply wf_val_ext; exact E. Qed.
Lemma wf_frame_ext : forall st st' fr, ext st st' -> wf_frame st fr -> wf_frame st' fr.
Proof. intros st st' fr E W. unfold wf_frame in *. eapply Forall_impl; [|exact W]. intros c; apply wf_val_ext; exact E. Qed.

(* ---- frames and primitive state operations ---- *)
Lemma Forall_set_nth : forall A (P : A -> Prop) l n x, Forall P l -> P x -> Forall P (set_nth n x l).
Proof.
  induction l as [|y l IH]; intros [|n] x H Hx; simpl; try constructor; inversion H; subst; auto.
Qed.
Lemma wf_get_frame : forall st f, wf_state st -> wf_frame st (get_frame st f).
Proof.
  intros st f [H _]. unfold get_frame. destruct (nth_in_or_default f (frames st) []) as [I|E].
  - rewrite Forall_forall in H. apply H; exact I.
  - rewrite E; constructor.
Qed.
Lemma wf_fr_bind : forall st fr x v, wf_frame st fr -> wf_val st v -> wf_frame st (fr_bind fr x v).
Proof.
  intros st; induction fr as [|[y w] fr IH]; intros x v H Hv; simpl.
  - constructor; [exact Hv|constructor].
  - inversion H; subst. destruct (String.eqb x y); constructor; simpl in *; auto. apply IH; assumption.
Qed.
Lemma wf_fr_set : forall st fr i v, wf_frame st fr -> wf_val st v -> wf_frame st (fr_set fr i v).
Proof.
  intros st; induction fr as [|[y w] fr IH]; intros [|i] v H Hv; simpl; try constructor; inversion H; subst; simpl in *; auto.
  apply IH; assumption.
Qed.
Lemma wf_put_frame : forall st f fr, prefix (names (get_frame st f)) (names fr) -> wf_state st -> wf_frame st fr ->
  wf_state (put_frame st f fr).
Proof.
  intros st f fr P [HF HU] Hfr. pose proof (ext_put_frame st f fr P) as E. split; simpl.
  - apply Forall_set_nth; [|eapply wf_frame_ext; eauto]. eapply Forall_impl; [|exact HF]. intros; eapply wf_frame_ext; eauto.
  - eapply Forall_impl; [|exact HU]. intros; eapply wf_val_ext; eauto.
Qed.
Lemma wf_bind_in : forall st f x v, wf_state st -> wf_val st v -> wf_state (bind_in st f x v).
Proof.
  intros. unfold bind_in. apply wf_put_frame; [apply names_fr_bind|assumption|].
  apply wf_fr_bind; [apply wf_get_frame|]; assumption.
Qed.
Lemma wf_cell_set : forall st l v, wf_state st -> wf_val st v -> wf_state (cell_set st l v).
Proof.
  intros. unfold cell_set. apply wf_put_frame; [rewrite names_fr_set; apply prefix_refl|assumption|].
  apply wf_fr_set; [apply wf_get_frame|]; assumption.
Qed.
Lemma wf_alloc : forall st fr, wf_state st -> wf_frame st fr -> wf_state (snd (alloc st fr)).
Proof.
  intros st fr [HF HU] Hfr. pose proof (ext_alloc st st fr (ext_refl st)) as E. split; simpl.
  - apply Forall_app; split.
    + eapply Forall_impl; [|exact HF]. intros; eapply wf_frame_ext; eauto.
    + constructor; [eapply wf_frame_ext; eauto|constructor].
  - eapply Forall_impl; [|exact HU]. intros; eapply wf_val_ext; eauto.
Qed.
Lemma wf_same_frames : forall st st', frames st' = frames st -> funs st' = funs st -> wf_state st -> wf_state st'.
Proof.
  intros st st' F U [HF HU].
  assert (S : forall sc, wf_scope st sc -> wf_scope st' sc).
  { intros sc W. unfold wf_scope, get_frame in *. rewrite F. exact W. }
  assert (V : forall v, wf_val st v -> wf_val st' v).
  { intros v W. unfold wf_val in *. eapply Forall_impl; [|exact W]. exact S. }
  split; [rewrite F|rewrite U].
  - eapply Forall_impl; [|exact HF]. intros fr W. unfold wf_frame in *. eapply Forall_impl; [|exact W]. intros; apply V; assumption.
  - eapply Forall_impl; [|exact HU]. intros; apply V; assumption.
Qed.
Lemma wf_add_trace : forall st k, wf_state st -> wf_state (add_trace st k).
Proof. intros; eapply wf_same_frames; eauto; reflexivity. Qed.
Lemma wf_add_fun : forall st f c, wf_state st -> wf_val st c -> wf_state (add_fun st f c).
Proof.
  intros st f c [HF HU] Hc.
  assert (V : forall v, wf_val st v -> wf_val (add_fun st f c) v).
  { intros v W. unfold wf_val, wf_scope, get_frame in *. simpl. exact W. }
  split; simpl.
  - eapply Forall_impl; [|exact HF]. intros fr W. unfold wf_frame in *. eapply Forall_impl; [|exact W]. intros; apply V; assumption.
  - constructor; [apply V; exact Hc|]. eapply Forall_impl; [|exact HU]. intros; apply V; assumption.
Qed.
(* the scope made of a newly allocated frame on top of a well formed scope *)
Lemma wf_scope_alloc : forall st fr sc, wf_scope st sc ->
  wf_scope (snd (alloc st fr)) ((List.length (frames st), List.length fr) :: sc).
Proof.
  intros st fr sc W. constructor.
  - simpl. rewrite app_length; simpl. split; [lia|]. unfold get_frame; simpl. rewrite app_nth2 by lia. rewrite Nat.sub_diag. simpl. lia.
  - eapply wf_scope_ext; [|exact W]. apply ext_alloc, ext_refl.
Qed.
Lemma wf_mk_frame : forall st ps vs, wf_vals st vs -> wf_frame st (mk_frame ps vs).
Proof.
  intros st ps vs H. unfold mk_frame.
  assert (G : forall l fr, Forall (fun pv => wf_val st (snd pv)) l -> wf_frame st fr ->
              wf_frame st (fold_left (fun fr pv => fr_bind fr (fst pv) (snd pv)) l fr)).
  { induction l as [|[p v] l IH]; intros fr Hl Hfr; simpl; [exact Hfr|]. inversion Hl; subst. apply IH; [assumption|]. apply wf_fr_bind; assumption. }
  apply G; [|constructor].
  revert vs H. induction ps as [|p ps IH]; intros [|v vs] H; simpl; try constructor.
  - inversion H; assumption.
  - apply IH. inversion H; assumption.
Qed.
Lemma wf_cell_get : forall st l v, wf_state st -> cell_get (frames st) l = Some v -> wf_val st v.
Proof.
  intros st [f i] v H C. unfold cell_get in C. simpl in C.
  pose proof (wf_get_frame st f H) as W. unfold get_frame in W.
  destruct (nth_error (nth f (frames st) []) i) as [[x w]|] eqn:E; [|discriminate]. simpl in C. inversion C; subst.
  apply nth_error_In in E. unfold wf_frame in W. rewrite Forall_forall in W. apply (W _ E).
Qed.

(* ---- values ---- *)
Lemma wf_nil : forall st, wf_val st VNil. Proof. constructor. Qed.
Lemma wf_primary : forall st v, wf_val st v -> wf_val st (primary v).
Proof.
  intros st [| | | | | | | | | |[|x l]] H; simpl; try exact H; try constructor.
  apply wf_val_values in H. inversion H; assumption.
Qed.
Lemma wf_arg_red : forall m st v a, wf_val st v -> arg_red m v = Ok a -> wf_val st a.
Proof. intros m st v a H E. unfold arg_red in E. inversion E; subst. apply wf_primary; exact H. Qed.
Lemma wf_store_red : forall m st v a, wf_val st v -> store_red m v = Ok a -> wf_val st a.
Proof.
  intros m st v a H E. destruct m; simpl in E.
  - inversion E; subst; exact H.
  - inversion E; subst; apply wf_primary; exact H.
  - destruct (is_values v); inversion E; subst; exact H.
Qed.
Lemma wf_or_step : forall m st v r, wf_val st v -> or_step m v = Ok (Some r) -> wf_val st r.
Proof.
  intros m st v r H E. unfold or_step in E.
  destruct (is_nil (primary v)); inversion E; subst; apply wf_primary; exact H.
Qed.
Lemma wf_values_list : forall st v, wf_val st v -> wf_vals st (values_list v).
Proof.
  intros st v H. destruct v; simpl; try (constructor; [exact H|constructor]). apply wf_val_values; exact H.
Qed.
Lemma wf_pad : forall st n vs, wf_vals st vs -> wf_vals st (pad vs n).
Proof.
  intros st; induction n as [|n IH]; intros vs H; simpl; [constructor|].
  destruct vs as [|v vs]; constructor; try apply wf_nil.
  - apply IH; constructor.
  - inversion H; assumption.
  - apply IH; inversion H; assumption.
Qed.
Lemma wf_hd : forall st vs, wf_vals st vs -> wf_val st (hd VNil vs).
Proof. intros st [|v vs] H; simpl; [apply wf_nil|inversion H; assumption]. Qed.
Lemma wf_tl : forall st vs, wf_vals st vs -> wf_vals st (tl vs).
Proof. intros st [|v vs] H; simpl; [constructor|inversion H; assumption]. Qed.
Lemma wf_list_of : forall st v l, wf_val st v -> list_of v = Some l -> wf_vals st l.
Proof.
  intros st v l H E. destruct v; simpl in E; try discriminate; inversion E; subst; [constructor|apply wf_val_list; exact H].
Qed.
Lemma wf_lists_of : forall st vs ls, wf_vals st vs -> lists_of vs = Some ls -> Forall (wf_vals st) ls.
Proof.
  intros st; induction vs as [|v vs IH]; intros ls H E; simpl in E.
  - inversion E; constructor.
  - inversion H; subst. destruct (list_of v) as [l|] eqn:E1; [|discriminate].
    destruct (lists_of vs) as [ls'|] eqn:E2; [|discriminate]. inversion E; subst.
    constructor; [eapply wf_list_of; eauto|apply IH; auto].
Qed.
Lemma wf_transpose : forall st n ls, Forall (wf_vals st) ls -> Forall (wf_vals st) (transpose n ls).
Proof.
  intros st; induction n as [|n IH]; intros ls H; simpl; [constructor|]. constructor.
  - unfold wf_vals. apply Forall_map. eapply Forall_impl; [|exact H]. intros l Hl; apply wf_hd; exact Hl.
  - apply IH. apply Forall_map. eapply Forall_impl; [|exact H]. intros l Hl; apply wf_tl; exact Hl.
Qed.
Lemma wf_rev : forall st vs, wf_vals st vs -> wf_vals st (rev vs).
Proof. intros; unfold wf_vals; apply Forall_rev; assumption. Qed.

Ltac kill := solve [repeat (match goal with E : context[match ?x with _ => _ end] |- _ => is_var x; destruct x end); discriminate].
Lemma wf_prim : forall st p vs v, wf_vals st vs -> prim_apply p vs = Ok v -> wf_val st v.
Proof.
  intros st p vs v H E.
  assert (B : forall b, wf_val st (vbool b)) by (intros [|]; constructor).
  assert (Z : forall z r, vint z = Ok r -> wf_val st r).
  { intros z r Hz; unfold vint in Hz; destruct (Z.abs z <? big)%Z; inversion Hz; constructor. }
  destruct p; simpl in E.
  - destruct (ints vs); [eapply Z; eauto|discriminate].
  - destruct (ints vs) as [[|z [|z' l]]|]; try discriminate; eapply Z; eauto.
  - destruct vs as [|a [|]]; try discriminate; try kill. destruct a; try discriminate; eapply Z; eauto.
  - destruct vs; [discriminate|]. destruct (ints (v0 :: vs)); inversion E; apply B.
  - destruct vs; [discriminate|]. destruct (ints (v0 :: vs)); inversion E; apply B.
  - destruct vs; [discriminate|]. destruct (ints (v0 :: vs)); inversion E; apply B.
  - inversion E; subst. apply wf_val_mk_list; exact H.
  - destruct vs as [|a [|b [|c l]]]; try discriminate; try kill. inversion H as [|? ? Ha H']; subst. inversion H' as [|? ? Hb _]; subst.
    destruct b; inversion E; subst;
      try (apply wf_val_dot; split; [constructor; [exact Ha|constructor]|exact Hb]).
    + apply wf_val_list; constructor; [exact Ha|constructor].
    + apply wf_val_list; constructor; [exact Ha|apply wf_val_list; exact Hb].
    + apply wf_val_dot in Hb. destruct Hb as [Hb1 Hb2]. apply wf_val_dot; split; [constructor; assumption|assumption].
  - destruct vs as [|a [|]]; try discriminate; try kill. inversion H as [|? ? Ha _]; subst.
    destruct a as [| | | | | |[|x l]|[|x l] t| | |]; inversion E; subst; try constructor.
    + apply wf_val_list in Ha; inversion Ha; assumption.
    + apply wf_val_dot in Ha; destruct Ha as [Ha _]; inversion Ha; assumption.
  - destruct vs as [|a [|]]; try discriminate; try kill. inversion H as [|? ? Ha _]; subst.
    destruct a as [| | | | | |[|x l]|[|x [|y l]] t| | |]; inversion E; subst; try constructor.
    + apply wf_val_list in Ha; inversion Ha; subst. apply wf_val_mk_list; assumption.
    + apply wf_val_dot in Ha; destruct Ha as [_ Ha]; exact Ha.
    + apply wf_val_dot in Ha; destruct Ha as [Ha1 Ha2]; inversion Ha1; subst. apply wf_val_dot; split; assumption.
  - destruct vs as [|a [|]]; try discriminate; try kill; inversion E; apply B.
  - destruct vs as [|a [|]]; try discriminate; try kill; inversion E; apply B.
  - destruct vs as [|a [|b [|]]]; try discriminate; try kill; inversion E; apply B.
  - destruct vs as [|a [|]]; try discriminate; try kill. destruct a; inversion E; constructor.
Qed.

Definition wf_callable (st : state) (c : callable) : Prop :=
  match c with CClo _ _ _ sc => wf_scope st sc | CPrim _ => True end.
Lemma wf_find_fun : forall st f c, wf_state st -> find_fun (funs st) f = Some c -> wf_val st c.
Proof.
  intros st f c [_ H] E. induction (funs st) as [|[g d] l IH]; simpl in E; [discriminate|].
  inversion H; subst. destruct (String.eqb f g); [inversion E; subst; assumption|apply IH; assumption].
Qed.
Lemma wf_resolve_name : forall st f c, wf_state st -> resolve_name st f = Ok c -> wf_callable st c.
Proof.
  intros st f c H E. unfold resolve_name in E. destruct (find_fun (funs st) f) as [d|] eqn:F.
  - pose proof (wf_find_fun _ _ _ H F) as W. destruct d; try discriminate. inversion E; subst. simpl. apply wf_val_clo in W; exact W.
  - destruct (prim_name f); inversion E; exact I.
Qed.
Lemma wf_resolve : forall st v c, wf_state st -> wf_val st v -> resolve st v = Ok c -> wf_callable st c.
Proof.
  intros st v c H W E. destruct v; simpl in E; try discriminate.
  - eapply wf_resolve_name; eauto.
  - inversion E; subst; simpl. apply wf_val_clo in W; exact W.
  - eapply wf_resolve_name; eauto.
Qed.

(* ---- the evaluator ---- *)
Definition good_res {A} (st : state) (P : state -> A -> Prop) (r : res A) : Prop :=
  ext st (snd r) /\ wf_state (snd r) /\ forall a, fst r = Ok a -> P (snd r) a.
Definition ptrue {A} : state -> A -> Prop := fun _ _ => True.

Lemma good_bind : forall A B st (P : state -> A -> Prop) (Q : state -> B -> Prop) (r : res A) (k : A -> state -> res B),
  good_res st P r -> (forall a s, ext st s -> wf_state s -> P s a -> good_res s Q (k a s)) -> good_res st Q (bind r k).
Proof.
  intros A B st P Q [[a|e] s] k (E & W & V) H; simpl in *.
  - destruct (H a s E W (V a eq_refl)) as (E2 & W2 & V2). split; [eapply ext_trans; eauto|split; assumption].
  - split; [assumption|split; [assumption|]]. intros a C; discriminate.
Qed.
Lemma good_bindo : forall A B st (Q : state -> B -> Prop) (o : out A) (k : A -> res B),
  wf_state st -> (forall a, o = Ok a -> good_res st Q (k a)) -> good_res st Q (bindo o st k).
Proof.
  intros A B st Q [a|e] k W H; simpl.
  - apply H; reflexivity.
  - split; [apply ext_refl|split; [assumption|]]. intros a C; discriminate.
Qed.
Lemma good_ret : forall A st (P : state -> A -> Prop) (a : A), wf_state st -> P st a -> good_res st P (Ok a, st).
Proof. intros; split; [apply ext_refl|split; [assumption|]]. intros a0 C; inversion C; subst; assumption. Qed.
Lemma good_err : forall A st (P : state -> A -> Prop) e, wf_state st -> good_res st P (@Er A e, st).
Proof. intros; split; [apply ext_refl|split; [assumption|]]. intros a0 C; discriminate. Qed.
Lemma good_out : forall A st (P : state -> A -> Prop) (o : out A), wf_state st -> (forall a, o = Ok a -> P st a) -> good_res st P (o, st).
Proof. intros A st P [a|e] W H; [apply good_ret; auto|apply good_err; auto]. Qed.
(* the result state may be reached through another state *)
Lemma good_from : forall A st st1 (P : state -> A -> Prop) r, ext st st1 -> good_res st1 P r -> good_res st P r.
Proof. intros A st st1 P r E (E1 & W & V). split; [eapply ext_trans; eauto|split; assumption]. Qed.

Section Wf.
Variable m : mode.
Variable ev : state -> scope -> expr -> result.
Hypothesis Hev : forall st sc e, wf_state st -> wf_scope st sc -> good_res st wf_val (ev st sc e).

Lemma ev_seq_wf : forall es st sc last, wf_state st -> wf_scope st sc -> wf_val st last ->
  good_res st wf_val (ev_seq ev st sc es last).
Proof.
  induction es as [|e es IH]; intros st sc last W S L; simpl.
  - apply good_ret; assumption.
  - eapply good_bind; [apply Hev; assumption|]. intros v s E Ws Vs. apply IH; auto. eapply wf_scope_ext; eauto.
Qed.
Lemma ev_args_wf : forall es st sc, wf_state st -> wf_scope st sc -> good_res st wf_vals (ev_args m ev st sc es).
Proof.
  induction es as [|e es IH]; intros st sc W S; simpl.
  - apply good_ret; [assumption|constructor].
  - eapply good_bind; [apply Hev; assumption|]. intros v s E Ws Vs.
    eapply good_bind; [apply IH; [assumption|eapply wf_scope_ext; eauto]|]. intros vs s2 E2 W2 V2.
    apply good_ret; [assumption|]. constructor; [|exact V2]. eapply wf_val_ext; [exact E2|]. apply wf_primary; assumption.
Qed.
Lemma ev_inits_wf : forall es st sc, wf_state st -> wf_scope st sc -> good_res st wf_vals (ev_inits m ev st sc es).
Proof.
  induction es as [|e es IH]; intros st sc W S; simpl.
  - apply good_ret; [assumption|constructor].
  - eapply good_bind; [apply Hev; assumption|]. intros v s E Ws Vs.
    apply good_bindo; [assumption|]. intros a Ha.
    eapply good_bind; [apply IH; [assumption|eapply wf_scope_ext; eauto]|]. intros vs s2 E2 W2 V2.
    apply good_ret; [assumption|]. constructor; [|exact V2]. eapply wf_val_ext; [exact E2|]. eapply wf_store_red; eauto.
Qed.
Lemma ev_test_wf : forall st sc c, wf_state st -> wf_scope st sc -> good_res st ptrue (ev_test m ev st sc c).
Proof.
  intros st sc c W S. unfold ev_test. eapply good_bind; [apply Hev; assumption|]. intros v s E Ws Vs.
  apply good_out; [assumption|]. intros; exact I.
Qed.

Lemma good_step : forall A st st' (P : state -> A -> Prop) a, ext st st' -> wf_state st' -> P st' a -> good_res st P (Ok a, st').
Proof. intros; split; [assumption|split; [assumption|]]. intros a0 C; inversion C; subst; assumption. Qed.
Lemma wf_callable_ext : forall st st' c, ext st st' -> wf_callable st c -> wf_callable st' c.
Proof. intros st st' [ps body sc|p] E W; simpl in *; [eapply wf_scope_ext; eauto|exact I]. Qed.

Lemma ev_cond_wf : forall cls st sc, wf_state st -> wf_scope st sc -> good_res st wf_val (ev_cond m ev st sc cls).
Proof.
  induction cls as [|[c body] cls IH]; intros st sc W S; simpl; [apply good_ret; [assumption|apply wf_nil]|].
  eapply good_bind; [apply Hev; assumption|]. intros v s E Ws Vs.
  unfold truthy; simpl. destruct (negb (is_nil (primary v))).
  - destruct body.
    + apply good_ret; [assumption|apply wf_primary; assumption].
    + apply ev_seq_wf; [assumption|eapply wf_scope_ext; eauto|apply wf_nil].
  - apply IH; [assumption|eapply wf_scope_ext; eauto].
Qed.
Lemma ev_and_wf : forall es st sc, wf_state st -> wf_scope st sc -> good_res st wf_val (ev_and m ev st sc es).
Proof.
  induction es as [|e es IH]; intros st sc W S; [apply good_ret; [assumption|constructor]|].
  destruct es as [|e' es'].
  - simpl. apply Hev; assumption.
  - change (ev_and m ev st sc (e :: e' :: es')) with
      (bind (ev_test m ev st sc e) (fun b st1 => if b then ev_and m ev st1 sc (e' :: es') else (Ok VNil, st1))).
    eapply good_bind; [apply ev_test_wf; assumption|]. intros b s E Ws _. destruct b.
    + apply IH; [assumption|eapply wf_scope_ext; eauto].
    + apply good_ret; [assumption|apply wf_nil].
Qed.
Lemma ev_or_wf : forall es st sc, wf_state st -> wf_scope st sc -> good_res st wf_val (ev_or m ev st sc es).
Proof.
  induction es as [|e es IH]; intros st sc W S; [apply good_ret; [assumption|apply wf_nil]|].
  destruct es as [|e' es'].
  - simpl. apply Hev; assumption.
  - change (ev_or m ev st sc (e :: e' :: es')) with
      (bind (ev st sc e) (fun v st1 => bindo (or_step m v) st1 (fun o => match o with Some r => (Ok r, st1) | None => ev_or m ev st1 sc (e' :: es') end))).
    eapply good_bind; [apply Hev; assumption|]. intros v s E Ws Vs.
    apply good_bindo; [assumption|]. intros [r|] Ho.
    + apply good_ret; [assumption|]. eapply wf_or_step; eauto.
    + apply IH; [assumption|eapply wf_scope_ext; eauto].
Qed.
Lemma good_alloc_then : forall A st fr sc (P : state -> A -> Prop) (k : state -> scope -> res A),
  wf_state st -> wf_frame st fr -> wf_scope st sc ->
  (forall st2 sc2, wf_state st2 -> wf_scope st2 sc2 -> good_res st2 P (k st2 sc2)) ->
  good_res st P (k (mkSt (frames st ++ [fr]) (funs st) (trace st)) ((List.length (frames st), List.length fr) :: sc)).
Proof.
  intros A st fr sc P k W F S H.
  change (mkSt (frames st ++ [fr]) (funs st) (trace st)) with (snd (alloc st fr)).
  eapply good_from; [apply ext_alloc, ext_refl|]. apply H; [apply wf_alloc; assumption|apply wf_scope_alloc; assumption].
Qed.
Lemma ev_letstar_wf : forall bs es st sc, wf_state st -> wf_scope st sc -> good_res st wf_val (ev_letstar m ev st sc bs es).
Proof.
  induction bs as [|[x e] bs IH]; intros es st sc W S; simpl.
  - apply ev_seq_wf; [assumption|assumption|apply wf_nil].
  - eapply good_bind; [apply Hev; assumption|]. intros v s E Ws Vs.
    apply good_bindo; [assumption|]. intros a Ha.
    apply (good_alloc_then val s [(x, a)] sc wf_val (fun st2 sc2 => ev_letstar m ev st2 sc2 bs es)); auto.
    + constructor; [|constructor]. simpl. eapply wf_store_red; eauto.
    + eapply wf_scope_ext; eauto.
Qed.
Lemma assign_wf : forall st sc x v, wf_state st -> wf_val st v -> good_res st ptrue (assign m st sc x v).
Proof.
  intros st sc x v W V. unfold assign. apply good_bindo; [assumption|]. intros [l|] Hl.
  - apply good_step; [apply ext_cell_set, ext_refl|apply wf_cell_set; assumption|exact I].
  - apply good_err; assumption.
Qed.
Lemma ev_setq_wf : forall ps st sc last, wf_state st -> wf_scope st sc -> wf_val st last ->
  good_res st wf_val (ev_setq m ev st sc ps last).
Proof.
  induction ps as [|[x e] ps IH]; intros st sc last W S L; simpl; [apply good_ret; assumption|].
  eapply good_bind; [apply Hev; assumption|]. intros v s E Ws Vs.
  eapply good_bind; [apply assign_wf; [assumption|apply wf_primary; assumption]|]. intros u s2 E2 W2 _.
  apply IH; [assumption|eapply wf_scope_ext; [exact E2|eapply wf_scope_ext; [exact E|exact S]]|].
  eapply wf_val_ext; [exact E2|]. apply wf_primary; assumption.
Qed.
(* the scope (f, current length of frame f) :: sc *)
Lemma wf_scope_cur : forall st f sc, f < List.length (frames st) -> wf_scope st sc ->
  wf_scope st ((f, List.length (get_frame st f)) :: sc).
Proof. intros; constructor; [simpl; split; [assumption|lia]|assumption]. Qed.
Lemma ext_frames_length : forall st st', ext st st' -> List.length (frames st) <= List.length (frames st').
Proof. intros st st' (L & _); exact L. Qed.

Lemma ev_defaults_wf : forall os st sc bnd, wf_state st -> wf_scope st sc ->
  good_res st (fun s sc' => wf_scope s sc') (ev_defaults m ev st sc bnd os).
Proof.
  induction os as [|[x e] os IH]; intros st sc bnd W S; simpl; [apply good_ret; assumption|].
  destruct (existsb (String.eqb x) bnd); [apply IH; assumption|].
  eapply good_bind; [apply Hev; assumption|]. intros v s E Ws Vs.
  apply good_bindo; [assumption|]. intros a Ha.
  apply (good_alloc_then scope s [(x, a)] sc (fun s sc' => wf_scope s sc') (fun st2 sc2 => ev_defaults m ev st2 sc2 (x :: bnd) os)); auto.
  - constructor; [|constructor]. simpl. eapply wf_store_red; eauto.
  - eapply wf_scope_ext; eauto.
Qed.
Lemma apply_fn_wf : forall st c args, wf_state st -> wf_callable st c -> wf_vals st args ->
  good_res st wf_val (apply_fn m ev st c args).
Proof.
  intros st [ps os body csc|p] args W C A; unfold apply_fn.
  - destruct (List.length ps + List.length os <? List.length args); [apply good_err; assumption|].
    destruct (List.length args <? List.length ps); [apply good_err; assumption|].
    simpl in C.
    set (fr := mk_frame (ps ++ map fst os) args).
    assert (Wfr : wf_frame st fr) by (apply wf_mk_frame; assumption).
    unfold alloc.
    change (mkSt (frames st ++ [fr]) (funs st) (trace st)) with (snd (alloc st fr)).
    assert (E1 : ext st (snd (alloc st fr))) by (apply ext_alloc, ext_refl).
    assert (W1 : wf_state (snd (alloc st fr))) by (apply wf_alloc; assumption).
    assert (S1 : wf_scope (snd (alloc st fr)) ((List.length (frames st), List.length fr) :: csc)) by (apply wf_scope_alloc; assumption).
    assert (F1 : List.length (frames st) < List.length (frames (snd (alloc st fr)))) by (simpl; rewrite app_length; simpl; lia).
    eapply good_from; [exact E1|].
    destruct (drop os (List.length args - List.length ps)) as [|d ds].
    + apply ev_seq_wf; [assumption|assumption|apply wf_nil].
    + eapply good_bind; [apply ev_defaults_wf; [exact W1|exact S1]|].
      intros sc1 s2 E2 W2 S2. apply ev_seq_wf; [assumption|exact S2|apply wf_nil].
  - apply good_out; [assumption|]. intros a Ha. eapply wf_prim; eauto.
Qed.
Lemma ev_map_wf : forall rows st c, wf_state st -> wf_callable st c -> Forall (wf_vals st) rows ->
  good_res st wf_vals (ev_map m ev st c rows).
Proof.
  induction rows as [|row rows IH]; intros st c W C R; simpl; [apply good_ret; [assumption|constructor]|].
  inversion R; subst.
  eapply good_bind; [apply apply_fn_wf; assumption|]. intros v s E Ws Vs.
  eapply good_bind; [apply IH; [assumption|eapply wf_callable_ext; eauto|]|].
  - eapply Forall_impl; [|eassumption]. intros; eapply wf_vals_ext; eauto.
  - intros vs s2 E2 W2 V2. apply good_ret; [assumption|]. constructor; [|exact V2].
    eapply wf_val_ext; [exact E2|]. apply wf_primary; assumption.
Qed.
Lemma ev_iter_wf : forall vs st sc f x es, wf_state st -> wf_scope st sc -> wf_vals st vs ->
  good_res st ptrue (ev_iter ev st sc f x vs es).
Proof.
  induction vs as [|v vs IH]; intros st sc f x es W S V; simpl; [apply good_ret; [assumption|exact I]|].
  inversion V; subst.
  assert (E0 : ext st (bind_in st f x v)) by (apply ext_bind_in, ext_refl).
  eapply good_bind.
  - eapply good_from; [exact E0|]. apply ev_seq_wf; [apply wf_bind_in; assumption|eapply wf_scope_ext; eauto|apply wf_nil].
  - intros u s E Ws _. apply IH; [assumption|eapply wf_scope_ext; eauto|eapply wf_vals_ext; eauto].
Qed.
Lemma ev_opt_wf : forall st sc r, wf_state st -> wf_scope st sc -> good_res st wf_val (ev_opt ev st sc r).
Proof. intros st sc [e|] W S; simpl; [apply Hev; assumption|apply good_ret; [assumption|apply wf_nil]]. Qed.

Definition wf_scope_res (st : state) (sc : scope) : Prop := wf_scope st sc.
Lemma ev_inits_seq_wf : forall bs st sc, wf_state st -> wf_scope st sc ->
  good_res st wf_scope_res (ev_inits_seq m ev st sc bs).
Proof.
  induction bs as [|[[x e] s0] bs IH]; intros st sc W S; simpl; [apply good_ret; assumption|].
  eapply good_bind; [apply Hev; assumption|]. intros v s E Ws Vs.
  apply good_bindo; [assumption|]. intros a Ha.
  apply (good_alloc_then scope s [(x, a)] sc wf_scope_res (fun st2 sc2 => ev_inits_seq m ev st2 sc2 bs)); auto.
  - constructor; [|constructor]. simpl. eapply wf_store_red; eauto.
  - eapply wf_scope_ext; eauto.
Qed.
Definition wf_pairs (st : state) (xs : list (string * val)) : Prop := Forall (fun xv => wf_val st (snd xv)) xs.
Lemma ev_steps_par_wf : forall bs st sc, wf_state st -> wf_scope st sc -> good_res st wf_pairs (ev_steps_par m ev st sc bs).
Proof.
  induction bs as [|[[x e] [s0|]] bs IH]; intros st sc W S; simpl; [apply good_ret; [assumption|constructor]| |apply IH; assumption].
  eapply good_bind; [apply Hev; assumption|]. intros v s E Ws Vs.
  apply good_bindo; [assumption|]. intros a Ha.
  eapply good_bind; [apply IH; [assumption|eapply wf_scope_ext; eauto]|]. intros xs s2 E2 W2 V2.
  apply good_ret; [assumption|]. constructor; [|exact V2]. simpl. eapply wf_val_ext; [exact E2|]. eapply wf_store_red; eauto.
Qed.
Lemma ev_steps_seq_wf : forall bs st sc fs, wf_state st -> wf_scope st sc -> good_res st ptrue (ev_steps_seq m ev st sc fs bs).
Proof.
  induction bs as [|[[x e] [s0|]] bs IH]; intros st sc [|f fs] W S; simpl;
    try (apply good_ret; [assumption|exact I]); try (apply good_err; assumption); [|apply IH; assumption].
  eapply good_bind; [apply Hev; assumption|]. intros v s E Ws Vs.
  apply good_bindo; [assumption|]. intros a Ha.
  eapply good_from; [apply ext_bind_in, ext_refl|].
  apply IH; [apply wf_bind_in; [assumption|eapply wf_store_red; eauto]|].
  eapply wf_scope_ext; [apply ext_bind_in, ext_refl|]. eapply wf_scope_ext; eauto.
Qed.
Lemma fold_bind_in_wf : forall (xs : list (string * val)) st f, wf_state st -> wf_pairs st xs ->
  wf_state (fold_left (fun s xv => bind_in s f (fst xv) (snd xv)) xs st).
Proof.
  induction xs as [|[x v] xs IH]; intros st f W P; simpl; [assumption|]. inversion P; subst.
  apply IH; [apply wf_bind_in; assumption|].
  eapply Forall_impl; [|eassumption]. intros; eapply wf_val_ext; [apply ext_bind_in, ext_refl|assumption].
Qed.

Lemma wf_val_frames_eq : forall st st' v, frames st' = frames st -> wf_val st v -> wf_val st' v.
Proof. intros st st' v F W. unfold wf_val, wf_scope, get_frame in *. rewrite F. exact W. Qed.
Lemma bind_in_frame_length : forall st f x v, f < List.length (frames st) -> 1 <= List.length (get_frame (bind_in st f x v) f).
Proof.
  intros st f x v F. unfold bind_in, put_frame, get_frame. simpl. rewrite nth_set_nth, Nat.eqb_refl.
  apply Nat.ltb_lt in F. rewrite F. destruct (nth f (frames st) []) as [|[y w] fr]; simpl; [lia|].
  destruct (String.eqb x y); simpl; lia.
Qed.
Lemma bind_in_frames_length : forall st f x v, List.length (frames (bind_in st f x v)) = List.length (frames st).
Proof. intros; unfold bind_in, put_frame; simpl; apply length_set_nth. Qed.
Lemma wf_scope_loop : forall st f x v sc, f < List.length (frames st) -> wf_scope st sc ->
  wf_scope (bind_in st f x v) ((f, 1) :: sc).
Proof.
  intros st f x v sc F S. constructor.
  - split; cbn [fst snd]; [rewrite bind_in_frames_length; assumption|apply bind_in_frame_length; assumption].
  - eapply wf_scope_ext; [apply ext_bind_in, ext_refl|assumption].
Qed.
Lemma wf_ints : forall st (l : list nat), wf_vals st (map (fun i => VInt (Z.of_nat i)) l).
Proof. intros st l; induction l; simpl; constructor; [constructor|assumption]. Qed.

Ltac ws := eauto using wf_scope_ext.
Ltac gb tac := eapply good_bind; [tac; ws|].

Lemma evalF_wf : forall st sc e, wf_state st -> wf_scope st sc -> good_res st wf_val (evalF m ev st sc e).
Proof.
  intros st sc e W S; destruct e.
  all: try (match goal with |- good_res _ _ (evalF _ _ _ _ ?x) => match x with EProg1 _ _ => idtac | ECase _ _ _ => idtac | EFuncall _ _ => idtac | EApply _ _ => idtac | EMapcar _ _ => idtac | ETr _ _ => idtac end end; fail 1) || simpl.
  - (* EConst *) apply good_ret; [assumption|apply wf_val_inj].
  - (* EVar *) apply good_bindo; [assumption|]. intros [l|] Hl; [|apply good_err; assumption].
    destruct (cell_get (frames st) l) as [v|] eqn:C; [|apply good_err; assumption].
    apply good_ret; [assumption|eapply wf_cell_get; eauto].
  - (* EQuote *) apply good_ret; [assumption|apply wf_val_inj].
  - (* EFun *) apply good_bindo; [assumption|]. intros c Hc. apply good_ret; [assumption|constructor].
  - (* EProgn *) apply ev_seq_wf; [assumption|assumption|apply wf_nil].
  - (* EProg1 *) change (evalF m ev st sc (EProg1 e es)) with (bind (ev_args m ev st sc (e :: es)) (fun vs st1 => (Ok (hd VNil vs), st1))).
    gb ltac:(apply ev_args_wf). intros vs s E Ws Vs. apply good_ret; [assumption|apply wf_hd; assumption].
  - (* EIf *) gb ltac:(apply ev_test_wf). intros t s E Ws _. destruct t; [apply Hev; ws|apply ev_opt_wf; ws].
  - (* EWhen *) gb ltac:(apply ev_test_wf). intros t s E Ws _. destruct t; [apply ev_seq_wf; ws; apply wf_nil|apply good_ret; [assumption|apply wf_nil]].
  - (* EUnless *) gb ltac:(apply ev_test_wf). intros t s E Ws _. destruct t; [apply good_ret; [assumption|apply wf_nil]|apply ev_seq_wf; ws; apply wf_nil].
  - (* ECond *) apply ev_cond_wf; assumption.
  - (* ECase *) change (evalF m ev st sc (ECase e cls dflt)) with (bind (ev_args m ev st sc [e]) (fun vs st1 =>
      match find_clause (hd VNil vs) cls with
      | Some body => ev_seq ev st1 sc body VNil
      | None => match dflt with Some body => ev_seq ev st1 sc body VNil | None => (Ok VNil, st1) end
      end)).
    gb ltac:(apply ev_args_wf). intros vs s E Ws Vs.
    destruct (find_clause (hd VNil vs) cls); [apply ev_seq_wf; ws; apply wf_nil|].
    destruct dflt; [apply ev_seq_wf; ws; apply wf_nil|apply good_ret; [assumption|apply wf_nil]].
  - (* EAnd *) apply ev_and_wf; assumption.
  - (* EOr *) apply ev_or_wf; assumption.
  - (* ELet *) gb ltac:(apply ev_inits_wf). intros vs s E Ws Vs.
    apply (good_alloc_then val s (mk_frame (map fst bs) vs) sc wf_val (fun st2 sc2 => ev_seq ev st2 sc2 es VNil)); ws.
    + apply wf_mk_frame; assumption.
    + intros; apply ev_seq_wf; auto; apply wf_nil.
  - (* ELetStar *) apply ev_letstar_wf; assumption.
  - (* ESetq *) apply ev_setq_wf; [assumption|assumption|apply wf_nil].
  - (* ELambda *) apply good_ret; [assumption|apply wf_val_clo; assumption].
  - (* EDefun *) apply good_step; [apply ext_add_fun, ext_refl| |constructor].
    apply wf_add_fun; [assumption|apply wf_val_clo; assumption].
  - (* ELambdaO *) apply good_ret; [assumption|apply wf_val_clo; assumption].
  - (* EDefunO *) apply good_step; [apply ext_add_fun, ext_refl| |constructor].
    apply wf_add_fun; [assumption|apply wf_val_clo; assumption].
  - (* ECall *) destruct (find_fun (funs st) f) as [c|] eqn:F; [|apply good_err; assumption].
    pose proof (wf_find_fun _ _ _ W F) as Wc.
    destruct c; try (apply good_err; assumption).
    gb ltac:(apply ev_args_wf). intros vs s E Ws Vs. apply (apply_fn_wf s (CClo ps os body sc0) vs); [assumption| |assumption].
    simpl. apply wf_val_clo in Wc. ws.
  - (* EPrim *) gb ltac:(apply ev_args_wf). intros vs s E Ws Vs. apply good_out; [assumption|]. intros a Ha. eapply wf_prim; eauto.
  - (* EFuncall *) change (evalF m ev st sc (EFuncall e es)) with (bind (ev_args m ev st sc (e :: es)) (fun vs st1 =>
      match vs with
      | fv :: args => bindo (resolve st1 fv) st1 (fun c => apply_fn m ev st1 c args)
      | [] => (Er EMalformed, st1)
      end)).
    gb ltac:(apply ev_args_wf). intros vs s E Ws Vs. destruct vs as [|fv args]; [apply good_err; assumption|].
    inversion Vs as [|? ? Vf Va]; subst. apply good_bindo; [assumption|]. intros c Hc.
    apply apply_fn_wf; [assumption|apply (wf_resolve s fv c Ws Vf Hc)|assumption].
  - (* EApply *) change (evalF m ev st sc (EApply e es)) with (bind (ev_args m ev st sc (e :: es)) (fun vs st1 =>
      match vs with
      | fv :: args =>
          bindo (resolve st1 fv) st1 (fun c =>
          match rev args with
          | [] => (Er EMalformed, st1)
          | l :: front => match list_of l with
                          | Some tail => apply_fn m ev st1 c (rev front ++ tail)
                          | None => (Er EType, st1)
                          end
          end)
      | [] => (Er EMalformed, st1)
      end)).
    gb ltac:(apply ev_args_wf). intros vs s E Ws Vs. destruct vs as [|fv args]; [apply good_err; assumption|].
    inversion Vs as [|? ? Vf Va]; subst. apply good_bindo; [assumption|]. intros c Hc.
    pose proof (wf_rev _ _ Va) as Vr. destruct (rev args) as [|l front]; [apply good_err; assumption|].
    inversion Vr as [|? ? Vl Vfr]; subst.
    destruct (list_of l) as [tail|] eqn:L; [|apply good_err; assumption].
    apply apply_fn_wf; [assumption|apply (wf_resolve s fv c Ws Vf Hc)|].
    unfold wf_vals. apply Forall_app; split; [apply Forall_rev; exact Vfr|eapply wf_list_of; eauto].
  - (* EMapcar *) change (evalF m ev st sc (EMapcar e ls)) with (bind (ev_args m ev st sc (e :: ls)) (fun vs st1 =>
      match vs with
      | fv :: ((_ :: _) as lvs) =>
          bindo (resolve st1 fv) st1 (fun c =>
          match lists_of lvs with
          | Some lists => bind (ev_map m ev st1 c (transpose (min_len lists) lists)) (fun rs st2 => (Ok (mk_list rs), st2))
          | None => (Er EType, st1)
          end)
      | _ => (Er EMalformed, st1)
      end)).
    gb ltac:(apply ev_args_wf). intros vs s E Ws Vs. destruct vs as [|fv [|l1 lvs]]; try (apply good_err; assumption).
    inversion Vs as [|? ? Vf Va]; subst. apply good_bindo; [assumption|]. intros c Hc.
    destruct (lists_of (l1 :: lvs)) as [lists|] eqn:L; [|apply good_err; assumption].
    eapply good_bind; [apply ev_map_wf; [assumption|apply (wf_resolve s fv c Ws Vf Hc)|apply wf_transpose; eapply wf_lists_of; [exact Va|exact L]]|].
    intros rs s2 E2 W2 V2. apply good_ret; [assumption|apply wf_val_mk_list; assumption].
  - (* EDolist *)
    eapply good_bind; [apply Hev; assumption|]. intros v s E Ws Vs.
    assert (Vv' : wf_val s (primary v)) by (apply wf_primary; assumption).
    destruct (list_of (primary v)) as [vs|] eqn:L; [|apply good_err; assumption].
    assert (Ssc : wf_scope s sc) by (eapply wf_scope_ext; eauto).
    change (mkSt (frames s ++ [[(x, VNil)]]) (funs s) (trace s)) with (snd (alloc s [(x, VNil)])).
    assert (E3 : ext s (snd (alloc s [(x, VNil)]))) by (apply ext_alloc, ext_refl).
    assert (W3 : wf_state (snd (alloc s [(x, VNil)]))) by (apply wf_alloc; [assumption|constructor; [apply wf_nil|constructor]]).
    assert (S3 : wf_scope (snd (alloc s [(x, VNil)])) ((List.length (frames s), 1) :: sc)) by (apply (wf_scope_alloc s [(x, VNil)] sc); assumption).
    eapply good_from; [exact E3|].
    eapply good_bind.
    + apply ev_iter_wf; [exact W3|exact S3|eapply wf_vals_ext; [exact E3|eapply wf_list_of; eauto]].
    + intros u s4 E4 W4 _.
      eapply good_from; [apply ext_bind_in, ext_refl|]. apply ev_opt_wf; [apply wf_bind_in; [assumption|apply wf_nil]|].
      eapply wf_scope_ext; [apply ext_bind_in, ext_refl|]. eapply wf_scope_ext; [exact E4|exact S3].
  - (* EDotimes *)
    eapply good_bind; [apply Hev; assumption|]. intros v s E Ws Vs.
    destruct (primary v); try (apply good_err; assumption).
    assert (Ssc : wf_scope s sc) by (eapply wf_scope_ext; eauto).
    change (mkSt (frames s ++ [[(x, VNil)]]) (funs s) (trace s)) with (snd (alloc s [(x, VNil)])).
    assert (E3 : ext s (snd (alloc s [(x, VNil)]))) by (apply ext_alloc, ext_refl).
    assert (W3 : wf_state (snd (alloc s [(x, VNil)]))) by (apply wf_alloc; [assumption|constructor; [apply wf_nil|constructor]]).
    assert (S3 : wf_scope (snd (alloc s [(x, VNil)])) ((List.length (frames s), 1) :: sc)) by (apply (wf_scope_alloc s [(x, VNil)] sc); assumption).
    eapply good_from; [exact E3|].
    eapply good_bind.
    + apply ev_iter_wf; [exact W3|exact S3|apply wf_ints].
    + intros u s4 E4 W4 _.
      eapply good_from; [apply ext_bind_in, ext_refl|]. apply ev_opt_wf; [apply wf_bind_in; [assumption|constructor]|].
      eapply wf_scope_ext; [apply ext_bind_in, ext_refl|]. eapply wf_scope_ext; [exact E4|exact S3].
  - (* EDo *) destruct star.
    + change (mkSt (frames st ++ [[]]) (funs st) (trace st)) with (snd (alloc st [])).
      assert (E1 : ext st (snd (alloc st []))) by (apply ext_alloc, ext_refl).
      assert (W1 : wf_state (snd (alloc st []))) by (apply wf_alloc; [assumption|constructor]).
      eapply good_from; [exact E1|].
      eapply good_bind; [apply ev_inits_seq_wf; [assumption|apply (wf_scope_alloc st [] sc); assumption]|].
      intros sc1 s E Ws Ssc1. apply Hev; assumption.
    + gb ltac:(apply ev_inits_wf). intros vs s E Ws Vs.
      apply (good_alloc_then val s (mk_frame (map (fun b => fst (fst b)) bs) vs) sc wf_val
               (fun st2 sc2 => ev st2 sc2 (EDoLoop false bs e rs es))); ws.
      apply wf_mk_frame; assumption.
  - (* EDoLoop *) destruct sc as [|[f h] sc']; [apply good_err; assumption|].
    eapply good_bind.
    + apply ev_test_wf; assumption.
    + intros t s E Ws _. destruct t; [apply ev_seq_wf; ws; apply wf_nil|].
      eapply good_bind; [apply ev_seq_wf; [assumption|ws|apply wf_nil]|]. intros u s2 E2 W2 _.
      assert (S2 : wf_scope s2 ((f, h) :: sc')) by (eapply wf_scope_ext; [exact E2|ws]).
      eapply good_bind.
      * instantiate (1 := ptrue). destruct star; [apply ev_steps_seq_wf; assumption|].
        gb ltac:(apply ev_steps_par_wf). intros xs s3 E3 W3 V3.
        apply good_step; [|apply fold_bind_in_wf; assumption|exact I].
        apply fold_bind_in_ext, ext_refl.
      * intros u2 s4 E4 W4 _. apply Hev; [assumption|ws].
  - (* EValues *) gb ltac:(apply ev_args_wf). intros vs s E Ws Vs. apply good_ret; [assumption|apply wf_val_values; assumption].
  - (* EMvb *) gb ltac:(apply Hev). intros v s E Ws Vs.
    apply (good_alloc_then val s (mk_frame xs (pad (values_list v) (List.length xs))) sc wf_val (fun st2 sc2 => ev_seq ev st2 sc2 es VNil)); ws.
    + apply wf_mk_frame, wf_pad, wf_values_list; assumption.
    + intros; apply ev_seq_wf; auto; apply wf_nil.
  - (* ETr *) change (evalF m ev st sc (ETr k e)) with (bind (ev_args m ev st sc [e]) (fun vs st1 => (Ok (hd VNil vs), add_trace st1 k))).
    gb ltac:(apply ev_args_wf). intros vs s E Ws Vs.
    apply good_step; [apply ext_add_trace, ext_refl|apply wf_add_trace; assumption|].
    eapply wf_val_frames_eq; [|apply wf_hd; eassumption]. reflexivity.
Qed.
End Wf.

Lemma eval_wf : forall m n st sc e, wf_state st -> wf_scope st sc -> good_res st wf_val (eval m n st sc e).
Proof.
  intros m; induction n as [|n IH]; intros st sc e W S; simpl; [apply good_err; assumption|].
  apply evalF_wf; [exact IH|assumption|assumption].
Qed.

(* ---- reachable states ---- *)
Lemma wf_st0 : wf_state st0.
Proof. split; constructor. Qed.
(* whatever program is run, in whatever mode, with whatever fuel: every closure in the final state (in any cell, in
   the function table, inside lists) and in the result has a well formed scope *)
Theorem reachable_state_wf : forall m n p,
  wf_state (snd (run m n p)) /\ forall v, fst (run m n p) = Ok v -> wf_val (snd (run m n p)) v.
Proof.
  intros m n p. unfold run.
  destruct (ev_seq_wf (eval m n) (eval_wf m n) p st0 [] VNil wf_st0 (Forall_nil _) (wf_nil st0)) as (_ & W & V).
  split; assumption.
Qed.
(* hence the hypothesis of the closure theorems is met by every closure a program produces: the cell its scope
   denotes for a name never changes again *)
Theorem closure_binding_stable_reachable : forall n p v sc n' st1 sc1 e x,
  fst (run Ref n p) = Ok v -> In sc (scopes_of v) -> ext (snd (run Ref n p)) st1 ->
  locate true (frames (snd (eval Ref n' st1 sc1 e))) sc x = locate true (frames (snd (run Ref n p))) sc x.
Proof.
  intros n p v sc n' st1 sc1 e x Hv Hin E.
  apply closure_binding_stable; [|exact E].
  destruct (reachable_state_wf Ref n p) as [_ V]. specialize (V v Hv). unfold wf_val in V.
  rewrite Forall_forall in V. apply V; exact Hin.
Qed.

(* ---- a variable is bound AFTER its init form has been evaluated (let*, let): the frame that holds the new variable
   does not exist while the init form runs, so no closure that exists when the binding is made - the value of the init
   form itself, a closure it stored in any cell, a closure it put in the function table - has that frame in its scope.
   With locate_stable / closure_binding_stable: a closure made by the init form of x that mentions x refers to the
   ENCLOSING x for ever, it never reads or assigns the variable being bound.  (A let* that opened the scope of the
   variable before evaluating its init form would give the closure a scope that contains the frame: `unseen` fails.) *)
Definition unseen (f : nat) (v : val) : Prop := Forall (fun s => ~ In f (map fst s)) (scopes_of v).

Lemma wf_scope_below : forall st sc, wf_scope st sc -> ~ In (List.length (frames st)) (map fst sc).
Proof.
  intros st sc W C. unfold wf_scope in W. rewrite Forall_forall in W.
  apply in_map_iff in C. destruct C as [[f h] [E I]]. simpl in E. subst. apply W in I. simpl in I. lia.
Qed.
Lemma fresh_frame_unseen : forall st v, wf_val st v -> unseen (List.length (frames st)) v.
Proof.
  intros st v W. unfold unseen, wf_val in *. rewrite Forall_forall in *. intros s Hs.
  apply wf_scope_below. apply W; exact Hs.
Qed.

Theorem letstar_init_outside_own_binding : forall m n st sc x e bs body v st1 a,
  wf_state st -> wf_scope st sc ->
  eval m n st sc e = (Ok v, st1) -> store_red m v = Ok a ->
  eval m (S n) st sc (ELetStar ((x, e) :: bs) body) =
    ev_letstar m (eval m n) (snd (alloc st1 [(x, a)])) ((List.length (frames st1), 1) :: sc) bs body
  /\ unseen (List.length (frames st1)) a
  /\ (forall l w, cell_get (frames st1) l = Some w -> unseen (List.length (frames st1)) w)
  /\ (forall g c, find_fun (funs st1) g = Some c -> unseen (List.length (frames st1)) c)
  /\ ~ In (List.length (frames st1)) (map fst sc).
Proof.
  intros m n st sc x e bs body v st1 a W Hs E R.
  destruct (eval_wf m n st sc e W Hs) as (X & W1 & V1). rewrite E in *. simpl in *.
  split; [|split; [|split; [|split]]].
  - change (eval m (S n) st sc (ELetStar ((x, e) :: bs) body)) with
      (bind (eval m n st sc e) (fun v st1 => bindo (store_red m v) st1 (fun a =>
         let '(f, st2) := alloc st1 [(x, a)] in ev_letstar m (eval m n) st2 ((f, 1) :: sc) bs body))).
    rewrite E. simpl. rewrite R. reflexivity.
  - apply fresh_frame_unseen. eapply wf_store_red; [|exact R]. apply V1; reflexivity.
  - intros l w C. apply fresh_frame_unseen. eapply wf_cell_get; eauto.
  - intros g c C. apply fresh_frame_unseen. eapply wf_find_fun; eauto.
  - apply wf_scope_below. eapply wf_scope_ext; eauto.
Qed.

(* let: all init forms first, then ONE frame for all variables; nothing that exists then has the frame in its scope *)
Theorem let_inits_outside_binding : forall m n st sc bs body vs st1,
  wf_state st -> wf_scope st sc ->
  ev_inits m (eval m n) st sc (map snd bs) = (Ok vs, st1) ->
  eval m (S n) st sc (ELet bs body) =
    ev_seq (eval m n) (snd (alloc st1 (mk_frame (map fst bs) vs)))
           ((List.length (frames st1), List.length (mk_frame (map fst bs) vs)) :: sc) body VNil
  /\ Forall (unseen (List.length (frames st1))) vs
  /\ (forall l w, cell_get (frames st1) l = Some w -> unseen (List.length (frames st1)) w)
  /\ ~ In (List.length (frames st1)) (map fst sc).
Proof.
  intros m n st sc bs body vs st1 W Hs E.
  destruct (ev_inits_wf m (eval m n) (eval_wf m n) (map snd bs) st sc W Hs) as (X & W1 & V1). rewrite E in *. simpl in *.
  split; [|split; [|split]].
  - change (eval m (S n) st sc (ELet bs body)) with
      (bind (ev_inits m (eval m n) st sc (map snd bs)) (fun vs st1 =>
         let fr := mk_frame (map fst bs) vs in
         let '(f, st2) := alloc st1 fr in
         ev_seq (eval m n) st2 ((f, List.length fr) :: sc) body VNil)).
    rewrite E. reflexivity.
  - specialize (V1 vs eq_refl). unfold wf_vals in V1. rewrite Forall_forall in *. intros w Hw.
    apply fresh_frame_unseen. apply V1; exact Hw.
  - intros l w C. apply fresh_frame_unseen. eapply wf_cell_get; eauto.
  - apply wf_scope_below. eapply wf_scope_ext; eauto.
Qed.
