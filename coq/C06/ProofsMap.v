(* C06 — a list constructor mapped over several lists through one shared argument buffer: the results are what
   the constructor returns for each tuple of elements, and they are independent lists. *)
From C06 Require Import Model Spec Proofs.

(* ---------- object heaps ---------- *)
Lemma oarr_owrite_other h a i x a' : a' <> a -> oarr (owrite h a i x) a' = oarr h a'.
Proof. intros H. unfold oarr, owrite. apply nth_set_nth_other. congruence. Qed.
Lemma oarr_owrite_same h a i x : a < length h -> oarr (owrite h a i x) a = set_nth i x (oarr h a).
Proof. intros H. unfold oarr, owrite. apply nth_set_nth_same, H. Qed.
Lemma length_owrite h a i x : length (owrite h a i x) = length h.
Proof. apply length_set_nth. Qed.
Lemma oarr_owrite_all_other xs : forall h a i a', a' <> a -> oarr (owrite_all h a i xs) a' = oarr h a'.
Proof. induction xs as [|x xs IH]; intros h a i a' H; cbn [owrite_all]; [reflexivity|]. rewrite IH by exact H. apply oarr_owrite_other, H. Qed.
Lemma length_owrite_all xs : forall h a i, length (owrite_all h a i xs) = length h.
Proof. induction xs as [|x xs IH]; intros h a i; cbn [owrite_all]; [reflexivity|]. rewrite IH. apply length_owrite. Qed.

Fixpoint set_from {A} (i : nat) (xs l : list A) : list A :=     (* overwrite l from position i with xs *)
  match xs with [] => l | x :: xs' => set_from (S i) xs' (set_nth i x l) end.
Lemma oarr_owrite_all_same xs : forall h a i, a < length h -> oarr (owrite_all h a i xs) a = set_from i xs (oarr h a).
Proof.
  induction xs as [|x xs IH]; intros h a i H; cbn [owrite_all set_from]; [reflexivity|].
  rewrite IH by (rewrite length_owrite; exact H). rewrite oarr_owrite_same by exact H. reflexivity.
Qed.
Lemma set_from_all {A} (xs : list A) : forall pre l, length l = length xs -> set_from (length pre) xs (pre ++ l) = pre ++ xs.
Proof.
  induction xs as [|x xs IH]; intros pre l H; destruct l as [|y l]; try discriminate H; cbn [set_from]; [reflexivity|].
  assert (E : set_nth (length pre) x (pre ++ y :: l) = (pre ++ [x]) ++ l).
  { clear. induction pre as [|p pre IHp]; cbn; [reflexivity|]. f_equal. exact IHp. }
  rewrite E. replace (S (length pre)) with (length (pre ++ [x])) by (rewrite app_length; cbn; lia).
  rewrite IH by (cbn in H; lia). rewrite <- app_assoc. reflexivity.
Qed.
(* refilling the whole buffer *)
Lemma refill h B vals : B < length h -> length (oarr h B) = length vals ->
  oarr (owrite_all h B 0 vals) B = vals.
Proof. intros HB Hl. rewrite oarr_owrite_all_same by exact HB. apply (set_from_all vals [] (oarr h B) Hl). Qed.
Lemma ocontents_whole h a n : length (oarr h a) = n -> ocontents h {| s_arr := a; s_off := 0; s_len := n |} = oarr h a.
Proof. intros H. unfold ocontents. cbn. apply firstn_all2. lia. Qed.
Lemma oarr_app_old (h : oheap) extra a : a < length h -> oarr (h ++ extra) a = oarr h a.
Proof. intros H. unfold oarr. apply app_nth1, H. Qed.
Lemma oarr_app_new (h : oheap) x : oarr (h ++ [x]) (length h) = x.
Proof. unfold oarr. apply nth_middle. Qed.

(* row_of looks at the heap only through the lists its arguments refer to *)
Lemma row_of_ext F h h' xs : (forall t, In (ORef t) xs -> ocontents h t = ocontents h' t) -> row_of F h xs = row_of F h' xs.
Proof.
  intros H. unfold row_of.
  assert (G : forall i, i < length xs -> forall t, nth i xs ONil = ORef t -> ocontents h t = ocontents h' t).
  { intros i Hi t E. apply H. rewrite <- E. apply nth_In, Hi. }
  destruct F; [reflexivity| |].
  - destruct (length xs <=? 1) eqn:E; [reflexivity|]. apply Nat.leb_gt in E.
    destruct (nth (length xs - 1) xs ONil) as [|z|t|z] eqn:En; try reflexivity. rewrite (G (length xs - 1) ltac:(lia) t En). reflexivity.
  - destruct (length xs =? 2) eqn:E; [|reflexivity]. apply Nat.eqb_eq in E.
    destruct (nth 1 xs ONil) as [|z|t|z] eqn:En; try reflexivity. rewrite (G 1 ltac:(lia) t En). reflexivity.
Qed.

(* ---------- the loop of the mapping function ---------- *)
Definition vals_at (cols : list (list obj)) (j : nat) : list obj := map (fun col => nth j col ONil) cols.

Section Loop.
  Variables (F : mfun) (h0 : oheap) (cols : list (list obj)).
  Let B := length h0.
  Let k := length cols.
  Let buf := {| s_arr := B; s_off := 0; s_len := k |}.
  (* every list an element refers to lies in h0 *)
  Hypothesis Hrefs : forall j t, In (ORef t) (vals_at cols j) -> s_arr t < B.

  Definition loop_inv (h : oheap) : Prop :=
    B < length h /\ length (oarr h B) = k /\ forall a, a < B -> oarr h a = oarr h0 a.

  Lemma loop_steps n : forall h j hf rs, loop_inv h ->
    (forall i, i < n -> row_of F h0 (vals_at cols (j + i)) <> None) ->
    map_steps F h buf cols n j = (hf, rs) ->
    loop_inv hf /\ length hf = length h + n /\ (forall x, x < length h -> x <> B -> oarr hf x = oarr h x) /\
    length rs = n /\
    forall i, i < n -> exists a len, row_of F h0 (vals_at cols (j + i)) = Some (a, len) /\
      nth i rs ONil = ORef {| s_arr := length h + i; s_off := 0; s_len := len |} /\ oarr hf (length h + i) = a.
  Proof.
    induction n as [|n IH]; intros h j hf rs HI Hsome Hrun.
    - cbn in Hrun. injection Hrun as <- <-. split; [exact HI|]. split; [lia|]. split; [reflexivity|]. split; [reflexivity|]. intros i Hi; lia.
    - cbn [map_steps] in Hrun. fold (vals_at cols j) in Hrun. change (s_arr buf) with B in Hrun.
      destruct HI as (HB & Hk & Hold).
      set (h1 := owrite_all h B 0 (vals_at cols j)) in *.
      assert (Hvl : length (vals_at cols j) = k) by (unfold vals_at; rewrite map_length; reflexivity).
      assert (H1B : oarr h1 B = vals_at cols j) by (apply refill; [exact HB|rewrite Hk, Hvl; reflexivity]).
      assert (H1o : forall a, a <> B -> oarr h1 a = oarr h a) by (intros a Ha; apply oarr_owrite_all_other, Ha).
      assert (H1l : length h1 = length h) by apply length_owrite_all.
      assert (Hc : ocontents h1 buf = vals_at cols j).
      { unfold buf. rewrite ocontents_whole by (rewrite H1B; exact Hvl). exact H1B. }
      assert (Hrow : row_of F h1 (vals_at cols j) = row_of F h0 (vals_at cols j)).
      { apply row_of_ext. intros t Ht. pose proof (Hrefs j t Ht) as Hlt. unfold ocontents.
        rewrite H1o by lia. rewrite Hold by exact Hlt. reflexivity. }
      unfold f_call in Hrun. rewrite Hc, Hrow in Hrun.
      destruct (row_of F h0 (vals_at cols j)) as [[a len]|] eqn:Er;
        [|exfalso; apply (Hsome 0 ltac:(lia)); rewrite Nat.add_0_r; exact Er].
      destruct (map_steps F (h1 ++ [a]) buf cols n (S j)) as [h3 rs'] eqn:Erec. injection Hrun as <- <-.
      assert (HI2 : loop_inv (h1 ++ [a])).
      { repeat split.
        - rewrite app_length, H1l. lia.
        - rewrite oarr_app_old by (rewrite H1l; exact HB). rewrite H1B. exact Hvl.
        - intros x Hx. rewrite oarr_app_old by (rewrite H1l; lia). rewrite H1o by lia. apply Hold, Hx. }
      destruct (IH (h1 ++ [a]) (S j) h3 rs' HI2) as (I1 & I2 & I3 & I4 & I5); [|exact Erec|].
      { intros i Hi. replace (S j + i) with (j + S i) by lia. apply Hsome. lia. }
      rewrite app_length, H1l in I2, I3, I5. cbn [length] in I2, I3, I5.
      split; [exact I1|]. split; [lia|]. split.
      { intros x Hx Hn. rewrite I3 by (lia || exact Hn). rewrite oarr_app_old by (rewrite H1l; exact Hx). apply H1o, Hn. }
      split; [cbn; lia|].
      intros [|i] Hi.
      + exists a, len. rewrite !Nat.add_0_r. split; [exact Er|]. split; [cbn; rewrite H1l; reflexivity|].
        rewrite I3 by lia. rewrite <- H1l. apply oarr_app_new.
      + destruct (I5 i ltac:(lia)) as (a' & len' & E1 & E2 & E3). exists a', len'.
        replace (j + S i) with (S j + i) by lia. split; [exact E1|]. cbn [nth].
        replace (length h + S i) with (length h + 1 + i) by lia. split; assumption.
  Qed.
End Loop.

(* ---------- the inputs ---------- *)
Lemma lt_fold_min l : forall a j, j < fold_left Nat.min l a <-> j < a /\ Forall (fun x => j < x) l.
Proof.
  induction l as [|x l IH]; intros a j; cbn [fold_left].
  - split; [intros H; split; [exact H|constructor]|tauto].
  - rewrite IH. split.
    + intros [H1 H2]. split; [lia|]. constructor; [lia|exact H2].
    + intros [H1 H2]. inversion H2; subst. split; [lia|assumption].
Qed.
Lemma nat_eq_by_lt a b : (forall j, j < a <-> j < b) -> a = b.
Proof.
  intros H. destruct (Nat.lt_trichotomy a b) as [L|[E|L]]; [|exact E|].
  - apply H in L. lia.
  - apply H in L. lia.
Qed.
Lemma fold_min_map {A} (f : A -> nat) l : forall a, fold_left (fun m x => Nat.min m (f x)) l a = fold_left Nat.min (map f l) a.
Proof. induction l as [|x l IH]; intros a; cbn; [reflexivity|apply IH]. Qed.

Definition cols_of (fc : list (list Z)) (lastobjs : list obj) : list (list obj) := map (map OInt) fc ++ [lastobjs].
Lemma min_len_cols fc lastobjs : fc <> [] ->
  min_len (cols_of fc lastobjs) = fold_left Nat.min (map (@length Z) fc) (length lastobjs).
Proof.
  intros Hne. destruct fc as [|c fc]; [congruence|]. unfold cols_of, min_len. cbn [map app].
  rewrite fold_min_map. apply nat_eq_by_lt. intros j. rewrite !lt_fold_min. rewrite map_app, !map_map. cbn [map].
  rewrite Forall_app, map_length. rewrite (map_ext (fun x => length (map OInt x)) (@length Z)) by (intros; apply map_length).
  split.
  - intros (H1 & H2 & H3). inversion H3; subst. split; [assumption|]. constructor; assumption.
  - intros (H1 & H2). inversion H2; subst. split; [assumption|]. split; [assumption|]. constructor; [assumption|constructor].
Qed.
Lemma vals_at_cols fc lastobjs j : Forall (fun c => j < length c) fc ->
  vals_at (cols_of fc lastobjs) j = map (fun c => OInt (nth j c 0%Z)) fc ++ [nth j lastobjs ONil].
Proof.
  intros H. unfold vals_at, cols_of. rewrite map_app, map_map. cbn [map]. f_equal.
  apply map_ext_in. intros c Hc. rewrite Forall_forall in H. specialize (H c Hc).
  rewrite (nth_indep _ ONil (OInt 0%Z)) by (rewrite map_length; exact H). apply (map_nth OInt).
Qed.

(* the inner lists *)
Lemma mk_inner_spec ll : forall h h' os, mk_inner h ll = (h', os) ->
  length os = length ll /\ length h <= length h' /\ (forall a, a < length h -> oarr h' a = oarr h a) /\
  forall j, j < length ll ->
    (nth j ll [] = [] /\ nth j os ONil = ONil) \/
    (exists t, nth j os ONil = ORef t /\ s_arr t < length h' /\ ocontents h' t = map OInt (nth j ll [])).
Proof.
  induction ll as [|l ll IH]; intros h h' os H; cbn [mk_inner] in H.
  - injection H as <- <-. repeat split; try reflexivity; try lia. intros j Hj; cbn in Hj; lia.
  - destruct l as [|z l].
    + destruct (mk_inner h ll) as [h1 os1] eqn:E. injection H as <- <-. destruct (IH _ _ _ E) as (A & B & C & D).
      split; [cbn; lia|]. split; [exact B|]. split; [exact C|]. intros [|j] Hj; [left; split; reflexivity|]. cbn [nth]. apply D. cbn in Hj; lia.
    + destruct (mk_inner (h ++ [map OInt (z :: l)]) ll) as [h1 os1] eqn:E. injection H as <- <-.
      destruct (IH _ _ _ E) as (A & B & C & D). rewrite app_length in B, C. cbn [length] in B, C.
      split; [cbn; lia|]. split; [lia|]. split.
      { intros a Ha. rewrite C by lia. apply oarr_app_old, Ha. }
      intros [|j] Hj.
      * right. eexists. cbn [nth]. split; [reflexivity|]. cbn [s_arr]. split; [lia|].
        unfold ocontents. cbn [s_arr s_off s_len skipn]. rewrite C by lia. rewrite oarr_app_new.
        apply firstn_all2. cbn [length map]. rewrite map_length. lia.
      * cbn [nth]. apply D. cbn in Hj; lia.
Qed.

(* ---------- what one call returns ---------- *)
Lemma canon_ints zs : canon (map OInt zs) = Some (zs, false).
Proof. induction zs as [|z zs IH]; [reflexivity|]. cbn [map canon]. rewrite IH. reflexivity. Qed.
Lemma canon_ints_tail zs z : canon (map OInt zs ++ [OTail z]) = Some (zs ++ [z], true).
Proof. induction zs as [|y zs IH]; [reflexivity|]. cbn [map app canon]. rewrite IH. reflexivity. Qed.
Lemma firstn_app_exact {A} (l1 l2 : list A) n : n = length l1 -> firstn n (l1 ++ l2) = l1.
Proof. intros ->. rewrite firstn_app, Nat.sub_diag, firstn_all. cbn. apply app_nil_r. Qed.
Lemma nth_app_last {A} (l : list A) x d n : n = length l -> nth n (l ++ [x]) d = x.
Proof. intros ->. apply nth_middle. Qed.

Definition fun_ok (F : mfun) (m : nat) : Prop := 1 <= m /\ (F = FCons -> m = 1).

Lemma row_int F h fs z : fun_ok F (length fs) ->
  exists a len, row_of F h (map OInt fs ++ [OInt z]) = Some (a, len) /\
                canon (firstn len a) = Some (fs ++ [z], match F with FList => false | _ => true end).
Proof.
  intros [Hm Hc]. unfold row_of. rewrite app_length, map_length. cbn [length].
  replace (length fs + 1 - 1) with (length fs) by lia.
  rewrite (firstn_app_exact (map OInt fs)) by (rewrite map_length; reflexivity).
  destruct F.
  - eexists _, _. split; [reflexivity|]. rewrite firstn_all2 by (rewrite app_length, map_length; cbn; lia).
    change [OInt z] with (map OInt [z]). rewrite <- map_app. apply canon_ints.
  - replace (length fs + 1 <=? 1) with false by (symmetry; apply Nat.leb_gt; lia).
    rewrite (nth_app_last (map OInt fs)) by (rewrite map_length; reflexivity).
    eexists _, _. split; [reflexivity|]. rewrite firstn_all2 by (rewrite app_length, map_length; cbn; lia). apply canon_ints_tail.
  - assert (E : length fs = 1) by (apply Hc; reflexivity).
    replace (length fs + 1 =? 2) with true by (rewrite E; reflexivity).
    rewrite (nth_app_last (map OInt fs)) by (rewrite map_length; lia).
    eexists _, _. split; [reflexivity|]. rewrite firstn_all2 by (rewrite app_length, map_length; cbn; lia). apply canon_ints_tail.
Qed.
Lemma row_list F h fs o l : fun_ok F (length fs) -> F <> FList ->
  (o = ONil /\ l = []) \/ (exists t, o = ORef t /\ ocontents h t = map OInt l) ->
  exists a len, row_of F h (map OInt fs ++ [o]) = Some (a, len) /\ canon (firstn len a) = Some (fs ++ l, false).
Proof.
  intros [Hm Hc] HF Ho. unfold row_of. rewrite app_length, map_length. cbn [length].
  replace (length fs + 1 - 1) with (length fs) by lia.
  rewrite (firstn_app_exact (map OInt fs)) by (rewrite map_length; reflexivity).
  assert (G : forall room, exists a len,
            match o with
            | ONil => Some (map OInt fs ++ repeat ONil room, length fs)
            | ORef t => Some (map OInt fs ++ ocontents h t ++ repeat ONil (room - length (ocontents h t)), length fs + length (ocontents h t))
            | OInt z => Some (map OInt fs ++ [OTail z], length fs + 1)
            | OTail _ => None
            end = Some (a, len) /\ canon (firstn len a) = Some (fs ++ l, false)).
  { intros room. destruct Ho as [[-> ->]|(t & -> & Ht)].
    - eexists _, _. split; [reflexivity|]. rewrite (firstn_app_exact (map OInt fs)) by (rewrite map_length; reflexivity).
      rewrite app_nil_r. apply canon_ints.
    - eexists _, _. split; [reflexivity|]. rewrite app_assoc, (firstn_app_exact (map OInt fs ++ ocontents h t)) by (rewrite app_length, map_length; reflexivity).
      rewrite Ht, <- map_app. apply canon_ints. }
  destruct F; [congruence| |].
  - replace (length fs + 1 <=? 1) with false by (symmetry; apply Nat.leb_gt; lia).
    rewrite (nth_app_last (map OInt fs)) by (rewrite map_length; reflexivity). apply G.
  - assert (E : length fs = 1) by (apply Hc; reflexivity).
    replace (length fs + 1 =? 2) with true by (rewrite E; reflexivity).
    rewrite (nth_app_last (map OInt fs)) by (rewrite map_length; lia). apply G.
Qed.

(* ---------- the whole mapping call ---------- *)
Definition last_rel (h0 : oheap) (lastobjs : list obj) (last : lastcol) : Prop :=
  length lastobjs = last_len last /\
  (forall t, In (ORef t) lastobjs -> s_arr t < length h0) /\
  forall j, j < last_len last ->
    match last with
    | LInts l => nth j lastobjs ONil = OInt (nth j l 0%Z)
    | LLists ll => (nth j ll [] = [] /\ nth j lastobjs ONil = ONil) \/
                   (exists t, nth j lastobjs ONil = ORef t /\ ocontents h0 t = map OInt (nth j ll []))
    end.

Lemma supported_fun_ok F fc last : map_supported F fc last = true -> fun_ok F (length fc) /\ (F = FList -> exists l, last = LInts l).
Proof.
  unfold map_supported, fun_ok. destruct F, last; intros H; try discriminate H;
    try (apply Nat.leb_le in H); try (apply Nat.eqb_eq in H); (split; [split; [lia|intros E; (discriminate E || exact H || lia)]|intros E; try discriminate E; eauto]).
Qed.

Lemma rows_general F fc last h0 lastobjs h buf rows :
  map_supported F fc last = true -> last_rel h0 lastobjs last ->
  map_run F h0 (cols_of fc lastobjs) = (h, buf, rows) ->
  length rows = rows_count fc last /\ length h = length h0 + 1 + rows_count fc last /\
  (forall a, a < length h0 -> oarr h a = oarr h0 a) /\
  forall n, n < rows_count fc last -> exists s, nth n rows ONil = ORef s /\ s_arr s = length h0 + 1 + n /\ s_off s = 0 /\
       canon (ocontents h s) = Some (spec_row F fc last n).
Proof.
  intros Hsup (Hll & Hrefs & Hlast) Hrun.
  destruct (supported_fun_ok _ _ _ Hsup) as [Hok HFl].
  assert (Hne : fc <> []) by (destruct Hok as [H _]; destruct fc; [cbn in H; lia|discriminate]).
  assert (Hcount : min_len (cols_of fc lastobjs) = rows_count fc last).
  { rewrite min_len_cols by exact Hne. unfold rows_count. rewrite Hll. reflexivity. }
  assert (Hlt : forall j, j < rows_count fc last -> j < last_len last /\ Forall (fun c => j < length c) fc).
  { intros j Hj. unfold rows_count in Hj. apply lt_fold_min in Hj as [H1 H2]. split; [exact H1|].
    rewrite Forall_map in H2. exact H2. }
  (* every step has a result, and it is the row the specification asks for *)
  assert (Hrow : forall j, j < rows_count fc last -> exists a len,
            row_of F h0 (vals_at (cols_of fc lastobjs) j) = Some (a, len) /\ canon (firstn len a) = Some (spec_row F fc last j)).
  { intros j Hj. destruct (Hlt j Hj) as [Hj1 Hj2]. rewrite vals_at_cols by exact Hj2.
    rewrite <- (map_map (fun c => nth j c 0%Z) OInt). specialize (Hlast j Hj1). unfold spec_row.
    assert (Hok' : fun_ok F (length (map (fun c : list Z => nth j c 0%Z) fc))) by (rewrite map_length; exact Hok).
    destruct last as [l|ll].
    - rewrite Hlast. apply (row_int F h0 _ _ Hok').
    - apply (row_list F h0 _ _ _ Hok'); [intros ->; destruct (HFl eq_refl) as [l E]; discriminate E|].
      destruct Hlast as [[E1 E2]|(t & E1 & E2)]; [left; auto|right; eauto]. }
  unfold map_run in Hrun.
  set (k := length (cols_of fc lastobjs)) in *.
  destruct (map_steps F (h0 ++ [repeat ONil k]) {| s_arr := length h0; s_off := 0; s_len := k |} (cols_of fc lastobjs)
                      (min_len (cols_of fc lastobjs)) 0) as [hf rs] eqn:Esteps.
  injection Hrun as <- <- <-.
  assert (Hrefs' : forall j t, In (ORef t) (vals_at (cols_of fc lastobjs) j) -> s_arr t < length h0).
  { intros j t Hin. unfold vals_at, cols_of in Hin. rewrite map_app, in_app_iff in Hin. destruct Hin as [Hin|Hin].
    - rewrite map_map in Hin. apply in_map_iff in Hin as (c & Hc & _).
      destruct (Nat.lt_ge_cases j (length (map OInt c))) as [L|L].
      + rewrite (nth_indep _ ONil (OInt 0%Z)) in Hc by exact L. rewrite (map_nth OInt) in Hc. discriminate Hc.
      + rewrite nth_overflow in Hc by exact L. discriminate Hc.
    - cbn in Hin. destruct Hin as [Hin|[]]. destruct (Nat.lt_ge_cases j (length lastobjs)) as [L|L].
      + apply Hrefs. rewrite <- Hin. apply nth_In, L.
      + rewrite nth_overflow in Hin by exact L. discriminate Hin. }
  assert (HI : loop_inv h0 (cols_of fc lastobjs) (h0 ++ [repeat ONil k])).
  { unfold loop_inv. rewrite app_length. cbn [length]. split; [lia|]. split; [rewrite oarr_app_new; apply repeat_length|].
    intros a Ha. apply oarr_app_old, Ha. }
  destruct (loop_steps F h0 (cols_of fc lastobjs) Hrefs' (min_len (cols_of fc lastobjs)) (h0 ++ [repeat ONil k]) 0 hf rs HI) as (I1 & I2 & I3 & I4 & I5); [|exact Esteps|].
  { intros i Hi. rewrite Hcount in Hi. destruct (Hrow i Hi) as (a & len & E & _). cbn [Nat.add]. rewrite E. discriminate. }
  rewrite app_length in I2, I3, I5. cbn [length] in I2, I3, I5. rewrite Hcount in *.
  split; [exact I4|]. split; [exact I2|]. split.
  { intros a Ha. rewrite I3 by lia. apply oarr_app_old, Ha. }
  intros n Hn. destruct (I5 n Hn) as (a & len & E1 & E2 & E3). cbn [Nat.add] in E1.
  destruct (Hrow n Hn) as (a' & len' & E1' & Hcan). rewrite E1 in E1'. injection E1' as <- <-.
  eexists. split; [exact E2|]. cbn [s_arr s_off]. split; [reflexivity|]. split; [reflexivity|].
  unfold ocontents. cbn [s_arr s_off s_len skipn]. rewrite E3. exact Hcan.
Qed.

Lemma mk_input_rel fc last h0 cols : mk_input fc last = (h0, cols) ->
  exists lastobjs, cols = cols_of fc lastobjs /\ last_rel h0 lastobjs last.
Proof.
  unfold mk_input. destruct last as [l|ll].
  - intros H. injection H as <- <-. exists (map OInt l). split; [reflexivity|]. split; [apply map_length|]. split.
    + intros t Hin. apply in_map_iff in Hin as (z & Hz & _). discriminate Hz.
    + intros j Hj. cbn in Hj. rewrite (nth_indep _ ONil (OInt 0%Z)) by (rewrite map_length; exact Hj). apply (map_nth OInt).
  - destruct (mk_inner [] ll) as [h os] eqn:E. intros H. injection H as <- <-. exists os. split; [reflexivity|].
    destruct (mk_inner_spec ll [] h os E) as (A & B & C & D). split; [exact A|]. split.
    + intros t Hin. apply (In_nth _ _ ONil) in Hin as (j & Hj & Ej). rewrite A in Hj.
      destruct (D j Hj) as [[_ E0]|(t' & E1 & E2 & _)]; [rewrite E0 in Ej; discriminate Ej|]. rewrite E1 in Ej. injection Ej as <-. exact E2.
    + intros j Hj. cbn in Hj. destruct (D j Hj) as [[E0 E1]|(t & E1 & _ & E3)]; [left; auto|right; eauto].
Qed.

(* (a) every result is the list the constructor returns for its tuple of elements; (b) the n-th result lies alone
   on the n-th array allocated after the argument buffer: no two results, no result and the buffer, no result
   and an argument share an array *)
Theorem map_rows_correct F fc last h0 cols h buf rows :
  map_supported F fc last = true -> mk_input fc last = (h0, cols) -> map_run F h0 cols = (h, buf, rows) ->
  length rows = rows_count fc last /\ length h = length h0 + 1 + rows_count fc last /\
  (forall a, a < length h0 -> oarr h a = oarr h0 a) /\
  forall n, n < rows_count fc last -> exists s, nth n rows ONil = ORef s /\ s_arr s = length h0 + 1 + n /\ s_off s = 0 /\
       canon (ocontents h s) = Some (spec_row F fc last n).
Proof.
  intros Hsup Hin Hrun. destruct (mk_input_rel _ _ _ _ Hin) as (lastobjs & -> & Hrel).
  apply (rows_general F fc last h0 lastobjs h buf rows Hsup Hrel Hrun).
Qed.

Lemma firstn_set_nth0 {A} (x : A) l n : 0 < n -> firstn n (set_nth 0 x l) = set_nth 0 x (firstn n l).
Proof. intros H. destruct n; [lia|]. destruct l; reflexivity. Qed.

(* (c) hence: overwriting the car of one result changes that car only: every other result and every list that
   was an element of an argument keep their contents *)
Theorem map_rows_independent F fc last h0 cols h buf rows j v :
  map_supported F fc last = true -> mk_input fc last = (h0, cols) -> map_run F h0 cols = (h, buf, rows) ->
  let h' := row_setcar h rows j v in
  (forall n s, n < rows_count fc last -> n <> j -> nth n rows ONil = ORef s -> ocontents h' s = ocontents h s) /\
  (forall t, s_arr t < length h0 -> ocontents h' t = ocontents h t) /\
  (forall s, j < rows_count fc last -> nth j rows ONil = ORef s -> ocontents h' s = set_nth 0 (OInt v) (ocontents h s)).
Proof.
  intros Hsup Hin Hrun. destruct (map_rows_correct _ _ _ _ _ _ _ _ Hsup Hin Hrun) as (Hl & Hh & Hold & Hrows).
  cbn zeta. unfold row_setcar.
  destruct (Nat.lt_ge_cases j (rows_count fc last)) as [Hj|Hj].
  - destruct (Hrows j Hj) as (sj & Ej & Aj & Oj & Cj). rewrite Ej.
    assert (Hpos : 0 < s_len sj).
    { destruct (s_len sj) eqn:E; [|lia]. exfalso. unfold ocontents in Cj. rewrite E in Cj. cbn [firstn canon] in Cj.
      injection Cj as Cj. unfold spec_row in Cj. destruct (supported_fun_ok _ _ _ Hsup) as [[H1 _] _].
      destruct fc as [|c fc']; [cbn in H1; lia|]. destruct last; cbn in Cj; discriminate Cj. }
    replace (0 <? s_len sj) with true by (symmetry; apply Nat.ltb_lt; exact Hpos). rewrite Oj.
    split; [|split].
    + intros n s Hn Hne En. destruct (Hrows n Hn) as (s' & En' & An & _). rewrite En in En'. injection En' as <-.
      unfold ocontents. rewrite oarr_owrite_other by lia. reflexivity.
    + intros t Ht. unfold ocontents. rewrite oarr_owrite_other by lia. reflexivity.
    + intros s _ Es. injection Es as <-. unfold ocontents. rewrite Oj. cbn [skipn].
      rewrite oarr_owrite_same by lia. apply firstn_set_nth0, Hpos.
  - rewrite nth_overflow by lia. split; [|split]; try reflexivity. intros s Hc. lia.
Qed.

(* non-vacuity: (mapcar 'list* '(1 2 3) '(4 5 6) '((7) nil (8 9))), then (setf (car (nth 1 rows)) 0) *)
Definition ex_map_input := ([[1; 2; 3]; [4; 5; 6]]%Z, LLists [[7]; []; [8; 9]]%Z).
Lemma map_example :
  map_supported FListStar (fst ex_map_input) (snd ex_map_input) = true /\
  (let '(h0, cols) := mk_input (fst ex_map_input) (snd ex_map_input) in
   let '(h, _, rows) := map_run FListStar h0 cols in
   (map (row_view h) rows, map (row_view (row_setcar h rows 1 0)) rows)) =
  ([Some ([1; 4; 7]%Z, false, 3, 0); Some ([2; 5]%Z, false, 4, 0); Some ([3; 6; 8; 9]%Z, false, 5, 0)],
   [Some ([1; 4; 7]%Z, false, 3, 0); Some ([0; 5]%Z, false, 4, 0); Some ([3; 6; 8; 9]%Z, false, 5, 0)]).
Proof. split; vm_compute; reflexivity. Qed.
