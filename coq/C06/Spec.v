(* C06 — specification side.
   (a) what each operation returns, as a function on list VALUES;
   (b) a cons-cell reference model that tracks only the STRUCTURE the language rules create
       (which variables share cells), used to decide which variables a destructive operation may
       affect;
   (c) the frame rules the property states. *)
From C06 Require Export Model.

(* ---- (a) values ---- *)
Definition val_result (o : op) (pre : var -> list Z) : option (var * list Z) :=   (* (dst, expected contents) *)
  match o with
  | OList xs dst => Some (dst, xs)
  | OCons x src dst => Some (dst, x :: pre src)
  | OCdr src dst => Some (dst, tl (pre src))
  | ONthcdr n src dst => Some (dst, skipn n (pre src))
  | OLast src dst => Some (dst, skipn (length (pre src) - 1) (pre src))
  | OButlast src dst => Some (dst, firstn (length (pre src) - 1) (pre src))
  | OSubseq b e src dst => Some (dst, firstn (e - b) (skipn b (pre src)))
  | OCopy src dst => Some (dst, pre src)
  | OReverse src dst => Some (dst, rev (pre src))
  | OAppend a b dst => Some (dst, pre a ++ pre b)
  | OAdd src x dst => Some (dst, pre src ++ [x])
  | OPush x v => Some (v, x :: pre v)
  | OPop v => Some (v, tl (pre v))
  | OSetcar v x => Some (v, match pre v with [] => [] | _ :: t => x :: t end)
  | OSetnth v i x => Some (v, firstn i (pre v) ++ match skipn i (pre v) with [] => [] | _ :: t => x :: t end)
  | ONreverse src dst => Some (dst, rev (pre src))
  | ONconc a b dst => Some (dst, pre a ++ pre b)
  | OSort src dst => Some (dst, isort (pre src))
  | ORemove x src dst => Some (dst, filter (fun y => negb (Z.eqb x y)) (pre src))
  end.

(* ---- (b) structure: cons cells with cdr pointers only ---- *)
Record cstate := { cdrs : list (option nat); cvars : list (option nat) }.
Definition cinit (n : nat) : cstate := {| cdrs := []; cvars := repeat None n |}.
Definition cget (c : cstate) (v : var) : option nat := nth v (cvars c) None.
Definition cset (c : cstate) (v : var) (p : option nat) : cstate := {| cdrs := cdrs c; cvars := set_nth v p (cvars c) |}.
Definition cdr_of (c : cstate) (p : option nat) : option nat := match p with Some i => nth i (cdrs c) None | None => None end.
Fixpoint nth_cdr (c : cstate) (n : nat) (p : option nat) : option nat :=
  match n with O => p | S n' => nth_cdr c n' (cdr_of c p) end.
(* the cells of a list (fuel bounds the walk; structures here are acyclic) *)
Fixpoint cells (c : cstate) (fuel : nat) (p : option nat) : list nat :=
  match fuel, p with
  | S f, Some i => i :: cells c f (nth i (cdrs c) None)
  | _, _ => []
  end.
Definition reach (c : cstate) (v : var) : list nat := cells c (S (length (cdrs c))) (cget c v).
(* a fresh chain of n cells ending in tail *)
Fixpoint chain (c : cstate) (n : nat) (tail : option nat) : cstate * option nat :=
  match n with
  | O => (c, tail)
  | S n' => let '(c1, p) := chain c n' tail in
            ({| cdrs := cdrs c1 ++ [p]; cvars := cvars c1 |}, Some (length (cdrs c1)))
  end.
Definition last_cell (c : cstate) (v : var) : option nat := match rev (reach c v) with i :: _ => Some i | [] => None end.
Definition set_cdr (c : cstate) (i : nat) (p : option nat) : cstate := {| cdrs := set_nth i p (cdrs c); cvars := cvars c |}.

Definition cstep (c : cstate) (o : op) : cstate :=
  match o with
  | OList xs dst => let '(c1, p) := chain c (length xs) None in cset c1 dst p
  | OCons _ src dst => let '(c1, p) := chain c 1 (cget c src) in cset c1 dst p
  | OPush _ v => let '(c1, p) := chain c 1 (cget c v) in cset c1 v p
  | OCdr src dst => cset c dst (cdr_of c (cget c src))
  | OPop v => cset c v (cdr_of c (cget c v))
  | ONthcdr n src dst => cset c dst (nth_cdr c n (cget c src))
  | OLast src dst => cset c dst (last_cell c src)                                   (* shares the last cons *)
  | OButlast src dst => let '(c1, p) := chain c (length (reach c src) - 1) None in cset c1 dst p
  | OSubseq b e src dst => let '(c1, p) := chain c (e - b) None in cset c1 dst p    (* subseq copies *)
  | OCopy src dst | OReverse src dst | ORemove _ src dst => let '(c1, p) := chain c (length (reach c src)) None in cset c1 dst p
  | OAppend a b dst => let '(c1, p) := chain c (length (reach c a)) (cget c b) in cset c1 dst p   (* shares the last argument *)
  | OAdd src _ dst =>                                                               (* destructive: like nconc with a one-element list *)
      let '(c1, p) := chain c 1 None in
      match last_cell c src with
      | Some i => cset (set_cdr c1 i p) dst (cget c src)
      | None => cset c1 dst p
      end
  | ONconc a b dst =>
      match last_cell c a with
      | Some i => cset (set_cdr c i (cget c b)) dst (cget c a)
      | None => cset c dst (cget c b)
      end
  | OSetcar _ _ | OSetnth _ _ _ => c
  | ONreverse src dst | OSort src dst => cset c dst (cget c src)
  end.

Definition shares (c : cstate) (v w : var) : bool :=
  existsb (fun i => existsb (Nat.eqb i) (reach c w)) (reach c v).

(* ---- (c) the frame rules ---- *)
Definition destructive_on (o : op) : option var :=     (* the list a documented-destructive operation works on *)
  match o with
  | OSetcar v _ | OSetnth v _ _ => Some v
  | ONreverse src _ | OSort src _ | OAdd src _ _ => Some src
  | ONconc a _ _ => Some a
  | _ => None
  end.
Definition extending (o : op) : bool :=
  match o with OCons _ _ _ | OAppend _ _ _ | OPush _ _ | OAdd _ _ _ | ONconc _ _ _ => true | _ => false end.
Definition dst_of (o : op) : var :=
  match o with
  | OList _ d | OCons _ _ d | OCdr _ d | ONthcdr _ _ d | OLast _ d | OButlast _ d | OSubseq _ _ _ d | OCopy _ d
  | OReverse _ d | OAppend _ _ d | OAdd _ _ d | ONreverse _ d | ONconc _ _ d | OSort _ d | ORemove _ _ d => d
  | OPush _ v | OPop v | OSetcar v _ | OSetnth v _ _ => v
  end.
Fixpoint prefix (a b : list Z) : bool :=
  match a, b with [] , _ => true | x :: a', y :: b' => Z.eqb x y && prefix a' b' | _, _ => false end.
Fixpoint zlist_eqb (a b : list Z) : bool :=
  match a, b with [], [] => true | x :: a', y :: b' => Z.eqb x y && zlist_eqb a' b' | _, _ => false end.

(* one step judged on observed contents: pre and post are the contents of every variable *)
Definition frame_ok (nv : nat) (c : cstate) (o : op) (pre post : var -> list Z) : bool :=
  (* the result is what the operation is defined to return *)
  (match val_result o pre with Some (d, xs) => zlist_eqb (post d) xs | None => true end) &&
  forallb (fun w =>
    Nat.eqb w (dst_of o) ||
    match destructive_on o with
    | None => zlist_eqb (post w) (pre w)                          (* not destructive: nothing else changes *)
    | Some v =>
        (* destructive: only lists that share structure with v by the language rules may change ... *)
        (shares c v w || zlist_eqb (post w) (pre w)) &&
        (* ... and extending never overwrites an element reachable from another variable *)
        (negb (extending o) || prefix (pre w) (post w))
    end) (seq 0 nv).

(* ---- the guard on the code model: operations after which the slices still behave like conses ---- *)
Definition live (st : state) (w : var) : option slice :=
  match getv st w with Some s => if s_len s =? 0 then None else Some s | None => None end.
Definition alone_on_array (nv : nat) (st : state) (v : var) (a : aid) : bool :=
  forallb (fun w => Nat.eqb w v || match live st w with Some t => negb (Nat.eqb (s_arr t) a) | None => true end) (seq 0 nv).
Definition g_step (nv : nat) (st : state) (o : op) : bool :=
  match o with
  | OSubseq _ _ _ _ => false                  (* re-slices: shares cells although the language copies *)
  | OAdd src _ dst =>
      match getv st src with
      | Some s => if s_len s <? scap (hp st) s then Nat.eqb src dst && alone_on_array nv st src (s_arr s) else true
      | None => true
      end
  | ONconc a b dst =>
      match getv st a with
      | Some s => if (0 <? s_len s) && (0 <? length (contents (hp st) (getv st b))) &&
                     (s_len s + length (contents (hp st) (getv st b)) <=? scap (hp st) s)
                  then Nat.eqb a dst && alone_on_array nv st a (s_arr s) && negb (Nat.eqb a b) else true
      | None => true
      end
  | _ => true
  end.
(* all non-empty slices on one array end at the same cell: they are tails of one another *)
Definition same_end (s t : slice) : bool := Nat.eqb (s_off s + s_len s) (s_off t + s_len t).
Definition inv_b (nv : nat) (st : state) : bool :=
  forallb (fun v => match live st v with
                    | Some s => (s_arr s <? length (hp st)) && (s_off s + s_len s <=? length (arr (hp st) (s_arr s))) &&
                                forallb (fun w => match live st w with
                                                  | Some t => negb (Nat.eqb (s_arr s) (s_arr t)) || same_end s t
                                                  | None => true end) (seq 0 nv)
                    | None => true end) (seq 0 nv).
