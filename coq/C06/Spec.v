(* C06 — specification side: a cons-cell reference machine.

   The reference is a real cons heap: cells with a car and a cdr, variables point to a cell or are nil.
   Every modelled operation has its meaning in cons terms:
     - selectors of tails (cdr/rest, nthcdr, member, pop) return the existing cell: the result shares
       structure with the argument exactly as the language rules say;
     - every other non-destructive function returns NEW cells only: "the list it returns is independent
       of its arguments and of the results of other calls" (the property text).  This is where the
       reference deliberately shares LESS than a Common Lisp implementation would (cons, push, list*,
       append keep their last argument as a tail there, last returns the last cons): the property only
       forbids changes reaching lists that are not tails, it never demands that they reach tails;
     - destructive functions work on the cells of their argument: (setf car/nth/elt) and rplaca write one
       car; nreverse and sort permute the cars of the argument's own cells (a rearrangement the language
       allows: "may modify the cars or the cdrs"); nconc and add with a non-empty result build new cells
       (slip after repo_fixes/C06-1,3; nconc's first argument is then not extended as in CL: less
       sharing again); rplacd sets the cdr of the first cell (the language rule).
   No capacity, no array, no offset appears here. *)
From C06 Require Export Model.

Record cell := { car : Z; cdr : option nat }.
Record cheap := { cells : list cell; cvars : list (option nat) }.     (* None = nil *)
Definition cinit (n : nat) : cheap := {| cells := []; cvars := repeat None n |}.
Definition cget (c : cheap) (v : var) : option nat := nth v (cvars c) None.
Definition cset (c : cheap) (v : var) (p : option nat) : cheap := {| cells := cells c; cvars := set_nth v p (cvars c) |}.

Definition cdr_at (cs : list cell) (p : option nat) : option nat :=
  match p with
  | Some k => match nth_error cs k with Some x => cdr x | None => None end
  | None => None
  end.
Fixpoint nth_cdr (cs : list cell) (n : nat) (p : option nat) : option nat :=
  match n with O => p | S n' => nth_cdr cs n' (cdr_at cs p) end.
(* the cells of the list p (fuel bounds the walk: rplacd can build circular structure) *)
Fixpoint ids (cs : list cell) (fuel : nat) (p : option nat) : list nat :=
  match fuel, p with
  | S f, Some k => match nth_error cs k with Some x => k :: ids cs f (cdr x) | None => [] end
  | _, _ => []
  end.
Definition chain (c : cheap) (p : option nat) : list nat := ids (cells c) (length (cells c)) p.
Definition car_at (cs : list cell) (k : nat) : Z := match nth_error cs k with Some x => car x | None => 0%Z end.
Definition clist (c : cheap) (p : option nat) : list Z := map (car_at (cells c)) (chain c p).
Definition ccontents (c : cheap) (v : var) : list Z := clist c (cget c v).

(* new cells holding xs, each pointing to the next, the last to nil *)
Fixpoint mkchain (base : nat) (xs : list Z) : list cell :=
  match xs with
  | [] => []
  | x :: xs' => {| car := x; cdr := match xs' with [] => None | _ => Some (S base) end |} :: mkchain (S base) xs'
  end.
Definition cfresh (c : cheap) (dst : var) (xs : list Z) : cheap :=
  {| cells := cells c ++ mkchain (length (cells c)) xs;
     cvars := set_nth dst (match xs with [] => None | _ => Some (length (cells c)) end) (cvars c) |}.

Definition set_car (cs : list cell) (k : nat) (x : Z) : list cell :=
  match nth_error cs k with Some y => set_nth k {| car := x; cdr := cdr y |} cs | None => cs end.
Definition set_cdr (cs : list cell) (k : nat) (p : option nat) : list cell :=
  match nth_error cs k with Some y => set_nth k {| car := car y; cdr := p |} cs | None => cs end.
Fixpoint set_cars (cs : list cell) (ks : list nat) (xs : list Z) : list cell :=
  match ks, xs with k :: ks', x :: xs' => set_cars (set_car cs k x) ks' xs' | _, _ => cs end.
Definition cwrite (c : cheap) (k : nat) (x : Z) : cheap := {| cells := set_car (cells c) k x; cvars := cvars c |}.
Definition cwrite_all (c : cheap) (ks : list nat) (xs : list Z) : cheap := {| cells := set_cars (cells c) ks xs; cvars := cvars c |}.
Definition cwrite_cdr (c : cheap) (k : nat) (p : option nat) : cheap := {| cells := set_cdr (cells c) k p; cvars := cvars c |}.

Definition cstep (c : cheap) (o : op) : cheap :=
  let cs := cells c in
  let L := ccontents c in
  match o with
  | OList xs dst => cfresh c dst xs
  | OCons x src dst => cfresh c dst (x :: L src)
  | OPush x v => cfresh c v (x :: L v)
  | OListStar xs src dst => match xs with [] => cset c dst (cget c src) | _ => cfresh c dst (xs ++ L src) end
  | OCdr src dst => cset c dst (cdr_at cs (cget c src))
  | ONthcdr n src dst => cset c dst (nth_cdr cs n (cget c src))
  | OMember x src dst =>
      cset c dst (match index_of x (L src) with Some i => nth_cdr cs i (cget c src) | None => None end)
  | OPop v => cset c v (cdr_at cs (cget c v))
  | OLast src dst =>
      (* slip: a list of at most one element is returned itself, otherwise a copy of the last element *)
      if length (L src) <=? 1 then cset c dst (cget c src) else cfresh c dst (skipn (length (L src) - 1) (L src))
  | OButlast src dst => cfresh c dst (firstn (length (L src) - 1) (L src))
  | OSubseq b e src dst =>
      if (b <=? e) && (e <=? length (L src)) then cfresh c dst (firstn (e - b) (skipn b (L src))) else c   (* else: error *)
  | OCopy src dst => cfresh c dst (L src)
  | OReverse src dst => cfresh c dst (rev (L src))
  | OAppend a b dst => cfresh c dst (L a ++ L b)
  | OAdd src x dst => cfresh c dst (L src ++ [x])
  | OSetcar v x => match cget c v with Some k => cwrite c k x | None => c end                              (* nil: error *)
  | OSetnth v i x | OSetelt v i x => match nth_cdr cs i (cget c v) with Some k => cwrite c k x | None => c end
  | ORplaca v x dst => match cget c v with Some k => cset (cwrite c k x) dst (Some k) | None => c end
  | ORplacd v b dst => match cget c v with Some k => cset (cwrite_cdr c k (cget c b)) dst (Some k) | None => c end
  | ONreverse src dst => cset (cwrite_all c (chain c (cget c src)) (rev (L src))) dst (cget c src)
  | OSort src dst => cset (cwrite_all c (chain c (cget c src)) (isort (L src))) dst (cget c src)
  | ORemove x src dst => cfresh c dst (filter (fun y => negb (Z.eqb x y)) (L src))
  | OMapcar k src dst => cfresh c dst (map (fun y => (y + k)%Z) (L src))
  | ORemoveIf p n fe src dst => cfresh c dst (remove_if p n fe (L src))
  | ORemoveDup fe s e src dst => cfresh c dst (remove_dup fe s e (L src))      (* new cells, also for delete-duplicates *)
  | ONconc a b dst =>
      match L a, L b with
      | [], [] => cset c dst None
      | [], _ => cset c dst (cget c b)
      | _, [] => cset c dst (cget c a)
      | la, lb => cfresh c dst (la ++ lb)
      end
  end.
Fixpoint crun (c : cheap) (ops : list op) : cheap :=
  match ops with [] => c | o :: ops' => crun (cstep c o) ops' end.

(* two variables share structure: some cell belongs to both lists *)
Definition shares (c : cheap) (v w : var) : bool :=
  existsb (fun i => existsb (Nat.eqb i) (chain c (cget c w))) (chain c (cget c v)).

(* ---- classes of operations used by the frame theorems ---- *)
Definition destructive_on (o : op) : option var :=     (* the list a documented-destructive operation works on *)
  match o with
  | OSetcar v _ | OSetnth v _ _ | OSetelt v _ _ | ORplaca v _ _ | ORplacd v _ _ => Some v
  | ONreverse src _ | OSort src _ => Some src
  | _ => None
  end.
Definition dst_of (o : op) : var :=
  match o with
  | OList _ d | OCons _ _ d | OListStar _ _ d | OCdr _ d | ONthcdr _ _ d | OMember _ _ d | OLast _ d | OButlast _ d
  | OSubseq _ _ _ d | OCopy _ d | OReverse _ d | OAppend _ _ d | OAdd _ _ d | ONreverse _ d | ONconc _ _ d
  | OSort _ d | ORemove _ _ d | OMapcar _ _ d | ORemoveIf _ _ _ _ d | ORemoveDup _ _ _ _ d | ORplaca _ _ d | ORplacd _ _ d => d
  | OPush _ v | OPop v | OSetcar v _ | OSetnth v _ _ | OSetelt v _ _ => v
  end.
Fixpoint zlist_eqb (a b : list Z) : bool :=
  match a, b with [], [] => true | x :: a', y :: b' => Z.eqb x y && zlist_eqb a' b' | _, _ => false end.

(* ---- the guard: where the slices behave like the conses of the reference ----
   g_inv: rplacd is the only modelled operation left that writes a list over the old elements of its
   argument in place (pkg/cl/rplacd.go: list = append(list[:1], a2...)): it cannot change the length of
   the slices other variables hold, and whether it writes at all depends on the spare capacity.
   g_step additionally leaves out subseq applied to nil, which slip rejects with a type error although
   it accepts an empty list value (pkg/cl/subseq.go getArgs, default case; recorded as a finding of C14). *)
Definition g_inv (o : op) : bool := match o with ORplacd _ _ _ => false | _ => true end.
Definition g_step (st : state) (o : op) : bool :=
  g_inv o && match o with OSubseq _ _ src _ => match getv st src with Some _ => true | None => false end | _ => true end.
Definition live (st : state) (w : var) : option slice :=
  match getv st w with Some s => if s_len s =? 0 then None else Some s | None => None end.

(* ================= mapping a list constructor over several lists: what the results must be =================
   The n-th result is the constructor applied to the n-th elements, and the results are independent lists:
   writing into one of them afterwards changes neither another result nor an argument. *)
Inductive lastcol := LInts (l : list Z) | LLists (ll : list (list Z)).
Definition last_len (c : lastcol) : nat := match c with LInts l => length l | LLists ll => length ll end.
Definition rows_count (fc : list (list Z)) (last : lastcol) : nat :=
  fold_left (fun m x => Nat.min m x) (map (@length Z) fc) (last_len last).
(* list with list-valued elements would build nested lists: outside the modelled rows *)
Definition map_supported (F : mfun) (fc : list (list Z)) (last : lastcol) : bool :=
  match F, last with
  | FList, LLists _ => false
  | FList, _ => 1 <=? length fc
  | FListStar, _ => 1 <=? length fc
  | FCons, _ => length fc =? 1
  end.
Definition spec_row (F : mfun) (fc : list (list Z)) (last : lastcol) (n : nat) : list Z * bool :=
  let fronts := map (fun c => nth n c 0%Z) fc in
  match last with
  | LInts l => (fronts ++ [nth n l 0%Z], match F with FList => false | _ => true end)
  | LLists ll => (fronts ++ nth n ll [], false)
  end.
Definition spec_rows (F : mfun) (fc : list (list Z)) (last : lastcol) : list (list Z * bool) :=
  map (spec_row F fc last) (seq 0 (rows_count fc last)).
Definition spec_setcar (rows : list (list Z * bool)) (j : nat) (v : Z) : list (list Z * bool) :=
  map (fun ir => if Nat.eqb (fst ir) j then (match fst (snd ir) with [] => [] | _ :: t => v :: t end, snd (snd ir)) else snd ir)
      (combine (seq 0 (length rows)) rows).
(* the model's input: the inner lists first, then the columns *)
Definition mk_input (fc : list (list Z)) (last : lastcol) : oheap * list (list obj) :=
  match last with
  | LInts l => ([], map (map OInt) fc ++ [map OInt l])
  | LLists ll => let '(h, os) := mk_inner [] ll in (h, map (map OInt) fc ++ [os])
  end.
