(* C06 — executable model M of lists as Go slices: a heap of backing arrays, a slice is
   (array, offset, length), its capacity is what is left of the array.  Operations follow
   pkg/cl/{cons,cdr,nthcdr,last,butlast,subseq,copy-list,reverse,append,push,pop,nreverse,nconc,sort,
   car(Place),nth(Place)}.go and pkg/gi/add.go for proper lists of integers.  Go's append writes in
   place when the capacity allows and otherwise allocates an array whose capacity is decided by the
   runtime: that capacity is an input of the operation (observed by the harness), never assumed. *)
From Coq Require Export List Bool Arith ZArith Lia.
Export ListNotations.

Notation aid := nat (only parsing).                 (* array identity *)
Record slice := { s_arr : aid; s_off : nat; s_len : nat }.
Definition heap := list (list Z).                   (* array i = nth i heap; its length is its capacity *)
Notation var := nat (only parsing).
Record state := { hp : heap; vars : list (option slice) }.   (* None = nil *)

Definition arr (h : heap) (a : aid) : list Z := nth a h [].
Definition scap (h : heap) (s : slice) : nat := length (arr h (s_arr s)) - s_off s.
Definition contents (h : heap) (o : option slice) : list Z :=
  match o with None => [] | Some s => firstn (s_len s) (skipn (s_off s) (arr h (s_arr s))) end.
Definition getv (st : state) (v : var) : option slice := nth v (vars st) None.

Fixpoint set_nth {A} (n : nat) (x : A) (l : list A) : list A :=
  match n, l with
  | O, _ :: l' => x :: l'
  | S n', y :: l' => y :: set_nth n' x l'
  | _, [] => []
  end.
(* every operation below except push/pop stores its result through setq, whose EvalArg turns an
   empty list into nil *)
Definition norm (o : option slice) : option slice :=
  match o with Some s => if s_len s =? 0 then None else o | None => None end.
Definition setv_raw (st : state) (v : var) (o : option slice) : state := {| hp := hp st; vars := set_nth v o (vars st) |}.
Definition setv (st : state) (v : var) (o : option slice) : state := setv_raw st v (norm o).
Definition write (h : heap) (a : aid) (i : nat) (x : Z) : heap := set_nth a (set_nth i x (arr h a)) h.

(* a new array holding xs with capacity max(cap, |xs|): the spare cells hold 0 (never observable) *)
Definition alloc (h : heap) (xs : list Z) (cap : nat) : heap * slice :=
  match xs with
  | [] => (h, {| s_arr := length h; s_off := 0; s_len := 0 |})     (* make(List, 0): never observable *)
  | _ => (h ++ [xs ++ repeat 0%Z (cap - length xs)], {| s_arr := length h; s_off := 0; s_len := length xs |})
  end.

Inductive op :=
| OList (xs : list Z) (dst : var)                (* (setq dst (list x...)) *)
| OCons (x : Z) (src dst : var)
| OCdr (src dst : var)
| ONthcdr (n : nat) (src dst : var)
| OLast (src dst : var)
| OButlast (src dst : var)
| OSubseq (s e : nat) (src dst : var)
| OCopy (src dst : var)
| OReverse (src dst : var)
| OAppend (a b dst : var)
| OAdd (src : var) (x : Z) (dst : var)           (* (setq dst (add src x)) *)
| OPush (x : Z) (v : var)
| OPop (v : var)
| OSetcar (v : var) (x : Z)
| OSetnth (v : var) (i : nat) (x : Z)
| ONreverse (src dst : var)
| ONconc (a b dst : var)
| OSort (src dst : var)
| ORemove (x : Z) (src dst : var).            (* remove and delete build a new list by appending *)

(* insertion sort: the result of sorting integers by < is unique *)
Fixpoint insert (x : Z) (l : list Z) : list Z :=
  match l with [] => [x] | y :: l' => if (x <=? y)%Z then x :: l else y :: insert x l' end.
Definition isort (l : list Z) : list Z := fold_right insert [] l.

(* overwrite the window of s with xs (|xs| = s_len s) *)
Fixpoint write_all (h : heap) (a : aid) (i : nat) (xs : list Z) : heap :=
  match xs with [] => h | x :: xs' => write_all (write h a i x) a (S i) xs' end.

(* step: cap is the capacity Go chose if the operation allocated a visible array *)
Definition step (st : state) (o : op) (cap : nat) : state :=
  let h := hp st in
  match o with
  | OList xs dst =>
      match xs with
      | [] => setv st dst None
      | _ => let '(h', s) := alloc h xs cap in setv {| hp := h'; vars := vars st |} dst (Some s)
      end
  | OCons x src dst =>
      let '(h', s) := alloc h (x :: contents h (getv st src)) cap in setv {| hp := h'; vars := vars st |} dst (Some s)
  | OPush x v =>
      let '(h', s) := alloc h (x :: contents h (getv st v)) cap in setv {| hp := h'; vars := vars st |} v (Some s)
  | OCdr src dst =>
      match getv st src with
      | None => setv st dst None
      | Some s => if s_len s =? 0 then setv st dst None
                  else setv st dst (Some {| s_arr := s_arr s; s_off := S (s_off s); s_len := s_len s - 1 |})
      end
  | ONthcdr n src dst =>
      match getv st src with
      | None => setv st dst None
      | Some s => if s_len s <=? n then setv st dst None
                  else setv st dst (Some {| s_arr := s_arr s; s_off := s_off s + n; s_len := s_len s - n |})
      end
  | OPop v =>
      match getv st v with
      | None => st
      | Some s => if s_len s =? 0 then st
                  else setv_raw st v (Some {| s_arr := s_arr s; s_off := S (s_off s); s_len := s_len s - 1 |})
      end
  | OLast src dst =>
      match getv st src with
      | None => setv st dst None
      | Some s => if s_len s <=? 1 then setv st dst (Some s)
                  else let '(h', r) := alloc h (skipn (s_len s - 1) (contents h (Some s))) cap in
                       setv {| hp := h'; vars := vars st |} dst (Some r)
      end
  | OButlast src dst =>
      match getv st src with
      | None => setv st dst None
      | Some s => if s_len s <=? 1 then setv st dst None
                  else let '(h', r) := alloc h (firstn (s_len s - 1) (contents h (Some s))) cap in
                       setv {| hp := h'; vars := vars st |} dst (Some r)
      end
  | OSubseq b e src dst =>
      match getv st src with
      | None => st
      | Some s => if (b <=? e) && (e <=? s_len s)
                  then setv st dst (Some {| s_arr := s_arr s; s_off := s_off s + b; s_len := e - b |})
                  else st
      end
  | OCopy src dst =>
      match getv st src with
      | None => setv st dst None
      | Some s => let '(h', r) := alloc h (contents h (Some s)) cap in setv {| hp := h'; vars := vars st |} dst (Some r)
      end
  | OReverse src dst =>
      match getv st src with
      | None => setv st dst None
      | Some s => if s_len s =? 0 then setv st dst (Some s)
                  else let '(h', r) := alloc h (rev (contents h (Some s))) cap in setv {| hp := h'; vars := vars st |} dst (Some r)
      end
  | OAppend a b dst =>
      let ca := contents h (getv st a) in let cb := contents h (getv st b) in
      match ca, cb with
      | [], [] => setv st dst (match getv st a with Some s => Some s | None => getv st b end)
      | _, _ => let '(h', r) := alloc h (ca ++ cb) cap in setv {| hp := h'; vars := vars st |} dst (Some r)
      end
  | OAdd src x dst =>
      match getv st src with
      | None => let '(h', r) := alloc h [x] cap in setv {| hp := h'; vars := vars st |} dst (Some r)
      | Some s =>
          if s_len s <? scap h s
          then setv {| hp := write h (s_arr s) (s_off s + s_len s) x; vars := vars st |} dst
                    (Some {| s_arr := s_arr s; s_off := s_off s; s_len := S (s_len s) |})
          else let '(h', r) := alloc h (contents h (Some s) ++ [x]) cap in setv {| hp := h'; vars := vars st |} dst (Some r)
      end
  | OSetcar v x =>
      match getv st v with
      | Some s => if 0 <? s_len s then {| hp := write h (s_arr s) (s_off s) x; vars := vars st |} else st
      | None => st
      end
  | OSetnth v i x =>
      match getv st v with
      | Some s => if i <? s_len s then {| hp := write h (s_arr s) (s_off s + i) x; vars := vars st |} else st
      | None => st
      end
  | ONreverse src dst =>
      match getv st src with
      | None => setv st dst None
      | Some s => setv {| hp := write_all h (s_arr s) (s_off s) (rev (contents h (Some s))); vars := vars st |} dst (Some s)
      end
  | OSort src dst =>
      match getv st src with
      | None => setv st dst None
      | Some s => setv {| hp := write_all h (s_arr s) (s_off s) (isort (contents h (Some s))); vars := vars st |} dst (Some s)
      end
  | ORemove x src dst =>
      let '(h', r) := alloc h (filter (fun y => negb (Z.eqb x y)) (contents h (getv st src))) cap in
      setv {| hp := h'; vars := vars st |} dst (Some r)
  | ONconc a b dst =>
      let cb := contents h (getv st b) in
      match getv st a with
      | None => setv st dst (match cb with [] => None | _ => getv st b end)
      | Some s =>
          if s_len s =? 0 then setv st dst (match cb with [] => None | _ => getv st b end)
          else match cb with
               | [] => setv st dst (Some s)
               | _ => if s_len s + length cb <=? scap h s
                      then setv {| hp := write_all h (s_arr s) (s_off s + s_len s) cb; vars := vars st |} dst
                                (Some {| s_arr := s_arr s; s_off := s_off s; s_len := s_len s + length cb |})
                      else let '(h', r) := alloc h (contents h (Some s) ++ cb) cap in
                           setv {| hp := h'; vars := vars st |} dst (Some r)
               end
      end
  end.

Definition init (nvars : nat) : state := {| hp := []; vars := repeat None nvars |}.

(* what is compared with the implementation after every step, for every variable:
   contents, and for non-empty slices the array identity, offset and capacity *)
Definition view (st : state) (v : var) : list Z * option (aid * nat * nat) :=
  match getv st v with
  | None => ([], None)
  | Some s => (contents (hp st) (Some s),
               if s_len s =? 0 then None else Some (s_arr s, s_off s, scap (hp st) s))
  end.
