(* C06 — executable model M of lists as Go slices: a heap of backing arrays, a slice is
   (array, offset, length), its capacity is what is left of the array.  Operations follow
   pkg/cl/{cons,listx,cdr,nthcdr,member,last,butlast,subseq,copy-list,reverse,append,push,pop,nreverse,
   nconc,sort,delete,delete-if,delete-duplicates,mapcar,rplaca,rplacd,car(Place),nth(Place),elt(Place)}.go and pkg/gi/add.go for
   proper lists of integers, with repo_fixes/C06-1..4 applied.  Go's append writes in
   place when the capacity allows and otherwise allocates an array whose capacity is decided by the
   runtime: that capacity is an input of the operation (observed by the harness), never assumed. *)
From Coq Require Export List Bool Arith ZArith Lia.
Export ListNotations.

Notation aid := nat (only parsing).                 (* array identity *)
Record slice := { s_arr : aid; s_off : nat; s_len : nat }.
Definition heap := list (list Z).                   (* array i = nth i heap; its length is its capacity *)
Notation var := nat (only parsing).
Record state := { hp : heap; vars : list (option slice) }.   (* None = nil *)

Definition arr (h : heap) (a : aid) : list Z := nth a h [].
Definition scap (h : heap) (s : slice) : nat := length (arr h (s_arr s)) - s_off s.
Definition contents (h : heap) (o : option slice) : list Z :=
  match o with None => [] | Some s => firstn (s_len s) (skipn (s_off s) (arr h (s_arr s))) end.
Definition getv (st : state) (v : var) : option slice := nth v (vars st) None.

Fixpoint set_nth {A} (n : nat) (x : A) (l : list A) : list A :=
  match n, l with
  | O, _ :: l' => x :: l'
  | S n', y :: l' => y :: set_nth n' x l'
  | _, [] => []
  end.
(* every operation below except push/pop stores its result through setq, whose EvalArg turns an
   empty list into nil *)
Definition norm (o : option slice) : option slice :=
  match o with Some s => if s_len s =? 0 then None else o | None => None end.
Definition setv_raw (st : state) (v : var) (o : option slice) : state := {| hp := hp st; vars := set_nth v o (vars st) |}.
Definition setv (st : state) (v : var) (o : option slice) : state := setv_raw st v (norm o).
Definition write (h : heap) (a : aid) (i : nat) (x : Z) : heap := set_nth a (set_nth i x (arr h a)) h.

(* a new array holding xs with capacity max(cap, |xs|): the spare cells hold 0 (never observable) *)
Definition alloc (h : heap) (xs : list Z) (cap : nat) : heap * slice :=
  match xs with
  | [] => (h, {| s_arr := length h; s_off := 0; s_len := 0 |})     (* make(List, 0): never observable *)
  | _ => (h ++ [xs ++ repeat 0%Z (cap - length xs)], {| s_arr := length h; s_off := 0; s_len := length xs |})
  end.

(* predicates handed to remove-if / delete-if *)
Inductive pred := PEven | POdd | PLess (k : Z).
Definition holds (p : pred) (z : Z) : bool :=
  match p with PEven => Z.even z | POdd => Z.odd z | PLess k => (z <? k)%Z end.
(* drop the first n elements satisfying p (all of them without a count) *)
Fixpoint remove_n (p : pred) (n : option nat) (l : list Z) : list Z :=
  match l with
  | [] => []
  | x :: l' =>
      if holds p x
      then match n with
           | None => remove_n p None l'
           | Some O => x :: remove_n p n l'
           | Some (S m) => remove_n p (Some m) l'
           end
      else x :: remove_n p n l'
  end.
Definition remove_if (p : pred) (n : option nat) (fromEnd : bool) (l : list Z) : list Z :=
  if fromEnd then rev (remove_n p n (rev l)) else remove_n p n l.

(* remove-duplicates / delete-duplicates (pkg/cl/delete-duplicates.go dupInfo.inList; RemoveDuplicates embeds
   DeleteDuplicates): one scan over the positions, an element outside the window [start, end) is always kept, an
   element inside it is kept when no earlier-scanned element of the window equals it; every scanned element of
   the window is remembered.  inw i = position i lies in the window. *)
Fixpoint dscan (inw : nat -> bool) (seen : list Z) (i : nat) (l : list Z) : list Z :=
  match l with
  | [] => []
  | x :: l' =>
      if inw i
      then (if existsb (Z.eqb x) seen then dscan inw (x :: seen) (S i) l' else x :: dscan inw (x :: seen) (S i) l')
      else x :: dscan inw seen (S i) l'
  end.
(* :from-end t scans from the front (the first occurrence stays), the default scans from the end (the last
   occurrence stays) and reverses what it collected; :end beyond the length (or nil) is the length; no range
   check: a start beyond the end keeps everything *)
Definition remove_dup (fromEnd : bool) (s : nat) (e : option nat) (l : list Z) : list Z :=
  let n := length l in
  let e' := match e with None => n | Some k => Nat.min k n end in
  let inw := fun i => (s <=? i) && (i <? e') in
  if fromEnd then dscan inw [] 0 l else rev (dscan (fun j => inw (n - 1 - j)) [] 0 (rev l)).

Inductive op :=
| OList (xs : list Z) (dst : var)                (* (setq dst (list x...)) *)
| OCons (x : Z) (src dst : var)
| OListStar (xs : list Z) (src dst : var)        (* (setq dst (list* x... src)) *)
| OCdr (src dst : var)
| ONthcdr (n : nat) (src dst : var)
| OMember (x : Z) (src dst : var)                (* (setq dst (member x src)) *)
| OLast (src dst : var)
| OButlast (src dst : var)
| OSubseq (s e : nat) (src dst : var)
| OCopy (src dst : var)
| OReverse (src dst : var)
| OAppend (a b dst : var)
| OAdd (src : var) (x : Z) (dst : var)           (* (setq dst (add src x)) *)
| OPush (x : Z) (v : var)
| OPop (v : var)
| OSetcar (v : var) (x : Z)
| OSetnth (v : var) (i : nat) (x : Z)
| OSetelt (v : var) (i : nat) (x : Z)            (* (setf (elt v i) x) *)
| ORplaca (v : var) (x : Z) (dst : var)          (* (setq dst (rplaca v x)) *)
| ORplacd (v b dst : var)                        (* (setq dst (rplacd v b)) *)
| ONreverse (src dst : var)
| ONconc (a b dst : var)
| OSort (src dst : var)
| ORemove (x : Z) (src dst : var)                (* remove and delete build a new list by appending *)
| OMapcar (k : Z) (src dst : var)                (* (setq dst (mapcar (lambda (el) (+ el k)) src)) *)
| ORemoveIf (p : pred) (cnt : option nat) (fromEnd : bool) (src dst : var)
                                                 (* (setq dst (remove-if / delete-if p src [:count n] [:from-end t])) *)
| ORemoveDup (fromEnd : bool) (s : nat) (e : option nat) (src dst : var).
                                                 (* (setq dst (remove-duplicates / delete-duplicates src [:from-end t] [:start s] [:end e])) *)

(* insertion sort: the result of sorting integers by < is unique *)
Fixpoint insert (x : Z) (l : list Z) : list Z :=
  match l with [] => [x] | y :: l' => if (x <=? y)%Z then x :: l else y :: insert x l' end.
Definition isort (l : list Z) : list Z := fold_right insert [] l.
(* position of the first element equal to x *)
Fixpoint index_of (x : Z) (l : list Z) : option nat :=
  match l with
  | [] => None
  | y :: l' => if Z.eqb x y then Some 0 else match index_of x l' with Some i => Some (S i) | None => None end
  end.

(* overwrite the window of s with xs (|xs| = s_len s) *)
Fixpoint write_all (h : heap) (a : aid) (i : nat) (xs : list Z) : heap :=
  match xs with [] => h | x :: xs' => write_all (write h a i x) a (S i) xs' end.

Definition vcontents (st : state) (w : var) : list Z := contents (hp st) (getv st w).
(* the result is a newly allocated array holding xs (nil when xs is empty) *)
Definition fresh (st : state) (dst : var) (xs : list Z) (cap : nat) : state :=
  let '(h', s) := alloc (hp st) xs cap in setv {| hp := h'; vars := vars st |} dst (Some s).

(* step: cap is the capacity Go chose if the operation allocated a visible array *)
Definition step (st : state) (o : op) (cap : nat) : state :=
  let h := hp st in
  match o with
  | OList xs dst => fresh st dst xs cap
  | OCons x src dst => fresh st dst (x :: vcontents st src) cap              (* append(List{x}, l...) *)
  | OPush x v => fresh st v (x :: vcontents st v) cap
  | OListStar xs src dst =>
      (* one argument: the argument itself; otherwise make(n+1) + copy, the last argument appended *)
      match xs with [] => setv st dst (getv st src) | _ => fresh st dst (xs ++ vcontents st src) cap end
  | OCdr src dst =>
      match getv st src with
      | None => setv st dst None
      | Some s => if s_len s =? 0 then setv st dst None
                  else setv st dst (Some {| s_arr := s_arr s; s_off := S (s_off s); s_len := s_len s - 1 |})
      end
  | ONthcdr n src dst =>
      match getv st src with
      | None => setv st dst None
      | Some s => if s_len s <=? n then setv st dst None
                  else setv st dst (Some {| s_arr := s_arr s; s_off := s_off s + n; s_len := s_len s - n |})
      end
  | OMember x src dst =>                                                       (* list[i:] *)
      match getv st src with
      | None => setv st dst None
      | Some s => match index_of x (contents h (Some s)) with
                  | None => setv st dst None
                  | Some i => setv st dst (Some {| s_arr := s_arr s; s_off := s_off s + i; s_len := s_len s - i |})
                  end
      end
  | OPop v =>
      match getv st v with
      | None => st
      | Some s => if s_len s =? 0 then st
                  else setv_raw st v (Some {| s_arr := s_arr s; s_off := S (s_off s); s_len := s_len s - 1 |})
      end
  | OLast src dst =>
      match getv st src with
      | None => setv st dst None
      | Some s => if s_len s <=? 1 then setv st dst (Some s)
                  else fresh st dst (skipn (s_len s - 1) (contents h (Some s))) cap
      end
  | OButlast src dst =>
      match getv st src with
      | None => setv st dst None
      | Some s => if s_len s <=? 1 then setv st dst None
                  else fresh st dst (firstn (s_len s - 1) (contents h (Some s))) cap
      end
  | OSubseq b e src dst =>                                                     (* make + copy (repo_fixes/C06-2) *)
      match getv st src with
      | None => st                                                             (* nil is not accepted: error *)
      | Some s => if (b <=? e) && (e <=? s_len s)
                  then fresh st dst (firstn (e - b) (skipn b (contents h (Some s)))) cap
                  else st
      end
  | OCopy src dst =>
      match getv st src with
      | None => setv st dst None
      | Some s => fresh st dst (contents h (Some s)) cap
      end
  | OReverse src dst =>
      match getv st src with
      | None => setv st dst None
      | Some s => if s_len s =? 0 then setv st dst (Some s)
                  else fresh st dst (rev (contents h (Some s))) cap
      end
  | OAppend a b dst => fresh st dst (vcontents st a ++ vcontents st b) cap     (* every argument is copied *)
  | OAdd src x dst => fresh st dst (vcontents st src ++ [x]) cap               (* append(l[:len:len], x) (repo_fixes/C06-1) *)
  | OSetcar v x =>
      match getv st v with
      | Some s => if 0 <? s_len s then {| hp := write h (s_arr s) (s_off s) x; vars := vars st |} else st
      | None => st
      end
  | OSetnth v i x | OSetelt v i x =>
      match getv st v with
      | Some s => if i <? s_len s then {| hp := write h (s_arr s) (s_off s + i) x; vars := vars st |} else st
      | None => st
      end
  | ORplaca v x dst =>                                                         (* list[0] = x; return list *)
      match getv st v with
      | Some s => if 0 <? s_len s then setv {| hp := write h (s_arr s) (s_off s) x; vars := vars st |} dst (Some s) else st
      | None => st
      end
  | ORplacd v b dst =>
      (* list = append(list[:1], b...): the new tail is written over the old elements when it fits into
         the capacity, the lengths of the slices held by variables do not change.  A nil b would store
         a dotted pair (outside the modelled domain; never generated): modelled as no change. *)
      match getv st v, getv st b with
      | Some s, Some t =>
          if 0 <? s_len s then
            let cb := contents h (Some t) in
            if 1 + length cb <=? scap h s
            then setv {| hp := write_all h (s_arr s) (S (s_off s)) cb; vars := vars st |} dst
                      (Some {| s_arr := s_arr s; s_off := s_off s; s_len := 1 + length cb |})
            else fresh st dst (firstn 1 (contents h (Some s)) ++ cb) cap
          else st
      | _, _ => st
      end
  | ONreverse src dst =>
      match getv st src with
      | None => setv st dst None
      | Some s => setv {| hp := write_all h (s_arr s) (s_off s) (rev (contents h (Some s))); vars := vars st |} dst (Some s)
      end
  | OSort src dst =>
      match getv st src with
      | None => setv st dst None
      | Some s => setv {| hp := write_all h (s_arr s) (s_off s) (isort (contents h (Some s))); vars := vars st |} dst (Some s)
      end
  | ORemove x src dst => fresh st dst (filter (fun y => negb (Z.eqb x y)) (vcontents st src)) cap
  | OMapcar k src dst => fresh st dst (map (fun y => (y + k)%Z) (vcontents st src)) cap     (* make(len) *)
  | ORemoveIf p n fe src dst =>
      (* pkg/cl/delete-if.go inList (RemoveIf embeds DeleteIf): the kept elements are appended to a nil list,
         from the end and reversed in that new list with :from-end; nil argument: nil *)
      fresh st dst (remove_if p n fe (vcontents st src)) cap
  | ORemoveDup fe s e src dst =>
      (* pkg/cl/delete-duplicates.go inList: in BOTH directions the kept elements are appended to a nil list (a
         new array; the argument's array is only read), the default direction reverses that new list in place;
         nil argument: nil *)
      fresh st dst (remove_dup fe s e (vcontents st src)) cap
  | ONconc a b dst =>
      (* an empty argument is skipped; otherwise append(a[:len:len], b...) (repo_fixes/C06-3) *)
      match vcontents st a, vcontents st b with
      | [], [] => setv st dst None
      | [], _ => setv st dst (getv st b)
      | _, [] => setv st dst (getv st a)
      | ca, cb => fresh st dst (ca ++ cb) cap
      end
  end.

Definition init (nvars : nat) : state := {| hp := []; vars := repeat None nvars |}.

(* what is compared with the implementation after every step, for every variable:
   contents, and for non-empty slices the array identity, offset and capacity *)
Definition view (st : state) (v : var) : list Z * option (aid * nat * nat) :=
  match getv st v with
  | None => ([], None)
  | Some s => (contents (hp st) (Some s),
               if s_len s =? 0 then None else Some (s_arr s, s_off s, scap (hp st) s))
  end.

(* ================= mapping a list constructor over several lists =================
   mapcar and (map 'list ...) with two or more lists (pkg/cl/mapcar.go, map.go; the same idiom in mapc, mapcan,
   maplist, mapl, mapcon, map-into) allocate ONE argument buffer `ca`, refill it for every step and hand it to
   the function as its args slice.  A function that returns a list must therefore not return (a re-slice of,
   or an in-place extension of) its args: list (pkg/cl/list.go) and list* (pkg/cl/listx.go) make + copy, cons
   (pkg/cl/cons.go) builds a new slice.  Arrays here hold objects: the buffer holds list elements, which are
   integers, nil, or lists (the elements of the last mapped list may be lists: list* and cons splice them). *)
Inductive obj := ONil | OInt (z : Z) | ORef (s : slice) | OTail (z : Z).     (* OTail: the dotted-tail marker *)
Definition oheap := list (list obj).
Definition oarr (h : oheap) (a : aid) : list obj := nth a h [].
Definition ocontents (h : oheap) (s : slice) : list obj := firstn (s_len s) (skipn (s_off s) (oarr h (s_arr s))).
Definition owrite (h : oheap) (a : aid) (i : nat) (x : obj) : oheap := set_nth a (set_nth i x (oarr h a)) h.
Fixpoint owrite_all (h : oheap) (a : aid) (i : nat) (xs : list obj) : oheap :=
  match xs with [] => h | x :: xs' => owrite_all (owrite h a i x) a (S i) xs' end.
Inductive mfun := FList | FListStar | FCons.

(* the array a call leaves its result on and the length of the result: None = the call signals an error.
   list: make(n) + copy.  list* (n >= 2): make(n) + copy, then the last slot is dropped (nil), overwritten by
   the tail marker (an atom), or the last list is appended behind the first n-1 elements: inside the new
   array when it has at most one element, else in a larger one.  cons: List{x}, append(List{x}, l...) or
   List{x, Tail{y}}.  In every case the array is a new one. *)
Definition row_of (F : mfun) (h : oheap) (xs : list obj) : option (list obj * nat) :=
  let n := length xs in
  let front := firstn (n - 1) xs in
  let splice (last : obj) (room : nat) : option (list obj * nat) :=
    match last with
    | ONil => Some (front ++ repeat ONil room, n - 1)
    | ORef t => let ys := ocontents h t in Some (front ++ ys ++ repeat ONil (room - length ys), n - 1 + length ys)
    | OInt z => Some (front ++ [OTail z], n)
    | OTail _ => None
    end in
  match F with
  | FList => Some (xs, n)
  | FListStar => if n <=? 1 then None else splice (nth (n - 1) xs ONil) 1
  | FCons => if n =? 2 then splice (nth 1 xs ONil) 0 else None
  end.
Definition f_call (F : mfun) (h : oheap) (args : slice) : oheap * obj :=
  match row_of F h (ocontents h args) with
  | Some (a, len) => (h ++ [a], ORef {| s_arr := length h; s_off := 0; s_len := len |})
  | None => (h, ONil)
  end.
(* step j .. : refill the buffer with the j-th elements, call *)
Fixpoint map_steps (F : mfun) (h : oheap) (buf : slice) (cols : list (list obj)) (n j : nat) : oheap * list obj :=
  match n with
  | O => (h, [])
  | S n' =>
      let h1 := owrite_all h (s_arr buf) 0 (map (fun col => nth j col ONil) cols) in
      let '(h2, r) := f_call F h1 buf in
      let '(h3, rs) := map_steps F h2 buf cols n' (S j) in (h3, r :: rs)
  end.
Definition min_len (cols : list (list obj)) : nat :=
  match cols with [] => 0 | c :: cs => fold_left (fun m x => Nat.min m (length x)) cs (length c) end.
Definition map_run (F : mfun) (h0 : oheap) (cols : list (list obj)) : oheap * slice * list obj :=
  let k := length cols in
  let buf := {| s_arr := length h0; s_off := 0; s_len := k |} in
  let '(h, rs) := map_steps F (h0 ++ [repeat ONil k]) buf cols (min_len cols) 0 in (h, buf, rs).
(* (setf (car (nth j rows)) v) *)
Definition row_setcar (h : oheap) (rows : list obj) (j : nat) (v : Z) : oheap :=
  match nth j rows ONil with
  | ORef s => if 0 <? s_len s then owrite h (s_arr s) (s_off s) (OInt v) else h
  | _ => h
  end.
(* the inner lists of the last mapped list: one array each (nil for the empty ones) *)
Fixpoint mk_inner (h : oheap) (ll : list (list Z)) : oheap * list obj :=
  match ll with
  | [] => (h, [])
  | l :: ll' =>
      match l with
      | [] => let '(h', os) := mk_inner h ll' in (h', ONil :: os)
      | _ => let '(h', os) := mk_inner (h ++ [map OInt l]) ll' in
             (h', ORef {| s_arr := length h; s_off := 0; s_len := length l |} :: os)
      end
  end.
(* what is compared: a row's elements, whether it is dotted, its array and its offset *)
Fixpoint canon (xs : list obj) : option (list Z * bool) :=
  match xs with
  | [] => Some ([], false)
  | [OTail z] => Some ([z], true)
  | OInt z :: xs' => match canon xs' with Some (zs, d) => Some (z :: zs, d) | None => None end
  | _ => None
  end.
Definition row_view (h : oheap) (r : obj) : option (list Z * bool * nat * nat) :=
  match r with
  | ORef s => match canon (ocontents h s) with Some (zs, d) => Some (zs, d, s_arr s, s_off s) | None => None end
  | _ => None
  end.
