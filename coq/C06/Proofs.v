(* C06 — proofs about the slice model: which variables an operation can change. *)
From C06 Require Import Model Spec.

(* ---------- lists and heaps ---------- *)
Lemma nth_set_nth_same {A} (l : list A) n x d : n < length l -> nth n (set_nth n x l) d = x.
Proof. revert n; induction l as [|y l IH]; intros [|n] H; cbn in *; try lia; [reflexivity|apply IH; lia]. Qed.
Lemma nth_set_nth_other {A} (l : list A) n m x d : n <> m -> nth m (set_nth n x l) d = nth m l d.
Proof.
  revert n m; induction l as [|y l IH]; intros [|n] [|m] H; cbn; try reflexivity; try congruence.
  apply IH; congruence.
Qed.
Lemma length_set_nth {A} (l : list A) n x : length (set_nth n x l) = length l.
Proof. revert n; induction l as [|y l IH]; intros [|n]; cbn; try reflexivity. f_equal; apply IH. Qed.

Lemma arr_write_other h a i x a' : a' <> a -> arr (write h a i x) a' = arr h a'.
Proof. intros H. unfold arr, write. apply nth_set_nth_other. congruence. Qed.
Lemma arr_write_same h a i x : a < length h -> arr (write h a i x) a = set_nth i x (arr h a).
Proof. intros H. unfold arr, write. apply nth_set_nth_same, H. Qed.
Lemma length_write h a i x : length (write h a i x) = length h.
Proof. apply length_set_nth. Qed.
Lemma length_arr_write h a i x a' : length (arr (write h a i x) a') = length (arr h a').
Proof.
  destruct (Nat.eq_dec a' a) as [->|Hn]; [|rewrite arr_write_other by exact Hn; reflexivity].
  destruct (Nat.lt_ge_cases a (length h)) as [Hl|Hl].
  - rewrite arr_write_same by exact Hl. apply length_set_nth.
  - unfold arr, write. rewrite !nth_overflow; try reflexivity; rewrite ?length_set_nth; lia.
Qed.

Lemma arr_write_all_other xs : forall h a i a', a' <> a -> arr (write_all h a i xs) a' = arr h a'.
Proof. induction xs as [|x xs IH]; intros h a i a' H; cbn [write_all]; [reflexivity|]. rewrite IH by exact H. apply arr_write_other, H. Qed.
Lemma length_write_all xs : forall h a i, length (write_all h a i xs) = length h.
Proof. induction xs as [|x xs IH]; intros h a i; cbn [write_all]; [reflexivity|]. rewrite IH. apply length_write. Qed.
Lemma length_arr_write_all xs : forall h a i a', length (arr (write_all h a i xs) a') = length (arr h a').
Proof. induction xs as [|x xs IH]; intros h a i a'; cbn [write_all]; [reflexivity|]. rewrite IH. apply length_arr_write. Qed.

Lemma arr_app_old h extra a : a < length h -> arr (h ++ extra) a = arr h a.
Proof. intros H. unfold arr. apply app_nth1, H. Qed.

(* contents only depend on the slice's own array *)
Lemma contents_same_arr h1 h2 s : arr h1 (s_arr s) = arr h2 (s_arr s) -> contents h1 (Some s) = contents h2 (Some s).
Proof. cbn. intros ->. reflexivity. Qed.

(* ---------- variables ---------- *)
Lemma getv_setv_raw_other st d o w : w <> d -> getv (setv_raw st d o) w = getv st w.
Proof. intros H. unfold getv, setv_raw; cbn. apply nth_set_nth_other. congruence. Qed.
Lemma getv_setv_other st d o w : w <> d -> getv (setv st d o) w = getv st w.
Proof. apply getv_setv_raw_other. Qed.
Lemma hp_setv st d o : hp (setv st d o) = hp st.
Proof. reflexivity. Qed.

Definition vcontents (st : state) (w : var) : list Z := contents (hp st) (getv st w).

(* a variable whose slice is on an array the operation did not write keeps its contents *)
Definition wf_var (st : state) (w : var) : Prop :=
  match getv st w with Some s => s_len s = 0 \/ s_arr s < length (hp st) | None => True end.

(* ---------- F1: operations that are not destructive change no other variable (every state) ---------- *)
Definition nondestructive (o : op) : bool :=
  match o with
  | OList _ _ | OCons _ _ _ | OCdr _ _ | ONthcdr _ _ _ | OLast _ _ | OButlast _ _ | OSubseq _ _ _ _ | OCopy _ _
  | OReverse _ _ | OAppend _ _ _ | OPush _ _ | OPop _ | ORemove _ _ _ => true
  | _ => false
  end.

Lemma contents_alloc_old h xs cap o :
  (match o with Some s => s_len s = 0 \/ s_arr s < length h | None => True end) ->
  contents (fst (alloc h xs cap)) o = contents h o.
Proof.
  intros H. destruct o as [s|]; [|reflexivity]. unfold alloc. destruct xs as [|x xs]; [reflexivity|]. cbn [fst].
  destruct H as [H|H].
  - cbn. rewrite H. reflexivity.
  - apply contents_same_arr. apply arr_app_old, H.
Qed.

Ltac frame_alloc Hw Hd :=
  match goal with
  | |- context [alloc ?h ?xs ?cap] =>
      let E := fresh in
      pose proof (contents_alloc_old h xs cap) as E; destruct (alloc h xs cap) as [h' r] eqn:Ea; cbn [fst] in E;
      unfold vcontents; rewrite getv_setv_other by exact Hd; cbn [hp setv setv_raw getv vars] in *;
      apply E; exact Hw
  end.

Theorem nondestructive_frame st o cap w :
  nondestructive o = true -> w <> dst_of o -> wf_var st w -> vcontents (step st o cap) w = vcontents st w.
Proof.
  intros Hn Hd Hw. unfold wf_var in Hw.
  destruct o; try discriminate Hn; cbn [dst_of] in Hd; cbn [step].
  - (* list *) destruct xs; [unfold vcontents; rewrite getv_setv_other by exact Hd; reflexivity|]. frame_alloc Hw Hd.
  - frame_alloc Hw Hd.
  - (* cdr *) destruct (getv st src) as [s|]; [destruct (s_len s =? 0)|]; unfold vcontents; rewrite getv_setv_other by exact Hd; reflexivity.
  - destruct (getv st src) as [s|]; [destruct (s_len s <=? n)|]; unfold vcontents; rewrite getv_setv_other by exact Hd; reflexivity.
  - (* last *) destruct (getv st src) as [s|]; [destruct (s_len s <=? 1)|]; try (unfold vcontents; rewrite getv_setv_other by exact Hd; reflexivity). frame_alloc Hw Hd.
  - destruct (getv st src) as [s|]; [destruct (s_len s <=? 1)|]; try (unfold vcontents; rewrite getv_setv_other by exact Hd; reflexivity). frame_alloc Hw Hd.
  - (* subseq *) destruct (getv st src) as [s0|]; [destruct ((s <=? e) && (e <=? s_len s0))|]; try reflexivity.
    unfold vcontents; rewrite getv_setv_other by exact Hd; reflexivity.
  - destruct (getv st src) as [s|]; [|unfold vcontents; rewrite getv_setv_other by exact Hd; reflexivity]. frame_alloc Hw Hd.
  - destruct (getv st src) as [s|]; [destruct (s_len s =? 0)|]; try (unfold vcontents; rewrite getv_setv_other by exact Hd; reflexivity). frame_alloc Hw Hd.
  - (* append *) destruct (contents (hp st) (getv st a)), (contents (hp st) (getv st b));
      try (unfold vcontents; rewrite getv_setv_other by exact Hd; reflexivity); frame_alloc Hw Hd.
  - frame_alloc Hw Hd.
  - (* pop *) destruct (getv st v) as [s|]; [destruct (s_len s =? 0)|]; try reflexivity.
    unfold vcontents. rewrite getv_setv_raw_other by exact Hd. reflexivity.
  - (* remove *) frame_alloc Hw Hd.
Qed.

(* ---------- F2: a destructive operation on v changes another variable only if that variable's
   slice lies on the same backing array as v's (every state) ---------- *)
Lemma frame_write_all st a i xs w t :
  getv st w = Some t -> s_arr t <> a ->
  contents (write_all (hp st) a i xs) (Some t) = contents (hp st) (Some t).
Proof. intros _ Hn. apply contents_same_arr. apply arr_write_all_other, Hn. Qed.
Lemma frame_write st a i x t : s_arr t <> a -> contents (write (hp st) a i x) (Some t) = contents (hp st) (Some t).
Proof. intros Hn. apply contents_same_arr. apply arr_write_other, Hn. Qed.

Lemma getv_mk st h w : getv {| hp := h; vars := vars st |} w = getv st w.
Proof. reflexivity. Qed.
Ltac frame_inplace Hd Hw Hna :=
  unfold vcontents; rewrite ?getv_setv_other by exact Hd; rewrite ?hp_setv; cbn [hp]; rewrite getv_mk, Hw;
  first [apply frame_write; exact Hna | apply contents_same_arr; apply arr_write_all_other; exact Hna].

Theorem destructive_frame st o cap v s w t :
  destructive_on o = Some v -> getv st v = Some s ->
  w <> dst_of o -> getv st w = Some t -> (s_len t = 0 \/ s_arr t < length (hp st)) ->
  s_arr t <> s_arr s ->
  vcontents (step st o cap) w = vcontents st w.
Proof.
  intros Hdes Hv Hd Hw Hwf Hna.
  assert (Hw' : match getv st w with Some s0 => s_len s0 = 0 \/ s_arr s0 < length (hp st) | None => True end) by (rewrite Hw; exact Hwf).
  destruct o; try discriminate Hdes; cbn [destructive_on] in Hdes; injection Hdes as ->; cbn [dst_of] in Hd; cbn [step]; rewrite Hv.
  - (* add *)
    destruct (s_len s <? scap (hp st) s).
    + frame_inplace Hd Hw Hna.
    + frame_alloc Hw' Hd.
  - (* setf car *)
    destruct (0 <? s_len s); [|reflexivity]. frame_inplace Hd Hw Hna.
  - (* setf nth *)
    destruct (i <? s_len s); [|reflexivity]. frame_inplace Hd Hw Hna.
  - (* nreverse *)
    frame_inplace Hd Hw Hna.
  - (* nconc *)
    destruct (s_len s =? 0); [unfold vcontents; rewrite getv_setv_other by exact Hd; reflexivity|].
    destruct (contents (hp st) (getv st b)) as [|z cb] eqn:Eb; [unfold vcontents; rewrite getv_setv_other by exact Hd; reflexivity|].
    destruct (s_len s + length (z :: cb) <=? scap (hp st) s).
    + frame_inplace Hd Hw Hna.
    + frame_alloc Hw' Hd.
  - (* sort *)
    frame_inplace Hd Hw Hna.
Qed.

(* ---------- F3: the invariant "slices on one array are tails of one another" ---------- *)
Definition wf_slice (h : heap) (s : slice) : Prop := s_arr s < length h /\ s_off s + s_len s <= length (arr h (s_arr s)).
Definition Inv (nv : nat) (st : state) : Prop :=
  length (vars st) = nv /\
  forall v s, live st v = Some s ->
    wf_slice (hp st) s /\
    forall w t, live st w = Some t -> s_arr t = s_arr s -> s_off t + s_len t = s_off s + s_len s.

Lemma live_norm st w : live st w = norm (getv st w).
Proof. unfold live, norm. destruct (getv st w) as [s|]; [destruct (s_len s =? 0)|]; reflexivity. Qed.
Lemma norm_idem o : norm (norm o) = norm o.
Proof. destruct o as [s|]; cbn; [|reflexivity]. destruct (s_len s =? 0) eqn:E; cbn; [reflexivity|rewrite E; reflexivity]. Qed.
Lemma norm_some o s : norm o = Some s -> o = Some s /\ s_len s <> 0.
Proof. destruct o as [t|]; cbn; [|discriminate]. destruct (s_len t =? 0) eqn:E; [discriminate|]. intros H; injection H as <-. apply Nat.eqb_neq in E. auto. Qed.

Definition upd (st : state) (h' : heap) (d : var) (o : option slice) : state := {| hp := h'; vars := set_nth d o (vars st) |}.
Lemma live_upd st h' d o w : d < length (vars st) ->
  live (upd st h' d o) w = if Nat.eqb w d then norm o else live st w.
Proof.
  intros Hd. rewrite !live_norm. unfold upd, getv; cbn [vars]. destruct (Nat.eqb_spec w d) as [->|Hn].
  - rewrite nth_set_nth_same by exact Hd. reflexivity.
  - rewrite nth_set_nth_other by congruence. reflexivity.
Qed.

Definition heap_grows (h h' : heap) : Prop :=
  length h <= length h' /\ forall a, length (arr h a) <= length (arr h' a).

Lemma inv_upd nv st h' d o :
  Inv nv st -> d < nv -> heap_grows (hp st) h' ->
  (forall t, norm o = Some t ->
     wf_slice h' t /\ forall w s, w <> d -> live st w = Some s -> s_arr s = s_arr t -> s_off s + s_len s = s_off t + s_len t) ->
  Inv nv (upd st h' d o).
Proof.
  intros [Hl HI] Hd [Hg1 Hg2] Hnew. split; [cbn; rewrite length_set_nth; exact Hl|].
  assert (Hdl : d < length (vars st)) by lia.
  intros v s Hv. rewrite live_upd in Hv by exact Hdl. cbn [hp upd].
  assert (Hold : forall u x, live st u = Some x -> wf_slice h' x).
  { intros u x Hu. destruct (HI u x Hu) as [[W1 W2] _]. split; [lia|]. specialize (Hg2 (s_arr x)). lia. }
  destruct (Nat.eqb_spec v d) as [->|Hvd].
  - destruct (Hnew s Hv) as [Hwf Hsame]. split; [exact Hwf|].
    intros w t Hw Ha. rewrite live_upd in Hw by exact Hdl. destruct (Nat.eqb_spec w d) as [->|Hwd].
    + rewrite Hv in Hw. injection Hw as <-. reflexivity.
    + apply (Hsame w t Hwd Hw Ha).
  - split; [apply (Hold v s Hv)|].
    intros w t Hw Ha. rewrite live_upd in Hw by exact Hdl. destruct (Nat.eqb_spec w d) as [->|Hwd].
    + destruct (Hnew t Hw) as [_ Hsame]. symmetry. apply (Hsame v s Hvd Hv). congruence.
    + destruct (HI v s Hv) as [_ H]. apply (H w t Hw Ha).
Qed.

Lemma heap_grows_refl h : heap_grows h h.
Proof. split; [lia|intros; lia]. Qed.
Lemma heap_grows_app h x : heap_grows h (h ++ [x]).
Proof.
  split; [rewrite app_length; lia|]. intros a. destruct (Nat.lt_ge_cases a (length h)) as [H|H].
  - rewrite arr_app_old by exact H. lia.
  - unfold arr at 1. rewrite nth_overflow by exact H. cbn. lia.
Qed.
Lemma heap_grows_write h a i x : heap_grows h (write h a i x).
Proof. split; [rewrite length_write; lia|]. intros a'. rewrite length_arr_write. lia. Qed.
Lemma heap_grows_write_all h a i xs : heap_grows h (write_all h a i xs).
Proof. split; [rewrite length_write_all; lia|]. intros a'. rewrite length_arr_write_all. lia. Qed.

(* a freshly allocated slice: nobody else is on its array *)
Lemma alloc_spec h xs cap h' r : alloc h xs cap = (h', r) -> xs <> [] ->
  h' = h ++ [xs ++ repeat 0%Z (cap - length xs)] /\ r = {| s_arr := length h; s_off := 0; s_len := length xs |}.
Proof. unfold alloc. destruct xs; [congruence|]. intros H _. injection H as <- <-. auto. Qed.

Lemma inv_fresh nv st d xs cap h' r :
  Inv nv st -> d < nv -> alloc (hp st) xs cap = (h', r) ->
  Inv nv (upd st h' d (norm (Some r))).
Proof.
  intros HI Hd Ha. destruct xs as [|x xs].
  - (* make(List, 0): nil *)
    unfold alloc in Ha. injection Ha as <- <-. cbn [norm s_len Nat.eqb].
    apply inv_upd; [exact HI|exact Hd|apply heap_grows_refl|]. intros t H. discriminate.
  - destruct (alloc_spec _ _ _ _ _ Ha) as [-> ->]; [discriminate|].
    apply inv_upd; [exact HI|exact Hd|apply heap_grows_app|].
    intros t Ht. rewrite norm_idem in Ht. apply norm_some in Ht as [Ht _]. injection Ht as <-. cbn [s_arr s_off s_len]. split.
    + split; [cbn [s_arr]; rewrite app_length; cbn; lia|]. unfold arr. cbn [s_arr s_off s_len]. rewrite nth_middle. rewrite app_length. cbn [length]. lia.
    + intros w s _ Hw Hs. destruct HI as [_ HI]. destruct (HI w s Hw) as [[W _] _]. lia.
Qed.

(* a slice that ends where an existing live slice on the same array ends *)
Lemma inv_reslice nv st d o s0 v0 :
  Inv nv st -> d < nv -> live st v0 = Some s0 ->
  (forall t, norm o = Some t -> s_arr t = s_arr s0 /\ s_off t + s_len t = s_off s0 + s_len s0) ->
  Inv nv (upd st (hp st) d o).
Proof.
  intros HI Hd H0 Ht. apply inv_upd; [exact HI|exact Hd|apply heap_grows_refl|].
  intros t Hn. destruct (Ht t Hn) as [Ea Ee]. destruct HI as [_ HI]. destruct (HI v0 s0 H0) as [[W1 W2] Hs]. split.
  - split; [rewrite Ea; exact W1|rewrite Ea, Ee; exact W2].
  - intros w s _ Hw Hsa. rewrite Ee. apply (Hs w s Hw). congruence.
Qed.

Lemma inv_none nv st d : Inv nv st -> d < nv -> Inv nv (upd st (hp st) d None).
Proof. intros HI Hd. apply inv_upd; [exact HI|exact Hd|apply heap_grows_refl|]. intros t H; discriminate. Qed.

(* writes inside existing arrays do not disturb the invariant (it speaks about slice headers) *)
Lemma inv_heap nv st h' : Inv nv st -> heap_grows (hp st) h' -> Inv nv {| hp := h'; vars := vars st |}.
Proof.
  intros [Hl HI] [G1 G2]. split; [exact Hl|]. intros v s Hv. change (live {| hp := h'; vars := vars st |} v) with (live st v) in Hv.
  destruct (HI v s Hv) as [[W1 W2] Hs]. split; [split; cbn [hp]; [clear - W1 G1; lia|specialize (G2 (s_arr s)); clear - W2 G2; lia]|].
  intros w t Hw. apply (Hs w t). exact Hw.
Qed.

Lemma setv_upd st h' d o : setv {| hp := h'; vars := vars st |} d o = upd st h' d (norm o).
Proof. reflexivity. Qed.
Lemma setv_upd0 st d o : setv st d o = upd st (hp st) d (norm o).
Proof. reflexivity. Qed.
Lemma setv_raw_upd st d o : setv_raw st d o = upd st (hp st) d o.
Proof. reflexivity. Qed.

Lemma contents_length h s : wf_slice h s -> length (contents h (Some s)) = s_len s.
Proof. intros [_ W]. cbn. rewrite firstn_length, skipn_length. lia. Qed.
Lemma live_some st v s : live st v = Some s -> getv st v = Some s /\ s_len s <> 0.
Proof. rewrite live_norm. apply norm_some. Qed.
Lemma live_of_getv st v s : getv st v = Some s -> s_len s <> 0 -> live st v = Some s.
Proof. intros H Hn. rewrite live_norm, H. cbn. apply Nat.eqb_neq in Hn. rewrite Hn. reflexivity. Qed.

Definition op_vars_ok (nv : nat) (o : op) : Prop :=
  dst_of o < nv.

Lemma alone_spec nv st v a : alone_on_array nv st v a = true -> length (vars st) = nv ->
  forall w t, w <> v -> live st w = Some t -> s_arr t <> a.
Proof.
  unfold alone_on_array. rewrite forallb_forall. intros H Hl w t Hw Hlive.
  destruct (Nat.lt_ge_cases w nv) as [Hlt|Hge].
  - specialize (H w). rewrite in_seq in H. specialize (H ltac:(lia)).
    apply orb_true_iff in H as [H|H]; [apply Nat.eqb_eq in H; congruence|]. rewrite Hlive in H.
    apply negb_true_iff, Nat.eqb_neq in H. exact H.
  - exfalso. rewrite live_norm in Hlive. unfold getv in Hlive. rewrite nth_overflow in Hlive by lia. discriminate.
Qed.

(* in-place extension of the only slice on its array *)
Lemma inv_extend nv st h' d s k :
  Inv nv st -> d < nv -> heap_grows (hp st) h' -> live st d = Some s \/ (getv st d = Some s /\ True) ->
  getv st d = Some s -> s_arr s < length (hp st) -> s_off s + s_len s + k <= length (arr (hp st) (s_arr s)) ->
  (forall w t, w <> d -> live st w = Some t -> s_arr t <> s_arr s) ->
  Inv nv (upd st h' d (norm (Some {| s_arr := s_arr s; s_off := s_off s; s_len := s_len s + k |}))).
Proof.
  intros HI Hd Hg _ Hget Ha Hcap Halone. apply inv_upd; [exact HI|exact Hd|exact Hg|].
  intros t Ht. rewrite norm_idem in Ht. apply norm_some in Ht as [Ht _]. injection Ht as <-. cbn [s_arr s_off s_len].
  destruct Hg as [G1 G2]. split.
  - split; cbn [s_arr s_off s_len]; [clear - Ha G1; lia|specialize (G2 (s_arr s)); clear - Hcap G2; lia].
  - intros w t Hw Hlive Hsame. exfalso. apply (Halone w t Hw Hlive Hsame).
Qed.

Theorem inv_step nv st o cap :
  Inv nv st -> op_vars_ok nv o -> g_step nv st o = true -> Inv nv (step st o cap).
Proof.
  intros HI Hd Hg. unfold op_vars_ok in Hd. pose proof HI as [Hlen HI'].
  destruct o; cbn [dst_of] in Hd; cbn [step].
  - (* list *) destruct xs as [|x xs]; [rewrite setv_upd0; apply inv_none; assumption|].
    destruct (alloc (hp st) (x :: xs) cap) as [h' r] eqn:Ea. rewrite setv_upd. eapply inv_fresh; eassumption.
  - (* cons *) destruct (alloc (hp st) _ cap) as [h' r] eqn:Ea. rewrite setv_upd. eapply inv_fresh; eassumption.
  - (* cdr *)
    destruct (getv st src) as [s|] eqn:Es; [|rewrite setv_upd0; apply inv_none; assumption].
    destruct (s_len s =? 0) eqn:El; [rewrite setv_upd0; apply inv_none; assumption|]. apply Nat.eqb_neq in El.
    rewrite setv_upd0. eapply (inv_reslice nv st dst _ s src); [exact HI|exact Hd|apply live_of_getv; assumption|].
    intros t Ht. apply norm_some in Ht as [Ht _]. apply norm_some in Ht as [Ht _]. injection Ht as <-. cbn. split; [reflexivity|lia].
  - (* nthcdr *)
    destruct (getv st src) as [s|] eqn:Es; [|rewrite setv_upd0; apply inv_none; assumption].
    destruct (s_len s <=? n) eqn:El; [rewrite setv_upd0; apply inv_none; assumption|]. apply Nat.leb_gt in El.
    rewrite setv_upd0. eapply (inv_reslice nv st dst _ s src); [exact HI|exact Hd|apply live_of_getv; [assumption|lia]|].
    intros t Ht. apply norm_some in Ht as [Ht _]. apply norm_some in Ht as [Ht _]. injection Ht as <-. cbn. split; [reflexivity|lia].
  - (* last *)
    destruct (getv st src) as [s|] eqn:Es; [|rewrite setv_upd0; apply inv_none; assumption].
    destruct (s_len s <=? 1).
    + rewrite setv_upd0. destruct (Nat.eq_dec (s_len s) 0) as [E0|E0].
      * cbn [norm]. apply Nat.eqb_eq in E0. rewrite E0. apply inv_none; assumption.
      * eapply (inv_reslice nv st dst _ s src); [exact HI|exact Hd|apply live_of_getv; assumption|].
        intros t Ht. apply norm_some in Ht as [Ht _]. apply norm_some in Ht as [Ht _]. injection Ht as <-. auto.
    + destruct (alloc (hp st) _ cap) as [h' r] eqn:Ea. rewrite setv_upd. eapply inv_fresh; eassumption.
  - (* butlast *)
    destruct (getv st src) as [s|] eqn:Es; [|rewrite setv_upd0; apply inv_none; assumption].
    destruct (s_len s <=? 1); [rewrite setv_upd0; apply inv_none; assumption|].
    destruct (alloc (hp st) _ cap) as [h' r] eqn:Ea. rewrite setv_upd. eapply inv_fresh; eassumption.
  - (* subseq: outside the guard *) discriminate Hg.
  - (* copy-list *)
    destruct (getv st src) as [s|] eqn:Es; [|rewrite setv_upd0; apply inv_none; assumption].
    destruct (alloc (hp st) _ cap) as [h' r] eqn:Ea. rewrite setv_upd. eapply inv_fresh; eassumption.
  - (* reverse *)
    destruct (getv st src) as [s|] eqn:Es; [|rewrite setv_upd0; apply inv_none; assumption].
    destruct (s_len s =? 0) eqn:El.
    + rewrite setv_upd0. cbn [norm]. rewrite El. apply inv_none; assumption.
    + destruct (alloc (hp st) _ cap) as [h' r] eqn:Ea. rewrite setv_upd. eapply inv_fresh; eassumption.
  - (* append *)
    destruct (contents (hp st) (getv st a)) as [|x ca] eqn:Ea0, (contents (hp st) (getv st b)) as [|y cb] eqn:Eb0;
      try (destruct (alloc (hp st) _ cap) as [h' r] eqn:Ea; rewrite setv_upd; eapply inv_fresh; eassumption).
    (* both empty: under the invariant neither is a live slice *)
    rewrite setv_upd0.
    assert (Hdead : forall v, contents (hp st) (getv st v) = [] -> norm (getv st v) = None).
    { intros v Hc. destruct (norm (getv st v)) as [s|] eqn:En; [|reflexivity]. exfalso.
      rewrite <- live_norm in En. destruct (HI' v s En) as [W _]. apply live_some in En as [Eg Hn].
      rewrite Eg in Hc. apply (f_equal (@length Z)) in Hc. rewrite (contents_length _ _ W) in Hc. cbn in Hc. lia. }
    replace (norm match getv st a with Some s => Some s | None => getv st b end) with (@None slice).
    + apply inv_none; assumption.
    + symmetry. destruct (getv st a) as [s|] eqn:Ega; [rewrite <- Ega; apply Hdead; rewrite Ega; exact Ea0|apply Hdead, Eb0].
  - (* add *)
    cbn [g_step] in Hg. destruct (getv st src) as [s|] eqn:Es.
    + destruct (s_len s <? scap (hp st) s) eqn:Ecap.
      * apply andb_true_iff in Hg as [Heq Halone]. apply Nat.eqb_eq in Heq. subst dst.
        rewrite setv_upd. replace (S (s_len s)) with (s_len s + 1) by lia.
        apply Nat.ltb_lt in Ecap. unfold scap in Ecap.
        assert (Ha : s_arr s < length (hp st)).
        { destruct (Nat.lt_ge_cases (s_arr s) (length (hp st))) as [H|H]; [exact H|]. unfold arr in Ecap. rewrite nth_overflow in Ecap by exact H. cbn in Ecap. lia. }
        apply (inv_extend nv st _ src s 1); try assumption; try (right; auto).
        -- apply heap_grows_write.
        -- lia.
        -- apply (alone_spec nv st src (s_arr s) Halone Hlen).
      * destruct (alloc (hp st) _ cap) as [h' r] eqn:Ea. rewrite setv_upd. eapply inv_fresh; eassumption.
    + destruct (alloc (hp st) _ cap) as [h' r] eqn:Ea. rewrite setv_upd. eapply inv_fresh; eassumption.
  - (* push *) destruct (alloc (hp st) _ cap) as [h' r] eqn:Ea. rewrite setv_upd. eapply inv_fresh; eassumption.
  - (* pop *)
    destruct (getv st v) as [s|] eqn:Es; [|exact HI].
    destruct (s_len s =? 0) eqn:El; [exact HI|]. apply Nat.eqb_neq in El.
    rewrite setv_raw_upd. eapply (inv_reslice nv st v _ s v); [exact HI|exact Hd|apply live_of_getv; assumption|].
    intros t Ht. apply norm_some in Ht as [Ht _]. injection Ht as <-. cbn. split; [reflexivity|lia].
  - (* setf car *)
    destruct (getv st v) as [s|]; [|exact HI]. destruct (0 <? s_len s); [|exact HI]. apply inv_heap; [exact HI|apply heap_grows_write].
  - (* setf nth *)
    destruct (getv st v) as [s|]; [|exact HI]. destruct (i <? s_len s); [|exact HI]. apply inv_heap; [exact HI|apply heap_grows_write].
  - (* nreverse *)
    destruct (getv st src) as [s|] eqn:Es; [|rewrite setv_upd0; apply inv_none; assumption].
    rewrite setv_upd.
    assert (HI2 : Inv nv {| hp := write_all (hp st) (s_arr s) (s_off s) (rev (contents (hp st) (Some s))); vars := vars st |})
      by (apply inv_heap; [exact HI|apply heap_grows_write_all]).
    destruct (Nat.eq_dec (s_len s) 0) as [E0|E0].
    * cbn [norm]. apply Nat.eqb_eq in E0. rewrite E0. apply (inv_none nv _ dst HI2 Hd).
    * apply (inv_reslice nv _ dst _ s src HI2 Hd); [apply live_of_getv; assumption|].
      intros t Ht. apply norm_some in Ht as [Ht _]. apply norm_some in Ht as [Ht _]. injection Ht as <-. auto.
  - (* nconc *)
    cbn [g_step] in Hg.
    assert (Hb : Inv nv (upd st (hp st) dst
                           (norm match contents (hp st) (getv st b) with [] => None | _ :: _ => getv st b end))).
    { destruct (contents (hp st) (getv st b)) as [|y cb] eqn:Eb; [apply (inv_none nv _ dst HI Hd)|].
      destruct (getv st b) as [t|] eqn:Egb; [|discriminate Eb].
      destruct (Nat.eq_dec (s_len t) 0) as [E0|E0]; [cbn in Eb; rewrite E0 in Eb; discriminate|].
      apply (inv_reslice nv _ dst _ t b HI Hd); [apply live_of_getv; assumption|].
      intros t' Ht. apply norm_some in Ht as [Ht _]. apply norm_some in Ht as [Ht _]. injection Ht as <-. auto. }
    destruct (getv st a) as [s|] eqn:Es; [|rewrite setv_upd0; exact Hb].
    destruct (s_len s =? 0) eqn:El; [rewrite setv_upd0; exact Hb|]. apply Nat.eqb_neq in El. clear Hb.
    destruct (contents (hp st) (getv st b)) as [|y cb] eqn:Eb.
    + rewrite setv_upd0. apply (inv_reslice nv st dst _ s a HI Hd); [apply live_of_getv; assumption|].
      intros t Ht. apply norm_some in Ht as [Ht _]. apply norm_some in Ht as [Ht _]. injection Ht as <-. auto.
    + destruct (s_len s + length (y :: cb) <=? scap (hp st) s) eqn:Ecap.
      * rewrite ?Es, ?Eb in Hg. assert (E1 : (0 <? s_len s) = true) by (apply Nat.ltb_lt; lia). rewrite E1 in Hg. cbn [length andb] in Hg.
        replace (0 <? S (length cb)) with true in Hg by (symmetry; apply Nat.ltb_lt; lia). cbn [andb] in Hg.
        cbn [length] in Ecap. rewrite ?Ecap in Hg.
        apply andb_true_iff in Hg as [Hg _]. apply andb_true_iff in Hg as [Heq Halone]. apply Nat.eqb_eq in Heq. subst dst.
        rewrite setv_upd. apply Nat.leb_le in Ecap. unfold scap in Ecap.
        assert (Ha : s_arr s < length (hp st)).
        { destruct (Nat.lt_ge_cases (s_arr s) (length (hp st))) as [H|H]; [exact H|]. unfold arr in Ecap. rewrite nth_overflow in Ecap by exact H. cbn in Ecap. lia. }
        apply (inv_extend nv st _ a s (length (y :: cb))); try assumption; try (right; auto).
        -- apply heap_grows_write_all.
        -- cbn [length]. lia.
        -- apply (alone_spec nv st a (s_arr s) Halone Hlen).
      * destruct (alloc (hp st) _ cap) as [h' r] eqn:Ea. rewrite setv_upd. eapply inv_fresh; eassumption.
  - (* sort *)
    destruct (getv st src) as [s|] eqn:Es; [|rewrite setv_upd0; apply inv_none; assumption].
    rewrite setv_upd.
    assert (HI2 : Inv nv {| hp := write_all (hp st) (s_arr s) (s_off s) (isort (contents (hp st) (Some s))); vars := vars st |})
      by (apply inv_heap; [exact HI|apply heap_grows_write_all]).
    destruct (Nat.eq_dec (s_len s) 0) as [E0|E0].
    * cbn [norm]. apply Nat.eqb_eq in E0. rewrite E0. apply (inv_none nv _ dst HI2 Hd).
    * apply (inv_reslice nv _ dst _ s src HI2 Hd); [apply live_of_getv; assumption|].
      intros t Ht. apply norm_some in Ht as [Ht _]. apply norm_some in Ht as [Ht _]. injection Ht as <-. auto.
  - (* remove *) destruct (alloc (hp st) _ cap) as [h' r] eqn:Ea. rewrite setv_upd. eapply inv_fresh; eassumption.
Qed.

(* ---------- histories ---------- *)
Fixpoint run_ops (st : state) (ops : list (op * nat)) : state :=
  match ops with [] => st | (o, c) :: ops' => run_ops (step st o c) ops' end.
Fixpoint guard_ops (nv : nat) (st : state) (ops : list (op * nat)) : bool :=
  match ops with [] => true | (o, c) :: ops' => (dst_of o <? nv) && g_step nv st o && guard_ops nv (step st o c) ops' end.

Lemma Inv_init nv : Inv nv (init nv).
Proof.
  split; [cbn; apply repeat_length|]. intros v s H. exfalso. rewrite live_norm in H. unfold getv, init in H; cbn in H.
  destruct (Nat.lt_ge_cases v nv); [rewrite nth_repeat in H|rewrite nth_overflow in H by (rewrite repeat_length; lia)]; discriminate.
Qed.

Theorem inv_history nv ops : forall st, Inv nv st -> guard_ops nv st ops = true -> Inv nv (run_ops st ops).
Proof.
  induction ops as [|[o c] ops IH]; intros st HI Hg; [exact HI|]. cbn in *.
  apply andb_true_iff in Hg as [Hg1 Hg2]. apply andb_true_iff in Hg1 as [Hd Hg1]. apply Nat.ltb_lt in Hd.
  apply IH; [apply inv_step; assumption|exact Hg2].
Qed.

(* In every state reached by a guarded history: a destructive operation on v changes the contents of
   another variable w only if w's slice is on v's array, and then (v being a live list) w's slice
   ends exactly where v's ends: one is a tail of the other. *)
Theorem destructive_changes_only_tails nv st o cap v s w t :
  Inv nv st -> destructive_on o = Some v -> getv st v = Some s -> w <> dst_of o -> live st w = Some t ->
  vcontents (step st o cap) w <> vcontents st w ->
  s_arr t = s_arr s /\ (s_len s <> 0 -> s_off t + s_len t = s_off s + s_len s).
Proof.
  intros HI Hdes Hv Hd Hw Hch. pose proof HI as [_ HI'].
  destruct (HI' w t Hw) as [[Wa _] _]. apply live_some in Hw as [Hgw Hnz].
  destruct (Nat.eq_dec (s_arr t) (s_arr s)) as [E|E].
  - split; [exact E|]. intros Hs. destruct (HI' v s (live_of_getv st v s Hv Hs)) as [_ H].
    apply (H w t); [apply live_of_getv; assumption|exact E].
  - exfalso. apply Hch. eapply destructive_frame; try eassumption. right; exact Wa.
Qed.

(* consing, pushing and copying return lists on a new array: no other variable is on it, so by
   destructive_frame no later destructive operation on either side can reach the other *)
Definition fresh_op (o : op) : bool :=
  match o with OCons _ _ _ | OPush _ _ | OCopy _ _ | OButlast _ _ => true | _ => false end.
Lemma fresh_upd nv st h' d r w t :
  Inv nv st -> d < nv -> s_arr r = length (hp st) -> w <> d ->
  live (upd st h' d (norm (Some r))) w = Some t -> s_arr t <> s_arr r.
Proof.
  intros [Hl HI] Hd Hr Hw Hlive. rewrite live_upd in Hlive by lia. apply Nat.eqb_neq in Hw. rewrite Hw in Hlive.
  destruct (HI w t Hlive) as [[W _] _]. lia.
Qed.
Theorem fresh_result_alone nv st o cap w t r :
  Inv nv st -> fresh_op o = true -> dst_of o < nv -> w <> dst_of o ->
  live (step st o cap) (dst_of o) = Some r -> live (step st o cap) w = Some t -> s_arr t <> s_arr r.
Proof.
  intros HI Hf Hd Hw Hr Ht. pose proof HI as [Hl _].
  assert (G : forall xs, xs <> [] ->
            live (upd st (fst (alloc (hp st) xs cap)) (dst_of o) (norm (Some (snd (alloc (hp st) xs cap))))) (dst_of o) = Some r ->
            live (upd st (fst (alloc (hp st) xs cap)) (dst_of o) (norm (Some (snd (alloc (hp st) xs cap))))) w = Some t ->
            s_arr t <> s_arr r).
  { intros xs Hne Hr' Ht'. destruct (alloc (hp st) xs cap) as [h' r0] eqn:Ea. destruct (alloc_spec _ _ _ _ _ Ea Hne) as [-> ->]. cbn [fst snd] in *.
    rewrite live_upd in Hr' by lia. rewrite Nat.eqb_refl, norm_idem in Hr'. apply norm_some in Hr' as [Hr' _]. injection Hr' as <-.
    eapply (fresh_upd nv st _ (dst_of o) _ w t HI Hd); [reflexivity|exact Hw|exact Ht']. }
  destruct o; try discriminate Hf; cbn [dst_of step] in *.
  - (* cons *) destruct (alloc (hp st) (x :: contents (hp st) (getv st src)) cap) as [h' r0] eqn:Ea.
    rewrite setv_upd in Hr, Ht. apply (G (x :: contents (hp st) (getv st src))); [discriminate| |]; rewrite Ea; assumption.
  - (* butlast *)
    destruct (getv st src) as [s|] eqn:Es.
    + destruct (s_len s <=? 1) eqn:El.
      * rewrite setv_upd0, live_upd in Hr by lia. rewrite Nat.eqb_refl in Hr. discriminate.
      * destruct (alloc (hp st) (firstn (s_len s - 1) (contents (hp st) (Some s))) cap) as [h' r0] eqn:Ea.
        rewrite setv_upd in Hr, Ht.
        destruct (firstn (s_len s - 1) (contents (hp st) (Some s))) as [|z zs] eqn:Ef.
        -- unfold alloc in Ea. injection Ea as <- <-. rewrite live_upd in Hr by lia. rewrite Nat.eqb_refl in Hr. discriminate.
        -- apply (G (z :: zs)); [discriminate| |]; rewrite Ea; assumption.
    + rewrite setv_upd0, live_upd in Hr by lia. rewrite Nat.eqb_refl in Hr. discriminate.
  - (* copy-list *)
    destruct (getv st src) as [s|] eqn:Es.
    + destruct (alloc (hp st) (contents (hp st) (Some s)) cap) as [h' r0] eqn:Ea. rewrite setv_upd in Hr, Ht.
      destruct (contents (hp st) (Some s)) as [|z zs] eqn:Ef.
      * unfold alloc in Ea. injection Ea as <- <-. rewrite live_upd in Hr by lia. rewrite Nat.eqb_refl in Hr. discriminate.
      * apply (G (z :: zs)); [discriminate| |]; rewrite Ea; assumption.
    + rewrite setv_upd0, live_upd in Hr by lia. rewrite Nat.eqb_refl in Hr. discriminate.
  - (* push *) destruct (alloc (hp st) (x :: contents (hp st) (getv st v)) cap) as [h' r0] eqn:Ea.
    rewrite setv_upd in Hr, Ht. apply (G (x :: contents (hp st) (getv st v))); [discriminate| |]; rewrite Ea; assumption.
Qed.

(* ---------- refutations outside the guard (the faithful model against the frame rules) ---------- *)
Fixpoint judge_m (nv : nat) (st : state) (c : cstate) (ops : list (op * nat)) : bool :=   (* all steps frame_ok *)
  match ops with
  | [] => true
  | (o, cap) :: ops' =>
      let st' := step st o cap in
      frame_ok nv c o (vcontents st) (vcontents st') && judge_m nv st' (cstep c o) ops'
  end.
Definition w_add_overwrites : list (op * nat) :=
  [(OList [1; 2; 3]%Z 0, 3); (OAdd 0 4 1, 6); (OAdd 1 5 2, 0); (OAdd 1 6 3, 0)].
Definition w_subseq_shares : list (op * nat) :=
  [(OList [1; 2; 3]%Z 0, 3); (OSubseq 1 3 0 1, 0); (OSetcar 1 7, 0)].
Lemma add_overwrites_refuted :
  vcontents (run_ops (init 4) w_add_overwrites) 2 = [1; 2; 3; 4; 6]%Z /\
  judge_m 4 (init 4) (cinit 4) w_add_overwrites = false /\ guard_ops 4 (init 4) w_add_overwrites = false.
Proof. repeat split; vm_compute; reflexivity. Qed.
Lemma subseq_shares_refuted :
  vcontents (run_ops (init 4) w_subseq_shares) 0 = [1; 7; 3]%Z /\
  judge_m 4 (init 4) (cinit 4) w_subseq_shares = false /\ guard_ops 4 (init 4) w_subseq_shares = false.
Proof. repeat split; vm_compute; reflexivity. Qed.

(* non-vacuity: a guarded history with sharing through cdr, destructive updates that legitimately show
   through, an in-place add on the only owner of its array, nconc, nreverse and sort *)
Definition ex_guarded : list (op * nat) :=
  [(OList [5; 3; 9; 1]%Z 0, 4); (OCdr 0 1, 0); (OSetcar 1 7, 0); (OCons 0 1 2, 4); (OCopy 0 3, 4); (ONreverse 3 3, 0);
   (OList [2; 8]%Z 1, 4); (OAdd 1 6 1, 0); (OSort 0 0, 0); (ONconc 1 3 1, 8); (OPop 2, 0); (OSetnth 2 1 0, 0)].
Lemma guarded_example :
  guard_ops 4 (init 4) ex_guarded = true /\ judge_m 4 (init 4) (cinit 4) ex_guarded = true /\
  map (vcontents (run_ops (init 4) ex_guarded)) [0; 1; 2; 3] =
    [[1; 5; 7; 9]; [2; 8; 6; 1; 9; 7; 5]; [7; 0; 1]; [1; 9; 7; 5]]%Z.
Proof. repeat split; vm_compute; reflexivity. Qed.
