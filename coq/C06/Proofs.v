(* C06 — proofs about the slice model: which variables an operation can change. *)
From C06 Require Import Model Spec.

(* ---------- lists and heaps ---------- *)
Lemma nth_set_nth_same {A} (l : list A) n x d : n < length l -> nth n (set_nth n x l) d = x.
Proof. revert n; induction l as [|y l IH]; intros [|n] H; cbn in *; try lia; [reflexivity|apply IH; lia]. Qed.
Lemma nth_set_nth_other {A} (l : list A) n m x d : n <> m -> nth m (set_nth n x l) d = nth m l d.
Proof.
  revert n m; induction l as [|y l IH]; intros [|n] [|m] H; cbn; try reflexivity; try congruence.
  apply IH; congruence.
Qed.
Lemma length_set_nth {A} (l : list A) n x : length (set_nth n x l) = length l.
Proof. revert n; induction l as [|y l IH]; intros [|n]; cbn; try reflexivity. f_equal; apply IH. Qed.

Lemma arr_write_other h a i x a' : a' <> a -> arr (write h a i x) a' = arr h a'.
Proof. intros H. unfold arr, write. apply nth_set_nth_other. congruence. Qed.
Lemma arr_write_same h a i x : a < length h -> arr (write h a i x) a = set_nth i x (arr h a).
Proof. intros H. unfold arr, write. apply nth_set_nth_same, H. Qed.
Lemma length_write h a i x : length (write h a i x) = length h.
Proof. apply length_set_nth. Qed.
Lemma length_arr_write h a i x a' : length (arr (write h a i x) a') = length (arr h a').
Proof.
  destruct (Nat.eq_dec a' a) as [->|Hn]; [|rewrite arr_write_other by exact Hn; reflexivity].
  destruct (Nat.lt_ge_cases a (length h)) as [Hl|Hl].
  - rewrite arr_write_same by exact Hl. apply length_set_nth.
  - unfold arr, write. rewrite !nth_overflow; try reflexivity; rewrite ?length_set_nth; lia.
Qed.

Lemma arr_write_all_other xs : forall h a i a', a' <> a -> arr (write_all h a i xs) a' = arr h a'.
Proof. induction xs as [|x xs IH]; intros h a i a' H; cbn [write_all]; [reflexivity|]. rewrite IH by exact H. apply arr_write_other, H. Qed.
Lemma length_write_all xs : forall h a i, length (write_all h a i xs) = length h.
Proof. induction xs as [|x xs IH]; intros h a i; cbn [write_all]; [reflexivity|]. rewrite IH. apply length_write. Qed.
Lemma length_arr_write_all xs : forall h a i a', length (arr (write_all h a i xs) a') = length (arr h a').
Proof. induction xs as [|x xs IH]; intros h a i a'; cbn [write_all]; [reflexivity|]. rewrite IH. apply length_arr_write. Qed.

Lemma arr_app_old h extra a : a < length h -> arr (h ++ extra) a = arr h a.
Proof. intros H. unfold arr. apply app_nth1, H. Qed.

(* contents only depend on the slice's own array *)
Lemma contents_same_arr h1 h2 s : arr h1 (s_arr s) = arr h2 (s_arr s) -> contents h1 (Some s) = contents h2 (Some s).
Proof. cbn. intros ->. reflexivity. Qed.

(* ---------- variables ---------- *)
Lemma getv_setv_raw_other st d o w : w <> d -> getv (setv_raw st d o) w = getv st w.
Proof. intros H. unfold getv, setv_raw; cbn. apply nth_set_nth_other. congruence. Qed.
Lemma getv_setv_other st d o w : w <> d -> getv (setv st d o) w = getv st w.
Proof. apply getv_setv_raw_other. Qed.
Lemma hp_setv st d o : hp (setv st d o) = hp st.
Proof. reflexivity. Qed.

(* a variable whose slice is on an array the operation did not write keeps its contents *)
Definition wf_var (st : state) (w : var) : Prop :=
  match getv st w with Some s => s_len s = 0 \/ s_arr s < length (hp st) | None => True end.


Definition upd (st : state) (h' : heap) (d : var) (o : option slice) : state := {| hp := h'; vars := set_nth d o (vars st) |}.
Lemma setv_upd st h' d o : setv {| hp := h'; vars := vars st |} d o = upd st h' d (norm o).
Proof. reflexivity. Qed.
Lemma setv_upd0 st d o : setv st d o = upd st (hp st) d (norm o).
Proof. reflexivity. Qed.
Lemma setv_raw_upd st d o : setv_raw st d o = upd st (hp st) d o.
Proof. reflexivity. Qed.
Lemma fresh_upd st d xs cap :
  fresh st d xs cap = upd st (fst (alloc (hp st) xs cap)) d (norm (Some (snd (alloc (hp st) xs cap)))).
Proof. unfold fresh. destruct (alloc (hp st) xs cap) as [h' r]. reflexivity. Qed.
Lemma getv_upd_other st h' d o w : w <> d -> getv (upd st h' d o) w = getv st w.
Proof. intros H. unfold getv, upd; cbn. apply nth_set_nth_other. congruence. Qed.

Lemma contents_alloc_old h xs cap o :
  (match o with Some s => s_len s = 0 \/ s_arr s < length h | None => True end) ->
  contents (fst (alloc h xs cap)) o = contents h o.
Proof.
  intros H. destruct o as [s|]; [|reflexivity]. unfold alloc. destruct xs as [|x xs]; [reflexivity|]. cbn [fst].
  destruct H as [H|H].
  - cbn. rewrite H. reflexivity.
  - apply contents_same_arr. apply arr_app_old, H.
Qed.

Lemma vcontents_fresh_other st d xs cap w : w <> d -> wf_var st w -> vcontents (fresh st d xs cap) w = vcontents st w.
Proof.
  intros Hd Hw. rewrite fresh_upd. unfold vcontents. rewrite getv_upd_other by exact Hd. cbn [hp upd].
  apply contents_alloc_old. exact Hw.
Qed.
Lemma vcontents_setv_other st d o w : w <> d -> vcontents (setv st d o) w = vcontents st w.
Proof. intros Hd. unfold vcontents. rewrite getv_setv_other by exact Hd. reflexivity. Qed.
Lemma vcontents_setv_raw_other st d o w : w <> d -> vcontents (setv_raw st d o) w = vcontents st w.
Proof. intros Hd. unfold vcontents. rewrite getv_setv_raw_other by exact Hd. reflexivity. Qed.

(* ---------- F1: operations that are not destructive change no other variable (every state) ---------- *)
Definition nondestructive (o : op) : bool :=
  match o with
  | OList _ _ | OCons _ _ _ | OListStar _ _ _ | OCdr _ _ | ONthcdr _ _ _ | OMember _ _ _ | OLast _ _ | OButlast _ _
  | OSubseq _ _ _ _ | OCopy _ _ | OReverse _ _ | OAppend _ _ _ | OAdd _ _ _ | OPush _ _ | OPop _ | ORemove _ _ _
  | OMapcar _ _ _ | ORemoveIf _ _ _ _ _ | ORemoveDup _ _ _ _ _ | ONconc _ _ _ => true
  | _ => false
  end.

Ltac frame_cases Hd Hw :=
  repeat match goal with
         | |- context [match ?x with _ => _ end] => destruct x
         end;
  first [ reflexivity
        | apply vcontents_setv_other; exact Hd
        | apply vcontents_setv_raw_other; exact Hd
        | apply vcontents_fresh_other; [exact Hd|exact Hw] ].

Theorem nondestructive_frame st o cap w :
  nondestructive o = true -> w <> dst_of o -> wf_var st w -> vcontents (step st o cap) w = vcontents st w.
Proof.
  intros Hn Hd Hw.
  destruct o; try discriminate Hn; cbn [dst_of] in Hd; cbn [step]; frame_cases Hd Hw.
Qed.

(* ---------- F2: a destructive operation on v changes another variable only if that variable's
   slice lies on the same backing array as v's (every state) ---------- *)
Lemma getv_mk st h w : getv {| hp := h; vars := vars st |} w = getv st w.
Proof. reflexivity. Qed.
Lemma vcontents_heap_other st h' w t :
  getv st w = Some t -> arr h' (s_arr t) = arr (hp st) (s_arr t) ->
  vcontents {| hp := h'; vars := vars st |} w = vcontents st w.
Proof. intros Hw Ha. unfold vcontents. rewrite getv_mk, Hw. cbn [hp]. apply contents_same_arr. exact Ha. Qed.
Lemma vcontents_setv_heap_other st h' d o w t :
  w <> d -> getv st w = Some t -> arr h' (s_arr t) = arr (hp st) (s_arr t) ->
  vcontents (setv {| hp := h'; vars := vars st |} d o) w = vcontents st w.
Proof. intros Hd Hw Ha. rewrite vcontents_setv_other by exact Hd. apply (vcontents_heap_other st h' w t Hw Ha). Qed.

Theorem destructive_frame st o cap v s w t :
  destructive_on o = Some v -> getv st v = Some s ->
  w <> dst_of o -> getv st w = Some t -> (s_len t = 0 \/ s_arr t < length (hp st)) ->
  s_arr t <> s_arr s ->
  vcontents (step st o cap) w = vcontents st w.
Proof.
  intros Hdes Hv Hd Hw Hwf Hna.
  assert (Hw' : wf_var st w) by (unfold wf_var; rewrite Hw; exact Hwf).
  destruct o; try discriminate Hdes; cbn [destructive_on] in Hdes; injection Hdes as ->; cbn [dst_of] in Hd; cbn [step]; rewrite Hv.
  - (* setf car *)
    destruct (0 <? s_len s); [|reflexivity]. apply (vcontents_heap_other st _ w t Hw). apply arr_write_other, Hna.
  - (* setf nth *)
    destruct (i <? s_len s); [|reflexivity]. apply (vcontents_heap_other st _ w t Hw). apply arr_write_other, Hna.
  - (* setf elt *)
    destruct (i <? s_len s); [|reflexivity]. apply (vcontents_heap_other st _ w t Hw). apply arr_write_other, Hna.
  - (* rplaca *)
    destruct (0 <? s_len s); [|reflexivity]. apply (vcontents_setv_heap_other st _ dst _ w t Hd Hw). apply arr_write_other, Hna.
  - (* rplacd *)
    destruct (getv st b) as [tb|]; [|reflexivity]. destruct (0 <? s_len s); [|reflexivity].
    destruct (1 + length (contents (hp st) (Some tb)) <=? scap (hp st) s).
    + apply (vcontents_setv_heap_other st _ dst _ w t Hd Hw). apply arr_write_all_other, Hna.
    + apply vcontents_fresh_other; assumption.
  - (* nreverse *)
    apply (vcontents_setv_heap_other st _ dst _ w t Hd Hw). apply arr_write_all_other, Hna.
  - (* sort *)
    apply (vcontents_setv_heap_other st _ dst _ w t Hd Hw). apply arr_write_all_other, Hna.
Qed.

(* ---------- F3: the invariant "slices on one array are tails of one another" ---------- *)
Definition wf_slice (h : heap) (s : slice) : Prop := s_arr s < length h /\ s_off s + s_len s <= length (arr h (s_arr s)).
Definition Inv (nv : nat) (st : state) : Prop :=
  length (vars st) = nv /\
  forall v s, live st v = Some s ->
    wf_slice (hp st) s /\
    forall w t, live st w = Some t -> s_arr t = s_arr s -> s_off t + s_len t = s_off s + s_len s.

Lemma live_norm st w : live st w = norm (getv st w).
Proof. unfold live, norm. destruct (getv st w) as [s|]; [destruct (s_len s =? 0)|]; reflexivity. Qed.
Lemma norm_idem o : norm (norm o) = norm o.
Proof. destruct o as [s|]; cbn; [|reflexivity]. destruct (s_len s =? 0) eqn:E; cbn; [reflexivity|rewrite E; reflexivity]. Qed.
Lemma norm_some o s : norm o = Some s -> o = Some s /\ s_len s <> 0.
Proof. destruct o as [t|]; cbn; [|discriminate]. destruct (s_len t =? 0) eqn:E; [discriminate|]. intros H; injection H as <-. apply Nat.eqb_neq in E. auto. Qed.

Lemma live_upd st h' d o w : d < length (vars st) ->
  live (upd st h' d o) w = if Nat.eqb w d then norm o else live st w.
Proof.
  intros Hd. rewrite !live_norm. unfold upd, getv; cbn [vars]. destruct (Nat.eqb_spec w d) as [->|Hn].
  - rewrite nth_set_nth_same by exact Hd. reflexivity.
  - rewrite nth_set_nth_other by congruence. reflexivity.
Qed.

Definition heap_grows (h h' : heap) : Prop :=
  length h <= length h' /\ forall a, length (arr h a) <= length (arr h' a).

Lemma inv_upd nv st h' d o :
  Inv nv st -> d < nv -> heap_grows (hp st) h' ->
  (forall t, norm o = Some t ->
     wf_slice h' t /\ forall w s, w <> d -> live st w = Some s -> s_arr s = s_arr t -> s_off s + s_len s = s_off t + s_len t) ->
  Inv nv (upd st h' d o).
Proof.
  intros [Hl HI] Hd [Hg1 Hg2] Hnew. split; [cbn; rewrite length_set_nth; exact Hl|].
  assert (Hdl : d < length (vars st)) by lia.
  intros v s Hv. rewrite live_upd in Hv by exact Hdl. cbn [hp upd].
  assert (Hold : forall u x, live st u = Some x -> wf_slice h' x).
  { intros u x Hu. destruct (HI u x Hu) as [[W1 W2] _]. split; [lia|]. specialize (Hg2 (s_arr x)). lia. }
  destruct (Nat.eqb_spec v d) as [->|Hvd].
  - destruct (Hnew s Hv) as [Hwf Hsame]. split; [exact Hwf|].
    intros w t Hw Ha. rewrite live_upd in Hw by exact Hdl. destruct (Nat.eqb_spec w d) as [->|Hwd].
    + rewrite Hv in Hw. injection Hw as <-. reflexivity.
    + apply (Hsame w t Hwd Hw Ha).
  - split; [apply (Hold v s Hv)|].
    intros w t Hw Ha. rewrite live_upd in Hw by exact Hdl. destruct (Nat.eqb_spec w d) as [->|Hwd].
    + destruct (Hnew t Hw) as [_ Hsame]. symmetry. apply (Hsame v s Hvd Hv). congruence.
    + destruct (HI v s Hv) as [_ H]. apply (H w t Hw Ha).
Qed.

Lemma heap_grows_refl h : heap_grows h h.
Proof. split; [lia|intros; lia]. Qed.
Lemma heap_grows_app h x : heap_grows h (h ++ [x]).
Proof.
  split; [rewrite app_length; lia|]. intros a. destruct (Nat.lt_ge_cases a (length h)) as [H|H].
  - rewrite arr_app_old by exact H. lia.
  - unfold arr at 1. rewrite nth_overflow by exact H. cbn. lia.
Qed.
Lemma heap_grows_write h a i x : heap_grows h (write h a i x).
Proof. split; [rewrite length_write; lia|]. intros a'. rewrite length_arr_write. lia. Qed.
Lemma heap_grows_write_all h a i xs : heap_grows h (write_all h a i xs).
Proof. split; [rewrite length_write_all; lia|]. intros a'. rewrite length_arr_write_all. lia. Qed.

(* a freshly allocated slice: nobody else is on its array *)
Lemma alloc_spec h xs cap h' r : alloc h xs cap = (h', r) -> xs <> [] ->
  h' = h ++ [xs ++ repeat 0%Z (cap - length xs)] /\ r = {| s_arr := length h; s_off := 0; s_len := length xs |}.
Proof. unfold alloc. destruct xs; [congruence|]. intros H _. injection H as <- <-. auto. Qed.

Lemma inv_fresh nv st d xs cap h' r :
  Inv nv st -> d < nv -> alloc (hp st) xs cap = (h', r) ->
  Inv nv (upd st h' d (norm (Some r))).
Proof.
  intros HI Hd Ha. destruct xs as [|x xs].
  - (* make(List, 0): nil *)
    unfold alloc in Ha. injection Ha as <- <-. cbn [norm s_len Nat.eqb].
    apply inv_upd; [exact HI|exact Hd|apply heap_grows_refl|]. intros t H. discriminate.
  - destruct (alloc_spec _ _ _ _ _ Ha) as [-> ->]; [discriminate|].
    apply inv_upd; [exact HI|exact Hd|apply heap_grows_app|].
    intros t Ht. rewrite norm_idem in Ht. apply norm_some in Ht as [Ht _]. injection Ht as <-. cbn [s_arr s_off s_len]. split.
    + split; [cbn [s_arr]; rewrite app_length; cbn; lia|]. unfold arr. cbn [s_arr s_off s_len]. rewrite nth_middle. rewrite app_length. cbn [length]. lia.
    + intros w s _ Hw Hs. destruct HI as [_ HI]. destruct (HI w s Hw) as [[W _] _]. lia.
Qed.

(* a slice that ends where an existing live slice on the same array ends *)
Lemma inv_reslice nv st d o s0 v0 :
  Inv nv st -> d < nv -> live st v0 = Some s0 ->
  (forall t, norm o = Some t -> s_arr t = s_arr s0 /\ s_off t + s_len t = s_off s0 + s_len s0) ->
  Inv nv (upd st (hp st) d o).
Proof.
  intros HI Hd H0 Ht. apply inv_upd; [exact HI|exact Hd|apply heap_grows_refl|].
  intros t Hn. destruct (Ht t Hn) as [Ea Ee]. destruct HI as [_ HI]. destruct (HI v0 s0 H0) as [[W1 W2] Hs]. split.
  - split; [rewrite Ea; exact W1|rewrite Ea, Ee; exact W2].
  - intros w s _ Hw Hsa. rewrite Ee. apply (Hs w s Hw). congruence.
Qed.

Lemma inv_none nv st d : Inv nv st -> d < nv -> Inv nv (upd st (hp st) d None).
Proof. intros HI Hd. apply inv_upd; [exact HI|exact Hd|apply heap_grows_refl|]. intros t H; discriminate. Qed.

(* writes inside existing arrays do not disturb the invariant (it speaks about slice headers) *)
Lemma inv_heap nv st h' : Inv nv st -> heap_grows (hp st) h' -> Inv nv {| hp := h'; vars := vars st |}.
Proof.
  intros [Hl HI] [G1 G2]. split; [exact Hl|]. intros v s Hv. change (live {| hp := h'; vars := vars st |} v) with (live st v) in Hv.
  destruct (HI v s Hv) as [[W1 W2] Hs]. split; [split; cbn [hp]; [clear - W1 G1; lia|specialize (G2 (s_arr s)); clear - W2 G2; lia]|].
  intros w t Hw. apply (Hs w t). exact Hw.
Qed.


Lemma contents_length h s : wf_slice h s -> length (contents h (Some s)) = s_len s.
Proof. intros [_ W]. cbn. rewrite firstn_length, skipn_length. lia. Qed.
Lemma live_some st v s : live st v = Some s -> getv st v = Some s /\ s_len s <> 0.
Proof. rewrite live_norm. apply norm_some. Qed.
Lemma live_of_getv st v s : getv st v = Some s -> s_len s <> 0 -> live st v = Some s.
Proof. intros H Hn. rewrite live_norm, H. cbn. apply Nat.eqb_neq in Hn. rewrite Hn. reflexivity. Qed.


Definition op_vars_ok (nv : nat) (o : op) : Prop :=
  dst_of o < nv.

Lemma inv_fresh' nv st d xs cap : Inv nv st -> d < nv -> Inv nv (fresh st d xs cap).
Proof.
  intros HI Hd. rewrite fresh_upd. destruct (alloc (hp st) xs cap) as [h' r] eqn:Ea. cbn [fst snd].
  eapply inv_fresh; eassumption.
Qed.
(* the result is the value of another variable *)
Lemma inv_alias nv st d src : Inv nv st -> d < nv -> Inv nv (upd st (hp st) d (norm (getv st src))).
Proof.
  intros HI Hd. destruct (live st src) as [s|] eqn:El.
  - apply (inv_reslice nv st d _ s src HI Hd El). intros t Ht. rewrite norm_idem, <- live_norm, El in Ht. injection Ht as <-. auto.
  - rewrite <- live_norm, El. apply inv_none; assumption.
Qed.
Lemma inv_alias_heap nv st h' d src o :
  Inv nv st -> d < nv -> heap_grows (hp st) h' -> getv st src = o -> Inv nv (upd st h' d (norm o)).
Proof.
  intros HI Hd Hg <-. pose proof (inv_heap nv st h' HI Hg) as HI2.
  exact (inv_alias nv {| hp := h'; vars := vars st |} d src HI2 Hd).
Qed.
Lemma index_of_lt x l : forall i, index_of x l = Some i -> i < length l.
Proof.
  induction l as [|y l IH]; intros i H; cbn in *; [discriminate|].
  destruct (Z.eqb x y); [injection H as <-; lia|]. destruct (index_of x l) as [j|]; [|discriminate].
  injection H as <-. specialize (IH j eq_refl). lia.
Qed.
Lemma contents_length_le h s : length (contents h (Some s)) <= s_len s.
Proof. cbn. rewrite firstn_length. lia. Qed.

Theorem inv_step nv st o cap :
  Inv nv st -> op_vars_ok nv o -> g_inv o = true -> Inv nv (step st o cap).
Proof.
  intros HI Hd Hg. unfold op_vars_ok in Hd. pose proof HI as [Hlen HI'].
  destruct o; cbn [dst_of] in Hd; cbn [step]; try discriminate Hg.
  - (* list *) apply inv_fresh'; assumption.
  - (* cons *) apply inv_fresh'; assumption.
  - (* list* *) destruct xs; [rewrite setv_upd0; apply inv_alias; assumption|apply inv_fresh'; assumption].
  - (* cdr *)
    destruct (getv st src) as [s|] eqn:Es; [|rewrite setv_upd0; apply inv_none; assumption].
    destruct (s_len s =? 0) eqn:El; [rewrite setv_upd0; apply inv_none; assumption|]. apply Nat.eqb_neq in El.
    rewrite setv_upd0. eapply (inv_reslice nv st dst _ s src); [exact HI|exact Hd|apply live_of_getv; assumption|].
    intros t Ht. apply norm_some in Ht as [Ht _]. apply norm_some in Ht as [Ht _]. injection Ht as <-. cbn. split; [reflexivity|lia].
  - (* nthcdr *)
    destruct (getv st src) as [s|] eqn:Es; [|rewrite setv_upd0; apply inv_none; assumption].
    destruct (s_len s <=? n) eqn:El; [rewrite setv_upd0; apply inv_none; assumption|]. apply Nat.leb_gt in El.
    rewrite setv_upd0. eapply (inv_reslice nv st dst _ s src); [exact HI|exact Hd|apply live_of_getv; [assumption|lia]|].
    intros t Ht. apply norm_some in Ht as [Ht _]. apply norm_some in Ht as [Ht _]. injection Ht as <-. cbn. split; [reflexivity|lia].
  - (* member *)
    destruct (getv st src) as [s|] eqn:Es; [|rewrite setv_upd0; apply inv_none; assumption].
    destruct (index_of x (contents (hp st) (Some s))) as [i|] eqn:Ei; [|rewrite setv_upd0; apply inv_none; assumption].
    apply index_of_lt in Ei. pose proof (contents_length_le (hp st) s) as Hle.
    rewrite setv_upd0. eapply (inv_reslice nv st dst _ s src); [exact HI|exact Hd|apply live_of_getv; [assumption|lia]|].
    intros t Ht. apply norm_some in Ht as [Ht _]. apply norm_some in Ht as [Ht _]. injection Ht as <-. cbn. split; [reflexivity|lia].
  - (* last *)
    destruct (getv st src) as [s|] eqn:Es; [|rewrite setv_upd0; apply inv_none; assumption].
    destruct (s_len s <=? 1); [|apply inv_fresh'; assumption].
    rewrite setv_upd0, <- Es. apply inv_alias; assumption.
  - (* butlast *)
    destruct (getv st src) as [s|] eqn:Es; [|rewrite setv_upd0; apply inv_none; assumption].
    destruct (s_len s <=? 1); [rewrite setv_upd0; apply inv_none; assumption|apply inv_fresh'; assumption].
  - (* subseq *)
    destruct (getv st src) as [s0|] eqn:Es; [|exact HI].
    destruct ((s <=? e) && (e <=? s_len s0)); [apply inv_fresh'; assumption|exact HI].
  - (* copy-list *)
    destruct (getv st src) as [s|] eqn:Es; [|rewrite setv_upd0; apply inv_none; assumption]. apply inv_fresh'; assumption.
  - (* reverse *)
    destruct (getv st src) as [s|] eqn:Es; [|rewrite setv_upd0; apply inv_none; assumption].
    destruct (s_len s =? 0) eqn:El; [|apply inv_fresh'; assumption].
    rewrite setv_upd0, <- Es. apply inv_alias; assumption.
  - (* append *) apply inv_fresh'; assumption.
  - (* add *) apply inv_fresh'; assumption.
  - (* push *) apply inv_fresh'; assumption.
  - (* pop *)
    destruct (getv st v) as [s|] eqn:Es; [|exact HI].
    destruct (s_len s =? 0) eqn:El; [exact HI|]. apply Nat.eqb_neq in El.
    rewrite setv_raw_upd. eapply (inv_reslice nv st v _ s v); [exact HI|exact Hd|apply live_of_getv; assumption|].
    intros t Ht. apply norm_some in Ht as [Ht _]. injection Ht as <-. cbn. split; [reflexivity|lia].
  - (* setf car *)
    destruct (getv st v) as [s|]; [|exact HI]. destruct (0 <? s_len s); [|exact HI]. apply inv_heap; [exact HI|apply heap_grows_write].
  - (* setf nth *)
    destruct (getv st v) as [s|]; [|exact HI]. destruct (i <? s_len s); [|exact HI]. apply inv_heap; [exact HI|apply heap_grows_write].
  - (* setf elt *)
    destruct (getv st v) as [s|]; [|exact HI]. destruct (i <? s_len s); [|exact HI]. apply inv_heap; [exact HI|apply heap_grows_write].
  - (* rplaca *)
    destruct (getv st v) as [s|] eqn:Es; [|exact HI]. destruct (0 <? s_len s); [|exact HI].
    rewrite setv_upd. apply (inv_alias_heap nv st _ dst v _ HI Hd); [apply heap_grows_write|exact Es].
  - (* nreverse *)
    destruct (getv st src) as [s|] eqn:Es; [|rewrite setv_upd0; apply inv_none; assumption].
    rewrite setv_upd. apply (inv_alias_heap nv st _ dst src _ HI Hd); [apply heap_grows_write_all|exact Es].
  - (* nconc *)
    destruct (vcontents st a) as [|x ca], (vcontents st b) as [|y cb].
    + rewrite setv_upd0. apply inv_none; assumption.
    + rewrite setv_upd0. apply inv_alias; assumption.
    + rewrite setv_upd0. apply inv_alias; assumption.
    + apply inv_fresh'; assumption.
  - (* sort *)
    destruct (getv st src) as [s|] eqn:Es; [|rewrite setv_upd0; apply inv_none; assumption].
    rewrite setv_upd. apply (inv_alias_heap nv st _ dst src _ HI Hd); [apply heap_grows_write_all|exact Es].
  - (* remove *) apply inv_fresh'; assumption.
  - (* mapcar *) apply inv_fresh'; assumption.
  - (* remove-if *) apply inv_fresh'; assumption.
  - (* remove-duplicates *) apply inv_fresh'; assumption.
Qed.

(* ---------- histories ---------- *)
Fixpoint run_ops (st : state) (ops : list (op * nat)) : state :=
  match ops with [] => st | (o, c) :: ops' => run_ops (step st o c) ops' end.
(* the invariant needs no condition on the states: only rplacd is left out *)
Definition inv_ops (nv : nat) (ops : list (op * nat)) : bool :=
  forallb (fun oc => (dst_of (fst oc) <? nv) && g_inv (fst oc)) ops.
Fixpoint guard_ops (nv : nat) (st : state) (ops : list (op * nat)) : bool :=
  match ops with [] => true | (o, c) :: ops' => (dst_of o <? nv) && g_step st o && guard_ops nv (step st o c) ops' end.
Lemma guard_inv_ops nv ops : forall st, guard_ops nv st ops = true -> inv_ops nv ops = true.
Proof.
  induction ops as [|[o c] ops IH]; intros st H; [reflexivity|]. cbn in *.
  apply andb_true_iff in H as [H1 H2]. apply andb_true_iff in H1 as [Hd Hg]. unfold g_step in Hg. apply andb_true_iff in Hg as [Hg _].
  rewrite Hd, Hg. cbn. apply (IH _ H2).
Qed.

Lemma Inv_init nv : Inv nv (init nv).
Proof.
  split; [cbn; apply repeat_length|]. intros v s H. exfalso. rewrite live_norm in H. unfold getv, init in H; cbn in H.
  destruct (Nat.lt_ge_cases v nv); [rewrite nth_repeat in H|rewrite nth_overflow in H by (rewrite repeat_length; lia)]; discriminate.
Qed.

Theorem inv_history nv ops : forall st, Inv nv st -> inv_ops nv ops = true -> Inv nv (run_ops st ops).
Proof.
  induction ops as [|[o c] ops IH]; intros st HI Hg; [exact HI|]. cbn in *.
  apply andb_true_iff in Hg as [Hg1 Hg2]. apply andb_true_iff in Hg1 as [Hd Hg1]. apply Nat.ltb_lt in Hd.
  apply IH; [apply inv_step; assumption|exact Hg2].
Qed.

(* In every state reached by a history without rplacd: a destructive operation on v changes the contents of
   another variable w only if w's slice is on v's array, and then (v being a live list) w's slice
   ends exactly where v's ends: one is a tail of the other. *)
Theorem destructive_changes_only_tails nv st o cap v s w t :
  Inv nv st -> destructive_on o = Some v -> getv st v = Some s -> w <> dst_of o -> live st w = Some t ->
  vcontents (step st o cap) w <> vcontents st w ->
  s_arr t = s_arr s /\ (s_len s <> 0 -> s_off t + s_len t = s_off s + s_len s).
Proof.
  intros HI Hdes Hv Hd Hw Hch. pose proof HI as [_ HI'].
  destruct (HI' w t Hw) as [[Wa _] _]. apply live_some in Hw as [Hgw Hnz].
  destruct (Nat.eq_dec (s_arr t) (s_arr s)) as [E|E].
  - split; [exact E|]. intros Hs. destruct (HI' v s (live_of_getv st v s Hv Hs)) as [_ H].
    apply (H w t); [apply live_of_getv; assumption|exact E].
  - exfalso. apply Hch. eapply destructive_frame; try eassumption. right; exact Wa.
Qed.

(* consing, pushing, copying, appending, adding, removing, mapping return lists on a new array: no other
   variable is on it, so by destructive_frame no later destructive operation on either side can reach the other *)
Definition fresh_op (o : op) : bool :=
  match o with
  | OList _ _ | OCons _ _ _ | OPush _ _ | OCopy _ _ | OButlast _ _ | OAppend _ _ _ | OAdd _ _ _ | ORemove _ _ _
  | OMapcar _ _ _ | ORemoveIf _ _ _ _ _ | ORemoveDup _ _ _ _ _ => true
  | _ => false
  end.
Lemma live_upd_same st h' d o : d < length (vars st) -> live (upd st h' d o) d = norm o.
Proof. intros H. rewrite live_upd by exact H. rewrite Nat.eqb_refl. reflexivity. Qed.
Lemma fresh_alone nv st d xs cap w t r :
  Inv nv st -> d < nv -> w <> d ->
  live (fresh st d xs cap) d = Some r -> live (fresh st d xs cap) w = Some t -> s_arr t <> s_arr r.
Proof.
  intros HI Hd Hw Hr Ht. pose proof HI as [Hl HI']. rewrite fresh_upd in Hr, Ht.
  destruct xs as [|x xs].
  - cbn [alloc fst snd] in Hr. rewrite live_upd_same in Hr by lia. discriminate.
  - destruct (alloc (hp st) (x :: xs) cap) as [h' r0] eqn:Ea. destruct (alloc_spec _ _ _ _ _ Ea) as [-> ->]; [discriminate|]. cbn [fst snd] in *.
    rewrite live_upd_same in Hr by lia. rewrite norm_idem in Hr. apply norm_some in Hr as [Hr _]. injection Hr as <-.
    rewrite live_upd in Ht by lia. apply Nat.eqb_neq in Hw. rewrite Hw in Ht.
    destruct (HI' w t Ht) as [[W _] _]. cbn [s_arr]. lia.
Qed.
Lemma none_not_live nv st d (r : slice) : Inv nv st -> d < nv -> live (upd st (hp st) d None) d = Some r -> False.
Proof. intros [Hl _] Hd H. rewrite live_upd_same in H by lia. discriminate. Qed.
Theorem fresh_result_alone nv st o cap w t r :
  Inv nv st -> fresh_op o = true -> dst_of o < nv -> w <> dst_of o ->
  live (step st o cap) (dst_of o) = Some r -> live (step st o cap) w = Some t -> s_arr t <> s_arr r.
Proof.
  intros HI Hf Hd Hw Hr Ht.
  destruct o; try discriminate Hf; cbn [dst_of step] in *;
    try (eapply fresh_alone; eassumption).
  - (* butlast *)
    destruct (getv st src) as [s|] eqn:Es; [destruct (s_len s <=? 1)|];
      try (eapply fresh_alone; eassumption); rewrite setv_upd0 in Hr; exfalso; eapply none_not_live; eassumption.
  - (* copy-list *)
    destruct (getv st src) as [s|] eqn:Es;
      try (eapply fresh_alone; eassumption); rewrite setv_upd0 in Hr; exfalso; eapply none_not_live; eassumption.
Qed.

(* ---------- the reference machine along a history ---------- *)
Definition agree_b (nv : nat) (st : state) (c : cheap) : bool :=
  forallb (fun w => zlist_eqb (vcontents st w) (ccontents c w)) (seq 0 nv).
Fixpoint judge_m (nv : nat) (st : state) (c : cheap) (ops : list (op * nat)) : bool :=   (* after every step all variables agree *)
  match ops with
  | [] => true
  | (o, cap) :: ops' => let st' := step st o cap in let c' := cstep c o in agree_b nv st' c' && judge_m nv st' c' ops'
  end.

(* non-vacuity: a guarded history with sharing through cdr and member, destructive updates that legitimately
   show through, add, nconc, nreverse, sort, rplaca, list*, mapcar *)
Definition ex_guarded : list (op * nat) :=
  [(OList [5; 3; 9; 1]%Z 0, 4); (OCdr 0 1, 0); (OSetcar 1 7, 0); (OCons 0 1 2, 4); (OCopy 0 3, 4); (ONreverse 3 3, 0);
   (OList [2; 8]%Z 1, 4); (OAdd 1 6 1, 4); (OSort 0 0, 0); (ONconc 1 3 1, 8); (OPop 2, 0); (OSetnth 2 1 0, 0)].
Lemma guarded_example :
  guard_ops 4 (init 4) ex_guarded = true /\ judge_m 4 (init 4) (cinit 4) ex_guarded = true /\
  map (vcontents (run_ops (init 4) ex_guarded)) [0; 1; 2; 3] =
    [[1; 5; 7; 9]; [2; 8; 6; 1; 9; 7; 5]; [7; 0; 1]; [1; 9; 7; 5]]%Z.
Proof. repeat split; vm_compute; reflexivity. Qed.

(* the histories that were the add and subseq findings are inside the guard now and come out right *)
Definition ex_add_siblings : list (op * nat) :=
  [(OList [1; 2; 3]%Z 0, 3); (OAdd 0 4 1, 6); (OAdd 1 5 2, 8); (OAdd 1 6 3, 8)].
Definition ex_subseq_copy : list (op * nat) :=
  [(OList [1; 2; 3]%Z 0, 3); (OSubseq 1 3 0 1, 2); (OSetcar 1 7, 0)].
Lemma repaired_examples :
  guard_ops 4 (init 4) ex_add_siblings = true /\
  map (vcontents (run_ops (init 4) ex_add_siblings)) [2; 3] = [[1; 2; 3; 4; 5]; [1; 2; 3; 4; 6]]%Z /\
  guard_ops 4 (init 4) ex_subseq_copy = true /\
  map (vcontents (run_ops (init 4) ex_subseq_copy)) [0; 1] = [[1; 2; 3]; [7; 3]]%Z.
Proof. repeat split; vm_compute; reflexivity. Qed.

(* ---------- remove-if / delete-if: the value ---------- *)
Lemma remove_n_none p l : remove_n p None l = filter (fun y => negb (holds p y)) l.
Proof. induction l as [|x l IH]; [reflexivity|]. cbn [remove_n filter]. destruct (holds p x); cbn [negb]; rewrite IH; reflexivity. Qed.
Lemma filter_rev_comm {A} (f : A -> bool) l : filter f (rev l) = rev (filter f l).
Proof.
  induction l as [|x l IH]; [reflexivity|]. cbn [rev filter]. rewrite filter_app, IH. cbn [filter].
  destruct (f x); cbn [rev]; [reflexivity|apply app_nil_r].
Qed.
(* without :count the result is the list of the elements that do not satisfy the predicate, in order, whether
   the scan runs from the front or from the end *)
Lemma remove_if_filter p fe l : remove_if p None fe l = filter (fun y => negb (holds p y)) l.
Proof.
  unfold remove_if. destruct fe; [|apply remove_n_none]. rewrite remove_n_none, filter_rev_comm, rev_involutive. reflexivity.
Qed.
(* with :count the result is never longer than the argument and loses at most n elements *)
Lemma remove_n_length p n l : length (remove_n p n l) <= length l /\ forall m, n = Some m -> length l <= length (remove_n p n l) + m.
Proof.
  revert n. induction l as [|x l IH]; intros n; [cbn; split; [lia|intros; lia]|].
  cbn [remove_n]. destruct (holds p x).
  - destruct n as [[|m]|].
    + destruct (IH (Some 0)) as [A B]. cbn [length]. split; [lia|]. intros m E. injection E as <-. specialize (B 0 eq_refl). lia.
    + destruct (IH (Some m)) as [A B]. cbn [length]. split; [lia|]. intros m' E. injection E as <-. specialize (B m eq_refl). lia.
    + destruct (IH None) as [A _]. cbn [length]. split; [lia|]. intros m E. discriminate E.
  - destruct (IH n) as [A B]. cbn [length]. split; [lia|]. intros m E. specialize (B m E). lia.
Qed.

(* ---------- remove-duplicates / delete-duplicates: the value ---------- *)
Lemma dscan_in inw seen i l x : In x (dscan inw seen i l) -> In x l.
Proof.
  revert seen i. induction l as [|y l IH]; intros seen i H; [exact H|]. cbn [dscan] in H.
  destruct (inw i); [destruct (existsb (Z.eqb y) seen)|].
  - right. exact (IH _ _ H).
  - destruct H as [H|H]; [left; exact H|right; exact (IH _ _ H)].
  - destruct H as [H|H]; [left; exact H|right; exact (IH _ _ H)].
Qed.
Lemma dscan_keeps inw seen i l x : In x l -> In x (dscan inw seen i l) \/ In x seen.
Proof.
  revert seen i. induction l as [|y l IH]; intros seen i H; [destruct H|]. cbn [dscan].
  destruct H as [H|H].
  - subst y. destruct (inw i); [|left; left; reflexivity].
    destruct (existsb (Z.eqb x) seen) eqn:E; [|left; left; reflexivity].
    right. apply existsb_exists in E. destruct E as [z [Hz Ez]]. apply Z.eqb_eq in Ez. subst z. exact Hz.
  - destruct (inw i); [destruct (existsb (Z.eqb y) seen) eqn:E|].
    + destruct (IH (y :: seen) (S i) H) as [A|[A|A]]; [left; exact A| |right; exact A].
      subst y. right. apply existsb_exists in E. destruct E as [z [Hz Ez]]. apply Z.eqb_eq in Ez. subst z. exact Hz.
    + destruct (IH (y :: seen) (S i) H) as [A|[A|A]]; [left; right; exact A|left; left; exact A|right; exact A].
    + destruct (IH seen (S i) H) as [A|A]; [left; right; exact A|right; exact A].
Qed.
(* a kept element inside the window is not among the remembered ones, and the window elements kept are pairwise
   different *)
Lemma dscan_nodup seen i l : NoDup (dscan (fun _ => true) seen i l) /\ forall x, In x (dscan (fun _ => true) seen i l) -> ~ In x seen.
Proof.
  revert seen i. induction l as [|y l IH]; intros seen i; [split; [constructor|intros x []]|]. cbn [dscan].
  destruct (IH (y :: seen) (S i)) as [ND NS].
  destruct (existsb (Z.eqb y) seen) eqn:E.
  - split; [exact ND|]. intros x Hx A. apply (NS x Hx). right. exact A.
  - split.
    + constructor; [|exact ND]. intro A. apply (NS y A). left. reflexivity.
    + intros x [Hx|Hx] A.
      * subst x. assert (existsb (Z.eqb y) seen = true) as T; [|rewrite T in E; discriminate E].
        apply existsb_exists. exists y. split; [exact A|apply Z.eqb_refl].
      * apply (NS x Hx). right. exact A.
Qed.
(* whatever the direction and the window: the result has exactly the elements of the argument *)
Lemma remove_dup_same_elements fe s e l x : In x (remove_dup fe s e l) <-> In x l.
Proof.
  unfold remove_dup. destruct fe.
  - split; [apply dscan_in|]. intro H. match goal with |- In x (dscan ?f _ _ _) => destruct (dscan_keeps f [] 0 l x H) as [A|[]] end. exact A.
  - rewrite <- in_rev. split.
    + intro H. apply in_rev. exact (dscan_in _ _ _ _ _ H).
    + intro H. apply in_rev in H. match goal with |- In x (dscan ?f _ _ _) => destruct (dscan_keeps f [] 0 (rev l) x H) as [A|[]] end. exact A.
Qed.
Lemma dscan_ext f g seen i l : (forall j, f j = g j) -> dscan f seen i l = dscan g seen i l.
Proof.
  intro H. revert seen i. induction l as [|y l IH]; intros seen i; [reflexivity|]. cbn [dscan].
  rewrite H, !IH. reflexivity.
Qed.
(* over the whole list (no :start, no :end) no element occurs twice in the result *)
Lemma remove_dup_nodup fe l : NoDup (remove_dup fe 0 None l).
Proof.
  unfold remove_dup. destruct fe.
  - destruct l as [|y l]; [constructor|].
    assert (forall k seen i m, length m + i <= k -> dscan (fun i0 => (0 <=? i0) && (i0 <? k)) seen i m = dscan (fun _ => true) seen i m) as X.
    { intros k seen i m. revert seen i. induction m as [|z m IH]; intros seen i Hl; [reflexivity|]. cbn [dscan length] in *.
      replace ((0 <=? i) && (i <? k)) with true by (symmetry; apply andb_true_iff; split; [apply Nat.leb_le; lia|apply Nat.ltb_lt; lia]).
      rewrite !IH by lia. reflexivity. }
    rewrite X by lia. apply dscan_nodup.
  - apply NoDup_rev.
    assert (forall n seen i m, length m + i <= n -> dscan (fun j => (0 <=? n - 1 - j) && (n - 1 - j <? n)) seen i m = dscan (fun _ => true) seen i m) as X.
    { intros n seen i m. revert seen i. induction m as [|z m IH]; intros seen i Hl; [reflexivity|]. cbn [dscan length] in *.
      replace ((0 <=? n - 1 - i) && (n - 1 - i <? n)) with true by (symmetry; apply andb_true_iff; split; [apply Nat.leb_le; lia|apply Nat.ltb_lt; lia]).
      rewrite !IH by lia. reflexivity. }
    rewrite X by (rewrite rev_length; lia). apply dscan_nodup.
Qed.
(* which occurrence stays *)
Lemma remove_dup_examples :
  remove_dup true 0 None [1; 2; 1; 3; 2; 4]%Z = [1; 2; 3; 4]%Z /\
  remove_dup false 0 None [1; 2; 1; 3; 2; 4]%Z = [1; 3; 2; 4]%Z /\
  remove_dup true 1 None [1; 2; 1; 2; 1]%Z = [1; 2; 1]%Z /\
  remove_dup false 0 (Some 3) [1; 2; 1; 2; 1]%Z = [2; 1; 2; 1]%Z.
Proof. repeat split; vm_compute; reflexivity. Qed.
