(* C06 — the slice model refines the cons-cell reference machine: a simulation relation between slice
   states and cons heaps, preserved by every guarded operation for every capacity. *)
From C06 Require Import Model Spec Proofs.

(* ghost map: for every backing array the cell that stands for its position 0 and the number of
   positions in use (the positions behind are spare capacity no list reaches) *)
Definition gmap := list (nat * nat).
Definition gbase (g : gmap) (a : nat) : nat := fst (nth a g (0, 0)).
Definition gused (g : gmap) (a : nat) : nat := snd (nth a g (0, 0)).

(* slices on one array ending at its used length <-> variables pointing into one chain of cells *)
Record Rel (nv : nat) (g : gmap) (st : state) (c : cheap) : Prop := mkRel {
  R_len : length g = length (hp st);
  R_vars : length (vars st) = nv;
  R_cvars : length (cvars c) = nv;
  R_arr : forall a, a < length g ->
      gused g a <= length (arr (hp st) a) /\ gbase g a + gused g a <= length (cells c);
  R_cell : forall a i, a < length g -> i < gused g a ->
      nth_error (cells c) (gbase g a + i) =
      Some {| car := nth i (arr (hp st) a) 0%Z; cdr := if S i <? gused g a then Some (gbase g a + S i) else None |};
  R_disj : forall a a', a < a' -> a' < length g -> gbase g a + gused g a <= gbase g a';
  R_var : forall w, match live st w with
                    | None => cget c w = None
                    | Some s => s_arr s < length g /\ s_off s + s_len s = gused g (s_arr s) /\
                                cget c w = Some (gbase g (s_arr s) + s_off s)
                    end }.

(* ---------- lists ---------- *)
Lemma nth_error_set_nth_same {A} (l : list A) n x : n < length l -> nth_error (set_nth n x l) n = Some x.
Proof. revert n; induction l as [|y l IH]; intros [|n] H; cbn in *; try lia; [reflexivity|apply IH; lia]. Qed.
Lemma nth_error_set_nth_other {A} (l : list A) n m x : n <> m -> nth_error (set_nth n x l) m = nth_error l m.
Proof.
  revert n m; induction l as [|y l IH]; intros [|n] [|m] H; cbn; try reflexivity; try congruence.
  apply IH; congruence.
Qed.
Lemma skipn_cons_nth {A} (l : list A) d : forall i, i < length l -> skipn i l = nth i l d :: skipn (S i) l.
Proof. induction l as [|y l IH]; intros [|i] H; cbn in *; try lia; [reflexivity|apply IH; lia]. Qed.
Lemma ids_none cs fuel : ids cs fuel None = [].
Proof. destruct fuel; reflexivity. Qed.
Lemma nth_cdr_none cs n : nth_cdr cs n None = None.
Proof. induction n; cbn; auto. Qed.
Lemma length_mkchain xs : forall b, length (mkchain b xs) = length xs.
Proof. induction xs as [|x xs IH]; intros b; cbn; [reflexivity|rewrite IH; reflexivity]. Qed.
Lemma mkchain_nth xs : forall b i, i < length xs ->
  nth_error (mkchain b xs) i = Some {| car := nth i xs 0%Z; cdr := if S i <? length xs then Some (b + S i) else None |}.
Proof.
  induction xs as [|x xs IH]; intros b [|i] H; cbn [length] in H; try lia.
  - cbn [mkchain nth_error nth length]. destruct xs; cbn; [reflexivity|]. rewrite Nat.add_1_r. reflexivity.
  - cbn [mkchain nth_error nth length]. rewrite IH by lia. replace (S b + S i) with (b + S (S i)) by lia.
    change (S (S i) <? S (length xs)) with (S i <? length xs). reflexivity.
Qed.
Lemma length_set_car cs k x : length (set_car cs k x) = length cs.
Proof. unfold set_car. destruct (nth_error cs k); [apply length_set_nth|reflexivity]. Qed.
Lemma nth_error_set_car_same cs k x y : nth_error cs k = Some y -> nth_error (set_car cs k x) k = Some {| car := x; cdr := cdr y |}.
Proof.
  intros H. unfold set_car. rewrite H. apply nth_error_set_nth_same. apply nth_error_Some. congruence.
Qed.
Lemma nth_error_set_car_other cs k x k' : k' <> k -> nth_error (set_car cs k x) k' = nth_error cs k'.
Proof. intros H. unfold set_car. destruct (nth_error cs k); [apply nth_error_set_nth_other; congruence|reflexivity]. Qed.
Lemma length_insert x l : length (insert x l) = S (length l).
Proof. induction l as [|y l IH]; cbn; [reflexivity|]. destruct (x <=? y)%Z; cbn; [reflexivity|rewrite IH; reflexivity]. Qed.
Lemma length_isort l : length (isort l) = length l.
Proof. induction l as [|x l IH]; [reflexivity|]. change (isort (x :: l)) with (insert x (isort l)). rewrite length_insert, IH. reflexivity. Qed.

(* ---------- walking a chain of the relation ---------- *)
Section Walk.
  Variables (nv : nat) (g : gmap) (st : state) (c : cheap).
  Hypothesis HR : Rel nv g st c.

  Lemma walk_ids a : a < length g -> forall n i fuel, i + S n = gused g a -> S n <= fuel ->
    ids (cells c) fuel (Some (gbase g a + i)) = seq (gbase g a + i) (S n).
  Proof.
    intros Ha. induction n as [|n IH]; intros i fuel Hi Hf; (destruct fuel as [|f]; [lia|]); cbn [ids];
      rewrite (R_cell _ _ _ _ HR a i Ha) by lia; cbn [cdr].
    - replace (S i <? gused g a) with false by (symmetry; apply Nat.ltb_ge; lia). rewrite ids_none. reflexivity.
    - replace (S i <? gused g a) with true by (symmetry; apply Nat.ltb_lt; lia).
      rewrite (IH (S i) f) by lia. cbn [seq]. rewrite <- plus_n_Sm. reflexivity.
  Qed.
  Lemma chain_at a i : a < length g -> i < gused g a ->
    chain c (Some (gbase g a + i)) = seq (gbase g a + i) (gused g a - i).
  Proof.
    intros Ha Hi. unfold chain. destruct (R_arr _ _ _ _ HR a Ha) as [_ Hc].
    replace (gused g a - i) with (S (gused g a - i - 1)) by lia. apply walk_ids; [exact Ha|lia|lia].
  Qed.
  Lemma cars_at a : a < length g -> forall n i, i + n <= gused g a ->
    map (car_at (cells c)) (seq (gbase g a + i) n) = firstn n (skipn i (arr (hp st) a)).
  Proof.
    intros Ha. destruct (R_arr _ _ _ _ HR a Ha) as [Hu _].
    induction n as [|n IH]; intros i Hi; [reflexivity|]. cbn [seq map].
    rewrite (skipn_cons_nth _ 0%Z i) by lia. cbn [firstn]. f_equal.
    - unfold car_at. rewrite (R_cell _ _ _ _ HR a i Ha) by lia. reflexivity.
    - rewrite plus_n_Sm. apply IH. lia.
  Qed.
  Lemma clist_at a i : a < length g -> i < gused g a ->
    clist c (Some (gbase g a + i)) = firstn (gused g a - i) (skipn i (arr (hp st) a)).
  Proof. intros Ha Hi. unfold clist. rewrite chain_at by assumption. apply cars_at; [exact Ha|lia]. Qed.
  Lemma nth_cdr_at a : a < length g -> forall n i, i < gused g a ->
    nth_cdr (cells c) n (Some (gbase g a + i)) = if i + n <? gused g a then Some (gbase g a + (i + n)) else None.
  Proof.
    intros Ha. induction n as [|n IH]; intros i Hi; cbn [nth_cdr].
    - rewrite Nat.add_0_r. replace (i <? gused g a) with true by (symmetry; apply Nat.ltb_lt; lia). reflexivity.
    - cbn [cdr_at]. rewrite (R_cell _ _ _ _ HR a i Ha Hi). cbn [cdr].
      destruct (S i <? gused g a) eqn:E.
      + apply Nat.ltb_lt in E. rewrite (IH (S i) E). replace (S i + n) with (i + S n) by lia. reflexivity.
      + apply Nat.ltb_ge in E. rewrite nth_cdr_none. replace (i + S n <? gused g a) with false by (symmetry; apply Nat.ltb_ge; lia). reflexivity.
  Qed.

  Lemma live_none_contents w : live st w = None -> vcontents st w = [].
  Proof.
    unfold live, vcontents. destruct (getv st w) as [s|]; [|reflexivity]. destruct (s_len s =? 0) eqn:E; [|discriminate].
    apply Nat.eqb_eq in E. intros _. cbn. rewrite E. reflexivity.
  Qed.
  Lemma live_rel w s : live st w = Some s ->
    s_arr s < length g /\ s_off s + s_len s = gused g (s_arr s) /\ cget c w = Some (gbase g (s_arr s) + s_off s) /\
    getv st w = Some s /\ s_len s <> 0.
  Proof.
    intros H. pose proof (R_var _ _ _ _ HR w) as Hv. rewrite H in Hv. destruct Hv as (A & B & C).
    apply live_some in H as [H1 H2]. auto.
  Qed.
  (* the two machines agree on the contents of every variable *)
  Lemma Rel_contents w : vcontents st w = ccontents c w.
  Proof.
    unfold ccontents. destruct (live st w) as [s|] eqn:El.
    - destruct (live_rel w s El) as (Ha & He & Hc & Hg & Hn). rewrite Hc, clist_at by (assumption || lia).
      unfold vcontents. rewrite Hg. cbn [contents]. f_equal. lia.
    - pose proof (R_var _ _ _ _ HR w) as Hv. rewrite El in Hv. rewrite Hv, (live_none_contents w El).
      unfold clist, chain. rewrite ids_none. reflexivity.
  Qed.
  Lemma Rel_length w s : getv st w = Some s -> length (vcontents st w) = s_len s.
  Proof.
    intros Hg. destruct (Nat.eq_dec (s_len s) 0) as [E|E].
    - unfold vcontents. rewrite Hg. cbn. rewrite E. reflexivity.
    - pose proof (live_of_getv st w s Hg E) as El. destruct (live_rel w s El) as (Ha & He & _).
      destruct (R_arr _ _ _ _ HR _ Ha) as [Hu _]. unfold vcontents. rewrite Hg. cbn. rewrite firstn_length, skipn_length. lia.
  Qed.
End Walk.

(* ---------- the relation is preserved by the elementary updates ---------- *)
Lemma cget_cset_same c d p : d < length (cvars c) -> cget (cset c d p) d = p.
Proof. intros H. unfold cget, cset; cbn. apply nth_set_nth_same, H. Qed.
Lemma cget_cset_other c d p w : w <> d -> cget (cset c d p) w = cget c w.
Proof. intros H. unfold cget, cset; cbn. apply nth_set_nth_other. congruence. Qed.

(* a slice and a pointer that stand for the same list *)
Definition ptr_ok (g : gmap) (o : option slice) (p : option nat) : Prop :=
  match norm o with
  | None => p = None
  | Some s => s_arr s < length g /\ s_off s + s_len s = gused g (s_arr s) /\ p = Some (gbase g (s_arr s) + s_off s)
  end.
Lemma ptr_ok_norm g o p : ptr_ok g (norm o) p <-> ptr_ok g o p.
Proof. unfold ptr_ok. rewrite norm_idem. tauto. Qed.

(* U1: a variable is set to an existing list *)
Lemma Rel_upd nv g st c d o p :
  Rel nv g st c -> d < nv -> ptr_ok g o p -> Rel nv g (upd st (hp st) d o) (cset c d p).
Proof.
  intros HR Hd Hp. pose proof (R_vars _ _ _ _ HR) as Hv. pose proof (R_cvars _ _ _ _ HR) as Hcv.
  constructor; cbn [hp upd vars cset cells cvars].
  - apply (R_len _ _ _ _ HR).
  - rewrite length_set_nth. exact Hv.
  - rewrite length_set_nth. exact Hcv.
  - apply (R_arr _ _ _ _ HR).
  - apply (R_cell _ _ _ _ HR).
  - apply (R_disj _ _ _ _ HR).
  - intros w. rewrite live_upd by lia. destruct (Nat.eqb_spec w d) as [->|Hn].
    + rewrite cget_cset_same by lia. exact Hp.
    + rewrite cget_cset_other by exact Hn. apply (R_var _ _ _ _ HR).
Qed.
Lemma Rel_setv nv g st c d o p :
  Rel nv g st c -> d < nv -> ptr_ok g o p -> Rel nv g (setv st d o) (cset c d p).
Proof. intros HR Hd Hp. rewrite setv_upd0. apply Rel_upd; [exact HR|exact Hd|apply ptr_ok_norm, Hp]. Qed.
Lemma ptr_ok_none g : ptr_ok g None None.
Proof. reflexivity. Qed.
Lemma ptr_ok_var nv g st c w : Rel nv g st c -> ptr_ok g (getv st w) (cget c w).
Proof. intros HR. unfold ptr_ok. rewrite <- live_norm. apply (R_var _ _ _ _ HR). Qed.
(* a tail of a live list *)
Lemma ptr_ok_tail nv g st c w s n : Rel nv g st c -> live st w = Some s ->
  ptr_ok g (Some {| s_arr := s_arr s; s_off := s_off s + n; s_len := s_len s - n |}) (nth_cdr (cells c) n (cget c w)).
Proof.
  intros HR El. destruct (live_rel _ _ _ _ HR w s El) as (Ha & He & Hc & Hg & Hn).
  rewrite Hc, (nth_cdr_at _ _ _ _ HR _ Ha) by lia. unfold ptr_ok, norm. cbn [s_len s_arr s_off].
  destruct (s_len s - n =? 0) eqn:E.
  - apply Nat.eqb_eq in E. replace (s_off s + n <? gused g (s_arr s)) with false by (symmetry; apply Nat.ltb_ge; lia). reflexivity.
  - apply Nat.eqb_neq in E. replace (s_off s + n <? gused g (s_arr s)) with true by (symmetry; apply Nat.ltb_lt; lia).
    cbn [s_len s_arr s_off]. repeat split; [exact Ha|lia].
Qed.

Lemma gbase_app_old g x a : a < length g -> gbase (g ++ [x]) a = gbase g a.
Proof. intros H. unfold gbase. rewrite app_nth1 by exact H. reflexivity. Qed.
Lemma gused_app_old g x a : a < length g -> gused (g ++ [x]) a = gused g a.
Proof. intros H. unfold gused. rewrite app_nth1 by exact H. reflexivity. Qed.
Lemma gbase_app_new g x : gbase (g ++ [x]) (length g) = fst x.
Proof. unfold gbase. rewrite nth_middle. reflexivity. Qed.
Lemma gused_app_new g x : gused (g ++ [x]) (length g) = snd x.
Proof. unfold gused. rewrite nth_middle. reflexivity. Qed.

Lemma cfresh_nil c d : cfresh c d [] = cset c d None.
Proof. unfold cfresh, cset. cbn. rewrite app_nil_r. reflexivity. Qed.
Lemma fresh_nil st d cap : fresh st d [] cap = setv st d None.
Proof. reflexivity. Qed.

(* U2: a variable is set to a newly built list *)
Lemma Rel_fresh nv g st c d xs cap :
  Rel nv g st c -> d < nv -> exists g', Rel nv g' (fresh st d xs cap) (cfresh c d xs).
Proof.
  intros HR Hd. destruct xs as [|x xs].
  - exists g. rewrite fresh_nil, cfresh_nil. apply Rel_setv; [exact HR|exact Hd|apply ptr_ok_none].
  - pose proof (R_vars _ _ _ _ HR) as Hv. pose proof (R_cvars _ _ _ _ HR) as Hcv. pose proof (R_len _ _ _ _ HR) as Hl.
    set (ys := x :: xs) in *. assert (Hys : length ys = S (length xs)) by reflexivity.
    exists (g ++ [(length (cells c), length ys)]).
    rewrite fresh_upd. destruct (alloc (hp st) ys cap) as [h' r] eqn:Ea.
    destruct (alloc_spec _ _ _ _ _ Ea) as [-> ->]; [discriminate|]. cbn [fst snd].
    assert (Hnorm : norm (Some {| s_arr := length (hp st); s_off := 0; s_len := length ys |}) =
                    Some {| s_arr := length (hp st); s_off := 0; s_len := length ys |}) by (unfold norm; cbn [s_len]; rewrite Hys; reflexivity).
    rewrite Hnorm.
    constructor; cbn [hp upd vars cfresh cells cvars].
    + rewrite !app_length. cbn. lia.
    + rewrite length_set_nth. exact Hv.
    + rewrite length_set_nth. exact Hcv.
    + intros a Ha. rewrite app_length in Ha |- *. cbn [length] in Ha. rewrite length_mkchain.
      destruct (Nat.eq_dec a (length g)) as [->|Hn].
      * rewrite gbase_app_new, gused_app_new. cbn [fst snd]. split; [|lia].
        rewrite Hl. unfold arr. rewrite nth_middle, app_length. lia.
      * assert (Ha' : a < length g) by lia. rewrite gbase_app_old, gused_app_old by exact Ha'.
        destruct (R_arr _ _ _ _ HR a Ha') as [A B]. rewrite arr_app_old by lia. split; [exact A|lia].
    + intros a i Ha Hi. rewrite app_length in Ha. cbn [length] in Ha.
      destruct (Nat.eq_dec a (length g)) as [->|Hn].
      * rewrite gbase_app_new, gused_app_new in *. cbn [fst snd] in *.
        rewrite nth_error_app2 by lia. replace (length (cells c) + i - length (cells c)) with i by lia.
        rewrite mkchain_nth by exact Hi. rewrite Hl. unfold arr. rewrite nth_middle, app_nth1 by exact Hi. reflexivity.
      * assert (Ha' : a < length g) by lia. rewrite gbase_app_old, gused_app_old in * by exact Ha'.
        destruct (R_arr _ _ _ _ HR a Ha') as [A B]. rewrite nth_error_app1 by lia. rewrite arr_app_old by lia.
        apply (R_cell _ _ _ _ HR a i Ha' Hi).
    + intros a a' Haa Ha'. rewrite app_length in Ha'. cbn [length] in Ha'.
      assert (Ha : a < length g) by lia. rewrite gbase_app_old, gused_app_old by exact Ha.
      destruct (Nat.eq_dec a' (length g)) as [->|Hn].
      * rewrite gbase_app_new. cbn [fst]. apply (R_arr _ _ _ _ HR a Ha).
      * rewrite gbase_app_old by lia. apply (R_disj _ _ _ _ HR); lia.
    + intros w. rewrite live_upd by lia. unfold cget, cfresh. cbn [cvars]. destruct (Nat.eqb_spec w d) as [->|Hn].
      * rewrite Hnorm, nth_set_nth_same by lia. cbn [s_arr s_off s_len]. rewrite app_length. cbn [length]. rewrite <- Hl.
        rewrite gbase_app_new, gused_app_new. cbn [fst snd]. repeat split; [lia|]. subst ys. cbn [length]. rewrite Nat.add_0_r. reflexivity.
      * rewrite nth_set_nth_other by congruence. pose proof (R_var _ _ _ _ HR w) as Hw. destruct (live st w) as [s|]; [|exact Hw].
        destruct Hw as (A & B & C). rewrite app_length, gbase_app_old, gused_app_old by exact A. cbn [length]. repeat split; [lia|exact B|exact C].
Qed.

(* positions of different arrays, or different positions of one array, stand for different cells *)
Lemma cell_inj nv g st c a i a' i' : Rel nv g st c -> a < length g -> a' < length g -> i < gused g a -> i' < gused g a' ->
  gbase g a + i = gbase g a' + i' -> a = a' /\ i = i'.
Proof.
  intros HR Ha Ha' Hi Hi' E. destruct (Nat.lt_trichotomy a a') as [H|[H|H]].
  - pose proof (R_disj _ _ _ _ HR a a' H Ha'). lia.
  - subst a'. split; [reflexivity|lia].
  - pose proof (R_disj _ _ _ _ HR a' a H Ha). lia.
Qed.

(* U3: one element is overwritten *)
Lemma Rel_write nv g st c a i x :
  Rel nv g st c -> a < length g -> i < gused g a ->
  Rel nv g {| hp := write (hp st) a i x; vars := vars st |} (cwrite c (gbase g a + i) x).
Proof.
  intros HR Ha Hi. pose proof (R_len _ _ _ _ HR) as Hl.
  constructor; cbn [hp vars cwrite cells cvars].
  - rewrite length_write. exact Hl.
  - apply (R_vars _ _ _ _ HR).
  - apply (R_cvars _ _ _ _ HR).
  - intros a' Ha'. rewrite length_arr_write, length_set_car. apply (R_arr _ _ _ _ HR a' Ha').
  - intros a' i' Ha' Hi'. destruct (Nat.eq_dec (gbase g a' + i') (gbase g a + i)) as [E|E].
    + destruct (cell_inj _ _ _ _ _ _ _ _ HR Ha' Ha Hi' Hi E) as [-> ->].
      rewrite (nth_error_set_car_same _ _ _ _ (R_cell _ _ _ _ HR a i Ha Hi)). cbn [cdr].
      destruct (R_arr _ _ _ _ HR a Ha) as [A _]. rewrite arr_write_same by lia. rewrite nth_set_nth_same by lia. reflexivity.
    + rewrite nth_error_set_car_other by exact E. rewrite (R_cell _ _ _ _ HR a' i' Ha' Hi'). f_equal. f_equal. symmetry.
      destruct (Nat.eq_dec a' a) as [->|Hn].
      * rewrite arr_write_same by lia. apply nth_set_nth_other. intros ->. apply E. reflexivity.
      * rewrite arr_write_other by exact Hn. reflexivity.
  - apply (R_disj _ _ _ _ HR).
  - apply (R_var _ _ _ _ HR).
Qed.

(* U4: a window is overwritten *)
Lemma Rel_write_all nv g a xs : forall st c i,
  Rel nv g st c -> a < length g -> i + length xs <= gused g a ->
  Rel nv g {| hp := write_all (hp st) a i xs; vars := vars st |} (cwrite_all c (seq (gbase g a + i) (length xs)) xs).
Proof.
  induction xs as [|x xs IH]; intros st c i HR Ha Hi.
  - cbn. destruct HR; constructor; assumption.
  - cbn [length] in Hi. cbn [write_all length seq].
    pose proof (Rel_write nv g st c a i x HR Ha ltac:(lia)) as H1.
    specialize (IH _ _ (S i) H1 Ha ltac:(cbn [length]; lia)). cbn [hp vars] in IH.
    rewrite <- plus_n_Sm in IH. exact IH.
Qed.

(* ---------- helpers for the operations ---------- *)
Lemma live_getv_none st w : getv st w = None -> live st w = None.
Proof. unfold live. intros ->. reflexivity. Qed.
Lemma live_dead st w s : getv st w = Some s -> s_len s = 0 -> live st w = None.
Proof. unfold live. intros -> H. apply Nat.eqb_eq in H. rewrite H. reflexivity. Qed.
Lemma cget_nil nv g st c w : Rel nv g st c -> live st w = None -> cget c w = None.
Proof. intros HR H. pose proof (R_var _ _ _ _ HR w) as Hv. rewrite H in Hv. exact Hv. Qed.

Lemma tail_ok nv g st c src s n : Rel nv g st c -> getv st src = Some s ->
  ptr_ok g (Some {| s_arr := s_arr s; s_off := s_off s + n; s_len := s_len s - n |}) (nth_cdr (cells c) n (cget c src)).
Proof.
  intros HR Es. destruct (Nat.eq_dec (s_len s) 0) as [E|E].
  - rewrite (cget_nil _ _ _ _ _ HR (live_dead _ _ _ Es E)), nth_cdr_none. unfold ptr_ok, norm. cbn [s_len]. rewrite E. reflexivity.
  - apply (ptr_ok_tail nv g st c src s n HR). apply live_of_getv; assumption.
Qed.
Lemma Rel_setv_tail nv g st c src dst n s o : Rel nv g st c -> dst < nv -> getv st src = Some s ->
  norm o = norm (Some {| s_arr := s_arr s; s_off := s_off s + n; s_len := s_len s - n |}) ->
  Rel nv g (setv st dst o) (cset c dst (nth_cdr (cells c) n (cget c src))).
Proof.
  intros HR Hd Es Ho. rewrite setv_upd0, Ho. apply Rel_upd; [exact HR|exact Hd|]. apply ptr_ok_norm. eapply tail_ok; eassumption.
Qed.
Lemma Rel_setv_nil nv g st c src dst n : Rel nv g st c -> dst < nv -> live st src = None ->
  Rel nv g (setv st dst None) (cset c dst (nth_cdr (cells c) n (cget c src))).
Proof.
  intros HR Hd El. rewrite (cget_nil _ _ _ _ _ HR El), nth_cdr_none. apply Rel_setv; [exact HR|exact Hd|apply ptr_ok_none].
Qed.
Lemma Rel_alias nv g st c src dst : Rel nv g st c -> dst < nv -> Rel nv g (setv st dst (getv st src)) (cset c dst (cget c src)).
Proof. intros HR Hd. apply Rel_setv; [exact HR|exact Hd|eapply ptr_ok_var; exact HR]. Qed.
Lemma Rel_alias_some nv g st c src dst s : Rel nv g st c -> dst < nv -> getv st src = Some s ->
  Rel nv g (setv st dst (Some s)) (cset c dst (cget c src)).
Proof. intros HR Hd Es. rewrite <- Es. apply Rel_alias; assumption. Qed.
Lemma Rel_setv_none nv g st c dst : Rel nv g st c -> dst < nv -> Rel nv g (setv st dst None) (cset c dst None).
Proof. intros HR Hd. apply Rel_setv; [exact HR|exact Hd|apply ptr_ok_none]. Qed.
Lemma Rel_fresh_nil nv g st c dst xs : Rel nv g st c -> dst < nv -> xs = [] -> Rel nv g (setv st dst None) (cfresh c dst xs).
Proof. intros HR Hd ->. rewrite cfresh_nil. apply Rel_setv_none; assumption. Qed.
Lemma vcontents_none st w : getv st w = None -> vcontents st w = [].
Proof. unfold vcontents. intros ->. reflexivity. Qed.
Lemma vcontents_some st w s : getv st w = Some s -> vcontents st w = contents (hp st) (Some s).
Proof. unfold vcontents. intros ->. reflexivity. Qed.
Lemma Rel_cset_same nv g st c v : Rel nv g st c -> v < nv -> Rel nv g st (cset c v (cget c v)).
Proof.
  intros HR Hv. pose proof (R_cvars _ _ _ _ HR) as Hcv. destruct HR; constructor; cbn [cset cells cvars]; try assumption.
  - rewrite length_set_nth. assumption.
  - intros w. destruct (Nat.eq_dec w v) as [->|Hn].
    + rewrite cget_cset_same by lia. apply R_var0.
    + rewrite cget_cset_other by exact Hn. apply R_var0.
Qed.
(* the live variable v, the chain of its cells, its window *)
Lemma chain_live nv g st c v s : Rel nv g st c -> live st v = Some s ->
  chain c (cget c v) = seq (gbase g (s_arr s) + s_off s) (s_len s).
Proof.
  intros HR El. destruct (live_rel _ _ _ _ HR v s El) as (Ha & He & Hc & Hg & Hn).
  rewrite Hc, (chain_at _ _ _ _ HR) by (assumption || lia). f_equal. lia.
Qed.

(* ---------- every guarded operation preserves the relation, whatever capacity is chosen ---------- *)
Theorem sim_step nv g st c o cap :
  Rel nv g st c -> dst_of o < nv -> g_step st o = true -> exists g', Rel nv g' (step st o cap) (cstep c o).
Proof.
  intros HR Hd Hg. pose proof (Rel_contents _ _ _ _ HR) as HC.
  destruct o; cbn [dst_of] in Hd; cbn [step cstep]; rewrite <- ?HC; try discriminate Hg.
  - (* list *) eapply Rel_fresh; eassumption.
  - (* cons *) eapply Rel_fresh; eassumption.
  - (* list* *) destruct xs; [exists g; apply Rel_alias; assumption|eapply Rel_fresh; eassumption].
  - (* cdr *) exists g. change (cdr_at (cells c) (cget c src)) with (nth_cdr (cells c) 1 (cget c src)).
    destruct (getv st src) as [s|] eqn:Es; [|apply Rel_setv_nil; [assumption|assumption|apply live_getv_none, Es]].
    destruct (s_len s =? 0) eqn:El.
    + apply Rel_setv_nil; [assumption|assumption|]. apply (live_dead _ _ _ Es). apply Nat.eqb_eq, El.
    + apply (Rel_setv_tail nv g st c src dst 1 s); [assumption|assumption|exact Es|]. rewrite Nat.add_1_r. reflexivity.
  - (* nthcdr *) exists g.
    destruct (getv st src) as [s|] eqn:Es; [|apply Rel_setv_nil; [assumption|assumption|apply live_getv_none, Es]].
    destruct (s_len s <=? n) eqn:El.
    + apply (Rel_setv_tail nv g st c src dst n s); [assumption|assumption|exact Es|]. apply Nat.leb_le in El.
      unfold norm. cbn [s_len]. replace (s_len s - n =? 0) with true by (symmetry; apply Nat.eqb_eq; lia). reflexivity.
    + apply (Rel_setv_tail nv g st c src dst n s); [assumption|assumption|exact Es|reflexivity].
  - (* member *) exists g.
    destruct (getv st src) as [s|] eqn:Es.
    + rewrite (vcontents_some _ _ _ Es). destruct (index_of x (contents (hp st) (Some s))) as [i|] eqn:Ei.
      * apply (Rel_setv_tail nv g st c src dst i s); [assumption|assumption|exact Es|reflexivity].
      * apply Rel_setv_none; assumption.
    + rewrite (vcontents_none _ _ Es). cbn [index_of]. apply Rel_setv_none; assumption.
  - (* last *)
    destruct (getv st src) as [s|] eqn:Es.
    + rewrite (Rel_length _ _ _ _ HR src s Es), (vcontents_some _ _ _ Es). destruct (s_len s <=? 1).
      * exists g. apply Rel_alias_some; assumption.
      * eapply Rel_fresh; eassumption.
    + rewrite (vcontents_none _ _ Es). cbn [length Nat.leb]. exists g. rewrite <- Es. apply Rel_alias; assumption.
  - (* butlast *)
    destruct (getv st src) as [s|] eqn:Es.
    + rewrite (Rel_length _ _ _ _ HR src s Es), (vcontents_some _ _ _ Es). destruct (s_len s <=? 1) eqn:El.
      * exists g. apply Rel_fresh_nil; [assumption|assumption|]. apply Nat.leb_le in El.
        replace (s_len s - 1) with 0 by lia. reflexivity.
      * eapply Rel_fresh; eassumption.
    + rewrite (vcontents_none _ _ Es). exists g. apply Rel_fresh_nil; [assumption|assumption|reflexivity].
  - (* subseq *)
    unfold g_step in Hg. cbn [g_inv andb] in Hg.
    destruct (getv st src) as [s0|] eqn:Es; [|discriminate Hg].
    rewrite (Rel_length _ _ _ _ HR src s0 Es), (vcontents_some _ _ _ Es).
    destruct ((s <=? e) && (e <=? s_len s0)); [eapply Rel_fresh; eassumption|exists g; exact HR].
  - (* copy-list *)
    destruct (getv st src) as [s|] eqn:Es.
    + rewrite (vcontents_some _ _ _ Es). eapply Rel_fresh; eassumption.
    + rewrite (vcontents_none _ _ Es). exists g. apply Rel_fresh_nil; [assumption|assumption|reflexivity].
  - (* reverse *)
    destruct (getv st src) as [s|] eqn:Es.
    + rewrite (vcontents_some _ _ _ Es). destruct (s_len s =? 0) eqn:El; [|eapply Rel_fresh; eassumption].
      exists g. apply Nat.eqb_eq in El. cbn [contents]. rewrite El. cbn [firstn rev]. rewrite cfresh_nil.
      apply Rel_setv; [assumption|assumption|]. unfold ptr_ok, norm. apply Nat.eqb_eq in El. rewrite El. reflexivity.
    + rewrite (vcontents_none _ _ Es). exists g. apply Rel_fresh_nil; [assumption|assumption|reflexivity].
  - (* append *) eapply Rel_fresh; eassumption.
  - (* add *) eapply Rel_fresh; eassumption.
  - (* push *) eapply Rel_fresh; eassumption.
  - (* pop *) exists g. change (cdr_at (cells c) (cget c v)) with (nth_cdr (cells c) 1 (cget c v)).
    destruct (getv st v) as [s|] eqn:Es.
    + destruct (s_len s =? 0) eqn:El.
      * apply Nat.eqb_eq in El. rewrite (cget_nil _ _ _ _ _ HR (live_dead _ _ _ Es El)), nth_cdr_none.
        rewrite <- (cget_nil _ _ _ _ _ HR (live_dead _ _ _ Es El)). apply Rel_cset_same; assumption.
      * rewrite setv_raw_upd. apply Rel_upd; [assumption|assumption|]. rewrite <- Nat.add_1_r. eapply tail_ok; eassumption.
    + rewrite (cget_nil _ _ _ _ _ HR (live_getv_none _ _ Es)), nth_cdr_none.
      rewrite <- (cget_nil _ _ _ _ _ HR (live_getv_none _ _ Es)). apply Rel_cset_same; assumption.
  - (* setf car *) exists g.
    destruct (getv st v) as [s|] eqn:Es.
    + destruct (0 <? s_len s) eqn:El.
      * apply Nat.ltb_lt in El. destruct (live_rel _ _ _ _ HR v s (live_of_getv _ _ _ Es ltac:(lia))) as (Ha & He & Hc & _).
        rewrite Hc. apply Rel_write; [assumption|assumption|lia].
      * apply Nat.ltb_ge in El. rewrite (cget_nil _ _ _ _ _ HR (live_dead _ _ _ Es ltac:(lia))). exact HR.
    + rewrite (cget_nil _ _ _ _ _ HR (live_getv_none _ _ Es)). exact HR.
  - (* setf nth *) exists g.
    destruct (getv st v) as [s|] eqn:Es.
    + destruct (Nat.eq_dec (s_len s) 0) as [E0|E0].
      * replace (i <? s_len s) with false by (symmetry; apply Nat.ltb_ge; lia).
        rewrite (cget_nil _ _ _ _ _ HR (live_dead _ _ _ Es E0)), nth_cdr_none. exact HR.
      * destruct (live_rel _ _ _ _ HR v s (live_of_getv _ _ _ Es E0)) as (Ha & He & Hc & _).
        rewrite Hc, (nth_cdr_at _ _ _ _ HR _ Ha) by lia. destruct (i <? s_len s) eqn:El.
        -- apply Nat.ltb_lt in El. replace (s_off s + i <? gused g (s_arr s)) with true by (symmetry; apply Nat.ltb_lt; lia).
           apply Rel_write; [assumption|assumption|lia].
        -- apply Nat.ltb_ge in El. replace (s_off s + i <? gused g (s_arr s)) with false by (symmetry; apply Nat.ltb_ge; lia). exact HR.
    + rewrite (cget_nil _ _ _ _ _ HR (live_getv_none _ _ Es)), nth_cdr_none. exact HR.
  - (* setf elt *) exists g.
    destruct (getv st v) as [s|] eqn:Es.
    + destruct (Nat.eq_dec (s_len s) 0) as [E0|E0].
      * replace (i <? s_len s) with false by (symmetry; apply Nat.ltb_ge; lia).
        rewrite (cget_nil _ _ _ _ _ HR (live_dead _ _ _ Es E0)), nth_cdr_none. exact HR.
      * destruct (live_rel _ _ _ _ HR v s (live_of_getv _ _ _ Es E0)) as (Ha & He & Hc & _).
        rewrite Hc, (nth_cdr_at _ _ _ _ HR _ Ha) by lia. destruct (i <? s_len s) eqn:El.
        -- apply Nat.ltb_lt in El. replace (s_off s + i <? gused g (s_arr s)) with true by (symmetry; apply Nat.ltb_lt; lia).
           apply Rel_write; [assumption|assumption|lia].
        -- apply Nat.ltb_ge in El. replace (s_off s + i <? gused g (s_arr s)) with false by (symmetry; apply Nat.ltb_ge; lia). exact HR.
    + rewrite (cget_nil _ _ _ _ _ HR (live_getv_none _ _ Es)), nth_cdr_none. exact HR.
  - (* rplaca *) exists g.
    destruct (getv st v) as [s|] eqn:Es.
    + destruct (0 <? s_len s) eqn:El.
      * apply Nat.ltb_lt in El. pose proof (live_of_getv _ _ _ Es ltac:(lia)) as Hlive.
        destruct (live_rel _ _ _ _ HR v s Hlive) as (Ha & He & Hc & _).
        rewrite Hc. pose proof (Rel_write nv g st c (s_arr s) (s_off s) x HR Ha ltac:(lia)) as H1.
        apply (Rel_setv nv g _ _ dst (Some s) _ H1 Hd). unfold ptr_ok. rewrite <- (live_norm st v) || idtac.
        unfold norm. replace (s_len s =? 0) with false by (symmetry; apply Nat.eqb_neq; lia). auto.
      * apply Nat.ltb_ge in El. rewrite (cget_nil _ _ _ _ _ HR (live_dead _ _ _ Es ltac:(lia))). exact HR.
    + rewrite (cget_nil _ _ _ _ _ HR (live_getv_none _ _ Es)). exact HR.
  - (* nreverse *) exists g.
    destruct (getv st src) as [s|] eqn:Es.
    + rewrite (vcontents_some _ _ _ Es). destruct (Nat.eq_dec (s_len s) 0) as [E0|E0].
      * pose proof (live_dead _ _ _ Es E0) as Hdead. rewrite (cget_nil _ _ _ _ _ HR Hdead).
        cbn [contents]. rewrite E0. cbn [firstn rev write_all]. unfold chain. rewrite ids_none.
        apply (Rel_setv nv g st c dst (Some s) None HR Hd). unfold ptr_ok, norm. apply Nat.eqb_eq in E0. rewrite E0. reflexivity.
      * pose proof (live_of_getv _ _ _ Es E0) as Hlive. destruct (live_rel _ _ _ _ HR src s Hlive) as (Ha & He & Hc & _).
        rewrite (chain_live _ _ _ _ _ _ HR Hlive).
        assert (Hlen : length (rev (contents (hp st) (Some s))) = s_len s).
        { rewrite rev_length, <- (vcontents_some _ _ _ Es). apply (Rel_length _ _ _ _ HR _ _ Es). }
        rewrite <- Hlen at 1.
        pose proof (Rel_write_all nv g (s_arr s) (rev (contents (hp st) (Some s))) st c (s_off s) HR Ha ltac:(lia)) as H1.
        rewrite Hc. apply (Rel_setv nv g _ _ dst (Some s) _ H1 Hd).
        unfold ptr_ok, norm. replace (s_len s =? 0) with false by (symmetry; apply Nat.eqb_neq; lia). auto.
    + rewrite (vcontents_none _ _ Es), (cget_nil _ _ _ _ _ HR (live_getv_none _ _ Es)). unfold chain. rewrite ids_none.
      apply (Rel_setv_none nv g st c dst HR Hd).
  - (* nconc *)
    destruct (vcontents st a) as [|x ca], (vcontents st b) as [|y cb].
    + exists g. apply Rel_setv_none; assumption.
    + exists g. apply Rel_alias; assumption.
    + exists g. apply Rel_alias; assumption.
    + eapply Rel_fresh; eassumption.
  - (* sort *) exists g.
    destruct (getv st src) as [s|] eqn:Es.
    + rewrite (vcontents_some _ _ _ Es). destruct (Nat.eq_dec (s_len s) 0) as [E0|E0].
      * pose proof (live_dead _ _ _ Es E0) as Hdead. rewrite (cget_nil _ _ _ _ _ HR Hdead).
        cbn [contents]. rewrite E0. cbn [firstn isort fold_right write_all]. unfold chain. rewrite ids_none.
        apply (Rel_setv nv g st c dst (Some s) None HR Hd). unfold ptr_ok, norm. apply Nat.eqb_eq in E0. rewrite E0. reflexivity.
      * pose proof (live_of_getv _ _ _ Es E0) as Hlive. destruct (live_rel _ _ _ _ HR src s Hlive) as (Ha & He & Hc & _).
        rewrite (chain_live _ _ _ _ _ _ HR Hlive).
        assert (Hlen : length (isort (contents (hp st) (Some s))) = s_len s).
        { rewrite length_isort, <- (vcontents_some _ _ _ Es). apply (Rel_length _ _ _ _ HR _ _ Es). }
        rewrite <- Hlen at 1.
        pose proof (Rel_write_all nv g (s_arr s) (isort (contents (hp st) (Some s))) st c (s_off s) HR Ha ltac:(lia)) as H1.
        rewrite Hc. apply (Rel_setv nv g _ _ dst (Some s) _ H1 Hd).
        unfold ptr_ok, norm. replace (s_len s =? 0) with false by (symmetry; apply Nat.eqb_neq; lia). auto.
    + rewrite (vcontents_none _ _ Es), (cget_nil _ _ _ _ _ HR (live_getv_none _ _ Es)). unfold chain. rewrite ids_none.
      apply (Rel_setv_none nv g st c dst HR Hd).
  - (* remove *) eapply Rel_fresh; eassumption.
  - (* mapcar *) eapply Rel_fresh; eassumption.
  - (* remove-if *) eapply Rel_fresh; eassumption.
  - (* remove-duplicates *) eapply Rel_fresh; eassumption.
Qed.

(* ---------- histories ---------- *)
Lemma Rel_init nv : Rel nv [] (init nv) (cinit nv).
Proof.
  constructor; cbn [init cinit hp vars cells cvars length]; try reflexivity; try apply repeat_length; try (intros; lia).
  intros w. unfold live, getv, cget; cbn [init cinit vars cvars].
  destruct (Nat.lt_ge_cases w nv); [rewrite !nth_repeat|rewrite !nth_overflow by (rewrite repeat_length; lia)]; reflexivity.
Qed.

Theorem sim_history nv ops : forall g st c, Rel nv g st c -> guard_ops nv st ops = true ->
  exists g', Rel nv g' (run_ops st ops) (crun c (map fst ops)).
Proof.
  induction ops as [|[o cap] ops IH]; intros g st c HR Hg; [exists g; exact HR|]. cbn in *.
  apply andb_true_iff in Hg as [Hg1 Hg2]. apply andb_true_iff in Hg1 as [Hd Hg1]. apply Nat.ltb_lt in Hd.
  destruct (sim_step nv g st c o cap HR Hd Hg1) as [g1 H1]. apply (IH g1 _ _ H1 Hg2).
Qed.

(* the refinement: after every guarded history, whatever capacities the runtime chose, every variable holds
   exactly the list the cons-cell reference machine computes for the same operations *)
Theorem refines_cons_model nv ops w :
  guard_ops nv (init nv) ops = true ->
  vcontents (run_ops (init nv) ops) w = ccontents (crun (cinit nv) (map fst ops)) w.
Proof.
  intros Hg. destruct (sim_history nv ops [] _ _ (Rel_init nv) Hg) as [g' HR]. apply (Rel_contents _ _ _ _ HR).
Qed.

(* hence the contents never depend on the capacities *)
Corollary contents_capacity_independent nv ops1 ops2 w :
  map fst ops1 = map fst ops2 -> guard_ops nv (init nv) ops1 = true -> guard_ops nv (init nv) ops2 = true ->
  vcontents (run_ops (init nv) ops1) w = vcontents (run_ops (init nv) ops2) w.
Proof. intros E H1 H2. rewrite !refines_cons_model by assumption. rewrite E. reflexivity. Qed.

(* slices on one array <-> variables sharing a tail: two live variables share a cons cell of the reference
   exactly when their slices lie on the same backing array *)
Theorem shares_iff_same_array nv g st c v w s t :
  Rel nv g st c -> live st v = Some s -> live st w = Some t -> (shares c v w = true <-> s_arr s = s_arr t).
Proof.
  intros HR Hv Hw. unfold shares.
  rewrite (chain_live _ _ _ _ _ _ HR Hv), (chain_live _ _ _ _ _ _ HR Hw).
  destruct (live_rel _ _ _ _ HR v s Hv) as (Ha & He & _ & _ & Hn).
  destruct (live_rel _ _ _ _ HR w t Hw) as (Ha' & He' & _ & _ & Hn').
  split.
  - intros H. apply existsb_exists in H as (k & Hk & H). apply existsb_exists in H as (k' & Hk' & H).
    apply Nat.eqb_eq in H. subst k'. apply in_seq in Hk, Hk'.
    assert (E : gbase g (s_arr s) + (k - gbase g (s_arr s)) = gbase g (s_arr t) + (k - gbase g (s_arr t))) by lia.
    apply (cell_inj _ _ _ _ _ _ _ _ HR Ha Ha') in E; [tauto|lia|lia].
  - intros E. apply existsb_exists. exists (gbase g (s_arr s) + gused g (s_arr s) - 1). split; [apply in_seq; lia|].
    apply existsb_exists. exists (gbase g (s_arr s) + gused g (s_arr s) - 1). split; [rewrite <- E in *; apply in_seq; lia|apply Nat.eqb_refl].
Qed.

(* ---------- rplacd: outside the guard the slices are not conses (known finding) ---------- *)
Definition w_rplacd : list (op * nat) :=
  [(OList [1; 2; 3; 4]%Z 0, 4); (OCdr 0 1, 0); (OList [7]%Z 3, 1); (ORplacd 0 3 2, 0)].
Definition w_rplacd_cap (k : nat) : list (op * nat) :=
  [(OList [1; 2]%Z 0, k); (OList [7; 8; 9]%Z 1, 3); (ORplacd 0 1 2, 4)].
Lemma rplacd_not_cons_refuted :
  map (vcontents (run_ops (init 4) w_rplacd)) [0; 1; 2] = [[1; 7; 3; 4]; [7; 3; 4]; [1; 7]]%Z /\
  map (ccontents (crun (cinit 4) (map fst w_rplacd))) [0; 1; 2] = [[1; 7]; [2; 3; 4]; [1; 7]]%Z /\
  guard_ops 4 (init 4) w_rplacd = false /\
  vcontents (run_ops (init 4) (w_rplacd_cap 2)) 0 = [1; 2]%Z /\ vcontents (run_ops (init 4) (w_rplacd_cap 4)) 0 = [1; 7]%Z.
Proof. repeat split; vm_compute; reflexivity. Qed.
