From C06 Require Import Model Spec.
Definition viewt := (list Z * option (aid * nat * nat))%type.
Definition case := (list (op * nat) * list (list viewt))%type.
Fixpoint list_eqb {A} (eqb : A -> A -> bool) (a b : list A) : bool :=
  match a, b with [], [] => true | x :: a', y :: b' => eqb x y && list_eqb eqb a' b' | _, _ => false end.
Definition view_eqb (a b : viewt) : bool :=
  list_eqb Z.eqb (fst a) (fst b) &&
  match snd a, snd b with
  | None, None => true
  | Some (x, y, z), Some (x', y', z') => Nat.eqb x x' && Nat.eqb y y' && Nat.eqb z z'
  | _, _ => false
  end.
Definition NV := 4.
Fixpoint run (st : state) (ops : list (op * nat)) : list (list viewt) :=
  match ops with
  | [] => []
  | (o, c) :: ops' => let st' := step st o c in map (view st') (seq 0 NV) :: run st' ops'
  end.

Definition contents_of (vs : list viewt) : var -> list Z := fun v => fst (nth v vs ([], None)).
(* judge the OBSERVED contents step by step against the cons-cell reference machine run on the same
   operations; returns the number of steps after which some variable differs from the reference inside the
   guarded prefix, and in total *)
Fixpoint judge (st : state) (c : cheap) (guarded : bool) (ops : list (op * nat)) (obs : list (list viewt)) : nat * nat :=
  match ops, obs with
  | (o, cap) :: ops', post :: obs' =>
      let g := guarded && (dst_of o <? NV) && g_step st o in
      let c' := cstep c o in
      let ok := forallb (fun w => zlist_eqb (contents_of post w) (ccontents c' w)) (seq 0 NV) in
      let '(a, b) := judge (step st o cap) c' g ops' obs' in
      ((if g && negb ok then S a else a), (if ok then b else S b))
  | _, _ => (0, 0)
  end.

(* 0 ok.  1: M <> observed, but the observed contents equal the reference inside the guarded prefix.
   2: M <> observed and the observed contents differ from the cons-cell reference inside the guarded prefix.
   3: self-check: M = observed but differs from the reference inside the guarded prefix (the refinement
   theorem would be false) *)
Definition check_case (c : case) : N :=
  let agree := list_eqb (list_eqb view_eqb) (run (init NV) (fst c)) (snd c) in
  let '(ing, _) := judge (init NV) (cinit NV) true (fst c) (snd c) in
  if agree then (if Nat.eqb ing 0 then 0%N else 3%N)
  else if Nat.eqb ing 0 then 1%N else 2%N.
Fixpoint check_all_from (i : N) (cs : list case) : list (N * N) :=
  match cs with
  | [] => []
  | c :: cs' => let r := check_case c in (if N.eqb r 0 then [] else [(i, r)]) ++ check_all_from (N.succ i) cs'
  end.
Definition check_all := check_all_from 0%N.
(* steps inside the guarded prefix, over all cases *)
Fixpoint guarded_len (st : state) (ops : list (op * nat)) : nat :=
  match ops with
  | (o, cap) :: ops' => if (dst_of o <? NV) && g_step st o then S (guarded_len (step st o cap) ops') else 0
  | [] => 0
  end.
Definition guard_count (cs : list case) : N := N.of_nat (fold_left (fun a c => a + guarded_len (init NV) (fst c)) cs 0).
