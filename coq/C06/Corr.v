From C06 Require Import Model Spec.
Definition viewt := (list Z * option (aid * nat * nat))%type.
Definition case := (list (op * nat) * list (list viewt))%type.
Fixpoint list_eqb {A} (eqb : A -> A -> bool) (a b : list A) : bool :=
  match a, b with [], [] => true | x :: a', y :: b' => eqb x y && list_eqb eqb a' b' | _, _ => false end.
Definition view_eqb (a b : viewt) : bool :=
  list_eqb Z.eqb (fst a) (fst b) &&
  match snd a, snd b with
  | None, None => true
  | Some (x, y, z), Some (x', y', z') => Nat.eqb x x' && Nat.eqb y y' && Nat.eqb z z'
  | _, _ => false
  end.
Definition NV := 4.
Fixpoint run (st : state) (ops : list (op * nat)) : list (list viewt) :=
  match ops with
  | [] => []
  | (o, c) :: ops' => let st' := step st o c in map (view st') (seq 0 NV) :: run st' ops'
  end.

Definition contents_of (vs : list viewt) : var -> list Z := fun v => fst (nth v vs ([], None)).
(* judge the OBSERVED contents step by step against the cons-cell reference machine run on the same
   operations; returns the number of steps after which some variable differs from the reference inside the
   guarded prefix, and in total *)
Fixpoint judge (st : state) (c : cheap) (guarded : bool) (ops : list (op * nat)) (obs : list (list viewt)) : nat * nat :=
  match ops, obs with
  | (o, cap) :: ops', post :: obs' =>
      let g := guarded && (dst_of o <? NV) && g_step st o in
      let c' := cstep c o in
      let ok := forallb (fun w => zlist_eqb (contents_of post w) (ccontents c' w)) (seq 0 NV) in
      let '(a, b) := judge (step st o cap) c' g ops' obs' in
      ((if g && negb ok then S a else a), (if ok then b else S b))
  | _, _ => (0, 0)
  end.

(* 0 ok.  1: M <> observed, but the observed contents equal the reference inside the guarded prefix.
   2: M <> observed and the observed contents differ from the cons-cell reference inside the guarded prefix.
   3: self-check: M = observed but differs from the reference inside the guarded prefix (the refinement
   theorem would be false) *)
Definition check_case (c : case) : N :=
  let agree := list_eqb (list_eqb view_eqb) (run (init NV) (fst c)) (snd c) in
  let '(ing, _) := judge (init NV) (cinit NV) true (fst c) (snd c) in
  if agree then (if Nat.eqb ing 0 then 0%N else 3%N)
  else if Nat.eqb ing 0 then 1%N else 2%N.
Fixpoint check_all_from (i : N) (cs : list case) : list (N * N) :=
  match cs with
  | [] => []
  | c :: cs' => let r := check_case c in (if N.eqb r 0 then [] else [(i, r)]) ++ check_all_from (N.succ i) cs'
  end.
Definition check_all := check_all_from 0%N.
(* steps inside the guarded prefix, over all cases *)
Fixpoint guarded_len (st : state) (ops : list (op * nat)) : nat :=
  match ops with
  | (o, cap) :: ops' => if (dst_of o <? NV) && g_step st o then S (guarded_len (step st o cap) ops') else 0
  | [] => 0
  end.
Definition guard_count (cs : list case) : N := N.of_nat (fold_left (fun a c => a + guarded_len (init NV) (fst c)) cs 0).

(* ================= mapping block ================= *)
Definition rowview := (list Z * bool * nat)%type.          (* elements, dotted, array label *)
Definition mcase := ((mfun * list (list Z) * lastcol * nat * Z) *
                     (list rowview * list rowview * list (list Z) * list (list Z)))%type.
(* label of an array: the index of the first item (non-empty inner lists, then rows) lying on it *)
Fixpoint first_index (a : nat) (l : list nat) : nat :=
  match l with [] => 0 | b :: l' => if Nat.eqb a b then 0 else S (first_index a l') end.
Definition arr_of (o : obj) : option nat := match o with ORef s => Some (s_arr s) | _ => None end.
Fixpoint somes {A} (l : list (option A)) : list A :=
  match l with [] => [] | Some x :: l' => x :: somes l' | None :: l' => somes l' end.
Definition m_views (h : oheap) (inner rows : list obj) : list (option rowview) :=
  let arrs := somes (map arr_of (inner ++ rows)) in
  map (fun r => match row_view h r with
                | Some (zs, d, a, _) => Some (zs, d, first_index a arrs)
                | None => None end) rows.
Definition rowview_eqb (a b : rowview) : bool :=
  let '(za, da, la) := a in let '(zb, db, lb) := b in
  list_eqb Z.eqb za zb && Bool.eqb da db && Nat.eqb la lb.
Definition orowview_eqb (a : option rowview) (b : rowview) : bool :=
  match a with Some x => rowview_eqb x b | None => false end.
Fixpoint list_eqb2 {A B} (eqb : A -> B -> bool) (a : list A) (b : list B) : bool :=
  match a, b with [], [] => true | x :: a', y :: b' => eqb x y && list_eqb2 eqb a' b' | _, _ => false end.
Definition inner_ints (h : oheap) (o : obj) : list Z :=
  match o with ORef s => match canon (ocontents h s) with Some (zs, _) => zs | None => [] end | _ => [] end.
Definition row_eqb (a b : list Z * bool) : bool := list_eqb Z.eqb (fst a) (fst b) && Bool.eqb (snd a) (snd b).
Definition strip (v : rowview) : list Z * bool := let '(zs, d, _) := v in (zs, d).
Definition last_ints (c : lastcol) : list (list Z) := match c with LInts l => [l] | LLists _ => [] end.
Definition last_lists (c : lastcol) : list (list Z) := match c with LInts _ => [] | LLists ll => ll end.

Definition check_mcase (c : mcase) : N :=
  let '((F, fc, last, j, v), (obs1, obs2, inner2, outer2)) := c in
  let '(h0, cols) := mk_input fc last in
  let inner := match last with LInts _ => [] | LLists _ => List.last cols [] end in
  let '(h, _, rows) := map_run F h0 cols in
  let h' := row_setcar h rows j v in
  let agree := list_eqb2 orowview_eqb (m_views h inner rows) obs1 &&
               list_eqb2 orowview_eqb (m_views h' inner rows) obs2 &&
               list_eqb (list_eqb Z.eqb) (map (inner_ints h') inner) inner2 in
  let spec := spec_rows F fc last in
  let spec_ok := list_eqb row_eqb (map strip obs1) spec &&
                 list_eqb row_eqb (map strip obs2) (spec_setcar spec j v) &&
                 list_eqb (list_eqb Z.eqb) inner2 (last_lists last) &&
                 list_eqb (list_eqb Z.eqb) outer2 (fc ++ last_ints last) in
  let g := map_supported F fc last in
  if agree then (if g && negb spec_ok then 3%N else 0%N)
  else if g && negb spec_ok then 2%N else 1%N.
Fixpoint check_all_map_from (i : N) (cs : list mcase) : list (N * N) :=
  match cs with
  | [] => []
  | c :: cs' => let r := check_mcase c in (if N.eqb r 0 then [] else [(i, r)]) ++ check_all_map_from (N.succ i) cs'
  end.
Definition check_all_map := check_all_map_from 0%N.
Definition map_guard_count (cs : list mcase) : N :=
  N.of_nat (length (filter (fun c : mcase => let '((F, fc, last, _, _), _) := c in map_supported F fc last) cs)).
