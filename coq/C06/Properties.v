(* C06 — property theorems only. *)
From C06 Require Import Model Spec Proofs.

(* (1) A function that is not destructive (list, cons, list*, cdr, nthcdr, member, last, butlast, subseq, copy-list,
   reverse, append, add, push, pop, remove/delete, mapcar, nconc as repaired) never changes any list other than
   the variable it is stored into: every state, every operation of the class, no guard (w only has to be a
   well-formed variable). *)
Theorem C06_nondestructive_frame : forall st o cap w,
  nondestructive o = true -> w <> dst_of o -> wf_var st w -> vcontents (step st o cap) w = vcontents st w.
Proof. exact nondestructive_frame. Qed.
Print Assumptions C06_nondestructive_frame.

(* (2) A destructive operation on v ((setf car/nth/elt), rplaca, rplacd, nreverse, sort) leaves alone every
   variable whose slice is on another backing array: every state, no guard. *)
Theorem C06_destructive_frame : forall st o cap v s w t,
  destructive_on o = Some v -> getv st v = Some s -> w <> dst_of o -> getv st w = Some t ->
  (s_len t = 0 \/ s_arr t < length (hp st)) -> s_arr t <> s_arr s ->
  vcontents (step st o cap) w = vcontents st w.
Proof. exact destructive_frame. Qed.
Print Assumptions C06_destructive_frame.

(* (3) The invariant "all live slices on one backing array end at the same cell" (they are tails of one
   another, exactly like conses sharing a tail) holds initially, is preserved by every modelled operation
   except rplacd for every capacity the runtime may choose and whatever the state is, hence holds after
   every history of modelled operations that contains no rplacd (inv_ops is a condition on the operations
   only: destination variable in range, not rplacd). *)
Theorem C06_invariant_step : forall nv st o cap,
  Inv nv st -> op_vars_ok nv o -> g_inv o = true -> Inv nv (step st o cap).
Proof. exact inv_step. Qed.
Print Assumptions C06_invariant_step.
Theorem C06_invariant_history : forall nv ops st, Inv nv st -> inv_ops nv ops = true -> Inv nv (run_ops st ops).
Proof. exact inv_history. Qed.
Print Assumptions C06_invariant_history.
Theorem C06_invariant_init : forall nv, Inv nv (init nv).
Proof. exact Inv_init. Qed.
Print Assumptions C06_invariant_init.

(* (4) Hence: after any such history, modifying or destructively processing a list changes another
   variable only if that variable is a tail of it (or it of the variable): same array, same end. *)
Theorem C06_only_tails_change : forall nv st o cap v s w t,
  Inv nv st -> destructive_on o = Some v -> getv st v = Some s -> w <> dst_of o -> live st w = Some t ->
  vcontents (step st o cap) w <> vcontents st w ->
  s_arr t = s_arr s /\ (s_len s <> 0 -> s_off t + s_len t = s_off s + s_len s).
Proof. exact destructive_changes_only_tails. Qed.
Print Assumptions C06_only_tails_change.

(* (5) list, consing, pushing, copying, butlast, append, add, remove/delete, mapcar return a list on a backing
   array no other variable is on *)
Theorem C06_fresh_result_alone : forall nv st o cap w t r,
  Inv nv st -> fresh_op o = true -> dst_of o < nv -> w <> dst_of o ->
  live (step st o cap) (dst_of o) = Some r -> live (step st o cap) w = Some t -> s_arr t <> s_arr r.
Proof. exact fresh_result_alone. Qed.
Print Assumptions C06_fresh_result_alone.

(* (7) the guard admits a history with tail sharing, destructive updates, add, nconc, nreverse, sort, and on it
   the slice model and the cons-cell reference agree on the contents of every variable after every step *)
Theorem C06_guard_nonvacuous :
  guard_ops 4 (init 4) ex_guarded = true /\ judge_m 4 (init 4) (cinit 4) ex_guarded = true /\
  map (vcontents (run_ops (init 4) ex_guarded)) [0; 1; 2; 3] =
    [[1; 5; 7; 9]; [2; 8; 6; 1; 9; 7; 5]; [7; 0; 1]; [1; 9; 7; 5]]%Z.
Proof. exact guarded_example. Qed.
Print Assumptions C06_guard_nonvacuous.
