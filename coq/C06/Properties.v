(* C06 — property theorems only. *)
From C06 Require Import Model Spec Proofs ProofsRef ProofsMap.

(* (1) A function that is not destructive (list, cons, list*, cdr, nthcdr, member, last, butlast, subseq, copy-list,
   reverse, append, add, push, pop, remove/delete, remove-if/delete-if with :count and :from-end,
   remove-duplicates/delete-duplicates with :from-end, :start and :end, mapcar, nconc as repaired) never changes any list other than
   the variable it is stored into: every state, every operation of the class, no guard (w only has to be a
   well-formed variable). *)
Theorem C06_nondestructive_frame : forall st o cap w,
  nondestructive o = true -> w <> dst_of o -> wf_var st w -> vcontents (step st o cap) w = vcontents st w.
Proof. exact nondestructive_frame. Qed.
Print Assumptions C06_nondestructive_frame.

(* (2) A destructive operation on v ((setf car/nth/elt), rplaca, rplacd, nreverse, sort) leaves alone every
   variable whose slice is on another backing array: every state, no guard. *)
Theorem C06_destructive_frame : forall st o cap v s w t,
  destructive_on o = Some v -> getv st v = Some s -> w <> dst_of o -> getv st w = Some t ->
  (s_len t = 0 \/ s_arr t < length (hp st)) -> s_arr t <> s_arr s ->
  vcontents (step st o cap) w = vcontents st w.
Proof. exact destructive_frame. Qed.
Print Assumptions C06_destructive_frame.

(* (3) The invariant "all live slices on one backing array end at the same cell" (they are tails of one
   another, exactly like conses sharing a tail) holds initially, is preserved by every modelled operation
   except rplacd for every capacity the runtime may choose and whatever the state is, hence holds after
   every history of modelled operations that contains no rplacd (inv_ops is a condition on the operations
   only: destination variable in range, not rplacd). *)
Theorem C06_invariant_step : forall nv st o cap,
  Inv nv st -> op_vars_ok nv o -> g_inv o = true -> Inv nv (step st o cap).
Proof. exact inv_step. Qed.
Print Assumptions C06_invariant_step.
Theorem C06_invariant_history : forall nv ops st, Inv nv st -> inv_ops nv ops = true -> Inv nv (run_ops st ops).
Proof. exact inv_history. Qed.
Print Assumptions C06_invariant_history.
Theorem C06_invariant_init : forall nv, Inv nv (init nv).
Proof. exact Inv_init. Qed.
Print Assumptions C06_invariant_init.

(* (4) Hence: after any such history, modifying or destructively processing a list changes another
   variable only if that variable is a tail of it (or it of the variable): same array, same end. *)
Theorem C06_only_tails_change : forall nv st o cap v s w t,
  Inv nv st -> destructive_on o = Some v -> getv st v = Some s -> w <> dst_of o -> live st w = Some t ->
  vcontents (step st o cap) w <> vcontents st w ->
  s_arr t = s_arr s /\ (s_len s <> 0 -> s_off t + s_len t = s_off s + s_len s).
Proof. exact destructive_changes_only_tails. Qed.
Print Assumptions C06_only_tails_change.

(* (5) list, consing, pushing, copying, butlast, append, add, remove/delete, mapcar return a list on a backing
   array no other variable is on *)
Theorem C06_fresh_result_alone : forall nv st o cap w t r,
  Inv nv st -> fresh_op o = true -> dst_of o < nv -> w <> dst_of o ->
  live (step st o cap) (dst_of o) = Some r -> live (step st o cap) w = Some t -> s_arr t <> s_arr r.
Proof. exact fresh_result_alone. Qed.
Print Assumptions C06_fresh_result_alone.

(* (6) REFINEMENT of the cons-cell reference (Spec.v: a heap of cells with car and cdr, variables point to a
   cell or are nil; tail selectors return the existing cell, every other function builds new cells, destructive
   functions write the cars of their argument's own cells).  For every history of modelled operations from the
   empty state that stays inside the guard (destination variable in range; no rplacd; no subseq of nil), for every
   capacity the Go runtime picks at every allocation, and for every variable: the contents of the variable in the
   slice model are exactly the contents of the variable in the reference machine run on the same operations. *)
Theorem C06_refines_cons_model : forall nv ops w,
  guard_ops nv (init nv) ops = true ->
  vcontents (run_ops (init nv) ops) w = ccontents (crun (cinit nv) (map fst ops)) w.
Proof. exact refines_cons_model. Qed.
Print Assumptions C06_refines_cons_model.

(* (6a) the simulation behind it: the relation Rel (every backing array stands for one chain of cells; a live
   slice ends where the used part of its array ends and its variable points to the cell of its first position;
   nil <-> nil) holds initially and is preserved by every guarded operation whatever capacity is chosen. *)
Theorem C06_simulation_step : forall nv g st c o cap,
  Rel nv g st c -> dst_of o < nv -> g_step st o = true -> exists g', Rel nv g' (step st o cap) (cstep c o).
Proof. exact sim_step. Qed.
Print Assumptions C06_simulation_step.
Theorem C06_simulation_init : forall nv, Rel nv [] (init nv) (cinit nv).
Proof. exact Rel_init. Qed.
Print Assumptions C06_simulation_init.
Theorem C06_simulation_contents : forall nv g st c, Rel nv g st c -> forall w, vcontents st w = ccontents c w.
Proof. exact Rel_contents. Qed.
Print Assumptions C06_simulation_contents.

(* (6b) slices on one array <-> variables sharing a tail: in related states two live variables share a cons
   cell of the reference exactly when their slices lie on the same backing array. *)
Theorem C06_shares_iff_same_array : forall nv g st c v w s t,
  Rel nv g st c -> live st v = Some s -> live st w = Some t -> (shares c v w = true <-> s_arr s = s_arr t).
Proof. exact shares_iff_same_array. Qed.
Print Assumptions C06_shares_iff_same_array.

(* (6c) consequence: inside the guard the contents of every variable never depend on the capacities Go's
   append and make happened to choose. *)
Theorem C06_contents_capacity_independent : forall nv ops1 ops2 w,
  map fst ops1 = map fst ops2 -> guard_ops nv (init nv) ops1 = true -> guard_ops nv (init nv) ops2 = true ->
  vcontents (run_ops (init nv) ops1) w = vcontents (run_ops (init nv) ops2) w.
Proof. exact contents_capacity_independent. Qed.
Print Assumptions C06_contents_capacity_independent.

(* (6d) outside the guard: rplacd (known finding).  The faithful model of pkg/cl/rplacd.go writes the new tail
   over the old elements: x = (1 2 3 4), y = (cdr x), (rplacd x '(7)) leaves x = (1 7 3 4) and y = (7 3 4) where
   the cons reference has x = (1 7) and y = (2 3 4); and whether rplacd changes its argument at all depends on
   the spare capacity (x = (1 2), (rplacd x '(7 8 9)): x stays (1 2) with capacity 2, becomes (1 7) with 4). *)
Theorem C06_rplacd_not_cons_refuted :
  map (vcontents (run_ops (init 4) w_rplacd)) [0; 1; 2] = [[1; 7; 3; 4]; [7; 3; 4]; [1; 7]]%Z /\
  map (ccontents (crun (cinit 4) (map fst w_rplacd))) [0; 1; 2] = [[1; 7]; [2; 3; 4]; [1; 7]]%Z /\
  guard_ops 4 (init 4) w_rplacd = false /\
  vcontents (run_ops (init 4) (w_rplacd_cap 2)) 0 = [1; 2]%Z /\ vcontents (run_ops (init 4) (w_rplacd_cap 4)) 0 = [1; 7]%Z.
Proof. exact rplacd_not_cons_refuted. Qed.
Print Assumptions C06_rplacd_not_cons_refuted.

(* (7) the guard admits a history with tail sharing, destructive updates, add, nconc, nreverse, sort, and on it
   the slice model and the cons-cell reference agree on the contents of every variable after every step *)
Theorem C06_guard_nonvacuous :
  guard_ops 4 (init 4) ex_guarded = true /\ judge_m 4 (init 4) (cinit 4) ex_guarded = true /\
  map (vcontents (run_ops (init 4) ex_guarded)) [0; 1; 2; 3] =
    [[1; 5; 7; 9]; [2; 8; 6; 1; 9; 7; 5]; [7; 0; 1]; [1; 9; 7; 5]]%Z.
Proof. exact guarded_example. Qed.
Print Assumptions C06_guard_nonvacuous.

(* (8) the histories that were the add and subseq findings are inside the guard after the repairs and give
   the lists the property demands: two lists added to the same list keep their own last element; modifying a
   subseq result leaves the argument alone *)
Theorem C06_repaired_examples :
  guard_ops 4 (init 4) ex_add_siblings = true /\
  map (vcontents (run_ops (init 4) ex_add_siblings)) [2; 3] = [[1; 2; 3; 4; 5]; [1; 2; 3; 4; 6]]%Z /\
  guard_ops 4 (init 4) ex_subseq_copy = true /\
  map (vcontents (run_ops (init 4) ex_subseq_copy)) [0; 1] = [[1; 2; 3]; [7; 3]]%Z.
Proof. exact repaired_examples. Qed.
Print Assumptions C06_repaired_examples.

(* (9) A list constructor (list, list*, cons) called by name through a mapping function over two or more lists.
   The mapping functions (mapcar, map, and the same idiom in mapc, mapcan, maplist, mapl, mapcon, map-into) refill
   ONE argument buffer for every step and hand it to the constructor as its argument slice; the model contains
   that buffer.  For all lists of integers of any lengths (the last one may hold lists of integers, which list*
   and cons splice): (a) the n-th result is the list the constructor returns for the n-th elements
   (spec_row: the elements, then the last element as element / dotted tail / spliced list); (b) the n-th result
   lies alone on the n-th array allocated after the buffer, so no two results, no result and the buffer, no
   result and an argument share an array; the arguments' inner lists are untouched. *)
Theorem C06_map_rows_correct : forall F fc last h0 cols h buf rows,
  map_supported F fc last = true -> mk_input fc last = (h0, cols) -> map_run F h0 cols = (h, buf, rows) ->
  length rows = rows_count fc last /\ length h = length h0 + 1 + rows_count fc last /\
  (forall a, a < length h0 -> oarr h a = oarr h0 a) /\
  forall n, n < rows_count fc last -> exists s, nth n rows ONil = ORef s /\ s_arr s = length h0 + 1 + n /\ s_off s = 0 /\
       canon (ocontents h s) = Some (spec_row F fc last n).
Proof. exact map_rows_correct. Qed.
Print Assumptions C06_map_rows_correct.

(* (9c) "the list it returns is independent ... of the results of other calls": overwriting the car of one result
   afterwards changes exactly that car; every other result and every list that was an element of an argument keep
   their contents. *)
Theorem C06_map_rows_independent : forall F fc last h0 cols h buf rows j v,
  map_supported F fc last = true -> mk_input fc last = (h0, cols) -> map_run F h0 cols = (h, buf, rows) ->
  let h' := row_setcar h rows j v in
  (forall n s, n < rows_count fc last -> n <> j -> nth n rows ONil = ORef s -> ocontents h' s = ocontents h s) /\
  (forall t, s_arr t < length h0 -> ocontents h' t = ocontents h t) /\
  (forall s, j < rows_count fc last -> nth j rows ONil = ORef s -> ocontents h' s = set_nth 0 (OInt v) (ocontents h s)).
Proof. exact map_rows_independent. Qed.
Print Assumptions C06_map_rows_independent.

(* (9d) non-vacuity: (mapcar 'list* '(1 2 3) '(4 5 6) '((7) nil (8 9))) and (setf (car (nth 1 rows)) 0) in the model *)
Theorem C06_map_example :
  map_supported FListStar (fst ex_map_input) (snd ex_map_input) = true /\
  (let '(h0, cols) := mk_input (fst ex_map_input) (snd ex_map_input) in
   let '(h, _, rows) := map_run FListStar h0 cols in
   (map (row_view h) rows, map (row_view (row_setcar h rows 1 0)) rows)) =
  ([Some ([1; 4; 7]%Z, false, 3, 0); Some ([2; 5]%Z, false, 4, 0); Some ([3; 6; 8; 9]%Z, false, 5, 0)],
   [Some ([1; 4; 7]%Z, false, 3, 0); Some ([0; 5]%Z, false, 4, 0); Some ([3; 6; 8; 9]%Z, false, 5, 0)]).
Proof. exact map_example. Qed.
Print Assumptions C06_map_example.

(* (10) remove-if / delete-if (one Go function: RemoveIf embeds DeleteIf) belong to the non-destructive class of (1),
   to the fresh-result class of (5) and to the operations of the refinement (6).  Their value: without :count the
   elements that do not satisfy the predicate, in order, whichever end the scan starts from. *)
Theorem C06_remove_if_value : forall p fe l, remove_if p None fe l = filter (fun y => negb (holds p y)) l.
Proof. exact remove_if_filter. Qed.
Print Assumptions C06_remove_if_value.
Theorem C06_remove_if_frame : forall st p n fe src dst cap w,
  w <> dst -> wf_var st w -> vcontents (step st (ORemoveIf p n fe src dst) cap) w = vcontents st w.
Proof. intros st p n fe src dst cap w. exact (nondestructive_frame st (ORemoveIf p n fe src dst) cap w eq_refl). Qed.
Print Assumptions C06_remove_if_frame.

(* (11) remove-duplicates / delete-duplicates (one Go function: RemoveDuplicates embeds DeleteDuplicates) with
   :from-end, :start, :end belong to the non-destructive class of (1), to the fresh-result class of (5) and to the
   operations of the invariant (3) and of the refinement (6): in both scan directions the argument's array is only
   read and the result lies alone on a new array.  Their value: for every direction and every window exactly the
   elements of the argument occur in the result; over the whole list no element occurs twice; which occurrence
   stays is shown on examples (first with :from-end t, last otherwise; outside the window everything stays). *)
Theorem C06_remove_dup_frame : forall st fe s e src dst cap w,
  w <> dst -> wf_var st w -> vcontents (step st (ORemoveDup fe s e src dst) cap) w = vcontents st w.
Proof. intros st fe s e src dst cap w. exact (nondestructive_frame st (ORemoveDup fe s e src dst) cap w eq_refl). Qed.
Print Assumptions C06_remove_dup_frame.
Theorem C06_remove_dup_same_elements : forall fe s e l x, In x (remove_dup fe s e l) <-> In x l.
Proof. exact remove_dup_same_elements. Qed.
Print Assumptions C06_remove_dup_same_elements.
Theorem C06_remove_dup_nodup : forall fe l, NoDup (remove_dup fe 0 None l).
Proof. exact remove_dup_nodup. Qed.
Print Assumptions C06_remove_dup_nodup.
Theorem C06_remove_dup_examples :
  remove_dup true 0 None [1; 2; 1; 3; 2; 4]%Z = [1; 2; 3; 4]%Z /\
  remove_dup false 0 None [1; 2; 1; 3; 2; 4]%Z = [1; 3; 2; 4]%Z /\
  remove_dup true 1 None [1; 2; 1; 2; 1]%Z = [1; 2; 1]%Z /\
  remove_dup false 0 (Some 3) [1; 2; 1; 2; 1]%Z = [2; 1; 2; 1]%Z.
Proof. exact remove_dup_examples. Qed.
Print Assumptions C06_remove_dup_examples.
