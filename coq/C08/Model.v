(* C08 — M: executable model of what slip does with code objects.

   Anchors (slip source):
     function.go  Function.Eval (argument loop 118-149, `update` write-back 152-159), ListToFunc, NewFunc,
                  CompileList (placeholder 344-363), CompileArgs, EvalArg
     lambda.go    Lambda.Call (required parameters only), BoundCall, DefLambda, Lambda.Compile
     package.go   Package.DefLambda (patches the registered Lambda in place; the new FuncInfo.Create hands out the
                  registered Lambda - repo_fixes/C08-3)
     code.go      Code.Compile (definitions first, then CompileList of the rest), Code.Eval
     undefined.go Undefined.Eval
     pkg/cl/defun.go, if.go, progn.go

   Representation.  A source text is read once into list objects.  Every list object gets an identity
   `id` (the harness numbers them in reader order).  Go replaces the *slot* holding a list by a compiled
   function object (`f.Args[i] = ListToFunc(..)`, `lam.Forms[i] = CompileList(..)`, `c[i] = CompileList(..)`);
   the children of the list are shared by the function object (`Args: list[1:]`), so the tree shape never
   changes and the whole mutable part of a code tree is the partial map
        marks : id -> callee            ("the slot holding list #id now holds this function object")
   where the callee records what the Go object captured when it was created: the built-in, or the name and
   the *address of the Lambda* (`Self`) bound at that moment.  Lambdas live in a heap; `lambdas` is
   Package.lambdas (name -> registered Lambda, the one patched in place by later defuns), `funcs` is
   Package.funcs restricted to user functions (name -> the Lambda address captured by FuncInfo.Create; since
   repo_fixes/C08-3 always the registered one, which the invariant in Proofs.v states). *)
From Coq Require Import List ZArith Ascii String Bool Arith.
Import ListNotations.
Open Scope list_scope.

Inductive sexp :=
| SInt (z : Z)
| SSym (x : string)
| SList (id : nat) (xs : list sexp).

Inductive value :=
| VInt (z : Z) | VNil | VT | VSym (x : string) | VList (vs : list value)
| VVals (vs : list value)   (* a slip.Values object: what floor, values, ... return *)
| VUnbound.                 (* slip's marker object for "no value"; M and S never produce it (before repo_fixes/C08-4 a
                               bare body symbol bound to a variable without a value evaluated to it) *)

(* error outcomes are explicit: condition classes of slip plus the model's own "not in the fragment" *)
(* EOther: any other condition or a host fault observed on the implementation; M and S never produce it *)
Inductive err := EUnbound | EUndefined | ETooMany | ETooFew | EType | EBadForm | EOther.
Inductive res := Val (v : value) | Err (e : err) | OutOfFuel.

Inductive bi := BPlus | BMinus | BLt | BList | BEmit | BProgn | BIf | BFloor | BValues | BCase | BRest.
Definition bi_eqb (a b : bi) : bool :=
  match a, b with
  | BPlus, BPlus | BMinus, BMinus | BLt, BLt | BList, BList | BEmit, BEmit | BProgn, BProgn | BIf, BIf
  | BFloor, BFloor | BValues, BValues | BCase, BCase | BRest, BRest => true
  | _, _ => false
  end.
Definition builtin_of (f : string) : option bi :=
  if String.eqb f "+" then Some BPlus else
  if String.eqb f "-" then Some BMinus else
  if String.eqb f "<" then Some BLt else
  if String.eqb f "list" then Some BList else
  if String.eqb f "emit" then Some BEmit else
  if String.eqb f "progn" then Some BProgn else
  if String.eqb f "if" then Some BIf else
  if String.eqb f "floor" then Some BFloor else
  if String.eqb f "values" then Some BValues else
  if String.eqb f "case" then Some BCase else
  if String.eqb f "rest" then Some BRest else None.

Fixpoint slookup {A} (k : string) (l : list (string * A)) : option A :=
  match l with [] => None | (k', v) :: r => if String.eqb k k' then Some v else slookup k r end.
Fixpoint nlookup {A} (k : nat) (l : list (nat * A)) : option A :=
  match l with [] => None | (k', v) :: r => if Nat.eqb k k' then Some v else nlookup k r end.

Definition env := list (string * value).

(* ---- built-in functions on evaluated arguments --------------------------------------------- *)
Fixpoint ints (vs : list value) : option (list Z) :=
  match vs with
  | [] => Some []
  | VInt z :: r => match ints r with Some zs => Some (z :: zs) | None => None end
  | _ => None
  end.
Definition zsum (zs : list Z) : Z := fold_right Z.add 0%Z zs.
(* result and new output trace; `emit` is the harness's observer (a Go built-in appending its argument) *)
Definition apply_bi (b : bi) (vs : list value) (o : list value) : res * list value :=
  match b with
  | BPlus => (match ints vs with Some zs => Val (VInt (zsum zs)) | None => Err EType end, o)
  | BMinus => (match ints vs with
               | Some [] => Err EBadForm
               | Some [z] => Val (VInt (- z))
               | Some (z :: zs) => Val (VInt (z - zsum zs))
               | None => Err EType end, o)
  | BLt => (match vs with
            | [VInt a; VInt b] => Val (if Z.ltb a b then VT else VNil)
            | [_; _] => Err EType
            | _ => Err EBadForm end, o)
  | BList => (Val (VList vs), o)      (* (list) is an empty list object, not nil *)
  | BEmit => match vs with [v] => (Val v, o ++ [v]) | _ => (Err EBadForm, o) end
  | BProgn => (Err EBadForm, o)   (* `progn` never gets evaluated arguments (SkipEval since repo_fixes/C01-10); see eval_progn *)
  | BIf => (Err EBadForm, o)   (* `if` never gets evaluated arguments (SkipEval) *)
  (* two values: quotient and remainder; only a positive divisor is in the fragment *)
  | BFloor => (match vs with
               | [VInt a; VInt b] => if Z.ltb 0 b then Val (VVals [VInt (a / b); VInt (a mod b)]) else Err EBadForm
               | [VInt a] => Val (VVals [VInt a; VInt 0])
               | [_; _] | [_] => Err EType
               | _ => Err EBadForm end, o)
  | BValues => (Val (VVals vs), o)
  (* pkg/cl/cdr.go: nil and the empty list give nil, a one-element list gives an EMPTY LIST OBJECT *)
  | BRest => (match vs with
              | [VNil] | [VList []] => Val VNil
              | [VList (_ :: r)] => Val (VList r)
              | [_] => Err EType
              | _ => Err EBadForm end, o)
  | BCase => (Err EBadForm, o)   (* only the key of `case` is an evaluated argument; see eval_case *)
  end.

(* ---- state ---------------------------------------------------------------------------------- *)
Inductive callee := CB (b : bi) | CD (f : string) (a : nat).   (* Dynamic{Name: f, Self: heap[a]} *)
(* l_clos: the variables of the scope the function was defined in when that is not the top level (Lambda.Closure;
   here: the bindings of a top-level `let` around the defun); they are searched after the parameters and before
   the caller's scope (Lambda.Call: parents = [Closure, caller]) *)
Record lam := mkLam { l_name : string; l_params : list string; l_forms : list sexp; l_place : bool; l_clos : env }.
Record state := mkSt {
  heap : list lam;                 (* Lambda objects by address *)
  lambdas : list (string * nat);   (* Package.lambdas *)
  funcs : list (string * nat);     (* Package.funcs: address captured by FuncInfo.Create *)
  marks : list (nat * callee);     (* compiled slots *)
  out : list value                 (* what `emit` recorded *)
}.
Definition init : state := mkSt [] [] [] [] [].
Definition set_mark (st : state) (id : nat) (c : callee) : state :=
  mkSt (heap st) (lambdas st) (funcs st) ((id, c) :: marks st) (out st).
Definition set_out (st : state) (o : list value) : state :=
  mkSt (heap st) (lambdas st) (funcs st) (marks st) o.

(* NewFunc / MustFindFunc: late binding by name at the moment the list is converted *)
Definition resolve (st : state) (f : string) : option callee :=
  match builtin_of f with
  | Some b => Some (CB b)
  | None => match slookup f (funcs st) with Some a => Some (CD f a) | None => None end
  end.
Definition callee_matches (c : callee) (f : string) : bool :=
  match c with
  | CB b => match builtin_of f with Some b' => bi_eqb b b' | None => false end
  | CD g _ => String.eqb g f && match builtin_of f with None => true | Some _ => false end
  end.
(* the function object stored in the slot of list #id whose head is f, if any.  A Go function object keeps
   its own name; the head symbol of the replaced list is gone.  With unique ids (every run checks this)
   the names agree; a mark for another name is ignored rather than misused. *)
Definition mark_of (st : state) (id : nat) (f : string) : option callee :=
  match nlookup id (marks st) with
  | Some c => if callee_matches c f then Some c else None
  | None => None
  end.
Inductive wr := WOk (c : callee) | WUndef.
Definition wrapper (st : state) (id : nat) (f : string) : wr :=
  match mark_of st id f with
  | Some c => WOk c
  | None => match resolve st f with Some c => WOk c | None => WUndef end
  end.

(* Function.Eval 140-143: a list argument is converted and STORED before it is evaluated; conversion of
   a call to a function that does not exist panics (undefined-function) at this point *)
Definition premark (st : state) (a : sexp) : option state :=
  match a with
  | SList id (SSym g :: _) =>
      match mark_of st id g with
      | Some _ => Some st
      | None => match resolve st g with Some c => Some (set_mark st id c) | None => None end
      end
  | _ => Some st
  end.
(* Function.Eval 121-138 + 152-159 for SkipEval functions (`if`): the arguments that are lists on entry are
   remembered; EvalArg converts the evaluated ones in the local copy; they are written back only after
   Call returned normally *)
Definition deferred (st : state) (a : sexp) : option (nat * callee) :=
  match a with
  | SList id (SSym g :: _) =>
      match mark_of st id g with
      | Some _ => None
      | None => match resolve st g with Some c => Some (id, c) | None => None end
      end
  | _ => None
  end.
Definition apply_def (st : state) (d : option (nat * callee)) : state :=
  match d with Some (id, c) => set_mark st id c | None => st end.
Definition truthy (v : value) : bool := match v with VNil => false | _ => true end.
Fixpoint bind (ps : list string) (vs : list value) : env :=
  match ps, vs with p :: ps', v :: vs' => (p, v) :: bind ps' vs' | _, _ => [] end.

(* Function.Eval 145-147: an evaluated argument that is a Values object is replaced by its first value
   (nil when there is none) *)
Definition first_val (v : value) : value :=
  match v with VVals [] => VNil | VVals (x :: _) => x | _ => v end.
(* Symbol.Eval / the reader: nil and t are constants; everything else is looked up in the scope chain *)
(* Package variables are the outermost frame of the scope chain.  They are kept in the environment under
   keys no parameter can have ("$" ++ name); every variable of the fragment has a value (defvar and
   defparameter with an integer). *)
Definition gkey (x : string) : string := String "$"%char x.
Definition sym_value (en : env) (x : string) : res :=
  if String.eqb x "nil" then Val VNil else if String.eqb x "t" then Val VT else
  match slookup x en with
  | Some v => Val v
  | None => match slookup (gkey x) en with
            | Some v => Val v
            | None => Err EUnbound
            end
  end.
(* EvalArg 410-412: an empty list value becomes nil *)
Definition norm (v : value) : value := match v with VList [] => VNil | _ => v end.

(* pkg/cl/case.go: clauses (k form...) | ((k1 k2 ..) form...) | (t form...) last; integer keys only *)
Definition key_matches (key : value) (k : sexp) : bool :=
  match k, key with SInt z, VInt z' => Z.eqb z z' | _, _ => false end.
Fixpoint select_clause (key : value) (clauses : list sexp) : option (list sexp) :=
  match clauses with
  | [] => Some []
  | SList _ (k :: forms) :: rest =>
      match k with
      | SList _ ks => if existsb (key_matches key) ks then Some forms else select_clause key rest
      | SSym x => if String.eqb x "t" then (match rest with [] => Some forms | _ => None end) else None
      | SInt _ => if key_matches key k then Some forms else select_clause key rest
      end
  | _ => None
  end.

Inductive ares := AVals (vs : list value) | AStop (r : res).

Section WithEval.
  Variable ev : state -> env -> sexp -> res * state.
  Fixpoint eval_args (st : state) (en : env) (args : list sexp) : ares * state :=
    match args with
    | [] => (AVals [], st)
    | a :: rest =>
        match premark st a with
        | None => (AStop (Err EUndefined), st)
        | Some st1 =>
            match ev st1 en a with
            | (Val v, st2) =>
                match eval_args st2 en rest with
                | (AVals vs, st3) => (AVals (first_val v :: vs), st3)
                | r => r
                end
            | (r, st2) => (AStop r, st2)
            end
        end
    end.
  (* Lambda.BoundCall *)
  Fixpoint eval_body (st : state) (en : env) (forms : list sexp) (lastv : value) : res * state :=
    match forms with
    | [] => (Val lastv, st)
    | f :: rest => match ev st en f with (Val v, st1) => eval_body st1 en rest v | r => r end
    end.
  (* EvalArg applied to the forms of a selected `case` clause: the clause list itself is the argument
     slice, so a converted form is stored at once (as in the argument loop), and Values are not collapsed *)
  Fixpoint eval_seq (st : state) (en : env) (forms : list sexp) (lastv : value) : res * state :=
    match forms with
    | [] => (Val lastv, st)
    | f :: rest =>
        match premark st f with
        | None => (Err EUndefined, st)
        | Some st1 => match ev st1 en f with (Val v, st2) => eval_seq st2 en rest (norm v) | r => r end
        end
    end.
  (* `case`: SkipEval {false, true}: the key is an ordinary argument, the clauses are not evaluated *)
  Definition eval_case (st : state) (en : env) (args : list sexp) : res * state :=
    match args with
    | [] => (Err EBadForm, st)
    | k :: clauses =>
        match eval_args st en [k] with
        | (AVals [key], st1) =>
            match select_clause key clauses with
            | None => (Err EBadForm, st1)
            | Some forms => eval_seq st1 en forms VNil
            end
        | (AVals _, st1) => (Err EBadForm, st1)
        | (AStop r, st1) => (r, st1)
        end
    end.
  (* pkg/cl/progn.go (after repo_fixes/C01-10): SkipEval {true}; Call evaluates the forms one after the other with
     EvalArg on Function.Eval's local copy of the argument slice (an empty list value becomes nil, Values are not
     collapsed); the converted forms are written back, in order, only after Call returned normally (like `if`) *)
  Fixpoint eval_progn (st : state) (en : env) (forms : list sexp) (lastv : value) (ds : list (option (nat * callee)))
    : res * state :=
    match forms with
    | [] => (Val lastv, fold_left apply_def ds st)
    | f :: rest =>
        match ev st en f with
        | (Val v, st1) => eval_progn st1 en rest (norm v) (ds ++ [deferred st f])
        | r => r
        end
    end.
  (* pkg/cl/if.go *)
  Definition eval_if (st : state) (en : env) (args : list sexp) : res * state :=
    let go (c a : sexp) (b : option sexp) :=
      let d1 := deferred st c in
      match ev st en c with
      | (Val v, st1) =>
          match (if truthy (norm v) then Some a else b) with
          | None => (Val VNil, apply_def st1 d1)
          | Some x =>
              let d2 := deferred st1 x in
              match ev st1 en x with
              | (Val w, st2) => (Val (norm w), apply_def (apply_def st2 d1) d2)
              | r => r
              end
          end
      | r => r
      end in
    match args with
    | [c; a] => go c a None
    | [c; a; b] => go c a (Some b)
    | _ => (Err EBadForm, st)
    end.
End WithEval.

(* Lambda.Call for a lambda list of required parameters, then BoundCall.  A placeholder Lambda
   (function.go 345-351, forms = [Undefined name]) accepts any arguments and signals undefined-function. *)
(* the argument count against a lambda list of required parameters: too many arguments are rejected, and
   since the repair C04-8 (FuncDoc.requiredCount) so are too few *)
Definition arity_err (np nv : nat) : option err :=
  if Nat.ltb np nv then Some ETooMany else if Nat.ltb nv np then Some ETooFew else None.
Definition call_lambda (ev : state -> env -> sexp -> res * state) (st : state) (en : env) (a : nat) (vs : list value) : res * state :=
  match nth_error (heap st) a with
  | None => (Err EBadForm, st)
  | Some l =>
      if l_place l then (Err EUndefined, st)
      else match arity_err (List.length (l_params l)) (List.length vs) with
           | Some e => (Err e, st)
           | None => eval_body ev st (bind (l_params l) vs ++ l_clos l ++ en) (l_forms l) VNil
           end
  end.

(* Scope.Eval of whatever sits in a slot.  Scopes are chained caller-to-callee (Lambda.Call: s.NewScope()),
   so the environment of a call extends the caller's. *)
Fixpoint evalM (n : nat) (st : state) (en : env) (e : sexp) : res * state :=
  match n with
  | O => (OutOfFuel, st)
  | S n' =>
      match e with
      | SInt z => (Val (VInt z), st)
      | SSym x => (sym_value en x, st)
      | SList id (SSym f :: args) =>
          match wrapper st id f with
          | WUndef => (Err EUndefined, st)
          | WOk (CB BProgn) => eval_progn (evalM n') st en args VNil []
          | WOk (CB BIf) => eval_if (evalM n') st en args
          | WOk (CB BCase) => eval_case (evalM n') st en args
          | WOk (CB b) =>
              match eval_args (evalM n') st en args with
              | (AVals vs, st1) => let (r, o) := apply_bi b vs (out st1) in (r, set_out st1 o)
              | (AStop r, st1) => (r, st1)
              end
          | WOk (CD _ a) =>
              match eval_args (evalM n') st en args with
              | (AVals vs, st1) => call_lambda (evalM n') st1 en a vs
              | (AStop r, st1) => (r, st1)
              end
          end
      | SList _ _ => (Err EBadForm, st)
      end
  end.

(* ---- compilation ---------------------------------------------------------------------------- *)
(* CompileArgs: is argument number i of this function evaluated (SkipEval false at i)? *)
Definition strict_at (c : callee) (i : nat) : bool :=
  match c with CB BIf | CB BProgn => false | CB BCase => Nat.eqb i 0 | _ => true end.
(* CompileList 342-363: an unknown name gets a placeholder Lambda registered in lambdas and funcs *)
Definition resolve_or_place (st : state) (f : string) : callee * state :=
  match resolve st f with
  | Some c => (c, st)
  | None =>
      match slookup f (lambdas st) with
      (* a Lambda is registered but the name has no creator (after fmakunbound): it is reused, not replaced
         (repo_fixes/C08-6) *)
      | Some c => (CD f c, mkSt (heap st) (lambdas st) ((f, c) :: funcs st) (marks st) (out st))
      | None =>
          let a := List.length (heap st) in
          (CD f a, mkSt (heap st ++ [mkLam f [] [] true []]) ((f, a) :: lambdas st) ((f, a) :: funcs st) (marks st) (out st))
      end
  end.
Definition marked (st : state) (e : sexp) : bool :=
  match e with
  | SList id (SSym f :: _) => match mark_of st id f with Some _ => true | None => false end
  | _ => false
  end.
(* CompileList + CompileArgs: arguments of SkipEval functions are left alone *)
Fixpoint compile_list (st : state) (e : sexp) : state :=
  match e with
  | SList id (SSym f :: args) =>
      let (c, st1) := resolve_or_place st f in
      let st2 := set_mark st1 id c in
      (fix go (st : state) (l : list sexp) (i : nat) : state :=
         match l with
         | [] => st
         | a :: l' => go (if strict_at c i
                          then match a with SList _ _ => if marked st a then st else compile_list st a | _ => st end
                          else st) l' (S i)
         end) st2 args 0
  | _ => st
  end.
Definition compile_slot (st : state) (e : sexp) : state :=
  match e with SList _ _ => if marked st e then st else compile_list st e | _ => st end.

Fixpoint set_nth {A} (l : list A) (i : nat) (x : A) : list A :=
  match l, i with
  | [], _ => []
  | _ :: r, O => x :: r
  | y :: r, S i' => y :: set_nth r i' x
  end.
(* Defun.Call: slip.DefLambda (a new Lambda at address a, Lambda.Compile of the body), then Package.DefLambda:
   a Lambda already registered for the name (an earlier definition, or the placeholder of an earlier call - also
   of the recursive call in this very body) takes the new definition over in place and stays registered; the
   Lambda registered after the call is the one the new creator hands out (repo_fixes/C08-3: `lc = pkg.DefLambda(..)`;
   before that repair the creator captured the new Lambda a, which no later definition updates).
   The whole definition is taken over: lambda list, forms AND closure (`reg.Closure = lam.Closure`, nil, then
   `lc.Closure = s` when the defining scope has parents): a top-level redefinition of a function first defined
   inside a `let` has no closure. *)
Definition defunM (st : state) (name : string) (ps : list string) (body : list sexp) (clos : env) : state :=
  let a := List.length (heap st) in
  let newl := mkLam name ps body false clos in
  let st1 := mkSt (heap st ++ [newl]) (lambdas st) (funcs st) (marks st) (out st) in
  let st2 := fold_left compile_slot body st1 in
  let '(hp, lms, reg) := match slookup name (lambdas st2) with
                         | Some c => (set_nth (heap st2) c newl, lambdas st2, c)
                         | None => (heap st2, (name, a) :: lambdas st2, a)
                         end in
  mkSt hp lms ((name, reg) :: funcs st2) (marks st2) (out st2).

(* ---- top level: code objects ----------------------------------------------------------------- *)
Inductive tform := TForm (e : sexp) | TQuote (name : string).   (* Code.Compile turns a definition into (quote name) *)
Inductive op :=
| OLoad (cid : nat) (forms : list sexp)   (* slip.ReadString *)
| OCompile (cid : nat)                    (* Code.Compile *)
| ORun (cid : nat)                        (* Code.Eval in the top-level scope *)
| OFmak (name : string).                  (* (fmakunbound 'name) evaluated at top level *)

Fixpoint syms (l : list sexp) : option (list string) :=
  match l with
  | [] => Some []
  | SSym x :: r => match syms r with Some xs => Some (x :: xs) | None => None end
  | _ => None
  end.
(* Lambda.Compile compiles the body forms that are lists and leaves every other form alone: a bare symbol as a
   body form is a variable reference like any other, looked up when the body is evaluated (repo_fixes/C08-4; it
   used to be replaced, when it named neither a parameter nor an existing variable, by a reference to a package
   variable created on the spot).  So a definition does not touch the variables. *)
Definition parse_defun (e : sexp) : option (string * list string * list sexp) :=
  match e with
  | SList _ (SSym d :: SSym name :: SList _ ps :: body) =>
      if String.eqb d "defun" then match syms ps with Some xs => Some (name, xs, body) | None => None end else None
  | _ => None
  end.
(* (let ((x k) ...) (defun name params form...)) as a top-level form: Let.Call makes a scope with the bindings and
   evaluates the defun in it, so the function gets that scope as its closure.  Code.Compile does not treat it as
   a definition (the head is `let`): it is evaluated when the code object runs.  Bindings to integers only. *)
Fixpoint let_binds (l : list sexp) : option env :=
  match l with
  | [] => Some []
  | SList _ [SSym x; SInt z] :: r => match let_binds r with Some bs => Some ((x, VInt z) :: bs) | None => None end
  | _ => None
  end.
Definition parse_letdefun (e : sexp) : option (env * string * list string * list sexp) :=
  match e with
  | SList _ [SSym l; SList _ bs; d] =>
      if String.eqb l "let" then
        match let_binds bs, parse_defun d with
        | Some clos, Some (nm, ps, body) => Some (clos, nm, ps, body)
        | _, _ => None
        end
      else None
  | _ => None
  end.
(* (defvar name init) sets the package variable when there is none - and only then evaluates init;
   (defparameter name init) always.  init is any form of the fragment. *)
Definition parse_gdef (e : sexp) : option (bool * string * sexp) :=
  match e with
  | SList _ [SSym d; SSym name; init] =>
      if String.eqb d "defvar" then Some (false, name, init)
      else if String.eqb d "defparameter" then Some (true, name, init) else None
  | _ => None
  end.
(* pkg/cl/defparameter.go: SkipEval {true, false, true}: the init form is an ordinary argument of Function.Eval -
   a list is converted and stored before it is evaluated, a Values object is replaced by its first value.
   pkg/cl/defvar.go: SkipEval {true}: when the variable has a value nothing is evaluated; otherwise EvalArg on
   Function.Eval's copy of the arguments (an empty list value becomes nil, Values are kept), the converted form
   is written back after Call returned normally (like `if`).  Both evaluate in the scope they are called in: the
   top-level scope when the code object runs, a fresh scope in Code.Compile - no local variables either way. *)
Definition gdef_eval (ev : state -> env -> sexp -> res * state) (st : state) (gv : env) (always : bool) (nm : string)
  (init : sexp) : res * state * env :=
  if always then
    match premark st init with
    | None => (Err EUndefined, st, gv)
    | Some st1 =>
        match ev st1 gv init with
        | (Val v, st2) => (Val (VSym nm), st2, (gkey nm, first_val v) :: gv)
        | (r, st2) => (r, st2, gv)
        end
    end
  else
    match slookup (gkey nm) gv with
    | Some _ => (Val (VSym nm), st, gv)
    | None =>
        match ev st gv init with
        | (Val v, st1) => (Val (VSym nm), apply_def st1 (deferred st init), (gkey nm, norm v) :: gv)
        | (r, st1) => (r, st1, gv)
        end
    end.

Fixpoint run_forms (n : nat) (st : state) (gv : env) (fs : list tform) (lastv : value) : res * state * env :=
  match fs with
  | [] => (Val lastv, st, gv)
  | TQuote nm :: r => run_forms n st gv r (VSym nm)
  | TForm e :: r =>
      match parse_defun e with
      | Some (nm, ps, body) => run_forms n (defunM st nm ps body []) gv r (VSym nm)
      | None =>
          match parse_letdefun e with
          | Some (clos, nm, ps, body) => run_forms n (defunM st nm ps body clos) gv r (VSym nm)
          | None =>
              match parse_gdef e with
              | Some (always, nm, init) =>
                  match gdef_eval (evalM n) st gv always nm init with
                  | (Val v, st1, gv1) => run_forms n st1 gv1 r v
                  | x => x
                  end
              | None => match evalM n st gv e with (Val v, st1) => run_forms n st1 gv r v | (x, st1) => (x, st1, gv) end
              end
          end
      end
  end.
(* Code.Compile, first loop, ONE pass in source order: every top-level defun, defvar, defparameter form is
   evaluated - the init form of a variable with the function definitions made so far - and replaced by
   (quote name).  A condition signalled by an init form leaves Compile: the forms from that one on stay as they
   are and the second loop does not run. *)
Fixpoint compile_defs (n : nat) (st : state) (gv : env) (fs : list tform) : res * state * env * list tform :=
  match fs with
  | [] => (Val VNil, st, gv, [])
  | TForm e :: r =>
      match parse_defun e with
      | Some (nm, ps, body) =>
          let '(x, st', gv', r') := compile_defs n (defunM st nm ps body []) gv r in (x, st', gv', TQuote nm :: r')
      | None =>
          match parse_letdefun e with
          | Some _ => let '(x, st', gv', r') := compile_defs n st gv r in (x, st', gv', TForm e :: r')
          | None =>
              match parse_gdef e with
              | Some (always, nm, init) =>
                  match gdef_eval (evalM n) st gv always nm init with
                  | (Val _, st1, gv1) => let '(x, st', gv', r') := compile_defs n st1 gv1 r in (x, st', gv', TQuote nm :: r')
                  | (x, st1, gv1) => (x, st1, gv1, TForm e :: r)
                  end
              | None => let '(x, st', gv', r') := compile_defs n st gv r in (x, st', gv', TForm e :: r')
              end
          end
      end
  | t :: r => let '(x, st', gv', r') := compile_defs n st gv r in (x, st', gv', t :: r')
  end.
(* second loop: the remaining lists are compiled (CompileList of a `let` form makes the Let function object and,
   `let` being SkipEval, nothing else) *)
Definition compile_rest (st : state) (fs : list tform) : state :=
  fold_left (fun s t => match t with
                        | TForm e => match parse_letdefun e with Some _ => s | None => compile_slot s e end
                        | TQuote _ => s end) fs st.

(* Package.Undefine (fmakunbound): the FuncInfo of the name is removed from Package.funcs; the Lambda registered in
   Package.lambdas stays registered - it is the one the compiled callers hold and the next defun patches - and
   becomes the Lambda of an undefined function again (repo_fixes/C08-5), so those callers signal undefined-function *)
Fixpoint sremove {A} (k : string) (l : list (string * A)) : list (string * A) :=
  match l with [] => [] | (k', v) :: r => if String.eqb k k' then sremove k r else (k', v) :: sremove k r end.
Definition fmakM (st : state) (name : string) : state :=
  match slookup name (funcs st) with
  | None => st
  | Some _ =>
      let hp := match slookup name (lambdas st) with
                | Some c => set_nth (heap st) c (mkLam name [] [] true [])
                | None => heap st
                end in
      mkSt hp (lambdas st) (sremove name (funcs st)) (marks st) (out st)
  end.

Record mstate := mkM { ms : state; mgv : env; codes : list (nat * list tform) }.
Definition minit : mstate := mkM init [] [].
Definition obs := (res * list value)%type.
(* outcome of one ORun: result or error, and what was emitted; of one OCompile: nil or the condition that left
   Code.Compile, and what the init forms evaluated at compile time emitted *)
Definition stepM (n : nat) (m : mstate) (o : op) : mstate * option obs :=
  match o with
  | OLoad cid forms => (mkM (ms m) (mgv m) ((cid, map TForm forms) :: codes m), None)
  | OCompile cid =>
      match nlookup cid (codes m) with
      | None => (m, None)
      | Some fs => let '(x, st1, gv1, fs') := compile_defs n (set_out (ms m) []) (mgv m) fs in
                   match x with
                   | Val _ => let st2 := compile_rest st1 fs' in (mkM st2 gv1 ((cid, fs') :: codes m), Some (x, out st2))
                   | _ => (mkM st1 gv1 ((cid, fs') :: codes m), Some (x, out st1))
                   end
      end
  | ORun cid =>
      match nlookup cid (codes m) with
      | None => (m, None)
      | Some fs => let '(r, st1, gv1) := run_forms n (set_out (ms m) []) (mgv m) fs VNil in
                   (mkM st1 gv1 (codes m), Some (r, out st1))
      end
  | OFmak name => (mkM (fmakM (ms m) name) (mgv m) (codes m), None)
  end.
Fixpoint runM (n : nat) (m : mstate) (ops : list op) : list obs :=
  match ops with
  | [] => []
  | o :: r => let (m', ob) := stepM n m o in (match ob with Some x => [x] | None => [] end) ++ runM n m' r
  end.
