(* C08 — the history theorems for EVERY history, fmakunbound (OFmak) included.

   The invariant of Proofs.v has no clause for "a Lambda is registered for the name but the name has no creator"
   (the state fmakunbound leaves behind: Package.funcs[name] removed, Package.lambdas[name] kept and turned into
   the Lambda of an undefined function, repo_fixes/C08-5).  Module FM repeats the development of Proofs.v
   (lines "small facts" .. history_refines) over the WEAKER invariant FM.Inv:
     inv_marks : a compiled call of g holds either what the creator of g hands out (as before), or - when g has
                 no creator - the registered Lambda of g, which is then a placeholder;
     inv_lams  : a registered Lambda exists and carries its name; when the name has no creator it is a placeholder
                 (the clause "a registered name has a creator" is dropped).
   New: reuse_cgood (CompileList re-registering the kept Lambda, repo_fixes/C08-6), fmakM_step (fmakunbound keeps
   the invariant and removes the definition), step_sim for all four operations.  The statements after the module
   are about the same runS, runM, osim as Proofs.history_refines.
   The invariant has a flag (Section variable `orph`): orph = true allows compiled calls of a name without a creator
   (every history: history_refines_fmak); orph = false excludes them, which fmakunbound preserves when no slot holds
   a compiled call of the name (`nomark`); over that invariant Section Late repeats the exactness development of
   ProofsLate.v (evalM_ex .. history_exact) with `fmak_clean` in place of `no_fmak` (history_exact_fmak).  The
   witnesses at the end show that exactness against the per-name oracle fails beyond that. *)
From Coq Require Import List ZArith String Bool Arith Lia Permutation.
From C08 Require Import Model Spec.
From C08 Require Proofs ProofsLate ProofsProgram.
Import ListNotations.
Open Scope list_scope.

(* no compiled call of `name` in the slots *)
Definition nomark (name : string) (mk : list (nat * callee)) : bool :=
  forallb (fun ic => match snd ic with CD g _ => negb (String.eqb g name) | CB _ => true end) mk.
(* a history along M's run: every (fmakunbound 'name) happens while no slot holds a compiled call of name *)
Fixpoint fmak_clean (n : nat) (m : mstate) (ops : list op) : bool :=
  match ops with
  | [] => true
  | o :: r => (match o with OFmak nm => nomark nm (marks (ms m)) | _ => true end) && fmak_clean n (fst (stepM n m o)) r
  end.

Module FM.
Section Flag.
(* orph = true: compiled calls of a name without a creator may exist (the general invariant, for the refinement);
   orph = false: they do not (the invariant of the histories in which no name is fmakunbound while a compiled call of
   it exists, for the exactness against the per-name lookup-time oracle) *)
Variable orph : bool.
(* ---- small facts ---------------------------------------------------------------------------- *)
Lemma bi_eqb_eq : forall a b, bi_eqb a b = true -> a = b.
Proof. destruct a, b; simpl; congruence. Qed.
Lemma bi_eqb_refl : forall a, bi_eqb a a = true.
Proof. destruct a; reflexivity. Qed.

Lemma nth_error_app_old : forall {A} (l : list A) x a v, nth_error l a = Some v -> nth_error (l ++ [x]) a = Some v.
Proof. intros. rewrite nth_error_app1; auto. apply nth_error_Some. congruence. Qed.
Lemma nth_error_app_new : forall {A} (l : list A) x, nth_error (l ++ [x]) (List.length l) = Some x.
Proof. intros. rewrite nth_error_app2 by lia. rewrite Nat.sub_diag. reflexivity. Qed.
Lemma set_nth_same : forall {A} (l : list A) i x, i < List.length l -> nth_error (set_nth l i x) i = Some x.
Proof. induction l; simpl; intros; [lia|]. destruct i; simpl; auto. apply IHl. lia. Qed.
Lemma set_nth_other : forall {A} (l : list A) i j x, i <> j -> nth_error (set_nth l i x) j = nth_error l j.
Proof. induction l; simpl; intros; auto. destruct i, j; simpl; auto; try congruence. Qed.
Lemma set_nth_length : forall {A} (l : list A) i x, List.length (set_nth l i x) = List.length l.
Proof. induction l; simpl; intros; auto. destruct i; simpl; auto. Qed.

(* ---- invariant ------------------------------------------------------------------------------ *)
Definition hget (st : state) (a : nat) : option lam := nth_error (heap st) a.

Record Inv (st : state) : Prop := mkInv {
  (* the Lambda captured by a name's creator and the registered Lambda of the name have the same contents *)
  inv_funcs : forall f s, slookup f (funcs st) = Some s ->
      exists c l, slookup f (lambdas st) = Some c /\ hget st s = Some l /\ hget st c = Some l /\ l_name l = f;
  (* every compiled call of g holds a Lambda with the contents g has now; while the creator's Lambda is
     the registered one, every compiled call holds the registered one *)
  inv_marks : forall id g a, nlookup id (marks st) = Some (CD g a) ->
      (exists s l, slookup g (funcs st) = Some s /\ hget st a = Some l /\ hget st s = Some l /\
                  (slookup g (lambdas st) = Some s -> a = s)) \/
      (* after fmakunbound: no creator; the compiled call holds the registered Lambda, now a placeholder *)
      (orph = true /\ slookup g (funcs st) = None /\ slookup g (lambdas st) = Some a /\ exists l, hget st a = Some l /\ l_place l = true);
  inv_lams : forall f c, slookup f (lambdas st) = Some c ->
      exists l, hget st c = Some l /\ l_name l = f /\ (slookup f (funcs st) = None -> l_place l = true);
  (* the Lambda a name's creator hands out IS the registered one (repo_fixes/C08-3); with inv_marks: every
     compiled call of a name holds the one Lambda that every later definition updates *)
  inv_canon : forall f s, slookup f (funcs st) = Some s -> slookup f (lambdas st) = Some s
}.

Lemma Inv_init : Inv init.
Proof. constructor; simpl; intros; discriminate. Qed.

(* the definition a name has, read off the model state *)
Definition def_of (st : state) (f : string) : option def :=
  match slookup f (funcs st) with
  | Some s => match hget st s with
              | Some l => if l_place l then None else Some (l_params l, l_forms l, l_clos l)
              | None => None
              end
  | None => None
  end.
Definition Rel (st : state) (ft : ftab) : Prop := forall f, def_of st f = slookup f ft.

Definition same_tabs (st st' : state) : Prop :=
  heap st' = heap st /\ lambdas st' = lambdas st /\ funcs st' = funcs st.
(* evaluation changes nothing but compiled slots and the output *)
Definition good (st st' : state) : Prop := same_tabs st st' /\ (Inv st -> Inv st').

Lemma good_refl : forall st, good st st.
Proof. intros. split; [repeat split|auto]. Qed.
Lemma good_trans : forall a b c, good a b -> good b c -> good a c.
Proof.
  intros a b c [[h1 [h2 h3]] i1] [[k1 [k2 k3]] i2]. split; [|auto].
  repeat split; congruence.
Qed.
Lemma same_tabs_rel : forall st st' ft, same_tabs st st' -> Rel st ft -> Rel st' ft.
Proof.
  intros st st' ft [h [_ f]] R x. rewrite <- R. unfold def_of, hget. rewrite h, f. reflexivity.
Qed.
Lemma good_set_out : forall st o, good st (set_out st o).
Proof.
  intros. split; [repeat split|]. intros [a b c d]. constructor; simpl; auto.
Qed.

Lemma resolve_cd : forall st g f a, resolve st g = Some (CD f a) -> f = g /\ slookup g (funcs st) = Some a.
Proof.
  unfold resolve. intros. destruct (builtin_of g); [discriminate|].
  destruct (slookup g (funcs st)); inversion H; auto.
Qed.
Lemma good_set_mark : forall st0 st id g c, same_tabs st0 st -> resolve st0 g = Some c -> good st (set_mark st id c).
Proof.
  intros st0 st id g c [h0 [l0 f0]] R. split; [repeat split|].
  intros [a b d cn]. constructor; simpl; auto.
  intros id' g' a'. destruct (Nat.eqb id' id); [|apply b].
  intros E. inversion E; subst. apply resolve_cd in R. destruct R as [-> R].
  rewrite <- f0 in R. destruct (a _ _ R) as (c & l & ? & ? & ? & ?).
  left. exists a', l. repeat split; auto.
Qed.
Lemma premark_good : forall st a st1, premark st a = Some st1 -> good st st1.
Proof.
  unfold premark. intros st a st1. destruct a as [| |id xs]; try (intros E; inversion E; apply good_refl).
  destruct xs as [|[|g|] r]; try (intros E; inversion E; apply good_refl).
  destruct (mark_of st id g); [intros E; inversion E; apply good_refl|].
  destruct (resolve st g) eqn:R; [|discriminate]. intros E; inversion E.
  eapply good_set_mark; eauto. repeat split.
Qed.
Lemma deferred_resolve : forall st a id c, deferred st a = Some (id, c) -> exists g, resolve st g = Some c.
Proof.
  unfold deferred. intros st a id c. destruct a as [| |i xs]; try discriminate.
  destruct xs as [|[|g|] r]; try discriminate.
  destruct (mark_of st i g); [discriminate|]. destruct (resolve st g) eqn:R; [|discriminate].
  intros E; inversion E; subst. eauto.
Qed.
Lemma apply_def_good : forall st0 st a, same_tabs st0 st -> good st (apply_def st (deferred st0 a)).
Proof.
  intros. destruct (deferred st0 a) as [[id c]|] eqn:D; simpl; [|apply good_refl].
  destruct (deferred_resolve _ _ _ _ D) as [g R]. eapply good_set_mark; eauto.
Qed.
Lemma apply_def_out : forall st d, out (apply_def st d) = out st.
Proof. intros. destruct d as [[? ?]|]; reflexivity. Qed.

(* ---- evaluation preserves the tables and the invariant ------------------------------------------ *)
Definition goodP (ev : state -> env -> sexp -> res * state) : Prop :=
  forall st en e r st', ev st en e = (r, st') -> good st st'.

Lemma eval_args_good : forall ev, goodP ev -> forall args st en r st',
  eval_args ev st en args = (r, st') -> good st st'.
Proof.
  intros ev G. induction args as [|a rest IH]; simpl; intros st en r st' E.
  - inversion E. apply good_refl.
  - destruct (premark st a) as [st1|] eqn:P; [|inversion E; apply good_refl].
    apply premark_good in P. destruct (ev st1 en a) as [r1 st2] eqn:E1. apply G in E1.
    destruct r1.
    + destruct (eval_args ev st2 en rest) as [r2 st3] eqn:E2. apply IH in E2.
      assert (good st st3) by (eapply good_trans; [eauto|eapply good_trans; eauto]).
      destruct r2; inversion E; subst; auto.
    + inversion E; subst. eapply good_trans; eauto.
    + inversion E; subst. eapply good_trans; eauto.
Qed.
Lemma eval_body_good : forall ev, goodP ev -> forall forms st en v r st',
  eval_body ev st en forms v = (r, st') -> good st st'.
Proof.
  intros ev G. induction forms as [|f rest IH]; simpl; intros st en v r st' E.
  - inversion E. apply good_refl.
  - destruct (ev st en f) as [r1 st1] eqn:E1. apply G in E1. destruct r1.
    + apply IH in E. eapply good_trans; eauto.
    + inversion E; subst; auto.
    + inversion E; subst; auto.
Qed.
(* the forms of progn converted during Call and written back afterwards *)
Definition dsok (st : state) (ds : list (option (nat * callee))) : Prop :=
  Forall (fun d => exists st0 a, same_tabs st0 st /\ d = deferred st0 a) ds.
Lemma same_tabs_trans : forall a b c, same_tabs a b -> same_tabs b c -> same_tabs a c.
Proof. intros a b c [h1 [h2 h3]] [k1 [k2 k3]]. repeat split; congruence. Qed.
Lemma dsok_step : forall st st1 ds, same_tabs st st1 -> dsok st ds -> dsok st1 ds.
Proof.
  intros st st1 ds T D. unfold dsok in *. eapply Forall_impl; [|exact D].
  intros d (st0 & a & T0 & E). exists st0, a. split; [eapply same_tabs_trans; eauto|exact E].
Qed.
Lemma fold_apply_def_good : forall ds st, dsok st ds -> good st (fold_left apply_def ds st).
Proof.
  induction ds as [|d ds IH]; simpl; intros st D; [apply good_refl|].
  inversion D as [|? ? (st0 & a & T0 & E) D']; subst.
  pose proof (apply_def_good st0 st a T0) as G.
  eapply good_trans; [exact G|]. apply IH. eapply dsok_step; [apply G|exact D'].
Qed.
Lemma fold_apply_def_out : forall ds st, out (fold_left apply_def ds st) = out st.
Proof. induction ds as [|d ds IH]; simpl; intros st; [reflexivity|]. rewrite IH. apply apply_def_out. Qed.
Lemma eval_progn_good : forall ev, goodP ev -> forall forms st en v ds r st', dsok st ds ->
  eval_progn ev st en forms v ds = (r, st') -> good st st'.
Proof.
  intros ev G. induction forms as [|f rest IH]; simpl; intros st en v ds r st' D E.
  - inversion E; subst. apply fold_apply_def_good; exact D.
  - destruct (ev st en f) as [r1 st1] eqn:E1. pose proof (G _ _ _ _ _ E1) as G1. destruct r1.
    + eapply good_trans; [exact G1|]. eapply IH; [|exact E].
      unfold dsok. apply Forall_app. split; [eapply dsok_step; [apply G1|exact D]|].
      constructor; [|constructor]. exists st, f. split; [apply G1|reflexivity].
    + inversion E; subst; auto.
    + inversion E; subst; auto.
Qed.
Lemma eval_if_good : forall ev, goodP ev -> forall args st en r st',
  eval_if ev st en args = (r, st') -> good st st'.
Proof.
  intros ev G args st en r st'. unfold eval_if.
  assert (K : forall c a b,
    match ev st en c with
    | (Val v, st1) =>
        match (if truthy (norm v) then Some a else b) with
        | None => (Val VNil, apply_def st1 (deferred st c))
        | Some x => match ev st1 en x with
                    | (Val w, st2) => (Val (norm w), apply_def (apply_def st2 (deferred st c)) (deferred st1 x))
                    | r => r end
        end
    | r => r end = (r, st') -> good st st').
  { intros c a b. destruct (ev st en c) as [r1 st1] eqn:E1. pose proof (G _ _ _ _ _ E1) as G1.
    destruct r1; try (intros E; inversion E; subst; auto; fail).
    destruct (if truthy (norm v) then Some a else b) as [x|].
    - destruct (ev st1 en x) as [r2 st2] eqn:E2. pose proof (G _ _ _ _ _ E2) as G2.
      assert (G12 : good st st2) by (eapply good_trans; eauto).
      destruct r2; try (intros E; inversion E; subst; auto; fail).
      intros E; inversion E; subst.
      eapply good_trans; [exact G12|]. eapply good_trans.
      + apply apply_def_good. apply G12.
      + apply apply_def_good. destruct G2 as [[h [l f]] _]. destruct (apply_def st2 (deferred st c)) eqn:A.
        destruct (deferred st c) as [[? ?]|]; simpl in A; inversion A; subst; repeat split; simpl; auto.
    - intros E; inversion E; subst. eapply good_trans; [exact G1|]. apply apply_def_good. apply G1. }
  destruct args as [|c [|a [|b [|? ?]]]]; try (intros E; inversion E; apply good_refl).
  - apply K.
  - apply K.
Qed.
Lemma eval_seq_good : forall ev, goodP ev -> forall forms st en v r st',
  eval_seq ev st en forms v = (r, st') -> good st st'.
Proof.
  intros ev G. induction forms as [|f rest IH]; simpl; intros st en v r st' E.
  - inversion E. apply good_refl.
  - destruct (premark st f) as [st1|] eqn:P; [|inversion E; apply good_refl].
    apply premark_good in P. destruct (ev st1 en f) as [r1 st2] eqn:E1. apply G in E1. destruct r1.
    + apply IH in E. eapply good_trans; [eauto|eapply good_trans; eauto].
    + inversion E; subst. eapply good_trans; eauto.
    + inversion E; subst. eapply good_trans; eauto.
Qed.
Lemma eval_case_good : forall ev, goodP ev -> forall args st en r st',
  eval_case ev st en args = (r, st') -> good st st'.
Proof.
  intros ev G args st en r st'. unfold eval_case. destruct args as [|k clauses]; [intros E; inversion E; apply good_refl|].
  destruct (eval_args ev st en [k]) as [ar st1] eqn:EA. apply (eval_args_good _ G) in EA.
  destruct ar as [vs|r0]; [|intros E; inversion E; subst; auto].
  destruct vs as [|key [|? ?]]; try (intros E; inversion E; subst; auto; fail).
  destruct (select_clause key clauses) as [forms|]; [|intros E; inversion E; subst; auto].
  intros E. apply (eval_seq_good _ G) in E. eapply good_trans; eauto.
Qed.
Lemma call_lambda_good : forall ev, goodP ev -> forall st en a vs r st',
  call_lambda ev st en a vs = (r, st') -> good st st'.
Proof.
  intros ev G st en a vs r st'. unfold call_lambda.
  destruct (nth_error (heap st) a) as [l|]; [|intros E; inversion E; apply good_refl].
  destruct (l_place l); [intros E; inversion E; apply good_refl|].
  destruct (arity_err _ _); [intros E; inversion E; apply good_refl|].
  apply eval_body_good; auto.
Qed.
Lemma evalM_good : forall n, goodP (evalM n).
Proof.
  induction n as [|n IH]; intros st en e r st' E; simpl in E.
  - inversion E. apply good_refl.
  - destruct e as [z|x|id xs]; try (inversion E; apply good_refl).
    destruct xs as [|[|f|] args]; try (inversion E; apply good_refl).
    destruct (wrapper st id f) as [[b|g a]|]; [| |inversion E; apply good_refl].
    + destruct b;
        try (destruct (eval_args (evalM n) st en args) as [ar st1] eqn:EA;
             apply (eval_args_good _ IH) in EA; destruct ar as [vs|r0];
             [ match type of E with context [apply_bi ?b ?vs ?o] => destruct (apply_bi b vs o) as [r1 o1] end;
               inversion E; subst; eapply good_trans; [exact EA|apply good_set_out]
             | inversion E; subst; auto ]; fail).
      * eapply eval_progn_good; eauto. constructor.
      * eapply eval_if_good; eauto.
      * eapply eval_case_good; eauto.
    + destruct (eval_args (evalM n) st en args) as [ar st1] eqn:EA.
      apply (eval_args_good _ IH) in EA. destruct ar as [vs|r0].
      * apply (call_lambda_good _ IH) in E. eapply good_trans; eauto.
      * inversion E; subst; auto.
Qed.

(* ---- simulation: M computes what S computes ------------------------------------------------------ *)
(* S's verdict rS/oS against M's outcome: equal where S is binding; and M never produces a value where S
   does not (so both abandon a code object at the same form) *)
Definition sim1 (rS : res) (oS : list value) (rM : res) (stM : state) : Prop :=
  (comparable rS = true -> rM = rS /\ out stM = oS) /\ (is_val rS = false -> is_val rM = false).
Definition simP (n : nat) (ft : ftab) : Prop :=
  forall st en e rS oS, Inv st -> Rel st ft -> evalS n ft en (out st) e = (rS, oS) ->
    exists rM st', evalM n st en e = (rM, st') /\ sim1 rS oS rM st'.
Definition asim (aS : ares) (oS : list value) (aM : ares) (stM : state) : Prop :=
  match aS with
  | AVals vs => aM = AVals vs /\ out stM = oS
  | AStop r => (comparable r = true -> aM = AStop r /\ out stM = oS) /\ exists r', aM = AStop r' /\ is_val r' = false
  end.

Lemma sim1_same : forall r st, sim1 r (out st) r st.
Proof. intros. split; auto. Qed.
Lemma premark_out : forall st a st1, premark st a = Some st1 -> out st1 = out st.
Proof.
  unfold premark. intros st a st1. destruct a as [| |id xs]; try (intros E; inversion E; auto; fail).
  destruct xs as [|[|g|] r]; try (intros E; inversion E; auto; fail).
  destruct (mark_of st id g); [intros E; inversion E; auto|].
  destruct (resolve st g); [|discriminate]. intros E; inversion E. reflexivity.
Qed.
Lemma premark_none : forall st a, premark st a = None ->
  exists id g r, a = SList id (SSym g :: r) /\ builtin_of g = None /\ slookup g (funcs st) = None.
Proof.
  unfold premark. intros st a. destruct a as [| |id xs]; try discriminate.
  destruct xs as [|[|g|] r]; try discriminate.
  destruct (mark_of st id g); [discriminate|]. unfold resolve.
  destruct (builtin_of g) eqn:B; [discriminate|]. destruct (slookup g (funcs st)) eqn:F; [discriminate|].
  intros _. exists id, g, r. auto.
Qed.
Lemma rel_undef : forall st ft g, Rel st ft -> slookup g (funcs st) = None -> slookup g ft = None.
Proof. intros st ft g R F. rewrite <- R. unfold def_of. rewrite F. reflexivity. Qed.

Lemma eval_args_sim : forall n ft, simP n ft -> forall args st en aS oS, Inv st -> Rel st ft ->
  eval_argsS (evalS n ft) en (out st) args = (aS, oS) ->
  exists aM st', eval_args (evalM n) st en args = (aM, st') /\ asim aS oS aM st'.
Proof.
  intros n ft IH. induction args as [|a rest IHa]; simpl; intros st en aS oS I R E.
  - inversion E; subst. exists (AVals []), st. split; auto. split; auto.
  - destruct (premark st a) as [st1|] eqn:P.
    + pose proof (premark_good _ _ _ P) as [T1 I1]. pose proof (premark_out _ _ _ P) as O1.
      rewrite <- O1 in E.
      destruct (evalS n ft en (out st1) a) as [r1 o1] eqn:E1.
      destruct (IH st1 en a r1 o1 (I1 I) (same_tabs_rel _ _ _ T1 R) E1) as (rM & st2 & EM & [S1 S2]).
      rewrite EM. pose proof (evalM_good n _ _ _ _ _ EM) as [T2 I2].
      destruct r1 as [v| |].
      * destruct (S1 eq_refl) as [-> O2].
        destruct (eval_argsS (evalS n ft) en o1 rest) as [aS2 o2] eqn:E2. rewrite <- O2 in E2.
        destruct (IHa st2 en aS2 o2 (I2 (I1 I)) (same_tabs_rel _ _ _ T2 (same_tabs_rel _ _ _ T1 R)) E2)
          as (aM2 & st3 & EM2 & A). rewrite EM2.
        destruct aS2 as [vs|r2].
        -- destruct A as [-> O3]. inversion E; subst. eexists _, _. split; [reflexivity|]. split; auto.
        -- inversion E; subst. destruct A as [A1 (r' & -> & NV)].
           eexists _, _. split; [reflexivity|]. split; [|eauto].
           intros C. destruct (A1 C) as [A2 A3]. auto.
      * inversion E; subst. pose proof (S2 eq_refl) as NV.
        destruct rM; [discriminate| |]; (eexists _, _; split; [reflexivity|]; split; [|eauto];
          intros C; destruct (S1 C) as [Q1 Q2]; split; congruence).
      * inversion E; subst. pose proof (S2 eq_refl) as NV.
        destruct rM; [discriminate| |]; (eexists _, _; split; [reflexivity|]; split; [|eauto];
          intros C; destruct (S1 C) as [Q1 Q2]; split; congruence).
    + destruct (premark_none _ _ P) as (id & g & r & -> & B & F).
      exists (AStop (Err EUndefined)), st. split; auto.
      pose proof (rel_undef _ _ _ R F) as FT.
      destruct n as [|n']; simpl in E.
      * inversion E; subst. split; [discriminate|eauto].
      * rewrite B, FT in E. inversion E; subst. split; [discriminate|eauto].
Qed.

Lemma eval_body_sim : forall n ft, simP n ft -> forall forms st en v rS oS, Inv st -> Rel st ft ->
  eval_bodyS (evalS n ft) en (out st) forms v = (rS, oS) ->
  exists rM st', eval_body (evalM n) st en forms v = (rM, st') /\ sim1 rS oS rM st'.
Proof.
  intros n ft IH. induction forms as [|f rest IHf]; simpl; intros st en v rS oS I R E.
  - inversion E; subst. eexists _, _. split; [reflexivity|apply sim1_same].
  - destruct (evalS n ft en (out st) f) as [r1 o1] eqn:E1.
    destruct (IH st en f r1 o1 I R E1) as (rM & st1 & EM & [S1 S2]). rewrite EM.
    pose proof (evalM_good n _ _ _ _ _ EM) as [T1 I1].
    destruct r1 as [w| |].
    + destruct (S1 eq_refl) as [-> O1]. rewrite <- O1 in E.
      apply (IHf st1 en w rS oS (I1 I) (same_tabs_rel _ _ _ T1 R) E).
    + inversion E; subst. pose proof (S2 eq_refl). destruct rM; [discriminate| |];
        (eexists _, _; split; [reflexivity|]; split; auto).
    + inversion E; subst. pose proof (S2 eq_refl). destruct rM; [discriminate| |];
        (eexists _, _; split; [reflexivity|]; split; auto).
Qed.

Lemma eval_if_sim : forall n ft, simP n ft -> forall args st en rS oS, Inv st -> Rel st ft ->
  eval_ifS (evalS n ft) en (out st) args = (rS, oS) ->
  exists rM st', eval_if (evalM n) st en args = (rM, st') /\ sim1 rS oS rM st'.
Proof.
  intros n ft IH args st en rS oS I R. unfold eval_ifS, eval_if.
  assert (K : forall c a b,
    match evalS n ft en (out st) c with
    | (Val v, o1) => match (if truthy (norm v) then Some a else b) with
                     | None => (Val VNil, o1)
                     | Some x => match evalS n ft en o1 x with (Val w, o2) => (Val (norm w), o2) | r => r end end
    | r => r end = (rS, oS) ->
    exists rM st',
    match evalM n st en c with
    | (Val v, st1) =>
        match (if truthy (norm v) then Some a else b) with
        | None => (Val VNil, apply_def st1 (deferred st c))
        | Some x => match evalM n st1 en x with
                    | (Val w, st2) => (Val (norm w), apply_def (apply_def st2 (deferred st c)) (deferred st1 x))
                    | r => r end
        end
    | r => r end = (rM, st') /\ sim1 rS oS rM st').
  { intros c a b. destruct (evalS n ft en (out st) c) as [r1 o1] eqn:E1.
    destruct (IH st en c r1 o1 I R E1) as (rM & st1 & EM & [S1 S2]). rewrite EM.
    pose proof (evalM_good n _ _ _ _ _ EM) as [T1 I1].
    destruct r1 as [v| |].
    - destruct (S1 eq_refl) as [-> O1].
      destruct (if truthy (norm v) then Some a else b) as [x|].
      + rewrite <- O1. destruct (evalS n ft en (out st1) x) as [r2 o2] eqn:E2.
        destruct (IH st1 en x r2 o2 (I1 I) (same_tabs_rel _ _ _ T1 R) E2) as (rM2 & st2 & EM2 & [Q1 Q2]).
        rewrite EM2. destruct r2 as [w2| |].
        * destruct (Q1 eq_refl) as [-> O2]. intros E; inversion E; subst.
          eexists _, _. split; [reflexivity|]. split; [|discriminate].
          intros _. rewrite !apply_def_out. auto.
        * intros E; inversion E; subst. pose proof (Q2 eq_refl). destruct rM2; [discriminate| |];
            (eexists _, _; split; [reflexivity|]; split; auto).
        * intros E; inversion E; subst. pose proof (Q2 eq_refl). destruct rM2; [discriminate| |];
            (eexists _, _; split; [reflexivity|]; split; auto).
      + intros E; inversion E; subst. eexists _, _. split; [reflexivity|].
        split; auto. intros _. rewrite apply_def_out. auto.
    - intros E; inversion E; subst. pose proof (S2 eq_refl). destruct rM; [discriminate| |];
        (eexists _, _; split; [reflexivity|]; split; auto).
    - intros E; inversion E; subst. pose proof (S2 eq_refl). destruct rM; [discriminate| |];
        (eexists _, _; split; [reflexivity|]; split; auto). }
  destruct args as [|c [|a [|b [|? ?]]]];
    try (intros E; inversion E; subst; eexists _, _; split; [reflexivity|apply sim1_same]).
  - apply K.
  - apply K.
Qed.

Lemma eval_seq_sim : forall n ft, simP n ft -> forall forms st en v rS oS, Inv st -> Rel st ft ->
  eval_seqS (evalS n ft) en (out st) forms v = (rS, oS) ->
  exists rM st', eval_seq (evalM n) st en forms v = (rM, st') /\ sim1 rS oS rM st'.
Proof.
  intros n ft IH. induction forms as [|f rest IHf]; simpl; intros st en v rS oS I R E.
  - inversion E; subst. eexists _, _. split; [reflexivity|apply sim1_same].
  - destruct (premark st f) as [st0|] eqn:P.
    + pose proof (premark_good _ _ _ P) as [T0 I0]. pose proof (premark_out _ _ _ P) as O0.
      rewrite <- O0 in E.
      destruct (evalS n ft en (out st0) f) as [r1 o1] eqn:E1.
      destruct (IH st0 en f r1 o1 (I0 I) (same_tabs_rel _ _ _ T0 R) E1) as (rM & st1 & EM & [S1 S2]). rewrite EM.
      pose proof (evalM_good n _ _ _ _ _ EM) as [T1 I1].
      destruct r1 as [w| |].
      * destruct (S1 eq_refl) as [-> O1]. rewrite <- O1 in E.
        apply (IHf st1 en (norm w) rS oS (I1 (I0 I)) (same_tabs_rel _ _ _ T1 (same_tabs_rel _ _ _ T0 R)) E).
      * inversion E; subst. pose proof (S2 eq_refl). destruct rM; [discriminate| |];
          (eexists _, _; split; [reflexivity|]; split; auto).
      * inversion E; subst. pose proof (S2 eq_refl). destruct rM; [discriminate| |];
          (eexists _, _; split; [reflexivity|]; split; auto).
    + destruct (premark_none _ _ P) as (id & g & r & -> & B & F).
      exists (Err EUndefined), st. split; auto.
      pose proof (rel_undef _ _ _ R F) as FT.
      destruct n as [|n']; simpl in E.
      * inversion E; subst. split; [discriminate|auto].
      * rewrite B, FT in E. inversion E; subst. split; [discriminate|auto].
Qed.
Lemma eval_progn_sim : forall n ft, simP n ft -> forall forms st en v ds rS oS, Inv st -> Rel st ft ->
  eval_seqS (evalS n ft) en (out st) forms v = (rS, oS) ->
  exists rM st', eval_progn (evalM n) st en forms v ds = (rM, st') /\ sim1 rS oS rM st'.
Proof.
  intros n ft IH. induction forms as [|f rest IHf]; simpl; intros st en v ds rS oS I R E.
  - inversion E; subst. eexists _, _. split; [reflexivity|]. split; [|auto].
    intros _. split; [reflexivity|apply fold_apply_def_out].
  - destruct (evalS n ft en (out st) f) as [r1 o1] eqn:E1.
    destruct (IH st en f r1 o1 I R E1) as (rM & st1 & EM & [S1 S2]). rewrite EM.
    pose proof (evalM_good n _ _ _ _ _ EM) as [T1 I1].
    destruct r1 as [w| |].
    + destruct (S1 eq_refl) as [-> O1]. rewrite <- O1 in E.
      apply (IHf st1 en (norm w) _ rS oS (I1 I) (same_tabs_rel _ _ _ T1 R) E).
    + inversion E; subst. pose proof (S2 eq_refl). destruct rM; [discriminate| |];
        (eexists _, _; split; [reflexivity|]; split; auto).
    + inversion E; subst. pose proof (S2 eq_refl). destruct rM; [discriminate| |];
        (eexists _, _; split; [reflexivity|]; split; auto).
Qed.
Lemma eval_case_sim : forall n ft, simP n ft -> forall args st en rS oS, Inv st -> Rel st ft ->
  eval_caseS (evalS n ft) en (out st) args = (rS, oS) ->
  exists rM st', eval_case (evalM n) st en args = (rM, st') /\ sim1 rS oS rM st'.
Proof.
  intros n ft IH args st en rS oS I R. unfold eval_caseS, eval_case.
  destruct args as [|k clauses]; [intros E; inversion E; subst; eexists _, _; split; [reflexivity|apply sim1_same]|].
  destruct (eval_argsS (evalS n ft) en (out st) [k]) as [aS o1] eqn:EA.
  destruct (eval_args_sim n ft IH [k] st en aS o1 I R EA) as (aM & st1 & EM & A). rewrite EM.
  pose proof (eval_args_good _ (evalM_good n) _ _ _ _ _ EM) as [T1 I1].
  destruct aS as [vs|r].
  - destruct A as [-> O1].
    destruct vs as [|key [|? ?]]; try (intros E; inversion E; subst; eexists _, _; split; [reflexivity|]; split; auto; fail).
    destruct (select_clause key clauses) as [forms|];
      [|intros E; inversion E; subst; eexists _, _; split; [reflexivity|]; split; auto].
    rewrite <- O1. intros E.
    apply (eval_seq_sim n ft IH _ st1 _ _ _ _ (I1 I) (same_tabs_rel _ _ _ T1 R) E).
  - intros E; inversion E; subst. destruct A as [A1 (r' & -> & NV)].
    eexists _, _. split; [reflexivity|]. split; auto.
    intros C. destruct (A1 C) as [Q1 Q2]. split; congruence.
Qed.

Lemma eval_args_stop_nonval : forall ev args st en r st',
  eval_args ev st en args = (AStop r, st') -> is_val r = false.
Proof.
  intros ev. induction args as [|a rest IH]; simpl; intros st en r st' E; [discriminate|].
  destruct (premark st a) as [st1|]; [|inversion E; reflexivity].
  destruct (ev st1 en a) as [r1 st2]. destruct r1.
  - destruct (eval_args ev st2 en rest) as [ar st3] eqn:E2. destruct ar; [discriminate|].
    inversion E; subst. eapply IH; eauto.
  - inversion E; reflexivity.
  - inversion E; reflexivity.
Qed.

Lemma wrapper_builtin : forall st id f b, builtin_of f = Some b -> wrapper st id f = WOk (CB b).
Proof.
  intros st id f b B. unfold wrapper, mark_of.
  destruct (nlookup id (marks st)) as [c|].
  - destruct c as [b'|g a]; simpl; rewrite ?B.
    + destruct (bi_eqb b' b) eqn:Q; [apply bi_eqb_eq in Q; subst; reflexivity|].
      unfold resolve. rewrite B. reflexivity.
    + rewrite andb_false_r. unfold resolve. rewrite B. reflexivity.
  - unfold resolve. rewrite B. reflexivity.
Qed.

Lemma wrapper_user : forall st id f, Inv st -> builtin_of f = None ->
  match wrapper st id f with
  | WUndef => slookup f (funcs st) = None
  | WOk (CB _) => False
  | WOk (CD g a) => (exists s l, slookup f (funcs st) = Some s /\ hget st a = Some l /\ hget st s = Some l) \/
                    (orph = true /\ slookup f (funcs st) = None /\ exists l, hget st a = Some l /\ l_place l = true)
  end.
Proof.
  intros st id f I B. unfold wrapper, mark_of.
  assert (RS : match (match resolve st f with Some c => WOk c | None => WUndef end) with
               | WUndef => slookup f (funcs st) = None
               | WOk (CB _) => False
               | WOk (CD g a) => (exists s l, slookup f (funcs st) = Some s /\ hget st a = Some l /\ hget st s = Some l) \/
                    (orph = true /\ slookup f (funcs st) = None /\ exists l, hget st a = Some l /\ l_place l = true)
               end).
  { unfold resolve. rewrite B. destruct (slookup f (funcs st)) as [s|] eqn:F; auto.
    destruct (inv_funcs _ I _ _ F) as (c & l & ? & ? & ? & ?). left. eauto. }
  destruct (nlookup id (marks st)) as [c|] eqn:N; [|exact RS].
  destruct c as [b|g a]; simpl; rewrite B; [exact RS|].
  destruct (String.eqb g f) eqn:Q; simpl; [|exact RS].
  apply String.eqb_eq in Q. subst g.
  destruct (inv_marks _ I _ _ _ N) as [(s & l & ? & ? & ? & ?)|(? & ? & ? & l & ? & ?)]; [left|right]; eauto.
Qed.

Theorem evalM_sim : forall ft n, simP n ft.
Proof.
  intros ft. induction n as [|n IH]; intros st en e rS oS I R E; simpl in E.
  - inversion E; subst. exists OutOfFuel, st. split; auto. apply sim1_same.
  - destruct e as [z|x|id xs].
    + inversion E; subst. eexists _, _. split; [reflexivity|apply sim1_same].
    + inversion E; subst. eexists _, _. split; [reflexivity|apply sim1_same].
    + destruct xs as [|[z|f|i ys] args];
        try (inversion E; subst; eexists _, _; split; [reflexivity|apply sim1_same]).
      simpl. destruct (builtin_of f) as [b|] eqn:B.
      * rewrite (wrapper_builtin st id f b B).
        assert (STRICT : b <> BIf ->
          match eval_argsS (evalS n ft) en (out st) args with
          | (AVals vs, o1) => apply_bi b vs o1
          | (AStop r, o1) => (r, o1) end = (rS, oS) ->
          exists rM st',
            match eval_args (evalM n) st en args with
            | (AVals vs, st1) => let (r, o) := apply_bi b vs (out st1) in (r, set_out st1 o)
            | (AStop r, st1) => (r, st1) end = (rM, st') /\ sim1 rS oS rM st').
        { intros _ E'. destruct (eval_argsS (evalS n ft) en (out st) args) as [aS o1] eqn:EA.
          destruct (eval_args_sim n ft IH args st en aS o1 I R EA) as (aM & st1 & EM & A). rewrite EM.
          destruct aS as [vs|r].
          - destruct A as [-> O1]. rewrite O1, E'. eexists _, _. split; [reflexivity|]. split; auto.
          - inversion E'; subst. destruct A as [A1 (r' & -> & NV)].
            eexists _, _. split; [reflexivity|]. split; auto.
            intros C. destruct (A1 C) as [Q1 Q2]. split; congruence. }
        destruct b; try (apply STRICT; [discriminate|exact E]).
        -- apply (eval_progn_sim n ft IH); auto.
        -- apply (eval_if_sim n ft IH); auto.
        -- apply (eval_case_sim n ft IH); auto.
      * pose proof (wrapper_user st id f I B) as W.
        destruct (slookup f ft) as [[[ps forms] clos]|] eqn:FT.
        -- (* the name has a definition *)
           pose proof (R f) as D. rewrite FT in D. unfold def_of in D.
           destruct (slookup f (funcs st)) as [s|] eqn:F; [|discriminate].
           destruct (hget st s) as [l|] eqn:H; [|discriminate].
           destruct (l_place l) eqn:PL; [discriminate|]. inversion D; subst ps forms clos.
           destruct (wrapper st id f) as [[b|g a]|]; [contradiction| |discriminate].
           destruct W as [(s' & l' & F' & Ha & Hs)|(_ & F' & _)]; [|congruence]. inversion F'; subst s'.
           rewrite H in Hs. inversion Hs; subst l'.
           destruct (eval_argsS (evalS n ft) en (out st) args) as [aS o1] eqn:EA.
           destruct (eval_args_sim n ft IH args st en aS o1 I R EA) as (aM & st1 & EM & A). rewrite EM.
           pose proof (eval_args_good _ (evalM_good n) _ _ _ _ _ EM) as [T1 I1].
           destruct aS as [vs|r].
           ++ destruct A as [-> O1]. unfold call_lambda.
              assert (Ha1 : nth_error (heap st1) a = Some l) by (destruct T1 as [-> _]; exact Ha).
              rewrite Ha1, PL.
              destruct (arity_err (List.length (l_params l)) (List.length vs)).
              ** inversion E; subst. eexists _, _. split; [reflexivity|]. split; auto.
              ** rewrite <- O1 in E.
                 apply (eval_body_sim n ft IH _ st1 _ _ _ _ (I1 I) (same_tabs_rel _ _ _ T1 R) E).
           ++ inversion E; subst. destruct A as [A1 (r' & -> & NV)].
              eexists _, _. split; [reflexivity|]. split; auto.
              intros C. destruct (A1 C) as [Q1 Q2]. split; congruence.
        -- (* no definition: S says undefined-function; M may do something else, but never yields a value *)
           inversion E; subst.
           assert (NV : exists rM st', (match wrapper st id f with
               | WOk (CB BProgn) => eval_progn (evalM n) st en args VNil []
               | WOk (CB BIf) => eval_if (evalM n) st en args
               | WOk (CB BCase) => eval_case (evalM n) st en args
               | WOk (CB b) => match eval_args (evalM n) st en args with
                               | (AVals vs, st1) => let (r, o) := apply_bi b vs (out st1) in (r, set_out st1 o)
                               | (AStop r, st1) => (r, st1) end
               | WOk (CD _ a) => match eval_args (evalM n) st en args with
                                 | (AVals vs, st1) => call_lambda (evalM n) st1 en a vs
                                 | (AStop r, st1) => (r, st1) end
               | WUndef => (Err EUndefined, st) end) = (rM, st') /\ is_val rM = false).
           { destruct (wrapper st id f) as [[b|g a]|]; [contradiction| |eauto].
             assert (W' : exists l, hget st a = Some l /\ l_place l = true).
             { destruct W as [(s & l & F & Ha & Hs)|(_ & _ & W)]; [|exact W].
               pose proof (R f) as D. rewrite FT in D. unfold def_of in D. rewrite F, Hs in D.
               destruct (l_place l) eqn:PL; [eauto|discriminate]. }
             destruct W' as (l & Ha & PL).
             destruct (eval_args (evalM n) st en args) as [aM st1] eqn:EM.
             pose proof (eval_args_good _ (evalM_good n) _ _ _ _ _ EM) as [T1 I1].
             destruct aM as [vs|r].
             - unfold call_lambda. assert (Ha1 : nth_error (heap st1) a = Some l) by (destruct T1 as [-> _]; exact Ha).
               rewrite Ha1, PL. eauto.
             - apply eval_args_stop_nonval in EM. eauto. }
           destruct NV as (rM & st' & EQ & NV). exists rM, st'. split.
           ++ destruct (wrapper st id f) as [[[]|g a]|]; exact EQ.
           ++ split; [discriminate|auto].
Qed.

(* ---- compilation (CompileList / placeholders) keeps the invariant and defines nothing ------------- *)
Fixpoint sexp_ind2 (P : sexp -> Prop) (hI : forall z, P (SInt z)) (hS : forall x, P (SSym x))
  (hL : forall id xs, Forall P xs -> P (SList id xs)) (e : sexp) : P e :=
  match e with
  | SInt z => hI z
  | SSym x => hS x
  | SList id xs => hL id xs ((fix go (l : list sexp) : Forall P l :=
                               match l with [] => Forall_nil P | x :: r => Forall_cons x (sexp_ind2 P hI hS hL x) (go r) end) xs)
  end.

Record cg (st st' : state) : Prop := mkCg {
  cg_inv : Inv st';
  cg_heap : forall a l, hget st a = Some l -> hget st' a = Some l;
  cg_len : List.length (heap st) <= List.length (heap st');
  cg_funcs : forall f s, slookup f (funcs st) = Some s -> slookup f (funcs st') = Some s;
  cg_lams : forall f c, slookup f (lambdas st) = Some c -> slookup f (lambdas st') = Some c;
  (* a name registered by compilation is a placeholder whose creator holds the registered Lambda *)
  cg_new : forall f, slookup f (funcs st) = None -> slookup f (funcs st') = None \/
      exists p l, slookup f (funcs st') = Some p /\ slookup f (lambdas st') = Some p /\ hget st' p = Some l /\ l_place l = true;
  cg_out : out st' = out st
}.
Definition cgood (st st' : state) : Prop := Inv st -> cg st st'.

Lemma cgood_refl : forall st, cgood st st.
Proof. intros st I. constructor; auto. Qed.
Lemma cgood_trans : forall a b c, cgood a b -> cgood b c -> cgood a c.
Proof.
  intros a b c H1 H2 I. specialize (H1 I). specialize (H2 (cg_inv _ _ H1)).
  constructor.
  - apply H2.
  - intros. apply (cg_heap _ _ H2). apply (cg_heap _ _ H1). auto.
  - pose proof (cg_len _ _ H1). pose proof (cg_len _ _ H2). lia.
  - intros. apply (cg_funcs _ _ H2). apply (cg_funcs _ _ H1). auto.
  - intros. apply (cg_lams _ _ H2). apply (cg_lams _ _ H1). auto.
  - intros f F. destruct (cg_new _ _ H1 f F) as [N|(p & l & F1 & L1 & Hp & PL)].
    + apply (cg_new _ _ H2 f N).
    + right. exists p, l. repeat split; auto.
      * apply (cg_funcs _ _ H2); auto.
      * apply (cg_lams _ _ H2); auto.
      * apply (cg_heap _ _ H2); auto.
  - rewrite (cg_out _ _ H2). apply (cg_out _ _ H1).
Qed.
Lemma good_cgood : forall st st', good st st' -> out st' = out st -> cgood st st'.
Proof.
  intros st st' [[h [l f]] GI] O I. constructor; auto; unfold hget; rewrite ?h, ?l, ?f; auto.
Qed.

Lemma resolve_none : forall st f, resolve st f = None -> builtin_of f = None /\ slookup f (funcs st) = None.
Proof.
  unfold resolve. intros st f. destruct (builtin_of f); [discriminate|].
  destruct (slookup f (funcs st)); [discriminate|auto].
Qed.

Lemma place_cgood : forall st f, resolve st f = None -> slookup f (lambdas st) = None ->
  cgood st (mkSt (heap st ++ [mkLam f [] [] true []]) ((f, List.length (heap st)) :: lambdas st)
                 ((f, List.length (heap st)) :: funcs st) (marks st) (out st)).
Proof.
  intros st f RN LN I. destruct (resolve_none _ _ RN) as [B F].
  set (a := List.length (heap st)). set (pl := mkLam f [] [] true []).
  assert (HA : nth_error (heap st ++ [pl]) a = Some pl) by apply nth_error_app_new.
  assert (HO : forall x v, nth_error (heap st) x = Some v -> nth_error (heap st ++ [pl]) x = Some v)
    by (intros; apply nth_error_app_old; auto).
  constructor; simpl.
  - constructor; unfold hget; simpl.
    + intros f' s. destruct (String.eqb f' f) eqn:Q.
      * apply String.eqb_eq in Q. subst f'. intros E; inversion E; subst s.
        exists a, pl. auto.
      * intros E. destruct (inv_funcs _ I _ _ E) as (c & l & ? & ? & ? & ?).
        exists c, l. repeat split; auto; apply HO; auto.
    + intros id g a' N. destruct (inv_marks _ I _ _ _ N) as [(s & l & Fg & Ha & Hs & K)|(OR & Fg & Lg & l & Ha & PL)].
      * assert (Q : String.eqb g f = false).
        { destruct (String.eqb g f) eqn:Q; auto. apply String.eqb_eq in Q. subst g. congruence. }
        rewrite Q. left. exists s, l. repeat split; auto; apply HO; auto.
      * assert (Q : String.eqb g f = false).
        { destruct (String.eqb g f) eqn:Q; auto. apply String.eqb_eq in Q. subst g. congruence. }
        rewrite Q. right. repeat split; auto. exists l. split; auto.
    + intros f' c. destruct (String.eqb f' f) eqn:Q.
      * apply String.eqb_eq in Q. subst f'. intros E; inversion E; subst c. exists pl. repeat split; auto.
      * intros E. destruct (inv_lams _ I _ _ E) as (l & ? & ? & ?).
        exists l. repeat split; auto.
    + intros f' s. destruct (String.eqb f' f) eqn:Q; [auto|apply (inv_canon _ I)].
  - unfold hget; simpl. intros. apply HO; auto.
  - rewrite app_length. simpl. lia.
  - intros f' s E. destruct (String.eqb f' f) eqn:Q; auto.
    apply String.eqb_eq in Q. subst f'. congruence.
  - intros f' c E. destruct (String.eqb f' f) eqn:Q; auto.
    apply String.eqb_eq in Q. subst f'. congruence.
  - intros f' N. destruct (String.eqb f' f) eqn:Q; auto.
    right. exists a, pl. unfold hget; simpl. auto.
  - reflexivity.
Qed.
(* CompileList of a call of a name whose Lambda is registered but which has no creator (after fmakunbound): the
   registered Lambda - a placeholder - gets a creator again (repo_fixes/C08-6) *)
Lemma reuse_cgood : forall st f c0, resolve st f = None -> slookup f (lambdas st) = Some c0 ->
  cgood st (mkSt (heap st) (lambdas st) ((f, c0) :: funcs st) (marks st) (out st)).
Proof.
  intros st f c0 RN LN I. destruct (resolve_none _ _ RN) as [B F].
  destruct (inv_lams _ I _ _ LN) as (pl & Hp & NP & PP). specialize (PP F).
  constructor; simpl; auto.
  - constructor; unfold hget; simpl.
    + intros f' s. destruct (String.eqb f' f) eqn:Q.
      * apply String.eqb_eq in Q. subst f'. intros E; inversion E; subst s. exists c0, pl. auto.
      * apply (inv_funcs _ I).
    + intros id g a' N. destruct (String.eqb g f) eqn:Q.
      * apply String.eqb_eq in Q. subst g.
        destruct (inv_marks _ I _ _ _ N) as [(s & l & Fg & _)|(OR & Fg & Lg & l & Ha & PL)]; [congruence|].
        assert (a' = c0) by congruence. subst a'. left. exists c0, pl. auto.
      * apply (inv_marks _ I _ _ _ N).
    + intros f' c E. destruct (inv_lams _ I _ _ E) as (l & ? & ? & PL). exists l. repeat split; auto.
      destruct (String.eqb f' f); [discriminate|exact PL].
    + intros f' s. destruct (String.eqb f' f) eqn:Q; [|apply (inv_canon _ I)].
      apply String.eqb_eq in Q. subst f'. intros E; inversion E; subst s. exact LN.
  - intros f' s E. destruct (String.eqb f' f) eqn:Q; auto.
    apply String.eqb_eq in Q. subst f'. congruence.
  - intros f' N. destruct (String.eqb f' f) eqn:Q; auto.
    apply String.eqb_eq in Q. subst f'. right. exists c0, pl. auto.
Qed.

Lemma resolve_or_place_spec : forall st f c st1, resolve_or_place st f = (c, st1) ->
  cgood st st1 /\ resolve st1 f = Some c.
Proof.
  unfold resolve_or_place. intros st f c st1. destruct (resolve st f) as [c0|] eqn:R.
  - intros E; inversion E; subst. split; [apply cgood_refl|auto].
  - destruct (resolve_none _ _ R) as [B F]. destruct (slookup f (lambdas st)) as [c0|] eqn:L.
    + (* a registered Lambda without a creator only exists after fmakunbound: not in a state satisfying Inv *)
      intros E; inversion E; subst. split.
      * apply reuse_cgood; auto.
      * unfold resolve. rewrite B. simpl. rewrite String.eqb_refl. reflexivity.
    + intros E; inversion E; subst. split; [apply place_cgood; auto|].
      unfold resolve. rewrite B. simpl. rewrite String.eqb_refl. reflexivity.
Qed.
Lemma set_mark_cgood : forall st id g c, resolve st g = Some c -> cgood st (set_mark st id c).
Proof.
  intros. apply good_cgood; [|reflexivity]. eapply good_set_mark; eauto. repeat split.
Qed.

Lemma compile_list_cgood : forall e st, cgood st (compile_list st e).
Proof.
  induction e as [z|x|id xs IH] using sexp_ind2; intros st; try apply cgood_refl.
  destruct xs as [|[z|f|i ys] args]; try apply cgood_refl.
  simpl. destruct (resolve_or_place st f) as [c st1] eqn:RP.
  destruct (resolve_or_place_spec _ _ _ _ RP) as [G1 R1].
  assert (G2 : cgood st (set_mark st1 id c)).
  { eapply cgood_trans; [exact G1|]. eapply set_mark_cgood; eauto. }
  inversion IH as [|? ? _ IHargs]; subst. clear IH RP R1 G1.
  revert G2. generalize (set_mark st1 id c). generalize 0. clear st1.
  induction args as [|a rest IHr]; intros i st2 G2; [exact G2|].
  inversion IHargs as [|? ? Pa Prest]; subst.
  apply IHr; auto.
  destruct (strict_at c i); auto.
  destruct a as [| |j ys]; auto.
  destruct (marked st2 (SList j ys)); auto.
  eapply cgood_trans; [exact G2|apply Pa].
Qed.
Lemma compile_slot_cgood : forall e st, cgood st (compile_slot st e).
Proof.
  intros e st. unfold compile_slot. destruct e; try apply cgood_refl.
  destruct (marked st (SList id xs)); [apply cgood_refl|apply compile_list_cgood].
Qed.
Lemma fold_compile_cgood : forall body st, cgood st (fold_left compile_slot body st).
Proof.
  induction body as [|e r IH]; simpl; intros st; [apply cgood_refl|].
  eapply cgood_trans; [apply compile_slot_cgood|apply IH].
Qed.
Lemma cg_def_of : forall st st', Inv st -> cg st st' -> forall f, def_of st' f = def_of st f.
Proof.
  intros st st' I C f. unfold def_of.
  destruct (slookup f (funcs st)) as [s|] eqn:F.
  - rewrite (cg_funcs _ _ C _ _ F). destruct (inv_funcs _ I _ _ F) as (c & l & _ & Hs & _).
    rewrite (cg_heap _ _ C _ _ Hs), Hs. reflexivity.
  - destruct (cg_new _ _ C f F) as [N|(p & l & F1 & _ & Hp & PL)].
    + rewrite N. reflexivity.
    + rewrite F1, Hp, PL. reflexivity.
Qed.

(* ---- defun ---------------------------------------------------------------------------------------- *)
Lemma hget_lt : forall st a l, hget st a = Some l -> a < List.length (heap st).
Proof. unfold hget. intros. apply nth_error_Some. congruence. Qed.

Lemma alloc_cg : forall st l, Inv st -> cg st (mkSt (heap st ++ [l]) (lambdas st) (funcs st) (marks st) (out st)).
Proof.
  intros st l I. constructor; simpl; auto.
  - destruct I as [i1 i2 i3 i4]. constructor; unfold hget; simpl; auto.
    + intros f s E. destruct (i1 _ _ E) as (c & l0 & ? & ? & ? & ?). exists c, l0.
      repeat split; auto; apply nth_error_app_old; auto.
    + intros id g a' N. destruct (i2 _ _ _ N) as [(s & l0 & ? & ? & ? & ?)|(? & ? & ? & l0 & ? & ?)].
      * left. exists s, l0. repeat split; auto; apply nth_error_app_old; auto.
      * right. repeat split; auto. exists l0. split; auto. apply nth_error_app_old; auto.
    + intros f c E. destruct (i3 _ _ E) as (l0 & ? & ? & ?). exists l0. repeat split; auto.
      apply nth_error_app_old; auto.
  - unfold hget; simpl. intros. apply nth_error_app_old; auto.
  - rewrite app_length; simpl; lia.
Qed.
(* a definition - first or repeated, of a name that has been called before or not - keeps the invariant and
   gives the name exactly that definition; no guard: the creator it installs hands out the registered Lambda *)
Theorem defunM_step : forall st ft name ps body clos, Inv st -> Rel st ft ->
  Inv (defunM st name ps body clos) /\ Rel (defunM st name ps body clos) ((name, (ps, body, clos)) :: ft) /\
  out (defunM st name ps body clos) = out st.
Proof.
  intros st ft name ps body clos I R.
  set (a := List.length (heap st)). set (newl := mkLam name ps body false clos).
  set (st1 := mkSt (heap st ++ [newl]) (lambdas st) (funcs st) (marks st) (out st)).
  assert (C1 : cg st st1) by (apply alloc_cg; exact I).
  set (st2 := fold_left compile_slot body st1).
  pose proof (fold_compile_cgood body st1 (cg_inv _ _ C1)) as C2. fold st2 in C2.
  pose proof (cg_inv _ _ C2) as I2.
  assert (HA : hget st2 a = Some newl).
  { apply (cg_heap _ _ C2). unfold hget, st1; simpl. apply nth_error_app_new. }
  assert (DEF : forall f, def_of st2 f = def_of st f).
  { intros f. rewrite (cg_def_of _ _ (cg_inv _ _ C1) C2). apply (cg_def_of _ _ I C1). }
  assert (OUT : out st2 = out st) by (rewrite (cg_out _ _ C2); reflexivity).
  unfold defunM. fold a newl st1 st2.
  destruct (slookup name (lambdas st2)) as [c|] eqn:LN.
  - (* the name has a registered Lambda: it takes the definition over and the creator hands it out *)
    destruct (inv_lams _ I2 _ _ LN) as (lc & Hc & NC & PC).
    assert (CA : c <> a).
    { (* the registered address is older than a, or a placeholder (made while the body was compiled, or left by
         fmakunbound) *)
      intros ->. destruct (slookup name (funcs st2)) as [s|] eqn:FS.
      - assert (SC : s = a) by (pose proof (inv_canon _ I2 _ _ FS) as X; congruence). subst s.
        destruct (slookup name (funcs st)) as [s0|] eqn:F0.
        + pose proof (cg_funcs _ _ C2 _ _ (cg_funcs _ _ C1 _ _ F0)) as F2. rewrite FS in F2. inversion F2; subst s0.
          destruct (inv_funcs _ I _ _ F0) as (c0 & l & _ & Hl & _). apply hget_lt in Hl. unfold a in Hl. lia.
        + destruct (cg_new _ _ C2 name F0) as [N|(p & l & F2 & L2 & Hp & PL)]; [congruence|].
          rewrite LN in L2. inversion L2; subst p. rewrite HA in Hp. inversion Hp; subst l. discriminate.
      - specialize (PC eq_refl). rewrite HA in Hc. inversion Hc; subst lc. discriminate. }
    set (hp := set_nth (heap st2) c newl).
    assert (HC : nth_error hp c = Some newl) by (apply set_nth_same; eapply hget_lt; eauto).
    assert (HO : forall x l, hget st2 x = Some l -> l_name l <> name -> nth_error hp x = Some l).
    { intros x l Hx NN. unfold hp. rewrite set_nth_other; auto. intros ->. rewrite Hc in Hx. congruence. }
    split; [|split; [|exact OUT]].
    + constructor; unfold hget; simpl.
      * intros f s'. destruct (String.eqb f name) eqn:Q.
        -- apply String.eqb_eq in Q. subst f. intros E; inversion E; subst s'.
           exists c, newl. repeat split; auto.
        -- intros E. destruct (inv_funcs _ I2 _ _ E) as (c' & l & L' & Hs' & Hc' & NM).
           assert (l_name l <> name) by (intros X; rewrite X in NM; subst f; rewrite String.eqb_refl in Q; discriminate).
           exists c', l. repeat split; auto.
      * intros id g a' N. destruct (String.eqb g name) eqn:Q.
        -- apply String.eqb_eq in Q. subst g.
           assert (a' = c).
           { destruct (inv_marks _ I2 _ _ _ N) as [(s' & l & F' & Ha' & Hs' & K)|(_ & F' & L' & _)]; [|congruence].
             pose proof (inv_canon _ I2 _ _ F') as X. rewrite LN in X. inversion X; subst s'. apply K; exact LN. }
           subst a'. left. exists c, newl. repeat split; auto.
        -- destruct (inv_marks _ I2 _ _ _ N) as [(s' & l & F' & Ha' & Hs' & K)|(OR & F' & L' & l & Ha' & PL')].
           ++ destruct (inv_funcs _ I2 _ _ F') as (c' & l' & _ & Hs2 & _ & NM).
              rewrite Hs' in Hs2. inversion Hs2; subst l'.
              assert (l_name l <> name) by (intros X; rewrite X in NM; subst g; rewrite String.eqb_refl in Q; discriminate).
              left. exists s', l. repeat split; auto.
           ++ destruct (inv_lams _ I2 _ _ L') as (l' & Hl' & NM & _).
              rewrite Ha' in Hl'. inversion Hl'; subst l'.
              assert (l_name l <> name) by (intros X; rewrite X in NM; subst g; rewrite String.eqb_refl in Q; discriminate).
              right. repeat split; auto. exists l. split; auto.
      * intros f c'. intros E. destruct (inv_lams _ I2 _ _ E) as (l & Hl & NM & PL').
        destruct (String.eqb f name) eqn:Q.
        -- apply String.eqb_eq in Q. subst f. assert (c' = c) by congruence. subst c'.
           exists newl. repeat split; auto. discriminate.
        -- exists l. repeat split; auto. apply HO; auto.
           intros X; rewrite X in NM; subst f; rewrite String.eqb_refl in Q; discriminate.
      * intros f s'. destruct (String.eqb f name) eqn:Q.
        -- apply String.eqb_eq in Q. subst f. intros E; inversion E; subst s'. exact LN.
        -- apply (inv_canon _ I2).
    + intros f. unfold def_of, hget. simpl. destruct (String.eqb f name) eqn:Q.
      * rewrite HC. reflexivity.
      * rewrite <- R, <- DEF. unfold def_of.
        destruct (slookup f (funcs st2)) as [s'|] eqn:F'; auto.
        destruct (inv_funcs _ I2 _ _ F') as (c' & l & _ & Hs' & _ & NM).
        rewrite Hs'. rewrite (HO _ _ Hs'); auto.
        intros X; rewrite X in NM; subst f; rewrite String.eqb_refl in Q; discriminate.
  - (* a new name *)
    assert (FN : slookup name (funcs st2) = None).
    { destruct (slookup name (funcs st2)) as [s|] eqn:F; auto.
      destruct (inv_funcs _ I2 _ _ F) as (c & ? & L & _). congruence. }
    split; [|split; [|exact OUT]].
    + constructor; unfold hget; simpl.
      * intros f s. destruct (String.eqb f name) eqn:Q.
        -- apply String.eqb_eq in Q. subst f. intros E; inversion E; subst s. exists a, newl. auto.
        -- apply (inv_funcs _ I2).
      * intros id g a' N. destruct (String.eqb g name) eqn:Q; [|apply (inv_marks _ I2 _ _ _ N)].
        apply String.eqb_eq in Q. subst g.
        destruct (inv_marks _ I2 _ _ _ N) as [(s & l & F' & _)|(_ & _ & L' & _)]; congruence.
      * intros f c. destruct (String.eqb f name) eqn:Q.
        -- apply String.eqb_eq in Q. subst f. intros E; inversion E; subst c. exists newl. repeat split; auto. discriminate.
        -- apply (inv_lams _ I2).
      * intros f s. destruct (String.eqb f name) eqn:Q; [auto|apply (inv_canon _ I2)].
    + intros f. unfold def_of, hget. simpl. destruct (String.eqb f name) eqn:Q.
      * fold (hget st2 a). rewrite HA. reflexivity.
      * rewrite <- R, <- DEF. reflexivity.
Qed.

(* ---- histories of code objects ------------------------------------------------------------------- *)
Definition HInv (m : mstate) (s : sstate) : Prop :=
  Inv (ms m) /\ Rel (ms m) (sft s) /\ codes m = scodes s /\ mgv m = sgv s.
Definition osim (oS oM : obs) : Prop :=
  (comparable (fst oS) = true -> oM = oS) /\ (is_val (fst oS) = false -> is_val (fst oM) = false).

(* a variable definition with an init form: M's evaluation (in-place conversion of the init form: stored at once
   for defparameter, written back afterwards for defvar) gives S's outcome and the same variable table *)
Lemma gdef_eval_sim : forall n st ft gv always nm init rS oS gvS, Inv st -> Rel st ft ->
  gdef_evalS (evalS n ft) gv (out st) always nm init = (rS, oS, gvS) ->
  exists rM st', gdef_eval (evalM n) st gv always nm init = (rM, st', gvS) /\ sim1 rS oS rM st' /\ good st st'.
Proof.
  intros n st ft gv always nm init rS oS gvS I R. unfold gdef_evalS, gdef_eval. destruct always.
  - destruct (premark st init) as [st1|] eqn:P.
    + pose proof (premark_good _ _ _ P) as G1. destruct G1 as [T1 I1]. pose proof (premark_out _ _ _ P) as O1.
      rewrite <- O1. destruct (evalS n ft gv (out st1) init) as [r1 o1] eqn:E1.
      destruct (evalM_sim ft n st1 gv init r1 o1 (I1 I) (same_tabs_rel _ _ _ T1 R) E1) as (rM & st2 & EM & [S1 S2]).
      rewrite EM. pose proof (evalM_good n _ _ _ _ _ EM) as G2.
      assert (G : good st st2) by (eapply good_trans; [split; [exact T1|exact I1]|exact G2]).
      destruct r1 as [v|er|].
      * destruct (S1 eq_refl) as [-> O2]. intros E; inversion E; subst. eexists _, _. split; [reflexivity|].
        split; [split; [auto|discriminate]|exact G].
      * intros E; inversion E; subst. pose proof (S2 eq_refl). destruct rM; [discriminate| |];
          (eexists _, _; split; [reflexivity|]; split; [split; auto|exact G]).
      * intros E; inversion E; subst. pose proof (S2 eq_refl). destruct rM; [discriminate| |];
          (eexists _, _; split; [reflexivity|]; split; [split; auto|exact G]).
    + destruct (premark_none _ _ P) as (id & g & r & -> & B & F).
      pose proof (rel_undef _ _ _ R F) as FT. intros E.
      exists (Err EUndefined), st.
      destruct n as [|n']; simpl in E.
      * inversion E; subst. split; [reflexivity|]. split; [split; [discriminate|auto]|apply good_refl].
      * rewrite B, FT in E. inversion E; subst. split; [reflexivity|]. split; [split; [discriminate|auto]|apply good_refl].
  - destruct (slookup (gkey nm) gv).
    + intros E; inversion E; subst. eexists _, _. split; [reflexivity|]. split; [apply sim1_same|apply good_refl].
    + destruct (evalS n ft gv (out st) init) as [r1 o1] eqn:E1.
      destruct (evalM_sim ft n st gv init r1 o1 I R E1) as (rM & st1 & EM & [S1 S2]).
      rewrite EM. pose proof (evalM_good n _ _ _ _ _ EM) as G1.
      destruct r1 as [v|er|].
      * destruct (S1 eq_refl) as [-> O1]. intros E; inversion E; subst. eexists _, _. split; [reflexivity|].
        split; [split; [intros _; rewrite apply_def_out; auto|discriminate]|].
        eapply good_trans; [exact G1|]. apply apply_def_good. apply G1.
      * intros E; inversion E; subst. pose proof (S2 eq_refl). destruct rM; [discriminate| |];
          (eexists _, _; split; [reflexivity|]; split; [split; auto|exact G1]).
      * intros E; inversion E; subst. pose proof (S2 eq_refl). destruct rM; [discriminate| |];
          (eexists _, _; split; [reflexivity|]; split; [split; auto|exact G1]).
Qed.

Lemma run_forms_sim : forall n fs st ft gv v rS oS ft' gv', Inv st -> Rel st ft ->
  run_formsS n ft gv (out st) fs v = (rS, oS, ft', gv') ->
  exists rM st', run_forms n st gv fs v = (rM, st', gv') /\ sim1 rS oS rM st' /\ Inv st' /\ Rel st' ft'.
Proof.
  intros n. induction fs as [|t r IH]; simpl; intros st ft gv v rS oS ft' gv' I R E.
  - inversion E; subst. eexists _, _. split; [reflexivity|]. split; [apply sim1_same|auto].
  - destruct t as [e|nm]; [|eapply IH; eauto].
    destruct (parse_defun e) as [[[nm ps] body]|] eqn:PD.
    + destruct (defunM_step st ft nm ps body [] I R) as (I' & R' & O'). rewrite <- O' in E. eapply IH; eauto.
    + destruct (parse_letdefun e) as [[[[clos nm] ps] body]|] eqn:PL.
      * destruct (defunM_step st ft nm ps body clos I R) as (I' & R' & O'). rewrite <- O' in E. eapply IH; eauto.
      * destruct (parse_gdef e) as [[[always nm] init]|] eqn:PG.
        -- destruct (gdef_evalS (evalS n ft) gv (out st) always nm init) as [[r1 o1] gv1] eqn:E1.
           destruct (gdef_eval_sim n st ft gv always nm init r1 o1 gv1 I R E1) as (rM & st1 & EM & [S1 S2] & [T1 I1]).
           rewrite EM. destruct r1 as [w|er|].
           ++ destruct (S1 eq_refl) as [-> O1]. rewrite <- O1 in E. eapply IH; eauto. eapply same_tabs_rel; eauto.
           ++ inversion E; subst. pose proof (S2 eq_refl). destruct rM; [discriminate| |];
                (eexists _, _; split; [reflexivity|]; split; [split; auto|split; [auto|eapply same_tabs_rel; eauto]]).
           ++ inversion E; subst. pose proof (S2 eq_refl). destruct rM; [discriminate| |];
                (eexists _, _; split; [reflexivity|]; split; [split; auto|split; [auto|eapply same_tabs_rel; eauto]]).
        -- destruct (evalS n ft gv (out st) e) as [r1 o1] eqn:E1.
           destruct (evalM_sim ft n st gv e r1 o1 I R E1) as (rM & st1 & EM & [S1 S2]).
           rewrite EM. pose proof (evalM_good n _ _ _ _ _ EM) as [T1 I1].
           destruct r1 as [w|er|].
           ++ destruct (S1 eq_refl) as [-> O1]. rewrite <- O1 in E. eapply IH; eauto. eapply same_tabs_rel; eauto.
           ++ inversion E; subst. pose proof (S2 eq_refl). destruct rM; [discriminate| |];
                (eexists _, _; split; [reflexivity|]; split; [split; auto|split; [auto|eapply same_tabs_rel; eauto]]).
           ++ inversion E; subst. pose proof (S2 eq_refl). destruct rM; [discriminate| |];
                (eexists _, _; split; [reflexivity|]; split; [split; auto|split; [auto|eapply same_tabs_rel; eauto]]).
Qed.

(* Code.Compile's first loop: the definitions made at compile time, the init forms evaluated then, the condition
   that ends it and the rewritten code object are S's *)
Lemma compile_defs_sim : forall n fs st ft gv xS oS ft' gv' fs', Inv st -> Rel st ft ->
  compile_defsS n ft gv (out st) fs = (xS, oS, ft', gv', fs') ->
  exists xM st', compile_defs n st gv fs = (xM, st', gv', fs') /\ sim1 xS oS xM st' /\ Inv st' /\ Rel st' ft'.
Proof.
  intros n. induction fs as [|t r IH]; simpl; intros st ft gv xS oS ft' gv' fs' I R E.
  - inversion E; subst. eexists _, _. split; [reflexivity|]. split; [apply sim1_same|auto].
  - assert (KEEP : forall t0, (let '(x, o', ft0, gv0, r') := compile_defsS n ft gv (out st) r in (x, o', ft0, gv0, t0 :: r')) = (xS, oS, ft', gv', fs') ->
       exists xM st', (let '(x, st0, gv0, r') := compile_defs n st gv r in (x, st0, gv0, t0 :: r')) = (xM, st', gv', fs') /\
                      sim1 xS oS xM st' /\ Inv st' /\ Rel st' ft').
    { intros t0 E'. destruct (compile_defsS n ft gv (out st) r) as [[[[x o'] ft0] gv0] r'] eqn:ER.
      inversion E'; subst. destruct (IH _ _ _ _ _ _ _ _ I R ER) as (xM & st' & EM & S & I' & R').
      rewrite EM. eauto 10. }
    destruct t as [e|nm]; [|apply KEEP; exact E].
    destruct (parse_defun e) as [[[nm ps] body]|] eqn:PD.
    + destruct (defunM_step st ft nm ps body [] I R) as (I' & R' & O'). rewrite <- O' in E.
      destruct (compile_defsS n ((nm, (ps, body, [])) :: ft) gv (out (defunM st nm ps body [])) r) as [[[[x o'] ft0] gv0] r'] eqn:ER.
      inversion E; subst. destruct (IH _ _ _ _ _ _ _ _ I' R' ER) as (xM & st' & EM & S & I'' & R'').
      rewrite EM. eauto 10.
    + destruct (parse_letdefun e) as [[[[clos nm] ps] body]|] eqn:PL; [apply KEEP; exact E|].
      destruct (parse_gdef e) as [[[always nm] init]|] eqn:PG; [|apply KEEP; exact E].
      destruct (gdef_evalS (evalS n ft) gv (out st) always nm init) as [[r1 o1] gv1] eqn:E1.
      destruct (gdef_eval_sim n st ft gv always nm init r1 o1 gv1 I R E1) as (rM & st1 & EM & [S1 S2] & [T1 I1]).
      rewrite EM. destruct r1 as [w|er|].
      * destruct (S1 eq_refl) as [-> O1]. rewrite <- O1 in E.
        destruct (compile_defsS n ft gv1 (out st1) r) as [[[[x o'] ft0] gv0] r'] eqn:ER.
        inversion E; subst.
        destruct (IH _ _ _ _ _ _ _ _ (I1 I) (same_tabs_rel _ _ _ T1 R) ER) as (xM & st' & EM2 & S & I'' & R'').
        rewrite EM2. eauto 10.
      * inversion E; subst. pose proof (S2 eq_refl). destruct rM; [discriminate| |];
          (eexists _, _; split; [reflexivity|]; split; [split; auto|split; [auto|eapply same_tabs_rel; eauto]]).
      * inversion E; subst. pose proof (S2 eq_refl). destruct rM; [discriminate| |];
          (eexists _, _; split; [reflexivity|]; split; [split; auto|split; [auto|eapply same_tabs_rel; eauto]]).
Qed.
Lemma compile_rest_cgood : forall fs st, cgood st (compile_rest st fs).
Proof.
  unfold compile_rest. induction fs as [|t r IH]; simpl; intros st; [apply cgood_refl|].
  eapply cgood_trans; [|apply IH]. destruct t as [e|nm]; [|apply cgood_refl].
  destruct (parse_letdefun e); [apply cgood_refl|apply compile_slot_cgood].
Qed.
Lemma cgood_rel : forall st st' ft, cgood st st' -> Inv st -> Rel st ft -> Inv st' /\ Rel st' ft.
Proof.
  intros st st' ft C I R. specialize (C I). split; [apply C|].
  intros f. rewrite (cg_def_of _ _ I C). apply R.
Qed.

(* ---- fmakunbound ---------------------------------------------------------------------------------------- *)
Lemma slookup_sremove : forall {A} f k (l : list (string * A)),
  slookup f (sremove k l) = if String.eqb f k then None else slookup f l.
Proof.
  intros A f k. induction l as [|[k' v] r IH]; simpl.
  - destruct (String.eqb f k); reflexivity.
  - destruct (String.eqb k k') eqn:Q.
    + apply String.eqb_eq in Q. subst k'. rewrite IH. destruct (String.eqb f k); reflexivity.
    + simpl. rewrite IH. destruct (String.eqb f k) eqn:Q2; [|reflexivity].
      apply String.eqb_eq in Q2. subst f. rewrite Q. reflexivity.
Qed.
Lemma neq_eqb : forall f g, String.eqb f g = false -> f <> g.
Proof. intros f g Q ->. rewrite String.eqb_refl in Q. discriminate. Qed.
(* fmakunbound keeps the invariant and removes exactly the definition of the name: the creator is gone, the
   registered Lambda stays registered as a placeholder, the compiled calls of the name keep holding it *)
Lemma nomark_spec : forall name mk id g a, nomark name mk = true -> nlookup id mk = Some (CD g a) -> g <> name.
Proof.
  intros name. induction mk as [|[i c] r IH]; simpl; intros id g a H N; [discriminate|].
  apply andb_true_iff in H. destruct H as [H1 H2]. destruct (Nat.eqb id i).
  - inversion N; subst c. simpl in H1. intros ->. rewrite String.eqb_refl in H1. discriminate.
  - eapply IH; eauto.
Qed.
Theorem fmakM_step : forall st ft name, orph = true \/ nomark name (marks st) = true -> Inv st -> Rel st ft ->
  Inv (fmakM st name) /\ Rel (fmakM st name) (sremove name ft) /\ out (fmakM st name) = out st.
Proof.
  intros st ft name OK I R. unfold fmakM. destruct (slookup name (funcs st)) as [s|] eqn:FS.
  - pose proof (inv_canon _ I _ _ FS) as LS. rewrite LS.
    destruct (inv_funcs _ I _ _ FS) as (c0 & l0 & L0 & Hs & _ & N0).
    set (pl := mkLam name [] [] true []). set (hp := set_nth (heap st) s pl).
    assert (HS : nth_error hp s = Some pl) by (apply set_nth_same; eapply hget_lt; eauto).
    assert (HO : forall x l, hget st x = Some l -> l_name l <> name -> nth_error hp x = Some l).
    { intros x l Hx NN. unfold hp. rewrite set_nth_other; auto. intros ->. rewrite Hs in Hx. congruence. }
    split; [|split; [|reflexivity]].
    + constructor; unfold hget; simpl.
      * intros f s'. rewrite slookup_sremove. destruct (String.eqb f name) eqn:Q; [discriminate|].
        apply neq_eqb in Q. intros E. destruct (inv_funcs _ I _ _ E) as (c & l & L & H1 & H2 & NM).
        exists c, l. repeat split; auto; apply HO; auto; congruence.
      * intros id g a N. rewrite slookup_sremove. destruct (String.eqb g name) eqn:Q.
        -- apply String.eqb_eq in Q. subst g. right.
           assert (OR : orph = true).
           { destruct OK as [OK|OK]; [exact OK|]. exfalso. apply (nomark_spec _ _ _ _ _ OK N). reflexivity. }
           assert (a = s).
           { destruct (inv_marks _ I _ _ _ N) as [(s' & l & F' & _ & _ & K)|(_ & F' & _)]; [|congruence].
             assert (s' = s) by congruence. subst s'. apply K; exact LS. }
           subst a. repeat split; auto. exists pl. auto.
        -- apply neq_eqb in Q.
           destruct (inv_marks _ I _ _ _ N) as [(s' & l & F' & Ha & Hs' & K)|(OR & F' & L' & l & Ha & PL)].
           ++ destruct (inv_funcs _ I _ _ F') as (c' & l' & _ & Hs2 & _ & NM).
              rewrite Hs' in Hs2. inversion Hs2; subst l'.
              left. exists s', l. repeat split; auto; apply HO; auto; congruence.
           ++ destruct (inv_lams _ I _ _ L') as (l' & Hl' & NM & _).
              rewrite Ha in Hl'. inversion Hl'; subst l'.
              right. repeat split; auto. exists l. split; auto. apply HO; auto; congruence.
      * intros f c E. rewrite slookup_sremove. destruct (String.eqb f name) eqn:Q.
        -- apply String.eqb_eq in Q. subst f. assert (c = s) by congruence. subst c. exists pl. auto.
        -- apply neq_eqb in Q. destruct (inv_lams _ I _ _ E) as (l & Hl & NM & PL).
           exists l. repeat split; auto. apply HO; auto; congruence.
      * intros f s'. rewrite slookup_sremove. destruct (String.eqb f name); [discriminate|apply (inv_canon _ I)].
    + intros f. unfold def_of, hget. simpl. rewrite !slookup_sremove. destruct (String.eqb f name) eqn:Q; [reflexivity|].
      apply neq_eqb in Q. rewrite <- R. unfold def_of.
      destruct (slookup f (funcs st)) as [s'|] eqn:F'; auto.
      destruct (inv_funcs _ I _ _ F') as (c' & l & _ & Hs' & _ & NM).
      rewrite Hs'. rewrite (HO _ _ Hs'); auto. congruence.
  - split; [exact I|split; [|reflexivity]]. intros f. rewrite slookup_sremove.
    destruct (String.eqb f name) eqn:Q; [|apply R].
    apply String.eqb_eq in Q. subst f. unfold def_of. rewrite FS. reflexivity.
Qed.

Definition fmak_ok (m : mstate) (o : op) : Prop :=
  match o with OFmak nm => orph = true \/ nomark nm (marks (ms m)) = true | _ => True end.
Lemma step_sim : forall n m s o, HInv m s -> fmak_ok m o ->
  HInv (fst (stepM n m o)) (fst (stepS n s o)) /\
  match snd (stepS n s o), snd (stepM n m o) with
  | Some a, Some b => osim a b
  | None, None => True
  | _, _ => False
  end.
Proof.
  intros n m s o (I & R & CE & GE) OK. destruct o as [cid forms|cid|cid|fk]; simpl in *;
    [| | |destruct (fmakM_step (ms m) (sft s) fk OK I R) as (I' & R' & _); split; [unfold HInv; simpl; auto|exact Logic.I]].
  - split; auto. unfold HInv; simpl. split; [auto|split; [auto|split; [congruence|auto]]].
  - rewrite <- CE, <- GE. destruct (nlookup cid (codes m)) as [fs|]; [|split; [unfold HInv; auto|simpl; auto]].
    pose proof (good_set_out (ms m) []) as [T0 I0].
    destruct (compile_defsS n (sft s) (mgv m) [] fs) as [[[[xS oS] ft'] gv'] fs'] eqn:ES.
    destruct (compile_defs_sim n fs (set_out (ms m) []) (sft s) (mgv m) xS oS ft' gv' fs' (I0 I)
                (same_tabs_rel _ _ _ T0 R) ES) as (xM & st1 & EM & [S1 S2] & I1 & R1).
    rewrite EM. destruct xM as [w|er|].
    + destruct (cgood_rel _ _ _ (compile_rest_cgood fs' st1) I1 R1) as [I' R'].
      pose proof (cg_out _ _ (compile_rest_cgood fs' st1 I1)) as OC.
      simpl. split; [unfold HInv; simpl; split; [auto|split; [auto|split; [congruence|auto]]]|].
      split; simpl.
      * intros C. destruct (S1 C) as [<- <-]. rewrite OC. reflexivity.
      * intros NV. destruct xS; [discriminate| |]; specialize (S2 eq_refl); discriminate.
    + simpl. split; [unfold HInv; simpl; split; [auto|split; [auto|split; [congruence|auto]]]|].
      split; simpl; auto. intros C. destruct (S1 C) as [<- <-]. reflexivity.
    + simpl. split; [unfold HInv; simpl; split; [auto|split; [auto|split; [congruence|auto]]]|].
      split; simpl; auto. intros C. destruct (S1 C) as [<- <-]. reflexivity.
  - rewrite <- CE, <- GE. destruct (nlookup cid (codes m)) as [fs|]; [|split; [unfold HInv; auto|simpl; auto]].
    pose proof (good_set_out (ms m) []) as [T0 I0].
    destruct (run_formsS n (sft s) (mgv m) [] fs VNil) as [[[rS oS] ft'] gv'] eqn:ES.
    destruct (run_forms_sim n fs (set_out (ms m) []) (sft s) (mgv m) VNil rS oS ft' gv' (I0 I) (same_tabs_rel _ _ _ T0 R) ES)
      as (rM & st' & EM & S1 & I' & R').
    rewrite EM. simpl.
    split; [unfold HInv; simpl; auto|].
    destruct S1 as [S1 S2]. split; simpl; auto.
    intros Cc. destruct (S1 Cc) as [-> ->]. reflexivity.
Qed.

(* EVERY history, fmakunbound included, refines S outcome by outcome *)
Theorem history_refines_from : orph = true -> forall n ops m s, HInv m s ->
  Forall2 osim (runS n s ops) (runM n m ops).
Proof.
  intros OR n. induction ops as [|o r IH]; simpl; intros m s H; [constructor|].
  assert (OK : fmak_ok m o) by (destruct o; simpl; auto).
  destruct (step_sim n m s o H OK) as [H' OB].
  destruct (stepM n m o) as [m' obM]. destruct (stepS n s o) as [s' obS]. simpl in *.
  specialize (IH m' s' H').
  destruct obS as [a|], obM as [b|]; try contradiction; simpl; auto.
Qed.
Lemma HInv_init : HInv minit sinit.
Proof. split; [apply Inv_init|]. split; [intros f; reflexivity|split; reflexivity]. Qed.
Theorem history_refines : orph = true -> forall n ops, Forall2 osim (runS n sinit ops) (runM n minit ops).
Proof. intros. apply history_refines_from; auto. apply HInv_init. Qed.

(* ---- the consequences of Proofs.v / ProofsProgram.v over this invariant (states reached with fmakunbound) ------- *)
Theorem reeval_stable : forall k n st ft en o e rS oS, Inv st -> Rel st ft ->
  evalS n ft en o e = (rS, oS) -> comparable rS = true -> Proofs.iterM k n st en o e = repeat (rS, oS) k.
Proof.
  induction k as [|k IH]; simpl; intros n st ft en o e rS oS I R E C; auto.
  pose proof (good_set_out st o) as [T0 I0].
  destruct (evalM_sim ft n (set_out st o) en e rS oS (I0 I) (same_tabs_rel _ _ _ T0 R) E) as (rM & st' & EM & [S1 _]).
  rewrite EM. destruct (S1 C) as [-> ->]. pose proof (evalM_good n _ _ _ _ _ EM) as [T1 I1].
  f_equal. eapply IH; eauto. eapply same_tabs_rel; [exact T1|]. eapply same_tabs_rel; eauto.
Qed.

(* compile-then-evaluate = evaluate the list form (both are what S says) *)
Theorem compile_transparent : forall n st ft en e rS oS, Inv st -> Rel st ft ->
  evalS n ft en (out st) e = (rS, oS) -> comparable rS = true ->
  (exists st1, evalM n st en e = (rS, st1) /\ out st1 = oS) /\
  (exists st2, evalM n (compile_slot st e) en e = (rS, st2) /\ out st2 = oS).
Proof.
  intros n st ft en e rS oS I R E C. split.
  - destruct (evalM_sim ft n st en e rS oS I R E) as (rM & st1 & EM & [S1 _]).
    destruct (S1 C) as [-> O]. eauto.
  - pose proof (compile_slot_cgood e st I) as CG.
    destruct (cgood_rel _ _ ft (compile_slot_cgood e st) I R) as [I' R'].
    rewrite <- (cg_out _ _ CG) in E.
    destruct (evalM_sim ft n _ en e rS oS I' R' E) as (rM & st2 & EM & [S1 _]).
    destruct (S1 C) as [-> O]. eauto.
Qed.

(* redefinition between evaluations is seen by code that was already evaluated (and so compiled in place) *)
Theorem late_binding : forall n st ft en e g ps body clos r0 st0 rS oS, Inv st -> Rel st ft ->
  evalM n st en e = (r0, st0) ->
  evalS n ((g, (ps, body, clos)) :: ft) en (out st0) e = (rS, oS) -> comparable rS = true ->
  exists st1, evalM n (defunM st0 g ps body clos) en e = (rS, st1) /\ out st1 = oS.
Proof.
  intros n st ft en e g ps body clos r0 st0 rS oS I R E0 E C.
  pose proof (evalM_good n _ _ _ _ _ E0) as [T0 I0].
  destruct (defunM_step st0 ft g ps body clos (I0 I) (same_tabs_rel _ _ _ T0 R)) as (I1 & R1 & O1).
  rewrite <- O1 in E.
  destruct (evalM_sim _ n _ en e rS oS I1 R1 E) as (rM & st1 & EM & [S1 _]).
  destruct (S1 C) as [-> O]. eauto.
Qed.

(* a call compiled before its function exists (placeholder) passes its arguments once the function exists:
   compile the form while g is unknown, define g, evaluate the compiled form = S with g's definition *)
Theorem forward_reference : forall n st ft en e g ps body clos rS oS, Inv st -> Rel st ft ->
  slookup g (funcs st) = None ->
  evalS n ((g, (ps, body, clos)) :: ft) en (out st) e = (rS, oS) -> comparable rS = true ->
  exists st2, evalM n (defunM (compile_slot st e) g ps body clos) en e = (rS, st2) /\ out st2 = oS.
Proof.
  intros n st ft en e g ps body clos rS oS I R F E C.
  pose proof (compile_slot_cgood e st I) as CG.
  destruct (cgood_rel _ _ ft (compile_slot_cgood e st) I R) as [I1 R1].
  destruct (defunM_step _ ft g ps body clos I1 R1) as (I2 & R2 & O2).
  rewrite <- (cg_out _ _ CG), <- O2 in E.
  destruct (evalM_sim _ n _ en e rS oS I2 R2 E) as (rM & st2 & EM & [S1 _]).
  destruct (S1 C) as [-> O]. eauto.
Qed.

Lemma defunsM_rel : forall ds st ft, Inv st -> Rel st ft ->
  Inv (Proofs.defunsM st ds) /\ Rel (Proofs.defunsM st ds) (Proofs.deftab ds ft) /\ out (Proofs.defunsM st ds) = out st.
Proof.
  induction ds as [|[nm [[ps body] clos]] r IH]; simpl; intros st ft I R; auto.
  destruct (defunM_step st ft nm ps body clos I R) as (I' & R' & O').
  destruct (IH _ _ I' R') as (A & B & C). split; [auto|split; [auto|congruence]].
Qed.
Theorem order_independent_M : forall ds ds' st ft, Inv st -> Rel st ft ->
  Permutation ds ds' -> NoDup (map fst ds) ->
  forall n en e rS oS, evalS n (Proofs.deftab ds ft) en (out st) e = (rS, oS) -> comparable rS = true ->
  exists st1 st2, evalM n (Proofs.defunsM st ds) en e = (rS, st1) /\ evalM n (Proofs.defunsM st ds') en e = (rS, st2) /\
                  out st1 = oS /\ out st2 = oS.
Proof.
  intros ds ds' st ft I R P ND n en e rS oS E C.
  destruct (defunsM_rel ds st ft I R) as (I1 & R1 & O1).
  destruct (defunsM_rel ds' st ft I R) as (I2 & R2 & O2).
  pose proof E as E'. rewrite (Proofs.order_independent_S ds ds' ft P ND) in E'.
  rewrite <- O1 in E. rewrite <- O2 in E'.
  destruct (evalM_sim _ n _ en e rS oS I1 R1 E) as (r1 & st1 & EM1 & [S1 _]).
  destruct (evalM_sim _ n _ en e rS oS I2 R2 E') as (r2 & st2 & EM2 & [S2 _]).
  destruct (S1 C) as [-> ?]. destruct (S2 C) as [-> ?]. eauto 10.
Qed.
Theorem program_meaning_M : orph = true -> forall n m s es es' ds ds' mains cid cid' cmp cmp' k k',
  HInv m s -> ProofsProgram.defs_are es ds -> ProofsProgram.defs_are es' ds' -> Permutation ds ds' -> NoDup (map fst ds) ->
  Forall ProofsProgram.plain mains -> mains <> [] ->
  comparable (fst (ProofsProgram.meaning n ds mains (sft s) (sgv s))) = true ->
  runM n m (ProofsProgram.prog cid es mains cmp k) = ProofsProgram.expected n ds mains s cmp k /\
  runM n m (ProofsProgram.prog cid' es' mains cmp' k') = ProofsProgram.expected n ds mains s cmp' k'.
Proof.
  intros OR n m s es es' ds ds' mains cid cid' cmp cmp' k k' H D D' P ND PL NE C.
  split.
  - apply ProofsProgram.osim_all; [|apply ProofsProgram.expected_comparable; auto]. unfold ProofsProgram.expected.
    rewrite <- (ProofsProgram.program_meaning_S n es mains ds D PL NE s cid cmp k).
    apply history_refines_from; auto.
  - apply ProofsProgram.osim_all; [|apply ProofsProgram.expected_comparable; auto]. unfold ProofsProgram.expected.
    rewrite (ProofsProgram.program_order_S n ds ds' mains _ _ P ND).
    rewrite <- (ProofsProgram.program_meaning_S n es' mains ds' D' PL NE s cid' cmp' k').
    apply history_refines_from; auto.
Qed.

(* ---- exactness against the lookup-time evaluator (ProofsLate.v repeated over Inv with orph = false) ------------ *)
Section Late.
Hypothesis NO : orph = false.
(* ---- M computes evalL exactly -------------------------------------------------------------------------- *)
(* the policy of a model state is `latef` (Spec.v) *)
Definition Pol (st : state) (late : policy) : Prop := forall f, late f = latef st f.
Lemma Pol_latef : forall st, Pol st (latef st).
Proof. intros st f. reflexivity. Qed.
Lemma same_tabs_pol : forall st st' late, same_tabs st st' -> Pol st late -> Pol st' late.
Proof. intros st st' late [_ [_ F]] P f. rewrite (P f). unfold latef. rewrite F. reflexivity. Qed.

Definition ex1 (rS : res) (oS : list value) (rM : res) (stM : state) : Prop :=
  (binding rS = true -> rM = rS /\ out stM = oS) /\ (is_val rS = false -> is_val rM = false).
Definition exA (aS : ares) (oS : list value) (aM : ares) (stM : state) : Prop :=
  match aS with
  | AVals vs => aM = AVals vs /\ out stM = oS
  | AStop r => (binding r = true -> aM = AStop r /\ out stM = oS) /\ exists r', aM = AStop r' /\ is_val r' = false
  end.
Lemma ex1_same : forall r st, ex1 r (out st) r st.
Proof. intros. split; auto. Qed.

Section Exact.
  Variable late : policy.
  Variable ft : ftab.
  Definition exP (n : nat) : Prop :=
    forall st en e rS oS, Inv st -> Rel st ft -> Pol st late -> evalL late n ft en (out st) e = (rS, oS) ->
      exists rM st', evalM n st en e = (rM, st') /\ ex1 rS oS rM st'.

  Lemma eval_args_ex : forall n, exP n -> forall args st en aS oS, Inv st -> Rel st ft -> Pol st late ->
    eval_argsS (evalL late n ft) en (out st) args = (aS, oS) ->
    exists aM st', eval_args (evalM n) st en args = (aM, st') /\ exA aS oS aM st'.
  Proof.
    intros n IH. induction args as [|a rest IHa]; simpl; intros st en aS oS I R P E.
    - inversion E; subst. exists (AVals []), st. split; auto. split; auto.
    - destruct (premark st a) as [st1|] eqn:PM.
      + pose proof (premark_good _ _ _ PM) as [T1 I1]. pose proof (premark_out _ _ _ PM) as O1.
        rewrite <- O1 in E.
        destruct (evalL late n ft en (out st1) a) as [r1 o1] eqn:E1.
        destruct (IH st1 en a r1 o1 (I1 I) (same_tabs_rel _ _ _ T1 R) (same_tabs_pol _ _ _ T1 P) E1) as (rM & st2 & EM & [S1 S2]).
        rewrite EM. pose proof (evalM_good n _ _ _ _ _ EM) as [T2 I2].
        destruct r1 as [v|er|].
        * destruct (S1 eq_refl) as [-> O2].
          destruct (eval_argsS (evalL late n ft) en o1 rest) as [aS2 o2] eqn:E2. rewrite <- O2 in E2.
          destruct (IHa st2 en aS2 o2 (I2 (I1 I)) (same_tabs_rel _ _ _ T2 (same_tabs_rel _ _ _ T1 R))
                      (same_tabs_pol _ _ _ T2 (same_tabs_pol _ _ _ T1 P)) E2) as (aM2 & st3 & EM2 & A). rewrite EM2.
          destruct aS2 as [vs|r2].
          -- destruct A as [-> O3]. inversion E; subst. eexists _, _. split; [reflexivity|]. split; auto.
          -- inversion E; subst. destruct A as [A1 (r' & -> & NV)].
             eexists _, _. split; [reflexivity|]. split; [|eauto].
             intros C. destruct (A1 C) as [A2 A3]. auto.
        * inversion E; subst. pose proof (S2 eq_refl) as NV.
          destruct rM; [discriminate| |]; (eexists _, _; split; [reflexivity|]; split; [|eauto];
            intros C; destruct (S1 C) as [Q1 Q2]; split; congruence).
        * inversion E; subst. pose proof (S2 eq_refl) as NV.
          destruct rM; [discriminate| |]; (eexists _, _; split; [reflexivity|]; split; [|eauto];
            intros C; destruct (S1 C) as [Q1 Q2]; split; congruence).
      + destruct (premark_none _ _ PM) as (id & g & r & -> & B & F).
        exists (AStop (Err EUndefined)), st. split; auto.
        pose proof (rel_undef _ _ _ R F) as FT.
        destruct n as [|n']; simpl in E.
        * inversion E; subst. split; [discriminate|eauto].
        * rewrite B, FT, (P g) in E. unfold latef in E. rewrite F in E. inversion E; subst. split; [auto|eauto].
  Qed.

  Lemma eval_body_ex : forall n, exP n -> forall forms st en v rS oS, Inv st -> Rel st ft -> Pol st late ->
    eval_bodyS (evalL late n ft) en (out st) forms v = (rS, oS) ->
    exists rM st', eval_body (evalM n) st en forms v = (rM, st') /\ ex1 rS oS rM st'.
  Proof.
    intros n IH. induction forms as [|f rest IHf]; simpl; intros st en v rS oS I R P E.
    - inversion E; subst. eexists _, _. split; [reflexivity|apply ex1_same].
    - destruct (evalL late n ft en (out st) f) as [r1 o1] eqn:E1.
      destruct (IH st en f r1 o1 I R P E1) as (rM & st1 & EM & [S1 S2]). rewrite EM.
      pose proof (evalM_good n _ _ _ _ _ EM) as [T1 I1].
      destruct r1 as [w|er|].
      + destruct (S1 eq_refl) as [-> O1]. rewrite <- O1 in E.
        apply (IHf st1 en w rS oS (I1 I) (same_tabs_rel _ _ _ T1 R) (same_tabs_pol _ _ _ T1 P) E).
      + inversion E; subst. pose proof (S2 eq_refl). destruct rM; [discriminate| |];
          (eexists _, _; split; [reflexivity|]; split; auto).
      + inversion E; subst. pose proof (S2 eq_refl). destruct rM; [discriminate| |];
          (eexists _, _; split; [reflexivity|]; split; auto).
  Qed.

  Lemma eval_if_ex : forall n, exP n -> forall args st en rS oS, Inv st -> Rel st ft -> Pol st late ->
    eval_ifS (evalL late n ft) en (out st) args = (rS, oS) ->
    exists rM st', eval_if (evalM n) st en args = (rM, st') /\ ex1 rS oS rM st'.
  Proof.
    intros n IH args st en rS oS I R P. unfold eval_ifS, eval_if.
    assert (K : forall c a b,
      match evalL late n ft en (out st) c with
      | (Val v, o1) => match (if truthy (norm v) then Some a else b) with
                       | None => (Val VNil, o1)
                       | Some x => match evalL late n ft en o1 x with (Val w, o2) => (Val (norm w), o2) | r => r end end
      | r => r end = (rS, oS) ->
      exists rM st',
      match evalM n st en c with
      | (Val v, st1) =>
          match (if truthy (norm v) then Some a else b) with
          | None => (Val VNil, apply_def st1 (deferred st c))
          | Some x => match evalM n st1 en x with
                      | (Val w, st2) => (Val (norm w), apply_def (apply_def st2 (deferred st c)) (deferred st1 x))
                      | r => r end
          end
      | r => r end = (rM, st') /\ ex1 rS oS rM st').
    { intros c a b. destruct (evalL late n ft en (out st) c) as [r1 o1] eqn:E1.
      destruct (IH st en c r1 o1 I R P E1) as (rM & st1 & EM & [S1 S2]). rewrite EM.
      pose proof (evalM_good n _ _ _ _ _ EM) as [T1 I1].
      destruct r1 as [v|er|].
      - destruct (S1 eq_refl) as [-> O1].
        destruct (if truthy (norm v) then Some a else b) as [x|].
        + rewrite <- O1. destruct (evalL late n ft en (out st1) x) as [r2 o2] eqn:E2.
          destruct (IH st1 en x r2 o2 (I1 I) (same_tabs_rel _ _ _ T1 R) (same_tabs_pol _ _ _ T1 P) E2) as (rM2 & st2 & EM2 & [Q1 Q2]).
          rewrite EM2. destruct r2 as [w2|er|].
          * destruct (Q1 eq_refl) as [-> O2]. intros E; inversion E; subst.
            eexists _, _. split; [reflexivity|]. split; [|discriminate].
            intros _. rewrite !apply_def_out. auto.
          * intros E; inversion E; subst. pose proof (Q2 eq_refl). destruct rM2; [discriminate| |];
              (eexists _, _; split; [reflexivity|]; split; auto).
          * intros E; inversion E; subst. pose proof (Q2 eq_refl). destruct rM2; [discriminate| |];
              (eexists _, _; split; [reflexivity|]; split; auto).
        + intros E; inversion E; subst. eexists _, _. split; [reflexivity|].
          split; auto. intros _. rewrite apply_def_out. auto.
      - intros E; inversion E; subst. pose proof (S2 eq_refl). destruct rM; [discriminate| |];
          (eexists _, _; split; [reflexivity|]; split; auto).
      - intros E; inversion E; subst. pose proof (S2 eq_refl). destruct rM; [discriminate| |];
          (eexists _, _; split; [reflexivity|]; split; auto). }
    destruct args as [|c [|a [|b [|? ?]]]];
      try (intros E; inversion E; subst; eexists _, _; split; [reflexivity|apply ex1_same]).
    - apply K.
    - apply K.
  Qed.

  Lemma eval_seq_ex : forall n, exP n -> forall forms st en v rS oS, Inv st -> Rel st ft -> Pol st late ->
    eval_seqS (evalL late n ft) en (out st) forms v = (rS, oS) ->
    exists rM st', eval_seq (evalM n) st en forms v = (rM, st') /\ ex1 rS oS rM st'.
  Proof.
    intros n IH. induction forms as [|f rest IHf]; simpl; intros st en v rS oS I R P E.
    - inversion E; subst. eexists _, _. split; [reflexivity|apply ex1_same].
    - destruct (premark st f) as [st0|] eqn:PM.
      + pose proof (premark_good _ _ _ PM) as [T0 I0]. pose proof (premark_out _ _ _ PM) as O0.
        rewrite <- O0 in E.
        destruct (evalL late n ft en (out st0) f) as [r1 o1] eqn:E1.
        destruct (IH st0 en f r1 o1 (I0 I) (same_tabs_rel _ _ _ T0 R) (same_tabs_pol _ _ _ T0 P) E1) as (rM & st1 & EM & [S1 S2]). rewrite EM.
        pose proof (evalM_good n _ _ _ _ _ EM) as [T1 I1].
        destruct r1 as [w|er|].
        * destruct (S1 eq_refl) as [-> O1]. rewrite <- O1 in E.
          apply (IHf st1 en (norm w) rS oS (I1 (I0 I)) (same_tabs_rel _ _ _ T1 (same_tabs_rel _ _ _ T0 R))
                   (same_tabs_pol _ _ _ T1 (same_tabs_pol _ _ _ T0 P)) E).
        * inversion E; subst. pose proof (S2 eq_refl). destruct rM; [discriminate| |];
            (eexists _, _; split; [reflexivity|]; split; auto).
        * inversion E; subst. pose proof (S2 eq_refl). destruct rM; [discriminate| |];
            (eexists _, _; split; [reflexivity|]; split; auto).
      + destruct (premark_none _ _ PM) as (id & g & r & -> & B & F).
        exists (Err EUndefined), st. split; auto.
        pose proof (rel_undef _ _ _ R F) as FT.
        destruct n as [|n']; simpl in E.
        * inversion E; subst. split; [discriminate|auto].
        * rewrite B, FT, (P g) in E. unfold latef in E. rewrite F in E. inversion E; subst. split; auto.
  Qed.
  Lemma eval_progn_ex : forall n, exP n -> forall forms st en v ds rS oS, Inv st -> Rel st ft -> Pol st late ->
    eval_seqS (evalL late n ft) en (out st) forms v = (rS, oS) ->
    exists rM st', eval_progn (evalM n) st en forms v ds = (rM, st') /\ ex1 rS oS rM st'.
  Proof.
    intros n IH. induction forms as [|f rest IHf]; simpl; intros st en v ds rS oS I R P E.
    - inversion E; subst. eexists _, _. split; [reflexivity|]. split; [|auto].
      intros _. split; [reflexivity|apply fold_apply_def_out].
    - destruct (evalL late n ft en (out st) f) as [r1 o1] eqn:E1.
      destruct (IH st en f r1 o1 I R P E1) as (rM & st1 & EM & [S1 S2]). rewrite EM.
      pose proof (evalM_good n _ _ _ _ _ EM) as [T1 I1].
      destruct r1 as [w|er|].
      + destruct (S1 eq_refl) as [-> O1]. rewrite <- O1 in E.
        apply (IHf st1 en (norm w) _ rS oS (I1 I) (same_tabs_rel _ _ _ T1 R) (same_tabs_pol _ _ _ T1 P) E).
      + inversion E; subst. pose proof (S2 eq_refl). destruct rM; [discriminate| |];
          (eexists _, _; split; [reflexivity|]; split; auto).
      + inversion E; subst. pose proof (S2 eq_refl). destruct rM; [discriminate| |];
          (eexists _, _; split; [reflexivity|]; split; auto).
  Qed.
  Lemma eval_case_ex : forall n, exP n -> forall args st en rS oS, Inv st -> Rel st ft -> Pol st late ->
    eval_caseS (evalL late n ft) en (out st) args = (rS, oS) ->
    exists rM st', eval_case (evalM n) st en args = (rM, st') /\ ex1 rS oS rM st'.
  Proof.
    intros n IH args st en rS oS I R P. unfold eval_caseS, eval_case.
    destruct args as [|k clauses]; [intros E; inversion E; subst; eexists _, _; split; [reflexivity|apply ex1_same]|].
    destruct (eval_argsS (evalL late n ft) en (out st) [k]) as [aS o1] eqn:EA.
    destruct (eval_args_ex n IH [k] st en aS o1 I R P EA) as (aM & st1 & EM & A). rewrite EM.
    pose proof (eval_args_good _ (evalM_good n) _ _ _ _ _ EM) as [T1 I1].
    destruct aS as [vs|r].
    - destruct A as [-> O1].
      destruct vs as [|key [|? ?]]; try (intros E; inversion E; subst; eexists _, _; split; [reflexivity|]; split; auto; fail).
      destruct (select_clause key clauses) as [forms|];
        [|intros E; inversion E; subst; eexists _, _; split; [reflexivity|]; split; auto].
      rewrite <- O1. intros E.
      apply (eval_seq_ex n IH _ st1 _ _ _ _ (I1 I) (same_tabs_rel _ _ _ T1 R) (same_tabs_pol _ _ _ T1 P) E).
    - intros E; inversion E; subst. destruct A as [A1 (r' & -> & NV)].
      eexists _, _. split; [reflexivity|]. split; auto.
      intros C. destruct (A1 C) as [Q1 Q2]. split; congruence.
  Qed.

  Theorem evalM_ex : forall n, exP n.
  Proof.
    induction n as [|n IH]; intros st en e rS oS I R P E; simpl in E.
    - inversion E; subst. exists OutOfFuel, st. split; auto. apply ex1_same.
    - destruct e as [z|x|id xs].
      + inversion E; subst. eexists _, _. split; [reflexivity|apply ex1_same].
      + inversion E; subst. eexists _, _. split; [reflexivity|apply ex1_same].
      + destruct xs as [|[z|f|i ys] args];
          try (inversion E; subst; eexists _, _; split; [reflexivity|apply ex1_same]).
        simpl. destruct (builtin_of f) as [b|] eqn:B.
        * rewrite (wrapper_builtin st id f b B).
          assert (STRICT : b <> BIf ->
            match eval_argsS (evalL late n ft) en (out st) args with
            | (AVals vs, o1) => apply_bi b vs o1
            | (AStop r, o1) => (r, o1) end = (rS, oS) ->
            exists rM st',
              match eval_args (evalM n) st en args with
              | (AVals vs, st1) => let (r, o) := apply_bi b vs (out st1) in (r, set_out st1 o)
              | (AStop r, st1) => (r, st1) end = (rM, st') /\ ex1 rS oS rM st').
          { intros _ E'. destruct (eval_argsS (evalL late n ft) en (out st) args) as [aS o1] eqn:EA.
            destruct (eval_args_ex n IH args st en aS o1 I R P EA) as (aM & st1 & EM & A). rewrite EM.
            destruct aS as [vs|r].
            - destruct A as [-> O1]. rewrite O1, E'. eexists _, _. split; [reflexivity|]. split; auto.
            - inversion E'; subst. destruct A as [A1 (r' & -> & NV)].
              eexists _, _. split; [reflexivity|]. split; auto.
              intros C. destruct (A1 C) as [Q1 Q2]. split; congruence. }
          destruct b; try (apply STRICT; [discriminate|exact E]).
          -- apply (eval_progn_ex n IH); auto.
          -- apply (eval_if_ex n IH); auto.
          -- apply (eval_case_ex n IH); auto.
        * pose proof (wrapper_user st id f I B) as W.
          destruct (slookup f ft) as [[[ps forms] clos]|] eqn:FT.
          -- (* the name has a definition *)
             pose proof (R f) as D. rewrite FT in D. unfold def_of in D.
             destruct (slookup f (funcs st)) as [s|] eqn:F; [|discriminate].
             destruct (hget st s) as [l|] eqn:H; [|discriminate].
             destruct (l_place l) eqn:PL; [discriminate|]. inversion D; subst ps forms clos.
             destruct (wrapper st id f) as [[b|g a]|]; [contradiction| |discriminate].
             destruct W as [(s' & l' & F' & Ha & Hs)|(OR & _)]; [|congruence]. inversion F'; subst s'.
             rewrite H in Hs. inversion Hs; subst l'.
             destruct (eval_argsS (evalL late n ft) en (out st) args) as [aS o1] eqn:EA.
             destruct (eval_args_ex n IH args st en aS o1 I R P EA) as (aM & st1 & EM & A). rewrite EM.
             pose proof (eval_args_good _ (evalM_good n) _ _ _ _ _ EM) as [T1 I1].
             destruct aS as [vs|r].
             ++ destruct A as [-> O1]. unfold call_lambda.
                assert (Ha1 : nth_error (heap st1) a = Some l) by (destruct T1 as [-> _]; exact Ha).
                rewrite Ha1, PL.
                destruct (arity_err (List.length (l_params l)) (List.length vs)).
                ** inversion E; subst. eexists _, _. split; [reflexivity|]. split; auto.
                ** rewrite <- O1 in E.
                   apply (eval_body_ex n IH _ st1 _ _ _ _ (I1 I) (same_tabs_rel _ _ _ T1 R) (same_tabs_pol _ _ _ T1 P) E).
             ++ inversion E; subst. destruct A as [A1 (r' & -> & NV)].
                eexists _, _. split; [reflexivity|]. split; auto.
                intros C. destruct (A1 C) as [Q1 Q2]. split; congruence.
          -- (* no definition.  A placeholder exists (late f): M calls it - arguments first, then
                undefined-function; no placeholder: the conversion of the list fails at once *)
             rewrite (P f) in E. unfold latef in E.
             destruct (wrapper st id f) as [[b|g a]|]; [contradiction| |].
             ++ destruct W as [(s & l & F & Ha & Hs)|(OR & _)]; [|congruence]. rewrite F in E.
                pose proof (R f) as D. rewrite FT in D. unfold def_of in D. rewrite F, Hs in D.
                destruct (l_place l) eqn:PL; [|discriminate].
                destruct (eval_argsS (evalL late n ft) en (out st) args) as [aS o1] eqn:EA.
                destruct (eval_args_ex n IH args st en aS o1 I R P EA) as (aM & st1 & EM & A). rewrite EM.
                pose proof (eval_args_good _ (evalM_good n) _ _ _ _ _ EM) as [T1 I1].
                destruct aS as [vs|r].
                ** destruct A as [-> O1]. unfold call_lambda.
                   assert (Ha1 : nth_error (heap st1) a = Some l) by (destruct T1 as [-> _]; exact Ha).
                   rewrite Ha1, PL. inversion E; subst. eexists _, _. split; [reflexivity|]. split; auto.
                ** inversion E; subst. destruct A as [A1 (r' & -> & NV)].
                   eexists _, _. split; [reflexivity|]. split; auto.
                   intros C. destruct (A1 C) as [Q1 Q2]. split; congruence.
             ++ rewrite W in E. inversion E; subst. eexists _, _. split; [reflexivity|apply ex1_same].
  Qed.
End Exact.

(* in property terms: exact agreement, undefined-function outcomes included *)
Theorem evalM_exact : forall n st ft en e rS oS, Inv st -> Rel st ft ->
  evalL (latef st) n ft en (out st) e = (rS, oS) -> binding rS = true ->
  exists st', evalM n st en e = (rS, st') /\ out st' = oS.
Proof.
  intros n st ft en e rS oS I R E B.
  destruct (evalM_ex (latef st) ft n st en e rS oS I R (Pol_latef st) E) as (rM & st' & EM & [S1 _]).
  destruct (S1 B) as [-> O]. eauto.
Qed.

(* ---- histories ------------------------------------------------------------------------------------------ *)
(* the policies along M's run are `pols_run` (Spec.v) *)
Lemma gdef_eval_ex : forall late n st ft gv always nm init rS oS gvS, Inv st -> Rel st ft ->
  (gdef_evaluates gv always nm = true -> Pol st late) ->
  gdef_evalS (evalL late n ft) gv (out st) always nm init = (rS, oS, gvS) ->
  exists rM st', gdef_eval (evalM n) st gv always nm init = (rM, st', gvS) /\ ex1 rS oS rM st' /\ good st st'.
Proof.
  intros late n st ft gv always nm init rS oS gvS I R HP. unfold gdef_evalS, gdef_eval, gdef_evaluates in *.
  destruct always.
  - specialize (HP eq_refl). destruct (premark st init) as [st1|] eqn:PM.
    + pose proof (premark_good _ _ _ PM) as G1. destruct G1 as [T1 I1]. pose proof (premark_out _ _ _ PM) as O1.
      rewrite <- O1. destruct (evalL late n ft gv (out st1) init) as [r1 o1] eqn:E1.
      destruct (evalM_ex late ft n st1 gv init r1 o1 (I1 I) (same_tabs_rel _ _ _ T1 R) (same_tabs_pol _ _ _ T1 HP) E1)
        as (rM & st2 & EM & [S1 S2]).
      rewrite EM. pose proof (evalM_good n _ _ _ _ _ EM) as G2.
      assert (G : good st st2) by (eapply good_trans; [split; [exact T1|exact I1]|exact G2]).
      destruct r1 as [v|er|].
      * destruct (S1 eq_refl) as [-> O2]. intros E; inversion E; subst. eexists _, _. split; [reflexivity|].
        split; [split; [auto|discriminate]|exact G].
      * intros E; inversion E; subst. pose proof (S2 eq_refl). destruct rM; [discriminate| |];
          (eexists _, _; split; [reflexivity|]; split; [split; auto|exact G]).
      * intros E; inversion E; subst. pose proof (S2 eq_refl). destruct rM; [discriminate| |];
          (eexists _, _; split; [reflexivity|]; split; [split; auto|exact G]).
    + destruct (premark_none _ _ PM) as (id & g & r & -> & B & F).
      pose proof (rel_undef _ _ _ R F) as FT. intros E.
      exists (Err EUndefined), st.
      destruct n as [|n']; simpl in E.
      * inversion E; subst. split; [reflexivity|]. split; [split; [discriminate|auto]|apply good_refl].
      * rewrite B, FT, (HP g) in E. unfold latef in E. rewrite F in E. inversion E; subst.
        split; [reflexivity|]. split; [split; auto|apply good_refl].
  - simpl in HP. destruct (slookup (gkey nm) gv).
    + intros E; inversion E; subst. eexists _, _. split; [reflexivity|]. split; [apply ex1_same|apply good_refl].
    + specialize (HP eq_refl). destruct (evalL late n ft gv (out st) init) as [r1 o1] eqn:E1.
      destruct (evalM_ex late ft n st gv init r1 o1 I R HP E1) as (rM & st1 & EM & [S1 S2]).
      rewrite EM. pose proof (evalM_good n _ _ _ _ _ EM) as G1.
      destruct r1 as [v|er|].
      * destruct (S1 eq_refl) as [-> O1]. intros E; inversion E; subst. eexists _, _. split; [reflexivity|].
        split; [split; [intros _; rewrite apply_def_out; auto|discriminate]|].
        eapply good_trans; [exact G1|]. apply apply_def_good. apply G1.
      * intros E; inversion E; subst. pose proof (S2 eq_refl). destruct rM; [discriminate| |];
          (eexists _, _; split; [reflexivity|]; split; [split; auto|exact G1]).
      * intros E; inversion E; subst. pose proof (S2 eq_refl). destruct rM; [discriminate| |];
          (eexists _, _; split; [reflexivity|]; split; [split; auto|exact G1]).
Qed.
Lemma pol_gdef_split : forall st gv always nm X,
  (gdef_evaluates gv always nm = true -> Pol st (pol_hd (pol_gdef st gv always nm ++ X))) /\
  pols_after_gdef gv always nm (pol_gdef st gv always nm ++ X) = X.
Proof.
  intros. unfold pol_gdef, pols_after_gdef. destruct (gdef_evaluates gv always nm); simpl; split; auto.
  - intros _. apply Pol_latef.
  - discriminate.
Qed.

Lemma run_forms_ex : forall n fs st ft gv v rest rS oS ft' gv' pols', Inv st -> Rel st ft ->
  run_formsL n ft gv (out st) fs v (pols_forms n st gv fs ++ rest) = (rS, oS, ft', gv', pols') ->
  exists rM st', run_forms n st gv fs v = (rM, st', gv') /\ ex1 rS oS rM st' /\ Inv st' /\ Rel st' ft' /\ pols' = rest.
Proof.
  intros n. induction fs as [|t r IH]; simpl; intros st ft gv v rest rS oS ft' gv' pols' I R E.
  - inversion E; subst. eexists _, _. split; [reflexivity|]. split; [apply ex1_same|auto].
  - destruct t as [e|nm]; [|eapply IH; eauto].
    destruct (parse_defun e) as [[[nm ps] body]|] eqn:PD.
    + destruct (defunM_step st ft nm ps body [] I R) as (I' & R' & O'). rewrite <- O' in E. eapply IH; eauto.
    + destruct (parse_letdefun e) as [[[[clos nm] ps] body]|] eqn:PLD.
      { destruct (defunM_step st ft nm ps body clos I R) as (I' & R' & O'). rewrite <- O' in E. eapply IH; eauto. }
      destruct (parse_gdef e) as [[[always nm] init]|] eqn:PG.
      * rewrite <- app_assoc in E.
        destruct (gdef_eval (evalM n) st gv always nm init) as [[rM st1] gvM] eqn:EM.
        match type of E with context [pol_gdef st gv always nm ++ ?X] =>
          destruct (pol_gdef_split st gv always nm X) as [HP HA]; rewrite HA in E;
          destruct (gdef_evalS (evalL (pol_hd (pol_gdef st gv always nm ++ X)) n ft) gv (out st) always nm init)
            as [[r1 o1] gv1] eqn:E1;
          destruct (gdef_eval_ex _ n st ft gv always nm init r1 o1 gv1 I R HP E1) as (rM' & st1' & EM' & [S1 S2] & [T1 I1])
        end.
        rewrite EM in EM'. inversion EM'; subst rM' st1' gvM.
        destruct r1 as [w|er|].
        -- destruct (S1 eq_refl) as [-> O1]. rewrite <- O1 in E. eapply IH; eauto. eapply same_tabs_rel; eauto.
        -- pose proof (S2 eq_refl) as NV. destruct rM as [?|?|]; [discriminate| |]; simpl in E; inversion E; subst;
             (eexists _, _; split; [reflexivity|]; split; [split; auto|split; [auto|split; [eapply same_tabs_rel; eauto|reflexivity]]]).
        -- pose proof (S2 eq_refl) as NV. destruct rM as [?|?|]; [discriminate| |]; simpl in E; inversion E; subst;
             (eexists _, _; split; [reflexivity|]; split; [split; auto|split; [auto|split; [eapply same_tabs_rel; eauto|reflexivity]]]).
      * simpl in E.
        destruct (evalL (latef st) n ft gv (out st) e) as [r1 o1] eqn:E1.
        destruct (evalM_ex (latef st) ft n st gv e r1 o1 I R (Pol_latef st) E1) as (rM & st1 & EM & [S1 S2]).
        rewrite EM in *. pose proof (evalM_good n _ _ _ _ _ EM) as [T1 I1].
        destruct r1 as [w|er|].
        -- destruct (S1 eq_refl) as [-> O1]. rewrite <- O1 in E. eapply IH; eauto. eapply same_tabs_rel; eauto.
        -- pose proof (S2 eq_refl) as NV. destruct rM as [?|?|]; [discriminate| |]; simpl in E; inversion E; subst;
             (eexists _, _; split; [reflexivity|]; split; [split; auto|split; [auto|split; [eapply same_tabs_rel; eauto|reflexivity]]]).
        -- pose proof (S2 eq_refl) as NV. destruct rM as [?|?|]; [discriminate| |]; simpl in E; inversion E; subst;
             (eexists _, _; split; [reflexivity|]; split; [split; auto|split; [auto|split; [eapply same_tabs_rel; eauto|reflexivity]]]).
Qed.

Lemma compile_defs_ex : forall n fs st ft gv rest xS oS ft' gv' fs' pols', Inv st -> Rel st ft ->
  compile_defsL n ft gv (out st) fs (pols_compile n st gv fs ++ rest) = (xS, oS, ft', gv', fs', pols') ->
  exists xM st', compile_defs n st gv fs = (xM, st', gv', fs') /\ ex1 xS oS xM st' /\ Inv st' /\ Rel st' ft' /\ pols' = rest.
Proof.
  intros n. induction fs as [|t r IH]; simpl; intros st ft gv rest xS oS ft' gv' fs' pols' I R E.
  - inversion E; subst. eexists _, _. split; [reflexivity|]. split; [apply ex1_same|auto].
  - assert (KEEP : forall t0,
       (let '(x, o', ft0, gv0, r', p') := compile_defsL n ft gv (out st) r (pols_compile n st gv r ++ rest) in
        (x, o', ft0, gv0, t0 :: r', p')) = (xS, oS, ft', gv', fs', pols') ->
       exists xM st', (let '(x, st0, gv0, r') := compile_defs n st gv r in (x, st0, gv0, t0 :: r')) = (xM, st', gv', fs') /\
                      ex1 xS oS xM st' /\ Inv st' /\ Rel st' ft' /\ pols' = rest).
    { intros t0 E'.
      destruct (compile_defsL n ft gv (out st) r (pols_compile n st gv r ++ rest)) as [[[[[x o'] ft0] gv0] r'] p'] eqn:ER.
      inversion E'; subst. destruct (IH _ _ _ _ _ _ _ _ _ _ I R ER) as (xM & st' & EM & S & I' & R' & PE).
      rewrite EM. eauto 10. }
    destruct t as [e|nm]; [|apply KEEP; exact E].
    destruct (parse_defun e) as [[[nm ps] body]|] eqn:PD.
    + destruct (defunM_step st ft nm ps body [] I R) as (I' & R' & O'). rewrite <- O' in E.
      destruct (compile_defsL n ((nm, (ps, body, [])) :: ft) gv (out (defunM st nm ps body [])) r
                  (pols_compile n (defunM st nm ps body []) gv r ++ rest)) as [[[[[x o'] ft0] gv0] r'] p'] eqn:ER.
      inversion E; subst. destruct (IH _ _ _ _ _ _ _ _ _ _ I' R' ER) as (xM & st' & EM & S & I'' & R'' & PE).
      rewrite EM. eauto 10.
    + destruct (parse_letdefun e) as [[[[clos nm] ps] body]|] eqn:PLD; [apply KEEP; exact E|].
      destruct (parse_gdef e) as [[[always nm] init]|] eqn:PG; [|apply KEEP; exact E].
      rewrite <- app_assoc in E.
      destruct (gdef_eval (evalM n) st gv always nm init) as [[rM st1] gvM] eqn:EM.
      match type of E with context [pol_gdef st gv always nm ++ ?X] =>
        destruct (pol_gdef_split st gv always nm X) as [HP HA]; rewrite HA in E;
        destruct (gdef_evalS (evalL (pol_hd (pol_gdef st gv always nm ++ X)) n ft) gv (out st) always nm init)
          as [[r1 o1] gv1] eqn:E1;
        destruct (gdef_eval_ex _ n st ft gv always nm init r1 o1 gv1 I R HP E1) as (rM' & st1' & EM' & [S1 S2] & [T1 I1])
      end.
      rewrite EM in EM'. inversion EM'; subst rM' st1' gvM.
      destruct r1 as [w|er|].
      * destruct (S1 eq_refl) as [-> O1]. rewrite <- O1 in E.
        destruct (compile_defsL n ft gv1 (out st1) r (pols_compile n st1 gv1 r ++ rest)) as [[[[[x o'] ft0] gv0] r'] p'] eqn:ER.
        inversion E; subst.
        destruct (IH _ _ _ _ _ _ _ _ _ _ (I1 I) (same_tabs_rel _ _ _ T1 R) ER) as (xM & st' & EM2 & S & I'' & R'' & PE).
        rewrite EM2. eauto 10.
      * pose proof (S2 eq_refl) as NV. destruct rM as [?|?|]; [discriminate| |]; simpl in E; inversion E; subst;
          (eexists _, _; split; [reflexivity|]; split; [split; auto|split; [auto|split; [eapply same_tabs_rel; eauto|reflexivity]]]).
      * pose proof (S2 eq_refl) as NV. destruct rM as [?|?|]; [discriminate| |]; simpl in E; inversion E; subst;
          (eexists _, _; split; [reflexivity|]; split; [split; auto|split; [auto|split; [eapply same_tabs_rel; eauto|reflexivity]]]).
Qed.

Definition oex (oS oM : obs) : Prop :=
  (binding (fst oS) = true -> oM = oS) /\ (is_val (fst oS) = false -> is_val (fst oM) = false).

Lemma step_ex : forall n m s o rest s' obS pols', HInv m s -> fmak_ok m o ->
  stepL n s o (pols_step n m o ++ rest) = (s', obS, pols') ->
  HInv (fst (stepM n m o)) s' /\ pols' = rest /\
  match obS, snd (stepM n m o) with
  | Some a, Some b => oex a b
  | None, None => True
  | _, _ => False
  end.
Proof.
  intros n m s o rest s' obS pols' H NF E.
  destruct H as (I & R & CE & GE).
  destruct o as [cid forms|cid|cid|fk]; simpl in *;
    [| | |inversion E; subst; destruct (fmakM_step (ms m) (sft s) fk NF I R) as (I' & R' & _); simpl;
          split; [unfold HInv; simpl; auto|auto]].
  - inversion E; subst. simpl. split; [unfold HInv; simpl; split; [auto|split; [auto|split; [congruence|auto]]]|auto].
  - rewrite <- CE, <- GE in E. destruct (nlookup cid (codes m)) as [fs|].
    + pose proof (good_set_out (ms m) []) as [T0 I0].
      destruct (compile_defsL n (sft s) (mgv m) [] fs (pols_compile n (set_out (ms m) []) (mgv m) fs ++ rest))
        as [[[[[xS oS] ft'] gv'] fs'] pl] eqn:EL.
      destruct (compile_defs_ex n fs (set_out (ms m) []) (sft s) (mgv m) rest xS oS ft' gv' fs' pl (I0 I)
                  (same_tabs_rel _ _ _ T0 R) EL) as (xM & st1 & EM & [S1 S2] & I1 & R1 & PE).
      rewrite EM. inversion E; subst. destruct xM as [w|er|].
      * destruct (cgood_rel _ _ _ (compile_rest_cgood fs' st1) I1 R1) as [I' R'].
        pose proof (cg_out _ _ (compile_rest_cgood fs' st1 I1)) as OC.
        simpl. split; [unfold HInv; simpl; split; [auto|split; [auto|split; [congruence|auto]]]|].
        split; [reflexivity|]. split; simpl.
        -- intros B. destruct (S1 B) as [<- <-]. rewrite OC. reflexivity.
        -- intros NV. destruct xS; [discriminate| |]; specialize (S2 eq_refl); discriminate.
      * simpl. split; [unfold HInv; simpl; split; [auto|split; [auto|split; [congruence|auto]]]|].
        split; [reflexivity|]. split; simpl; auto. intros B. destruct (S1 B) as [<- <-]. reflexivity.
      * simpl. split; [unfold HInv; simpl; split; [auto|split; [auto|split; [congruence|auto]]]|].
        split; [reflexivity|]. split; simpl; auto. intros B. destruct (S1 B) as [<- <-]. reflexivity.
    + inversion E; subst. simpl. split; [unfold HInv; auto|auto].
  - rewrite <- CE, <- GE in E.
    destruct (nlookup cid (codes m)) as [fs|].
    + pose proof (good_set_out (ms m) []) as [T0 I0].
      destruct (run_formsL n (sft s) (mgv m) [] fs VNil (pols_forms n (set_out (ms m) []) (mgv m) fs ++ rest))
        as [[[[rS oS] ft'] gv'] pl] eqn:EL.
      destruct (run_forms_ex n fs (set_out (ms m) []) (sft s) (mgv m) VNil rest rS oS ft' gv' pl (I0 I)
                  (same_tabs_rel _ _ _ T0 R) EL) as (rM & st' & EM & [S1 S2] & I' & R' & PE).
      rewrite EM. inversion E; subst. simpl.
      split; [unfold HInv; simpl; auto|]. split; [reflexivity|].
      split; simpl; auto. intros B. destruct (S1 B) as [-> ->]. reflexivity.
    + inversion E; subst. simpl. split; [unfold HInv; auto|auto].
Qed.

Theorem history_exact_from : forall n ops m s rest, HInv m s -> fmak_clean n m ops = true ->
  Forall2 oex (runL n s ops (pols_run n m ops ++ rest)) (runM n m ops).
Proof.
  intros n. induction ops as [|o r IH]; simpl; intros m s rest H NF; [constructor|].
  apply andb_true_iff in NF. destruct NF as [N1 N2].
  assert (N1' : fmak_ok m o) by (destruct o; simpl; auto).
  rewrite <- app_assoc.
  destruct (stepL n s o (pols_step n m o ++ pols_run n (fst (stepM n m o)) r ++ rest)) as [[s' obS] pols'] eqn:EL.
  destruct (step_ex n m s o _ s' obS pols' H N1' EL) as (H' & -> & OB).
  destruct (stepM n m o) as [m' obM]. simpl in *.
  specialize (IH m' s' rest H' N2).
  destruct obS as [a|], obM as [b|]; try contradiction; simpl; auto.
Qed.
(* every history of {read, Code.Compile, Code.Eval}: under the lookup times M's run uses (each allowed by the
   language) the specification's outcomes are exactly M's - results, conditions (undefined-function included)
   and emitted values *)
Theorem history_exact : forall n ops, fmak_clean n minit ops = true ->
  Forall2 oex (runL n sinit ops (pols_run n minit ops)) (runM n minit ops).
Proof.
  intros n ops NF. rewrite <- (app_nil_r (pols_run n minit ops)). apply history_exact_from; auto. apply HInv_init.
Qed.
Corollary history_exact_exists : forall n ops, fmak_clean n minit ops = true ->
  exists pols, Forall2 oex (runL n sinit ops pols) (runM n minit ops).
Proof. intros n ops NF. exists (pols_run n minit ops). apply history_exact; auto. Qed.
End Late.

End Flag.
End FM.

Theorem history_refines_fmak : forall n ops, Forall2 Proofs.osim (runS n sinit ops) (runM n minit ops).
Proof. exact (FM.history_refines true eq_refl). Qed.

(* the weaker invariant is implied by the invariant of Proofs.v (for either flag), holds initially, and the
   state-level theorems hold over it: evaluation refines S, evaluation / defun / fmakunbound keep it *)
Lemma Inv_weaker : forall orph st, Proofs.Inv st -> FM.Inv orph st.
Proof.
  intros orph st [a b c d]. constructor; auto.
  - intros id g x N. left. exact (b _ _ _ N).
  - intros f cc L. destruct (c _ _ L) as [[s S1] (l & H & N)]. exists l. repeat split; auto. intros X. congruence.
Qed.
Lemma evalM_sim_fmak : forall ft n st en e rS oS,
  FM.Inv true st -> Proofs.Rel st ft -> evalS n ft en (out st) e = (rS, oS) ->
  exists rM st', evalM n st en e = (rM, st') /\
    (comparable rS = true -> rM = rS /\ out st' = oS) /\ (is_val rS = false -> is_val rM = false).
Proof. exact (FM.evalM_sim true). Qed.
Lemma evalM_good_fmak : forall n st en e r st', evalM n st en e = (r, st') ->
  (heap st' = heap st /\ lambdas st' = lambdas st /\ funcs st' = funcs st) /\ (FM.Inv true st -> FM.Inv true st').
Proof. exact (FM.evalM_good true). Qed.
Lemma defunM_step_fmak : forall st ft name ps body clos, FM.Inv true st -> Proofs.Rel st ft ->
  FM.Inv true (defunM st name ps body clos) /\ Proofs.Rel (defunM st name ps body clos) ((name, (ps, body, clos)) :: ft) /\
  out (defunM st name ps body clos) = out st.
Proof. exact (FM.defunM_step true). Qed.
Lemma fmakM_step_fmak : forall st ft name, FM.Inv true st -> Proofs.Rel st ft ->
  FM.Inv true (fmakM st name) /\ Proofs.Rel (fmakM st name) (sremove name ft) /\ out (fmakM st name) = out st.
Proof. exact (fun st ft name => FM.fmakM_step true st ft name (or_introl eq_refl)). Qed.
Lemma reeval_stable_fmak : forall k n st ft en o e rS oS, FM.Inv true st -> Proofs.Rel st ft ->
  evalS n ft en o e = (rS, oS) -> comparable rS = true -> Proofs.iterM k n st en o e = repeat (rS, oS) k.
Proof. exact (FM.reeval_stable true). Qed.
Lemma compile_transparent_fmak : forall n st ft en e rS oS, FM.Inv true st -> Proofs.Rel st ft ->
  evalS n ft en (out st) e = (rS, oS) -> comparable rS = true ->
  (exists st1, evalM n st en e = (rS, st1) /\ out st1 = oS) /\
  (exists st2, evalM n (compile_slot st e) en e = (rS, st2) /\ out st2 = oS).
Proof. exact (FM.compile_transparent true). Qed.
Lemma late_binding_fmak : forall n st ft en e g ps body clos r0 st0 rS oS, FM.Inv true st -> Proofs.Rel st ft ->
  evalM n st en e = (r0, st0) ->
  evalS n ((g, (ps, body, clos)) :: ft) en (out st0) e = (rS, oS) -> comparable rS = true ->
  exists st1, evalM n (defunM st0 g ps body clos) en e = (rS, st1) /\ out st1 = oS.
Proof. exact (FM.late_binding true). Qed.
Lemma forward_reference_fmak : forall n st ft en e g ps body clos rS oS, FM.Inv true st -> Proofs.Rel st ft ->
  slookup g (funcs st) = None ->
  evalS n ((g, (ps, body, clos)) :: ft) en (out st) e = (rS, oS) -> comparable rS = true ->
  exists st2, evalM n (defunM (compile_slot st e) g ps body clos) en e = (rS, st2) /\ out st2 = oS.
Proof. exact (FM.forward_reference true). Qed.
Lemma order_independent_fmak : forall ds ds' st ft, FM.Inv true st -> Proofs.Rel st ft ->
  Permutation ds ds' -> NoDup (map fst ds) ->
  forall n en e rS oS, evalS n (Proofs.deftab ds ft) en (out st) e = (rS, oS) -> comparable rS = true ->
  exists st1 st2, evalM n (Proofs.defunsM st ds) en e = (rS, st1) /\ evalM n (Proofs.defunsM st ds') en e = (rS, st2) /\
                  out st1 = oS /\ out st2 = oS.
Proof. exact (FM.order_independent_M true). Qed.
Lemma program_meaning_fmak : forall n m s es es' ds ds' mains cid cid' cmp cmp' k k',
  FM.HInv true m s -> ProofsProgram.defs_are es ds -> ProofsProgram.defs_are es' ds' -> Permutation ds ds' -> NoDup (map fst ds) ->
  Forall ProofsProgram.plain mains -> mains <> [] ->
  comparable (fst (ProofsProgram.meaning n ds mains (sft s) (sgv s))) = true ->
  runM n m (ProofsProgram.prog cid es mains cmp k) = ProofsProgram.expected n ds mains s cmp k /\
  runM n m (ProofsProgram.prog cid' es' mains cmp' k') = ProofsProgram.expected n ds mains s cmp' k'.
Proof. exact (FM.program_meaning_M true eq_refl). Qed.
(* the history invariant holds after EVERY history from the empty state (so the state-level and program-level
   theorems apply after any prefix with fmakunbound) *)
Lemma HInv_reachable : forall n ops m s, FM.HInv true m s ->
  FM.HInv true (fold_left (fun m o => fst (stepM n m o)) ops m) (fold_left (fun s o => fst (stepS n s o)) ops s).
Proof.
  intros n. induction ops as [|o r IH]; simpl; intros m s H; [exact H|].
  apply IH. apply (FM.step_sim true n m s o H). destruct o; simpl; auto.
Qed.
Lemma HInv_reachable_init : forall n ops,
  FM.HInv true (fold_left (fun m o => fst (stepM n m o)) ops minit) (fold_left (fun s o => fst (stepS n s o)) ops sinit).
Proof. intros. apply HInv_reachable. apply FM.HInv_init. Qed.

(* exactness for the histories in which no name is fmakunbound while a slot holds a compiled call of it *)
Theorem history_exact_fmak : forall n ops, fmak_clean n minit ops = true ->
  Forall2 ProofsLate.oex (runL n sinit ops (pols_run n minit ops)) (runM n minit ops).
Proof. exact (FM.history_exact false eq_refl). Qed.
Theorem history_exact_exists_fmak : forall n ops, fmak_clean n minit ops = true ->
  exists pols, Forall2 ProofsLate.oex (runL n sinit ops pols) (runM n minit ops).
Proof. exact (FM.history_exact_exists false eq_refl). Qed.
Lemma no_fmak_clean : forall n ops m, no_fmak ops = true -> fmak_clean n m ops = true.
Proof.
  intros n. induction ops as [|o r IH]; simpl; intros m NF; [reflexivity|].
  destruct o; simpl; auto; discriminate.
Qed.

(* ---- exactness (9b) and fmakunbound ------------------------------------------------------------------------
   The exactness theorems of ProofsLate.v compare M with runL, S with ONE lookup time per undefined name and per
   evaluated top-level form.  After a fmakunbound M's lookup time differs between the call sites of the SAME name:
   a call compiled before the fmakunbound holds the registered Lambda (now a placeholder) and evaluates its
   arguments first; a call still in list form finds no creator and signals undefined-function at once.  Both are
   allowed by CLHS 3.1.2.1.2.3, but no per-name policy describes them together, so history_exact does NOT extend
   to the histories with OFmak: *)
Open Scope string_scope.
Definition fx_ops1 : list op :=
  [OLoad 0 [Proofs.dfn 1 "h" 2 ["x"] [SList 3 [SSym "progn"; SInt 1]]]; ORun 0;
   OLoad 1 [SList 4 [SSym "h"; SList 5 [SSym "emit"; SInt 5]]]; OCompile 1; OFmak "h"; ORun 1].
(* (h (emit 1) (if t (h (emit 5) 0) 0)): Code.Compile converts the outer call and leaves the arguments of `if`
   alone; after (fmakunbound 'h) the outer call emits 1, then the inner call - list form - signals at once *)
Definition fx_ops2 : list op :=
  [OLoad 0 [Proofs.dfn 1 "h" 2 ["x"; "y"] [SList 3 [SSym "progn"; SInt 1]]]; ORun 0;
   OLoad 1 [SList 4 [SSym "h"; SList 5 [SSym "emit"; SInt 1];
                     SList 6 [SSym "if"; SSym "t"; SList 7 [SSym "h"; SList 8 [SSym "emit"; SInt 5]; SInt 0]; SInt 0]]];
   OCompile 1; OFmak "h"; ORun 1].
Lemma oex_third : forall (a1 a2 a3 b1 b2 b3 : obs),
  Forall2 ProofsLate.oex [a1;a2;a3] [b1;b2;b3] -> ProofsLate.oex a3 b3.
Proof.
  intros. inversion H as [|? ? ? ? _ H2]; subst. inversion H2 as [|? ? ? ? _ H3]; subst.
  inversion H3 as [|? ? ? ? H4 _]; subst. exact H4.
Qed.
(* under the lookup times read off M's run (`pols_run`): M emits 5 before undefined-function, runL does not *)
Theorem history_exact_fmak_refuted :
  runM 10 minit fx_ops1 = [(Val (VSym "h"), []); (Val VNil, []); (Err EUndefined, [VInt 5%Z])] /\
  runL 10 sinit fx_ops1 (pols_run 10 minit fx_ops1) = [(Val (VSym "h"), []); (Val VNil, []); (Err EUndefined, [])] /\
  ~ Forall2 ProofsLate.oex (runL 10 sinit fx_ops1 (pols_run 10 minit fx_ops1)) (runM 10 minit fx_ops1).
Proof.
  split; [vm_compute; reflexivity|]. split; [vm_compute; reflexivity|].
  intros H. vm_compute in H. apply oex_third in H. destruct H as [A _]. specialize (A eq_refl). discriminate.
Qed.
(* and under EVERY assignment of per-name lookup times: M emits 1 only; runL emits nothing (h early) or 1 and 5
   (h late) *)
Theorem history_exact_exists_fmak_refuted :
  runM 10 minit fx_ops2 = [(Val (VSym "h"), []); (Val VNil, []); (Err EUndefined, [VInt 1%Z])] /\
  forall pols, ~ Forall2 ProofsLate.oex (runL 10 sinit fx_ops2 pols) (runM 10 minit fx_ops2).
Proof.
  split; [vm_compute; reflexivity|].
  intros pols H. destruct pols as [|p0 r]; vm_compute in H.
  - apply oex_third in H. destruct H as [A _]. specialize (A eq_refl). discriminate.
  - destruct (p0 "h"); apply oex_third in H; destruct H as [A _]; specialize (A eq_refl); discriminate.
Qed.

(* the hypothesis of history_exact_fmak: weaker than no_fmak (no_fmak_clean), satisfiable with OFmak (a function that
   was only ever called from top-level list forms is fmakunbound, then called and redefined), and it excludes both
   witnesses above *)
Definition fx_ops3 : list op :=
  [OLoad 0 [Proofs.dfn 1 "h" 2 ["x"] [SList 3 [SSym "progn"; SInt 1]]; SList 4 [SSym "h"; SInt 7]]; ORun 0; OFmak "h";
   OLoad 1 [SList 5 [SSym "h"; SList 6 [SSym "emit"; SInt 5]]]; ORun 1; ORun 0; ORun 1].
Theorem fmak_clean_demo :
  fmak_clean 10 minit fx_ops3 = true /\ no_fmak fx_ops3 = false /\
  runM 10 minit fx_ops3 = [(Val (VInt 1%Z), []); (Err EUndefined, []); (Val (VInt 1%Z), []); (Val (VInt 1%Z), [VInt 5%Z])] /\
  fmak_clean 10 minit fx_ops1 = false /\ fmak_clean 10 minit fx_ops2 = false.
Proof. vm_compute. auto 10. Qed.
