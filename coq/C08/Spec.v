(* C08 — S: what the property demands.  A pure evaluator over the list forms as read: no compiled
   objects, no cache, no placeholders; a call means "the definition the name has NOW" (late binding by
   name through a table of definitions).  Scoping (caller-to-callee chained environments) and the
   built-ins are those of the model: they are the subject of other properties, not of this one. *)
From Coq Require Import List ZArith String Bool Arith.
From C08 Require Import Model.
Import ListNotations.
Open Scope list_scope.

Definition def := (list string * list sexp * env)%type.   (* parameters, body forms, variables of the defining scope (closure) *)
Definition ftab := list (string * def).                   (* latest definition first *)

Section WithEvalS.
  Variable ev : env -> list value -> sexp -> res * list value.
  Fixpoint eval_argsS (en : env) (o : list value) (args : list sexp) : ares * list value :=
    match args with
    | [] => (AVals [], o)
    | a :: rest =>
        match ev en o a with
        | (Val v, o1) =>
            match eval_argsS en o1 rest with
            | (AVals vs, o2) => (AVals (first_val v :: vs), o2)
            | r => r
            end
        | (r, o1) => (AStop r, o1)
        end
    end.
  Fixpoint eval_bodyS (en : env) (o : list value) (forms : list sexp) (lastv : value) : res * list value :=
    match forms with
    | [] => (Val lastv, o)
    | f :: rest => match ev en o f with (Val v, o1) => eval_bodyS en o1 rest v | r => r end
    end.
  (* forms evaluated one after the other for the value of the last (clause of `case`); an empty list
     value counts as nil *)
  Fixpoint eval_seqS (en : env) (o : list value) (forms : list sexp) (lastv : value) : res * list value :=
    match forms with
    | [] => (Val lastv, o)
    | f :: rest => match ev en o f with (Val v, o1) => eval_seqS en o1 rest (norm v) | r => r end
    end.
  Definition eval_ifS (en : env) (o : list value) (args : list sexp) : res * list value :=
    let go (c a : sexp) (b : option sexp) :=
      match ev en o c with
      | (Val v, o1) =>
          match (if truthy (norm v) then Some a else b) with
          | None => (Val VNil, o1)
          | Some x => match ev en o1 x with (Val w, o2) => (Val (norm w), o2) | r => r end
          end
      | r => r
      end in
    match args with
    | [c; a] => go c a None
    | [c; a; b] => go c a (Some b)
    | _ => (Err EBadForm, o)
    end.
  Definition eval_caseS (en : env) (o : list value) (args : list sexp) : res * list value :=
    match args with
    | [] => (Err EBadForm, o)
    | k :: clauses =>
        match eval_argsS en o [k] with
        | (AVals [key], o1) =>
            match select_clause key clauses with
            | None => (Err EBadForm, o1)
            | Some forms => eval_seqS en o1 forms VNil
            end
        | (AVals _, o1) => (Err EBadForm, o1)
        | (AStop r, o1) => (r, o1)
        end
    end.
End WithEvalS.

Fixpoint evalS (n : nat) (ft : ftab) (en : env) (o : list value) (e : sexp) : res * list value :=
  match n with
  | O => (OutOfFuel, o)
  | S n' =>
      match e with
      | SInt z => (Val (VInt z), o)
      | SSym x => (sym_value en x, o)
      | SList _ (SSym f :: args) =>
          match builtin_of f with
          | Some BProgn => eval_seqS (evalS n' ft) en o args VNil     (* the forms in order; the value(s) of the last *)
          | Some BIf => eval_ifS (evalS n' ft) en o args
          | Some BCase => eval_caseS (evalS n' ft) en o args
          | Some b =>
              match eval_argsS (evalS n' ft) en o args with
              | (AVals vs, o1) => apply_bi b vs o1
              | (AStop r, o1) => (r, o1)
              end
          | None =>
              match slookup f ft with
              | None => (Err EUndefined, o)          (* a call to a function that has no definition *)
              | Some (ps, forms, clos) =>
                  match eval_argsS (evalS n' ft) en o args with
                  | (AVals vs, o1) =>
                      match arity_err (List.length ps) (List.length vs) with
                      | Some e => (Err e, o1)                 (* too many or too few arguments *)
                      | None => eval_bodyS (evalS n' ft) (bind ps vs ++ clos ++ en) o1 forms VNil
                      end
                  | (AStop r, o1) => (r, o1)
                  end
              end
          end
      | SList _ _ => (Err EBadForm, o)
      end
  end.

(* ---- top level -------------------------------------------------------------------------------- *)
(* a variable definition with an init form: defvar evaluates it only when the variable does not exist yet *)
Definition gdef_evaluates (gv : env) (always : bool) (nm : string) : bool :=
  always || match slookup (gkey nm) gv with None => true | Some _ => false end.
Definition gdef_evalS (ev : env -> list value -> sexp -> res * list value) (gv : env) (o : list value) (always : bool)
  (nm : string) (init : sexp) : res * list value * env :=
  if always then
    match ev gv o init with
    | (Val v, o1) => (Val (VSym nm), o1, (gkey nm, first_val v) :: gv)
    | (r, o1) => (r, o1, gv)
    end
  else
    match slookup (gkey nm) gv with
    | Some _ => (Val (VSym nm), o, gv)
    | None =>
        match ev gv o init with
        | (Val v, o1) => (Val (VSym nm), o1, (gkey nm, norm v) :: gv)
        | (r, o1) => (r, o1, gv)
        end
    end.
Fixpoint run_formsS (n : nat) (ft : ftab) (gv : env) (o : list value) (fs : list tform) (lastv : value)
  : res * list value * ftab * env :=
  match fs with
  | [] => (Val lastv, o, ft, gv)
  | TQuote nm :: r => run_formsS n ft gv o r (VSym nm)
  | TForm e :: r =>
      match parse_defun e with
      | Some (nm, ps, body) => run_formsS n ((nm, (ps, body, [])) :: ft) gv o r (VSym nm)
      | None =>
          match parse_letdefun e with
          (* the function sees the variables of the let it was defined in *)
          | Some (clos, nm, ps, body) => run_formsS n ((nm, (ps, body, clos)) :: ft) gv o r (VSym nm)
          | None =>
              match parse_gdef e with
              | Some (always, nm, init) =>
                  match gdef_evalS (evalS n ft) gv o always nm init with
                  | (Val v, o1, gv1) => run_formsS n ft gv1 o1 r v
                  | (x, o1, gv1) => (x, o1, ft, gv1)
                  end
              | None => match evalS n ft gv o e with (Val v, o1) => run_formsS n ft gv o1 r v | (x, o1) => (x, o1, ft, gv) end
              end
          end
      end
  end.
(* compiling a code object = making its top-level definitions now, in source order (code.go: "This evaluates all
   the defun, defvar, and defmacro calls"): the init form of a variable is evaluated with the function definitions
   made so far.  A condition ends the compilation; the forms from there on are left as they are. *)
Fixpoint compile_defsS (n : nat) (ft : ftab) (gv : env) (o : list value) (fs : list tform)
  : res * list value * ftab * env * list tform :=
  match fs with
  | [] => (Val VNil, o, ft, gv, [])
  | TForm e :: r =>
      match parse_defun e with
      | Some (nm, ps, body) =>
          let '(x, o', ft', gv', r') := compile_defsS n ((nm, (ps, body, [])) :: ft) gv o r in (x, o', ft', gv', TQuote nm :: r')
      | None =>
          match parse_letdefun e with
          | Some _ => let '(x, o', ft', gv', r') := compile_defsS n ft gv o r in (x, o', ft', gv', TForm e :: r')
          | None =>
              match parse_gdef e with
              | Some (always, nm, init) =>
                  match gdef_evalS (evalS n ft) gv o always nm init with
                  | (Val _, o1, gv1) => let '(x, o', ft', gv', r') := compile_defsS n ft gv1 o1 r in (x, o', ft', gv', TQuote nm :: r')
                  | (x, o1, gv1) => (x, o1, ft, gv1, TForm e :: r)
                  end
              | None => let '(x, o', ft', gv', r') := compile_defsS n ft gv o r in (x, o', ft', gv', TForm e :: r')
              end
          end
      end
  | t :: r => let '(x, o', ft', gv', r') := compile_defsS n ft gv o r in (x, o', ft', gv', t :: r')
  end.
Record sstate := mkS { sft : ftab; sgv : env; scodes : list (nat * list tform) }.
Definition sinit : sstate := mkS [] [] [].
Definition stepS (n : nat) (s : sstate) (o : op) : sstate * option obs :=
  match o with
  | OLoad cid forms => (mkS (sft s) (sgv s) ((cid, map TForm forms) :: scodes s), None)
  | OCompile cid =>
      match nlookup cid (scodes s) with
      | None => (s, None)
      | Some fs => let '(x, o1, ft', gv', fs') := compile_defsS n (sft s) (sgv s) [] fs in
                   (mkS ft' gv' ((cid, fs') :: scodes s), Some (x, o1))
      end
  | ORun cid =>
      match nlookup cid (scodes s) with
      | None => (s, None)
      | Some fs => let '(r, o1, ft', gv') := run_formsS n (sft s) (sgv s) [] fs VNil in (mkS ft' gv' (scodes s), Some (r, o1))
      end
  (* fmakunbound: the name has no definition any more, for every caller *)
  | OFmak name => (mkS (sremove name (sft s)) (sgv s) (scodes s), None)
  end.
Fixpoint runS (n : nat) (s : sstate) (ops : list op) : list obs :=
  match ops with
  | [] => []
  | o :: r => let (s', ob) := stepS n s o in (match ob with Some x => [x] | None => [] end) ++ runS n s' r
  end.

(* ---- what is left of the guard -------------------------------------------------------------------
   (G1, removed) a redefinition used to be inside the guard only while the Lambda captured by the name's creator
        was the registered one; since repo_fixes/C08-3 the creator always hands out the registered Lambda.
   (G3, removed) a bare symbol as a body form had to be a parameter or an existing variable; since
        repo_fixes/C08-4 Lambda.Compile leaves symbols alone.
   Every program and every history of the modelled language is inside the guard: there is no guard predicate.
   (G2, reclassified) evalS signals undefined-function before evaluating the arguments of the call; slip's compiled
        call evaluates them first.  Both are allowed (CLHS 3.1.2.1.2.3, see evalL below), so the former finding
        C08-undefined-args-first is not a defect.  `comparable` stays as the domain on which the one-policy
        specification evalS is binding: there every policy gives the same outcome.  The outcomes outside it are
        covered exactly by evalL / runL (ProofsLate.v). *)
(* evalS's verdict is binding when it is a value or a condition other than undefined-function; when S runs out
   of fuel it says nothing *)
Definition comparable (r : res) : bool := match r with Err EUndefined => false | OutOfFuel => false | _ => true end.
Definition is_val (r : res) : bool := match r with Val _ => true | _ => false end.

(* ---- when is an undefined operator noticed?  CLHS 3.1.2.1.2.3 -------------------------------------------
   "Although the order of evaluation of the argument subforms themselves is strictly left-to-right, it is not
   specified whether the definition of the operator in a function form is looked up before the evaluation of
   the argument subforms, after the evaluation of the argument subforms, or between the evaluation of any two
   argument subforms."  So for a call of a function that has no definition, signalling undefined-function at
   once (what evalS does, and slip's list form) and evaluating the arguments first (what slip's compiled call
   does: it calls the placeholder) are both what the language allows; the former finding
   C08-undefined-args-first is not a defect.  evalL is evalS with the lookup time as a parameter: `late f` says
   that an undefined f is noticed after its arguments have been evaluated (their side effects happen, an error
   in one of them is what the call signals).  evalL early = evalS; and wherever evalS is binding (`comparable`)
   evalL gives the same for every policy (Proofs: evalL_early, evalL_policy_irrelevant). *)
Definition policy := string -> bool.
Definition early : policy := fun _ => false.
Fixpoint evalL (late : policy) (n : nat) (ft : ftab) (en : env) (o : list value) (e : sexp) : res * list value :=
  match n with
  | O => (OutOfFuel, o)
  | S n' =>
      match e with
      | SInt z => (Val (VInt z), o)
      | SSym x => (sym_value en x, o)
      | SList _ (SSym f :: args) =>
          match builtin_of f with
          | Some BProgn => eval_seqS (evalL late n' ft) en o args VNil
          | Some BIf => eval_ifS (evalL late n' ft) en o args
          | Some BCase => eval_caseS (evalL late n' ft) en o args
          | Some b =>
              match eval_argsS (evalL late n' ft) en o args with
              | (AVals vs, o1) => apply_bi b vs o1
              | (AStop r, o1) => (r, o1)
              end
          | None =>
              match slookup f ft with
              | None =>
                  if late f then
                    match eval_argsS (evalL late n' ft) en o args with
                    | (AVals _, o1) => (Err EUndefined, o1)
                    | (AStop r, o1) => (r, o1)
                    end
                  else (Err EUndefined, o)
              | Some (ps, forms, clos) =>
                  match eval_argsS (evalL late n' ft) en o args with
                  | (AVals vs, o1) =>
                      match arity_err (List.length ps) (List.length vs) with
                      | Some e => (Err e, o1)                 (* too many or too few arguments *)
                      | None => eval_bodyS (evalL late n' ft) (bind ps vs ++ clos ++ en) o1 forms VNil
                      end
                  | (AStop r, o1) => (r, o1)
                  end
              end
          end
      | SList _ _ => (Err EBadForm, o)
      end
  end.

(* Histories with an oracle: one policy for every evaluation of a top-level form or of the init form of a variable
   definition (the lookup time may differ from one evaluation to the next: it depends on what has been compiled
   meanwhile), taken from a list; when the list is exhausted the policy is `early`.  The rest of the list is
   returned. *)
Definition pol_hd (pols : list policy) : policy := match pols with p :: _ => p | [] => early end.
Definition pols_after_gdef (gv : env) (always : bool) (nm : string) (pols : list policy) : list policy :=
  if gdef_evaluates gv always nm then tl pols else pols.
Fixpoint run_formsL (n : nat) (ft : ftab) (gv : env) (o : list value) (fs : list tform) (lastv : value) (pols : list policy)
  : res * list value * ftab * env * list policy :=
  match fs with
  | [] => (Val lastv, o, ft, gv, pols)
  | TQuote nm :: r => run_formsL n ft gv o r (VSym nm) pols
  | TForm e :: r =>
      match parse_defun e with
      | Some (nm, ps, body) => run_formsL n ((nm, (ps, body, [])) :: ft) gv o r (VSym nm) pols
      | None =>
          match parse_letdefun e with
          | Some (clos, nm, ps, body) => run_formsL n ((nm, (ps, body, clos)) :: ft) gv o r (VSym nm) pols
          | None =>
              match parse_gdef e with
              | Some (always, nm, init) =>
                  match gdef_evalS (evalL (pol_hd pols) n ft) gv o always nm init with
                  | (Val v, o1, gv1) => run_formsL n ft gv1 o1 r v (pols_after_gdef gv always nm pols)
                  | (x, o1, gv1) => (x, o1, ft, gv1, pols_after_gdef gv always nm pols)
                  end
              | None => match evalL (pol_hd pols) n ft gv o e with
                        | (Val v, o1) => run_formsL n ft gv o1 r v (tl pols)
                        | (x, o1) => (x, o1, ft, gv, tl pols)
                        end
              end
          end
      end
  end.
Fixpoint compile_defsL (n : nat) (ft : ftab) (gv : env) (o : list value) (fs : list tform) (pols : list policy)
  : res * list value * ftab * env * list tform * list policy :=
  match fs with
  | [] => (Val VNil, o, ft, gv, [], pols)
  | TForm e :: r =>
      match parse_defun e with
      | Some (nm, ps, body) =>
          let '(x, o', ft', gv', r', p') := compile_defsL n ((nm, (ps, body, [])) :: ft) gv o r pols in (x, o', ft', gv', TQuote nm :: r', p')
      | None =>
          match parse_letdefun e with
          | Some _ => let '(x, o', ft', gv', r', p') := compile_defsL n ft gv o r pols in (x, o', ft', gv', TForm e :: r', p')
          | None =>
              match parse_gdef e with
              | Some (always, nm, init) =>
                  match gdef_evalS (evalL (pol_hd pols) n ft) gv o always nm init with
                  | (Val _, o1, gv1) =>
                      let '(x, o', ft', gv', r', p') := compile_defsL n ft gv1 o1 r (pols_after_gdef gv always nm pols) in
                      (x, o', ft', gv', TQuote nm :: r', p')
                  | (x, o1, gv1) => (x, o1, ft, gv1, TForm e :: r, pols_after_gdef gv always nm pols)
                  end
              | None => let '(x, o', ft', gv', r', p') := compile_defsL n ft gv o r pols in (x, o', ft', gv', TForm e :: r', p')
              end
          end
      end
  | t :: r => let '(x, o', ft', gv', r', p') := compile_defsL n ft gv o r pols in (x, o', ft', gv', t :: r', p')
  end.
Definition stepL (n : nat) (s : sstate) (o : op) (pols : list policy) : sstate * option obs * list policy :=
  match o with
  | OLoad cid forms => (mkS (sft s) (sgv s) ((cid, map TForm forms) :: scodes s), None, pols)
  | OCompile cid =>
      match nlookup cid (scodes s) with
      | None => (s, None, pols)
      | Some fs => let '(x, o1, ft', gv', fs', pols') := compile_defsL n (sft s) (sgv s) [] fs pols in
                   (mkS ft' gv' ((cid, fs') :: scodes s), Some (x, o1), pols')
      end
  | ORun cid =>
      match nlookup cid (scodes s) with
      | None => (s, None, pols)
      | Some fs => let '(r, o1, ft', gv', pols') := run_formsL n (sft s) (sgv s) [] fs VNil pols in
                   (mkS ft' gv' (scodes s), Some (r, o1), pols')
      end
  | OFmak name => (mkS (sremove name (sft s)) (sgv s) (scodes s), None, pols)
  end.
Fixpoint runL (n : nat) (s : sstate) (ops : list op) (pols : list policy) : list obs :=
  match ops with
  | [] => []
  | o :: r => let '(s', ob, pols') := stepL n s o pols in (match ob with Some x => [x] | None => [] end) ++ runL n s' r pols'
  end.
(* an outcome of S is binding unless S ran out of fuel *)
Definition binding (r : res) : bool := match r with OutOfFuel => false | _ => true end.

(* The lookup times slip uses, read off the model state: an undefined name is noticed late when it has a
   placeholder - some call of it has been compiled (CompileList registered the placeholder in Package.funcs, and
   from then on the list form finds it there too).  These functions only choose the oracle for runL; whatever
   they return is a policy the language allows. *)
Definition latef (st : state) : policy :=
  fun f => match slookup f (funcs st) with Some _ => true | None => false end.
(* the policies along M's run: one for every evaluation of a top-level form or init form *)
Definition pol_gdef (st : state) (gv : env) (always : bool) (nm : string) : list policy :=
  if gdef_evaluates gv always nm then [latef st] else [].
Fixpoint pols_forms (n : nat) (st : state) (gv : env) (fs : list tform) : list policy :=
  match fs with
  | [] => []
  | TQuote _ :: r => pols_forms n st gv r
  | TForm e :: r =>
      match parse_defun e with
      | Some (nm, ps, body) => pols_forms n (defunM st nm ps body []) gv r
      | None =>
          match parse_letdefun e with
          | Some (clos, nm, ps, body) => pols_forms n (defunM st nm ps body clos) gv r
          | None =>
              match parse_gdef e with
              | Some (always, nm, init) =>
                  pol_gdef st gv always nm ++
                  match gdef_eval (evalM n) st gv always nm init with (Val _, st1, gv1) => pols_forms n st1 gv1 r | _ => [] end
              | None => latef st :: match evalM n st gv e with (Val _, st1) => pols_forms n st1 gv r | _ => [] end
              end
          end
      end
  end.
Fixpoint pols_compile (n : nat) (st : state) (gv : env) (fs : list tform) : list policy :=
  match fs with
  | [] => []
  | TForm e :: r =>
      match parse_defun e with
      | Some (nm, ps, body) => pols_compile n (defunM st nm ps body []) gv r
      | None =>
          match parse_letdefun e with
          | Some _ => pols_compile n st gv r
          | None =>
              match parse_gdef e with
              | Some (always, nm, init) =>
                  pol_gdef st gv always nm ++
                  match gdef_eval (evalM n) st gv always nm init with (Val _, st1, gv1) => pols_compile n st1 gv1 r | _ => [] end
              | None => pols_compile n st gv r
              end
          end
      end
  | _ :: r => pols_compile n st gv r
  end.
Definition pols_step (n : nat) (m : mstate) (o : op) : list policy :=
  match o with
  | ORun cid => match nlookup cid (codes m) with Some fs => pols_forms n (set_out (ms m) []) (mgv m) fs | None => [] end
  | OCompile cid => match nlookup cid (codes m) with Some fs => pols_compile n (set_out (ms m) []) (mgv m) fs | None => [] end
  | _ => []
  end.
Fixpoint pols_run (n : nat) (m : mstate) (ops : list op) : list policy :=
  match ops with [] => [] | o :: r => pols_step n m o ++ pols_run n (fst (stepM n m o)) r end.

(* ---- fmakunbound -------------------------------------------------------------------------------------------
   Since repo_fixes/C08-5 and C08-6 fmakunbound turns the registered Lambda into the Lambda of an undefined function
   and CompileList reuses it, so M follows S after a fmakunbound as well; the correspondence compares every
   outcome of every history with S.  The history theorems of Proofs.v / ProofsLate.v are stated for the histories
   without OFmak (`no_fmak`): the invariant of Proofs.v has no clause for a registered Lambda without a creator;
   ProofsFmak.v has it and proves the refinement for EVERY history, the exactness for `fmak_clean` histories.  After a
   fmakunbound the lookup time of the undefined name differs between call sites (compiled earlier: after the
   arguments; list form: before), which the per-name policy of evalL does not express: the exactness self-check
   of the correspondence covers the observations before the first OFmak (`before_fmak`). *)
Fixpoint no_fmak (ops : list op) : bool :=
  match ops with [] => true | OFmak _ :: _ => false | _ :: r => no_fmak r end.
(* one flag per observation (OCompile / ORun of an existing code object): no OFmak so far *)
Fixpoint before_fmak (n : nat) (m : mstate) (g : bool) (ops : list op) : list bool :=
  match ops with
  | [] => []
  | o :: r =>
      let m' := fst (stepM n m o) in
      match o with
      | OLoad _ _ => before_fmak n m' g r
      | OFmak _ => before_fmak n m' false r
      | OCompile cid | ORun cid =>
          match nlookup cid (codes m) with
          | None => before_fmak n m' g r
          | Some _ => g :: before_fmak n m' g r
          end
      end
  end.
