(* C08 — S: what the property demands.  A pure evaluator over the list forms as read: no compiled
   objects, no cache, no placeholders; a call means "the definition the name has NOW" (late binding by
   name through a table of definitions).  Scoping (caller-to-callee chained environments) and the
   built-ins are those of the model: they are the subject of other properties, not of this one. *)
From Coq Require Import List ZArith String Bool Arith.
From C08 Require Import Model.
Import ListNotations.
Open Scope list_scope.

Definition def := (list string * list sexp)%type.         (* parameters, body forms *)
Definition ftab := list (string * def).                   (* latest definition first *)

Section WithEvalS.
  Variable ev : env -> list value -> sexp -> res * list value.
  Fixpoint eval_argsS (en : env) (o : list value) (args : list sexp) : ares * list value :=
    match args with
    | [] => (AVals [], o)
    | a :: rest =>
        match ev en o a with
        | (Val v, o1) =>
            match eval_argsS en o1 rest with
            | (AVals vs, o2) => (AVals (first_val v :: vs), o2)
            | r => r
            end
        | (r, o1) => (AStop r, o1)
        end
    end.
  Fixpoint eval_bodyS (en : env) (o : list value) (forms : list sexp) (lastv : value) : res * list value :=
    match forms with
    | [] => (Val lastv, o)
    | f :: rest => match ev en o f with (Val v, o1) => eval_bodyS en o1 rest v | r => r end
    end.
  Definition eval_ifS (en : env) (o : list value) (args : list sexp) : res * list value :=
    let go (c a : sexp) (b : option sexp) :=
      match ev en o c with
      | (Val v, o1) =>
          match (if truthy v then Some a else b) with
          | None => (Val VNil, o1)
          | Some x => ev en o1 x
          end
      | r => r
      end in
    match args with
    | [c; a] => go c a None
    | [c; a; b] => go c a (Some b)
    | _ => (Err EBadForm, o)
    end.
  Definition eval_caseS (en : env) (o : list value) (args : list sexp) : res * list value :=
    match args with
    | [] => (Err EBadForm, o)
    | k :: clauses =>
        match eval_argsS en o [k] with
        | (AVals [key], o1) =>
            match select_clause key clauses with
            | None => (Err EBadForm, o1)
            | Some forms => eval_bodyS en o1 forms VNil
            end
        | (AVals _, o1) => (Err EBadForm, o1)
        | (AStop r, o1) => (r, o1)
        end
    end.
End WithEvalS.

Fixpoint evalS (n : nat) (ft : ftab) (en : env) (o : list value) (e : sexp) : res * list value :=
  match n with
  | O => (OutOfFuel, o)
  | S n' =>
      match e with
      | SInt z => (Val (VInt z), o)
      | SSym x => (sym_value en x, o)
      | SList _ (SSym f :: args) =>
          match builtin_of f with
          | Some BIf => eval_ifS (evalS n' ft) en o args
          | Some BCase => eval_caseS (evalS n' ft) en o args
          | Some b =>
              match eval_argsS (evalS n' ft) en o args with
              | (AVals vs, o1) => apply_bi b vs o1
              | (AStop r, o1) => (r, o1)
              end
          | None =>
              match slookup f ft with
              | None => (Err EUndefined, o)          (* a call to a function that has no definition *)
              | Some (ps, forms) =>
                  match eval_argsS (evalS n' ft) en o args with
                  | (AVals vs, o1) =>
                      if Nat.ltb (List.length ps) (List.length vs) then (Err ETooMany, o1)
                      else eval_bodyS (evalS n' ft) (bind ps vs ++ en) o1 forms VNil
                  | (AStop r, o1) => (r, o1)
                  end
              end
          end
      | SList _ _ => (Err EBadForm, o)
      end
  end.

(* ---- top level -------------------------------------------------------------------------------- *)
Fixpoint run_formsS (n : nat) (ft : ftab) (o : list value) (fs : list tform) (lastv : value) : res * list value * ftab :=
  match fs with
  | [] => (Val lastv, o, ft)
  | TQuote nm :: r => run_formsS n ft o r (VSym nm)
  | TForm e :: r =>
      match parse_defun e with
      | Some (nm, ps, body) => run_formsS n ((nm, (ps, body)) :: ft) o r (VSym nm)
      | None => match evalS n ft [] o e with (Val v, o1) => run_formsS n ft o1 r v | (x, o1) => (x, o1, ft) end
      end
  end.
(* compiling a code object = making its definitions now (code.go: "This evaluates all the defun ...") *)
Fixpoint compile_defsS (ft : ftab) (fs : list tform) : ftab * list tform :=
  match fs with
  | [] => (ft, [])
  | TForm e :: r =>
      match parse_defun e with
      | Some (nm, ps, body) => let (ft', r') := compile_defsS ((nm, (ps, body)) :: ft) r in (ft', TQuote nm :: r')
      | None => let (ft', r') := compile_defsS ft r in (ft', TForm e :: r')
      end
  | t :: r => let (ft', r') := compile_defsS ft r in (ft', t :: r')
  end.
Record sstate := mkS { sft : ftab; scodes : list (nat * list tform) }.
Definition sinit : sstate := mkS [] [].
Definition stepS (n : nat) (s : sstate) (o : op) : sstate * option obs :=
  match o with
  | OLoad cid forms => (mkS (sft s) ((cid, map TForm forms) :: scodes s), None)
  | OCompile cid =>
      match nlookup cid (scodes s) with
      | None => (s, None)
      | Some fs => let (ft', fs') := compile_defsS (sft s) fs in (mkS ft' ((cid, fs') :: scodes s), None)
      end
  | ORun cid =>
      match nlookup cid (scodes s) with
      | None => (s, None)
      | Some fs => let '(r, o1, ft') := run_formsS n (sft s) [] fs VNil in (mkS ft' (scodes s), Some (r, o1))
      end
  end.
Fixpoint runS (n : nat) (s : sstate) (ops : list op) : list obs :=
  match ops with
  | [] => []
  | o :: r => let (s', ob) := stepS n s o in (match ob with Some x => [x] | None => [] end) ++ runS n s' r
  end.

(* ---- guard -------------------------------------------------------------------------------------
   (G1) a definition of `name` is inside the guard when the name is new, or the Lambda captured by the
        name's creator is still the registered one (it is the registered one that later definitions patch),
        or the definition is the one the name already has.  Outside: known finding C08-stale-lambda.
   (G2) an outcome is compared with S only when S does not say undefined-function: compiled code calls the
        placeholder, which evaluates the arguments first (known finding C08-undefined-args-first). *)
Fixpoint sexp_eqb (x y : sexp) {struct x} : bool :=
  match x, y with
  | SInt z, SInt z' => Z.eqb z z'
  | SSym s, SSym s' => String.eqb s s'
  | SList i xs, SList j ys =>
      Nat.eqb i j && (fix eql (xs ys : list sexp) {struct xs} : bool :=
                        match xs, ys with
                        | [], [] => true
                        | a :: xs', b :: ys' => sexp_eqb a b && eql xs' ys'
                        | _, _ => false
                        end) xs ys
  | _, _ => false
  end.
Fixpoint sexps_eqb (xs ys : list sexp) : bool :=
  match xs, ys with
  | [], [] => true
  | a :: xs', b :: ys' => sexp_eqb a b && sexps_eqb xs' ys'
  | _, _ => false
  end.
Fixpoint strs_eqb (xs ys : list string) : bool :=
  match xs, ys with
  | [], [] => true
  | a :: xs', b :: ys' => String.eqb a b && strs_eqb xs' ys'
  | _, _ => false
  end.
Definition lam_eqb_def (l : lam) (name : string) (ps : list string) (body : list sexp) : bool :=
  negb (l_place l) && String.eqb (l_name l) name && strs_eqb (l_params l) ps && sexps_eqb (l_forms l) body.
Definition g_defun (st : state) (name : string) (ps : list string) (body : list sexp) : bool :=
  match slookup name (funcs st) with
  | None => true
  | Some a =>
      (match slookup name (lambdas st) with Some c => Nat.eqb a c | None => false end)
      || (match nth_error (heap st) a with Some l => lam_eqb_def l name ps body | None => false end)
  end.
(* S's verdict is binding when it is a value or a condition other than undefined-function; when S runs out
   of fuel it says nothing *)
Definition comparable (r : res) : bool := match r with Err EUndefined => false | OutOfFuel => false | _ => true end.
Definition is_val (r : res) : bool := match r with Val _ => true | _ => false end.

(* (G1) followed along the model run *)
Fixpoint guard_forms (n : nat) (st : state) (fs : list tform) : bool :=
  match fs with
  | [] => true
  | TQuote _ :: r => guard_forms n st r
  | TForm e :: r =>
      match parse_defun e with
      | Some (nm, ps, body) => g_defun st nm ps body && guard_forms n (defunM st nm ps body) r
      | None => match evalM n st [] e with (Val _, st1) => guard_forms n st1 r | _ => true end
      end
  end.
Fixpoint guard_defs (st : state) (fs : list tform) : bool :=
  match fs with
  | [] => true
  | TForm e :: r =>
      match parse_defun e with
      | Some (nm, ps, body) => g_defun st nm ps body && guard_defs (defunM st nm ps body) r
      | None => guard_defs st r
      end
  | _ :: r => guard_defs st r
  end.
Definition guard_op (n : nat) (m : mstate) (o : op) : bool :=
  match o with
  | OLoad _ _ => true
  | OCompile cid => match nlookup cid (codes m) with Some fs => guard_defs (ms m) fs | None => true end
  | ORun cid => match nlookup cid (codes m) with Some fs => guard_forms n (set_out (ms m) []) fs | None => true end
  end.
Fixpoint guard_ops (n : nat) (m : mstate) (ops : list op) : bool :=
  match ops with
  | [] => true
  | o :: r => guard_op n m o && guard_ops n (fst (stepM n m o)) r
  end.
