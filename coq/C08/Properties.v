(* C08 — property theorems only.

   M (Model.v) is slip's mechanism (with repo_fixes/C08-1..4 applied): list objects whose slots are replaced in place
   by compiled function objects holding a pointer to a Lambda, ONE registered Lambda per name that takes every
   new definition over and that every creator hands out, placeholders for calls of functions that do not exist
   yet, Code.Compile.  S (Spec.v) evaluates the list forms as read with the definition each name has at the
   moment of the call.  `Inv st` relates the compiled slots and the two function tables of a model state;
   `Rel st ft` says the names have the definitions ft in st.
   `comparable r`: r is a value or a condition other than undefined-function (and not "out of fuel"): the domain
   on which the one-policy specification evalS is binding.  There is no guard on programs or histories any more;
   the undefined-function outcomes are covered exactly by evalL/runL, S with the lookup time of an undefined
   operator (left open by CLHS 3.1.2.1.2.3) as a parameter - section (9b). *)
From Coq Require Import List ZArith String Permutation.
From C08 Require Import Model Spec Proofs ProofsLate ProofsProgram ProofsFmak.
Import ListNotations.
Open Scope list_scope.

(* (1) Cache transparency, and compiled = list form, at the level of one evaluation: in EVERY state
   satisfying the invariant - whatever subset of the slots has been compiled, by evaluation or by
   CompileList, whatever placeholders exist - evaluating a form gives the result and the emitted values
   that S gives for the list form; and M never returns a value where S has an error. *)
Theorem C08_evaluation_refines_spec : forall ft n st en e rS oS,
  Inv st -> Rel st ft -> evalS n ft en (out st) e = (rS, oS) ->
  exists rM st', evalM n st en e = (rM, st') /\
    (comparable rS = true -> rM = rS /\ out st' = oS) /\ (is_val rS = false -> is_val rM = false).
Proof. exact evalM_sim. Qed.
Print Assumptions C08_evaluation_refines_spec.

(* (2) Evaluation rewrites slots but changes neither function table nor any Lambda, and keeps the
   invariant: the state after an evaluation is again a state to which (1) applies. *)
Theorem C08_evaluation_preserves_invariant : forall n st en e r st',
  evalM n st en e = (r, st') ->
  (heap st' = heap st /\ lambdas st' = lambdas st /\ funcs st' = funcs st) /\ (Inv st -> Inv st').
Proof. exact evalM_good. Qed.
Print Assumptions C08_evaluation_preserves_invariant.

(* (3) First evaluation = k-th evaluation, for every k: evaluating the same code again and again, each
   time in the state the previous evaluation left behind (slots rewritten), gives k times S's outcome. *)
Theorem C08_reevaluation_stable : forall k n st ft en o e rS oS,
  Inv st -> Rel st ft -> evalS n ft en o e = (rS, oS) -> comparable rS = true ->
  iterM k n st en o e = repeat (rS, oS) k.
Proof. exact reeval_stable. Qed.
Print Assumptions C08_reevaluation_stable.

(* (4) Compile-then-evaluate = evaluate the list form: with or without CompileList applied to the form
   first (which may register placeholders), the result and the emitted values are S's. *)
Theorem C08_compile_then_evaluate : forall n st ft en e rS oS,
  Inv st -> Rel st ft -> evalS n ft en (out st) e = (rS, oS) -> comparable rS = true ->
  (exists st1, evalM n st en e = (rS, st1) /\ out st1 = oS) /\
  (exists st2, evalM n (compile_slot st e) en e = (rS, st2) /\ out st2 = oS).
Proof. exact compile_transparent. Qed.
Print Assumptions C08_compile_then_evaluate.

(* (5) EVERY definition - of a new name, of a name called before (placeholder), a second or third definition -
   keeps the invariant and gives the name exactly that definition: the Lambda registered for the name takes
   the definition over - lambda list, forms and closure (`clos`: the variables of a `let` around the defun; none
   for a top-level defun, so a top-level redefinition of a function first defined inside a let drops the let's
   variables) - and is the one all compiled calls hold (no guard since repo_fixes/C08-3). *)
Theorem C08_defun_step : forall st ft name ps body clos,
  Inv st -> Rel st ft ->
  Inv (defunM st name ps body clos) /\ Rel (defunM st name ps body clos) ((name, (ps, body, clos)) :: ft) /\
  out (defunM st name ps body clos) = out st.
Proof. exact defunM_step. Qed.
Print Assumptions C08_defun_step.

(* (6) Late binding: code that has been evaluated (so its slots are compiled and hold Lambda pointers)
   sees ANY redefinition made afterwards: its next evaluation is S's with the new definition. *)
Theorem C08_redefinition_seen_by_cached_code : forall n st ft en e g ps body clos r0 st0 rS oS,
  Inv st -> Rel st ft -> evalM n st en e = (r0, st0) ->
  evalS n ((g, (ps, body, clos)) :: ft) en (out st0) e = (rS, oS) -> comparable rS = true ->
  exists st1, evalM n (defunM st0 g ps body clos) en e = (rS, st1) /\ out st1 = oS.
Proof. exact late_binding. Qed.
Print Assumptions C08_redefinition_seen_by_cached_code.

(* (6b) "A call to a not-yet-defined function still passes its arguments once the function exists":
   compile a form while g is unknown (its calls of g become placeholder calls), then define g, then
   evaluate the compiled form: S's outcome with g's definition - in particular g's
   parameters are bound to the values of the call's arguments. *)
Theorem C08_forward_reference_passes_arguments : forall n st ft en e g ps body clos rS oS,
  Inv st -> Rel st ft -> slookup g (funcs st) = None ->
  evalS n ((g, (ps, body, clos)) :: ft) en (out st) e = (rS, oS) -> comparable rS = true ->
  exists st2, evalM n (defunM (compile_slot st e) g ps body clos) en e = (rS, st2) /\ out st2 = oS.
Proof. exact forward_reference. Qed.
Print Assumptions C08_forward_reference_passes_arguments.

(* (7) Definition-order independence.  (a) in S the table after a block of definitions of distinct names
   is the same function of the set of definitions for every order, hence every later evaluation is the
   same; (b) the same for M, in EVERY state satisfying the invariant (the names may have been defined, called
   or compiled before): after the block in either order, every form evaluates to S's outcome. *)
Theorem C08_order_independent_spec : forall ds ds' ft, Permutation ds ds' -> NoDup (map fst ds) ->
  forall n en o e, evalS n (deftab ds ft) en o e = evalS n (deftab ds' ft) en o e.
Proof. exact order_independent_S. Qed.
Print Assumptions C08_order_independent_spec.
Theorem C08_order_independent : forall ds ds' st ft, Inv st -> Rel st ft ->
  Permutation ds ds' -> NoDup (map fst ds) ->
  forall n en e rS oS, evalS n (deftab ds ft) en (out st) e = (rS, oS) -> comparable rS = true ->
  exists st1 st2, evalM n (defunsM st ds) en e = (rS, st1) /\ evalM n (defunsM st ds') en e = (rS, st2) /\
                  out st1 = oS /\ out st2 = oS.
Proof. exact order_independent_M. Qed.
Print Assumptions C08_order_independent.

(* (8) Histories: EVERY sequence of {read a code object, Code.Compile it, evaluate it} - any definitions and
   redefinitions, any bodies, in any order - gives, evaluation by evaluation, S's outcome (equal where S is
   binding; never a value where S has none), from the empty state.  No guard: this is the statement that was
   refuted for the unrepaired code (C08_refinement_needs_guard_refuted, removed with repo_fixes/C08-3).
   Subsumed by (12) C08_history_refines_fmak, which has no `no_fmak` hypothesis. *)
Theorem C08_history_refines : forall n ops, no_fmak ops = true -> Forall2 osim (runS n sinit ops) (runM n minit ops).
Proof. exact history_refines. Qed.
Print Assumptions C08_history_refines.

(* (9) The witnesses of the repaired findings C08-stale-lambda-after-forward-reference and
   C08-stale-lambda-after-second-definition: M gives S's answers (2 and 3; the unrepaired code gave 1 and 2). *)
Theorem C08_stale_lambda_repaired :
  runM 50 minit stale_ops = [(Val (VInt 2%Z), [])] /\ runS 50 sinit stale_ops = [(Val (VInt 2%Z), [])] /\
  runM 50 minit stale_ops2 = [(Val (VInt 3%Z), [])] /\ runS 50 sinit stale_ops2 = [(Val (VInt 3%Z), [])].
Proof. exact stale_lambda_repaired. Qed.
Print Assumptions C08_stale_lambda_repaired.
(* (9b) The time at which an undefined operator is noticed.  CLHS 3.1.2.1.2.3 leaves open whether the definition of
   the operator of a function form is looked up before or after the evaluation of its arguments; slip's list form
   does the former, its compiled call (a call of the placeholder) the latter.  The former finding
   C08-undefined-args-first is therefore not a defect, and the specification takes the lookup time as a parameter:
   evalL late (Spec.v).  evalL with every lookup early IS evalS: *)
Theorem C08_lookup_early_is_spec : forall ft n en o e, evalL early n ft en o e = evalS n ft en o e.
Proof. exact evalL_early. Qed.
Print Assumptions C08_lookup_early_is_spec.
(* Wherever evalS is binding (`comparable`: a value or a condition other than undefined-function) the lookup time
   is irrelevant: evalL gives that outcome for EVERY policy.  So theorems (1)-(8), stated with evalS and
   `comparable`, say the same under any lookup time the language allows. *)
Theorem C08_lookup_time_irrelevant_where_binding : forall late ft n en o e r o',
  evalS n ft en o e = (r, o') -> comparable r = true -> evalL late n ft en o e = (r, o').
Proof. exact evalL_policy_irrelevant. Qed.
Print Assumptions C08_lookup_time_irrelevant_where_binding.
(* Exactness, undefined-function outcomes included: in every state satisfying the invariant, M computes exactly
   evalL for the policy `latef st` (an undefined name is noticed late iff it has a placeholder, i.e. some call of it
   has been compiled): the same result or condition - undefined-function, or the error of an argument evaluated
   before it - and the same emitted values.  Only S running out of fuel is not binding. *)
Theorem C08_evaluation_exact : forall n st ft en e rS oS, Inv st -> Rel st ft ->
  evalL (latef st) n ft en (out st) e = (rS, oS) -> binding rS = true ->
  exists st', evalM n st en e = (rS, st') /\ out st' = oS.
Proof. exact evalM_exact. Qed.
Print Assumptions C08_evaluation_exact.
(* The same for EVERY history from the empty state: under the lookup times of M's run (`pols_run`: one policy per
   evaluated top-level form; each is a choice the language allows) the specification's outcomes are exactly M's
   (oex: equal whenever S did not run out of fuel; never a value where S has none).  In particular there is an
   assignment of lookup times under which S and M agree on everything - no guard, no exempted outcome.  With
   the empty oracle runL is runS. *)
Theorem C08_history_exact : forall n ops, no_fmak ops = true ->
  Forall2 oex (runL n sinit ops (pols_run n minit ops)) (runM n minit ops).
Proof. exact history_exact. Qed.
Print Assumptions C08_history_exact.
Theorem C08_history_exact_exists : forall n ops, no_fmak ops = true -> exists pols, Forall2 oex (runL n sinit ops pols) (runM n minit ops).
Proof. exact history_exact_exists. Qed.
Print Assumptions C08_history_exact_exists.
Theorem C08_oracle_empty_is_spec : forall n ops s, runL n s ops [] = runS n s ops.
Proof. exact runL_early. Qed.
Print Assumptions C08_oracle_empty_is_spec.
(* Non-vacuity of the lookup-time parameter (the witnesses of the former finding): (nodef (emit 5)) and
   (nodef (+ 1 (list 2))), compiled (undef_ops) and as list forms (undef_ops_list): M emits 5 before
   undefined-function / signals the type-error of the argument when compiled, signals undefined-function at once
   from the list form; runL under M's lookup times says exactly that; runS says undefined-function at once. *)
Theorem C08_lookup_time_witness :
  let a1 := SList 2 [SSym "emit"; SInt 5%Z] in
  let a2 := SList 2 [SSym "+"; SInt 1%Z; SList 3 [SSym "list"; SInt 2%Z]] in
  runM 50 minit (undef_ops a1) = [(Val VNil, []); (Err EUndefined, [VInt 5%Z])] /\
  runL 50 sinit (undef_ops a1) (pols_run 50 minit (undef_ops a1)) = [(Val VNil, []); (Err EUndefined, [VInt 5%Z])] /\
  runM 50 minit (undef_ops_list a1) = [(Err EUndefined, [])] /\
  runL 50 sinit (undef_ops_list a1) (pols_run 50 minit (undef_ops_list a1)) = [(Err EUndefined, [])] /\
  runM 50 minit (undef_ops a2) = [(Val VNil, []); (Err EType, [])] /\
  runL 50 sinit (undef_ops a2) (pols_run 50 minit (undef_ops a2)) = [(Val VNil, []); (Err EType, [])] /\
  runS 50 sinit (undef_ops a1) = [(Val VNil, []); (Err EUndefined, [])] /\ runS 50 sinit (undef_ops a2) = [(Val VNil, []); (Err EUndefined, [])].
Proof. exact lookup_time_witness. Qed.
Print Assumptions C08_lookup_time_witness.

(* The witnesses of the repaired finding C08-bare-symbol-body (repo_fixes/C08-4): a bare symbol as a body form is
   a variable reference looked up at call time.  (defun f (x) v) (defun g (v) (f 0)) (defvar v 1) (g 5), the
   code object evaluated twice: [5; 5] in M as in S (the unrepaired code: [1; 5]); (defun f (x) nov) (f 0):
   unbound-variable (the unrepaired code returned the marker object). *)
Theorem C08_bare_body_symbol_repaired :
  runS 50 sinit bare_ops = [(Val (VInt 5%Z), []); (Val (VInt 5%Z), [])] /\
  runM 50 minit bare_ops = [(Val (VInt 5%Z), []); (Val (VInt 5%Z), [])] /\
  runS 50 sinit bare_ops2 = [(Err EUnbound, [])] /\ runM 50 minit bare_ops2 = [(Err EUnbound, [])].
Proof. exact bare_symbol_repaired. Qed.
Print Assumptions C08_bare_body_symbol_repaired.

(* (10b) Definitions made at compile time.  Code.Compile evaluates the top-level defun/defvar/defparameter forms in
   ONE pass in source order, so the init form of a variable sees the function definitions made so far, exactly as
   when the list forms are evaluated one after the other (C08_history_refines covers every such history; this is
   the kernel-checked witness): (defun s (n) (+ n 2)) (defparameter b (s 5)) (defun s (n) (+ n 3)) (list b (s 5))
   is (7 8) from the list form and compiled; (defvar v (later (emit 1))) (defun later ..) (list v) is
   undefined-function either way (compiled: the condition leaves Code.Compile, and again when the object is run).
   A definition replaces the closure too: after (let ((step 10)) (defun bump (n) (+ n step))) a top-level
   (defvar step 1) (defun bump (n) (+ n step)) makes (bump 1) 2, also for a caller compiled before. *)
Theorem C08_init_form_timing :
  let v78 := Val (VList [VInt 7%Z; VInt 8%Z]) in
  runM 50 minit [OLoad 0 init_forms; ORun 0] = [(v78, [])] /\
  runS 50 sinit [OLoad 0 init_forms; ORun 0] = [(v78, [])] /\
  runM 50 minit [OLoad 0 init_forms; OCompile 0; ORun 0] = [(Val VNil, []); (v78, [])] /\
  runS 50 sinit [OLoad 0 init_forms; OCompile 0; ORun 0] = [(Val VNil, []); (v78, [])] /\
  runM 50 minit [OLoad 0 init_forms2; ORun 0] = [(Err EUndefined, [])] /\
  runS 50 sinit [OLoad 0 init_forms2; ORun 0] = [(Err EUndefined, [])] /\
  runM 50 minit [OLoad 0 init_forms2; OCompile 0; ORun 0] = [(Err EUndefined, []); (Err EUndefined, [])] /\
  runS 50 sinit [OLoad 0 init_forms2; OCompile 0; ORun 0] = [(Err EUndefined, []); (Err EUndefined, [])].
Proof. exact init_form_timing. Qed.
Print Assumptions C08_init_form_timing.
Theorem C08_closure_replaced :
  runM 50 minit closure_ops = runS 50 sinit closure_ops /\
  runS 50 sinit closure_ops =
    [(Val (VInt 21%Z), []); (Val VNil, []); (Val (VList [VInt 2%Z; VInt 3%Z]), []); (Val (VInt 21%Z), [])].
Proof. exact closure_replaced. Qed.
Print Assumptions C08_closure_replaced.

(* (10c) fmakunbound as an operation of the histories (OFmak).  Since repo_fixes/C08-5 (fmakunbound turns the
   registered Lambda into the Lambda of an undefined function) and C08-6 (CompileList reuses a registered Lambda)
   M follows S after a fmakunbound: the witnesses of the repaired findings C08-fmakunbound-compiled-caller and
   C08-fmakunbound-orphaned-callers - a caller compiled earlier signals undefined-function while the name is
   unbound (was 1), a call compiled meanwhile and the earlier caller both follow the next definition ((2 2), was
   (1 2)), and the redefinition at once is seen by the old caller (2).  The correspondence compares every outcome
   of every history with S.  (8) and (9b) are stated for histories without OFmak (`no_fmak`); (12) at the end of this
   file proves the refinement (8) for every history with OFmak, (12b) shows that the exactness (9b) does not extend. *)
Theorem C08_fmakunbound_repaired :
  runM 50 minit fmak_ops1 = [(Val (VSym "h"), []); (Err EUndefined, [])] /\
  runS 50 sinit fmak_ops1 = [(Val (VSym "h"), []); (Err EUndefined, [])] /\
  runM 50 minit fmak_ops2 = [(Val (VSym "h"), []); (Val (VList [VInt 2%Z; VInt 2%Z]), [])] /\
  runS 50 sinit fmak_ops2 = [(Val (VSym "h"), []); (Val (VList [VInt 2%Z; VInt 2%Z]), [])] /\
  runM 50 minit fmak_ops3 = [(Val (VSym "h"), []); (Val (VInt 2%Z), [])] /\
  runS 50 sinit fmak_ops3 = [(Val (VSym "h"), []); (Val (VInt 2%Z), [])].
Proof. exact fmak_repaired. Qed.
Print Assumptions C08_fmakunbound_repaired.

(* (11) The property for whole programs.  A program = a block of function definitions es (distinct names, `defs_are
   es ds`) followed by main forms (at least one; none of them a definition); `prog cid es mains cmp k` = read it
   into a code object, Code.Compile it or not (cmp), evaluate it k times.  `meaning n ds mains ft gv` = the main forms
   evaluated by S with the definitions ds on top of the table ft.
   S: every evaluation of the code object - compiled or not, first or k-th - has that meaning, and the meaning
   does not depend on the order of the definitions. *)
Theorem C08_program_meaning_spec : forall n es mains ds, defs_are es ds -> Forall plain mains -> mains <> [] ->
  forall s cid cmp k, runS n s (prog cid es mains cmp k) =
    (if cmp then [(Val VNil, [])] else []) ++ repeat (meaning n ds mains (sft s) (sgv s)) k.
Proof. exact program_meaning_S. Qed.
Print Assumptions C08_program_meaning_spec.
Theorem C08_program_order_spec : forall n ds ds' mains ft gv, Permutation ds ds' -> NoDup (map fst ds) ->
  meaning n ds mains ft gv = meaning n ds' mains ft gv.
Proof. exact program_order_S. Qed.
Print Assumptions C08_program_order_spec.
(* M: in ANY state related to S's (whatever has been defined, called, compiled or redefined before), the program
   with its definitions in one order, compiled or not, evaluated k times, and the program with its definitions in
   any other order, compiled or not, evaluated k' times, give at EVERY evaluation the same outcome, S's meaning
   (`expected`: nil for Code.Compile itself when the program is compiled, then k times `meaning`)
   (where that is a value or a condition other than undefined-function; those outcomes are covered by (9b)).
   This is "a program means the same whether a function is defined before or after the functions that call it,
   whether its code was pre-compiled or is evaluated from the list form, and whether it is evaluated for the first
   or the hundredth time" for every program of the modelled language; no guard. *)
Theorem C08_program_meaning_invariant : forall n m s es es' ds ds' mains cid cid' cmp cmp' k k',
  HInv m s -> defs_are es ds -> defs_are es' ds' -> Permutation ds ds' -> NoDup (map fst ds) ->
  Forall plain mains -> mains <> [] ->
  comparable (fst (meaning n ds mains (sft s) (sgv s))) = true ->
  runM n m (prog cid es mains cmp k) = expected n ds mains s cmp k /\
  runM n m (prog cid' es' mains cmp' k') = expected n ds mains s cmp' k'.
Proof. exact program_meaning_M. Qed.
Print Assumptions C08_program_meaning_invariant.
(* the hypotheses are satisfiable: caller before callee evaluated once uncompiled, callee before caller compiled and
   evaluated three times: (7 2) with 2 emitted, every time *)
Theorem C08_program_demo :
  defs_are [pd_caller; pd_callee] pd_ds /\ defs_are [pd_callee; pd_caller] (rev pd_ds) /\
  Permutation pd_ds (rev pd_ds) /\ NoDup (map fst pd_ds) /\ Forall plain pd_mains /\ pd_mains <> [] /\
  meaning 50 pd_ds pd_mains [] [] = (Val (VList [VInt 7%Z; VInt 2%Z]), [VInt 2%Z]) /\
  runM 50 minit (prog 0 [pd_caller; pd_callee] pd_mains false 1) = expected 50 pd_ds pd_mains sinit false 1 /\
  runM 50 minit (prog 0 [pd_callee; pd_caller] pd_mains true 3) = expected 50 pd_ds pd_mains sinit true 3.
Proof. exact program_demo. Qed.
Print Assumptions C08_program_demo.

(* (10) The invariant holds initially; the hypotheses are satisfiable in a non-trivial reachable state
   (forward reference patched, compiled slots holding both the registered and a newer Lambda). *)
Theorem C08_invariant_init : Inv init.
Proof. exact Inv_init. Qed.
Print Assumptions C08_invariant_init.

(* (12) Histories WITH fmakunbound.  EVERY sequence of {read a code object, Code.Compile it, evaluate it,
   (fmakunbound 'name)} - any definitions, redefinitions and un-definitions, in any order - gives, evaluation by
   evaluation and compilation by compilation, S's outcome (equal where S is binding; never a value where S has none),
   from the empty state.  No hypothesis on the history: this subsumes C08_history_refines (8), which is kept.  In
   property terms: a caller compiled before a (fmakunbound 'f) signals undefined-function while f is unbound and
   follows the next definition of f, exactly like the list form - for every program of the modelled language.
   Proved over a weaker invariant (ProofsFmak.v, FM.Inv: a compiled call may hold the registered Lambda of a name
   without a creator, which is then a placeholder). *)
Theorem C08_history_refines_fmak : forall n ops, Forall2 osim (runS n sinit ops) (runM n minit ops).
Proof. exact history_refines_fmak. Qed.
Print Assumptions C08_history_refines_fmak.
(* (12a) The state-level statements behind (12), over the weaker invariant `FM.Inv true` (implied by `Inv`; a compiled
   call may hold the registered Lambda of a name that has no creator, which is then the Lambda of an undefined
   function): evaluation refines S and keeps tables and invariant ((1), (2) in the states reached WITH fmakunbound);
   every defun keeps it and installs its definition ((5)); (fmakunbound 'name) keeps it and removes exactly the
   definition of name - for every caller, compiled before or not - and nothing else. *)
Theorem C08_invariant_weaker : forall orph st, Inv st -> FM.Inv orph st.
Proof. exact Inv_weaker. Qed.
Print Assumptions C08_invariant_weaker.
Theorem C08_evaluation_refines_spec_fmak : forall ft n st en e rS oS,
  FM.Inv true st -> Rel st ft -> evalS n ft en (out st) e = (rS, oS) ->
  exists rM st', evalM n st en e = (rM, st') /\
    (comparable rS = true -> rM = rS /\ out st' = oS) /\ (is_val rS = false -> is_val rM = false).
Proof. exact evalM_sim_fmak. Qed.
Print Assumptions C08_evaluation_refines_spec_fmak.
Theorem C08_evaluation_preserves_invariant_fmak : forall n st en e r st', evalM n st en e = (r, st') ->
  (heap st' = heap st /\ lambdas st' = lambdas st /\ funcs st' = funcs st) /\ (FM.Inv true st -> FM.Inv true st').
Proof. exact evalM_good_fmak. Qed.
Print Assumptions C08_evaluation_preserves_invariant_fmak.
Theorem C08_defun_step_fmak : forall st ft name ps body clos, FM.Inv true st -> Rel st ft ->
  FM.Inv true (defunM st name ps body clos) /\ Rel (defunM st name ps body clos) ((name, (ps, body, clos)) :: ft) /\
  out (defunM st name ps body clos) = out st.
Proof. exact defunM_step_fmak. Qed.
Print Assumptions C08_defun_step_fmak.
Theorem C08_fmakunbound_step : forall st ft name, FM.Inv true st -> Rel st ft ->
  FM.Inv true (fmakM st name) /\ Rel (fmakM st name) (sremove name ft) /\ out (fmakM st name) = out st.
Proof. exact fmakM_step_fmak. Qed.
Print Assumptions C08_fmakunbound_step.
(* (12b) The EXACTNESS theorems (9b) C08_history_exact / C08_history_exact_exists do NOT extend to histories with
   fmakunbound, and this is a fact about the per-name lookup-time oracle of runL, not a defect of slip: after
   (fmakunbound 'h) a call of h compiled earlier evaluates its arguments before undefined-function is signalled,
   a call of h still in list form signals at once (both allowed by CLHS 3.1.2.1.2.3), so the lookup time differs
   between call sites of the SAME name.  Witness 1 ((defun h (x) 1); (h (emit 5)) compiled; fmakunbound; run): M
   emits 5, runL under the lookup times read off M's state (h has no creator: early) emits nothing.  Witness 2
   ((h (emit 1) (if t (h (emit 5) 0) 0)) compiled - the arguments of `if` stay list forms -; fmakunbound; run): M
   emits 1 only; runL emits nothing or 1 and 5 under EVERY list of per-name policies.  `no_fmak` in (9b) excludes
   both, and so does the weaker hypothesis of (12c); what the undefined-function outcomes of the remaining histories
   satisfy is (12): never a value, and equal to S wherever S is binding. *)
Theorem C08_history_exact_fmak_refuted :
  runM 10 minit fx_ops1 = [(Val (VSym "h"), []); (Val VNil, []); (Err EUndefined, [VInt 5%Z])] /\
  runL 10 sinit fx_ops1 (pols_run 10 minit fx_ops1) = [(Val (VSym "h"), []); (Val VNil, []); (Err EUndefined, [])] /\
  ~ Forall2 oex (runL 10 sinit fx_ops1 (pols_run 10 minit fx_ops1)) (runM 10 minit fx_ops1).
Proof. exact history_exact_fmak_refuted. Qed.
Print Assumptions C08_history_exact_fmak_refuted.
Theorem C08_history_exact_exists_fmak_refuted :
  runM 10 minit fx_ops2 = [(Val (VSym "h"), []); (Val VNil, []); (Err EUndefined, [VInt 1%Z])] /\
  forall pols, ~ Forall2 oex (runL 10 sinit fx_ops2 pols) (runM 10 minit fx_ops2).
Proof. exact history_exact_exists_fmak_refuted. Qed.
Print Assumptions C08_history_exact_exists_fmak_refuted.
(* (12c) Exactness under the weakest hypothesis found that excludes the witnesses of (12b): `fmak_clean n minit ops` -
   along M's run, every (fmakunbound 'name) happens while NO slot holds a compiled call of name (the name was only
   ever called from top-level list forms, or not at all).  Then every call site of an unbound name is a list form
   or holds a placeholder made by CompileList, the lookup time is again a function of the name, and M's outcomes
   are exactly runL's under the lookup times of M's run - undefined-function outcomes and the values emitted before
   them included.  `no_fmak ops` implies `fmak_clean` (C08_no_fmak_clean), so these subsume C08_history_exact and
   C08_history_exact_exists (kept).  FULL statement (exactness for EVERY history) is false for the per-name oracle
   (12b); it needs a lookup time per call site in evalL - left open.  The hypothesis is satisfiable with OFmak and
   rejects both witnesses (C08_fmak_clean_demo). *)
Theorem C08_history_exact_fmak : forall n ops, fmak_clean n minit ops = true ->
  Forall2 oex (runL n sinit ops (pols_run n minit ops)) (runM n minit ops).
Proof. exact history_exact_fmak. Qed.
Print Assumptions C08_history_exact_fmak.
Theorem C08_history_exact_exists_fmak : forall n ops, fmak_clean n minit ops = true ->
  exists pols, Forall2 oex (runL n sinit ops pols) (runM n minit ops).
Proof. exact history_exact_exists_fmak. Qed.
Print Assumptions C08_history_exact_exists_fmak.
Theorem C08_no_fmak_clean : forall n ops m, no_fmak ops = true -> fmak_clean n m ops = true.
Proof. exact no_fmak_clean. Qed.
Print Assumptions C08_no_fmak_clean.
Theorem C08_fmak_clean_demo :
  fmak_clean 10 minit fx_ops3 = true /\ no_fmak fx_ops3 = false /\
  runM 10 minit fx_ops3 = [(Val (VInt 1%Z), []); (Err EUndefined, []); (Val (VInt 1%Z), []); (Val (VInt 1%Z), [VInt 5%Z])] /\
  fmak_clean 10 minit fx_ops1 = false /\ fmak_clean 10 minit fx_ops2 = false.
Proof. exact fmak_clean_demo. Qed.
Print Assumptions C08_fmak_clean_demo.
(* (12d) The remaining state-level and program-level theorems - (3) k-th evaluation = first, (4) compile-then-evaluate,
   (6) a redefinition is seen by cached code, (6b) forward references pass their arguments, (7b) order independence
   of a block of definitions, (11) the program-level statement - over the weaker invariant, i.e. ALSO in every state
   reached by a history with fmakunbound (C08_history_invariant_fmak: `FM.HInv true` holds after every history from
   the empty state).  In property terms: after any sequence of definitions, compilations, evaluations and
   un-definitions, a program means the same whatever the order of its definitions, compiled or not, first or k-th
   evaluation.  These subsume (3), (4), (6), (6b), (7b), (11) by C08_invariant_weaker; the older ones are kept. *)
Theorem C08_reevaluation_stable_fmak : forall k n st ft en o e rS oS,
  FM.Inv true st -> Rel st ft -> evalS n ft en o e = (rS, oS) -> comparable rS = true ->
  iterM k n st en o e = repeat (rS, oS) k.
Proof. exact reeval_stable_fmak. Qed.
Print Assumptions C08_reevaluation_stable_fmak.
Theorem C08_compile_then_evaluate_fmak : forall n st ft en e rS oS,
  FM.Inv true st -> Rel st ft -> evalS n ft en (out st) e = (rS, oS) -> comparable rS = true ->
  (exists st1, evalM n st en e = (rS, st1) /\ out st1 = oS) /\
  (exists st2, evalM n (compile_slot st e) en e = (rS, st2) /\ out st2 = oS).
Proof. exact compile_transparent_fmak. Qed.
Print Assumptions C08_compile_then_evaluate_fmak.
Theorem C08_redefinition_seen_by_cached_code_fmak : forall n st ft en e g ps body clos r0 st0 rS oS,
  FM.Inv true st -> Rel st ft -> evalM n st en e = (r0, st0) ->
  evalS n ((g, (ps, body, clos)) :: ft) en (out st0) e = (rS, oS) -> comparable rS = true ->
  exists st1, evalM n (defunM st0 g ps body clos) en e = (rS, st1) /\ out st1 = oS.
Proof. exact late_binding_fmak. Qed.
Print Assumptions C08_redefinition_seen_by_cached_code_fmak.
Theorem C08_forward_reference_passes_arguments_fmak : forall n st ft en e g ps body clos rS oS,
  FM.Inv true st -> Rel st ft -> slookup g (funcs st) = None ->
  evalS n ((g, (ps, body, clos)) :: ft) en (out st) e = (rS, oS) -> comparable rS = true ->
  exists st2, evalM n (defunM (compile_slot st e) g ps body clos) en e = (rS, st2) /\ out st2 = oS.
Proof. exact forward_reference_fmak. Qed.
Print Assumptions C08_forward_reference_passes_arguments_fmak.
Theorem C08_order_independent_fmak : forall ds ds' st ft, FM.Inv true st -> Rel st ft ->
  Permutation ds ds' -> NoDup (map fst ds) ->
  forall n en e rS oS, evalS n (deftab ds ft) en (out st) e = (rS, oS) -> comparable rS = true ->
  exists st1 st2, evalM n (defunsM st ds) en e = (rS, st1) /\ evalM n (defunsM st ds') en e = (rS, st2) /\
                  out st1 = oS /\ out st2 = oS.
Proof. exact order_independent_fmak. Qed.
Print Assumptions C08_order_independent_fmak.
Theorem C08_program_meaning_invariant_fmak : forall n m s es es' ds ds' mains cid cid' cmp cmp' k k',
  FM.HInv true m s -> defs_are es ds -> defs_are es' ds' -> Permutation ds ds' -> NoDup (map fst ds) ->
  Forall plain mains -> mains <> [] ->
  comparable (fst (meaning n ds mains (sft s) (sgv s))) = true ->
  runM n m (prog cid es mains cmp k) = expected n ds mains s cmp k /\
  runM n m (prog cid' es' mains cmp' k') = expected n ds mains s cmp' k'.
Proof. exact program_meaning_fmak. Qed.
Print Assumptions C08_program_meaning_invariant_fmak.
Theorem C08_history_invariant_fmak : forall n ops,
  FM.HInv true (fold_left (fun m o => fst (stepM n m o)) ops minit) (fold_left (fun s o => fst (stepS n s o)) ops sinit).
Proof. exact HInv_reachable_init. Qed.
Print Assumptions C08_history_invariant_fmak.

(* ---- Round 5: functions inherited from a used package (model coq/C08/Inherit.v) ------------------------- *)
From C08 Require Import Inherit InheritProofs.
(* (11) In the model of Package.DefLambda / Export / CompileList with per-package function tables (FuncInfo records
   shared with the using packages) and per-package Lambda tables: no operation, hence no history of definitions
   through any package, compilations and calls, ever replaces the Lambda registered for a function (home, name):
   at most ONE Lambda per function is ever registered, so every creator hands out the same one. *)
Theorem C08_inherit_registration_stable : forall ops st h f l,
  lams st h f = Some l -> lams (irun_st st ops) h f = Some l.
Proof. exact reg_stable_run. Qed.
Print Assumptions C08_inherit_registration_stable.
(* (12) Every defun, in ANY state and through ANY package p (the function's own package or one that inherits it),
   leaves p with a FuncInfo whose creator hands out the Lambda registered in the function's HOME package - also
   when the home package had no Lambda for it (a function written in go) -, and that Lambda holds the new
   definition. *)
Theorem C08_inherit_defun_step : forall st p f v,
  let st' := fst (istep st (IDefun p f v)) in
  exists i l, funcs st' p f = Some i /\ fcreate st' i = CLam l /\
              lams st' (fpkg st' i) f = Some l /\ heap st' l = BVal v /\ fpkg st' i = home st p f.
Proof. exact defun_hands_out_registered. Qed.
Print Assumptions C08_inherit_defun_step.
(* (13) A call compiled after a defun through the same package holds the Lambda registered for the function. *)
Theorem C08_inherit_compile_after_defun : forall st p f v c,
  let st1 := fst (istep st (IDefun p f v)) in
  let st2 := fst (istep st1 (ICompile p c f)) in
  exists l, callers st2 c = Some (TLam l) /\ lams st2 (home st p f) f = Some l.
Proof. exact compile_after_defun. Qed.
Print Assumptions C08_inherit_compile_after_defun.
(* (14) Late binding through inheritance: a compiled caller that holds the Lambda registered for (h, f) runs,
   after ANY history in between (that does not recompile the caller), the definition made by the next defun through
   any package that sees the function.
   FULL statement (not proved, hence _partial): for every history inside the guard (no caller compiled while
   the function was still the one written in go) the model's outcomes equal the specification's (srun: each
   caller runs the latest definition of the function its operator denoted). Missing: the simulation invariant
   tying FuncInfo creators, Lambda tables and S's definition table together over whole histories; per run the
   correspondence InheritCorr.icheck_case compares M with S on every generated history (self-check code 3). *)
Theorem C08_inherit_caller_follows_latest_partial : forall st c l h f ops p v,
  callers st c = Some (TLam l) -> lams st h f = Some l -> no_recompile c ops = true ->
  home (irun_st st ops) p f = h ->
  snd (istep (fst (istep (irun_st st ops) (IDefun p f v))) (ICall c)) = Some (RVal v).
Proof. exact caller_follows_latest. Qed.
Print Assumptions C08_inherit_caller_follows_latest_partial.
(* the seed's history - a function written in go in the library, redefined three times through two using packages,
   callers compiled in between - in M and S: every caller follows every redefinition *)
Theorem C08_inherit_redefined_twice :
  irun (iinit gof1) twice_ops = [RVal 10; RVal 100; RVal 100; RVal 1000; RVal 1000] /\
  srun (sinit_i gof1) twice_ops = map (fun r => (r, true)) (irun (iinit gof1) twice_ops).
Proof. exact inherit_redefined_twice. Qed.
Print Assumptions C08_inherit_redefined_twice.
(* known finding C08-go-caller-stale: a call compiled while the function is still the one written in go keeps
   the go function object; the unchanged code (model and implementation) returns the go function's result after
   the redefinition where S demands the new definition's *)
Theorem C08_inherit_go_caller_refuted :
  irun (iinit gof1) stale_ops = [RGo; RGo] /\
  srun (sinit_i gof1) stale_ops = [(RGo, true); (RVal 7, false)].
Proof. exact inherit_go_caller_refuted. Qed.
Print Assumptions C08_inherit_go_caller_refuted.
