(* C08 — property theorems only. *)
From C08 Require Import Model Spec Proofs.
Theorem C08_placeholder : True.
Proof. exact placeholder_true. Qed.
Print Assumptions C08_placeholder.
