(* C08 — property theorems only.

   M (Model.v) is slip's mechanism: list objects whose slots are replaced in place by compiled function
   objects holding a pointer to a Lambda, Lambdas patched in place by defun, placeholders for calls of
   functions that do not exist yet, Code.Compile.  S (Spec.v) evaluates the list forms as read with the
   definition each name has at the moment of the call.  `Inv st` relates the compiled slots and the two
   function tables of a model state; `Rel st ft` says the names have the definitions ft in st.
   `comparable r`: r is a value or a condition other than undefined-function (and not "out of fuel"). *)
From Coq Require Import List ZArith String Permutation.
From C08 Require Import Model Spec Proofs.
Import ListNotations.

(* (1) Cache transparency, and compiled = list form, at the level of one evaluation: in EVERY state
   satisfying the invariant - whatever subset of the slots has been compiled, by evaluation or by
   CompileList, whatever placeholders exist - evaluating a form gives the result and the emitted values
   that S gives for the list form; and M never returns a value where S has an error. *)
Theorem C08_evaluation_refines_spec : forall ft n st en e rS oS,
  Inv st -> Rel st ft -> evalS n ft en (out st) e = (rS, oS) ->
  exists rM st', evalM n st en e = (rM, st') /\
    (comparable rS = true -> rM = rS /\ out st' = oS) /\ (is_val rS = false -> is_val rM = false).
Proof. exact evalM_sim. Qed.
Print Assumptions C08_evaluation_refines_spec.

(* (2) Evaluation rewrites slots but changes neither function table nor any Lambda, and keeps the
   invariant: the state after an evaluation is again a state to which (1) applies. *)
Theorem C08_evaluation_preserves_invariant : forall n st en e r st',
  evalM n st en e = (r, st') ->
  (heap st' = heap st /\ lambdas st' = lambdas st /\ funcs st' = funcs st) /\ (Inv st -> Inv st').
Proof. exact evalM_good. Qed.
Print Assumptions C08_evaluation_preserves_invariant.

(* (3) First evaluation = k-th evaluation, for every k: evaluating the same code again and again, each
   time in the state the previous evaluation left behind (slots rewritten), gives k times S's outcome. *)
Theorem C08_reevaluation_stable : forall k n st ft en o e rS oS,
  Inv st -> Rel st ft -> evalS n ft en o e = (rS, oS) -> comparable rS = true ->
  iterM k n st en o e = repeat (rS, oS) k.
Proof. exact reeval_stable. Qed.
Print Assumptions C08_reevaluation_stable.

(* (4) Compile-then-evaluate = evaluate the list form: with or without CompileList applied to the form
   first (which may register placeholders), the result and the emitted values are S's. *)
Theorem C08_compile_then_evaluate : forall n st ft en e rS oS,
  Inv st -> Rel st ft -> evalS n ft en (out st) e = (rS, oS) -> comparable rS = true ->
  (exists st1, evalM n st en e = (rS, st1) /\ out st1 = oS) /\
  (exists st2, evalM n (compile_slot st e) en e = (rS, st2) /\ out st2 = oS).
Proof. exact compile_transparent. Qed.
Print Assumptions C08_compile_then_evaluate.

(* (5) EVERY definition - of a new name, of a name called before (placeholder), a second or third definition -
   keeps the invariant and gives the name exactly that definition: the Lambda registered for the name takes
   the definition over and is the one all compiled calls hold (no guard since repo_fixes/C08-3). *)
Theorem C08_defun_step : forall st ft name ps body,
  Inv st -> Rel st ft ->
  Inv (defunM st name ps body) /\ Rel (defunM st name ps body) ((name, (ps, body)) :: ft) /\
  out (defunM st name ps body) = out st.
Proof. exact defunM_step. Qed.
Print Assumptions C08_defun_step.

(* (6) Late binding: code that has been evaluated (so its slots are compiled and hold Lambda pointers)
   sees ANY redefinition made afterwards: its next evaluation is S's with the new definition. *)
Theorem C08_redefinition_seen_by_cached_code : forall n st ft en e g ps body r0 st0 rS oS,
  Inv st -> Rel st ft -> evalM n st en e = (r0, st0) ->
  evalS n ((g, (ps, body)) :: ft) en (out st0) e = (rS, oS) -> comparable rS = true ->
  exists st1, evalM n (defunM st0 g ps body) en e = (rS, st1) /\ out st1 = oS.
Proof. exact late_binding. Qed.
Print Assumptions C08_redefinition_seen_by_cached_code.

(* (6b) "A call to a not-yet-defined function still passes its arguments once the function exists":
   compile a form while g is unknown (its calls of g become placeholder calls), then define g (always
   inside the guard), then evaluate the compiled form: S's outcome with g's definition - in particular g's
   parameters are bound to the values of the call's arguments. *)
Theorem C08_forward_reference_passes_arguments : forall n st ft en e g ps body rS oS,
  Inv st -> Rel st ft -> slookup g (funcs st) = None ->
  evalS n ((g, (ps, body)) :: ft) en (out st) e = (rS, oS) -> comparable rS = true ->
  exists st2, evalM n (defunM (compile_slot st e) g ps body) en e = (rS, st2) /\ out st2 = oS.
Proof. exact forward_reference. Qed.
Print Assumptions C08_forward_reference_passes_arguments.

(* (7) Definition-order independence.  (a) in S the table after a block of definitions of distinct names
   is the same function of the set of definitions for every order, hence every later evaluation is the
   same; (b) the same for M, in EVERY state satisfying the invariant (the names may have been defined, called
   or compiled before): after the block in either order, every form evaluates to S's outcome. *)
Theorem C08_order_independent_spec : forall ds ds' ft, Permutation ds ds' -> NoDup (map fst ds) ->
  forall n en o e, evalS n (deftab ds ft) en o e = evalS n (deftab ds' ft) en o e.
Proof. exact order_independent_S. Qed.
Print Assumptions C08_order_independent_spec.
Theorem C08_order_independent : forall ds ds' st ft, Inv st -> Rel st ft ->
  Permutation ds ds' -> NoDup (map fst ds) ->
  forall n en e rS oS, evalS n (deftab ds ft) en (out st) e = (rS, oS) -> comparable rS = true ->
  exists st1 st2, evalM n (defunsM st ds) en e = (rS, st1) /\ evalM n (defunsM st ds') en e = (rS, st2) /\
                  out st1 = oS /\ out st2 = oS.
Proof. exact order_independent_M. Qed.
Print Assumptions C08_order_independent.

(* (8) Histories: EVERY sequence of {read a code object, Code.Compile it, evaluate it} - any definitions and
   redefinitions, any bodies, in any order - gives, evaluation by evaluation, S's outcome (equal where S is
   binding; never a value where S has none), from the empty state.  No guard: this is the statement that was
   refuted for the unrepaired code (C08_refinement_needs_guard_refuted, removed with repo_fixes/C08-3). *)
Theorem C08_history_refines : forall n ops, Forall2 osim (runS n sinit ops) (runM n minit ops).
Proof. exact history_refines. Qed.
Print Assumptions C08_history_refines.

(* (9) The witnesses of the repaired findings C08-stale-lambda-after-forward-reference and
   C08-stale-lambda-after-second-definition: M gives S's answers (2 and 3; the unrepaired code gave 1 and 2). *)
Theorem C08_stale_lambda_repaired :
  runM 50 minit stale_ops = [(Val (VInt 2%Z), [])] /\ runS 50 sinit stale_ops = [(Val (VInt 2%Z), [])] /\
  runM 50 minit stale_ops2 = [(Val (VInt 3%Z), [])] /\ runS 50 sinit stale_ops2 = [(Val (VInt 3%Z), [])].
Proof. exact stale_lambda_repaired. Qed.
Print Assumptions C08_stale_lambda_repaired.
(* C08-undefined-args-first: a compiled call of an undefined function evaluates its arguments before
   signalling undefined-function (the list form signals first), so M = S cannot be claimed for outcomes
   where S says undefined-function. *)
Theorem C08_undefined_call_equal_refuted :
  ~ (forall n ops, runM n minit ops = runS n sinit ops).
Proof. exact undefined_call_equal_refuted. Qed.
Print Assumptions C08_undefined_call_equal_refuted.

(* The witnesses of the repaired finding C08-bare-symbol-body (repo_fixes/C08-4): a bare symbol as a body form is
   a variable reference looked up at call time.  (defun f (x) v) (defun g (v) (f 0)) (defvar v 1) (g 5), the
   code object evaluated twice: [5; 5] in M as in S (the unrepaired code: [1; 5]); (defun f (x) nov) (f 0):
   unbound-variable (the unrepaired code returned the marker object). *)
Theorem C08_bare_body_symbol_repaired :
  runS 50 sinit bare_ops = [(Val (VInt 5%Z), []); (Val (VInt 5%Z), [])] /\
  runM 50 minit bare_ops = [(Val (VInt 5%Z), []); (Val (VInt 5%Z), [])] /\
  runS 50 sinit bare_ops2 = [(Err EUnbound, [])] /\ runM 50 minit bare_ops2 = [(Err EUnbound, [])].
Proof. exact bare_symbol_repaired. Qed.
Print Assumptions C08_bare_body_symbol_repaired.

(* (10) The invariant holds initially; the hypotheses are satisfiable in a non-trivial reachable state
   (forward reference patched, compiled slots holding both the registered and a newer Lambda). *)
Theorem C08_invariant_init : Inv init.
Proof. exact Inv_init. Qed.
Print Assumptions C08_invariant_init.
