(* C08 - the property at the level of whole programs.  A program is a block of function definitions (distinct
   names) followed by main forms.  Its meaning - the result or condition and the emitted values of every
   evaluation of its code object - is the same
     - for every order of the definitions,
     - whether the code object is compiled (Code.Compile) before it is evaluated or not,
     - for the first, second, ... k-th evaluation of the same code object,
   in S (program_meaning_S, program_order_S) and, wherever S is binding, in M started in ANY state related to
   S's (program_meaning_M): whatever has been defined, called, compiled or redefined before. *)
From Coq Require Import List ZArith String Bool Arith Lia Permutation.
From C08 Require Import Model Spec Proofs.
Import ListNotations.
Open Scope list_scope.

(* e is a top-level defun form (no closure) making the definition d *)
Definition is_def (e : sexp) (d : string * def) : Prop :=
  parse_defun e = Some (fst d, fst (fst (snd d)), snd (fst (snd d))) /\ snd (snd d) = [].
Definition defs_are (es : list sexp) (ds : list (string * def)) : Prop := Forall2 is_def es ds.
(* a main form: neither defun, nor let around a defun, nor defvar/defparameter *)
Definition plain (e : sexp) : Prop := parse_defun e = None /\ parse_letdefun e = None /\ parse_gdef e = None.

(* plain forms one after the other: the value of the last; the first condition ends the evaluation *)
Fixpoint eval_forms (n : nat) (ft : ftab) (gv : env) (o : list value) (es : list sexp) (lastv : value) : res * list value :=
  match es with
  | [] => (Val lastv, o)
  | e :: r => match evalS n ft gv o e with (Val v, o1) => eval_forms n ft gv o1 r v | x => x end
  end.

Lemma run_plain : forall n es ft gv o v, Forall plain es ->
  run_formsS n ft gv o (map TForm es) v = (fst (eval_forms n ft gv o es v), snd (eval_forms n ft gv o es v), ft, gv).
Proof.
  intros n. induction es as [|e r IH]; simpl; intros ft gv o v F; auto.
  inversion F as [|? ? [PD [PL PG]] F']; subst. rewrite PD, PL, PG.
  destruct (evalS n ft gv o e) as [[w|er|] o1]; simpl; auto.
Qed.
Definition last_name (ds : list (string * def)) (v : value) : value := fold_left (fun _ d => VSym (fst d)) ds v.
Lemma run_defs : forall n es ds, defs_are es ds -> forall ft gv o rest v,
  run_formsS n ft gv o (map TForm es ++ rest) v = run_formsS n (deftab ds ft) gv o rest (last_name ds v).
Proof.
  intros n es ds D. induction D as [|e [nm [[ps body] clos]] es ds [HD HC] D IH]; simpl; intros ft gv o rest v; auto.
  simpl in HD, HC. subst clos. rewrite HD. apply IH.
Qed.
Lemma eval_forms_lastv : forall n ft gv o es v v', es <> [] -> eval_forms n ft gv o es v = eval_forms n ft gv o es v'.
Proof. intros n ft gv o es v v' NE. destruct es as [|e r]; [congruence|reflexivity]. Qed.
Lemma eval_forms_ext : forall n ft ft' gv, (forall f, slookup f ft = slookup f ft') ->
  forall es o v, eval_forms n ft gv o es v = eval_forms n ft' gv o es v.
Proof.
  intros n ft ft' gv H. induction es as [|e r IH]; simpl; intros o v; auto.
  rewrite (evalS_ext ft ft' H). destruct (evalS n ft' gv o e) as [[w|er|] o1]; auto.
Qed.
Lemma compile_program : forall n es ds, defs_are es ds -> forall mains ft gv o, Forall plain mains ->
  compile_defsS n ft gv o (map TForm es ++ map TForm mains) =
    (Val VNil, o, deftab ds ft, gv, map TQuote (map fst ds) ++ map TForm mains).
Proof.
  intros n es ds D. induction D as [|e [nm [[ps body] clos]] es ds [HD HC] D IH]; simpl; intros mains ft gv o F.
  - induction F as [|e r [PD [PL PG]] F IHF]; simpl; auto. rewrite PD, PL, PG, IHF. reflexivity.
  - simpl in HD, HC. subst clos. rewrite HD. rewrite (IH mains _ gv o F). reflexivity.
Qed.
Lemma run_quotes : forall n names ft gv o rest v,
  run_formsS n ft gv o (map TQuote names ++ rest) v = run_formsS n ft gv o rest (fold_left (fun _ nm => VSym nm) names v).
Proof. intros n. induction names as [|nm r IH]; simpl; intros; auto. Qed.

(* making the same block of definitions again does not change what any name means *)
Lemma deftab_twice : forall ds X f, slookup f (deftab ds (deftab ds X)) = slookup f (deftab ds X).
Proof.
  intros ds X f. rewrite !deftab_rev, !slookup_app. destruct (slookup f (rev ds)); reflexivity.
Qed.
Lemma deftab_cong : forall ds X Y, (forall f, slookup f X = slookup f Y) ->
  forall f, slookup f (deftab ds X) = slookup f (deftab ds Y).
Proof. intros ds X Y H f. rewrite !deftab_rev, !slookup_app. destruct (slookup f (rev ds)); auto. Qed.

Definition prog (cid : nat) (es mains : list sexp) (cmp : bool) (k : nat) : list op :=
  OLoad cid (es ++ mains) :: (if cmp then [OCompile cid] else []) ++ repeat (ORun cid) k.
(* what the program means: the main forms evaluated with the definitions of the block on top of the table *)
Definition meaning (n : nat) (ds : list (string * def)) (mains : list sexp) (ft : ftab) (gv : env) : obs :=
  eval_forms n (deftab ds ft) gv [] mains VNil.

Section Program.
  Variable n : nat.
  Variables (es mains : list sexp) (ds : list (string * def)).
  Hypothesis D : defs_are es ds.
  Hypothesis PL : Forall plain mains.
  Hypothesis NE : mains <> [].

  Lemma runs_uncompiled : forall cid T k s1,
    nlookup cid (scodes s1) = Some (map TForm es ++ map TForm mains) ->
    (forall f, slookup f (deftab ds (sft s1)) = slookup f T) ->
    runS n s1 (repeat (ORun cid) k) = repeat (eval_forms n T (sgv s1) [] mains VNil) k.
  Proof.
    intros cid T. induction k as [|k IH]; simpl; intros s1 C L; auto.
    rewrite C. rewrite (run_defs n es ds D), (run_plain n mains _ _ _ _ PL). simpl.
    rewrite (eval_forms_lastv n _ _ _ mains (last_name ds VNil) VNil NE).
    rewrite (eval_forms_ext n _ T (sgv s1) L).
    destruct (eval_forms n T (sgv s1) [] mains VNil) as [r o] eqn:EV. simpl. f_equal.
    set (s2 := mkS (deftab ds (sft s1)) (sgv s1) (scodes s1)).
    change (sgv s1) with (sgv s2) in EV. rewrite <- EV. apply IH; auto.
    intros f. simpl. rewrite deftab_twice. apply L.
  Qed.
  Lemma runs_compiled : forall cid k s1,
    nlookup cid (scodes s1) = Some (map TQuote (map fst ds) ++ map TForm mains) ->
    runS n s1 (repeat (ORun cid) k) = repeat (eval_forms n (sft s1) (sgv s1) [] mains VNil) k.
  Proof.
    intros cid. induction k as [|k IH]; simpl; intros s1 C; auto.
    rewrite C. rewrite run_quotes, (run_plain n mains _ _ _ _ PL). simpl.
    rewrite (eval_forms_lastv n _ _ _ mains _ VNil NE).
    destruct (eval_forms n (sft s1) (sgv s1) [] mains VNil) as [r o] eqn:EV. simpl. f_equal.
    set (s2 := mkS (sft s1) (sgv s1) (scodes s1)).
    change (sft s1) with (sft s2) in EV. change (sgv s1) with (sgv s2) in EV. rewrite <- EV. apply IH; auto.
  Qed.

  (* S: compiled or not, first or k-th evaluation: always `meaning` (Code.Compile itself answers nil and emits
     nothing: the definitions of the block are function definitions) *)
  Theorem program_meaning_S : forall s cid cmp k,
    runS n s (prog cid es mains cmp k) =
      (if cmp then [(Val VNil, [])] else []) ++ repeat (meaning n ds mains (sft s) (sgv s)) k.
  Proof.
    intros s cid cmp k. unfold prog, meaning. simpl. rewrite map_app.
    set (s0 := mkS (sft s) (sgv s) ((cid, map TForm es ++ map TForm mains) :: scodes s)).
    destruct cmp; simpl.
    - rewrite Nat.eqb_refl. rewrite (compile_program n es ds D mains _ _ _ PL). simpl. f_equal.
      set (s1 := mkS (deftab ds (sft s)) (sgv s)
                     ((cid, map TQuote (map fst ds) ++ map TForm mains) :: scodes s0)).
      change (runS n s1 (repeat (ORun cid) k) = repeat (eval_forms n (sft s1) (sgv s1) [] mains VNil) k).
      apply runs_compiled. simpl. rewrite Nat.eqb_refl. reflexivity.
    - change (runS n s0 (repeat (ORun cid) k) = repeat (eval_forms n (deftab ds (sft s)) (sgv s0) [] mains VNil) k).
      apply runs_uncompiled; [simpl; rewrite Nat.eqb_refl; reflexivity|reflexivity].
  Qed.
End Program.

(* S: the order of the definitions is irrelevant *)
Theorem program_order_S : forall n ds ds' mains ft gv, Permutation ds ds' -> NoDup (map fst ds) ->
  meaning n ds mains ft gv = meaning n ds' mains ft gv.
Proof.
  intros. unfold meaning. apply eval_forms_ext. intros f. apply deftab_order_independent; auto.
Qed.

Lemma prog_no_fmak : forall cid es mains cmp k, no_fmak (prog cid es mains cmp k) = true.
Proof.
  intros. unfold prog. simpl. destruct cmp; simpl; induction k; simpl; auto.
Qed.
Lemma osim_all : forall xs l, Forall2 osim xs l -> Forall (fun x => comparable (fst x) = true) xs -> l = xs.
Proof.
  induction xs as [|x xs IH]; intros l F C; inversion F as [|? y ? l' [O _] F']; subst; auto.
  inversion C as [|? ? Cx Cr]; subst. rewrite (O Cx). f_equal. apply IH; auto.
Qed.
Definition expected (n : nat) (ds : list (string * def)) (mains : list sexp) (s : sstate) (cmp : bool) (k : nat) : list obs :=
  (if cmp then [(Val VNil, [])] else []) ++ repeat (meaning n ds mains (sft s) (sgv s)) k.
Lemma expected_comparable : forall n ds mains s cmp k, comparable (fst (meaning n ds mains (sft s) (sgv s))) = true ->
  Forall (fun x => comparable (fst x) = true) (expected n ds mains s cmp k).
Proof.
  intros. unfold expected. apply Forall_app. split; [destruct cmp; repeat constructor|].
  induction k; simpl; constructor; auto.
Qed.

(* M: started in any state related to S's, two programs with the same main forms and the same definitions in any
   two orders, each compiled or not, evaluated k resp. k' times, give the same outcome at every evaluation: S's
   `meaning` - provided that is a value or a condition other than undefined-function (for those see
   history_exact in ProofsLate.v) *)
Theorem program_meaning_M : forall n m s es es' ds ds' mains cid cid' cmp cmp' k k',
  HInv m s -> defs_are es ds -> defs_are es' ds' -> Permutation ds ds' -> NoDup (map fst ds) ->
  Forall plain mains -> mains <> [] ->
  comparable (fst (meaning n ds mains (sft s) (sgv s))) = true ->
  runM n m (prog cid es mains cmp k) = expected n ds mains s cmp k /\
  runM n m (prog cid' es' mains cmp' k') = expected n ds mains s cmp' k'.
Proof.
  intros n m s es es' ds ds' mains cid cid' cmp cmp' k k' H D D' P ND PL NE C.
  split.
  - apply osim_all; [|apply expected_comparable; auto]. unfold expected.
    rewrite <- (program_meaning_S n es mains ds D PL NE s cid cmp k).
    apply history_refines_from; auto. apply prog_no_fmak.
  - apply osim_all; [|apply expected_comparable; auto]. unfold expected.
    rewrite (program_order_S n ds ds' mains _ _ P ND).
    rewrite <- (program_meaning_S n es' mains ds' D' PL NE s cid' cmp' k').
    apply history_refines_from; auto. apply prog_no_fmak.
Qed.
(* from the empty state *)
Corollary program_meaning_init : forall n es es' ds ds' mains cid cid' cmp cmp' k k',
  defs_are es ds -> defs_are es' ds' -> Permutation ds ds' -> NoDup (map fst ds) ->
  Forall plain mains -> mains <> [] -> comparable (fst (meaning n ds mains [] [])) = true ->
  runM n minit (prog cid es mains cmp k) = expected n ds mains sinit cmp k /\
  runM n minit (prog cid' es' mains cmp' k') = expected n ds mains sinit cmp' k'.
Proof.
  intros n es es' ds ds' mains cid cid' cmp cmp' k k' D D' P ND PL NE C.
  apply (program_meaning_M n minit sinit es es' ds ds'); auto. apply HInv_init.
Qed.

(* non-vacuity: caller before callee / callee before caller, compiled or not, once or three times *)
Open Scope string_scope.
Definition pd_caller : sexp := dfn 1 "caller" 2 ["a"] [SList 3 [SSym "callee"; SSym "a"; SInt 2]].
Definition pd_callee : sexp := dfn 4 "callee" 5 ["p"; "q"] [SList 6 [SSym "list"; SSym "p"; SList 7 [SSym "emit"; SSym "q"]]].
Definition pd_ds : list (string * def) :=
  [("caller", (["a"], [SList 3 [SSym "callee"; SSym "a"; SInt 2]], []));
   ("callee", (["p"; "q"], [SList 6 [SSym "list"; SSym "p"; SList 7 [SSym "emit"; SSym "q"]]], []))].
Definition pd_mains : list sexp := [SList 8 [SSym "caller"; SInt 7]].
Example program_demo :
  defs_are [pd_caller; pd_callee] pd_ds /\ defs_are [pd_callee; pd_caller] (rev pd_ds) /\
  Permutation pd_ds (rev pd_ds) /\ NoDup (map fst pd_ds) /\ Forall plain pd_mains /\ pd_mains <> [] /\
  meaning 50 pd_ds pd_mains [] [] = (Val (VList [VInt 7; VInt 2]), [VInt 2]) /\
  runM 50 minit (prog 0 [pd_caller; pd_callee] pd_mains false 1) = expected 50 pd_ds pd_mains sinit false 1 /\
  runM 50 minit (prog 0 [pd_callee; pd_caller] pd_mains true 3) = expected 50 pd_ds pd_mains sinit true 3.
Proof.
  split; [repeat constructor|]. split; [repeat constructor|]. split; [apply Permutation_rev|].
  split; [repeat constructor; simpl; intuition discriminate|].
  split; [repeat constructor|]. split; [discriminate|]. vm_compute. auto.
Qed.
