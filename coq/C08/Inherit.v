(* C08, round 5 - functions inherited from a used package: which Lambda do compiled callers point at.

   M (faithful to Package.DefLambda / Package.Export / CompileList / Dynamic call): every package has a function
   table (name -> FuncInfo, the FuncInfo records are SHARED between a package and the packages using it) and a
   table of registered Lambdas (name -> Lambda).  defun through package p finds the package the function belongs to
   (home = FuncInfo.Pkg, p itself when p has no FuncInfo for the name), patches the Lambda registered THERE or
   registers the new one THERE, and makes the shared FuncInfo's creator hand out that Lambda.  Compiling a call asks
   the creator for a function object: the registered Lambda, the go function itself (a function written in go has
   no Lambda), or - no FuncInfo - a placeholder Lambda which it registers.  Package 0 is the library, every other
   package uses it; names in `gof` are functions written in go that the library exported before anything else.

   S: a name seen from p denotes the function (home, name); a caller compiled at any time calls the LATEST
   definition of the function its name denoted (late binding).  Which (home, name) a name denotes is the package
   system's business (C13) and is the same bookkeeping in M and S; the Lambda tables, the heap and the creators are
   M's alone. *)
From Coq Require Import List Arith Bool NArith.
Import ListNotations.
Open Scope list_scope.

Definition pkg := nat.
Definition name := nat.
Inductive fiid := FGo (f : name) | FNew (n : nat).
Inductive creator := CGo | CLam (l : nat).
Inductive body := BUndef | BVal (v : nat).
Inductive target := TGo | TLam (l : nat).
(* operations: (defun f ...) evaluated with p current (followed by (export f) when p is the library);
   a call (f ..) read and compiled with p current, kept as caller c; evaluation of caller c *)
Inductive iop := IDefun (p : pkg) (f : name) (v : nat) | ICompile (p : pkg) (c : nat) (f : name) | ICall (c : nat).
(* outcomes of ICall: no such caller / undefined-function / the go function's result / the result of definition v /
   anything else (only ever observed, never predicted) *)
Inductive ires := RNone | RUndef | RGo | RVal (v : nat) | ROther.

Definition fiid_eqb (a b : fiid) : bool :=
  match a, b with FGo x, FGo y => Nat.eqb x y | FNew x, FNew y => Nat.eqb x y | _, _ => false end.
Definition upd {A} (t : nat -> A) (k : nat) (x : A) : nat -> A := fun k' => if Nat.eqb k k' then x else t k'.
Definition upd2 {A} (t : pkg -> name -> A) (p : pkg) (f : name) (x : A) : pkg -> name -> A :=
  fun p' f' => if Nat.eqb p p' && Nat.eqb f f' then x else t p' f'.
Definition updfi {A} (t : fiid -> A) (i : fiid) (x : A) : fiid -> A := fun i' => if fiid_eqb i i' then x else t i'.

Record ist := mkI {
  funcs : pkg -> name -> option fiid;      (* Package.funcs *)
  fpkg : fiid -> pkg;                      (* FuncInfo.Pkg *)
  fcreate : fiid -> creator;               (* FuncInfo.Create: what it hands out *)
  nfi : nat;
  lams : pkg -> name -> option nat;        (* Package.lambdas *)
  heap : nat -> body;                      (* Lambda.Forms *)
  nlam : nat;
  callers : nat -> option target           (* compiled calls: the function object in the slot *)
}.

Definition iinit (gof : name -> bool) : ist :=
  mkI (fun _ f => if gof f then Some (FGo f) else None) (fun _ => 0) (fun _ => CGo) 0
      (fun _ _ => None) (fun _ => BUndef) 0 (fun _ => None).

Definition home (st : ist) (p : pkg) (f : name) : pkg :=
  match funcs st p f with Some i => fpkg st i | None => p end.

(* the Lambda registered for (h, f) after "patch it or register the new one" *)
Definition dl_lam (st : ist) (h : pkg) (f : name) : nat :=
  match lams st h f with Some l => l | None => nlam st end.
Definition dl_lams (st : ist) (h : pkg) (f : name) : pkg -> name -> option nat :=
  match lams st h f with Some _ => lams st | None => upd2 (lams st) h f (Some (nlam st)) end.
Definition dl_nlam (st : ist) (h : pkg) (f : name) : nat :=
  match lams st h f with Some _ => nlam st | None => S (nlam st) end.
(* a placeholder keeps the forms of a Lambda that is already registered *)
Definition ph_heap (st : ist) (h : pkg) (f : name) : nat -> body :=
  match lams st h f with Some _ => heap st | None => upd (heap st) (nlam st) BUndef end.

(* Package.Export: the packages using the library that have no function of that name get the library's FuncInfo *)
Definition export (fn : pkg -> name -> option fiid) (f : name) : pkg -> name -> option fiid :=
  fun u g => if negb (Nat.eqb u 0) && Nat.eqb g f
             then match fn u g with Some i => Some i | None => fn 0 f end
             else fn u g.

Definition tgt (c : creator) : target := match c with CGo => TGo | CLam l => TLam l end.

Definition defun_st (st : ist) (p : pkg) (f : name) (v : nat) : ist :=
  let h := home st p f in
  let l := dl_lam st h f in
  match funcs st p f with
  | Some i => mkI (funcs st) (fpkg st) (updfi (fcreate st) i (CLam l)) (nfi st)
                  (dl_lams st h f) (upd (heap st) l (BVal v)) (dl_nlam st h f) (callers st)
  | None => let i := FNew (nfi st) in
            mkI (upd2 (funcs st) p f (Some i)) (updfi (fpkg st) i p) (updfi (fcreate st) i (CLam l)) (S (nfi st))
                (dl_lams st h f) (upd (heap st) l (BVal v)) (dl_nlam st h f) (callers st)
  end.
Definition export_st (st : ist) (p : pkg) (f : name) : ist :=
  if Nat.eqb p 0
  then mkI (export (funcs st) f) (fpkg st) (fcreate st) (nfi st) (lams st) (heap st) (nlam st) (callers st)
  else st.
Definition compile_st (st : ist) (p : pkg) (c : nat) (f : name) : ist :=
  match funcs st p f with
  | Some i => mkI (funcs st) (fpkg st) (fcreate st) (nfi st) (lams st) (heap st) (nlam st)
                  (upd (callers st) c (Some (tgt (fcreate st i))))
  | None => let l := dl_lam st p f in
            let i := FNew (nfi st) in
            mkI (upd2 (funcs st) p f (Some i)) (updfi (fpkg st) i p) (updfi (fcreate st) i (CLam l)) (S (nfi st))
                (dl_lams st p f) (ph_heap st p f) (dl_nlam st p f) (upd (callers st) c (Some (TLam l)))
  end.
Definition call_res (st : ist) (c : nat) : ires :=
  match callers st c with
  | None => RNone
  | Some TGo => RGo
  | Some (TLam l) => match heap st l with BUndef => RUndef | BVal v => RVal v end
  end.

Definition istep (st : ist) (o : iop) : ist * option ires :=
  match o with
  | IDefun p f v => (export_st (defun_st st p f v) p f, None)
  | ICompile p c f => (compile_st st p c f, None)
  | ICall c => (st, Some (call_res st c))
  end.
Fixpoint irun_st (st : ist) (ops : list iop) : ist :=
  match ops with [] => st | o :: r => irun_st (fst (istep st o)) r end.
Fixpoint irun (st : ist) (ops : list iop) : list ires :=
  match ops with
  | [] => []
  | o :: r => let '(st', x) := istep st o in
              match x with Some y => y :: irun st' r | None => irun st' r end
  end.

(* ---- S ------------------------------------------------------------------------------------------ *)
Inductive sdefn := DNone | DGo | DVal (v : nat).
Record sst := mkS {
  shome : pkg -> name -> option pkg;       (* the package system: where the function p sees under f belongs *)
  sdef : pkg -> name -> sdefn;             (* the latest definition of function (home, name) *)
  scallers : list (nat * (pkg * name));    (* which function the caller's operator denoted *)
  stale : list nat                         (* guard: callers compiled to a go function that defun replaced since *)
}.
Definition sinit_i (gof : name -> bool) : sst :=
  mkS (fun _ f => if gof f then Some 0 else None) (fun p f => if Nat.eqb p 0 && gof f then DGo else DNone) [] [].
Definition sres (s : sst) (p : pkg) (f : name) : pkg := match shome s p f with Some h => h | None => p end.
Definition is_go (d : sdefn) : bool := match d with DGo => true | _ => false end.
Definition sexport (fn : pkg -> name -> option pkg) (f : name) : pkg -> name -> option pkg :=
  fun u g => if negb (Nat.eqb u 0) && Nat.eqb g f
             then match fn u g with Some i => Some i | None => fn 0 f end
             else fn u g.
Fixpoint lookup_caller (l : list (nat * (pkg * name))) (c : nat) : option (pkg * name) :=
  match l with [] => None | (c', t) :: r => if Nat.eqb c c' then Some t else lookup_caller r c end.
Definition callers_of (l : list (nat * (pkg * name))) (h : pkg) (f : name) : list nat :=
  map fst (filter (fun e => Nat.eqb (fst (snd e)) h && Nat.eqb (snd (snd e)) f) l).

(* outcome and whether S is binding for it (guard) *)
Definition sstep (s : sst) (o : iop) : sst * option (ires * bool) :=
  match o with
  | IDefun p f v =>
      let h := sres s p f in
      let hm := match shome s p f with Some _ => shome s | None => upd2 (shome s) p f (Some p) end in
      let hm' := if Nat.eqb p 0 then sexport hm f else hm in
      (mkS hm' (upd2 (sdef s) h f (DVal v)) (scallers s)
           (if is_go (sdef s h f) then callers_of (scallers s) h f ++ stale s else stale s), None)
  | ICompile p c f =>
      let h := sres s p f in
      let hm := match shome s p f with Some _ => shome s | None => upd2 (shome s) p f (Some p) end in
      (mkS hm (sdef s) ((c, (h, f)) :: scallers s) (filter (fun c' => negb (Nat.eqb c c')) (stale s)), None)
  | ICall c =>
      (s, Some (match lookup_caller (scallers s) c with
                | None => RNone
                | Some (h, f) => match sdef s h f with DNone => RUndef | DGo => RGo | DVal v => RVal v end
                end, negb (existsb (Nat.eqb c) (stale s))))
  end.
Fixpoint srun (s : sst) (ops : list iop) : list (ires * bool) :=
  match ops with
  | [] => []
  | o :: r => let '(s', x) := sstep s o in
              match x with Some y => y :: srun s' r | None => srun s' r end
  end.
