(* C08 - the time at which an undefined operator is noticed (CLHS 3.1.2.1.2.3) as a parameter of the
   specification.  evalL late = evalS with "an undefined f is noticed after its arguments" for the names f with
   late f = true.  Proved here:
     evalL_early              evalL early = evalS;
     evalL_policy_irrelevant  where evalS is binding (a value or a condition other than undefined-function) evalL
                              gives the same outcome for EVERY policy: the theorems of Proofs.v do not depend on
                              the lookup time;
     evalM_exact              in every state satisfying the invariant M computes EXACTLY evalL for the policy "the
                              names that have a placeholder" - undefined-function outcomes, the values emitted
                              before them and the errors that mask them included (only S running out of fuel is
                              not binding);
     history_exact            every history: there is a list of policies (one per evaluated top-level form) under
                              which the specification's outcomes are exactly M's. *)
From Coq Require Import List ZArith String Bool Arith Lia.
From C08 Require Import Model Spec Proofs.
Import ListNotations.
Open Scope list_scope.

(* ---- evalL early = evalS ------------------------------------------------------------------------------ *)
Lemma eval_caseS_ext : forall ev ev', (forall en o e, ev en o e = ev' en o e) ->
  forall args en o, eval_caseS ev en o args = eval_caseS ev' en o args.
Proof.
  intros ev ev' H args en o. unfold eval_caseS. destruct args as [|k clauses]; auto.
  rewrite (eval_argsS_ext _ _ H). destruct (eval_argsS ev' en o [k]) as [[[|key [|? ?]]|r] o1]; auto.
  destruct (select_clause key clauses); auto. apply eval_seqS_ext; auto.
Qed.
Theorem evalL_early : forall ft n en o e, evalL early n ft en o e = evalS n ft en o e.
Proof.
  intros ft. induction n as [|n IH]; intros en o e; simpl; auto.
  destruct e as [z|x|id xs]; auto. destruct xs as [|[z|f|i ys] args]; auto.
  destruct (builtin_of f) as [b|].
  - destruct b; try (rewrite (eval_argsS_ext _ _ IH); reflexivity).
    + apply eval_seqS_ext; auto.
    + apply eval_ifS_ext; auto.
    + apply eval_caseS_ext; auto.
  - destruct (slookup f ft) as [[[ps forms] clos]|]; auto.
    rewrite (eval_argsS_ext _ _ IH). destruct (eval_argsS (evalS n ft) en o args) as [[vs|r] o1]; auto.
    destruct (arity_err _ _); auto. apply eval_bodyS_ext; auto.
Qed.

(* ---- where evalS is binding the policy is irrelevant ---------------------------------------------------- *)
Definition stable (ev ev' : env -> list value -> sexp -> res * list value) : Prop :=
  forall en o e r o', ev en o e = (r, o') -> comparable r = true -> ev' en o e = (r, o').
Definition okA (a : ares) : Prop := match a with AVals _ => True | AStop r => comparable r = true end.
Lemma eval_argsS_stable : forall ev ev', stable ev ev' -> forall args en o a o',
  eval_argsS ev en o args = (a, o') -> okA a -> eval_argsS ev' en o args = (a, o').
Proof.
  intros ev ev' H. induction args as [|x rest IH]; simpl; intros en o a o' E K; auto.
  destruct (ev en o x) as [r1 o1] eqn:E1. destruct r1 as [v|er|].
  - rewrite (H _ _ _ _ _ E1 eq_refl). destruct (eval_argsS ev en o1 rest) as [a2 o2] eqn:E2.
    assert (K2 : okA a2) by (destruct a2; inversion E; subst; simpl in *; auto).
    rewrite (IH _ _ _ _ E2 K2). exact E.
  - inversion E; subst. simpl in K. rewrite (H _ _ _ _ _ E1 K). reflexivity.
  - inversion E; subst. simpl in K. discriminate.
Qed.
Lemma eval_bodyS_stable : forall ev ev', stable ev ev' -> forall forms en o v r o',
  eval_bodyS ev en o forms v = (r, o') -> comparable r = true -> eval_bodyS ev' en o forms v = (r, o').
Proof.
  intros ev ev' H. induction forms as [|x rest IH]; simpl; intros en o v r o' E C; auto.
  destruct (ev en o x) as [r1 o1] eqn:E1. destruct r1 as [w|er|].
  - rewrite (H _ _ _ _ _ E1 eq_refl). eapply IH; eauto.
  - inversion E; subst. rewrite (H _ _ _ _ _ E1 C). reflexivity.
  - inversion E; subst. discriminate.
Qed.
Lemma eval_seqS_stable : forall ev ev', stable ev ev' -> forall forms en o v r o',
  eval_seqS ev en o forms v = (r, o') -> comparable r = true -> eval_seqS ev' en o forms v = (r, o').
Proof.
  intros ev ev' H. induction forms as [|x rest IH]; simpl; intros en o v r o' E C; auto.
  destruct (ev en o x) as [r1 o1] eqn:E1. destruct r1 as [w|er|].
  - rewrite (H _ _ _ _ _ E1 eq_refl). eapply IH; eauto.
  - inversion E; subst. rewrite (H _ _ _ _ _ E1 C). reflexivity.
  - inversion E; subst. discriminate.
Qed.
Lemma eval_ifS_stable : forall ev ev', stable ev ev' -> forall args en o r o',
  eval_ifS ev en o args = (r, o') -> comparable r = true -> eval_ifS ev' en o args = (r, o').
Proof.
  intros ev ev' H args en o r o'. unfold eval_ifS.
  assert (K : forall c a b,
    match ev en o c with
    | (Val v, o1) => match (if truthy (norm v) then Some a else b) with
                     | None => (Val VNil, o1)
                     | Some x => match ev en o1 x with (Val w, o2) => (Val (norm w), o2) | r => r end end
    | r => r end = (r, o') -> comparable r = true ->
    match ev' en o c with
    | (Val v, o1) => match (if truthy (norm v) then Some a else b) with
                     | None => (Val VNil, o1)
                     | Some x => match ev' en o1 x with (Val w, o2) => (Val (norm w), o2) | r => r end end
    | r => r end = (r, o')).
  { intros c a b E C. destruct (ev en o c) as [r1 o1] eqn:E1. destruct r1 as [v|er|].
    - rewrite (H _ _ _ _ _ E1 eq_refl). destruct (if truthy (norm v) then Some a else b) as [x|]; auto.
      destruct (ev en o1 x) as [r2 o2] eqn:E2. destruct r2 as [w|er|].
      + rewrite (H _ _ _ _ _ E2 eq_refl). exact E.
      + inversion E; subst. rewrite (H _ _ _ _ _ E2 C). reflexivity.
      + inversion E; subst. discriminate.
    - inversion E; subst. rewrite (H _ _ _ _ _ E1 C). reflexivity.
    - inversion E; subst. discriminate. }
  destruct args as [|c [|a [|b [|? ?]]]]; auto.
Qed.
Lemma eval_caseS_stable : forall ev ev', stable ev ev' -> forall args en o r o',
  eval_caseS ev en o args = (r, o') -> comparable r = true -> eval_caseS ev' en o args = (r, o').
Proof.
  intros ev ev' H args en o r o'. unfold eval_caseS. destruct args as [|k clauses]; auto.
  destruct (eval_argsS ev en o [k]) as [a o1] eqn:EA. intros E C.
  assert (K : okA a).
  { destruct a as [vs|r0]; simpl; auto. inversion E; subst. exact C. }
  rewrite (eval_argsS_stable _ _ H _ _ _ _ _ EA K).
  destruct a as [[|key [|? ?]]|r0]; auto.
  destruct (select_clause key clauses); auto. eapply eval_seqS_stable; eauto.
Qed.
Theorem evalL_policy_irrelevant : forall late ft n en o e r o',
  evalS n ft en o e = (r, o') -> comparable r = true -> evalL late n ft en o e = (r, o').
Proof.
  intros late ft. induction n as [|n IH]; intros en o e r o' E C; simpl in *; auto.
  destruct e as [z|x|id xs]; auto. destruct xs as [|[z|f|i ys] args]; auto.
  destruct (builtin_of f) as [b|].
  - assert (STRICT : forall b', match eval_argsS (evalS n ft) en o args with
                    | (AVals vs, o1) => apply_bi b' vs o1 | (AStop r, o1) => (r, o1) end = (r, o') ->
                    match eval_argsS (evalL late n ft) en o args with
                    | (AVals vs, o1) => apply_bi b' vs o1 | (AStop r, o1) => (r, o1) end = (r, o')).
    { intros b' E'. destruct (eval_argsS (evalS n ft) en o args) as [a o1] eqn:EA.
      assert (K : okA a) by (destruct a as [vs|r0]; simpl; auto; inversion E'; subst; exact C).
      rewrite (eval_argsS_stable _ _ IH _ _ _ _ _ EA K). exact E'. }
    destruct b; try (apply STRICT; exact E).
    + eapply eval_seqS_stable; eauto.
    + eapply eval_ifS_stable; eauto.
    + eapply eval_caseS_stable; eauto.
  - destruct (slookup f ft) as [[[ps forms] clos]|].
    + destruct (eval_argsS (evalS n ft) en o args) as [a o1] eqn:EA.
      assert (K : okA a) by (destruct a as [vs|r0]; simpl; auto; inversion E; subst; exact C).
      rewrite (eval_argsS_stable _ _ IH _ _ _ _ _ EA K). destruct a as [vs|r0]; auto.
      destruct (arity_err _ _); auto. eapply eval_bodyS_stable; eauto.
    + inversion E; subst. discriminate.
Qed.

(* ---- M computes evalL exactly -------------------------------------------------------------------------- *)
(* the policy of a model state is `latef` (Spec.v) *)
Definition Pol (st : state) (late : policy) : Prop := forall f, late f = latef st f.
Lemma Pol_latef : forall st, Pol st (latef st).
Proof. intros st f. reflexivity. Qed.
Lemma same_tabs_pol : forall st st' late, same_tabs st st' -> Pol st late -> Pol st' late.
Proof. intros st st' late [_ [_ F]] P f. rewrite (P f). unfold latef. rewrite F. reflexivity. Qed.

Definition ex1 (rS : res) (oS : list value) (rM : res) (stM : state) : Prop :=
  (binding rS = true -> rM = rS /\ out stM = oS) /\ (is_val rS = false -> is_val rM = false).
Definition exA (aS : ares) (oS : list value) (aM : ares) (stM : state) : Prop :=
  match aS with
  | AVals vs => aM = AVals vs /\ out stM = oS
  | AStop r => (binding r = true -> aM = AStop r /\ out stM = oS) /\ exists r', aM = AStop r' /\ is_val r' = false
  end.
Lemma ex1_same : forall r st, ex1 r (out st) r st.
Proof. intros. split; auto. Qed.

Section Exact.
  Variable late : policy.
  Variable ft : ftab.
  Definition exP (n : nat) : Prop :=
    forall st en e rS oS, Inv st -> Rel st ft -> Pol st late -> evalL late n ft en (out st) e = (rS, oS) ->
      exists rM st', evalM n st en e = (rM, st') /\ ex1 rS oS rM st'.

  Lemma eval_args_ex : forall n, exP n -> forall args st en aS oS, Inv st -> Rel st ft -> Pol st late ->
    eval_argsS (evalL late n ft) en (out st) args = (aS, oS) ->
    exists aM st', eval_args (evalM n) st en args = (aM, st') /\ exA aS oS aM st'.
  Proof.
    intros n IH. induction args as [|a rest IHa]; simpl; intros st en aS oS I R P E.
    - inversion E; subst. exists (AVals []), st. split; auto. split; auto.
    - destruct (premark st a) as [st1|] eqn:PM.
      + pose proof (premark_good _ _ _ PM) as [T1 I1]. pose proof (premark_out _ _ _ PM) as O1.
        rewrite <- O1 in E.
        destruct (evalL late n ft en (out st1) a) as [r1 o1] eqn:E1.
        destruct (IH st1 en a r1 o1 (I1 I) (same_tabs_rel _ _ _ T1 R) (same_tabs_pol _ _ _ T1 P) E1) as (rM & st2 & EM & [S1 S2]).
        rewrite EM. pose proof (evalM_good n _ _ _ _ _ EM) as [T2 I2].
        destruct r1 as [v|er|].
        * destruct (S1 eq_refl) as [-> O2].
          destruct (eval_argsS (evalL late n ft) en o1 rest) as [aS2 o2] eqn:E2. rewrite <- O2 in E2.
          destruct (IHa st2 en aS2 o2 (I2 (I1 I)) (same_tabs_rel _ _ _ T2 (same_tabs_rel _ _ _ T1 R))
                      (same_tabs_pol _ _ _ T2 (same_tabs_pol _ _ _ T1 P)) E2) as (aM2 & st3 & EM2 & A). rewrite EM2.
          destruct aS2 as [vs|r2].
          -- destruct A as [-> O3]. inversion E; subst. eexists _, _. split; [reflexivity|]. split; auto.
          -- inversion E; subst. destruct A as [A1 (r' & -> & NV)].
             eexists _, _. split; [reflexivity|]. split; [|eauto].
             intros C. destruct (A1 C) as [A2 A3]. auto.
        * inversion E; subst. pose proof (S2 eq_refl) as NV.
          destruct rM; [discriminate| |]; (eexists _, _; split; [reflexivity|]; split; [|eauto];
            intros C; destruct (S1 C) as [Q1 Q2]; split; congruence).
        * inversion E; subst. pose proof (S2 eq_refl) as NV.
          destruct rM; [discriminate| |]; (eexists _, _; split; [reflexivity|]; split; [|eauto];
            intros C; destruct (S1 C) as [Q1 Q2]; split; congruence).
      + destruct (premark_none _ _ PM) as (id & g & r & -> & B & F).
        exists (AStop (Err EUndefined)), st. split; auto.
        pose proof (rel_undef _ _ _ R F) as FT.
        destruct n as [|n']; simpl in E.
        * inversion E; subst. split; [discriminate|eauto].
        * rewrite B, FT, (P g) in E. unfold latef in E. rewrite F in E. inversion E; subst. split; [auto|eauto].
  Qed.

  Lemma eval_body_ex : forall n, exP n -> forall forms st en v rS oS, Inv st -> Rel st ft -> Pol st late ->
    eval_bodyS (evalL late n ft) en (out st) forms v = (rS, oS) ->
    exists rM st', eval_body (evalM n) st en forms v = (rM, st') /\ ex1 rS oS rM st'.
  Proof.
    intros n IH. induction forms as [|f rest IHf]; simpl; intros st en v rS oS I R P E.
    - inversion E; subst. eexists _, _. split; [reflexivity|apply ex1_same].
    - destruct (evalL late n ft en (out st) f) as [r1 o1] eqn:E1.
      destruct (IH st en f r1 o1 I R P E1) as (rM & st1 & EM & [S1 S2]). rewrite EM.
      pose proof (evalM_good n _ _ _ _ _ EM) as [T1 I1].
      destruct r1 as [w|er|].
      + destruct (S1 eq_refl) as [-> O1]. rewrite <- O1 in E.
        apply (IHf st1 en w rS oS (I1 I) (same_tabs_rel _ _ _ T1 R) (same_tabs_pol _ _ _ T1 P) E).
      + inversion E; subst. pose proof (S2 eq_refl). destruct rM; [discriminate| |];
          (eexists _, _; split; [reflexivity|]; split; auto).
      + inversion E; subst. pose proof (S2 eq_refl). destruct rM; [discriminate| |];
          (eexists _, _; split; [reflexivity|]; split; auto).
  Qed.

  Lemma eval_if_ex : forall n, exP n -> forall args st en rS oS, Inv st -> Rel st ft -> Pol st late ->
    eval_ifS (evalL late n ft) en (out st) args = (rS, oS) ->
    exists rM st', eval_if (evalM n) st en args = (rM, st') /\ ex1 rS oS rM st'.
  Proof.
    intros n IH args st en rS oS I R P. unfold eval_ifS, eval_if.
    assert (K : forall c a b,
      match evalL late n ft en (out st) c with
      | (Val v, o1) => match (if truthy (norm v) then Some a else b) with
                       | None => (Val VNil, o1)
                       | Some x => match evalL late n ft en o1 x with (Val w, o2) => (Val (norm w), o2) | r => r end end
      | r => r end = (rS, oS) ->
      exists rM st',
      match evalM n st en c with
      | (Val v, st1) =>
          match (if truthy (norm v) then Some a else b) with
          | None => (Val VNil, apply_def st1 (deferred st c))
          | Some x => match evalM n st1 en x with
                      | (Val w, st2) => (Val (norm w), apply_def (apply_def st2 (deferred st c)) (deferred st1 x))
                      | r => r end
          end
      | r => r end = (rM, st') /\ ex1 rS oS rM st').
    { intros c a b. destruct (evalL late n ft en (out st) c) as [r1 o1] eqn:E1.
      destruct (IH st en c r1 o1 I R P E1) as (rM & st1 & EM & [S1 S2]). rewrite EM.
      pose proof (evalM_good n _ _ _ _ _ EM) as [T1 I1].
      destruct r1 as [v|er|].
      - destruct (S1 eq_refl) as [-> O1].
        destruct (if truthy (norm v) then Some a else b) as [x|].
        + rewrite <- O1. destruct (evalL late n ft en (out st1) x) as [r2 o2] eqn:E2.
          destruct (IH st1 en x r2 o2 (I1 I) (same_tabs_rel _ _ _ T1 R) (same_tabs_pol _ _ _ T1 P) E2) as (rM2 & st2 & EM2 & [Q1 Q2]).
          rewrite EM2. destruct r2 as [w2|er|].
          * destruct (Q1 eq_refl) as [-> O2]. intros E; inversion E; subst.
            eexists _, _. split; [reflexivity|]. split; [|discriminate].
            intros _. rewrite !apply_def_out. auto.
          * intros E; inversion E; subst. pose proof (Q2 eq_refl). destruct rM2; [discriminate| |];
              (eexists _, _; split; [reflexivity|]; split; auto).
          * intros E; inversion E; subst. pose proof (Q2 eq_refl). destruct rM2; [discriminate| |];
              (eexists _, _; split; [reflexivity|]; split; auto).
        + intros E; inversion E; subst. eexists _, _. split; [reflexivity|].
          split; auto. intros _. rewrite apply_def_out. auto.
      - intros E; inversion E; subst. pose proof (S2 eq_refl). destruct rM; [discriminate| |];
          (eexists _, _; split; [reflexivity|]; split; auto).
      - intros E; inversion E; subst. pose proof (S2 eq_refl). destruct rM; [discriminate| |];
          (eexists _, _; split; [reflexivity|]; split; auto). }
    destruct args as [|c [|a [|b [|? ?]]]];
      try (intros E; inversion E; subst; eexists _, _; split; [reflexivity|apply ex1_same]).
    - apply K.
    - apply K.
  Qed.

  Lemma eval_seq_ex : forall n, exP n -> forall forms st en v rS oS, Inv st -> Rel st ft -> Pol st late ->
    eval_seqS (evalL late n ft) en (out st) forms v = (rS, oS) ->
    exists rM st', eval_seq (evalM n) st en forms v = (rM, st') /\ ex1 rS oS rM st'.
  Proof.
    intros n IH. induction forms as [|f rest IHf]; simpl; intros st en v rS oS I R P E.
    - inversion E; subst. eexists _, _. split; [reflexivity|apply ex1_same].
    - destruct (premark st f) as [st0|] eqn:PM.
      + pose proof (premark_good _ _ _ PM) as [T0 I0]. pose proof (premark_out _ _ _ PM) as O0.
        rewrite <- O0 in E.
        destruct (evalL late n ft en (out st0) f) as [r1 o1] eqn:E1.
        destruct (IH st0 en f r1 o1 (I0 I) (same_tabs_rel _ _ _ T0 R) (same_tabs_pol _ _ _ T0 P) E1) as (rM & st1 & EM & [S1 S2]). rewrite EM.
        pose proof (evalM_good n _ _ _ _ _ EM) as [T1 I1].
        destruct r1 as [w|er|].
        * destruct (S1 eq_refl) as [-> O1]. rewrite <- O1 in E.
          apply (IHf st1 en (norm w) rS oS (I1 (I0 I)) (same_tabs_rel _ _ _ T1 (same_tabs_rel _ _ _ T0 R))
                   (same_tabs_pol _ _ _ T1 (same_tabs_pol _ _ _ T0 P)) E).
        * inversion E; subst. pose proof (S2 eq_refl). destruct rM; [discriminate| |];
            (eexists _, _; split; [reflexivity|]; split; auto).
        * inversion E; subst. pose proof (S2 eq_refl). destruct rM; [discriminate| |];
            (eexists _, _; split; [reflexivity|]; split; auto).
      + destruct (premark_none _ _ PM) as (id & g & r & -> & B & F).
        exists (Err EUndefined), st. split; auto.
        pose proof (rel_undef _ _ _ R F) as FT.
        destruct n as [|n']; simpl in E.
        * inversion E; subst. split; [discriminate|auto].
        * rewrite B, FT, (P g) in E. unfold latef in E. rewrite F in E. inversion E; subst. split; auto.
  Qed.
  Lemma eval_progn_ex : forall n, exP n -> forall forms st en v ds rS oS, Inv st -> Rel st ft -> Pol st late ->
    eval_seqS (evalL late n ft) en (out st) forms v = (rS, oS) ->
    exists rM st', eval_progn (evalM n) st en forms v ds = (rM, st') /\ ex1 rS oS rM st'.
  Proof.
    intros n IH. induction forms as [|f rest IHf]; simpl; intros st en v ds rS oS I R P E.
    - inversion E; subst. eexists _, _. split; [reflexivity|]. split; [|auto].
      intros _. split; [reflexivity|apply fold_apply_def_out].
    - destruct (evalL late n ft en (out st) f) as [r1 o1] eqn:E1.
      destruct (IH st en f r1 o1 I R P E1) as (rM & st1 & EM & [S1 S2]). rewrite EM.
      pose proof (evalM_good n _ _ _ _ _ EM) as [T1 I1].
      destruct r1 as [w|er|].
      + destruct (S1 eq_refl) as [-> O1]. rewrite <- O1 in E.
        apply (IHf st1 en (norm w) _ rS oS (I1 I) (same_tabs_rel _ _ _ T1 R) (same_tabs_pol _ _ _ T1 P) E).
      + inversion E; subst. pose proof (S2 eq_refl). destruct rM; [discriminate| |];
          (eexists _, _; split; [reflexivity|]; split; auto).
      + inversion E; subst. pose proof (S2 eq_refl). destruct rM; [discriminate| |];
          (eexists _, _; split; [reflexivity|]; split; auto).
  Qed.
  Lemma eval_case_ex : forall n, exP n -> forall args st en rS oS, Inv st -> Rel st ft -> Pol st late ->
    eval_caseS (evalL late n ft) en (out st) args = (rS, oS) ->
    exists rM st', eval_case (evalM n) st en args = (rM, st') /\ ex1 rS oS rM st'.
  Proof.
    intros n IH args st en rS oS I R P. unfold eval_caseS, eval_case.
    destruct args as [|k clauses]; [intros E; inversion E; subst; eexists _, _; split; [reflexivity|apply ex1_same]|].
    destruct (eval_argsS (evalL late n ft) en (out st) [k]) as [aS o1] eqn:EA.
    destruct (eval_args_ex n IH [k] st en aS o1 I R P EA) as (aM & st1 & EM & A). rewrite EM.
    pose proof (eval_args_good _ (evalM_good n) _ _ _ _ _ EM) as [T1 I1].
    destruct aS as [vs|r].
    - destruct A as [-> O1].
      destruct vs as [|key [|? ?]]; try (intros E; inversion E; subst; eexists _, _; split; [reflexivity|]; split; auto; fail).
      destruct (select_clause key clauses) as [forms|];
        [|intros E; inversion E; subst; eexists _, _; split; [reflexivity|]; split; auto].
      rewrite <- O1. intros E.
      apply (eval_seq_ex n IH _ st1 _ _ _ _ (I1 I) (same_tabs_rel _ _ _ T1 R) (same_tabs_pol _ _ _ T1 P) E).
    - intros E; inversion E; subst. destruct A as [A1 (r' & -> & NV)].
      eexists _, _. split; [reflexivity|]. split; auto.
      intros C. destruct (A1 C) as [Q1 Q2]. split; congruence.
  Qed.

  Theorem evalM_ex : forall n, exP n.
  Proof.
    induction n as [|n IH]; intros st en e rS oS I R P E; simpl in E.
    - inversion E; subst. exists OutOfFuel, st. split; auto. apply ex1_same.
    - destruct e as [z|x|id xs].
      + inversion E; subst. eexists _, _. split; [reflexivity|apply ex1_same].
      + inversion E; subst. eexists _, _. split; [reflexivity|apply ex1_same].
      + destruct xs as [|[z|f|i ys] args];
          try (inversion E; subst; eexists _, _; split; [reflexivity|apply ex1_same]).
        simpl. destruct (builtin_of f) as [b|] eqn:B.
        * rewrite (wrapper_builtin st id f b B).
          assert (STRICT : b <> BIf ->
            match eval_argsS (evalL late n ft) en (out st) args with
            | (AVals vs, o1) => apply_bi b vs o1
            | (AStop r, o1) => (r, o1) end = (rS, oS) ->
            exists rM st',
              match eval_args (evalM n) st en args with
              | (AVals vs, st1) => let (r, o) := apply_bi b vs (out st1) in (r, set_out st1 o)
              | (AStop r, st1) => (r, st1) end = (rM, st') /\ ex1 rS oS rM st').
          { intros _ E'. destruct (eval_argsS (evalL late n ft) en (out st) args) as [aS o1] eqn:EA.
            destruct (eval_args_ex n IH args st en aS o1 I R P EA) as (aM & st1 & EM & A). rewrite EM.
            destruct aS as [vs|r].
            - destruct A as [-> O1]. rewrite O1, E'. eexists _, _. split; [reflexivity|]. split; auto.
            - inversion E'; subst. destruct A as [A1 (r' & -> & NV)].
              eexists _, _. split; [reflexivity|]. split; auto.
              intros C. destruct (A1 C) as [Q1 Q2]. split; congruence. }
          destruct b; try (apply STRICT; [discriminate|exact E]).
          -- apply (eval_progn_ex n IH); auto.
          -- apply (eval_if_ex n IH); auto.
          -- apply (eval_case_ex n IH); auto.
        * pose proof (wrapper_user st id f I B) as W.
          destruct (slookup f ft) as [[[ps forms] clos]|] eqn:FT.
          -- (* the name has a definition *)
             pose proof (R f) as D. rewrite FT in D. unfold def_of in D.
             destruct (slookup f (funcs st)) as [s|] eqn:F; [|discriminate].
             destruct (hget st s) as [l|] eqn:H; [|discriminate].
             destruct (l_place l) eqn:PL; [discriminate|]. inversion D; subst ps forms clos.
             destruct (wrapper st id f) as [[b|g a]|]; [contradiction| |discriminate].
             destruct W as (s' & l' & F' & Ha & Hs). inversion F'; subst s'.
             rewrite H in Hs. inversion Hs; subst l'.
             destruct (eval_argsS (evalL late n ft) en (out st) args) as [aS o1] eqn:EA.
             destruct (eval_args_ex n IH args st en aS o1 I R P EA) as (aM & st1 & EM & A). rewrite EM.
             pose proof (eval_args_good _ (evalM_good n) _ _ _ _ _ EM) as [T1 I1].
             destruct aS as [vs|r].
             ++ destruct A as [-> O1]. unfold call_lambda.
                assert (Ha1 : nth_error (heap st1) a = Some l) by (destruct T1 as [-> _]; exact Ha).
                rewrite Ha1, PL.
                destruct (arity_err (List.length (l_params l)) (List.length vs)).
                ** inversion E; subst. eexists _, _. split; [reflexivity|]. split; auto.
                ** rewrite <- O1 in E.
                   apply (eval_body_ex n IH _ st1 _ _ _ _ (I1 I) (same_tabs_rel _ _ _ T1 R) (same_tabs_pol _ _ _ T1 P) E).
             ++ inversion E; subst. destruct A as [A1 (r' & -> & NV)].
                eexists _, _. split; [reflexivity|]. split; auto.
                intros C. destruct (A1 C) as [Q1 Q2]. split; congruence.
          -- (* no definition.  A placeholder exists (late f): M calls it - arguments first, then
                undefined-function; no placeholder: the conversion of the list fails at once *)
             rewrite (P f) in E. unfold latef in E.
             destruct (wrapper st id f) as [[b|g a]|]; [contradiction| |].
             ++ destruct W as (s & l & F & Ha & Hs). rewrite F in E.
                pose proof (R f) as D. rewrite FT in D. unfold def_of in D. rewrite F, Hs in D.
                destruct (l_place l) eqn:PL; [|discriminate].
                destruct (eval_argsS (evalL late n ft) en (out st) args) as [aS o1] eqn:EA.
                destruct (eval_args_ex n IH args st en aS o1 I R P EA) as (aM & st1 & EM & A). rewrite EM.
                pose proof (eval_args_good _ (evalM_good n) _ _ _ _ _ EM) as [T1 I1].
                destruct aS as [vs|r].
                ** destruct A as [-> O1]. unfold call_lambda.
                   assert (Ha1 : nth_error (heap st1) a = Some l) by (destruct T1 as [-> _]; exact Ha).
                   rewrite Ha1, PL. inversion E; subst. eexists _, _. split; [reflexivity|]. split; auto.
                ** inversion E; subst. destruct A as [A1 (r' & -> & NV)].
                   eexists _, _. split; [reflexivity|]. split; auto.
                   intros C. destruct (A1 C) as [Q1 Q2]. split; congruence.
             ++ rewrite W in E. inversion E; subst. eexists _, _. split; [reflexivity|apply ex1_same].
  Qed.
End Exact.

(* in property terms: exact agreement, undefined-function outcomes included *)
Theorem evalM_exact : forall n st ft en e rS oS, Inv st -> Rel st ft ->
  evalL (latef st) n ft en (out st) e = (rS, oS) -> binding rS = true ->
  exists st', evalM n st en e = (rS, st') /\ out st' = oS.
Proof.
  intros n st ft en e rS oS I R E B.
  destruct (evalM_ex (latef st) ft n st en e rS oS I R (Pol_latef st) E) as (rM & st' & EM & [S1 _]).
  destruct (S1 B) as [-> O]. eauto.
Qed.

(* ---- histories ------------------------------------------------------------------------------------------ *)
(* the policies along M's run are `pols_run` (Spec.v) *)
Lemma gdef_eval_ex : forall late n st ft gv always nm init rS oS gvS, Inv st -> Rel st ft ->
  (gdef_evaluates gv always nm = true -> Pol st late) ->
  gdef_evalS (evalL late n ft) gv (out st) always nm init = (rS, oS, gvS) ->
  exists rM st', gdef_eval (evalM n) st gv always nm init = (rM, st', gvS) /\ ex1 rS oS rM st' /\ good st st'.
Proof.
  intros late n st ft gv always nm init rS oS gvS I R HP. unfold gdef_evalS, gdef_eval, gdef_evaluates in *.
  destruct always.
  - specialize (HP eq_refl). destruct (premark st init) as [st1|] eqn:PM.
    + pose proof (premark_good _ _ _ PM) as G1. destruct G1 as [T1 I1]. pose proof (premark_out _ _ _ PM) as O1.
      rewrite <- O1. destruct (evalL late n ft gv (out st1) init) as [r1 o1] eqn:E1.
      destruct (evalM_ex late ft n st1 gv init r1 o1 (I1 I) (same_tabs_rel _ _ _ T1 R) (same_tabs_pol _ _ _ T1 HP) E1)
        as (rM & st2 & EM & [S1 S2]).
      rewrite EM. pose proof (evalM_good n _ _ _ _ _ EM) as G2.
      assert (G : good st st2) by (eapply good_trans; [split; [exact T1|exact I1]|exact G2]).
      destruct r1 as [v|er|].
      * destruct (S1 eq_refl) as [-> O2]. intros E; inversion E; subst. eexists _, _. split; [reflexivity|].
        split; [split; [auto|discriminate]|exact G].
      * intros E; inversion E; subst. pose proof (S2 eq_refl). destruct rM; [discriminate| |];
          (eexists _, _; split; [reflexivity|]; split; [split; auto|exact G]).
      * intros E; inversion E; subst. pose proof (S2 eq_refl). destruct rM; [discriminate| |];
          (eexists _, _; split; [reflexivity|]; split; [split; auto|exact G]).
    + destruct (premark_none _ _ PM) as (id & g & r & -> & B & F).
      pose proof (rel_undef _ _ _ R F) as FT. intros E.
      exists (Err EUndefined), st.
      destruct n as [|n']; simpl in E.
      * inversion E; subst. split; [reflexivity|]. split; [split; [discriminate|auto]|apply good_refl].
      * rewrite B, FT, (HP g) in E. unfold latef in E. rewrite F in E. inversion E; subst.
        split; [reflexivity|]. split; [split; auto|apply good_refl].
  - simpl in HP. destruct (slookup (gkey nm) gv).
    + intros E; inversion E; subst. eexists _, _. split; [reflexivity|]. split; [apply ex1_same|apply good_refl].
    + specialize (HP eq_refl). destruct (evalL late n ft gv (out st) init) as [r1 o1] eqn:E1.
      destruct (evalM_ex late ft n st gv init r1 o1 I R HP E1) as (rM & st1 & EM & [S1 S2]).
      rewrite EM. pose proof (evalM_good n _ _ _ _ _ EM) as G1.
      destruct r1 as [v|er|].
      * destruct (S1 eq_refl) as [-> O1]. intros E; inversion E; subst. eexists _, _. split; [reflexivity|].
        split; [split; [intros _; rewrite apply_def_out; auto|discriminate]|].
        eapply good_trans; [exact G1|]. apply apply_def_good. apply G1.
      * intros E; inversion E; subst. pose proof (S2 eq_refl). destruct rM; [discriminate| |];
          (eexists _, _; split; [reflexivity|]; split; [split; auto|exact G1]).
      * intros E; inversion E; subst. pose proof (S2 eq_refl). destruct rM; [discriminate| |];
          (eexists _, _; split; [reflexivity|]; split; [split; auto|exact G1]).
Qed.
Lemma pol_gdef_split : forall st gv always nm X,
  (gdef_evaluates gv always nm = true -> Pol st (pol_hd (pol_gdef st gv always nm ++ X))) /\
  pols_after_gdef gv always nm (pol_gdef st gv always nm ++ X) = X.
Proof.
  intros. unfold pol_gdef, pols_after_gdef. destruct (gdef_evaluates gv always nm); simpl; split; auto.
  - intros _. apply Pol_latef.
  - discriminate.
Qed.

Lemma run_forms_ex : forall n fs st ft gv v rest rS oS ft' gv' pols', Inv st -> Rel st ft ->
  run_formsL n ft gv (out st) fs v (pols_forms n st gv fs ++ rest) = (rS, oS, ft', gv', pols') ->
  exists rM st', run_forms n st gv fs v = (rM, st', gv') /\ ex1 rS oS rM st' /\ Inv st' /\ Rel st' ft' /\ pols' = rest.
Proof.
  intros n. induction fs as [|t r IH]; simpl; intros st ft gv v rest rS oS ft' gv' pols' I R E.
  - inversion E; subst. eexists _, _. split; [reflexivity|]. split; [apply ex1_same|auto].
  - destruct t as [e|nm]; [|eapply IH; eauto].
    destruct (parse_defun e) as [[[nm ps] body]|] eqn:PD.
    + destruct (defunM_step st ft nm ps body [] I R) as (I' & R' & O'). rewrite <- O' in E. eapply IH; eauto.
    + destruct (parse_letdefun e) as [[[[clos nm] ps] body]|] eqn:PLD.
      { destruct (defunM_step st ft nm ps body clos I R) as (I' & R' & O'). rewrite <- O' in E. eapply IH; eauto. }
      destruct (parse_gdef e) as [[[always nm] init]|] eqn:PG.
      * rewrite <- app_assoc in E.
        destruct (gdef_eval (evalM n) st gv always nm init) as [[rM st1] gvM] eqn:EM.
        match type of E with context [pol_gdef st gv always nm ++ ?X] =>
          destruct (pol_gdef_split st gv always nm X) as [HP HA]; rewrite HA in E;
          destruct (gdef_evalS (evalL (pol_hd (pol_gdef st gv always nm ++ X)) n ft) gv (out st) always nm init)
            as [[r1 o1] gv1] eqn:E1;
          destruct (gdef_eval_ex _ n st ft gv always nm init r1 o1 gv1 I R HP E1) as (rM' & st1' & EM' & [S1 S2] & [T1 I1])
        end.
        rewrite EM in EM'. inversion EM'; subst rM' st1' gvM.
        destruct r1 as [w|er|].
        -- destruct (S1 eq_refl) as [-> O1]. rewrite <- O1 in E. eapply IH; eauto. eapply same_tabs_rel; eauto.
        -- pose proof (S2 eq_refl) as NV. destruct rM as [?|?|]; [discriminate| |]; simpl in E; inversion E; subst;
             (eexists _, _; split; [reflexivity|]; split; [split; auto|split; [auto|split; [eapply same_tabs_rel; eauto|reflexivity]]]).
        -- pose proof (S2 eq_refl) as NV. destruct rM as [?|?|]; [discriminate| |]; simpl in E; inversion E; subst;
             (eexists _, _; split; [reflexivity|]; split; [split; auto|split; [auto|split; [eapply same_tabs_rel; eauto|reflexivity]]]).
      * simpl in E.
        destruct (evalL (latef st) n ft gv (out st) e) as [r1 o1] eqn:E1.
        destruct (evalM_ex (latef st) ft n st gv e r1 o1 I R (Pol_latef st) E1) as (rM & st1 & EM & [S1 S2]).
        rewrite EM in *. pose proof (evalM_good n _ _ _ _ _ EM) as [T1 I1].
        destruct r1 as [w|er|].
        -- destruct (S1 eq_refl) as [-> O1]. rewrite <- O1 in E. eapply IH; eauto. eapply same_tabs_rel; eauto.
        -- pose proof (S2 eq_refl) as NV. destruct rM as [?|?|]; [discriminate| |]; simpl in E; inversion E; subst;
             (eexists _, _; split; [reflexivity|]; split; [split; auto|split; [auto|split; [eapply same_tabs_rel; eauto|reflexivity]]]).
        -- pose proof (S2 eq_refl) as NV. destruct rM as [?|?|]; [discriminate| |]; simpl in E; inversion E; subst;
             (eexists _, _; split; [reflexivity|]; split; [split; auto|split; [auto|split; [eapply same_tabs_rel; eauto|reflexivity]]]).
Qed.

Lemma compile_defs_ex : forall n fs st ft gv rest xS oS ft' gv' fs' pols', Inv st -> Rel st ft ->
  compile_defsL n ft gv (out st) fs (pols_compile n st gv fs ++ rest) = (xS, oS, ft', gv', fs', pols') ->
  exists xM st', compile_defs n st gv fs = (xM, st', gv', fs') /\ ex1 xS oS xM st' /\ Inv st' /\ Rel st' ft' /\ pols' = rest.
Proof.
  intros n. induction fs as [|t r IH]; simpl; intros st ft gv rest xS oS ft' gv' fs' pols' I R E.
  - inversion E; subst. eexists _, _. split; [reflexivity|]. split; [apply ex1_same|auto].
  - assert (KEEP : forall t0,
       (let '(x, o', ft0, gv0, r', p') := compile_defsL n ft gv (out st) r (pols_compile n st gv r ++ rest) in
        (x, o', ft0, gv0, t0 :: r', p')) = (xS, oS, ft', gv', fs', pols') ->
       exists xM st', (let '(x, st0, gv0, r') := compile_defs n st gv r in (x, st0, gv0, t0 :: r')) = (xM, st', gv', fs') /\
                      ex1 xS oS xM st' /\ Inv st' /\ Rel st' ft' /\ pols' = rest).
    { intros t0 E'.
      destruct (compile_defsL n ft gv (out st) r (pols_compile n st gv r ++ rest)) as [[[[[x o'] ft0] gv0] r'] p'] eqn:ER.
      inversion E'; subst. destruct (IH _ _ _ _ _ _ _ _ _ _ I R ER) as (xM & st' & EM & S & I' & R' & PE).
      rewrite EM. eauto 10. }
    destruct t as [e|nm]; [|apply KEEP; exact E].
    destruct (parse_defun e) as [[[nm ps] body]|] eqn:PD.
    + destruct (defunM_step st ft nm ps body [] I R) as (I' & R' & O'). rewrite <- O' in E.
      destruct (compile_defsL n ((nm, (ps, body, [])) :: ft) gv (out (defunM st nm ps body [])) r
                  (pols_compile n (defunM st nm ps body []) gv r ++ rest)) as [[[[[x o'] ft0] gv0] r'] p'] eqn:ER.
      inversion E; subst. destruct (IH _ _ _ _ _ _ _ _ _ _ I' R' ER) as (xM & st' & EM & S & I'' & R'' & PE).
      rewrite EM. eauto 10.
    + destruct (parse_letdefun e) as [[[[clos nm] ps] body]|] eqn:PLD; [apply KEEP; exact E|].
      destruct (parse_gdef e) as [[[always nm] init]|] eqn:PG; [|apply KEEP; exact E].
      rewrite <- app_assoc in E.
      destruct (gdef_eval (evalM n) st gv always nm init) as [[rM st1] gvM] eqn:EM.
      match type of E with context [pol_gdef st gv always nm ++ ?X] =>
        destruct (pol_gdef_split st gv always nm X) as [HP HA]; rewrite HA in E;
        destruct (gdef_evalS (evalL (pol_hd (pol_gdef st gv always nm ++ X)) n ft) gv (out st) always nm init)
          as [[r1 o1] gv1] eqn:E1;
        destruct (gdef_eval_ex _ n st ft gv always nm init r1 o1 gv1 I R HP E1) as (rM' & st1' & EM' & [S1 S2] & [T1 I1])
      end.
      rewrite EM in EM'. inversion EM'; subst rM' st1' gvM.
      destruct r1 as [w|er|].
      * destruct (S1 eq_refl) as [-> O1]. rewrite <- O1 in E.
        destruct (compile_defsL n ft gv1 (out st1) r (pols_compile n st1 gv1 r ++ rest)) as [[[[[x o'] ft0] gv0] r'] p'] eqn:ER.
        inversion E; subst.
        destruct (IH _ _ _ _ _ _ _ _ _ _ (I1 I) (same_tabs_rel _ _ _ T1 R) ER) as (xM & st' & EM2 & S & I'' & R'' & PE).
        rewrite EM2. eauto 10.
      * pose proof (S2 eq_refl) as NV. destruct rM as [?|?|]; [discriminate| |]; simpl in E; inversion E; subst;
          (eexists _, _; split; [reflexivity|]; split; [split; auto|split; [auto|split; [eapply same_tabs_rel; eauto|reflexivity]]]).
      * pose proof (S2 eq_refl) as NV. destruct rM as [?|?|]; [discriminate| |]; simpl in E; inversion E; subst;
          (eexists _, _; split; [reflexivity|]; split; [split; auto|split; [auto|split; [eapply same_tabs_rel; eauto|reflexivity]]]).
Qed.

Definition oex (oS oM : obs) : Prop :=
  (binding (fst oS) = true -> oM = oS) /\ (is_val (fst oS) = false -> is_val (fst oM) = false).

Lemma step_ex : forall n m s o rest s' obS pols', HInv m s -> no_fmak [o] = true ->
  stepL n s o (pols_step n m o ++ rest) = (s', obS, pols') ->
  HInv (fst (stepM n m o)) s' /\ pols' = rest /\
  match obS, snd (stepM n m o) with
  | Some a, Some b => oex a b
  | None, None => True
  | _, _ => False
  end.
Proof.
  intros n m s o rest s' obS pols' H NF E.
  destruct H as (I & R & CE & GE).
  destruct o as [cid forms|cid|cid|fk]; simpl in *; [| | |discriminate NF].
  - inversion E; subst. simpl. split; [unfold HInv; simpl; split; [auto|split; [auto|split; [congruence|auto]]]|auto].
  - rewrite <- CE, <- GE in E. destruct (nlookup cid (codes m)) as [fs|].
    + pose proof (good_set_out (ms m) []) as [T0 I0].
      destruct (compile_defsL n (sft s) (mgv m) [] fs (pols_compile n (set_out (ms m) []) (mgv m) fs ++ rest))
        as [[[[[xS oS] ft'] gv'] fs'] pl] eqn:EL.
      destruct (compile_defs_ex n fs (set_out (ms m) []) (sft s) (mgv m) rest xS oS ft' gv' fs' pl (I0 I)
                  (same_tabs_rel _ _ _ T0 R) EL) as (xM & st1 & EM & [S1 S2] & I1 & R1 & PE).
      rewrite EM. inversion E; subst. destruct xM as [w|er|].
      * destruct (cgood_rel _ _ _ (compile_rest_cgood fs' st1) I1 R1) as [I' R'].
        pose proof (cg_out _ _ (compile_rest_cgood fs' st1 I1)) as OC.
        simpl. split; [unfold HInv; simpl; split; [auto|split; [auto|split; [congruence|auto]]]|].
        split; [reflexivity|]. split; simpl.
        -- intros B. destruct (S1 B) as [<- <-]. rewrite OC. reflexivity.
        -- intros NV. destruct xS; [discriminate| |]; specialize (S2 eq_refl); discriminate.
      * simpl. split; [unfold HInv; simpl; split; [auto|split; [auto|split; [congruence|auto]]]|].
        split; [reflexivity|]. split; simpl; auto. intros B. destruct (S1 B) as [<- <-]. reflexivity.
      * simpl. split; [unfold HInv; simpl; split; [auto|split; [auto|split; [congruence|auto]]]|].
        split; [reflexivity|]. split; simpl; auto. intros B. destruct (S1 B) as [<- <-]. reflexivity.
    + inversion E; subst. simpl. split; [unfold HInv; auto|auto].
  - rewrite <- CE, <- GE in E.
    destruct (nlookup cid (codes m)) as [fs|].
    + pose proof (good_set_out (ms m) []) as [T0 I0].
      destruct (run_formsL n (sft s) (mgv m) [] fs VNil (pols_forms n (set_out (ms m) []) (mgv m) fs ++ rest))
        as [[[[rS oS] ft'] gv'] pl] eqn:EL.
      destruct (run_forms_ex n fs (set_out (ms m) []) (sft s) (mgv m) VNil rest rS oS ft' gv' pl (I0 I)
                  (same_tabs_rel _ _ _ T0 R) EL) as (rM & st' & EM & [S1 S2] & I' & R' & PE).
      rewrite EM. inversion E; subst. simpl.
      split; [unfold HInv; simpl; auto|]. split; [reflexivity|].
      split; simpl; auto. intros B. destruct (S1 B) as [-> ->]. reflexivity.
    + inversion E; subst. simpl. split; [unfold HInv; auto|auto].
Qed.

Theorem history_exact_from : forall n ops m s rest, HInv m s -> no_fmak ops = true ->
  Forall2 oex (runL n s ops (pols_run n m ops ++ rest)) (runM n m ops).
Proof.
  intros n. induction ops as [|o r IH]; simpl; intros m s rest H NF; [constructor|].
  destruct (no_fmak_cons _ _ NF) as [N1 N2].
  rewrite <- app_assoc.
  destruct (stepL n s o (pols_step n m o ++ pols_run n (fst (stepM n m o)) r ++ rest)) as [[s' obS] pols'] eqn:EL.
  destruct (step_ex n m s o _ s' obS pols' H N1 EL) as (H' & -> & OB).
  destruct (stepM n m o) as [m' obM]. simpl in *.
  specialize (IH m' s' rest H' N2).
  destruct obS as [a|], obM as [b|]; try contradiction; simpl; auto.
Qed.
(* every history of {read, Code.Compile, Code.Eval}: under the lookup times M's run uses (each allowed by the
   language) the specification's outcomes are exactly M's - results, conditions (undefined-function included)
   and emitted values *)
Theorem history_exact : forall n ops, no_fmak ops = true ->
  Forall2 oex (runL n sinit ops (pols_run n minit ops)) (runM n minit ops).
Proof.
  intros n ops NF. rewrite <- (app_nil_r (pols_run n minit ops)). apply history_exact_from; auto. apply HInv_init.
Qed.
Corollary history_exact_exists : forall n ops, no_fmak ops = true ->
  exists pols, Forall2 oex (runL n sinit ops pols) (runM n minit ops).
Proof. intros n ops NF. exists (pols_run n minit ops). apply history_exact; auto. Qed.

(* with the empty oracle (every lookup before the arguments) runL is runS *)
Lemma gdef_evalS_ext : forall ev ev', (forall en o e, ev en o e = ev' en o e) ->
  forall gv o always nm init, gdef_evalS ev gv o always nm init = gdef_evalS ev' gv o always nm init.
Proof. intros ev ev' H gv o always nm init. unfold gdef_evalS. rewrite !H. reflexivity. Qed.
Lemma pols_after_nil : forall gv always nm, pols_after_gdef gv always nm [] = [].
Proof. intros. unfold pols_after_gdef. destruct (gdef_evaluates gv always nm); reflexivity. Qed.
Lemma run_formsL_early : forall n fs ft gv o v,
  run_formsL n ft gv o fs v [] = (run_formsS n ft gv o fs v, []).
Proof.
  intros n. induction fs as [|t r IH]; simpl; intros ft gv o v; auto.
  destruct t as [e|nm]; auto.
  destruct (parse_defun e) as [[[nm ps] body]|]; auto.
  destruct (parse_letdefun e) as [[[[clos nm] ps] body]|]; auto.
  destruct (parse_gdef e) as [[[always nm] init]|].
  - change (pol_hd []) with early. rewrite (gdef_evalS_ext _ _ (evalL_early ft n)), pols_after_nil.
    destruct (gdef_evalS (evalS n ft) gv o always nm init) as [[[w|er|] o1] gv1]; auto.
  - simpl. change (pol_hd []) with early. rewrite evalL_early.
    destruct (evalS n ft gv o e) as [[w|er|] o1]; auto.
Qed.
Lemma compile_defsL_early : forall n fs ft gv o,
  compile_defsL n ft gv o fs [] = (compile_defsS n ft gv o fs, []).
Proof.
  intros n. induction fs as [|t r IH]; simpl; intros ft gv o; auto.
  assert (KEEP : forall t0, (let '(x, o', ft', gv', r', p') := compile_defsL n ft gv o r [] in (x, o', ft', gv', t0 :: r', p')) =
                            (let '(x, o', ft', gv', r') := compile_defsS n ft gv o r in (x, o', ft', gv', t0 :: r'), [])).
  { intros t0. rewrite IH. destruct (compile_defsS n ft gv o r) as [[[[x o'] ft'] gv'] r']. reflexivity. }
  destruct t as [e|nm]; [|apply KEEP].
  destruct (parse_defun e) as [[[nm ps] body]|].
  - rewrite IH. destruct (compile_defsS n ((nm, (ps, body, [])) :: ft) gv o r) as [[[[x o'] ft'] gv'] r']. reflexivity.
  - destruct (parse_letdefun e) as [[[[clos nm] ps] body]|]; [apply KEEP|].
    destruct (parse_gdef e) as [[[always nm] init]|]; [|apply KEEP].
    change (pol_hd []) with early. rewrite (gdef_evalS_ext _ _ (evalL_early ft n)), pols_after_nil.
    destruct (gdef_evalS (evalS n ft) gv o always nm init) as [[[w|er|] o1] gv1]; auto.
    rewrite IH. destruct (compile_defsS n ft gv1 o1 r) as [[[[x o'] ft'] gv'] r']. reflexivity.
Qed.
Theorem runL_early : forall n ops s, runL n s ops [] = runS n s ops.
Proof.
  intros n. induction ops as [|o r IH]; simpl; intros s; auto.
  destruct o as [cid forms|cid|cid|fk]; simpl.
  - apply IH.
  - destruct (nlookup cid (scodes s)) as [fs|]; simpl; [|apply IH].
    rewrite compile_defsL_early. destruct (compile_defsS n (sft s) (sgv s) [] fs) as [[[[x o1] ft'] gv'] fs'].
    simpl. rewrite IH. reflexivity.
  - destruct (nlookup cid (scodes s)) as [fs|]; simpl; [|apply IH].
    rewrite run_formsL_early. destruct (run_formsS n (sft s) (sgv s) [] fs VNil) as [[[rr o1] ft'] gv'].
    simpl. rewrite IH. reflexivity.
  - apply IH.
Qed.

(* ---- the witnesses of the former finding C08-undefined-args-first, now exact -------------------------------
   (nodef (emit 5)) compiled: the placeholder call evaluates its argument, then signals undefined-function;
   (nodef (+ 1 (list 2))) compiled: the error in the argument is what the call signals; the list form of both
   signals undefined-function at once.  Each is what evalL says for the policy of the run. *)
Open Scope string_scope.
Definition undef_ops_list (arg : sexp) : list op := [OLoad 0 [SList 1 [SSym "nodef"; arg]]; ORun 0].
Example lookup_time_witness :
  let a1 := SList 2 [SSym "emit"; SInt 5] in
  let a2 := SList 2 [SSym "+"; SInt 1; SList 3 [SSym "list"; SInt 2]] in
  runM 50 minit (undef_ops a1) = [(Val VNil, []); (Err EUndefined, [VInt 5])] /\
  runL 50 sinit (undef_ops a1) (pols_run 50 minit (undef_ops a1)) = [(Val VNil, []); (Err EUndefined, [VInt 5])] /\
  runM 50 minit (undef_ops_list a1) = [(Err EUndefined, [])] /\
  runL 50 sinit (undef_ops_list a1) (pols_run 50 minit (undef_ops_list a1)) = [(Err EUndefined, [])] /\
  runM 50 minit (undef_ops a2) = [(Val VNil, []); (Err EType, [])] /\
  runL 50 sinit (undef_ops a2) (pols_run 50 minit (undef_ops a2)) = [(Val VNil, []); (Err EType, [])] /\
  runS 50 sinit (undef_ops a1) = [(Val VNil, []); (Err EUndefined, [])] /\ runS 50 sinit (undef_ops a2) = [(Val VNil, []); (Err EUndefined, [])].
Proof. vm_compute. auto 10. Qed.
