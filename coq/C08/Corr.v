(* C08 — executable comparison of one observed history with M and S. *)
From Coq Require Import List ZArith String Bool Arith NArith.
From C08 Require Import Model Spec.
Import ListNotations.
Open Scope list_scope.

Definition case := (list op * list obs)%type.
Definition FUEL : nat := 120.

Fixpoint value_eqb (a b : value) {struct a} : bool :=
  match a, b with
  | VInt x, VInt y => Z.eqb x y
  | VNil, VNil | VT, VT | VUnbound, VUnbound => true
  | VSym x, VSym y => String.eqb x y
  | VList xs, VList ys | VVals xs, VVals ys =>
      (fix eql (xs ys : list value) {struct xs} : bool :=
         match xs, ys with
         | [], [] => true
         | x :: xs', y :: ys' => value_eqb x y && eql xs' ys'
         | _, _ => false
         end) xs ys
  | _, _ => false
  end.
Fixpoint values_eqb (xs ys : list value) : bool :=
  match xs, ys with
  | [], [] => true
  | x :: xs', y :: ys' => value_eqb x y && values_eqb xs' ys'
  | _, _ => false
  end.
Definition err_eqb (a b : err) : bool :=
  match a, b with
  | EUnbound, EUnbound | EUndefined, EUndefined | ETooMany, ETooMany | ETooFew, ETooFew | EType, EType | EBadForm, EBadForm | EOther, EOther => true
  | _, _ => false
  end.
Definition res_eqb (a b : res) : bool :=
  match a, b with
  | Val x, Val y => value_eqb x y
  | Err x, Err y => err_eqb x y
  | OutOfFuel, OutOfFuel => true
  | _, _ => false
  end.
Definition obs_eqb (a b : obs) : bool := res_eqb (fst a) (fst b) && values_eqb (snd a) (snd b).
Fixpoint obss_eqb (xs ys : list obs) : bool :=
  match xs, ys with
  | [], [] => true
  | x :: xs', y :: ys' => obs_eqb x y && obss_eqb xs' ys'
  | _, _ => false
  end.

(* outcomes that S constrains: S's result is not undefined-function (there is no guard on programs or histories
   any more: repo_fixes/C08-3, C08-4) *)
(* outcomes that S constrains: S's result is not undefined-function (no guard on programs or histories) *)
Fixpoint bad_count (ss xs : list obs) : nat :=
  match ss, xs with
  | s :: ss', x :: xs' =>
      (if (comparable (fst s) && negb (obs_eqb s x)) || (negb (is_val (fst s)) && is_val (fst x)) then 1 else 0)
      + bad_count ss' xs'
  | _, _ => 0
  end.
Fixpoint constrained (ss : list obs) : nat :=
  match ss with
  | s :: ss' => (if comparable (fst s) then 1 else 0) + constrained ss'
  | _ => 0
  end.

(* ---- well-formedness of what the harness sent: list identities are unique --------------------- *)
Fixpoint ids_of (e : sexp) : list nat :=
  match e with
  | SList id xs => id :: (fix go (l : list sexp) : list nat := match l with [] => [] | x :: l' => ids_of x ++ go l' end) xs
  | _ => []
  end.
Definition op_ids (o : op) : list nat :=
  match o with OLoad _ forms => flat_map ids_of forms | _ => [] end.
Fixpoint nodupb (l : list nat) : bool :=
  match l with [] => true | x :: r => negb (existsb (Nat.eqb x) r) && nodupb r end.
Definition wf_case (c : case) : bool := nodupb (flat_map op_ids (fst c)).

(* every observed outcome must be the model's prediction, or S's outcome (an implementation that does better
   than the modelled defects outside the guard is not reported) *)
Fixpoint explained (ms ss xs : list obs) : bool :=
  match ms, ss, xs with
  | [], [], [] => true
  | m :: ms', s :: ss', x :: xs' => (obs_eqb m x || obs_eqb s x) && explained ms' ss' xs'
  | _, _, _ => false
  end.
(* exactness self-check: under the lookup times of M's run (pols_run) the specification runL must give exactly
   M's outcomes wherever it is binding (theorem history_exact) *)
Fixpoint exact_bad (gs : list bool) (ls ms : list obs) : nat :=
  match gs, ls, ms with
  | [], [], [] => 0
  | g :: gs', l :: ls', m :: ms' => (if g && binding (fst l) && negb (obs_eqb l m) then 1 else 0) + exact_bad gs' ls' ms'
  | _, _, _ => 1
  end.
(* 0 ok.  1: some observed outcome is neither M's nor S's, and the observed outcomes do not violate S where S
   constrains them (or the case is malformed).  2: some observed outcome is neither M's nor S's and an
   observed outcome differs from S where S is binding.  3: self-check: the observed outcomes are explained but
   M itself differs from S where S is binding, or from runL under its own lookup times (a refinement theorem
   would be false). *)
Definition check_case (c : case) : N :=
  let ops := fst c in
  let m := runM FUEL minit ops in
  let s := runS FUEL sinit ops in
  let l := runL FUEL sinit ops (pols_run FUEL minit ops) in
  let gs := before_fmak FUEL minit true ops in
  if negb (wf_case c) then 1%N
  else if explained m s (snd c) then (if Nat.eqb (bad_count s m) 0 && Nat.eqb (exact_bad gs l m) 0 then 0%N else 3%N)
  else if Nat.eqb (bad_count s (snd c)) 0 then 1%N else 2%N.
Fixpoint check_all_from (i : N) (cs : list case) : list (N * N) :=
  match cs with
  | [] => []
  | c :: cs' => let r := check_case c in (if N.eqb r 0 then [] else [(i, r)]) ++ check_all_from (N.succ i) cs'
  end.
Definition check_all := check_all_from 0%N.
(* how many observed outcomes S constrained, and how many it did not (S says undefined-function) *)
Definition guard_count (cs : list case) : N :=
  N.of_nat (fold_left (fun a c => a + constrained (runS FUEL sinit (fst c))) cs 0).
Definition outside_count (cs : list case) : N :=
  N.of_nat (fold_left (fun a c => a + (List.length (snd c) - constrained (runS FUEL sinit (fst c)))) cs 0).
(* observed outcomes that differ from S where S is binding (they make code 2) *)
Fixpoint dev_count (ss xs : list obs) : nat :=
  match ss, xs with
  | s :: ss', x :: xs' => (if comparable (fst s) && negb (obs_eqb s x) then 1 else 0) + dev_count ss' xs'
  | _, _ => 0
  end.
Definition deviation_count (cs : list case) : N :=
  N.of_nat (fold_left (fun a c => a + dev_count (runS FUEL sinit (fst c)) (snd c)) cs 0).

(* outcomes for which the lookup time of an undefined operator mattered: runL under M's lookup times differs from
   runS (lookup always before the arguments) *)
Fixpoint diff_count (ss ls : list obs) : nat :=
  match ss, ls with
  | s :: ss', l :: ls' => (if obs_eqb s l then 0 else 1) + diff_count ss' ls'
  | _, _ => 0
  end.
Definition late_count (cs : list case) : N :=
  N.of_nat (fold_left (fun a c => a + diff_count (runS FUEL sinit (fst c)) (runL FUEL sinit (fst c) (pols_run FUEL minit (fst c)))) cs 0).
