From Coq Require Import List ZArith String Bool Arith.
From C08 Require Import Model Spec.
Import ListNotations.
Lemma placeholder_true : True. Proof. exact I. Qed.
