(* C08, round 5 - comparison of one observed inherited-function history with M and S (Inherit.v). *)
From Coq Require Import List Arith Bool NArith.
From C08 Require Import Inherit.
Import ListNotations.
Open Scope list_scope.

(* names written in go in the library, operations, observed outcomes of the ICall operations *)
Definition icase := (list nat * list iop * list ires)%type.

Definition ires_eqb (a b : ires) : bool :=
  match a, b with
  | RNone, RNone | RUndef, RUndef | RGo, RGo | ROther, ROther => true
  | RVal x, RVal y => Nat.eqb x y
  | _, _ => false
  end.
Fixpoint iexplained (ms : list ires) (ss : list (ires * bool)) (xs : list ires) : bool :=
  match ms, ss, xs with
  | [], [], [] => true
  | m :: ms', s :: ss', x :: xs' => (ires_eqb m x || ires_eqb (fst s) x) && iexplained ms' ss' xs'
  | _, _, _ => false
  end.
(* outcomes differing from S where S is binding *)
Fixpoint ibad (ss : list (ires * bool)) (xs : list ires) : nat :=
  match ss, xs with
  | s :: ss', x :: xs' => (if snd s && negb (ires_eqb (fst s) x) then 1 else 0) + ibad ss' xs'
  | _, _ => 0
  end.
(* codes as in Corr.v: 0 ok; 1 an observed outcome is neither M's nor S's; 2 ... and an observed outcome differs
   from S where S is binding (failing input); 3 self-check: observed = explained but M differs from S inside the guard *)
Definition icheck_case (c : icase) : N :=
  let '(gs, ops, xs) := c in
  let gof := fun f => existsb (Nat.eqb f) gs in
  let m := irun (iinit gof) ops in
  let s := srun (sinit_i gof) ops in
  if iexplained m s xs then (if Nat.eqb (ibad s m) 0 then 0%N else 3%N)
  else if Nat.eqb (ibad s xs) 0 then 1%N else 2%N.
Fixpoint icheck_all_from (i : N) (cs : list icase) : list (N * N) :=
  match cs with
  | [] => []
  | c :: cs' => let r := icheck_case c in (if N.eqb r 0 then [] else [(i, r)]) ++ icheck_all_from (N.succ i) cs'
  end.
Definition icheck_all := icheck_all_from 0%N.
(* outcomes S constrained / did not (callers compiled to a go function that was redefined since) *)
Definition iguard_count (cs : list icase) : N :=
  N.of_nat (fold_left (fun a c => let '(gs, ops, _) := c in
     a + List.length (filter (fun s => snd s) (srun (sinit_i (fun f => existsb (Nat.eqb f) gs)) ops))) cs 0).
Definition ioutside_count (cs : list icase) : N :=
  N.of_nat (fold_left (fun a c => let '(gs, ops, _) := c in
     a + List.length (filter (fun s => negb (snd s)) (srun (sinit_i (fun f => existsb (Nat.eqb f) gs)) ops))) cs 0).
