(* C08, round 5 - theorems over the inherited-function model (Inherit.v). *)
From Coq Require Import List Arith Bool NArith Lia.
From C08 Require Import Inherit.
Import ListNotations.
Open Scope list_scope.

Lemma upd2_same : forall A (t : pkg -> name -> A) p f x, upd2 t p f x p f = x.
Proof. intros. unfold upd2. rewrite !Nat.eqb_refl. reflexivity. Qed.
Lemma upd_same : forall A (t : nat -> A) k x, upd t k x k = x.
Proof. intros. unfold upd. rewrite Nat.eqb_refl. reflexivity. Qed.
Lemma fiid_eqb_refl : forall i, fiid_eqb i i = true.
Proof. destruct i; cbn; apply Nat.eqb_refl. Qed.
Lemma updfi_same : forall A (t : fiid -> A) i x, updfi t i x i = x.
Proof. intros. unfold updfi. rewrite fiid_eqb_refl. reflexivity. Qed.

(* a registration is never replaced by "patch it or register the new one" *)
Lemma dl_lams_stable : forall st h' f' h f l, lams st h f = Some l -> dl_lams st h' f' h f = Some l.
Proof.
  intros st h' f' h f l H. unfold dl_lams. destruct (lams st h' f') eqn:E; [exact H|].
  unfold upd2. destruct (Nat.eqb h' h && Nat.eqb f' f) eqn:B; [|exact H].
  apply andb_true_iff in B. destruct B as [B1 B2]. apply Nat.eqb_eq in B1, B2. subst. congruence.
Qed.
Lemma dl_lams_reg : forall st h f, dl_lams st h f h f = Some (dl_lam st h f).
Proof.
  intros. unfold dl_lams, dl_lam. destruct (lams st h f) eqn:E; [exact E|]. apply upd2_same.
Qed.

Lemma lams_export_st : forall st p f, lams (export_st st p f) = lams st.
Proof. intros. unfold export_st. destruct (Nat.eqb p 0); reflexivity. Qed.
Lemma heap_export_st : forall st p f, heap (export_st st p f) = heap st.
Proof. intros. unfold export_st. destruct (Nat.eqb p 0); reflexivity. Qed.
Lemma callers_export_st : forall st p f, callers (export_st st p f) = callers st.
Proof. intros. unfold export_st. destruct (Nat.eqb p 0); reflexivity. Qed.
Lemma fcreate_export_st : forall st p f, fcreate (export_st st p f) = fcreate st.
Proof. intros. unfold export_st. destruct (Nat.eqb p 0); reflexivity. Qed.
Lemma fpkg_export_st : forall st p f, fpkg (export_st st p f) = fpkg st.
Proof. intros. unfold export_st. destruct (Nat.eqb p 0); reflexivity. Qed.
Lemma funcs_export_st_self : forall st p f, funcs (export_st st p f) p f = funcs st p f.
Proof.
  intros. unfold export_st. destruct (Nat.eqb p 0) eqn:E; [|reflexivity].
  apply Nat.eqb_eq in E. subst. cbn. reflexivity.
Qed.

Lemma lams_defun_st : forall st p f v, lams (defun_st st p f v) = dl_lams st (home st p f) f.
Proof. intros. unfold defun_st. destruct (funcs st p f); reflexivity. Qed.
Lemma heap_defun_st : forall st p f v,
  heap (defun_st st p f v) = upd (heap st) (dl_lam st (home st p f) f) (BVal v).
Proof. intros. unfold defun_st. destruct (funcs st p f); reflexivity. Qed.
Lemma callers_defun_st : forall st p f v, callers (defun_st st p f v) = callers st.
Proof. intros. unfold defun_st. destruct (funcs st p f); reflexivity. Qed.

(* (1) one step never replaces a registered Lambda *)
Lemma reg_stable_step : forall st o h f l, lams st h f = Some l -> lams (fst (istep st o)) h f = Some l.
Proof.
  intros st o h f l H. destruct o as [p g v|p c g|c]; cbn [istep fst].
  - rewrite lams_export_st, lams_defun_st. apply dl_lams_stable, H.
  - unfold compile_st. destruct (funcs st p g); cbn [lams]; [exact H|]. apply dl_lams_stable, H.
  - exact H.
Qed.
(* (2) ... hence no history does: at most ONE Lambda is ever registered for a function (home, name) *)
Lemma reg_stable_run : forall ops st h f l, lams st h f = Some l -> lams (irun_st st ops) h f = Some l.
Proof.
  induction ops as [|o r IH]; intros st h f l H; cbn [irun_st]; [exact H|].
  apply IH, reg_stable_step, H.
Qed.

(* (3) every defun, in ANY state and through ANY package, leaves the package with a FuncInfo whose creator hands
   out the Lambda registered in the function's HOME package, and that Lambda holds the new definition *)
Lemma defun_hands_out_registered : forall st p f v,
  let st' := fst (istep st (IDefun p f v)) in
  exists i l, funcs st' p f = Some i /\ fcreate st' i = CLam l /\
              lams st' (fpkg st' i) f = Some l /\ heap st' l = BVal v /\ fpkg st' i = home st p f.
Proof.
  intros st p f v. cbn [istep fst].
  rewrite funcs_export_st_self, fcreate_export_st, lams_export_st, fpkg_export_st, heap_export_st.
  rewrite lams_defun_st, heap_defun_st.
  unfold defun_st, home. destruct (funcs st p f) as [i|] eqn:E; cbn [funcs fcreate fpkg].
  - exists i, (dl_lam st (fpkg st i) f). rewrite updfi_same, upd_same, dl_lams_reg. rewrite E. auto.
  - exists (FNew (nfi st)), (dl_lam st p f). rewrite upd2_same, !updfi_same, upd_same, dl_lams_reg. auto.
Qed.

(* (4) a call compiled right after a defun through the same package points at that registered Lambda *)
Lemma compile_after_defun : forall st p f v c,
  let st1 := fst (istep st (IDefun p f v)) in
  let st2 := fst (istep st1 (ICompile p c f)) in
  exists l, callers st2 c = Some (TLam l) /\ lams st2 (home st p f) f = Some l.
Proof.
  intros st p f v c st1 st2.
  destruct (defun_hands_out_registered st p f v) as (i & l & Hf & Hc & Hl & _ & Hh). fold st1 in Hf, Hc, Hl, Hh.
  exists l. subst st2. cbn [istep fst]. unfold compile_st. rewrite Hf. cbn [callers lams].
  rewrite upd_same, Hc. cbn [tgt]. rewrite <- Hh. auto.
Qed.

Fixpoint no_recompile (c : nat) (ops : list iop) : bool :=
  match ops with
  | [] => true
  | ICompile _ c' _ :: r => negb (Nat.eqb c' c) && no_recompile c r
  | _ :: r => no_recompile c r
  end.
Lemma callers_stable_run : forall ops st c t, no_recompile c ops = true -> callers st c = Some t ->
  callers (irun_st st ops) c = Some t.
Proof.
  induction ops as [|o r IH]; intros st c t N H; cbn [irun_st]; [exact H|].
  destruct o as [p g v|p c' g|c']; cbn [no_recompile] in N; cbn [istep fst].
  - apply IH; [exact N|]. rewrite callers_export_st, callers_defun_st. exact H.
  - apply andb_true_iff in N. destruct N as [N1 N2]. apply IH; [exact N2|].
    apply negb_true_iff in N1. unfold compile_st. destruct (funcs st p g); cbn [callers]; unfold upd; rewrite N1; exact H.
  - apply IH; assumption.
Qed.

(* (5) late binding through inheritance: a caller whose slot holds the Lambda registered for (h, f) follows
   EVERY later definition of that function - after any history in between (definitions through other packages,
   other callers, calls), a defun through any package p that sees the function (home = h) is what the caller runs *)
Lemma caller_follows_latest : forall st c l h f ops p v,
  callers st c = Some (TLam l) -> lams st h f = Some l -> no_recompile c ops = true ->
  home (irun_st st ops) p f = h ->
  snd (istep (fst (istep (irun_st st ops) (IDefun p f v))) (ICall c)) = Some (RVal v).
Proof.
  intros st c l h f ops p v Hc Hl N Hh.
  pose proof (callers_stable_run ops st c _ N Hc) as Hc'.
  pose proof (reg_stable_run ops st h f l Hl) as Hl'.
  set (st' := irun_st st ops) in *. cbn [istep fst snd]. unfold call_res.
  rewrite callers_export_st, callers_defun_st, Hc', heap_export_st, heap_defun_st, Hh.
  unfold dl_lam. rewrite Hl', upd_same. reflexivity.
Qed.

(* ---- the seed's history and the finding ----------------------------------------------------------- *)
Definition gof1 : name -> bool := Nat.eqb 1.
(* function 1 is written in go in the library; package 1 redefines it, compiles caller 0, redefines it twice more *)
Definition twice_ops : list iop :=
  [IDefun 1 1 10; ICompile 1 0 1; ICall 0; IDefun 1 1 100; ICompile 1 1 1; ICall 0; ICall 1;
   IDefun 2 1 1000; ICall 0; ICall 1].
Lemma inherit_redefined_twice :
  irun (iinit gof1) twice_ops = [RVal 10; RVal 100; RVal 100; RVal 1000; RVal 1000] /\
  srun (sinit_i gof1) twice_ops = map (fun r => (r, true)) (irun (iinit gof1) twice_ops).
Proof. split; vm_compute; reflexivity. Qed.

(* finding C08-go-caller-stale: a call compiled while the function is still the one written in go holds the go
   function object itself; defun cannot reach it *)
Definition stale_ops : list iop := [ICompile 1 0 1; ICall 0; IDefun 1 1 7; ICall 0].
Lemma inherit_go_caller_refuted :
  irun (iinit gof1) stale_ops = [RGo; RGo] /\
  srun (sinit_i gof1) stale_ops = [(RGo, true); (RVal 7, false)].
Proof. split; vm_compute; reflexivity. Qed.
