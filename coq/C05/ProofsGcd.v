(* C05 — proofs, part 6: gcd and lcm.  The fixnum loops (Euclid with %, z / gcd(z, n) * n with the overflow
   test) and the math/big paths return Z.gcd / Z.lcm folded over the operands, nonnegative, in canonical
   form, for integers of any magnitude in any representation. *)
From C05 Require Import Model Spec Corr Proofs.
Open Scope Z_scope.

(* ---------- Euclid's loop terminates within the 200 iterations of the model ---------- *)
Lemma go_gcd_correct k : forall f x y, 0 <= x -> 0 <= y < 2 ^ Z.of_nat k -> (2 * k + 1 <= f)%nat ->
  go_gcd f x y = Z.gcd x y.
Proof.
  induction k as [|k IH]; intros f x y Hx Hy Hf.
  - assert (y = 0) by (cbn in Hy; lia). subst y. destruct f as [|f]; [lia|]. cbn [go_gcd]. change (0 =? 0) with true. cbv iota.
    rewrite Z.gcd_0_r. lia.
  - destruct f as [|f1]; [lia|]. cbn [go_gcd].
    destruct (Z.eqb_spec y 0) as [->|Hy0]; [rewrite Z.gcd_0_r; lia|].
    unfold grem. rewrite (Z.rem_mod_nonneg x y) by lia.
    pose proof (Z.mod_pos_bound x y ltac:(lia)) as Hr.
    rewrite (Z.gcd_comm x y), <- (Z.gcd_mod x y Hy0), (Z.gcd_comm (x mod y) y).
    remember (x mod y) as r eqn:Er. clear Er.
    destruct f1 as [|f2]; [lia|]. cbn [go_gcd].
    destruct (Z.eqb_spec r 0) as [->|Hr0]; [rewrite Z.gcd_0_r; lia|].
    unfold grem. rewrite (Z.rem_mod_nonneg y r) by lia.
    rewrite (Z.gcd_comm y r), <- (Z.gcd_mod y r Hr0), (Z.gcd_comm (y mod r) r).
    apply IH; [lia| |lia].
    (* y mod r < y / 2 < 2^k *)
    pose proof (Z.mod_pos_bound y r ltac:(lia)) as Hm.
    pose proof (Z.div_mod y r ltac:(lia)) as E.
    assert (1 <= y / r) by (apply Z.div_le_lower_bound; lia).
    rewrite Nat2Z.inj_succ, Z.pow_succ_r in Hy by lia.
    remember (y / r) as qq. remember (y mod r) as mm. clear Heqqq Heqmm. nia.
Qed.
Lemma fix_gcd_correct x y : 0 <= x -> 0 <= y < two63 -> fix_gcd x y = Z.gcd x y.
Proof. intros Hx Hy. unfold fix_gcd. apply (go_gcd_correct 63); [exact Hx|exact Hy|cbv; lia]. Qed.

Lemma fix_abs_abs n : in64 n = true -> n <> - two63 -> fix_abs n = Z.abs n /\ 0 <= Z.abs n < two63.
Proof.
  intros Hn Hm. apply in64_spec in Hn. unfold fix_abs. destruct (Z.ltb_spec n 0).
  - assert (I : in64 (- n) = true) by (apply in64_spec; unfold two63 in *; lia).
    rewrite (wrap64_id _ I). unfold two63 in *. lia.
  - unfold two63 in *. lia.
Qed.

(* ---------- shared facts about operand lists ---------- *)
Lemma ints_true zs : forallb (fun q : Z * Z => snd q =? 1) (map (fun z => (z, 1)) zs) = true.
Proof. induction zs; cbn; auto. Qed.
Lemma map_fst_ints zs : map fst (map (fun z : Z => (z, 1)) zs) = zs.
Proof. induction zs as [|z zs IH]; cbn; [reflexivity|]. rewrite IH. reflexivity. Qed.
Lemma gcd_done all l r : fold_left (gcd_step all) l (LDone r) = LDone r.
Proof. induction l as [|a l IH]; cbn; [reflexivity|exact IH]. Qed.
Lemma lcm_done all l r : fold_left (lcm_step all) l (LDone r) = LDone r.
Proof. induction l as [|a l IH]; cbn; [reflexivity|exact IH]. Qed.

(* ---------- gcd ---------- *)
Lemma big_gcd_correct l : forall z, all_int l = true ->
  big_gcd z l = RVal (canon_int (fold_left Z.gcd (fixes l) z)).
Proof.
  induction l as [|v l IH]; intros z Hi; [reflexivity|].
  cbn [all_int forallb] in Hi. apply andb_true_iff in Hi as [Hv Hi].
  destruct v; try discriminate; cbn [big_gcd fixes map fold_left as_int]; apply IH, Hi.
Qed.

Lemma gcd_loop_correct all l : forall first z, all_int l = true -> 0 <= z < two63 -> (first = true -> z = 0) ->
  all_int all = true -> fold_left Z.gcd (fixes all) 0 = fold_left Z.gcd (fixes l) z ->
  loop_res (fold_left (gcd_step all) l (LRun first z)) = RVal (canon_int (fold_left Z.gcd (fixes l) z)).
Proof.
  induction l as [|v l IH]; intros first z Hi Hz Hfirst Hall Htot.
  - cbn. symmetry. f_equal. apply canon_int_fix. apply in64_spec. unfold two63 in *. lia.
  - cbn [all_int forallb] in Hi. apply andb_true_iff in Hi as [Hv Hi].
    assert (Big : loop_res (fold_left (gcd_step all) l (LDone (big_gcd 0 all))) =
                  RVal (canon_int (fold_left Z.gcd (fixes (v :: l)) z))).
    { rewrite gcd_done. cbn [loop_res]. rewrite (big_gcd_correct all 0 Hall), Htot. reflexivity. }
    destruct v as [n|n| |]; try discriminate; cbn [fold_left gcd_step]; [|exact Big].
    destruct (Z.eqb_spec n (- two63)) as [Hm|Hm]; [exact Big|].
    destruct (fix_abs_abs n Hv Hm) as [Ea Ba]. cbv zeta. rewrite Ea.
    assert (Ez : (if first then Z.abs n else fix_gcd z (Z.abs n)) = Z.gcd z n).
    { destruct first.
      - assert (Ez0 : z = 0) by (apply Hfirst; reflexivity). rewrite Ez0. reflexivity.
      - rewrite (fix_gcd_correct z (Z.abs n)) by lia. apply Z.gcd_abs_r. }
    rewrite Ez. cbn [fixes map fold_left as_int]. apply IH; try assumption; try discriminate.
    pose proof (Z.gcd_nonneg z n). split; [lia|].
    destruct (Z.eq_dec z 0) as [->|Hz0]; [change (Z.gcd 0 n) with (Z.abs n); lia|].
    assert (Z.gcd z n <= z) by (apply Z.divide_pos_le; [lia|apply Z.gcd_divide_l]). lia.
Qed.

Lemma gcd_exact args : in_domain OGcd args = true -> s_out OGcd args = Some (m_op OGcd args).
Proof.
  cbn [in_domain]. intros Hi. unfold s_out. rewrite (all_int_denotes' _ Hi). cbn [s_op m_op]. unfold m_gcd.
  rewrite ints_true, map_fst_ints. f_equal. f_equal. symmetry.
  apply gcd_loop_correct; try assumption; [unfold two63; lia|reflexivity|reflexivity].
Qed.

(* ---------- lcm ---------- *)
Lemma fold_lcm_0 l : fold_left Z.lcm l 0 = 0.
Proof. induction l as [|a l IH]; cbn [fold_left]; [reflexivity|]. rewrite Z.lcm_0_l. exact IH. Qed.
(* z / gcd(z, n) * n is the least common multiple *)
Lemma lcm_pos z n : 0 < z -> 0 < n -> z / Z.gcd z n * n = Z.lcm z n /\ 0 < z / Z.gcd z n <= z /\ 0 < Z.lcm z n.
Proof.
  intros Hz Hn. unfold Z.lcm.
  pose proof (Z.gcd_nonneg z n) as G0.
  assert (Hg : Z.gcd z n <> 0) by (intros E; apply Z.gcd_eq_0_l in E; lia).
  destruct (Z.gcd_divide_l z n) as [a Ha]. destruct (Z.gcd_divide_r z n) as [b Hb].
  remember (Z.gcd z n) as g. clear Heqg.
  assert (Ea : z / g = a) by (rewrite Ha at 1; apply Z.div_mul; exact Hg).
  assert (Eb : n / g = b) by (rewrite Hb at 1; apply Z.div_mul; exact Hg).
  rewrite Ea, Eb.
  assert (0 < g) by lia. assert (0 < a) by nia. assert (0 < b) by nia.
  assert (Hp : 0 < z * b) by nia.
  rewrite (Z.abs_eq (z * b)) by lia. repeat split; try lia; nia.
Qed.

Lemma big_lcm_correct l : forall z, all_int l = true -> 0 < z ->
  big_lcm z l = RVal (canon_int (fold_left Z.lcm (fixes l) z)).
Proof.
  induction l as [|v l IH]; intros z Hi Hz; [reflexivity|].
  cbn [all_int forallb] in Hi. apply andb_true_iff in Hi as [Hv Hi].
  assert (Step : forall n, v = VFix n \/ v = VBig n ->
            (if n =? 0 then RVal (VFix 0) else big_lcm (z / Z.gcd z (Z.abs n) * Z.abs n) l) =
            RVal (canon_int (fold_left Z.lcm (fixes l) (Z.lcm z n)))).
  { intros n _. destruct (Z.eqb_spec n 0) as [->|Hn].
    - rewrite Z.lcm_0_r, fold_lcm_0. reflexivity.
    - destruct (lcm_pos z (Z.abs n) Hz ltac:(lia)) as (E & _ & P). rewrite E, Z.lcm_abs_r in *. apply IH; assumption. }
  destruct v as [n|n| |]; try discriminate; cbn [big_lcm fixes map fold_left as_int]; apply Step; auto.
Qed.

(* the overflow test of the fixnum loop *)
Lemma lcm_overflow_test q n : in64 q = true -> in64 n = true -> 0 < n ->
  (gquot (wrap64 (q * n)) n =? q) = in64 (q * n).
Proof.
  intros Iq In Hn. pose proof (mul_fix_spec n q In Iq) as S. unfold mul_fix in S. cbv zeta in S.
  replace (n =? 0) with false in S by (symmetry; apply Z.eqb_neq; lia).
  replace (n =? -1) with false in S by (symmetry; apply Z.eqb_neq; lia).
  cbn [negb andb orb] in S. rewrite orb_false_r in S. rewrite (Z.mul_comm n q) in S.
  destruct (gquot (wrap64 (q * n)) n =? q), (in64 (q * n)); cbn [negb] in S; try reflexivity; discriminate S.
Qed.

Lemma lcm_loop_correct all l : forall first z, all_int l = true -> 0 < z < two63 -> (first = true -> z = 1) ->
  all_int all = true -> fold_left Z.lcm (fixes all) 1 = fold_left Z.lcm (fixes l) z ->
  loop_res (fold_left (lcm_step all) l (LRun first z)) = RVal (canon_int (fold_left Z.lcm (fixes l) z)).
Proof.
  induction l as [|v l IH]; intros first z Hi Hz Hfirst Hall Htot.
  - cbn. symmetry. f_equal. apply canon_int_fix. apply in64_spec. unfold two63 in *. lia.
  - cbn [all_int forallb] in Hi. apply andb_true_iff in Hi as [Hv Hi].
    assert (Big : loop_res (fold_left (lcm_step all) l (LDone (big_lcm 1 all))) =
                  RVal (canon_int (fold_left Z.lcm (fixes (v :: l)) z))).
    { rewrite lcm_done. cbn [loop_res]. rewrite (big_lcm_correct all 1 Hall ltac:(lia)), Htot. reflexivity. }
    destruct v as [n|n| |]; try discriminate; cbn [fold_left lcm_step]; [|exact Big].
    destruct (Z.eqb_spec n (- two63)) as [Hm|Hm]; [exact Big|].
    cbn [fixes map fold_left as_int].
    destruct (Z.eqb_spec n 0) as [->|Hn0].
    { rewrite lcm_done. rewrite Z.lcm_0_r, fold_lcm_0. reflexivity. }
    destruct (fix_abs_abs n Hv Hm) as [Ea Ba]. cbv zeta. rewrite Ea.
    assert (Hn' : 0 < Z.abs n) by lia.
    destruct first.
    + assert (Ez1 : z = 1) by (apply Hfirst; reflexivity). subst z. rewrite Z.lcm_1_l in *. apply IH; try assumption; try discriminate; try lia.
      rewrite Htot. cbn [fixes map fold_left as_int]. rewrite Z.lcm_1_l. reflexivity.
    + rewrite (fix_gcd_correct z (Z.abs n)) by lia.
      destruct (lcm_pos z (Z.abs n) ltac:(lia) Hn') as (E & Bq & P). rewrite Z.lcm_abs_r in E, P.
      assert (Hg : Z.gcd z (Z.abs n) <> 0) by (intros E0; apply Z.gcd_eq_0_l in E0; lia).
      apply Z.eqb_neq in Hg. rewrite Hg. apply Z.eqb_neq in Hg.
      pose proof (Z.gcd_nonneg z (Z.abs n)) as G0.
      assert (Eq : gquot z (Z.gcd z (Z.abs n)) = z / Z.gcd z (Z.abs n)).
      { unfold gquot. rewrite Z.quot_div_nonneg by lia. apply wrap64_id. apply in64_spec. unfold two63 in *. lia. }
      rewrite Eq.
      assert (Iq : in64 (z / Z.gcd z (Z.abs n)) = true) by (apply in64_spec; unfold two63 in *; lia).
      assert (In : in64 (Z.abs n) = true) by (apply in64_spec; unfold two63 in *; lia).
      rewrite (lcm_overflow_test _ _ Iq In Hn'). rewrite E.
      destruct (in64 (Z.lcm z n)) eqn:Il; cbn [negb]; [|exact Big].
      rewrite (wrap64_id _ Il). apply in64_spec in Il.
      apply IH; try assumption; try discriminate; try lia.
Qed.

Lemma lcm_exact args : in_domain OLcm args = true -> s_out OLcm args = Some (m_op OLcm args).
Proof.
  cbn [in_domain]. intros Hi. unfold s_out. rewrite (all_int_denotes' _ Hi). cbn [s_op m_op]. unfold m_lcm.
  rewrite ints_true, map_fst_ints. f_equal. f_equal. symmetry.
  apply lcm_loop_correct; try assumption; [unfold two63; lia|reflexivity|reflexivity].
Qed.

(* gcd and lcm are nonnegative, and lcm is 0 as soon as an operand is 0 *)
Lemma fold_gcd_nonneg l z : 0 <= z -> 0 <= fold_left Z.gcd l z.
Proof. revert z. induction l as [|a l IH]; intros z Hz; cbn [fold_left]; [exact Hz|]. apply IH, Z.gcd_nonneg. Qed.
Lemma fold_lcm_nonneg l z : 0 <= z -> 0 <= fold_left Z.lcm l z.
Proof. revert z. induction l as [|a l IH]; intros z Hz; cbn [fold_left]; [exact Hz|]. apply IH, Z.lcm_nonneg. Qed.
Lemma fold_lcm_zero l : forall z, In 0 l -> fold_left Z.lcm l z = 0.
Proof.
  induction l as [|a l IH]; intros z H; [contradiction|]. cbn [fold_left]. destruct H as [->|H].
  - rewrite Z.lcm_0_r. apply fold_lcm_0.
  - apply IH, H.
Qed.

(* in terms of the absolute values of the operands *)
Lemma fold_gcd_abs l : forall z, fold_left Z.gcd (map Z.abs l) z = fold_left Z.gcd l z.
Proof. induction l as [|a l IH]; intros z; cbn [map fold_left]; [reflexivity|]. rewrite Z.gcd_abs_r. apply IH. Qed.
Lemma fold_lcm_abs l : forall z, fold_left Z.lcm (map Z.abs l) z = fold_left Z.lcm l z.
Proof. induction l as [|a l IH]; intros z; cbn [map fold_left]; [reflexivity|]. rewrite Z.lcm_abs_r. apply IH. Qed.

Theorem gcd_lcm_values args : all_int args = true ->
  let g := fold_left Z.gcd (map Z.abs (fixes args)) 0 in
  let m := fold_left Z.lcm (map Z.abs (fixes args)) 1 in
  o_res (m_op OGcd args) = RVal (canon_int g) /\ 0 <= g /\
  o_res (m_op OLcm args) = RVal (canon_int m) /\ 0 <= m /\
  (In 0 (fixes args) -> o_res (m_op OLcm args) = RVal (VFix 0)) /\
  o_args (m_op OGcd args) = args /\ o_args (m_op OLcm args) = args.
Proof.
  intros Hi g m. subst g m. rewrite fold_gcd_abs, fold_lcm_abs.
  assert (G : o_res (m_op OGcd args) = RVal (canon_int (fold_left Z.gcd (fixes args) 0))).
  { cbn [m_op m_gcd o_res]. apply gcd_loop_correct; try assumption; [unfold two63; lia|reflexivity|reflexivity]. }
  assert (L : o_res (m_op OLcm args) = RVal (canon_int (fold_left Z.lcm (fixes args) 1))).
  { cbn [m_op m_lcm o_res]. apply lcm_loop_correct; try assumption; [unfold two63; lia|reflexivity|reflexivity]. }
  repeat split; try assumption.
  - apply fold_gcd_nonneg. lia.
  - apply fold_lcm_nonneg. lia.
  - intros H0. rewrite L, (fold_lcm_zero _ 1 H0). reflexivity.
Qed.
