(* C05 — proofs, part 5: / .  big.Rat keeps every ratio in lowest terms with a positive denominator
   (mkrat); canonical values are unique representations of their rational value, so the model's result
   equals the specification's as soon as it is canonical and has the right value. *)
From C05 Require Import Model Spec Corr Proofs ProofsRound ProofsCmp.
Open Scope Z_scope.

(* ---------- big.Rat normalisation: lowest terms ---------- *)
Lemma rnorm_coprime N D : D <> 0 -> Z.gcd (fst (rnorm N D)) (snd (rnorm N D)) = 1.
Proof.
  intros HD. unfold rnorm; cbn [fst snd].
  assert (Hg : Z.gcd N D <> 0) by (intros E; apply Z.gcd_eq_0_r in E; contradiction).
  pose proof (Z.gcd_div_gcd N D (Z.gcd N D) Hg eq_refl) as G.
  destruct (D <? 0).
  - replace (-1 * (N / Z.gcd N D)) with (- (N / Z.gcd N D)) by lia.
    replace (-1 * (D / Z.gcd N D)) with (- (D / Z.gcd N D)) by lia.
    rewrite Z.gcd_opp_l, Z.gcd_opp_r. exact G.
  - rewrite !Z.mul_1_l. exact G.
Qed.
Lemma mkrat_spec N D : D <> 0 ->
  exists n d, mkrat N D = VRat n d /\ 0 < d /\ Z.gcd n d = 1 /\ n * D = N * d.
Proof.
  intros HD. exists (fst (rnorm N D)), (snd (rnorm N D)). rewrite (mkrat_rnorm N D HD).
  destruct (rnorm_spec N D HD) as [E P]. repeat split; [exact P|apply rnorm_coprime, HD|exact E].
Qed.

(* a result in lowest terms: what math/big can hold, whatever slip's canonical form would be *)
Lemma lowest_wf v : lowest v = true -> wf v = true.
Proof. destruct v; cbn; try tauto. rewrite andb_true_iff. tauto. Qed.
Lemma canonical_lowest v : canonical v = true -> lowest v = true.
Proof.
  destruct v as [z|z|n d|]; cbn; try tauto. rewrite !andb_true_iff, !Z.ltb_lt. intros [H1 H2]. split; [lia|exact H2].
Qed.

(* the canonical form is canonical, and it is the only canonical value of its rational value *)
Lemma canon_int_canonical z : canonical (canon_int z) = true.
Proof. unfold canon_int. destruct (in64 z) eqn:H; cbn; rewrite H; reflexivity. Qed.
Lemma canon_canonical N D : D <> 0 -> canonical (canon N D) = true.
Proof.
  intros HD. unfold canon. destruct (mkrat_spec N D HD) as (n & d & -> & Pd & G & E).
  destruct (Z.eqb_spec d 1) as [->|Hd1]; [apply canon_int_canonical|].
  cbn. rewrite G. replace (1 <? d) with true by (symmetry; apply Z.ltb_lt; lia). reflexivity.
Qed.
Lemma canon_unique v N D : D <> 0 -> canonical v = true -> has_value v N D -> v = canon N D.
Proof.
  intros HD Cv (x & y & Dv & Ev). destruct (canon_value N D HD) as (x' & y' & Dc & Ec).
  pose proof (canonical_qeq v (canon N D) (x, y) (x', y') Cv (canon_canonical N D HD) Dv Dc) as Q.
  apply val_eqb_eq. rewrite <- Q. unfold qeq. cbn [fst snd]. apply Z.eqb_eq.
  apply (Z.mul_reg_r _ _ D HD).
  transitivity (x * D * y'); [ring|]. rewrite Ev. transitivity (x' * D * y); [|ring]. rewrite Ec. ring.
Qed.
(* a ratio in lowest terms whose value is not an integer is canonical *)
Lemma mkrat_canonical N D : D <> 0 -> ~ (D | N) -> canonical (mkrat N D) = true.
Proof.
  intros HD Hnd. destruct (mkrat_spec N D HD) as (n & d & -> & Pd & G & E). cbn. rewrite G.
  destruct (Z.eq_dec d 1) as [->|Hd1]; [exfalso; apply Hnd; exists n; lia|].
  replace (1 <? d) with true by (symmetry; apply Z.ltb_lt; lia). reflexivity.
Qed.
Lemma mkrat_value N D : D <> 0 -> has_value (mkrat N D) N D.
Proof. intros HD. destruct (mkrat_spec N D HD) as (n & d & -> & Pd & G & E). exists n, d. split; [reflexivity|exact E]. Qed.
Lemma mkrat_lowest N D : D <> 0 -> lowest (mkrat N D) = true.
Proof.
  intros HD. destruct (mkrat_spec N D HD) as (n & d & -> & Pd & G & E). cbn. rewrite G.
  replace (0 <? d) with true by (symmetry; apply Z.ltb_lt; lia). reflexivity.
Qed.

(* ---------- one step of / ---------- *)
Lemma value_step x y N D n d an ad : y <> 0 -> x * D = N * y -> n * (y * an) = (x * ad) * d ->
  n * (D * an) = (N * ad) * d.
Proof.
  intros Hy H1 H2. apply (Z.mul_reg_l _ _ y Hy).
  transitivity (n * (y * an) * D); [ring|]. rewrite H2.
  transitivity (x * D * ad * d); [ring|]. rewrite H1. ring.
Qed.

Lemma fold_div2_cond l c : fold_left div2 l (RCond c) = RCond c.
Proof. induction l; cbn; auto. Qed.
Lemma fold_div2_inexact l : fold_left div2 l (RVal VInexact) = RVal VInexact.
Proof.
  induction l as [|a l IH]; cbn [fold_left]; [reflexivity|].
  replace (div2 (RVal VInexact) a) with (RVal VInexact); [exact IH|].
  cbn. destruct a; reflexivity.
Qed.

(* the quotient q / a for q = N/D (in any representation math/big can hold) and a = an/ad:
   division-by-zero when an = 0, else a value in lowest terms equal to (N ad)/(D an); or the pair goes
   through floats (a bignum beyond 64 bits with a ratio) *)
Lemma div2_step q a N D : wf q = true -> wf a = true -> has_value q N D -> D <> 0 ->
  div2 (RVal q) a = RVal VInexact \/
  (as_num a = 0 /\ div2 (RVal q) a = RCond CDivZero) \/
  (as_num a <> 0 /\ exists v, div2 (RVal q) a = RVal v /\ lowest v = true /\ has_value v (N * as_den a) (D * as_num a)).
Proof.
  intros Wq Wa (x & y & Dq & Eq) HD.
  destruct (wf_denote q Wq) as [Dq' Pq]. rewrite Dq in Dq'. injection Dq' as -> ->.
  destruct (wf_denote a Wa) as [Da Pa].
  assert (Hy : as_den q <> 0) by lia.
  (* a common finish: a ratio built by mkrat from numerator U and denominator V with the right cross product *)
  assert (Fin : forall U V, V <> 0 -> as_num a <> 0 -> U * (as_den q * as_num a) = (as_num q * as_den a) * V ->
            exists v, RVal (mkrat U V) = RVal v /\ lowest v = true /\ has_value v (N * as_den a) (D * as_num a)).
  { intros U V HV Hn HUV. exists (mkrat U V). split; [reflexivity|]. split; [apply mkrat_lowest, HV|].
    destruct (mkrat_spec U V HV) as (n & d & -> & Pd & G & E). exists n, d. split; [reflexivity|].
    apply (value_step (as_num q) (as_den q) N D n d (as_num a) (as_den a) Hy Eq).
    apply (Z.mul_reg_r _ _ V HV).
    transitivity (n * V * (as_den q * as_num a)); [ring|]. rewrite E.
    transitivity (U * (as_den q * as_num a) * d); [ring|]. rewrite HUV. ring. }
  unfold div2.
  destruct (norm_kind a q) eqn:Hk.
  - (* fixnums *)
    destruct q as [k|k|qn qd|], a as [z|z|an ad|]; cbn [norm_kind] in Hk; try discriminate Hk;
      try (destruct (fits64 _); discriminate Hk). cbn [as_int as_num as_den] in *.
    destruct (Z.eqb_spec z 0) as [->|Hz]; [right; left; auto|]. right. right. split; [exact Hz|].
    destruct ((k =? - two63) && (z =? -1)) eqn:Hm.
    + apply andb_true_iff in Hm as [H1 H2]. apply Z.eqb_eq in H1, H2. subst k z.
      eexists. split; [reflexivity|]. split; [reflexivity|]. exists (- - two63), 1. split; [reflexivity|]. lia.
    + apply in64_spec in Wq, Wa.
      pose proof (quot_in64 k z Wq Wa Hz Hm) as Iq.
      unfold grem, gquot. rewrite (wrap64_id _ Iq).
      destruct (Z.eqb_spec (Z.rem k z) 0) as [Hr|Hr].
      * eexists. split; [reflexivity|]. split; [exact Iq|]. exists (Z.quot k z), 1. split; [reflexivity|].
        apply (Z.quot_exact k z Hz) in Hr. rewrite !Z.mul_1_r in *.
        transitivity (Z.quot k z * z * D); [ring|]. replace (Z.quot k z * z) with k by lia. exact Eq.
      * apply Fin; [exact Hz|exact Hz|ring].
  - (* bignums *)
    destruct (kbig_ints _ _ Hk) as (E1 & E2 & E3 & E4). rewrite E1, E2, E3, E4 in *.
    destruct (Z.eqb_spec (as_int a) 0) as [Hz0|Hz]; [right; left; auto|]. right. right. split; [exact Hz|].
    destruct (Z.eqb_spec (Z.rem (as_int q) (as_int a)) 0) as [Hr|Hr].
    + eexists. split; [reflexivity|]. split; [reflexivity|]. exists (Z.quot (as_int q) (as_int a)), 1. split; [reflexivity|].
      apply (Z.quot_exact _ _ Hz) in Hr. rewrite !Z.mul_1_r in *.
      transitivity (Z.quot (as_int q) (as_int a) * as_int a * D); [ring|].
      replace (Z.quot (as_int q) (as_int a) * as_int a) with (as_int q) by lia. exact Eq.
    + apply Fin; [exact Hz|exact Hz|ring].
  - (* ratios *)
    destruct (Z.eqb_spec (as_num a) 0) as [Hz0|Hz]; [right; left; auto|]. right. right. split; [exact Hz|].
    apply Fin; [nia|exact Hz|ring].
  - left. reflexivity.
Qed.

(* ---------- the whole chain: exact value in lowest terms, unless a pair goes through floats ---------- *)
Definition sdiv (x y : Z * Z) : Z * Z := (fst x * snd y, snd x * fst y).
Lemma div_fold rest : forall qs q t, denotes rest = Some qs -> forallb wf rest = true -> wf q = true ->
  has_value q (fst t) (snd t) -> snd t <> 0 ->
  fold_left div2 rest (RVal q) = RVal VInexact \/
  (existsb (fun p => fst p =? 0) qs = true /\ fold_left div2 rest (RVal q) = RCond CDivZero) \/
  (existsb (fun p => fst p =? 0) qs = false /\ exists v, fold_left div2 rest (RVal q) = RVal v /\ wf v = true /\
     has_value v (fst (fold_left sdiv qs t)) (snd (fold_left sdiv qs t)) /\ snd (fold_left sdiv qs t) <> 0 /\
     (rest <> [] -> lowest v = true)).
Proof.
  induction rest as [|a rest IH]; intros qs q t Dr Wr Wq Hv Ht.
  - cbn in Dr. injection Dr as <-. right. right. split; [reflexivity|]. exists q. cbn. repeat split; try assumption. congruence.
  - cbn [denotes] in Dr. cbn [forallb] in Wr. apply andb_true_iff in Wr as [Wa Wr].
    destruct (wf_denote a Wa) as [Da Pa]. rewrite Da in Dr.
    destruct (denotes rest) as [qr|] eqn:Er; [|discriminate]. injection Dr as <-.
    cbn [fold_left existsb fst].
    destruct (div2_step q a (fst t) (snd t) Wq Wa Hv Ht) as [Hi|[[Hz Hc]|(Hz & v & Ev & Lv & Vv)]].
    + left. rewrite Hi. apply fold_div2_inexact.
    + right. left. rewrite Hz, Hc. split; [reflexivity|apply fold_div2_cond].
    + apply Z.eqb_neq in Hz. rewrite Hz. cbn [orb]. rewrite Ev. apply Z.eqb_neq in Hz.
      assert (Ht' : snd (sdiv t (as_num a, as_den a)) <> 0) by (unfold sdiv; cbn [fst snd]; nia).
      destruct (IH qr v (sdiv t (as_num a, as_den a)) eq_refl Wr (lowest_wf v Lv) Vv Ht') as [Hi|[[Hz' Hc]|(Hz' & w & Ew & Ww & Vw & Tw & Lw)]].
      * left. exact Hi.
      * right. left. auto.
      * right. right. split; [exact Hz'|]. exists w. repeat split; try assumption.
        intros _. destruct rest as [|b rest']; [|apply Lw; discriminate].
        cbn in Ew. injection Ew as <-. exact Lv.
Qed.

Lemma wf_denotes l : forallb wf l = true -> exists qs, denotes l = Some qs.
Proof.
  induction l as [|c l IH]; intros Wl; [exists []; reflexivity|]. cbn in Wl. apply andb_true_iff in Wl as [Wc Wl].
  destruct (IH Wl) as [qs Hq]. destruct (wf_denote c Wc) as [Dc _]. exists ((as_num c, as_den c) :: qs). cbn. rewrite Dc, Hq. reflexivity.
Qed.


(* / of any operands the implementation can hold: unless a step pairs a bignum beyond 64 bits with a
   ratio (float path), the result has the exact rational value and is in lowest terms with a positive
   denominator; a zero divisor gives division-by-zero exactly where the specification demands it *)
Theorem div_value_exact args : forallb wf args = true -> 2 <= Z.of_nat (length args) ->
  exact_res (o_res (m_op ODiv args)) = true ->
  exists so, s_out ODiv args = Some so /\
    res_same_value (o_res so) (o_res (m_op ODiv args)) = true /\
    lowest_res (o_res (m_op ODiv args)) = true /\
    (o_res so = RCond CDivZero <-> o_res (m_op ODiv args) = RCond CDivZero).
Proof.
  intros Wf Hlen Hex. destruct args as [|a [|b rest]]; try (cbn in Hlen; lia).
  cbn [forallb] in Wf. apply andb_true_iff in Wf as [Wa Wr].
  destruct (wf_denote a Wa) as [Da Pa].
  destruct (wf_denotes (b :: rest) Wr) as [qs Dq].
  unfold s_out. cbn [denotes]. cbn [denotes] in Dq. rewrite Da.
  destruct (denote b) as [qb|] eqn:Db; [|discriminate]. destruct (denotes rest) as [qr|] eqn:Dr; [|discriminate].
  injection Dq as <-. eexists. split; [reflexivity|].
  cbn [m_op m_div o_res] in *. cbn [s_op].
  assert (Hva : has_value a (fst (as_num a, as_den a)) (snd (as_num a, as_den a))).
  { exists (as_num a), (as_den a). split; [exact Da|reflexivity]. }
  assert (Dbr : denotes (b :: rest) = Some (qb :: qr)) by (cbn; rewrite Db, Dr; reflexivity).
  destruct (div_fold (b :: rest) (qb :: qr) a (as_num a, as_den a) Dbr Wr Wa Hva ltac:(cbn; lia))
    as [Hi|[[Hz Hc]|(Hz & v & Ev & Wv & Vv & Tv & Lv)]].
  - rewrite Hi in Hex. discriminate.
  - rewrite Hz, Hc. cbn. repeat split; auto.
  - rewrite Hz, Ev. change (fun x y : Z * Z => (fst x * snd y, snd x * fst y)) with sdiv.
    remember (fold_left sdiv (qb :: qr) (as_num a, as_den a)) as t. cbn [res_same_value lowest_res].
    split; [|split; [apply Lv; discriminate|split; discriminate]].
    rewrite (same_value (fst t) (snd t) (canon (fst t) (snd t)) v Tv (canon_value _ _ Tv) Vv). reflexivity.
Qed.

(* ---------- / on fixnums: canonical form ---------- *)
Definition good (v : val) : bool :=
  match v with
  | VFix k => in64 k && negb (k =? - two63)
  | VRat n d => (1 <? d) && (Z.gcd n d =? 1)
  | _ => false
  end.
Lemma good_canonical v : good v = true -> canonical v = true.
Proof. destruct v; cbn; try tauto; try discriminate. rewrite andb_true_iff. tauto. Qed.

(* one step with a fixnum divisor *)
Lemma div2_fix_step q z : (good q = true \/ exists k, q = VFix k /\ in64 k = true) -> in64 z = true -> z <> 0 ->
  exists v, div2 (RVal q) (VFix z) = RVal v /\ canonical v = true /\ (good q = true -> good v = true).
Proof.
  intros Hq Iz Hz.
  assert (Hq' : (exists k, q = VFix k /\ in64 k = true) \/ (exists n d, q = VRat n d /\ 1 < d /\ Z.gcd n d = 1)).
  { destruct Hq as [G|H]; [|left; exact H]. destruct q as [k| |n d|]; try discriminate G; cbn in G; apply andb_true_iff in G as [G1 G2].
    - left. exists k. auto.
    - right. exists n, d. apply Z.ltb_lt in G1. apply Z.eqb_eq in G2. auto. }
  destruct Hq' as [(k & -> & Ik)|(n & d & -> & Hd & G)].
  - unfold div2. cbn [norm_kind as_int]. apply Z.eqb_neq in Hz. rewrite Hz. apply Z.eqb_neq in Hz.
    destruct ((k =? - two63) && (z =? -1)) eqn:Hm.
    + apply andb_true_iff in Hm as [H1 H2]. apply Z.eqb_eq in H1, H2. subst k z.
      eexists. split; [reflexivity|]. split; [reflexivity|]. intros Gq. discriminate Gq.
    + pose proof Ik as Ik'. apply in64_spec in Ik. pose proof Iz as Iz'. apply in64_spec in Iz.
      pose proof (quot_in64 k z Ik Iz Hz Hm) as Iq.
      unfold grem, gquot. rewrite (wrap64_id _ Iq).
      destruct (Z.eqb_spec (Z.rem k z) 0) as [Hr|Hr].
      * eexists. split; [reflexivity|]. split; [exact Iq|]. intros Gq. cbn in Gq |- *. rewrite Iq. cbn [andb].
        apply andb_true_iff in Gq as [_ Gq]. apply negb_true_iff in Gq. apply Z.eqb_neq in Gq.
        apply negb_true_iff. apply Z.eqb_neq.
        (* |k / z| <= |k| < 2^63 *)
        pose proof (Z.quot_abs k z Hz) as QA.
        pose proof (Z.mul_quot_le (Z.abs k) (Z.abs z) (Z.abs_nonneg _) ltac:(lia)) as ML. rewrite QA in ML.
        remember (Z.quot k z) as qq. clear Heqqq QA.
        assert (Z.abs qq <= Z.abs k).
        { apply Z.le_trans with (Z.abs z * Z.abs qq); [|apply ML]. rewrite <- (Z.mul_1_l (Z.abs qq)) at 1.
          apply Z.mul_le_mono_nonneg_r; lia. }
        unfold two63 in *. lia.
      * assert (Hnd : ~ (z | k)) by (intros Hd; apply (Z.rem_divide k z Hz) in Hd; contradiction).
        pose proof (mkrat_canonical k z Hz Hnd) as C.
        exists (mkrat k z). split; [reflexivity|]. split; [exact C|]. intros _.
        destruct (mkrat_spec k z Hz) as (n & d & E & _). rewrite E in *. exact C.
  - unfold div2. cbn [norm_kind as_int as_num as_den]. apply Z.eqb_neq in Hz. rewrite Hz. apply Z.eqb_neq in Hz.
    assert (HV : d * z <> 0) by nia.
    assert (Hnd : ~ (d * z | n * 1)).
    { intros [c Hc]. assert (Hdn : (d | n)) by (exists (c * z); lia).
      apply Z.divide_gcd_iff in Hdn; [|lia]. rewrite Z.gcd_comm in G. lia. }
    pose proof (mkrat_canonical (n * 1) (d * z) HV Hnd) as C.
    exists (mkrat (n * 1) (d * z)). split; [reflexivity|]. split; [exact C|]. intros _.
    destruct (mkrat_spec (n * 1) (d * z) HV) as (n' & d' & E & _). rewrite E in *. exact C.
Qed.

Lemma div_fix_chain zs : forall q, good q = true -> forallb in64 zs = true ->
  (existsb (fun z => z =? 0) zs = true /\ fold_left div2 (map VFix zs) (RVal q) = RCond CDivZero) \/
  (existsb (fun z => z =? 0) zs = false /\ exists v, fold_left div2 (map VFix zs) (RVal q) = RVal v /\ good v = true).
Proof.
  induction zs as [|z zs IH]; intros q Gq Hin.
  - right. split; [reflexivity|]. exists q. auto.
  - cbn [forallb] in Hin. apply andb_true_iff in Hin as [Iz Hin]. cbn [map fold_left existsb].
    destruct (Z.eqb_spec z 0) as [->|Hz].
    + left. split; [reflexivity|].
      replace (div2 (RVal q) (VFix 0)) with (RCond CDivZero); [apply fold_div2_cond|].
      destruct q as [k| |n d|]; try discriminate Gq; reflexivity.
    + cbn [orb]. destruct (div2_fix_step q z (or_introl Gq) Iz Hz) as (v & Ev & Cv & Gv). rewrite Ev.
      apply IH; [apply Gv, Gq|exact Hin].
Qed.

Lemma existsb_zero_map zs : existsb (fun p : Z * Z => fst p =? 0) (map (fun z => (z, 1)) zs) = existsb (fun z => z =? 0) zs.
Proof. induction zs as [|z zs IH]; cbn; [reflexivity|]. rewrite IH. reflexivity. Qed.

Lemma div_exact args : in_domain ODiv args = true -> s_out ODiv args = Some (m_op ODiv args).
Proof.
  cbn [in_domain]. rewrite andb_true_iff. intros [Hf Hp]. fix_operands args Hf zs Hin.
  unfold s_out. rewrite denotes_fix. cbn [m_op]. f_equal.
  destruct zs as [|a [|b rest]]; [discriminate| |].
  - (* the reciprocal *)
    cbn [map]. apply negb_true_iff in Hp. apply Z.eqb_neq in Hp.
    destruct (Z.eqb_spec a 0) as [->|Ha0]; [reflexivity|].
    destruct (Z.eq_dec a 1) as [->|Ha1]; [reflexivity|].
    assert (Hnd : ~ (a | 1)) by (intros Hd; apply Z.divide_1_r in Hd; lia).
    assert (Hm : m_div [VFix a] = {| o_res := RVal (mkrat 1 a); o_args := [VFix a] |})
      by (destruct a as [|[?|?|]|?]; try reflexivity; congruence).
    rewrite Hm. cbn [s_op fst snd]. apply Z.eqb_neq in Ha0. rewrite Ha0. apply Z.eqb_neq in Ha0.
    f_equal. f_equal. symmetry. apply canon_unique; [exact Ha0|apply mkrat_canonical; assumption|apply mkrat_value, Ha0].
  - (* two or more operands *)
    change (forallb in64 (a :: b :: rest)) with (in64 a && forallb in64 (b :: rest)) in Hin.
    apply andb_true_iff in Hin as [Ia Hin].
    change (m_div (map VFix (a :: b :: rest))) with
      {| o_res := fold_left div2 (map VFix (b :: rest)) (RVal (VFix a)); o_args := map VFix (a :: b :: rest) |}.
    change (map (fun z => (z, 1)) (a :: b :: rest)) with ((a, 1) :: map (fun z : Z => (z, 1)) (b :: rest)).
    remember (b :: rest) as zs eqn:Ezs.
    assert (Hs : s_op ODiv ((a, 1) :: map (fun z : Z => (z, 1)) zs) =
                 if existsb (fun z => z =? 0) zs then RCond CDivZero
                 else let t := fold_left sdiv (map (fun z : Z => (z, 1)) zs) (a, 1) in RVal (canon (fst t) (snd t))).
    { subst zs. cbn [map s_op]. rewrite <- existsb_zero_map. reflexivity. }
    rewrite Hs. clear Hs. f_equal.
    assert (Wzs : forallb wf (map VFix zs) = true).
    { clear - Hin. rewrite forallb_forall in *. intros v Hv. apply in_map_iff in Hv as (z & <- & Hz). apply (Hin z Hz). }
    assert (Hva : has_value (VFix a) (fst (a, 1)) (snd (a, 1))) by (exists a, 1; split; [reflexivity|reflexivity]).
    (* the value of the result, from the general chain lemma *)
    destruct (div_fold (map VFix zs) (map (fun z => (z, 1)) zs) (VFix a) (a, 1) (denotes_fix zs) Wzs Ia Hva ltac:(cbn; lia))
      as [Hi|[[Hz Hc]|(Hz & v & Ev & Wv & Vv & Tv & Lv)]].
    + (* never through floats on fixnums: the canonical-form lemma below excludes it *)
      exfalso.
      assert (Hcan : exists r, fold_left div2 (map VFix zs) (RVal (VFix a)) = r /\ r <> RVal VInexact).
      { subst zs. cbn [map fold_left]. cbn [forallb] in Hin. apply andb_true_iff in Hin as [Ib Hin].
        destruct (Z.eqb_spec b 0) as [->|Hb].
        - exists (RCond CDivZero). split; [|discriminate]. cbn [div2 norm_kind as_int]. change (0 =? 0) with true. cbv iota. apply fold_div2_cond.
        - destruct (div2_fix_step (VFix a) b (or_intror (ex_intro _ a (conj eq_refl Ia))) Ib Hb) as (v & Ev & Cv & Gv). rewrite Ev.
          destruct rest as [|c rest].
          + exists (RVal v). split; [reflexivity|]. intros E. injection E as ->. discriminate Cv.
          + assert (Ga : good (VFix a) = true).
            { cbn. rewrite Ia. cbn [andb]. cbn in Hp. exact Hp. }
            destruct (div_fix_chain (c :: rest) v (Gv Ga) Hin) as [[_ Hc]|(_ & w & Ew & Gw)].
            * exists (RCond CDivZero). split; [exact Hc|discriminate].
            * exists (RVal w). split; [exact Ew|]. intros E. injection E as ->. discriminate Gw. }
      destruct Hcan as (r & Er & Hr). rewrite Hi in Er. congruence.
    + rewrite existsb_zero_map in Hz. rewrite Hz, Hc. reflexivity.
    + rewrite existsb_zero_map in Hz. rewrite Hz, Ev. cbv zeta. f_equal. symmetry.
      apply canon_unique; [exact Tv| |exact Vv].
      (* canonical: the first step gives a canonical value, the later ones keep "good" *)
      subst zs. cbn [map fold_left] in Ev. cbn [forallb] in Hin. apply andb_true_iff in Hin as [Ib Hin].
      cbn [existsb] in Hz. apply orb_false_iff in Hz as [Hb Hz]. apply Z.eqb_neq in Hb.
      destruct (div2_fix_step (VFix a) b (or_intror (ex_intro _ a (conj eq_refl Ia))) Ib Hb) as (v1 & Ev1 & Cv1 & Gv1).
      rewrite Ev1 in Ev. destruct rest as [|c rest].
      * cbn in Ev. injection Ev as <-. exact Cv1.
      * assert (Ga : good (VFix a) = true).
        { cbn. rewrite Ia. cbn [andb]. cbn in Hp. exact Hp. }
        destruct (div_fix_chain (c :: rest) v1 (Gv1 Ga) Hin) as [[Hz' _]|(_ & w & Ew & Gw)]; [congruence|].
        rewrite Ew in Ev. injection Ev as <-. apply good_canonical, Gw.
Qed.
