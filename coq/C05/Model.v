(* C05 — executable model M of the exact-number paths of pkg/cl/{add,subtract,multiply,divide,floor,
   ceiling,truncate,round,mod,rem,abs,oneplus,oneminus,gcd,lcm,lt,lte,gt,gte,same,logand,logior,logxor,
   lognot}.go and of
   normalizenumber.go for fixnum / bignum / ratio operands.
   int64 arithmetic is written with its wrap-around; math/big is exact (Z, and Q as reduced n/d);
   the places where the Go code writes its result INTO an operand are modelled: every operation
   returns, next to its result, the values of its operands afterwards. *)
From Coq Require Export List Bool ZArith Lia.
Export ListNotations.
Open Scope Z_scope.

Definition two63 : Z := 9223372036854775808.
Definition wrap64 (z : Z) : Z := (z + two63) mod (2 * two63) - two63.
Definition in64 (z : Z) : bool := (- two63 <=? z) && (z <? two63).
(* Go's / and % on int64: truncated division; MinInt64 / -1 wraps *)
Definition gquot (a b : Z) : Z := wrap64 (Z.quot a b).
Definition grem (a b : Z) : Z := Z.rem a b.

Inductive val :=
| VFix (z : Z)            (* slip.Fixnum *)
| VBig (z : Z)            (* *slip.Bignum, any magnitude *)
| VRat (n d : Z)          (* *slip.Ratio, as big.Rat keeps it: lowest terms, d > 0 (d may be 1) *)
| VInexact.               (* a float of some format: not modelled further *)

Inductive cond := CDivZero | CArith | CType | CFault.   (* CFault: Go runtime panic (integer divide by zero) *)
Inductive res :=
| RVal (v : val)
| RVals (q r : val)
| RBool (b : bool)
| RCond (c : cond).

Record out := { o_res : res; o_args : list val }.   (* result, operands afterwards *)

(* big.Rat normalisation *)
Definition mkrat (n d : Z) : val :=
  let g := Z.gcd n d in
  if d =? 0 then VInexact
  else let s := if d <? 0 then -1 else 1 in VRat (s * (n / g)) (s * (d / g)).

Definition fits64 (z : Z) : bool := in64 z.    (* big.Int.IsInt64 *)

(* NormalizeNumber on two exact operands: the common representation, or inexact *)
Inductive kind := KFix | KBig | KRat | KInexact.
Definition norm_kind (a b : val) : kind :=
  match a, b with
  | VFix _, VFix _ => KFix
  | VFix _, VBig _ | VBig _, VFix _ | VBig _, VBig _ => KBig
  | VFix _, VRat _ _ | VRat _ _, VFix _ | VRat _ _, VRat _ _ => KRat
  | VBig z, VRat _ _ | VRat _ _, VBig z => if fits64 z then KRat else KInexact
  | _, _ => KInexact
  end.
Definition as_int (v : val) : Z := match v with VFix z | VBig z => z | _ => 0 end.
Definition as_num (v : val) : Z := match v with VFix z | VBig z => z | VRat n _ => n | _ => 0 end.
Definition as_den (v : val) : Z := match v with VRat _ d => d | _ => 1 end.
Definition is_big (v : val) : bool := match v with VBig _ => true | _ => false end.
Definition is_rat (v : val) : bool := match v with VRat _ _ => true | _ => false end.

(* ---- + and * : the accumulator starts as a fixnum and is always a fresh object ---- *)
Definition add2 (acc a : val) : val :=
  match norm_kind a acc with
  | KFix => VFix (wrap64 (as_int a + as_int acc))
  | KBig => VBig (as_int a + as_int acc)
  | KRat => mkrat (as_num a * as_den acc + as_num acc * as_den a) (as_den a * as_den acc)
  | KInexact => VInexact
  end.
Definition mul2 (acc a : val) : val :=
  match norm_kind a acc with
  | KFix => VFix (wrap64 (as_int a * as_int acc))
  | KBig => VBig (as_int a * as_int acc)
  | KRat => mkrat (as_num a * as_num acc) (as_den a * as_den acc)
  | KInexact => VInexact
  end.
Definition m_add (args : list val) : out := {| o_res := RVal (fold_left add2 args (VFix 0)); o_args := args |}.
Definition m_mul (args : list val) : out := {| o_res := RVal (fold_left mul2 args (VFix 1)); o_args := args |}.

(* ---- - : the accumulator IS the first operand; bignum and ratio results are written into it ---- *)
Definition neg1 (a : val) : out :=
  match a with
  | VFix z => {| o_res := RVal (VFix (wrap64 (- z))); o_args := [a] |}
  | VBig z => {| o_res := RVal (VBig (- z)); o_args := [VBig (- z)] |}          (* Neg into the operand *)
  | VRat n d => {| o_res := RVal (VRat (- n) d); o_args := [VRat (- n) d] |}    (* Neg into the operand *)
  | VInexact => {| o_res := RVal VInexact; o_args := [a] |}
  end.
(* one step: (dif, whether dif still is operand 0, what operand 0 holds now) *)
Definition sub2 (st : val * bool * val) (a : val) : val * bool * val :=
  let '(dif, alias, op0) := st in
  match norm_kind a dif with
  | KFix => (VFix (wrap64 (as_int dif - as_int a)), false, op0)
  | KBig => let r := VBig (as_int dif - as_int a) in
            let al := alias && is_big dif in (r, al, if al then r else op0)
  | KRat => let r := mkrat (as_num dif * as_den a - as_num a * as_den dif) (as_den a * as_den dif) in
            let al := alias && is_rat dif in (r, al, if al then r else op0)
  | KInexact => (VInexact, false, op0)
  end.
Definition m_sub (args : list val) : out :=
  match args with
  | [] => {| o_res := RCond CArith; o_args := [] |}
  | [a] => neg1 a
  | a :: rest =>
      let '(dif, _, op0) := fold_left sub2 rest (a, true, a) in
      {| o_res := RVal dif; o_args := op0 :: rest |}
  end.

(* ---- / ---- *)
Definition div2 (st : res * bool * val) (a : val) : res * bool * val :=
  match st with
  | (RVal quot, alias, op0) =>
      match norm_kind a quot with
      | KFix => if as_int a =? 0 then (RCond CDivZero, false, op0)
                else if grem (as_int quot) (as_int a) =? 0 then (RVal (VFix (gquot (as_int quot) (as_int a))), false, op0)
                else (RVal (mkrat (as_int quot) (as_int a)), false, op0)
      | KBig => if as_int a =? 0 then (RCond CDivZero, false, op0)
                else if Z.rem (as_int quot) (as_int a) =? 0 then (RVal (VBig (Z.quot (as_int quot) (as_int a))), false, op0)
                else (RVal (mkrat (as_int quot) (as_int a)), false, op0)
      | KRat => if as_num a =? 0 then (RCond CDivZero, false, op0)
                else let r := mkrat (as_num quot * as_den a) (as_den quot * as_num a) in
                     let al := alias && is_rat quot in (RVal r, al, if al then r else op0)
      | KInexact => (RVal VInexact, false, op0)
      end
  | _ => st
  end.
Definition m_div (args : list val) : out :=
  match args with
  | [] => {| o_res := RCond CArith; o_args := [] |}
  | [a] =>
      match a with
      | VFix 1 => {| o_res := RVal a; o_args := [a] |}
      | VFix 0 => {| o_res := RCond CDivZero; o_args := [a] |}
      | VFix z => {| o_res := RVal (mkrat 1 z); o_args := [a] |}
      | VBig z => if z =? 0 then {| o_res := RCond CDivZero; o_args := [a] |}
                  else if z =? 1 then {| o_res := RVal a; o_args := [a] |}
                  else {| o_res := RVal (mkrat 1 z); o_args := [a] |}
      | VRat n d => if n =? 0 then {| o_res := RCond CDivZero; o_args := [a] |}
                    else {| o_res := RVal (mkrat d n); o_args := [mkrat d n] |}     (* Inv into the operand *)
      | VInexact => {| o_res := RVal VInexact; o_args := [a] |}
      end
  | a :: rest =>
      let '(r, _, op0) := fold_left div2 rest (RVal a, true, a) in
      {| o_res := r; o_args := op0 :: rest |}
  end.

(* ---- floor ceiling truncate round on integers ---- *)
Inductive rounding := Floor | Ceiling | Truncate | Round.

(* fixnum branch, verbatim *)
Definition round_fix (m : rounding) (tn d : Z) : res :=
  match m with
  | Truncate => if d =? 0 then RCond CFault else
      let q := gquot tn d in RVals (VFix q) (VFix (wrap64 (tn - wrap64 (q * d))))
  | Floor => if d =? 0 then RCond CFault else
      let q := gquot tn d in let r := wrap64 (tn - wrap64 (q * d)) in
      if 0 <? d then (if r <? 0 then RVals (VFix (wrap64 (q - 1))) (VFix (wrap64 (r + d))) else RVals (VFix q) (VFix r))
      else if r <? 0 then RVals (VFix (wrap64 (q + 1))) (VFix (wrap64 (r - d)))      (* sic: the ceiling adjustment *)
      else RVals (VFix q) (VFix r)
  | Ceiling => if d =? 0 then RCond CFault else
      let q := gquot tn d in let r := wrap64 (tn - wrap64 (q * d)) in
      if 0 <? d then (if 0 <? r then RVals (VFix (wrap64 (q + 1))) (VFix (wrap64 (r - d))) else RVals (VFix q) (VFix r))
      else if r <? 0 then RVals (VFix (wrap64 (q + 1))) (VFix (wrap64 (r - d)))
      else RVals (VFix q) (VFix r)
  | Round => if d =? 0 then RCond CFault else
      let q0 := gquot tn d in let r0 := wrap64 (tn - wrap64 (q0 * d)) in
      if r0 =? 0 then RVals (VFix q0) (VFix r0)
      else
        let ns := tn <? 0 in let tn' := if ns then wrap64 (- tn) else tn in
        let ds := d <? 0 in let d' := if ds then wrap64 (- d) else d in
        if d' =? 0 then RCond CFault else
        let q := gquot tn' d' in let r := wrap64 (tn' - wrap64 (q * d')) in
        let dif := wrap64 (r * 2) in
        let '(q, r) := if (d' <? dif) || ((dif =? d') && negb (grem q 2 =? 0)) then (wrap64 (q + 1), wrap64 (tn' - wrap64 (wrap64 (q + 1) * d'))) else (q, r) in
        if ns then (if negb ds then RVals (VFix (wrap64 (- q))) (VFix (wrap64 (- r))) else RVals (VFix q) (VFix (wrap64 (- r))))
        else if ds then RVals (VFix (wrap64 (- q))) (VFix r) else RVals (VFix q) (VFix r)
  end.

(* bignum branch (big.Int.QuoRem truncates); a zero divisor makes math/big panic *)
Definition round_big (m : rounding) (tn d : Z) : res :=
  if d =? 0 then RCond CFault else
  let zq := Z.quot tn d in let zr := Z.rem tn d in
  match m with
  | Truncate => RVals (VBig zq) (VBig zr)
  | Floor =>
      if zr =? 0 then RVals (VBig zq) (VBig zr)
      else if 0 <? zr then (if 0 <? d then RVals (VBig zq) (VBig zr) else RVals (VBig (zq - 1)) (VBig (tn - (zq - 1) * d)))
      else (if 0 <? d then RVals (VBig (zq - 1)) (VBig (tn - (zq - 1) * d)) else RVals (VBig zq) (VBig (tn - zq * d)))
  | Ceiling =>
      if zr =? 0 then RVals (VBig zq) (VBig zr)
      else if zr <? 0 then (if 0 <? d then RVals (VBig zq) (VBig zr) else RVals (VBig (zq + 1)) (VBig (tn - (zq + 1) * d)))
      else (if 0 <? d then RVals (VBig (zq + 1)) (VBig (tn - (zq + 1) * d)) else RVals (VBig zq) (VBig zr))
  | Round =>
      let zn := Z.abs tn in let zd := Z.abs d in
      let q := Z.quot zn zd in let r := zn - q * zd in
      let '(q, r) := match Z.compare (r * 2) zd with
                     | Eq => if Z.odd q then (q + 1, zn - (q + 1) * zd) else (q, r)
                     | Lt => (q, r)
                     | Gt => (q + 1, zn - (q + 1) * zd)
                     end in
      if tn <? 0 then (if 0 <? d then RVals (VBig (- q)) (VBig (- r)) else RVals (VBig q) (VBig (- r)))
      else if d <? 0 then RVals (VBig (- q)) (VBig r) else RVals (VBig q) (VBig r)
  end.

(* ratio branch: both operands as big.Rat; the quotient is always a *Bignum, the remainder a *Ratio
   (a fixnum 0 only where floor / ceiling return it literally) *)
Definition rnorm (n d : Z) : Z * Z :=          (* d <> 0 *)
  let g := Z.gcd n d in let s := if d <? 0 then -1 else 1 in (s * (n / g), s * (d / g)).
Definition rsub_mul (t : Z * Z) (k : Z) (d : Z * Z) : Z * Z :=      (* t - k*d *)
  rnorm (fst t * snd d - k * fst d * snd t) (snd t * snd d).
Definition rat_val (q : Z * Z) : val := VRat (fst q) (snd q).
Definition round_rat (m : rounding) (t d : Z * Z) : res :=
  if fst d =? 0 then RCond CFault else
  match m with
  | Round =>
      let zn := (Z.abs (fst t), snd t) in let zd := (Z.abs (fst d), snd d) in
      let bi := Z.quot (fst zn * snd zd) (snd zn * fst zd) in
      let zr := rsub_mul zn bi zd in
      let c := Z.compare (2 * fst zr * snd zd) (fst zd * snd zr) in
      let '(bi, zr) := match c with
                       | Eq => if Z.odd bi then (bi + 1, rsub_mul zn (bi + 1) zd) else (bi, zr)
                       | Lt => (bi, zr)
                       | Gt => (bi + 1, rsub_mul zn (bi + 1) zd)
                       end in
      let ns := fst t <? 0 in let ds := fst d <? 0 in
      let zr := if ns then (- fst zr, snd zr) else zr in
      let bi := if ns then (if ds then bi else - bi) else (if ds then - bi else bi) in
      RVals (VBig bi) (rat_val zr)
  | _ =>
      let qn := fst t * snd d in let qd := snd t * fst d in        (* t / d = qn / qd *)
      let bi := Z.quot qn qd in
      let zr := rsub_mul t bi d in
      let sg := Z.sgn (fst zr) in let dpos := 0 <? fst d in
      match m with
      | Truncate => RVals (VBig bi) (rat_val zr)
      | Floor =>
          if sg =? 0 then RVals (VBig bi) (VFix 0)
          else if sg =? 1 then (if dpos then RVals (VBig bi) (rat_val zr) else RVals (VBig (bi - 1)) (rat_val (rsub_mul t (bi - 1) d)))
          else (if dpos then RVals (VBig (bi - 1)) (rat_val (rsub_mul t (bi - 1) d)) else RVals (VBig bi) (rat_val zr))
      | _ (* Ceiling *) =>
          if sg =? 0 then RVals (VBig bi) (VFix 0)
          else if sg =? -1 then (if dpos then RVals (VBig bi) (rat_val zr) else RVals (VBig (bi + 1)) (rat_val (rsub_mul t (bi + 1) d)))
          else (if dpos then RVals (VBig (bi + 1)) (rat_val (rsub_mul t (bi + 1) d)) else RVals (VBig bi) (rat_val zr))
      end
  end.

Definition m_round (m : rounding) (args : list val) : out :=
  let go (n d : val) (orig : list val) : out :=
    match norm_kind n d with
    | KFix => {| o_res := round_fix m (as_int n) (as_int d); o_args := orig |}
    | KBig =>
        let r := round_big m (as_int n) (as_int d) in
        (* round takes |.| of its bignum operands in place (zn.Abs(zn), zd.Abs(zd)) *)
        let absop v := match v with VBig z => VBig (Z.abs z) | _ => v end in
        {| o_res := r; o_args := match m with Round => map absop orig | _ => orig end |}
    | KRat =>
        let r := round_rat m (as_num n, as_den n) (as_num d, as_den d) in
        (* ... and of its ratio operands *)
        let absop v := match v with VRat a b => VRat (Z.abs a) b | _ => v end in
        {| o_res := r; o_args := match m with Round => map absop orig | _ => orig end |}
    | KInexact => {| o_res := RVal VInexact; o_args := orig |}
    end in
  match args with
  | [n; d] => go n d args
  | [n] => go n (VFix 1) args
  | _ => {| o_res := RCond CArith; o_args := args |}
  end.

(* ---- mod rem ---- *)
Definition m_mod (args : list val) : out :=
  match args with
  | [n; d] =>
      match norm_kind n d with
      | KFix => if as_int d =? 0 then {| o_res := RCond CArith; o_args := args |}
                else let m := grem (as_int n) (as_int d) in
                     let dv := as_int d in
                     {| o_res := RVal (VFix (if ((0 <? dv) && (m <? 0)) || ((dv <? 0) && (0 <? m)) then wrap64 (m + dv) else m)); o_args := args |}
      | KBig => if as_int d =? 0 then {| o_res := RCond CArith; o_args := args |}
                else let dv := as_int d in
                     let z := Z.modulo (as_int n) (Z.abs dv) in     (* big.Int.Mod: Euclidean *)
                     {| o_res := RVal (VBig (if (dv <? 0) && (0 <? z) then z + dv else z)); o_args := args |}
      | _ => {| o_res := RVal VInexact; o_args := args |}
      end
  | _ => {| o_res := RCond CArith; o_args := args |}
  end.
Definition m_rem (args : list val) : out :=
  match args with
  | [n; d] =>
      match norm_kind n d with
      | KFix => if as_int d =? 0 then {| o_res := RCond CFault; o_args := args |}
                else {| o_res := RVal (VFix (grem (as_int n) (as_int d))); o_args := args |}
      | KBig => if as_int d =? 0 then {| o_res := RCond CFault; o_args := args |}
                else {| o_res := RVal (VBig (Z.rem (as_int n) (as_int d))); o_args := args |}
      | _ => {| o_res := RVal VInexact; o_args := args |}
      end
  | _ => {| o_res := RCond CArith; o_args := args |}
  end.

(* ---- abs 1+ 1- ---- *)
Definition m_abs (args : list val) : out :=
  match args with
  | [VFix z] => {| o_res := RVal (VFix (if z <? 0 then wrap64 (- z) else z)); o_args := args |}
  | [VBig z] => {| o_res := RVal (VBig (Z.abs z)); o_args := args |}
  | [VRat n d] => {| o_res := RVal (VRat (Z.abs n) d); o_args := args |}
  | _ => {| o_res := RVal VInexact; o_args := args |}
  end.
Definition m_inc (delta : Z) (args : list val) : out :=
  match args with
  | [VFix z] => {| o_res := RVal (VFix (wrap64 (z + delta))); o_args := args |}
  | [VBig z] => {| o_res := RVal (VBig (z + delta)); o_args := args |}
  | [VRat n d] => {| o_res := RVal (mkrat (n + delta * d) d); o_args := [mkrat (n + delta * d) d] |}   (* SetFrac into the operand *)
  | _ => {| o_res := RVal VInexact; o_args := args |}
  end.

(* ---- gcd lcm: fixnums only ---- *)
Fixpoint go_gcd (fuel : nat) (x y : Z) : Z :=
  match fuel with O => x | S f => if y =? 0 then x else go_gcd f y (grem x y) end.
Definition fix_abs (z : Z) : Z := if z <? 0 then wrap64 (- z) else z.
Definition m_gcd (args : list val) : out :=
  let step (st : option Z * nat) (a : val) : option Z * nat :=
    match st, a with
    | (Some z, i), VFix n => (Some (if Nat.eqb i 0 then fix_abs n else go_gcd 200 z (fix_abs n)), S i)
    | (_, i), _ => (None, S i)
    end in
  {| o_res := match fst (fold_left step args (Some 0, O)) with Some z => RVal (VFix z) | None => RCond CType end; o_args := args |}.
Definition m_lcm (args : list val) : out :=
  (* returns early with 0 at the first zero operand; a non-fixnum before that is a type error *)
  let fix go (i : nat) (z : Z) (l : list val) : res :=
    match l with
    | [] => RVal (VFix z)
    | VFix n :: l' =>
        if n =? 0 then RVal (VFix 0)
        else let n' := fix_abs n in
             if Nat.eqb i 0 then go (S i) n' l'
             else let g := go_gcd 200 z n' in
                  if g =? 0 then RCond CFault else go (S i) (gquot (wrap64 (z * n')) g) l'
    | _ :: _ => RCond CType
    end in
  {| o_res := go O 1 args; o_args := args |}.

(* ---- comparisons ---- *)
(* n/d (d > 0) rounded to p significant bits, to nearest, ties to even: the value is m * 2^e.
   (strconv / math/big rounding; exponent range of float64 not modelled: |value| stays far inside it) *)
Definition round_bits (p : Z) (n d : Z) : Z * Z :=
  if n =? 0 then (0, 0) else
  let a := Z.abs n in
  let e0 := Z.log2 a - Z.log2 d - p in
  let scaled e := if 0 <=? e then (a, d * 2 ^ e) else (a * 2 ^ (- e), d) in
  let q0 := let '(x, y) := scaled e0 in x / y in
  let e := if 2 ^ p <=? q0 then e0 + 1 else e0 in
  let '(x, y) := scaled e in
  let q := x / y in let r := x - q * y in
  let q' := match Z.compare (2 * r) y with
            | Lt => q | Gt => q + 1 | Eq => if Z.even q then q else q + 1 end in
  ((if n <? 0 then - q' else q'), e).
Definition bitlen (z : Z) : Z := if z =? 0 then 0 else Z.log2 (Z.abs z) + 1.

Inductive cmp := CLt | CLe | CGt | CGe | CEq.
Definition cmp_z (c : cmp) (x y : Z) : bool :=
  match c with CLt => x <? y | CLe => x <=? y | CGt => y <? x | CGe => y <=? x | CEq => x =? y end.
(* a c b, where b is the operand handed to NormalizeNumber first (v0) and a second (v1) *)
Definition cmp_pair (c : cmp) (a b : val) : option bool :=
  match norm_kind a b with
  | KFix | KBig => Some (cmp_z c (as_int a) (as_int b))
  | KRat => Some (cmp_z c (as_num a * as_den b) (as_num b * as_den a))
  | KInexact =>
      match a, b with
      | VRat n d, VBig z =>   (* v0 = bignum, v1 = ratio: the ratio goes through float64 *)
          let '(m, e) := round_bits 53 n d in
          Some (if 0 <=? e then cmp_z c (m * 2 ^ e) z else cmp_z c m (z * 2 ^ (- e)))
      | VBig z, VRat n d =>   (* v0 = ratio, v1 = bignum: the ratio is rounded to the bignum's precision *)
          let '(m, e) := round_bits (Z.max 64 (bitlen z)) n d in
          Some (if 0 <=? e then cmp_z c z (m * 2 ^ e) else cmp_z c (z * 2 ^ (- e)) m)
      | _, _ => None
      end
  end.
Definition inexact_pair (a b : val) : bool := match norm_kind a b with KInexact => true | _ => false end.
(* < <= > >= : each operand against its predecessor, left to right *)
Fixpoint cmp_chain (c : cmp) (a : val) (rest : list val) : res :=
  match rest with
  | [] => RBool true
  | b :: rest' => match cmp_pair c a b with
                  | Some true => cmp_chain c b rest'
                  | Some false => RBool false
                  | None => RVal VInexact
                  end
  end.
(* = : from the last operand backwards.  same (pkg/cl/same.go) compares a bignum and a ratio (any two operands
   that are a *Bignum or a *Ratio) by their exact big.Rat values (asRat, slip repair C16-11; before it a bignum
   beyond int64 and a ratio went through long-floats) and keeps the target; for the other pairs the target becomes
   the NORMALISED later operand, and a pair that goes through floats is not predicted *)
Definition rat_like (v : val) : bool := match v with VBig _ | VRat _ _ => true | _ => false end.
Definition eq_pair (target x : val) : option bool :=
  if rat_like target && rat_like x
  then Some (cmp_z CEq (as_num target * as_den x) (as_num x * as_den target))
  else cmp_pair CEq target x.
Fixpoint eq_chain (target : val) (rev_rest : list val) : res :=
  match rev_rest with
  | [] => RBool true
  | x :: more => match eq_pair target x with
                 | Some true => eq_chain target more
                 | Some false => RBool false
                 | None => RVal VInexact
                 end
  end.
Definition m_cmp (c : cmp) (args : list val) : out :=
  {| o_res := match c with
              | CEq => match rev args with [] => RCond CArith | t :: more => eq_chain t more end
              | _ => match args with [] => RCond CArith | a :: rest => cmp_chain c a rest end
              end; o_args := args |}.

(* ---- logand logior logxor lognot ---- *)
(* first loop: fixnum operands are folded into a uint64; the first bignum abandons that loop and
   starts over with math/big on ALL operands; anything else is a type error *)
Inductive bitop := BAnd | BOr | BXor.
Definition u64 (z : Z) : Z := z mod (2 * two63).                 (* uint64(int64) keeps the bit pattern *)
Definition bit_z (b : bitop) : Z -> Z -> Z :=                   (* on Z these are the two's-complement operations, as in math/big *)
  match b with BAnd => Z.land | BOr => Z.lor | BXor => Z.lxor end.
Definition bit_init (b : bitop) : Z := match b with BAnd => 18446744073709551615 | _ => 0 end.
Inductive scan := SFix (u : Z) | SBig | SType.
Fixpoint bit_scan (b : bitop) (u : Z) (l : list val) : scan :=
  match l with
  | [] => SFix u
  | VFix z :: l' => bit_scan b (bit_z b u (u64 z)) l'
  | VBig _ :: _ => SBig
  | _ :: _ => SType
  end.
(* second loop: the accumulator is a fresh big.Int set from the first operand *)
Fixpoint bit_big (b : bitop) (first : bool) (bi : Z) (l : list val) : option Z :=
  match l with
  | [] => Some bi
  | (VFix z | VBig z) :: l' => bit_big b false (if first then z else bit_z b bi z) l'
  | _ :: _ => None
  end.
Definition m_bit (b : bitop) (args : list val) : out :=
  {| o_res := match bit_scan b (bit_init b) args with
              | SFix u => RVal (VFix (wrap64 u))                 (* slip.Fixnum(result) *)
              | SBig => match bit_big b true 0 args with Some z => RVal (VBig z) | None => RCond CType end
              | SType => RCond CType
              end;
     o_args := args |}.
Definition m_lognot (args : list val) : out :=
  match args with
  | [VFix z] => {| o_res := RVal (VFix (wrap64 (18446744073709551615 - u64 z))); o_args := args |}   (* ^uint64(z) *)
  | [VBig z] => {| o_res := RVal (VBig (- z - 1)); o_args := args |}                                 (* big.Int.Not into a fresh value *)
  | [_] => {| o_res := RCond CType; o_args := args |}
  | _ => {| o_res := RVal VInexact; o_args := args |}        (* argument count errors: not modelled *)
  end.

Inductive opn :=
| OAdd | OSub | OMul | ODiv | ORound (m : rounding) | OMod | ORem | OAbs | OInc | ODec | OGcd | OLcm | OCmp (c : cmp)
| OBit (b : bitop) | OLognot.

Definition m_op (o : opn) (args : list val) : out :=
  match o with
  | OAdd => m_add args | OSub => m_sub args | OMul => m_mul args | ODiv => m_div args
  | ORound m => m_round m args | OMod => m_mod args | ORem => m_rem args | OAbs => m_abs args
  | OInc => m_inc 1 args | ODec => m_inc (-1) args | OGcd => m_gcd args | OLcm => m_lcm args
  | OCmp c => m_cmp c args
  | OBit b => m_bit b args | OLognot => m_lognot args
  end.
