(* C05 — executable model M of the exact-number paths of pkg/cl/{add,subtract,multiply,divide,floor,
   ceiling,truncate,round,mod,rem,abs,oneplus,oneminus,gcd,lcm,lt,lte,gt,gte,same,logand,logior,logxor,isqrt,
   lognot}.go and of
   normalizenumber.go for fixnum / bignum / ratio operands.
   int64 arithmetic is written with its wrap-around and with the overflow tests the code applies to it
   (repo_fixes/C05-9..18: a result that is not a fixnum is computed with math/big); math/big is exact
   (Z, and Q as reduced n/d);
   every operation returns, next to its result, the values of its operands afterwards (since the
   repairs repo_fixes/C05-1..5 no operation writes into an operand any more: the math/big results
   are fresh objects). *)
From Coq Require Export List Bool ZArith Lia.
Export ListNotations.
Open Scope Z_scope.

Definition two63 : Z := 9223372036854775808.
Definition wrap64 (z : Z) : Z := (z + two63) mod (2 * two63) - two63.
Definition in64 (z : Z) : bool := (- two63 <=? z) && (z <? two63).
(* Go's / and % on int64: truncated division; MinInt64 / -1 wraps *)
Definition gquot (a b : Z) : Z := wrap64 (Z.quot a b).
Definition grem (a b : Z) : Z := Z.rem a b.

Inductive val :=
| VFix (z : Z)            (* slip.Fixnum *)
| VBig (z : Z)            (* *slip.Bignum, any magnitude *)
| VRat (n d : Z)          (* *slip.Ratio, as big.Rat keeps it: lowest terms, d > 0 (d may be 1) *)
| VInexact.               (* a float of some format: not modelled further *)

Inductive cond := CDivZero | CArith | CType | CFault.   (* CFault: Go runtime panic *)
Inductive res :=
| RVal (v : val)
| RVals (q r : val)
| RBool (b : bool)
| RCond (c : cond).

Record out := { o_res : res; o_args : list val }.   (* result, operands afterwards *)

(* big.Rat normalisation *)
Definition mkrat (n d : Z) : val :=
  let g := Z.gcd n d in
  if d =? 0 then VInexact
  else let s := if d <? 0 then -1 else 1 in VRat (s * (n / g)) (s * (d / g)).

Definition fits64 (z : Z) : bool := in64 z.    (* big.Int.IsInt64 *)

(* NormalizeNumber on two exact operands: the common representation, or inexact *)
Inductive kind := KFix | KBig | KRat | KInexact.
Definition norm_kind (a b : val) : kind :=
  match a, b with
  | VFix _, VFix _ => KFix
  | VFix _, VBig _ | VBig _, VFix _ | VBig _, VBig _ => KBig
  | VFix _, VRat _ _ | VRat _ _, VFix _ | VRat _ _, VRat _ _ => KRat
  | VBig z, VRat _ _ | VRat _ _, VBig z => if fits64 z then KRat else KInexact
  | _, _ => KInexact
  end.
Definition as_int (v : val) : Z := match v with VFix z | VBig z => z | _ => 0 end.
Definition as_num (v : val) : Z := match v with VFix z | VBig z => z | VRat n _ => n | _ => 0 end.
Definition as_den (v : val) : Z := match v with VRat _ d => d | _ => 1 end.

(* fixnum + - * : the machine result, unless the overflow test of the code fires *)
Definition add_fix (t0 t1 : Z) : val :=
  let sum := wrap64 (t0 + t1) in
  if Bool.eqb (t0 <? 0) (t1 <? 0) && negb (Bool.eqb (sum <? 0) (t0 <? 0)) then VBig (t0 + t1) else VFix sum.
Definition sub_fix (td ta : Z) : val :=
  let d := wrap64 (td - ta) in
  if negb (Bool.eqb (td <? 0) (ta <? 0)) && negb (Bool.eqb (d <? 0) (td <? 0)) then VBig (td - ta) else VFix d.
Definition mul_fix (ta tp : Z) : val :=
  let p := wrap64 (ta * tp) in
  if negb (ta =? 0) && (negb (gquot p ta =? tp) || ((ta =? -1) && (tp =? - two63))) then VBig (ta * tp) else VFix p.

(* ---- + and * : the accumulator starts as a fixnum and is always a fresh object ---- *)
Definition add2 (acc a : val) : val :=
  match norm_kind a acc with
  | KFix => add_fix (as_int a) (as_int acc)
  | KBig => VBig (as_int a + as_int acc)
  | KRat => mkrat (as_num a * as_den acc + as_num acc * as_den a) (as_den a * as_den acc)
  | KInexact => VInexact
  end.
Definition mul2 (acc a : val) : val :=
  match norm_kind a acc with
  | KFix => mul_fix (as_int a) (as_int acc)
  | KBig => VBig (as_int a * as_int acc)
  | KRat => mkrat (as_num a * as_num acc) (as_den a * as_den acc)
  | KInexact => VInexact
  end.
Definition m_add (args : list val) : out := {| o_res := RVal (fold_left add2 args (VFix 0)); o_args := args |}.
Definition m_mul (args : list val) : out := {| o_res := RVal (fold_left mul2 args (VFix 1)); o_args := args |}.

(* ---- - : the accumulator starts as the first operand; every bignum / ratio result is a fresh object
   (z.Sub / z.Neg into a new big.Int / big.Rat) ---- *)
Definition neg1 (a : val) : val :=
  match a with
  | VFix z => if z =? - two63 then VBig (- z) else VFix (wrap64 (- z))
  | VBig z => VBig (- z)
  | VRat n d => VRat (- n) d
  | VInexact => VInexact
  end.
Definition sub2 (dif a : val) : val :=
  match norm_kind a dif with
  | KFix => sub_fix (as_int dif) (as_int a)
  | KBig => VBig (as_int dif - as_int a)
  | KRat => mkrat (as_num dif * as_den a - as_num a * as_den dif) (as_den a * as_den dif)
  | KInexact => VInexact
  end.
Definition m_sub (args : list val) : out :=
  match args with
  | [] => {| o_res := RCond CArith; o_args := [] |}
  | [a] => {| o_res := RVal (neg1 a); o_args := args |}
  | a :: rest => {| o_res := RVal (fold_left sub2 rest a); o_args := args |}
  end.

(* ---- / ---- *)
Definition div2 (st : res) (a : val) : res :=
  match st with
  | RVal quot =>
      match norm_kind a quot with
      | KFix => if as_int a =? 0 then RCond CDivZero
                else if (as_int quot =? - two63) && (as_int a =? -1) then RVal (VBig (- as_int quot))   (* the one quotient that is not a fixnum *)
                else if grem (as_int quot) (as_int a) =? 0 then RVal (VFix (gquot (as_int quot) (as_int a)))
                else RVal (mkrat (as_int quot) (as_int a))
      | KBig => if as_int a =? 0 then RCond CDivZero
                else if Z.rem (as_int quot) (as_int a) =? 0 then RVal (VBig (Z.quot (as_int quot) (as_int a)))
                else RVal (mkrat (as_int quot) (as_int a))
      | KRat => if as_num a =? 0 then RCond CDivZero
                else RVal (mkrat (as_num quot * as_den a) (as_den quot * as_num a))     (* z.Quo into a fresh big.Rat *)
      | KInexact => RVal VInexact
      end
  | _ => st
  end.
Definition m_div (args : list val) : out :=
  match args with
  | [] => {| o_res := RCond CArith; o_args := [] |}
  | [a] =>
      match a with
      | VFix 1 => {| o_res := RVal a; o_args := [a] |}
      | VFix 0 => {| o_res := RCond CDivZero; o_args := [a] |}
      | VFix z => {| o_res := RVal (mkrat 1 z); o_args := [a] |}
      | VBig z => if z =? 0 then {| o_res := RCond CDivZero; o_args := [a] |}
                  else if z =? 1 then {| o_res := RVal a; o_args := [a] |}
                  else {| o_res := RVal (mkrat 1 z); o_args := [a] |}
      | VRat n d => if n =? 0 then {| o_res := RCond CDivZero; o_args := [a] |}
                    else {| o_res := RVal (mkrat d n); o_args := [a] |}             (* z.Inv into a fresh big.Rat *)
      | VInexact => {| o_res := RVal VInexact; o_args := [a] |}
      end
  | a :: rest => {| o_res := fold_left div2 rest (RVal a); o_args := args |}
  end.

(* ---- floor ceiling truncate round on integers ---- *)
Inductive rounding := Floor | Ceiling | Truncate | Round.

(* bignum branch (big.Int.QuoRem truncates) *)
Definition round_big (m : rounding) (tn d : Z) : res :=
  if d =? 0 then RCond CDivZero else
  let zq := Z.quot tn d in let zr := Z.rem tn d in
  match m with
  | Truncate => RVals (VBig zq) (VBig zr)
  | Floor =>
      if zr =? 0 then RVals (VBig zq) (VBig zr)
      else if 0 <? zr then (if 0 <? d then RVals (VBig zq) (VBig zr) else RVals (VBig (zq - 1)) (VBig (tn - (zq - 1) * d)))
      else (if 0 <? d then RVals (VBig (zq - 1)) (VBig (tn - (zq - 1) * d)) else RVals (VBig zq) (VBig (tn - zq * d)))
  | Ceiling =>
      if zr =? 0 then RVals (VBig zq) (VBig zr)
      else if zr <? 0 then (if 0 <? d then RVals (VBig zq) (VBig zr) else RVals (VBig (zq + 1)) (VBig (tn - (zq + 1) * d)))
      else (if 0 <? d then RVals (VBig (zq + 1)) (VBig (tn - (zq + 1) * d)) else RVals (VBig zq) (VBig zr))
  | Round =>
      let zn := Z.abs tn in let zd := Z.abs d in
      let q := Z.quot zn zd in let r := zn - q * zd in
      let '(q, r) := match Z.compare (r * 2) zd with
                     | Eq => if Z.odd q then (q + 1, zn - (q + 1) * zd) else (q, r)
                     | Lt => (q, r)
                     | Gt => (q + 1, zn - (q + 1) * zd)
                     end in
      if tn <? 0 then (if 0 <? d then RVals (VBig (- q)) (VBig (- r)) else RVals (VBig q) (VBig (- r)))
      else if d <? 0 then RVals (VBig (- q)) (VBig r) else RVals (VBig q) (VBig r)
  end.

(* a zero divisor of any exact type is caught before the branch on the representation
   (checkDivisor, repo_fixes/C05-8): division-by-zero.  fixnum branch, verbatim; the most negative fixnum
   divided by -1 is answered with the bignum 2^63 and the fixnum 0 *)
Definition round_fix (m : rounding) (tn d : Z) : res :=
  if d =? 0 then RCond CDivZero else
  if (tn =? - two63) && (d =? -1) then RVals (VBig (- tn)) (VFix 0) else
  match m with
  | Truncate =>
      let q := gquot tn d in RVals (VFix q) (VFix (wrap64 (tn - wrap64 (q * d))))
  | Floor =>
      let q := gquot tn d in let r := wrap64 (tn - wrap64 (q * d)) in
      if 0 <? d then (if r <? 0 then RVals (VFix (wrap64 (q - 1))) (VFix (wrap64 (r + d))) else RVals (VFix q) (VFix r))
      else if r <? 0 then RVals (VFix (wrap64 (q + 1))) (VFix (wrap64 (r - d)))      (* sic: the ceiling adjustment *)
      else RVals (VFix q) (VFix r)
  | Ceiling =>
      let q := gquot tn d in let r := wrap64 (tn - wrap64 (q * d)) in
      if 0 <? d then (if 0 <? r then RVals (VFix (wrap64 (q + 1))) (VFix (wrap64 (r - d))) else RVals (VFix q) (VFix r))
      else if r <? 0 then RVals (VFix (wrap64 (q + 1))) (VFix (wrap64 (r - d)))
      else RVals (VFix q) (VFix r)
  | Round =>
      let q0 := gquot tn d in let r0 := wrap64 (tn - wrap64 (q0 * d)) in
      if r0 =? 0 then RVals (VFix q0) (VFix r0)
      else if (tn =? - two63) || (d =? - two63) then round_big Round tn d     (* goto top with both operands as bignums *)
      else
        let ns := tn <? 0 in let tn' := if ns then wrap64 (- tn) else tn in
        let ds := d <? 0 in let d' := if ds then wrap64 (- d) else d in
        if d' =? 0 then RCond CFault else
        let q := gquot tn' d' in let r := wrap64 (tn' - wrap64 (q * d')) in
        let rest := wrap64 (d' - r) in
        let '(q, r) := if (rest <? r) || ((rest =? r) && negb (grem q 2 =? 0)) then (wrap64 (q + 1), wrap64 (tn' - wrap64 (wrap64 (q + 1) * d'))) else (q, r) in
        if ns then (if negb ds then RVals (VFix (wrap64 (- q))) (VFix (wrap64 (- r))) else RVals (VFix q) (VFix (wrap64 (- r))))
        else if ds then RVals (VFix (wrap64 (- q))) (VFix r) else RVals (VFix q) (VFix r)
  end.

(* ratio branch: both operands as big.Rat; the quotient is always a *Bignum, the remainder a *Ratio
   (a fixnum 0 only where floor / ceiling return it literally) *)
Definition rnorm (n d : Z) : Z * Z :=          (* d <> 0 *)
  let g := Z.gcd n d in let s := if d <? 0 then -1 else 1 in (s * (n / g), s * (d / g)).
Definition rsub_mul (t : Z * Z) (k : Z) (d : Z * Z) : Z * Z :=      (* t - k*d *)
  rnorm (fst t * snd d - k * fst d * snd t) (snd t * snd d).
Definition rat_val (q : Z * Z) : val := VRat (fst q) (snd q).
Definition round_rat (m : rounding) (t d : Z * Z) : res :=
  if fst d =? 0 then RCond CDivZero else
  match m with
  | Round =>
      let zn := (Z.abs (fst t), snd t) in let zd := (Z.abs (fst d), snd d) in
      let bi := Z.quot (fst zn * snd zd) (snd zn * fst zd) in
      let zr := rsub_mul zn bi zd in
      let c := Z.compare (2 * fst zr * snd zd) (fst zd * snd zr) in
      let '(bi, zr) := match c with
                       | Eq => if Z.odd bi then (bi + 1, rsub_mul zn (bi + 1) zd) else (bi, zr)
                       | Lt => (bi, zr)
                       | Gt => (bi + 1, rsub_mul zn (bi + 1) zd)
                       end in
      let ns := fst t <? 0 in let ds := fst d <? 0 in
      let zr := if ns then (- fst zr, snd zr) else zr in
      let bi := if ns then (if ds then bi else - bi) else (if ds then - bi else bi) in
      RVals (VBig bi) (rat_val zr)
  | _ =>
      let qn := fst t * snd d in let qd := snd t * fst d in        (* t / d = qn / qd *)
      let bi := Z.quot qn qd in
      let zr := rsub_mul t bi d in
      let sg := Z.sgn (fst zr) in let dpos := 0 <? fst d in
      match m with
      | Truncate => RVals (VBig bi) (rat_val zr)
      | Floor =>
          if sg =? 0 then RVals (VBig bi) (VFix 0)
          else if sg =? 1 then (if dpos then RVals (VBig bi) (rat_val zr) else RVals (VBig (bi - 1)) (rat_val (rsub_mul t (bi - 1) d)))
          else (if dpos then RVals (VBig (bi - 1)) (rat_val (rsub_mul t (bi - 1) d)) else RVals (VBig bi) (rat_val zr))
      | _ (* Ceiling *) =>
          if sg =? 0 then RVals (VBig bi) (VFix 0)
          else if sg =? -1 then (if dpos then RVals (VBig bi) (rat_val zr) else RVals (VBig (bi + 1)) (rat_val (rsub_mul t (bi + 1) d)))
          else (if dpos then RVals (VBig (bi + 1)) (rat_val (rsub_mul t (bi + 1) d)) else RVals (VBig bi) (rat_val zr))
      end
  end.

Definition m_round (m : rounding) (args : list val) : out :=
  let go (n d : val) (orig : list val) : out :=
    match norm_kind n d with
    | KFix => {| o_res := round_fix m (as_int n) (as_int d); o_args := orig |}
    | KBig =>
        (* round takes |.| of its operands into fresh values (new(big.Int).Abs(zn)) *)
        {| o_res := round_big m (as_int n) (as_int d); o_args := orig |}
    | KRat =>
        {| o_res := round_rat m (as_num n, as_den n) (as_num d, as_den d); o_args := orig |}
    | KInexact => {| o_res := RVal VInexact; o_args := orig |}
    end in
  match args with
  | [n; d] => go n d args
  | [n] => go n (VFix 1) args
  | _ => {| o_res := RCond CArith; o_args := args |}
  end.

(* ---- mod rem ---- *)
Definition m_mod (args : list val) : out :=
  match args with
  | [n; d] =>
      match norm_kind n d with
      | KFix => if as_int d =? 0 then {| o_res := RCond CArith; o_args := args |}
                else let m := grem (as_int n) (as_int d) in
                     let dv := as_int d in
                     {| o_res := RVal (VFix (if ((0 <? dv) && (m <? 0)) || ((dv <? 0) && (0 <? m)) then wrap64 (m + dv) else m)); o_args := args |}
      | KBig => if as_int d =? 0 then {| o_res := RCond CArith; o_args := args |}
                else let dv := as_int d in
                     let z := Z.modulo (as_int n) (Z.abs dv) in     (* big.Int.Mod: Euclidean *)
                     {| o_res := RVal (VBig (if (dv <? 0) && (0 <? z) then z + dv else z)); o_args := args |}
      | _ => {| o_res := RVal VInexact; o_args := args |}
      end
  | _ => {| o_res := RCond CArith; o_args := args |}
  end.
Definition m_rem (args : list val) : out :=
  match args with
  | [n; d] =>
      match norm_kind n d with
      | KFix => if as_int d =? 0 then {| o_res := RCond CDivZero; o_args := args |}
                else {| o_res := RVal (VFix (grem (as_int n) (as_int d))); o_args := args |}
      | KBig => if as_int d =? 0 then {| o_res := RCond CDivZero; o_args := args |}
                else {| o_res := RVal (VBig (Z.rem (as_int n) (as_int d))); o_args := args |}
      | _ => {| o_res := RVal VInexact; o_args := args |}
      end
  | _ => {| o_res := RCond CArith; o_args := args |}
  end.

(* ---- abs 1+ 1- ---- *)
Definition m_abs (args : list val) : out :=
  match args with
  | [VFix z] => {| o_res := RVal (if z =? - two63 then VBig (- z) else VFix (if z <? 0 then wrap64 (- z) else z)); o_args := args |}
  | [VBig z] => {| o_res := RVal (VBig (Z.abs z)); o_args := args |}
  | [VRat n d] => {| o_res := RVal (VRat (Z.abs n) d); o_args := args |}
  | _ => {| o_res := RVal VInexact; o_args := args |}
  end.
Definition m_inc (delta : Z) (args : list val) : out :=
  match args with
  | [VFix z] => (* 1+ tests for MaxInt64, 1- for MinInt64: then the result is computed with math/big *)
      {| o_res := RVal (if z =? (if delta =? 1 then two63 - 1 else - two63) then VBig (z + delta) else VFix (wrap64 (z + delta))); o_args := args |}
  | [VBig z] => {| o_res := RVal (VBig (z + delta)); o_args := args |}
  | [VRat n d] => {| o_res := RVal (mkrat (n + delta * d) d); o_args := args |}   (* SetFrac into a fresh big.Rat *)
  | _ => {| o_res := RVal VInexact; o_args := args |}
  end.

(* ---- gcd lcm: a loop over fixnums; the first bignum (or the most negative fixnum, whose magnitude is not
   a fixnum) abandons it and starts over with math/big on ALL operands (bigGcd / bigLcm, which return a
   fixnum when the result fits); anything else is a type error ---- *)
Fixpoint go_gcd (fuel : nat) (x y : Z) : Z :=          (* for y != 0 { x, y = y, x%y }; 200 > 2 * 63 iterations *)
  match fuel with O => x | S f => if y =? 0 then x else go_gcd f y (grem x y) end.
Definition fix_gcd (x y : Z) : Z := go_gcd 200 x y.
Definition fix_abs (z : Z) : Z := if z <? 0 then wrap64 (- z) else z.
Fixpoint big_gcd (z : Z) (l : list val) : res :=
  match l with
  | [] => RVal (if fits64 z then VFix z else VBig z)
  | (VFix n | VBig n) :: l' => big_gcd (Z.gcd z n) l'           (* big.Int.GCD: nonnegative, GCD(0, n) = |n| *)
  | _ :: _ => RCond CType
  end.
(* the loops are written as folds over the operands: a state is the running fixnum (and whether the
   next operand is the first one), or the outcome once the loop has been left *)
Inductive loop_st := LRun (first : bool) (z : Z) | LDone (r : res).
Definition loop_res (st : loop_st) : res := match st with LRun _ z => RVal (VFix z) | LDone r => r end.
Definition gcd_step (all : list val) (st : loop_st) (v : val) : loop_st :=
  match st with
  | LDone _ => st
  | LRun first z =>
      match v with
      | VFix n =>
          if n =? - two63 then LDone (big_gcd 0 all)
          else let n' := fix_abs n in LRun false (if first then n' else fix_gcd z n')
      | VBig _ => LDone (big_gcd 0 all)
      | _ => LDone (RCond CType)
      end
  end.
Definition m_gcd (args : list val) : out :=
  {| o_res := loop_res (fold_left (gcd_step args) args (LRun true 0)); o_args := args |}.

(* lcm returns early with 0 at the first zero operand *)
Fixpoint big_lcm (z : Z) (l : list val) : res :=
  match l with
  | [] => RVal (if fits64 z then VFix z else VBig z)
  | (VFix n | VBig n) :: l' =>
      if n =? 0 then RVal (VFix 0)
      else let n' := Z.abs n in big_lcm (z / Z.gcd z n' * n') l'
  | _ :: _ => RCond CType
  end.
Definition lcm_step (all : list val) (st : loop_st) (v : val) : loop_st :=
  match st with
  | LDone _ => st
  | LRun first z =>
      match v with
      | VFix n =>
          if n =? - two63 then LDone (big_lcm 1 all)
          else if n =? 0 then LDone (RVal (VFix 0))
          else let n' := fix_abs n in
               if first then LRun false n'
               else let g := fix_gcd z n' in
                    if g =? 0 then LDone (RCond CFault) else
                    let q := gquot z g in let z' := wrap64 (q * n') in
                    if negb (gquot z' n' =? q) then LDone (big_lcm 1 all)       (* the multiple is not a fixnum *)
                    else LRun false z'
      | VBig _ => LDone (big_lcm 1 all)
      | _ => LDone (RCond CType)
      end
  end.
Definition m_lcm (args : list val) : out :=
  {| o_res := loop_res (fold_left (lcm_step args) args (LRun true 1)); o_args := args |}.

(* ---- comparisons ---- *)
(* n/d (d > 0) rounded to p significant bits, to nearest, ties to even: the value is m * 2^e.
   (strconv / math/big rounding; exponent range of float64 not modelled: |value| stays far inside it) *)
Definition round_bits (p : Z) (n d : Z) : Z * Z :=
  if n =? 0 then (0, 0) else
  let a := Z.abs n in
  let e0 := Z.log2 a - Z.log2 d - p in
  let scaled e := if 0 <=? e then (a, d * 2 ^ e) else (a * 2 ^ (- e), d) in
  let q0 := let '(x, y) := scaled e0 in x / y in
  let e := if 2 ^ p <=? q0 then e0 + 1 else e0 in
  let '(x, y) := scaled e in
  let q := x / y in let r := x - q * y in
  let q' := match Z.compare (2 * r) y with
            | Lt => q | Gt => q + 1 | Eq => if Z.even q then q else q + 1 end in
  ((if n <? 0 then - q' else q'), e).
Definition bitlen (z : Z) : Z := if z =? 0 then 0 else Z.log2 (Z.abs z) + 1.

Inductive cmp := CLt | CLe | CGt | CGe | CEq.
Definition cmp_z (c : cmp) (x y : Z) : bool :=
  match c with CLt => x <? y | CLe => x <=? y | CGt => y <? x | CGe => y <=? x | CEq => x =? y end.
(* a c b, where b is the operand handed to NormalizeNumber first (v0) and a second (v1) *)
Definition cmp_pair (c : cmp) (a b : val) : option bool :=
  match norm_kind a b with
  | KFix | KBig => Some (cmp_z c (as_int a) (as_int b))
  | KRat => Some (cmp_z c (as_num a * as_den b) (as_num b * as_den a))
  | KInexact =>
      match a, b with
      | VRat n d, VBig z =>   (* v0 = bignum, v1 = ratio: the ratio goes through float64 *)
          let '(m, e) := round_bits 53 n d in
          Some (if 0 <=? e then cmp_z c (m * 2 ^ e) z else cmp_z c m (z * 2 ^ (- e)))
      | VBig z, VRat n d =>   (* v0 = ratio, v1 = bignum: the ratio is rounded to the bignum's precision *)
          let '(m, e) := round_bits (Z.max 64 (bitlen z)) n d in
          Some (if 0 <=? e then cmp_z c z (m * 2 ^ e) else cmp_z c (z * 2 ^ (- e)) m)
      | _, _ => None
      end
  end.
Definition inexact_pair (a b : val) : bool := match norm_kind a b with KInexact => true | _ => false end.
(* < <= > >= : each operand against its predecessor, left to right *)
Fixpoint cmp_chain (c : cmp) (a : val) (rest : list val) : res :=
  match rest with
  | [] => RBool true
  | b :: rest' => match cmp_pair c a b with
                  | Some true => cmp_chain c b rest'
                  | Some false => RBool false
                  | None => RVal VInexact
                  end
  end.
(* = : from the last operand backwards.  same (pkg/cl/same.go) compares a bignum and a ratio (any two operands
   that are a *Bignum or a *Ratio) by their exact big.Rat values (asRat, slip repair C16-11; before it a bignum
   beyond int64 and a ratio went through long-floats) and keeps the target; for the other pairs the target becomes
   the NORMALISED later operand, and a pair that goes through floats is not predicted *)
Definition rat_like (v : val) : bool := match v with VBig _ | VRat _ _ => true | _ => false end.
Definition eq_pair (target x : val) : option bool :=
  if rat_like target && rat_like x
  then Some (cmp_z CEq (as_num target * as_den x) (as_num x * as_den target))
  else cmp_pair CEq target x.
Fixpoint eq_chain (target : val) (rev_rest : list val) : res :=
  match rev_rest with
  | [] => RBool true
  | x :: more => match eq_pair target x with
                 | Some true => eq_chain target more
                 | Some false => RBool false
                 | None => RVal VInexact
                 end
  end.
Definition m_cmp (c : cmp) (args : list val) : out :=
  {| o_res := match c with
              | CEq => match rev args with [] => RCond CArith | t :: more => eq_chain t more end
              | _ => match args with [] => RCond CArith | a :: rest => cmp_chain c a rest end
              end; o_args := args |}.

(* ---- logand logior logxor lognot ---- *)
(* first loop: fixnum operands are folded into a uint64; the first bignum abandons that loop and
   starts over with math/big on ALL operands; anything else is a type error *)
Inductive bitop := BAnd | BOr | BXor.
Definition u64 (z : Z) : Z := z mod (2 * two63).                 (* uint64(int64) keeps the bit pattern *)
Definition bit_z (b : bitop) : Z -> Z -> Z :=                   (* on Z these are the two's-complement operations, as in math/big *)
  match b with BAnd => Z.land | BOr => Z.lor | BXor => Z.lxor end.
Definition bit_init (b : bitop) : Z := match b with BAnd => 18446744073709551615 | _ => 0 end.
Inductive scan := SFix (u : Z) | SBig | SType.
Fixpoint bit_scan (b : bitop) (u : Z) (l : list val) : scan :=
  match l with
  | [] => SFix u
  | VFix z :: l' => bit_scan b (bit_z b u (u64 z)) l'
  | VBig _ :: _ => SBig
  | _ :: _ => SType
  end.
(* second loop: the accumulator is a fresh big.Int set from the first operand *)
Fixpoint bit_big (b : bitop) (first : bool) (bi : Z) (l : list val) : option Z :=
  match l with
  | [] => Some bi
  | (VFix z | VBig z) :: l' => bit_big b false (if first then z else bit_z b bi z) l'
  | _ :: _ => None
  end.
Definition m_bit (b : bitop) (args : list val) : out :=
  {| o_res := match bit_scan b (bit_init b) args with
              | SFix u => RVal (VFix (wrap64 u))                 (* slip.Fixnum(result) *)
              | SBig => match bit_big b true 0 args with Some z => RVal (VBig z) | None => RCond CType end
              | SType => RCond CType
              end;
     o_args := args |}.
Definition m_lognot (args : list val) : out :=
  match args with
  | [VFix z] => {| o_res := RVal (VFix (wrap64 (18446744073709551615 - u64 z))); o_args := args |}   (* ^uint64(z) *)
  | [VBig z] => {| o_res := RVal (VBig (- z - 1)); o_args := args |}                                 (* big.Int.Not into a fresh value *)
  | [_] => {| o_res := RCond CType; o_args := args |}
  | _ => {| o_res := RVal VInexact; o_args := args |}        (* argument count errors: not modelled *)
  end.

(* ---- max min (pkg/cl/max.go, min.go): the running extreme is compared with each further operand after
   NormalizeNumber(operand, extreme) - the same promotion and the same per-representation comparison as in
   the < and > chains - and replaced by the OPERAND ITSELF (not its promoted form) when that is strictly
   larger / smaller; so of equal values the earliest wins and the result keeps its own representation ---- *)
Fixpoint ext_loop (c : cmp) (cur : val) (rest : list val) : res :=
  match rest with
  | [] => RVal cur
  | a :: rest' => match cmp_pair c cur a with
                  | Some true => ext_loop c a rest'
                  | Some false => ext_loop c cur rest'
                  | None => RVal VInexact
                  end
  end.
Definition m_ext (mx : bool) (args : list val) : out :=
  {| o_res := match args with [] => RCond CArith | a :: rest => ext_loop (if mx then CLt else CGt) a rest end;
     o_args := args |}.

(* ---- isqrt (pkg/cl/isqrt.go, after repo_fixes/C05-21, 23, 24): a fixnum goes through big.Int.Sqrt of a fresh
   big.Int and comes back as a fixnum (the unchanged code took math.Sqrt of the float64, off by one from 2^53
   on); a bignum object goes through big.Int.Sqrt into a FRESH big.Int (the unchanged code used the operand as
   the receiver and so overwrote it) and the result is a bignum object whatever its size; a negative integer of
   either representation is an arithmetic-error (the unchanged code let math/big panic on a negative bignum).
   Ratios and floats (truncated float root) are not modelled.  The operand is returned as it was. ---- *)
Definition m_isqrt (args : list val) : out :=
  match args with
  | [VFix z] => {| o_res := if z <? 0 then RCond CArith else RVal (VFix (Z.sqrt z)); o_args := args |}
  | [VBig z] => {| o_res := if z <? 0 then RCond CArith else RVal (VBig (Z.sqrt z)); o_args := args |}
  | _ => {| o_res := RVal VInexact; o_args := args |}
  end.

Inductive opn :=
| OAdd | OSub | OMul | ODiv | ORound (m : rounding) | OMod | ORem | OAbs | OInc | ODec | OGcd | OLcm | OCmp (c : cmp)
| OBit (b : bitop) | OLognot | OExt (mx : bool)      (* OExt true = max, OExt false = min *)
| OIsqrt.

Definition m_op (o : opn) (args : list val) : out :=
  match o with
  | OAdd => m_add args | OSub => m_sub args | OMul => m_mul args | ODiv => m_div args
  | ORound m => m_round m args | OMod => m_mod args | ORem => m_rem args | OAbs => m_abs args
  | OInc => m_inc 1 args | ODec => m_inc (-1) args | OGcd => m_gcd args | OLcm => m_lcm args
  | OCmp c => m_cmp c args
  | OBit b => m_bit b args | OLognot => m_lognot args
  | OExt mx => m_ext mx args
  | OIsqrt => m_isqrt args
  end.
