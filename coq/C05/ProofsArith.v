(* C05 — proofs, part 7: + - * abs 1+ 1- on ANY exact operands (fixnums, bignum objects, ratios) at the
   level of values: whenever no step pairs a bignum beyond 64 bits with a ratio, the result has the exact
   rational value and is in lowest terms. *)
From C05 Require Import Model Spec Corr Proofs ProofsRound ProofsCmp ProofsDiv.
Open Scope Z_scope.

(* a value U/V is also the value N/D when the fractions are equal *)
Lemma has_value_eq v U V N D : V <> 0 -> has_value v U V -> U * D = N * V -> has_value v N D.
Proof.
  intros HV (x & y & Dv & Ev) E. exists x, y. split; [exact Dv|].
  apply (Z.mul_reg_r _ _ V HV).
  transitivity (x * V * D); [ring|]. rewrite Ev. transitivity (U * D * y); [ring|]. rewrite E. ring.
Qed.
Lemma int_val_lowest (b : bool) z : (b = true -> in64 z = true) -> lowest (if b then VFix z else VBig z) = true.
Proof. destruct b; cbn; auto. Qed.

(* ---------- one step of + * - ---------- *)
Lemma add2_value acc a N D : wf acc = true -> wf a = true -> has_value acc N D -> D <> 0 ->
  add2 acc a = VInexact \/
  (lowest (add2 acc a) = true /\ has_value (add2 acc a) (fst (qadd (N, D) (as_num a, as_den a))) (snd (qadd (N, D) (as_num a, as_den a)))).
Proof.
  intros Wc Wa (x & y & Dc & Ec) HD.
  destruct (wf_denote acc Wc) as [Dc' Pc]. rewrite Dc in Dc'. injection Dc' as -> ->.
  destruct (wf_denote a Wa) as [Da Pa]. unfold qadd. cbn [fst snd]. unfold add2.
  destruct (norm_kind a acc) eqn:Hk.
  - destruct acc as [k|k|qn qd|], a as [z|z|an ad|]; cbn [norm_kind] in Hk; try discriminate Hk;
      try (destruct (fits64 _); discriminate Hk). cbn [as_int as_num as_den] in *. right.
    rewrite (add_fix_spec z k Wa Wc). split; [apply int_val_lowest; auto|].
    exists (z + k), 1. split; [destruct (in64 (z + k)); reflexivity|]. lia.
  - destruct (kbig_ints _ _ Hk) as (E1 & E2 & E3 & E4). rewrite E1, E2, E3, E4 in *. right. split; [reflexivity|].
    exists (as_int a + as_int acc), 1. split; [reflexivity|]. lia.
  - right. assert (HV : as_den a * as_den acc <> 0) by nia. split; [apply mkrat_lowest, HV|].
    apply (has_value_eq _ _ _ _ _ HV (mkrat_value _ _ HV)).
    transitivity (as_num a * as_den acc * D * as_den a + (as_num acc * D) * (as_den a * as_den a)); [ring|].
    rewrite Ec. ring.
  - left. reflexivity.
Qed.
Lemma mul2_value acc a N D : wf acc = true -> wf a = true -> has_value acc N D -> D <> 0 ->
  mul2 acc a = VInexact \/
  (lowest (mul2 acc a) = true /\ has_value (mul2 acc a) (fst (qmul (N, D) (as_num a, as_den a))) (snd (qmul (N, D) (as_num a, as_den a)))).
Proof.
  intros Wc Wa (x & y & Dc & Ec) HD.
  destruct (wf_denote acc Wc) as [Dc' Pc]. rewrite Dc in Dc'. injection Dc' as -> ->.
  destruct (wf_denote a Wa) as [Da Pa]. unfold qmul. cbn [fst snd]. unfold mul2.
  destruct (norm_kind a acc) eqn:Hk.
  - destruct acc as [k|k|qn qd|], a as [z|z|an ad|]; cbn [norm_kind] in Hk; try discriminate Hk;
      try (destruct (fits64 _); discriminate Hk). cbn [as_int as_num as_den] in *. right.
    rewrite (mul_fix_spec z k Wa Wc). split; [apply int_val_lowest; auto|].
    exists (z * k), 1. split; [destruct (in64 (z * k)); reflexivity|].
    transitivity (z * (k * D)); [ring|]. rewrite Ec. ring.
  - destruct (kbig_ints _ _ Hk) as (E1 & E2 & E3 & E4). rewrite E1, E2, E3, E4 in *. right. split; [reflexivity|].
    exists (as_int a * as_int acc), 1. split; [reflexivity|].
    transitivity (as_int a * (as_int acc * D)); [ring|]. rewrite Ec. ring.
  - right. assert (HV : as_den a * as_den acc <> 0) by nia. split; [apply mkrat_lowest, HV|].
    apply (has_value_eq _ _ _ _ _ HV (mkrat_value _ _ HV)).
    transitivity (as_num a * as_den a * (as_num acc * D)); [ring|]. rewrite Ec. ring.
  - left. reflexivity.
Qed.
Lemma sub2_value acc a N D : wf acc = true -> wf a = true -> has_value acc N D -> D <> 0 ->
  sub2 acc a = VInexact \/
  (lowest (sub2 acc a) = true /\ has_value (sub2 acc a) (fst (qsub (N, D) (as_num a, as_den a))) (snd (qsub (N, D) (as_num a, as_den a)))).
Proof.
  intros Wc Wa (x & y & Dc & Ec) HD.
  destruct (wf_denote acc Wc) as [Dc' Pc]. rewrite Dc in Dc'. injection Dc' as -> ->.
  destruct (wf_denote a Wa) as [Da Pa]. unfold qsub. cbn [fst snd]. unfold sub2.
  destruct (norm_kind a acc) eqn:Hk.
  - destruct acc as [k|k|qn qd|], a as [z|z|an ad|]; cbn [norm_kind] in Hk; try discriminate Hk;
      try (destruct (fits64 _); discriminate Hk). cbn [as_int as_num as_den] in *. right.
    rewrite (sub_fix_spec k z Wc Wa). split; [apply int_val_lowest; auto|].
    exists (k - z), 1. split; [destruct (in64 (k - z)); reflexivity|]. lia.
  - destruct (kbig_ints _ _ Hk) as (E1 & E2 & E3 & E4). rewrite E1, E2, E3, E4 in *. right. split; [reflexivity|].
    exists (as_int acc - as_int a), 1. split; [reflexivity|]. lia.
  - right. assert (HV : as_den a * as_den acc <> 0) by nia. split; [apply mkrat_lowest, HV|].
    apply (has_value_eq _ _ _ _ _ HV (mkrat_value _ _ HV)).
    transitivity ((as_num acc * D) * (as_den a * as_den a) - as_num a * as_den acc * D * as_den a); [ring|].
    rewrite Ec. ring.
  - left. reflexivity.
Qed.

(* ---------- the folds ---------- *)
Section ValueFold.
  Variable step : val -> val -> val.
  Variable qf : Z * Z -> Z * Z -> Z * Z.
  Hypothesis step_value : forall acc a N D, wf acc = true -> wf a = true -> has_value acc N D -> D <> 0 ->
    step acc a = VInexact \/
    (lowest (step acc a) = true /\ has_value (step acc a) (fst (qf (N, D) (as_num a, as_den a))) (snd (qf (N, D) (as_num a, as_den a)))).
  Hypothesis step_inexact : forall a, step VInexact a = VInexact.
  Hypothesis qf_den : forall N D n d, D <> 0 -> 0 < d -> snd (qf (N, D) (n, d)) <> 0.

  Lemma fold_inexact l : fold_left step l VInexact = VInexact.
  Proof. induction l as [|a l IH]; cbn [fold_left]; [reflexivity|]. rewrite step_inexact. exact IH. Qed.

  Lemma value_fold rest : forall qs acc t, denotes rest = Some qs -> forallb wf rest = true -> wf acc = true ->
    has_value acc (fst t) (snd t) -> snd t <> 0 ->
    fold_left step rest acc = VInexact \/
    (wf (fold_left step rest acc) = true /\
     has_value (fold_left step rest acc) (fst (fold_left qf qs t)) (snd (fold_left qf qs t)) /\
     snd (fold_left qf qs t) <> 0 /\
     (rest <> [] -> lowest (fold_left step rest acc) = true)).
  Proof.
    induction rest as [|a rest IH]; intros qs acc t Dr Wr Wc Hv Ht.
    - cbn in Dr. injection Dr as <-. right. cbn. repeat split; try assumption. congruence.
    - cbn [denotes] in Dr. cbn [forallb] in Wr. apply andb_true_iff in Wr as [Wa Wr].
      destruct (wf_denote a Wa) as [Da Pa]. rewrite Da in Dr.
      destruct (denotes rest) as [qr|] eqn:Er; [|discriminate]. injection Dr as <-. cbn [fold_left].
      destruct (step_value acc a (fst t) (snd t) Wc Wa Hv Ht) as [Hi|[Lv Vv]].
      + left. rewrite Hi. apply fold_inexact.
      + replace (fst t, snd t) with t in Vv by (destruct t; reflexivity).
        assert (Ht' : snd (qf t (as_num a, as_den a)) <> 0) by (destruct t as [N D]; apply qf_den; [exact Ht|exact Pa]).
        destruct (IH qr (step acc a) (qf t (as_num a, as_den a)) eq_refl Wr (lowest_wf _ Lv) Vv Ht') as [Hi|(Ww & Vw & Tw & Lw)].
        * left. exact Hi.
        * right. repeat split; try assumption. intros _.
          destruct rest as [|b rest']; [exact Lv|apply Lw; discriminate].
  Qed.
End ValueFold.

Lemma add2_inexact a : add2 VInexact a = VInexact.
Proof. destruct a; reflexivity. Qed.
Lemma mul2_inexact a : mul2 VInexact a = VInexact.
Proof. destruct a; reflexivity. Qed.
Lemma sub2_inexact a : sub2 VInexact a = VInexact.
Proof. destruct a; reflexivity. Qed.
Lemma qadd_den N D n d : D <> 0 -> 0 < d -> snd (qadd (N, D) (n, d)) <> 0.
Proof. unfold qadd; cbn [fst snd]. nia. Qed.
Lemma qmul_den N D n d : D <> 0 -> 0 < d -> snd (qmul (N, D) (n, d)) <> 0.
Proof. unfold qmul; cbn [fst snd]. nia. Qed.
Lemma qsub_den N D n d : D <> 0 -> 0 < d -> snd (qsub (N, D) (n, d)) <> 0.
Proof. unfold qsub; cbn [fst snd]. nia. Qed.

Lemma lowest_all_wf l : forallb lowest l = true -> forallb wf l = true.
Proof. rewrite !forallb_forall. intros H v Hv. apply lowest_wf, H, Hv. Qed.

Lemma same_value_canon v N D : D <> 0 -> has_value v N D -> val_same_value (canon N D) v = true.
Proof. intros HD Hv. apply (same_value N D); [exact HD|apply canon_value, HD|exact Hv]. Qed.

(* + - * abs 1+ 1- on any operands math/big can hold: exact value in lowest terms unless the run goes
   through floats *)
Theorem arith_value_exact o args : arith_value_domain o args (o_res (m_op o args)) = true ->
  exists so, s_out o args = Some so /\
    res_same_value (o_res so) (o_res (m_op o args)) = true /\
    lowest_res (o_res (m_op o args)) = true.
Proof.
  unfold arith_value_domain. rewrite !andb_true_iff. intros [[Hs Hl] Hex].
  pose proof (lowest_all_wf _ Hl) as Wf.
  destruct (wf_denotes args Wf) as [qs Dq]. unfold s_out. rewrite Dq. eexists. split; [reflexivity|].
  assert (V0 : forall z, has_value (VFix z) (fst (z, 1)) (snd (z, 1))) by (intros z; exists z, 1; split; reflexivity).
  (* one operand: its value and the shape of the specification's operand list *)
  assert (One : forall a, args = [a] -> qs = [(as_num a, as_den a)] /\ 0 < as_den a /\ lowest a = true).
  { intros a ->. cbn in Hl. apply andb_true_iff in Hl as [La _]. destruct (wf_denote a (lowest_wf _ La)) as [Da Pa].
    cbn [denotes] in Dq. rewrite Da in Dq. injection Dq as <-. auto. }
  destruct o; try discriminate Hs; cbn [m_op o_res] in *.
  - (* + *)
    unfold m_add in *. cbn [o_res s_op] in *.
    destruct (value_fold add2 qadd add2_value add2_inexact qadd_den args qs (VFix 0) (0, 1) Dq Wf eq_refl (V0 0) ltac:(cbn; lia))
      as [Hi|(Ww & Vw & Tw & Lw)]; [rewrite Hi in Hex; discriminate|].
    cbn [res_same_value lowest_res]. split; [apply same_value_canon; assumption|].
    destruct args as [|a l]; [reflexivity|apply Lw; discriminate].
  - (* - *)
    destruct args as [|a [|b rest]]; [discriminate Hs| |].
    + destruct (One a eq_refl) as (-> & Pa & La). cbn [m_sub o_res s_op fst snd] in *.
      cbn [res_same_value lowest_res].
      destruct a as [z|z|n d|]; try discriminate La; cbn [neg1 as_num as_den] in *.
      * split; [|destruct (z =? - two63) eqn:E; [reflexivity|apply wrap64_in64]].
        apply same_value_canon; [lia|]. destruct (Z.eqb_spec z (- two63)) as [->|Hne].
        -- exists (- - two63), 1. split; [reflexivity|lia].
        -- apply in64_spec in La. assert (I : in64 (- z) = true) by (apply in64_spec; unfold two63 in *; lia).
           rewrite (wrap64_id _ I). exists (- z), 1. split; [reflexivity|lia].
      * split; [|reflexivity]. apply same_value_canon; [lia|]. exists (- z), 1. split; [reflexivity|lia].
      * split; [apply same_value_canon; [lia|]; exists (- n), d; split; [reflexivity|lia]|].
        cbn [lowest] in *. rewrite Z.gcd_opp_l. exact La.
    + cbn [forallb] in Wf. apply andb_true_iff in Wf as [Wa Wr]. destruct (wf_denote a Wa) as [Da Pa].
      change (denotes (a :: b :: rest)) with
        (match denote a, denotes (b :: rest) with Some q, Some qs => Some (q :: qs) | _, _ => None end) in Dq.
      rewrite Da in Dq. destruct (denotes (b :: rest)) as [qr|] eqn:Dr; [|discriminate]. injection Dq as <-.
      unfold m_sub in *. cbn [o_res] in *.
      assert (Hs' : s_op OSub ((as_num a, as_den a) :: qr) =
                    let t := fold_left qsub qr (as_num a, as_den a) in RVal (canon (fst t) (snd t))).
      { cbn [denotes] in Dr. destruct (denote b); [|discriminate]. destruct (denotes rest); [|discriminate]. injection Dr as <-. reflexivity. }
      rewrite Hs'. cbv zeta.
      assert (Va : has_value a (fst (as_num a, as_den a)) (snd (as_num a, as_den a))) by (exists (as_num a), (as_den a); split; [exact Da|reflexivity]).
      destruct (value_fold sub2 qsub sub2_value sub2_inexact qsub_den (b :: rest) qr a (as_num a, as_den a) Dr Wr Wa Va ltac:(cbn; lia))
        as [Hi|(Ww & Vw & Tw & Lw)]; [rewrite Hi in Hex; discriminate|].
      cbn [res_same_value lowest_res]. split; [apply same_value_canon; assumption|apply Lw; discriminate].
  - (* * *)
    unfold m_mul in *. cbn [o_res s_op] in *.
    destruct (value_fold mul2 qmul mul2_value mul2_inexact qmul_den args qs (VFix 1) (1, 1) Dq Wf eq_refl (V0 1) ltac:(cbn; lia))
      as [Hi|(Ww & Vw & Tw & Lw)]; [rewrite Hi in Hex; discriminate|].
    cbn [res_same_value lowest_res]. split; [apply same_value_canon; assumption|].
    destruct args as [|a l]; [reflexivity|apply Lw; discriminate].
  - (* abs *)
    destruct args as [|a [|? ?]]; try discriminate Hs. destruct (One a eq_refl) as (-> & Pa & La).
    cbn [s_op fst snd]. destruct a as [z|z|n d|]; try discriminate La; cbn [m_abs o_res as_num as_den res_same_value lowest_res] in *.
    + destruct (Z.eqb_spec z (- two63)) as [->|Hne].
      * split; [apply same_value_canon; [lia|]; exists (- - two63), 1; split; [reflexivity|reflexivity]|reflexivity].
      * apply in64_spec in La. assert (I : in64 (Z.abs z) = true) by (apply in64_spec; unfold two63 in *; lia).
        assert (E : (if z <? 0 then wrap64 (- z) else z) = Z.abs z).
        { destruct (Z.ltb_spec z 0); [|lia]. replace (Z.abs z) with (- z) in * by lia. apply wrap64_id, I. }
        rewrite E. split; [|exact I]. apply same_value_canon; [lia|]. exists (Z.abs z), 1. split; [reflexivity|lia].
    + split; [|reflexivity]. apply same_value_canon; [lia|]. exists (Z.abs z), 1. split; [reflexivity|lia].
    + split; [apply same_value_canon; [lia|]; exists (Z.abs n), d; split; [reflexivity|lia]|].
      cbn [lowest] in *. rewrite Z.gcd_abs_l. exact La.
  - (* 1+ *)
    destruct args as [|a [|? ?]]; try discriminate Hs. destruct (One a eq_refl) as (-> & Pa & La).
    cbn [s_op fst snd]. destruct a as [z|z|n d|]; try discriminate La; cbn [m_inc o_res as_num as_den res_same_value lowest_res] in *.
    + change (1 =? 1) with true. cbv iota. destruct (Z.eqb_spec z (two63 - 1)) as [->|Hne].
      * split; [apply same_value_canon; [lia|]; exists (two63 - 1 + 1), 1; split; [reflexivity|lia]|reflexivity].
      * apply in64_spec in La. assert (I : in64 (z + 1) = true) by (apply in64_spec; unfold two63 in *; lia).
        rewrite (wrap64_id _ I). split; [|exact I]. apply same_value_canon; [lia|]. exists (z + 1), 1. split; [reflexivity|lia].
    + split; [|reflexivity]. apply same_value_canon; [lia|]. exists (z + 1), 1. split; [reflexivity|lia].
    + assert (HV : d <> 0) by lia. split; [|apply mkrat_lowest, HV]. apply same_value_canon; [exact HV|].
      apply (has_value_eq _ _ _ _ _ HV (mkrat_value _ _ HV)). ring.
  - (* 1- *)
    destruct args as [|a [|? ?]]; try discriminate Hs. destruct (One a eq_refl) as (-> & Pa & La).
    cbn [s_op fst snd]. destruct a as [z|z|n d|]; try discriminate La; cbn [m_inc o_res as_num as_den res_same_value lowest_res] in *.
    + change (-1 =? 1) with false. cbv iota. destruct (Z.eqb_spec z (- two63)) as [->|Hne].
      * split; [apply same_value_canon; [lia|]; exists (- two63 + -1), 1; split; [reflexivity|lia]|reflexivity].
      * apply in64_spec in La. assert (I : in64 (z + -1) = true) by (apply in64_spec; unfold two63 in *; lia).
        rewrite (wrap64_id _ I). split; [|exact I]. apply same_value_canon; [lia|]. exists (z + -1), 1. split; [reflexivity|lia].
    + split; [|reflexivity]. apply same_value_canon; [lia|]. exists (z + -1), 1. split; [reflexivity|lia].
    + assert (HV : d <> 0) by lia. split; [|apply mkrat_lowest, HV]. apply same_value_canon; [exact HV|].
      apply (has_value_eq _ _ _ _ _ HV (mkrat_value _ _ HV)). ring.
Qed.
