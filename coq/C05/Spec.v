(* C05 — specification S: the mathematically exact result on the exact values of the operands, in
   canonical form (an integer is a fixnum iff it fits in 64 bits, otherwise a bignum; a ratio is
   reduced, positive denominator > 1), operands untouched. *)
From C05 Require Export Model.
Open Scope Z_scope.

(* exact value of an operand as n/d with d > 0; None for inexact *)
Definition denote (v : val) : option (Z * Z) :=
  match v with
  | VFix z | VBig z => Some (z, 1)
  | VRat n d => Some (n, d)
  | VInexact => None
  end.
Fixpoint denotes (vs : list val) : option (list (Z * Z)) :=
  match vs with
  | [] => Some []
  | v :: vs' => match denote v, denotes vs' with Some q, Some qs => Some (q :: qs) | _, _ => None end
  end.

Definition canon_int (z : Z) : val := if in64 z then VFix z else VBig z.
Definition canon (n d : Z) : val :=      (* d <> 0 *)
  match mkrat n d with
  | VRat n' d' => if d' =? 1 then canon_int n' else VRat n' d'
  | v => v
  end.
(* operands as the reader produces them *)
Definition canonical (v : val) : bool :=
  match v with
  | VFix z => in64 z
  | VBig z => negb (in64 z)
  | VRat n d => (1 <? d) && (Z.gcd n d =? 1)
  | VInexact => false
  end.

Definition qadd (a b : Z * Z) := (fst a * snd b + fst b * snd a, snd a * snd b).
Definition qsub (a b : Z * Z) := (fst a * snd b - fst b * snd a, snd a * snd b).
Definition qmul (a b : Z * Z) := (fst a * fst b, snd a * snd b).
Definition qlt (a b : Z * Z) : bool := fst a * snd b <? fst b * snd a.
Definition qeq (a b : Z * Z) : bool := fst a * snd b =? fst b * snd a.

(* the four rounding divisions on integers: n = q*d + r *)
Definition s_quot (m : rounding) (n d : Z) : Z :=
  match m with
  | Floor => n / d                       (* Z.div rounds towards minus infinity *)
  | Ceiling => - ((- n) / d)
  | Truncate => Z.quot n d
  | Round => let q := n / d in let r := n - q * d in   (* 0 <= r/d < 1 *)
             match Z.compare (2 * Z.abs r) (Z.abs d) with
             | Lt => q | Gt => q + 1 | Eq => if Z.even q then q else q + 1 end
  end.

Fixpoint s_chain (rel : Z * Z -> Z * Z -> bool) (a : Z * Z) (rest : list (Z * Z)) : bool :=
  match rest with [] => true | b :: rest' => rel a b && s_chain rel b rest' end.

(* identities of the bitwise operations: (logand) = -1, (logior) = (logxor) = 0 *)
Definition bit_unit (b : bitop) : Z := match b with BAnd => -1 | _ => 0 end.

Definition s_op (o : opn) (qs : list (Z * Z)) : res :=
  let ints := forallb (fun q => snd q =? 1) qs in
  match o, qs with
  | OAdd, _ => let t := fold_left qadd qs (0, 1) in RVal (canon (fst t) (snd t))
  | OMul, _ => let t := fold_left qmul qs (1, 1) in RVal (canon (fst t) (snd t))
  | OSub, [a] => RVal (canon (- fst a) (snd a))
  | OSub, a :: rest => let t := fold_left qsub rest a in RVal (canon (fst t) (snd t))
  | ODiv, [a] => if fst a =? 0 then RCond CDivZero else RVal (canon (snd a) (fst a))
  | ODiv, a :: rest => if existsb (fun q => fst q =? 0) rest then RCond CDivZero
                       else let t := fold_left (fun x y => (fst x * snd y, snd x * fst y)) rest a in RVal (canon (fst t) (snd t))
  | ORound m, [(n, 1); (d, 1)] =>
      if d =? 0 then RCond CDivZero else let q := s_quot m n d in RVals (canon_int q) (canon_int (n - q * d))
  | ORound m, [a; b] =>        (* rationals: the quotient of a/b rounded, remainder a - q*b *)
      if fst b =? 0 then RCond CDivZero
      else let tn := fst a * snd b in let td := snd a * fst b in
           let '(tn, td) := if td <? 0 then (- tn, - td) else (tn, td) in
           let q := s_quot m tn td in
           RVals (canon_int q) (canon (fst a * snd b - q * fst b * snd a) (snd a * snd b))
  | ORound m, [a] =>
      let q := s_quot m (fst a) (snd a) in RVals (canon_int q) (canon (fst a - q * snd a) (snd a))
  | OMod, [(n, 1); (d, 1)] => if d =? 0 then RCond CDivZero else RVal (canon_int (n mod d))
  | ORem, [(n, 1); (d, 1)] => if d =? 0 then RCond CDivZero else RVal (canon_int (Z.rem n d))
  | OAbs, [a] => RVal (canon (Z.abs (fst a)) (snd a))
  | OInc, [a] => RVal (canon (fst a + snd a) (snd a))
  | ODec, [a] => RVal (canon (fst a - snd a) (snd a))
  | OGcd, _ => if ints then RVal (canon_int (fold_left Z.gcd (map fst qs) 0)) else RCond CType
  | OLcm, _ => if ints then RVal (canon_int (fold_left Z.lcm (map fst qs) 1)) else RCond CType
  | OBit b, _ => if ints then RVal (canon_int (fold_left (bit_z b) (map fst qs) (bit_unit b)))
                 else RCond CType
  | OLognot, [a] => if snd a =? 1 then RVal (canon_int (Z.lnot (fst a))) else RCond CType
  (* isqrt: the integer root of a natural number; a negative integer is an arithmetic-error in slip
     (CLHS: type-error; slip's own test pins the class), other operands are not covered *)
  | OIsqrt, [(n, 1)] => if n <? 0 then RCond CArith else RVal (canon_int (Z.sqrt n))
  | OExt mx, a :: rest =>      (* the largest / smallest of the exact values, in canonical form *)
      let t := fold_left (fun x y => if (if mx then qlt x y else qlt y x) then y else x) rest a in
      RVal (canon (fst t) (snd t))
  | OCmp c, a :: rest =>
      RBool (match c with
             | CLt => s_chain qlt a rest
             | CLe => s_chain (fun x y => negb (qlt y x)) a rest
             | CGt => s_chain (fun x y => qlt y x) a rest
             | CGe => s_chain (fun x y => negb (qlt x y)) a rest
             | CEq => s_chain qeq a rest
             end)
  | _, _ => RVal VInexact      (* shapes the specification does not cover (ratios in rounding divisions) *)
  end.

(* S as a full outcome: the exact result and the operands exactly as they were *)
Definition s_out (o : opn) (args : list val) : option out :=
  match denotes args with
  | Some qs => Some {| o_res := s_op o qs; o_args := args |}
  | None => None
  end.

(* ---- the guard: where the code is claimed (and proved) to meet S ---- *)
Definition all_fix (args : list val) : bool := forallb (fun v => match v with VFix z => in64 z | _ => false end) args.
Definition fixes (args : list val) : list Z := map as_int args.
(* every prefix result of a left fold stays inside int64 *)
Fixpoint prefixes_in64 (f : Z -> Z -> Z) (acc : Z) (zs : list Z) : bool :=
  match zs with [] => true | z :: zs' => in64 (f acc z) && prefixes_in64 f (f acc z) zs' end.

Definition exact_pairs (args : list val) : bool :=      (* no adjacent pair goes through floats *)
  (fix go a rest := match rest with [] => true | b :: rest' => negb (inexact_pair a b) && go b rest' end)
    (hd VInexact args) (tl args) && forallb canonical args.

Definition all_int (args : list val) : bool :=
  forallb (fun v => match v with VFix z => in64 z | VBig _ => true | _ => false end) args.
Definition is_fix (v : val) : bool := match v with VFix _ => true | _ => false end.

(* + - * on integers: the accumulator stays a fixnum as long as every prefix result fits in 64 bits; the
   first one that does not is computed with math/big and the accumulator is a bignum object from then
   on (also after a bignum operand).  A bignum object is the canonical form only of a value that does not
   fit in 64 bits (results are not demoted: known finding C05-bignum-result-not-demoted). *)
Definition fold_domain (f : Z -> Z -> Z) (a : Z) (a_fix : bool) (rest : list val) : bool :=
  all_int rest &&
  ((a_fix && all_fix rest && prefixes_in64 f a (fixes rest)) || negb (in64 (fold_left f (fixes rest) a))).

Definition in_domain (o : opn) (args : list val) : bool :=
  match o with
  | OAdd => fold_domain Z.add 0 true args
  | OMul => fold_domain Z.mul 1 true args
  | OSub => match args with
            | [VFix a] => in64 a
            | [VBig a] => negb (in64 (- a))
            | VFix a :: rest => in64 a && fold_domain Z.sub a true rest
            | VBig a :: rest => fold_domain Z.sub a false rest
            | _ => false end
  | OInc => match args with [VFix a] => in64 a | [VBig a] => negb (in64 (a + 1)) | _ => false end
  | ODec => match args with [VFix a] => in64 a | [VBig a] => negb (in64 (a - 1)) | _ => false end
  | OAbs => match args with [VFix a] => in64 a | [VBig a] => negb (in64 (Z.abs a)) | _ => false end
  | ORound m => all_fix args && match fixes args with
                                | [n; d] => (d =? 0) ||        (* a zero divisor: division-by-zero, as S demands *)
                                            ((n =? - two63) && (d =? -1)) ||    (* the bignum 2^63 and the fixnum 0 *)
                                            match m with
                                            | Floor => (0 <? d) || (Z.rem n d =? 0)
                                            (* round works on magnitudes; when one of them is not a fixnum it uses the
                                               bignum branch, whose results are bignum objects: value domain *)
                                            | Round => (Z.rem n d =? 0) || (in64 (Z.abs n) && in64 (Z.abs d))
                                            | _ => true end
                                | _ => false end
  | OMod => all_fix args && match fixes args with [n; d] => negb (d =? 0) | _ => false end   (* known: arithmetic-error *)
  | ORem => all_fix args && match fixes args with [n; d] => true | _ => false end
  | OCmp _ => (1 <=? Z.of_nat (length args)) && exact_pairs args
  (* bitwise operations: integers only; once a bignum takes part the result is a bignum object, which is
     the canonical form only when the exact result does not fit in 64 bits *)
  | OBit b => all_int args && (all_fix args || negb (in64 (fold_left (bit_z b) (map as_int args) (bit_unit b))))
  | OLognot => match args with [VFix z] => in64 z | [VBig z] => negb (in64 (Z.lnot z)) | _ => false end
  (* max min: one operand or more, in canonical form (the result is one of the operand objects), and no bignum
     together with a ratio among them (any two operands may meet in a comparison; a canonical bignum is beyond
     64 bits, so that pair would go through floats) *)
  | OExt _ => negb (Nat.eqb (length args) 0) && forallb canonical args &&
              negb (existsb (fun v => match v with VRat _ _ => true | _ => false end) args &&
                    existsb (fun v => match v with VBig _ => true | _ => false end) args)
  (* / on fixnums: the quotient of two fixnums always; in longer chains and for the reciprocal two results
     are not demoted (known findings): (/ -1) is the ratio -1/1, and after most-negative-fixnum / -1 = 2^63
     the quotient stays a bignum object *)
  | ODiv => all_fix args && match fixes args with
                            | [a] => negb (a =? -1)
                            | [a; b] => true
                            | a :: _ => negb (a =? - two63)
                            | [] => false end
  (* gcd lcm: any integers in any representation *)
  | OGcd | OLcm => all_int args
  (* isqrt: every fixnum, negative bignum objects (arithmetic-error) and bignum objects whose root does not
     fit in 64 bits (the root of a bignum is always a bignum object) *)
  | OIsqrt => match args with
              | [VFix z] => in64 z
              | [VBig z] => (z <? 0) || negb (in64 (Z.sqrt z))
              | _ => false end
  end.

(* ---- a second, wider domain for the rounding divisions: operands of any representation the
   implementation can hold (a bignum object may hold a small value, a ratio any positive denominator),
   at least one of them a bignum or a ratio, divisor not zero, and no bignum beyond 64 bits paired with
   a ratio.  There the model is proved to return the exact VALUES (ProofsRound.v); the representation
   of the results (always bignum / ratio objects) is not the canonical one. ---- *)
Definition wf (v : val) : bool :=
  match v with VFix z => in64 z | VBig _ => true | VRat _ d => 0 <? d | VInexact => false end.
Definition kind_exact (k : kind) : bool := match k with KBig | KRat => true | _ => false end.
Definition round_value_domain (args : list val) : bool :=
  forallb wf args &&
  match args with
  | [n; d] => negb (as_num d =? 0) && kind_exact (norm_kind n d)
  | [n] => kind_exact (norm_kind n (VFix 1))
  | _ => false
  end.
(* the same for mod and rem: integers, at least one bignum object *)
Definition modrem_value_domain (args : list val) : bool :=
  forallb wf args &&
  match args with
  | [n; d] => negb (as_num d =? 0) && match norm_kind n d with KBig => true | _ => false end
  | _ => false
  end.

(* the domain of the value-level theorem: operations whose bignum / ratio paths return exact values in
   a non-canonical representation *)
Definition value_domain (o : opn) (args : list val) : bool :=
  match o with
  | ORound _ => round_value_domain args
  | OMod | ORem => modrem_value_domain args
  | OBit _ => all_int args
  | OIsqrt => match args with [VBig z] => 0 <=? z | _ => false end
  | _ => false
  end.

(* ---- / at the level of values: a result in lowest terms (what math/big can hold, whatever slip's
   canonical form would be), and a run that never left the exact types ---- *)
Definition lowest (v : val) : bool :=
  match v with
  | VFix z => in64 z
  | VBig _ => true
  | VRat n d => (0 <? d) && (Z.gcd n d =? 1)
  | VInexact => false
  end.
Definition exact_res (r : res) : bool := match r with RVal VInexact => false | _ => true end.
Definition lowest_res (r : res) : bool :=
  match r with RVal v => lowest v | RCond CDivZero => true | _ => false end.
Definition div_value_domain (args : list val) (m_res : res) : bool :=
  forallb wf args && (2 <=? Z.of_nat (length args)) && exact_res m_res.

(* ---- + - * abs 1+ 1- at the level of values: operands as math/big holds them (ratios in lowest terms,
   denominator 1 possible; bignum objects of any value), and a run that never left the exact types ---- *)
Definition arith_value_domain (o : opn) (args : list val) (m_res : res) : bool :=
  match o with
  | OAdd | OMul => true
  | OSub => negb (Nat.eqb (length args) 0)
  | OInc | ODec | OAbs => Nat.eqb (length args) 1
  | _ => false
  end && forallb lowest args && exact_res m_res.
