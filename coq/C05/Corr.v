From C05 Require Import Model Spec.
Open Scope Z_scope.
Definition val_eqb (a b : val) : bool :=
  match a, b with
  | VFix x, VFix y | VBig x, VBig y => Z.eqb x y
  | VRat n d, VRat n' d' => Z.eqb n n' && Z.eqb d d'
  | VInexact, VInexact => true
  | _, _ => false
  end.
Definition cond_eqb (a b : cond) : bool :=
  match a, b with CDivZero, CDivZero | CArith, CArith | CType, CType | CFault, CFault => true | _, _ => false end.
Definition res_eqb (a b : res) : bool :=
  match a, b with
  | RVal x, RVal y => val_eqb x y
  | RVals q r, RVals q' r' => val_eqb q q' && val_eqb r r'
  | RBool x, RBool y => Bool.eqb x y
  | RCond x, RCond y => cond_eqb x y
  | _, _ => false
  end.
Fixpoint list_eqb {A} (eqb : A -> A -> bool) (a b : list A) : bool :=
  match a, b with [], [] => true | x :: a', y :: b' => eqb x y && list_eqb eqb a' b' | _, _ => false end.
Definition case := (opn * list val * res * list val)%type.
(* equality of exact VALUES, whatever the representation *)
Definition val_same_value (a b : val) : bool :=
  match denote a, denote b with
  | Some (n, d), Some (n', d') => Z.eqb (n * d') (n' * d)
  | _, _ => false
  end.
Definition res_same_value (a b : res) : bool :=
  match a, b with
  | RVal x, RVal y => val_same_value x y
  | RVals q r, RVals q' r' => val_same_value q q' && val_same_value r r'
  | RBool x, RBool y => Bool.eqb x y
  | RCond _, RCond _ => true
  | _, _ => false
  end.
Definition out_matches (m : out) (r : res) (after : list val) : bool :=
  res_eqb (o_res m) r && list_eqb val_eqb (o_args m) after.
(* 0: M = observed (and the proved theorems hold on the case).  1: M <> observed; inside the guard the observed outcome still equals S (or the
   case is outside the guard).  2: M <> observed and, inside the guard, observed <> S.
   3: self-check: M = observed, inside the guard, but M <> S (the theorem would be false); or inside the
      value domain and the value of M differs from the value of S (the value-level theorem would be false) *)
Definition check_case (c : case) : N :=
  let '(o, args, r, after) := c in
  let m := m_op o args in
  (* RVal VInexact from the model = a float path it declines to predict *)
  let rok := match o_res m with RVal VInexact => true | x => res_eqb x r end in
  let agree := rok && list_eqb val_eqb (o_args m) after in
  let dom := in_domain o args in
  let s_obs := match s_out o args with Some so => out_matches so r after | None => true end in
  let s_m := match s_out o args with Some so => out_matches so (o_res m) (o_args m) | None => true end in
  let v_m := match s_out o args with Some so => res_same_value (o_res so) (o_res m) | None => false end in
  (* / : the value-level theorem (exact value in lowest terms whenever the run stayed in the exact types) *)
  let d_m := match o with
             | ODiv => negb (div_value_domain args (o_res m)) || (v_m && lowest_res (o_res m))
             | OAdd | OSub | OMul | OInc | ODec | OAbs =>
                 negb (arith_value_domain o args (o_res m)) || (v_m && lowest_res (o_res m))
             | _ => true end in
  (* "never alter their operands": M never does (operands_untouched), so operands that differ afterwards
     are a failing input whatever the operation and the representation of the operands *)
  let untouched := list_eqb val_eqb args after in
  if agree then (if (dom && negb s_m) || (value_domain o args && negb v_m) || negb d_m then 3%N else 0%N)
  (* a failing input: the implementation leaves S inside the guard, or on an input where the model
     (the unchanged code) met S *)
  else if negb untouched then 2%N
  else if (dom || s_m) && negb s_obs then 2%N
  else match s_out o args with
       | Some so => (* ... or the values were exact (whatever the representation) and no longer are *)
           if res_same_value (o_res so) (o_res m) && negb (res_same_value (o_res so) r) then 2%N else 1%N
       | None => 1%N
       end.
Fixpoint check_all_from (i : N) (cs : list case) : list (N * N) :=
  match cs with
  | [] => []
  | c :: cs' => let r := check_case c in (if N.eqb r 0 then [] else [(i, r)]) ++ check_all_from (N.succ i) cs'
  end.
Definition check_all := check_all_from 0%N.
Definition guard_count (cs : list case) : N :=
  N.of_nat (length (filter (fun c => let '(o, args, _, _) := c in in_domain o args) cs)).
(* how many observed outcomes equal S, inside or outside the guard *)
Definition spec_agree_count (cs : list case) : N :=
  N.of_nat (length (filter (fun c => let '(o, args, r, after) := c in
     match s_out o args with Some so => out_matches so r after | None => false end) cs)).

Definition value_guard_count (cs : list case) : N :=
  N.of_nat (length (filter (fun c => let '(o, args, _, _) := c in value_domain o args) cs)).
