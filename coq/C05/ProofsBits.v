(* C05 — proofs, part 3: logand logior logxor lognot.  The fixnum loop works on uint64 bit patterns;
   modulo 2^64 these are the two's-complement operations on Z, and int64 is closed under them. *)
From C05 Require Import Model Spec Corr Proofs ProofsRound.
From Coq Require Import ZifyBool.
Open Scope Z_scope.

Lemma two64_pow : 2 * two63 = 2 ^ 64.
Proof. reflexivity. Qed.
Lemma u64_ones z : u64 z = Z.land z (Z.ones 64).
Proof. unfold u64. rewrite two64_pow, Z.land_ones by lia. reflexivity. Qed.

(* the operations commute with taking the low 64 bits *)
Lemma bit_mask b x y m : bit_z b (Z.land x m) (Z.land y m) = Z.land (bit_z b x y) m.
Proof.
  apply Z.bits_inj'. intros n _. destruct b; cbn [bit_z];
    rewrite ?Z.land_spec, ?Z.lor_spec, ?Z.lxor_spec, ?Z.land_spec;
    destruct (Z.testbit x n), (Z.testbit y n), (Z.testbit m n); reflexivity.
Qed.
Lemma bit_u64 b x y : bit_z b (u64 x) (u64 y) = u64 (bit_z b x y).
Proof. rewrite !u64_ones. apply bit_mask. Qed.
Lemma u64_idem x : u64 (u64 x) = u64 x.
Proof. unfold u64. apply Z.mod_mod. unfold two63. lia. Qed.
Lemma bit_init_unit b : bit_init b = u64 (bit_unit b).
Proof. destruct b; reflexivity. Qed.

Lemma wrap64_u64 x : wrap64 (u64 x) = wrap64 x.
Proof.
  unfold wrap64, u64. f_equal.
  rewrite Zplus_mod_idemp_l. reflexivity.
Qed.

(* int64 = the integers whose bits from 63 upwards are all equal *)
Lemma in64_shiftr x : in64 x = true <-> (Z.shiftr x 63 = 0 \/ Z.shiftr x 63 = -1).
Proof.
  rewrite in64_spec, Z.shiftr_div_pow2 by lia. change (2 ^ 63) with two63.
  pose proof (Z.div_mod x two63) as E. pose proof (Z.mod_pos_bound x two63) as B. unfold two63 in *. lia.
Qed.
Lemma bit_in64 b x y : in64 x = true -> in64 y = true -> in64 (bit_z b x y) = true.
Proof.
  rewrite !in64_shiftr. intros Hx Hy.
  destruct b; cbn [bit_z]; rewrite ?Z.shiftr_land, ?Z.shiftr_lor, ?Z.shiftr_lxor;
    destruct Hx as [-> | ->], Hy as [-> | ->]; cbn; auto.
Qed.
Lemma bit_unit_in64 b : in64 (bit_unit b) = true.
Proof. destruct b; reflexivity. Qed.
Lemma fold_in64 b zs : forall a, in64 a = true -> forallb in64 zs = true -> in64 (fold_left (bit_z b) zs a) = true.
Proof.
  induction zs as [|z zs IH]; intros a Ha Hz; cbn in *; [exact Ha|].
  apply andb_true_iff in Hz as [H1 H2]. apply IH; [apply bit_in64; assumption|exact H2].
Qed.

(* the fixnum loop *)
Lemma scan_fix b zs : forall a, bit_scan b (u64 a) (map VFix zs) = SFix (u64 (fold_left (bit_z b) zs a)).
Proof.
  induction zs as [|z zs IH]; intros a; cbn [map bit_scan fold_left]; [reflexivity|].
  rewrite bit_u64. apply IH.
Qed.

(* operands that are integers *)
Lemma all_int_denotes args : all_int args = true ->
  denotes args = Some (map (fun v => (as_int v, 1)) args).
Proof.
  unfold all_int. induction args as [|v args IH]; cbn; [reflexivity|].
  rewrite andb_true_iff. intros [Hv Hr]. rewrite (IH Hr). destruct v; try discriminate; reflexivity.
Qed.
Lemma scan_big b args : forall u, all_int args = true -> all_fix args = false -> bit_scan b u args = SBig.
Proof.
  unfold all_int, all_fix. induction args as [|v args IH]; intros u Hi Hf; cbn in *; [discriminate|].
  apply andb_true_iff in Hi as [Hv Hr]. destruct v; try discriminate; [|reflexivity].
  rewrite Hv in Hf. cbn in Hf. apply IH; assumption.
Qed.
Lemma big_loop b args : forall acc, all_int args = true ->
  bit_big b false acc args = Some (fold_left (bit_z b) (map as_int args) acc).
Proof.
  unfold all_int. induction args as [|v args IH]; intros acc Hi; cbn in *; [reflexivity|].
  apply andb_true_iff in Hi as [Hv Hr]. destruct v; try discriminate; cbn [as_int]; apply IH, Hr.
Qed.
Lemma bit_unit_l b z : bit_z b (bit_unit b) z = z.
Proof. destruct b; cbn [bit_z bit_unit]; [apply Z.land_m1_l|apply Z.lor_0_l|apply Z.lxor_0_l]. Qed.
Lemma big_loop_first b args : all_int args = true -> args <> [] ->
  bit_big b true 0 args = Some (fold_left (bit_z b) (map as_int args) (bit_unit b)).
Proof.
  destruct args as [|v args]; [congruence|]. intros Hi _. unfold all_int in Hi. cbn [forallb] in Hi.
  apply andb_true_iff in Hi as [Hv Hr]. cbn [map fold_left]. rewrite bit_unit_l.
  destruct v; try discriminate; cbn [bit_big as_int]; apply big_loop, Hr.
Qed.

Lemma s_bit b args : all_int args = true ->
  s_out (OBit b) args = Some {| o_res := RVal (canon_int (fold_left (bit_z b) (map as_int args) (bit_unit b))); o_args := args |}.
Proof.
  intros Hi. unfold s_out. rewrite (all_int_denotes _ Hi). cbn [s_op].
  replace (forallb (fun q : Z * Z => snd q =? 1) (map (fun v => (as_int v, 1)) args)) with true
    by (clear; induction args; cbn; auto).
  rewrite map_map. cbn [fst]. reflexivity.
Qed.

Lemma all_fix_int args : all_fix args = true -> all_int args = true.
Proof.
  unfold all_fix, all_int. induction args as [|v args IH]; cbn; [auto|].
  rewrite !andb_true_iff. intros [Hv Hr]. split; [destruct v; try discriminate; exact Hv|apply IH, Hr].
Qed.

(* the model's result is always the exact value (for integer operands) *)
Lemma m_bit_value b args : all_int args = true ->
  o_res (m_bit b args) =
    let z := fold_left (bit_z b) (map as_int args) (bit_unit b) in
    if all_fix args then RVal (VFix z) else RVal (VBig z).
Proof.
  intros Hi. cbv zeta. unfold m_bit. cbn [o_res]. destruct (all_fix args) eqn:Hf.
  - destruct (all_fix_spec args Hf) as [Ha Hin]. rewrite Ha at 1. rewrite bit_init_unit, scan_fix.
    rewrite wrap64_u64. unfold fixes in *. rewrite wrap64_id; [reflexivity|].
    apply fold_in64; [apply bit_unit_in64|exact Hin].
  - rewrite (scan_big b args _ Hi Hf). rewrite big_loop_first; [reflexivity|exact Hi|].
    intros ->. discriminate.
Qed.

Lemma bit_exact b args : in_domain (OBit b) args = true -> s_out (OBit b) args = Some (m_op (OBit b) args).
Proof.
  cbn [in_domain m_op]. rewrite andb_true_iff. intros [Hi Hc]. rewrite (s_bit b args Hi). f_equal.
  pose proof (m_bit_value b args Hi) as Hm. cbv zeta in Hm.
  change (m_bit b args) with {| o_res := o_res (m_bit b args); o_args := args |}. rewrite Hm. f_equal.
  destruct (all_fix args) eqn:Hf; f_equal.
  - apply canon_int_fix. destruct (all_fix_spec args Hf) as [Ha Hin]. apply fold_in64; [apply bit_unit_in64|exact Hin].
  - cbn [orb] in Hc. unfold canon_int. apply negb_true_iff in Hc. rewrite Hc. reflexivity.
Qed.

(* whatever the representation, the value is exact and the operands are untouched *)
Lemma bit_value_exact b args : all_int args = true ->
  exists so, s_out (OBit b) args = Some so /\
    res_same_value (o_res so) (o_res (m_op (OBit b) args)) = true /\ o_args (m_op (OBit b) args) = args.
Proof.
  intros Hi. eexists. split; [apply (s_bit b args Hi)|]. split; [|reflexivity].
  cbn [m_op o_res]. rewrite (m_bit_value b args Hi). cbv zeta.
  unfold res_same_value, val_same_value, canon_int.
  destruct (in64 _), (all_fix args); cbn [denote]; apply Z.eqb_refl.
Qed.

Lemma lognot_exact args : in_domain OLognot args = true -> s_out OLognot args = Some (m_op OLognot args).
Proof.
  cbn [in_domain m_op]. destruct args as [|[z|z| |] [|? ?]]; try discriminate; intros H; unfold s_out;
    cbn [denotes denote s_op m_lognot snd fst]; change (1 =? 1) with true; cbv iota.
  - f_equal. f_equal. f_equal.
    assert (Hn : in64 (Z.lnot z) = true) by (apply in64_spec in H; apply in64_spec; unfold Z.lnot, two63 in *; lia).
    rewrite (canon_int_fix _ Hn). f_equal.
    replace (18446744073709551615 - u64 z) with (Z.lnot z + (1 + z / (2 * two63)) * (2 * two63)).
    + rewrite wrap64_shift. symmetry. apply wrap64_id, Hn.
    + unfold u64, Z.lnot. pose proof (Z.div_mod z (2 * two63)). unfold two63 in *. lia.
  - unfold canon_int. apply negb_true_iff in H. rewrite H. reflexivity.
Qed.
