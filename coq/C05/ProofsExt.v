(* C05 — proofs, part 8: max and min.  The running extreme is compared with every further operand by the
   same promotion and comparison as in the < / > chains; on canonical operands without a bignum next to a
   ratio every such comparison is the comparison of the exact values, so the result is the operand holding
   the largest / smallest value, which is its own canonical form. *)
From C05 Require Import Model Spec Corr Proofs ProofsRound ProofsCmp ProofsDiv.
Open Scope Z_scope.

Definition pick (mx : bool) (x y : Z * Z) : Z * Z := if (if mx then qlt x y else qlt y x) then y else x.
Definition ext_cmp (mx : bool) : cmp := if mx then CLt else CGt.

(* every two operands can be compared exactly *)
Definition pairwise_exact (l : list val) : Prop := forall x y, In x l -> In y l -> inexact_pair x y = false.
Lemma guard_pairwise l : forallb canonical l = true ->
  existsb (fun v => match v with VRat _ _ => true | _ => false end) l &&
  existsb (fun v => match v with VBig _ => true | _ => false end) l = false -> pairwise_exact l.
Proof.
  intros Hc Hm x y Hx Hy. rewrite forallb_forall in Hc. pose proof (Hc x Hx) as Cx. pose proof (Hc y Hy) as Cy.
  assert (Mix : forall n d z, In (VRat n d) l -> In (VBig z) l -> False).
  { intros n d z H1 H2. apply andb_false_iff in Hm. destruct Hm as [Hm|Hm];
      [assert (E : existsb (fun v => match v with VRat _ _ => true | _ => false end) l = true) by (apply existsb_exists; eexists; split; [exact H1|reflexivity])
      |assert (E : existsb (fun v => match v with VBig _ => true | _ => false end) l = true) by (apply existsb_exists; eexists; split; [exact H2|reflexivity])];
      congruence. }
  unfold inexact_pair. destruct x as [a|a|n d|], y as [b|b|n' d'|]; try discriminate Cx; try discriminate Cy; cbn [norm_kind]; try reflexivity.
  - exfalso. eapply Mix; eassumption.
  - exfalso. eapply Mix; eassumption.
Qed.

Lemma ext_loop_exact mx rest : forall cur tc qs, canonical cur = true -> forallb canonical rest = true ->
  pairwise_exact (cur :: rest) -> denote cur = Some tc -> denotes rest = Some qs ->
  exists v, ext_loop (ext_cmp mx) cur rest = RVal v /\ canonical v = true /\ denote v = Some (fold_left (pick mx) qs tc).
Proof.
  induction rest as [|a rest IH]; intros cur tc qs Cc Cr PE Dc Dr.
  - cbn in Dr. injection Dr as <-. exists cur. auto.
  - cbn [forallb] in Cr. apply andb_true_iff in Cr as [Ca Cr]. cbn [denotes] in Dr.
    destruct (denote_canonical cur Cc) as (nc & dc & Dc' & Pc & Nc & Dnc). rewrite Dc in Dc'. injection Dc' as ->.
    destruct (denote_canonical a Ca) as (na & da & Da & Pa & Na & Dna). rewrite Da in Dr.
    destruct (denotes rest) as [qr|] eqn:Er; [|discriminate]. injection Dr as <-.
    assert (Hk : inexact_pair cur a = false) by (apply PE; [left; reflexivity|right; left; reflexivity]).
    cbn [ext_loop fold_left].
    rewrite (cmp_pair_exact (ext_cmp mx) cur a nc dc na da Hk Dc Da Nc Dnc Na Dna).
    assert (Ecmp : cmp_z (ext_cmp mx) (nc * da) (na * dc) = (if mx then qlt (nc, dc) (na, da) else qlt (na, da) (nc, dc))).
    { destruct mx; reflexivity. }
    rewrite Ecmp. unfold pick at 2.
    destruct (if mx then qlt (nc, dc) (na, da) else qlt (na, da) (nc, dc)).
    + apply IH; try assumption; try reflexivity. intros x y Hx Hy. apply PE; right; assumption.
    + apply IH; try assumption; try reflexivity. intros x y Hx Hy.
      apply PE; [destruct Hx as [<-|Hx]; [left; reflexivity|right; right; exact Hx]
                |destruct Hy as [<-|Hy]; [left; reflexivity|right; right; exact Hy]].
Qed.

Lemma canon_of_canonical v t : canonical v = true -> denote v = Some t -> canon (fst t) (snd t) = v.
Proof.
  intros Cv Dv. destruct (denote_canonical v Cv) as (n & d & Dv' & Pd & _). rewrite Dv in Dv'. injection Dv' as ->.
  symmetry. apply canon_unique; [cbn; lia|exact Cv|]. exists n, d. split; [exact Dv|reflexivity].
Qed.

Lemma ext_exact mx args : in_domain (OExt mx) args = true -> s_out (OExt mx) args = Some (m_op (OExt mx) args).
Proof.
  cbn [in_domain]. rewrite !andb_true_iff. intros [[Hl Hc] Hm]. apply negb_true_iff in Hm.
  destruct args as [|a rest]; [discriminate Hl|].
  pose proof (guard_pairwise _ Hc Hm) as PE.
  cbn [forallb] in Hc. apply andb_true_iff in Hc as [Ca Cr].
  destruct (denote_canonical a Ca) as (na & da & Da & _).
  assert (exists qs, denotes rest = Some qs) as [qs Dr].
  { clear - Cr. induction rest as [|b rest IH]; [exists []; reflexivity|]. cbn in Cr. apply andb_true_iff in Cr as [Cb Cr].
    destruct (denote_canonical b Cb) as (nb & db & Db & _). destruct (IH Cr) as [qs Hq]. exists ((nb, db) :: qs). cbn. rewrite Db, Hq. reflexivity. }
  destruct (ext_loop_exact mx rest a (na, da) qs Ca Cr PE Da Dr) as (v & Ev & Cv & Dv).
  unfold s_out. cbn [denotes]. rewrite Da, Dr. cbn [m_op s_op]. unfold m_ext. f_equal. f_equal.
  change (if mx then CLt else CGt) with (ext_cmp mx). rewrite Ev. f_equal.
  change (fun x y : Z * Z => if if mx then qlt x y else qlt y x then y else x) with (pick mx).
  apply (canon_of_canonical v _ Cv Dv).
Qed.

(* whatever the operands: the result of max / min is one of the operands (the object itself), unless a
   comparison involved a float *)
Lemma ext_is_operand c rest : forall cur v, ext_loop c cur rest = RVal v -> v = VInexact \/ In v (cur :: rest).
Proof.
  induction rest as [|a rest IH]; intros cur v H; cbn [ext_loop] in H.
  - injection H as <-. right. left. reflexivity.
  - destruct (cmp_pair c cur a) as [[|]|].
    + destruct (IH a v H) as [E|E]; [left; exact E|right; right; exact E].
    + destruct (IH cur v H) as [E|[E|E]]; [left; exact E|right; left; exact E|right; right; right; exact E].
    + injection H as <-. left. reflexivity.
Qed.
