(* C05 — proofs, part 2: the rounding family.  round on fixnums inside the guard; floor / ceiling /
   truncate / round on bignum and ratio operands return the exact VALUES (quotient = the rounding of
   the exact rational quotient, remainder = number - quotient * divisor). *)
From C05 Require Import Model Spec Corr Proofs.
From Coq Require Import ZifyBool.
Open Scope Z_scope.
Ltac Zify.zify_post_hook ::= Z.to_euclidean_division_equations.

(* ---------- integer facts: each rounding is characterised by its remainder ---------- *)
Definition is_round (n d Q : Z) : Prop :=
  2 * Z.abs (n - Q * d) < Z.abs d \/ (2 * Z.abs (n - Q * d) = Z.abs d /\ Z.even Q = true).

Lemma even_succ_negb q : Z.even (q + 1) = negb (Z.even q).
Proof. rewrite Z.add_1_r, Z.even_succ, <- Z.negb_even. reflexivity. Qed.

Lemma round_unique n d Q : d <> 0 -> is_round n d Q -> s_quot Round n d = Q.
Proof.
  intros Hd HR. cbn [s_quot]. unfold is_round in HR.
  pose proof (Z.div_mod n d Hd) as E.
  assert (Hr : n - n / d * d = n mod d) by lia.
  rewrite Hr. remember (n / d) as q eqn:Eq. remember (n mod d) as r eqn:Er.
  assert (Hb : 0 <= r < d \/ d < r <= 0) by (subst r; destruct (Z.lt_total d 0) as [H|[H|H]];
    [right; apply Z.mod_neg_bound; lia|lia|left; apply Z.mod_pos_bound; lia]).
  assert (Hn : n - Q * d = r - (Q - q) * d) by lia.
  rewrite Hn in HR. clear Hn Hr Eq Er E.
  assert (Hk : Q = q \/ Q = q + 1) by nia.
  destruct Hk as [-> | ->].
  - replace (r - (q - q) * d) with r in HR by lia.
    destruct (Z.compare_spec (2 * Z.abs r) (Z.abs d)) as [H|H|H]; [|reflexivity|lia].
    destruct HR as [HR|[_ HR]]; [lia|]. rewrite HR. reflexivity.
  - replace (r - (q + 1 - q) * d) with (r - d) in HR by lia.
    destruct (Z.compare_spec (2 * Z.abs r) (Z.abs d)) as [H|H|H]; [|lia|reflexivity].
    destruct HR as [HR|[_ HR]]; [lia|]. rewrite even_succ_negb in HR. apply negb_true_iff in HR. rewrite HR. reflexivity.
Qed.

(* ---------- int64 wrap-around is arithmetic modulo 2^64 ---------- *)
Lemma wrap64_shift x k : wrap64 (x + k * (2 * two63)) = wrap64 x.
Proof. unfold wrap64. replace (x + k * (2 * two63) + two63) with (x + two63 + k * (2 * two63)) by lia. rewrite Z.mod_add; [reflexivity|unfold two63; lia]. Qed.
Lemma wrap64_mod x : exists k, wrap64 x = x + k * (2 * two63).
Proof.
  exists (- ((x + two63) / (2 * two63))). unfold wrap64.
  pose proof (Z.div_mod (x + two63) (2 * two63)). unfold two63 in *. lia.
Qed.
Lemma wrap64_sub_wrap x y : wrap64 (x - wrap64 y) = wrap64 (x - y).
Proof. destruct (wrap64_mod y) as [k ->]. replace (x - (y + k * (2 * two63))) with (x - y + (- k) * (2 * two63)) by lia. apply wrap64_shift. Qed.
Lemma wrap64_in64 x : in64 (wrap64 x) = true.
Proof. apply in64_spec. unfold wrap64. pose proof (Z.mod_pos_bound (x + two63) (2 * two63)). unfold two63 in *. lia. Qed.

Lemma fix_abs_eq n : in64 (Z.abs n) = true -> (if n <? 0 then wrap64 (- n) else n) = Z.abs n.
Proof.
  intros H. destruct (Z.ltb_spec n 0).
  - replace (Z.abs n) with (- n) in * by lia. apply wrap64_id, H.
  - lia.
Qed.

(* ---------- round on fixnums ---------- *)
(* the part of the fixnum branch that works on the absolute values *)
Definition round_fix_abs (a b : Z) : Z * Z :=
  let q := gquot a b in let r := wrap64 (a - wrap64 (q * b)) in
  let rest := wrap64 (b - r) in
  if (rest <? r) || ((rest =? r) && negb (grem q 2 =? 0)) then (wrap64 (q + 1), wrap64 (a - wrap64 (wrap64 (q + 1) * b))) else (q, r).

Lemma round_fix_unfold tn d : round_fix Round tn d =
  if d =? 0 then RCond CDivZero else
  if (tn =? - two63) && (d =? -1) then RVals (VBig (- tn)) (VFix 0) else
  let q0 := gquot tn d in let r0 := wrap64 (tn - wrap64 (q0 * d)) in
  if r0 =? 0 then RVals (VFix q0) (VFix r0)
  else if (tn =? - two63) || (d =? - two63) then round_big Round tn d
  else
    let ns := tn <? 0 in let tn' := if ns then wrap64 (- tn) else tn in
    let ds := d <? 0 in let d' := if ds then wrap64 (- d) else d in
    if d' =? 0 then RCond CFault else
    let '(q, r) := round_fix_abs tn' d' in
    if ns then (if negb ds then RVals (VFix (wrap64 (- q))) (VFix (wrap64 (- r))) else RVals (VFix q) (VFix (wrap64 (- r))))
    else if ds then RVals (VFix (wrap64 (- q))) (VFix r) else RVals (VFix q) (VFix r).
Proof. reflexivity. Qed.

Lemma round_fix_abs_correct a b :
  0 <= a < two63 -> 0 < b < two63 -> a mod b <> 0 ->
  exists Q, round_fix_abs a b = (Q, a - Q * b) /\ is_round a b Q /\ 0 <= Q < two63 /\ 2 * Z.abs (a - Q * b) <= b.
Proof.
  intros Ha Hb Hr. unfold round_fix_abs, gquot, grem.
  rewrite Z.quot_div_nonneg by lia.
  pose proof (Z.div_mod a b ltac:(lia)) as E. pose proof (Z.mod_pos_bound a b ltac:(lia)) as Hm.
  remember (a / b) as q. remember (a mod b) as r.
  assert (Hq : 0 <= q <= a) by nia.
  assert (Iq : in64 q = true) by (apply in64_spec; unfold two63 in *; lia).
  rewrite (wrap64_id _ Iq). rewrite (wrap64_sub_wrap a (q * b)). rewrite (Z.rem_mod_nonneg q 2) by lia.
  replace (a - q * b) with r by lia.
  assert (Ir : in64 r = true) by (apply in64_spec; unfold two63 in *; lia).
  rewrite (wrap64_id _ Ir). rewrite !wrap64_sub_wrap.
  assert (Id : in64 (b - r) = true) by (apply in64_spec; unfold two63 in *; lia).
  rewrite (wrap64_id _ Id).
  assert (Hb2 : 2 <= b) by lia.
  assert (Iq1 : in64 (q + 1) = true) by (apply in64_spec; unfold two63 in *; nia).
  rewrite (wrap64_id _ Iq1).
  assert (Ir1 : in64 (a - (q + 1) * b) = true) by (apply in64_spec; unfold two63 in *; nia).
  rewrite (wrap64_id _ Ir1).
  assert (Hodd : negb (q mod 2 =? 0) = negb (Z.even q)).
  { rewrite Zmod_even. destruct (Z.even q); reflexivity. }
  rewrite Hodd.
  destruct ((b - r <? r) || ((b - r =? r) && negb (Z.even q))) eqn:C.
  - exists (q + 1). split; [reflexivity|]. unfold is_round. rewrite even_succ_negb.
    replace (a - (q + 1) * b) with (r - b) by lia.
    apply orb_true_iff in C as [C|C].
    + split; [left; lia|split; [unfold two63 in *; nia|lia]].
    + apply andb_true_iff in C as [C1 C2]. split; [right; split; [lia|exact C2]|split; [unfold two63 in *; nia|lia]].
  - exists q. replace (a - q * b) with r by lia. split; [reflexivity|]. unfold is_round.
    apply orb_false_iff in C as [C1 C2]. apply andb_false_iff in C2.
    split; [|split; [unfold two63 in *; lia|lia]].
    destruct C2 as [C2|C2]; [left; lia|]. apply negb_false_iff in C2.
    destruct (Z.eq_dec (r * 2) b); [right; split; [lia|exact C2]|left; lia].
Qed.

(* round-half-even commutes with the signs of number and divisor *)
Lemma is_round_scale a b Q sn sd : (sn = 1 \/ sn = -1) -> (sd = 1 \/ sd = -1) -> is_round a b Q ->
  is_round (sn * a) (sd * b) (sn * sd * Q) /\ sn * a - (sn * sd * Q) * (sd * b) = sn * (a - Q * b).
Proof.
  unfold is_round. intros [-> | ->] [-> | ->] H.
  - replace (1 * 1 * Q) with Q by lia. replace (1 * a) with a by lia. replace (1 * b) with b by lia. split; [exact H|lia].
  - replace (1 * -1 * Q) with (- Q) by lia. replace (1 * a) with a by lia. replace (-1 * b) with (- b) by lia.
    rewrite Z.even_opp, Z.abs_opp. replace (a - - Q * - b) with (a - Q * b) by lia. split; [exact H|lia].
  - replace (-1 * 1 * Q) with (- Q) by lia. replace (-1 * a) with (- a) by lia. replace (1 * b) with b by lia.
    rewrite Z.even_opp. replace (- a - - Q * b) with (- (a - Q * b)) by lia. rewrite Z.abs_opp. split; [exact H|lia].
  - replace (-1 * -1 * Q) with Q by lia. replace (-1 * a) with (- a) by lia. replace (-1 * b) with (- b) by lia.
    rewrite Z.abs_opp. replace (- a - Q * - b) with (- (a - Q * b)) by lia. rewrite Z.abs_opp. split; [exact H|lia].
Qed.

Lemma round_exact args : in_domain (ORound Round) args = true ->
  s_out (ORound Round) args = Some (m_op (ORound Round) args).
Proof.
  intros Hp. cbn [in_domain] in Hp. apply andb_true_iff in Hp as [Hf Hp].
  destruct (all_fix_spec args Hf) as [Hargs Hin]. remember (fixes args) as zs. rewrite Hargs in *. clear Hargs Heqzs Hf.
  destruct zs as [|n [|d [|? ?]]]; try discriminate.
  destruct (d =? 0) eqn:Hnz; [apply Z.eqb_eq in Hnz; subst d; reflexivity|].
  cbn [orb] in Hp.
  destruct ((n =? - two63) && (d =? -1)) eqn:Hq;
    [apply andb_true_iff in Hq as [Hq Hm]; apply Z.eqb_eq in Hq, Hm; subst n d; vm_compute; reflexivity|].
  cbn [orb] in Hp.
  cbn in Hin. apply andb_true_iff in Hin as [Hn Hin]. apply andb_true_iff in Hin as [Hd _].
  cbn [map s_out denotes denote m_op m_round s_op norm_kind as_int]. rewrite Hnz.
  rewrite round_fix_unfold, Hnz, Hq. cbv zeta.
  apply in64_spec in Hn, Hd. apply Z.eqb_neq in Hnz.
  apply (quot_in64 n d Hn Hd Hnz) in Hq.
  destruct (quot_facts n d Hnz Hn Hd) as (E & H1 & H2 & R).
  replace (gquot n d) with (Z.quot n d) by (unfold gquot; symmetry; apply wrap64_id, Hq).
  rewrite wrap64_sub_wrap, (wrap64_id _ H2), R.
  f_equal. f_equal.
  destruct (Z.eqb_spec (Z.rem n d) 0) as [Hr0|Hr0].
  - (* exact division *)
    assert (Q : s_quot Round n d = Z.quot n d).
    { apply round_unique; [exact Hnz|]. left. rewrite R, Hr0. cbn. lia. }
    rewrite Q, R, Hr0, (canon_int_fix _ Hq). reflexivity.
  - cbn [orb] in Hp. apply andb_true_iff in Hp as [Han Had].
    assert (Hmin : (n =? - two63) || (d =? - two63) = false).
    { apply in64_spec in Han, Had. apply orb_false_iff. split; apply Z.eqb_neq; unfold two63 in *; lia. }
    rewrite Hmin.
    rewrite (fix_abs_eq _ Han), (fix_abs_eq _ Had).
    destruct (Z.eqb_spec (Z.abs d) 0) as [?|_]; [lia|].
    apply in64_spec in Han, Had.
    assert (Hmod : Z.rem (Z.abs n) (Z.abs d) = Z.abs n mod Z.abs d) by (apply Z.rem_mod_nonneg; lia).
    assert (Hmnz : Z.abs n mod Z.abs d <> 0).
    { rewrite <- Hmod, Z.rem_abs by exact Hnz. intros HH. apply -> Z.abs_0_iff in HH. contradiction. }
    assert (A1 : 0 <= Z.abs n < two63) by (split; [apply Z.abs_nonneg|apply Han]).
    assert (A2 : 0 < Z.abs d < two63) by (split; [apply Z.abs_pos; exact Hnz|apply Had]).
    destruct (round_fix_abs_correct (Z.abs n) (Z.abs d) A1 A2 Hmnz) as (Q & EQ & HR & HQ & HRb).
    rewrite EQ. remember (Z.abs n - Q * Z.abs d) as Rm eqn:ERm.
    clear E H1 H2 R Hr0 Hmod Hmnz Hq EQ Hmin.
    assert (Ineg : forall z, - two63 < z < two63 -> in64 z = true /\ in64 (- z) = true)
      by (intros z Hz; split; apply in64_spec; lia).
    assert (HRm : - two63 < Rm < two63) by (unfold two63 in *; lia).
    destruct (Ineg Q ltac:(lia)) as [IQ IQn]. destruct (Ineg Rm HRm) as [IR IRn].
    assert (Fin : forall sn sd, (sn = 1 \/ sn = -1) -> (sd = 1 \/ sd = -1) -> n = sn * Z.abs n -> d = sd * Z.abs d ->
              s_quot Round n d = sn * sd * Q /\ n - s_quot Round n d * d = sn * Rm).
    { intros sn sd Hsn Hsd En Ed. destruct (is_round_scale _ _ Q sn sd Hsn Hsd HR) as [HR' Er'].
      rewrite <- En, <- Ed in HR', Er'. rewrite (round_unique n d _ Hnz HR'). split; [reflexivity|]. rewrite Er', ERm. reflexivity. }
    destruct (Z.ltb_spec n 0) as [Hns|Hns]; destruct (Z.ltb_spec d 0) as [Hds|Hds]; cbn [negb].
    + destruct (Fin (-1) (-1)) as [F1 F2]; [auto|auto|lia|lia|]. rewrite F2, F1.
      replace (-1 * -1 * Q) with Q by lia. replace (-1 * Rm) with (- Rm) by lia.
      rewrite (wrap64_id _ IRn), (canon_int_fix _ IQ), (canon_int_fix _ IRn). reflexivity.
    + destruct (Fin (-1) 1) as [F1 F2]; [auto|auto|lia|lia|]. rewrite F2, F1.
      replace (-1 * 1 * Q) with (- Q) by lia. replace (-1 * Rm) with (- Rm) by lia.
      rewrite (wrap64_id _ IRn), (wrap64_id _ IQn), (canon_int_fix _ IQn), (canon_int_fix _ IRn). reflexivity.
    + destruct (Fin 1 (-1)) as [F1 F2]; [auto|auto|lia|lia|]. rewrite F2, F1.
      replace (1 * -1 * Q) with (- Q) by lia. replace (1 * Rm) with Rm by lia.
      rewrite (wrap64_id _ IQn), (canon_int_fix _ IQn), (canon_int_fix _ IR). reflexivity.
    + destruct (Fin 1 1) as [F1 F2]; [auto|auto|lia|lia|]. rewrite F2, F1.
      replace (1 * 1 * Q) with Q by lia. replace (1 * Rm) with Rm by lia.
      rewrite (canon_int_fix _ IQ), (canon_int_fix _ IR). reflexivity.
Qed.

(* ---------- floor and ceiling from the truncated quotient (what math/big's QuoRem delivers) ---------- *)
Lemma rem_sign_bound n d : d <> 0 ->
  n = d * Z.quot n d + Z.rem n d /\ Z.abs (Z.rem n d) < Z.abs d.
Proof. intros Hd. split; [apply Z.quot_rem'|apply Z.rem_bound_abs, Hd]. Qed.

Lemma floor_of_quot n d : d <> 0 ->
  n / d = if Z.rem n d =? 0 then Z.quot n d
          else if Bool.eqb (0 <? Z.rem n d) (0 <? d) then Z.quot n d else Z.quot n d - 1.
Proof.
  intros Hd. destruct (rem_sign_bound n d Hd) as [E B].
  remember (Z.quot n d) as q. remember (Z.rem n d) as r. clear Heqq Heqr.
  destruct (Z.eqb_spec r 0) as [Hr|Hr].
  - symmetry. apply (Z.div_unique n d q 0); lia.
  - destruct (Z.ltb_spec 0 r), (Z.ltb_spec 0 d); cbn [Bool.eqb]; symmetry.
    + apply (Z.div_unique n d q r); lia.
    + apply (Z.div_unique n d (q - 1) (r + d)); lia.
    + apply (Z.div_unique n d (q - 1) (r + d)); lia.
    + apply (Z.div_unique n d q r); lia.
Qed.

Lemma ceil_of_quot n d : d <> 0 ->
  - (- n / d) = if Z.rem n d =? 0 then Z.quot n d
                else if Bool.eqb (0 <? Z.rem n d) (0 <? d) then Z.quot n d + 1 else Z.quot n d.
Proof.
  intros Hd. destruct (rem_sign_bound n d Hd) as [E B].
  remember (Z.quot n d) as q. remember (Z.rem n d) as r. clear Heqq Heqr.
  assert (G : forall Q r', (0 <= r' < d \/ d < r' <= 0) -> - n = d * (- Q) + r' -> - (- n / d) = Q).
  { intros Q r' Hb He. rewrite <- (Z.div_unique (- n) d (- Q) r' Hb He). lia. }
  destruct (Z.eqb_spec r 0) as [Hr|Hr].
  - apply (G q 0); lia.
  - destruct (Z.ltb_spec 0 r), (Z.ltb_spec 0 d); cbn [Bool.eqb].
    + apply (G (q + 1) (d - r)); lia.
    + apply (G q (- r)); lia.
    + apply (G q (- r)); lia.
    + apply (G (q + 1) (d - r)); lia.
Qed.

Lemma s_quot_opp_opp m n d : d <> 0 -> s_quot m (- n) (- d) = s_quot m n d.
Proof.
  intros Hd. destruct m; cbn [s_quot].
  - apply Z.div_opp_opp, Hd.
  - rewrite Z.div_opp_opp by exact Hd. reflexivity.
  - apply Z.quot_opp_opp, Hd.
  - rewrite Z.div_opp_opp by exact Hd.
    replace (- n - n / d * - d) with (- (n - n / d * d)) by lia. rewrite !Z.abs_opp. reflexivity.
Qed.

(* round-half-even on non-negative number and positive divisor, as the bignum and ratio branches do it *)
Definition round_abs_q (a b : Z) : Z :=
  let q := Z.quot a b in
  match Z.compare (2 * (a - q * b)) b with
  | Eq => if Z.odd q then q + 1 else q
  | Lt => q
  | Gt => q + 1
  end.
Lemma round_abs_q_correct a b : 0 <= a -> 0 < b -> is_round a b (round_abs_q a b).
Proof.
  intros Ha Hb. unfold round_abs_q, is_round. rewrite Z.quot_div_nonneg by lia.
  pose proof (Z.div_mod a b ltac:(lia)) as E. pose proof (Z.mod_pos_bound a b Hb) as Hm.
  remember (a / b) as q. remember (a mod b) as r. clear Heqq Heqr.
  replace (a - q * b) with r by lia.
  destruct (Z.compare_spec (2 * r) b) as [H|H|H].
  - rewrite <- Z.negb_even. destruct (Z.even q) eqn:Ev; cbn [negb].
    + right. split; [replace (a - q * b) with r by lia; lia|exact Ev].
    + right. rewrite even_succ_negb, Ev. split; [replace (a - (q + 1) * b) with (r - b) by lia; lia|reflexivity].
  - left. replace (a - q * b) with r by lia. lia.
  - left. replace (a - (q + 1) * b) with (r - b) by lia. lia.
Qed.

(* ---------- bignum branch: exact for every pair of integers (divisor not zero) ---------- *)
Lemma round_signs n d Q : d <> 0 -> is_round (Z.abs n) (Z.abs d) Q ->
  let sn := if n <? 0 then -1 else 1 in let sd := if d <? 0 then -1 else 1 in
  s_quot Round n d = sn * sd * Q /\ n - s_quot Round n d * d = sn * (Z.abs n - Q * Z.abs d).
Proof.
  intros Hd HR sn sd.
  assert (Hsn : sn = 1 \/ sn = -1) by (subst sn; destruct (n <? 0); auto).
  assert (Hsd : sd = 1 \/ sd = -1) by (subst sd; destruct (d <? 0); auto).
  assert (En : n = sn * Z.abs n) by (subst sn; destruct (Z.ltb_spec n 0); lia).
  assert (Ed : d = sd * Z.abs d) by (subst sd; destruct (Z.ltb_spec d 0); lia).
  destruct (is_round_scale _ _ Q sn sd Hsn Hsd HR) as [HR' Er'].
  rewrite <- En, <- Ed in HR', Er'. rewrite (round_unique n d _ Hd HR'). split; [reflexivity|exact Er'].
Qed.

Lemma round_big_exact m n d : d <> 0 ->
  round_big m n d = RVals (VBig (s_quot m n d)) (VBig (n - s_quot m n d * d)).
Proof.
  intros Hd. unfold round_big. destruct (Z.eqb_spec d 0) as [?|_]; [contradiction|]. cbv zeta.
  destruct m; [cbn [s_quot]|cbn [s_quot]|cbn [s_quot]|].
  - (* floor *)
    rewrite (floor_of_quot n d Hd). pose proof (Z.quot_rem' n d) as E.
    destruct (Z.eqb_spec (Z.rem n d) 0) as [Hr|Hr].
    + do 2 f_equal. lia.
    + destruct (Z.ltb_spec 0 (Z.rem n d)), (Z.ltb_spec 0 d); cbn [Bool.eqb]; do 2 f_equal; lia.
  - (* ceiling *)
    rewrite (ceil_of_quot n d Hd). pose proof (Z.quot_rem' n d) as E.
    destruct (Z.eqb_spec (Z.rem n d) 0) as [Hr|Hr].
    + do 2 f_equal. lia.
    + destruct (Z.ltb_spec (Z.rem n d) 0), (Z.ltb_spec 0 (Z.rem n d)), (Z.ltb_spec 0 d); cbn [Bool.eqb]; try lia; do 2 f_equal; lia.
  - (* truncate *)
    pose proof (Z.quot_rem' n d) as E. do 2 f_equal. lia.
  - (* round *)
    assert (Ha : 0 <= Z.abs n) by lia. assert (Hb : 0 < Z.abs d) by lia.
    pose proof (round_abs_q_correct _ _ Ha Hb) as HR.
    destruct (round_signs n d _ Hd HR) as [EQ ER]. cbv zeta in EQ, ER.
    rewrite ER, EQ. clear EQ ER HR.
    unfold round_abs_q. rewrite (Z.mul_comm 2).
    destruct (_ ?= _); [destruct (Z.odd _)| |];
      destruct (Z.ltb_spec n 0), (Z.ltb_spec d 0), (Z.ltb_spec 0 d); try lia; do 2 f_equal; lia.
Qed.

(* ---------- ratio branch ---------- *)
(* big.Rat normalisation keeps the value and makes the denominator positive *)
Lemma rnorm_spec N D : D <> 0 -> fst (rnorm N D) * D = N * snd (rnorm N D) /\ 0 < snd (rnorm N D).
Proof.
  intros HD. unfold rnorm. cbn [fst snd].
  pose proof (Z.gcd_nonneg N D) as Hg0.
  assert (Hg : 0 < Z.gcd N D).
  { destruct (Z.eq_dec (Z.gcd N D) 0) as [E|E]; [|lia]. apply Z.gcd_eq_0_r in E. contradiction. }
  destruct (Z.gcd_divide_l N D) as [a Ha]. destruct (Z.gcd_divide_r N D) as [b Hb].
  remember (Z.gcd N D) as g. clear Heqg Hg0.
  assert (EN : N / g = a) by (rewrite Ha; apply Z.div_mul; lia).
  assert (ED : D / g = b) by (rewrite Hb; apply Z.div_mul; lia).
  rewrite EN, ED.
  destruct (Z.ltb_spec D 0); split; nia.
Qed.
Lemma mkrat_rnorm N D : D <> 0 -> mkrat N D = rat_val (rnorm N D).
Proof. intros HD. unfold mkrat, rat_val, rnorm. apply Z.eqb_neq in HD. rewrite HD. reflexivity. Qed.

(* a value x/y equals N/D *)
Definition has_value (v : val) (N D : Z) : Prop := exists x y, denote v = Some (x, y) /\ x * D = N * y.

Lemma rat_val_value N D : D <> 0 -> has_value (rat_val (rnorm N D)) N D.
Proof. intros HD. exists (fst (rnorm N D)), (snd (rnorm N D)). split; [reflexivity|apply rnorm_spec, HD]. Qed.
Lemma canon_value N D : D <> 0 -> has_value (canon N D) N D.
Proof.
  intros HD. unfold canon. rewrite (mkrat_rnorm N D HD). unfold rat_val.
  destruct (rnorm_spec N D HD) as [E P].
  destruct (Z.eqb_spec (snd (rnorm N D)) 1) as [H1|H1].
  - exists (fst (rnorm N D)), 1. split; [unfold canon_int; destruct (in64 _); reflexivity|]. rewrite H1 in E. lia.
  - exists (fst (rnorm N D)), (snd (rnorm N D)). split; [reflexivity|exact E].
Qed.
Lemma same_value N D v w : D <> 0 -> has_value v N D -> has_value w N D -> val_same_value v w = true.
Proof.
  intros HD (x & y & Hv & Ev) (x' & y' & Hw & Ew). unfold val_same_value. rewrite Hv, Hw.
  apply Z.eqb_eq. apply (Z.mul_reg_r _ _ D HD).
  replace (x * y' * D) with (x * D * y') by lia. replace (x' * y * D) with (x' * D * y) by lia.
  rewrite Ev, Ew. lia.
Qed.
Lemma has_value_opp n d N D : has_value (VRat n d) N D -> has_value (VRat (- n) d) (- N) D.
Proof. intros (x & y & Hv & Ev). cbn in Hv. injection Hv as <- <-. exists (- n), d. split; [reflexivity|lia]. Qed.

Lemma rnorm_sgn N D : 0 < D -> Z.sgn (fst (rnorm N D)) = Z.sgn N.
Proof.
  intros HD. destruct (rnorm_spec N D ltac:(lia)) as [E P].
  remember (fst (rnorm N D)) as x. remember (snd (rnorm N D)) as y. clear Heqx Heqy.
  destruct (Z.lt_total N 0) as [H|[H|H]].
  - rewrite (Z.sgn_neg N H). apply Z.sgn_neg. nia.
  - subst N. cbn. assert (x = 0) by nia. subst x. reflexivity.
  - rewrite (Z.sgn_pos N H). apply Z.sgn_pos. nia.
Qed.

(* the comparison of twice the remainder with the divisor, on reduced fractions *)
Lemma round_rat_compare a dn td dd bi : 0 < td -> 0 < dd ->
  (2 * fst (rnorm (a * dd - bi * dn * td) (td * dd)) * dd ?= dn * snd (rnorm (a * dd - bi * dn * td) (td * dd))) =
  (2 * (a * dd - bi * (td * dn)) ?= td * dn).
Proof.
  intros Ht Hd.
  destruct (rnorm_spec (a * dd - bi * dn * td) (td * dd) ltac:(nia)) as [E P].
  remember (fst (rnorm _ _)) as x. remember (snd (rnorm (a * dd - bi * dn * td) (td * dd))) as y.
  remember (a * dd - bi * dn * td) as N.
  assert (K : x * dd * td = N * y) by lia.
  rewrite (Zmult_compare_compat_r (2 * x * dd) (dn * y) td) by lia.
  rewrite (Zmult_compare_compat_r (2 * (a * dd - bi * (td * dn))) (td * dn) y) by lia.
  f_equal; nia.
Qed.

Lemma ltb_scale x k : 0 < k -> (x * k <? 0) = (x <? 0).
Proof. intros Hk. destruct (Z.ltb_spec (x * k) 0), (Z.ltb_spec x 0); try reflexivity; nia. Qed.
Lemma ltb_scale_l x k : 0 < k -> (0 <? k * x) = (0 <? x).
Proof. intros Hk. destruct (Z.ltb_spec 0 (k * x)), (Z.ltb_spec 0 x); try reflexivity; nia. Qed.

(* quotient = the rounding of the exact quotient (tn/td)/(dn/dd) = (tn*dd)/(td*dn); remainder has the
   value number - quotient * divisor *)
Lemma round_rat_value m tn td dn dd : 0 < td -> 0 < dd -> dn <> 0 ->
  exists k r, round_rat m (tn, td) (dn, dd) = RVals (VBig k) r /\
              k = s_quot m (tn * dd) (td * dn) /\ has_value r (tn * dd - k * dn * td) (td * dd).
Proof.
  intros Ht Hd Hn. assert (HD : td * dd <> 0) by nia. assert (Hqd : td * dn <> 0) by nia.
  unfold round_rat. cbn [fst snd]. destruct (Z.eqb_spec dn 0) as [?|_]; [contradiction|].
  assert (Rem : forall k, has_value (rat_val (rsub_mul (tn, td) k (dn, dd))) (tn * dd - k * dn * td) (td * dd)).
  { intros k. unfold rsub_mul. cbn [fst snd]. apply rat_val_value, HD. }
  assert (Hsg : Z.sgn (fst (rsub_mul (tn, td) (Z.quot (tn * dd) (td * dn)) (dn, dd))) = Z.sgn (Z.rem (tn * dd) (td * dn))).
  { unfold rsub_mul. cbn [fst snd]. rewrite rnorm_sgn by nia. f_equal. pose proof (Z.quot_rem' (tn * dd) (td * dn)). lia. }
  assert (Hdp : (0 <? dn) = (0 <? td * dn)) by (symmetry; apply ltb_scale_l, Ht).
  assert (Z0 : Z.rem (tn * dd) (td * dn) = 0 -> has_value (VFix 0) (tn * dd - Z.quot (tn * dd) (td * dn) * dn * td) (td * dd)).
  { intros H0. exists 0, 1. split; [reflexivity|]. pose proof (Z.quot_rem' (tn * dd) (td * dn)). lia. }
  destruct m.
  - (* floor *)
    cbv zeta. rewrite Hsg, Hdp. cbn [s_quot]. rewrite (floor_of_quot _ _ Hqd).
    remember (Z.rem (tn * dd) (td * dn)) as R. remember (Z.quot (tn * dd) (td * dn)) as bi.
    destruct (Z.eqb_spec R 0) as [HR|HR].
    + subst R. rewrite HR. cbn. do 2 eexists. split; [reflexivity|]. split; [reflexivity|]. apply Z0, HR.
    + destruct (Z.lt_total R 0) as [H|[H|H]]; [|contradiction|].
      * rewrite (Z.sgn_neg R H). cbn [Z.eqb]. replace (0 <? R) with false by (symmetry; apply Z.ltb_ge; lia).
        destruct (0 <? td * dn); cbn [Bool.eqb]; do 2 eexists; (split; [reflexivity|]); (split; [reflexivity|]); apply Rem.
      * rewrite (Z.sgn_pos R H). cbn [Z.eqb Pos.eqb]. replace (0 <? R) with true by (symmetry; apply Z.ltb_lt; lia).
        destruct (0 <? td * dn); cbn [Bool.eqb]; do 2 eexists; (split; [reflexivity|]); (split; [reflexivity|]); apply Rem.
  - (* ceiling *)
    cbv zeta. rewrite Hsg, Hdp. cbn [s_quot]. rewrite (ceil_of_quot _ _ Hqd).
    remember (Z.rem (tn * dd) (td * dn)) as R. remember (Z.quot (tn * dd) (td * dn)) as bi.
    destruct (Z.eqb_spec R 0) as [HR|HR].
    + subst R. rewrite HR. cbn. do 2 eexists. split; [reflexivity|]. split; [reflexivity|]. apply Z0, HR.
    + destruct (Z.lt_total R 0) as [H|[H|H]]; [|contradiction|].
      * rewrite (Z.sgn_neg R H). cbn [Z.eqb Pos.eqb]. replace (0 <? R) with false by (symmetry; apply Z.ltb_ge; lia).
        destruct (0 <? td * dn); cbn [Bool.eqb]; do 2 eexists; (split; [reflexivity|]); (split; [reflexivity|]); apply Rem.
      * rewrite (Z.sgn_pos R H). cbn [Z.eqb]. replace (0 <? R) with true by (symmetry; apply Z.ltb_lt; lia).
        destruct (0 <? td * dn); cbn [Bool.eqb]; do 2 eexists; (split; [reflexivity|]); (split; [reflexivity|]); apply Rem.
  - (* truncate *)
    cbv zeta. cbn [s_quot]. do 2 eexists. split; [reflexivity|]. split; [reflexivity|]. apply Rem.
  - (* round *)
    cbv zeta.
    set (a := Z.abs tn * dd). set (b := td * Z.abs dn).
    assert (Ha : 0 <= a) by (subst a; nia). assert (Hb : 0 < b) by (subst b; nia).
    unfold rsub_mul at 1 2. cbn [fst snd]. rewrite round_rat_compare by assumption.
    fold a. fold b.
    pose proof (round_abs_q_correct a b Ha Hb) as HR.
    assert (Eab : Z.abs (tn * dd) = a /\ Z.abs (td * dn) = b).
    { subst a b. rewrite !Z.abs_mul. rewrite (Z.abs_eq dd), (Z.abs_eq td) by lia. split; reflexivity. }
    destruct Eab as [Ea Eb]. rewrite <- Ea, <- Eb in HR.
    destruct (round_signs (tn * dd) (td * dn) _ Hqd HR) as [EQ ER]. cbv zeta in EQ, ER.
    rewrite Ea, Eb in EQ, ER. rewrite (ltb_scale tn dd Hd) in EQ, ER.
    replace (td * dn <? 0) with (dn <? 0) in EQ by (destruct (Z.ltb_spec (td * dn) 0), (Z.ltb_spec dn 0); try reflexivity; nia).
    assert (RemA : forall k, has_value (rat_val (rsub_mul (Z.abs tn, td) k (Z.abs dn, dd))) (a - k * b) (td * dd)).
    { intros k. unfold rsub_mul. cbn [fst snd]. replace (a - k * b) with (Z.abs tn * dd - k * Z.abs dn * td) by (subst a b; lia).
      apply rat_val_value, HD. }
    assert (Fin : forall k, k = round_abs_q a b ->
      exists k' r, RVals (VBig (if tn <? 0 then if dn <? 0 then k else - k else if dn <? 0 then - k else k))
                     (rat_val (if tn <? 0 then (- fst (rsub_mul (Z.abs tn, td) k (Z.abs dn, dd)), snd (rsub_mul (Z.abs tn, td) k (Z.abs dn, dd)))
                               else rsub_mul (Z.abs tn, td) k (Z.abs dn, dd))) = RVals (VBig k') r /\
                   k' = s_quot Round (tn * dd) (td * dn) /\ has_value r (tn * dd - k' * dn * td) (td * dd)).
    { intros k ->. do 2 eexists. split; [reflexivity|]. split.
      - rewrite EQ. destruct (tn <? 0), (dn <? 0); lia.
      - replace (tn * dd - _ * dn * td) with ((if tn <? 0 then -1 else 1) * (a - round_abs_q a b * b)).
        + specialize (RemA (round_abs_q a b)). destruct (tn <? 0).
          * replace (-1 * (a - round_abs_q a b * b)) with (- (a - round_abs_q a b * b)) by lia.
            apply (has_value_opp _ _ _ _ RemA).
          * replace (1 * (a - round_abs_q a b * b)) with (a - round_abs_q a b * b) by lia. exact RemA.
        + rewrite <- ER, EQ. destruct (tn <? 0), (dn <? 0); lia. }
    unfold round_abs_q in Fin at 1. subst a b.
    destruct (2 * (Z.abs tn * dd - Z.quot (Z.abs tn * dd) (td * Z.abs dn) * (td * Z.abs dn)) ?= td * Z.abs dn);
      [destruct (Z.odd _)| |]; apply Fin; reflexivity.
Qed.

(* ---------- the rounding divisions on bignum and ratio operands: exact values ---------- *)
Lemma wf_denote v : wf v = true -> denote v = Some (as_num v, as_den v) /\ 0 < as_den v.
Proof. destruct v; cbn; try discriminate; intros H; split; try reflexivity; lia. Qed.
Lemma kbig_ints n d : norm_kind n d = KBig ->
  as_den n = 1 /\ as_den d = 1 /\ as_num n = as_int n /\ as_num d = as_int d.
Proof. destruct n, d; cbn; try discriminate; try (destruct (fits64 _); discriminate); auto. Qed.
Lemma same_value_int x : val_same_value (canon_int x) (VBig x) = true.
Proof. unfold val_same_value, canon_int. destruct (in64 x); cbn; apply Z.eqb_refl. Qed.
Lemma int_value x N : x = N -> has_value (VBig x) N 1.
Proof. intros ->. exists N, 1. split; [reflexivity|lia]. Qed.
Lemma canon_int_value x N : x = N -> has_value (canon_int x) N 1.
Proof. intros ->. exists N, 1. split; [unfold canon_int; destruct (in64 N); reflexivity|lia]. Qed.

(* S on two operands in its general form *)
Definition s_round_gen (m : rounding) (a b : Z * Z) : res :=
  if fst b =? 0 then RCond CDivZero
  else let tn := fst a * snd b in let td := snd a * fst b in
       let '(tn, td) := if td <? 0 then (- tn, - td) else (tn, td) in
       let q := s_quot m tn td in
       RVals (canon_int q) (canon (fst a * snd b - q * fst b * snd a) (snd a * snd b)).
Lemma s_round_gen_ok m nn nd dn dd : 0 < nd -> 0 < dd -> dn <> 0 ->
  exists r, s_round_gen m (nn, nd) (dn, dd) = RVals (canon_int (s_quot m (nn * dd) (nd * dn))) r /\
            has_value r (nn * dd - s_quot m (nn * dd) (nd * dn) * dn * nd) (nd * dd).
Proof.
  intros Hn Hd Hz. unfold s_round_gen. cbn [fst snd]. destruct (Z.eqb_spec dn 0) as [?|_]; [contradiction|].
  destruct (nd * dn <? 0); cbv beta iota zeta; rewrite ?s_quot_opp_opp by nia;
    eexists; (split; [reflexivity|]); apply canon_value; nia.
Qed.
Lemma s_round2 m nn nd dn dd : 0 < nd -> 0 < dd -> dn <> 0 ->
  exists r, s_op (ORound m) [(nn, nd); (dn, dd)] = RVals (canon_int (s_quot m (nn * dd) (nd * dn))) r /\
            has_value r (nn * dd - s_quot m (nn * dd) (nd * dn) * dn * nd) (nd * dd).
Proof.
  intros Hn Hd Hz.
  destruct (Z.eq_dec nd 1) as [->|N1]; [destruct (Z.eq_dec dd 1) as [->|D1]|].
  - cbn [s_op]. destruct (Z.eqb_spec dn 0) as [?|_]; [contradiction|].
    rewrite Z.mul_1_r, Z.mul_1_l. eexists. split; [reflexivity|]. apply canon_int_value. lia.
  - replace (s_op (ORound m) [(nn, 1); (dn, dd)]) with (s_round_gen m (nn, 1) (dn, dd)).
    + apply s_round_gen_ok; assumption.
    + destruct dd as [|[?|?|]|?]; try lia; try reflexivity.
  - replace (s_op (ORound m) [(nn, nd); (dn, dd)]) with (s_round_gen m (nn, nd) (dn, dd)).
    + apply s_round_gen_ok; assumption.
    + destruct nd as [|[?|?|]|?]; try lia; try reflexivity.
Qed.

Lemma s_round1 m nn nd : s_op (ORound m) [(nn, nd)] =
  RVals (canon_int (s_quot m nn nd)) (canon (nn - s_quot m nn nd * nd) nd).
Proof. cbn [s_op fst snd]. destruct nd as [|[?|?|]|?]; reflexivity. Qed.

Lemma round_operands m args : o_args (m_round m args) = args.
Proof.
  unfold m_round. destruct args as [|n [|d [|? ?]]]; try reflexivity.
  - destruct (norm_kind n (VFix 1)); reflexivity.
  - destruct (norm_kind n d); reflexivity.
Qed.

Theorem round_value_exact m args : round_value_domain args = true ->
  exists so, s_out (ORound m) args = Some so /\
    res_same_value (o_res so) (o_res (m_op (ORound m) args)) = true /\
    o_args (m_op (ORound m) args) = args.
Proof.
  unfold round_value_domain. rewrite andb_true_iff. intros [Hwf Hs].
  assert (Hops : o_args (m_op (ORound m) args) = args) by (apply round_operands).
  destruct args as [|n [|d [|? ?]]]; try discriminate.
  - (* one operand: the divisor is the fixnum 1 *)
    cbn [forallb] in Hwf. apply andb_true_iff in Hwf as [Wn _].
    destruct (wf_denote n Wn) as [Dn Pn]. unfold s_out. cbn [denotes]. rewrite Dn.
    eexists. split; [reflexivity|]. split; [|exact Hops]. cbn [o_res m_op m_round]. rewrite s_round1.
    destruct (norm_kind n (VFix 1)) eqn:Hk; try discriminate; cbn [o_res].
    + destruct (kbig_ints _ _ Hk) as (E1 & _ & E2 & _). rewrite E1, E2.
      cbn [as_int]. rewrite (round_big_exact m (as_int n) 1 ltac:(lia)). unfold res_same_value.
      rewrite same_value_int. cbn [andb].
      apply (same_value (as_int n - s_quot m (as_int n) 1 * 1) 1); [lia|apply canon_value; lia|apply int_value; reflexivity].
    + destruct (round_rat_value m (as_num n) (as_den n) 1 1 Pn ltac:(lia) ltac:(lia)) as (k & r & EM & Ek & Hr).
      cbn [as_num as_den]. rewrite EM. rewrite !Z.mul_1_r in Ek, Hr. rewrite <- Ek. unfold res_same_value.
      rewrite same_value_int. cbn [andb].
      apply (same_value (as_num n - k * as_den n) (as_den n)); [lia|apply canon_value; lia|].
      rewrite ?Z.mul_1_r in Hr. exact Hr.
  - cbn [forallb] in Hwf. apply andb_true_iff in Hwf as [Wn Hwf]. apply andb_true_iff in Hwf as [Wd _].
    destruct (wf_denote n Wn) as [Dn Pn]. destruct (wf_denote d Wd) as [Dd Pd].
    apply andb_true_iff in Hs as [Hz Hk]. apply negb_true_iff in Hz. apply Z.eqb_neq in Hz.
    unfold s_out. cbn [denotes]. rewrite Dn, Dd.
    eexists. split; [reflexivity|]. split; [|exact Hops]. cbn [o_res m_op m_round].
    destruct (s_round2 m (as_num n) (as_den n) (as_num d) (as_den d) Pn Pd Hz) as (rs & ES & Hrs). rewrite ES.
    destruct (norm_kind n d) eqn:Hkd; try discriminate; cbn [o_res].
    + destruct (kbig_ints _ _ Hkd) as (E1 & E2 & E3 & E4). rewrite E1, E2, E3, E4 in *.
      rewrite (round_big_exact m (as_int n) (as_int d) Hz). rewrite !Z.mul_1_r, !Z.mul_1_l in *.
      unfold res_same_value. rewrite same_value_int. cbn [andb].
      eapply same_value; [|exact Hrs|apply int_value; lia]. lia.
    + destruct (round_rat_value m (as_num n) (as_den n) (as_num d) (as_den d) Pn Pd Hz) as (k & r & EM & Ek & Hr).
      rewrite EM. rewrite <- Ek in *. unfold res_same_value. rewrite same_value_int. cbn [andb].
      eapply same_value; [|exact Hrs|exact Hr]. nia.
Qed.

(* ---------- mod and rem with a bignum operand: exact values ---------- *)
Lemma big_mod_correct n d : d <> 0 ->
  (if (d <? 0) && (0 <? n mod Z.abs d) then n mod Z.abs d + d else n mod Z.abs d) = n mod d.
Proof.
  intros Hd. destruct (Z.ltb_spec d 0) as [Hneg|Hpos]; cbn [andb].
  - replace (Z.abs d) with (- d) by lia.
    pose proof (Z.div_mod n (- d) ltac:(lia)) as E. pose proof (Z.mod_pos_bound n (- d) ltac:(lia)) as B.
    remember (n / - d) as q. remember (n mod - d) as z. clear Heqq Heqz.
    destruct (Z.ltb_spec 0 z).
    + apply (Z.mod_unique n d (- q - 1)); lia.
    + apply (Z.mod_unique n d (- q)); lia.
  - replace (Z.abs d) with d by lia. reflexivity.
Qed.

Theorem modrem_value_exact o args : o = OMod \/ o = ORem -> modrem_value_domain args = true ->
  exists so, s_out o args = Some so /\
    res_same_value (o_res so) (o_res (m_op o args)) = true /\ o_args (m_op o args) = args.
Proof.
  intros Ho. unfold modrem_value_domain. rewrite andb_true_iff. intros [Hwf Hs].
  destruct args as [|n [|d [|? ?]]]; try discriminate.
  cbn [forallb] in Hwf. apply andb_true_iff in Hwf as [Wn Hwf]. apply andb_true_iff in Hwf as [Wd _].
  destruct (wf_denote n Wn) as [Dn Pn]. destruct (wf_denote d Wd) as [Dd Pd].
  apply andb_true_iff in Hs as [Hz Hk]. apply negb_true_iff in Hz.
  destruct (norm_kind n d) eqn:Hkd; try discriminate.
  destruct (kbig_ints _ _ Hkd) as (E1 & E2 & E3 & E4). rewrite E1, E3 in Dn. rewrite E2, E4 in Dd. rewrite E4 in Hz.
  unfold s_out. cbn [denotes]. rewrite Dn, Dd. eexists. split; [reflexivity|].
  destruct Ho as [-> | ->]; cbn [m_op m_mod m_rem s_op o_res]; rewrite Hkd, Hz; cbn [o_res o_args]; (split; [|reflexivity]).
  - apply Z.eqb_neq in Hz. cbv zeta. rewrite (big_mod_correct (as_int n) (as_int d) Hz). apply same_value_int.
  - apply same_value_int.
Qed.
