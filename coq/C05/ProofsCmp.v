(* C05 — proofs, part 4: = on chains of any length.  The code compares every operand with the LAST one,
   from right to left; inside the guard (canonical operands, no adjacent pair through floats) this is
   the same as the mathematical chain a1 = a2 /\ a2 = a3 /\ ..., because canonical operands of equal value
   are the same object representation, so the pairs the code actually compares never go through floats. *)
From C05 Require Import Model Spec Corr Proofs.
Open Scope Z_scope.

Lemma val_eqb_eq a b : val_eqb a b = true <-> a = b.
Proof.
  destruct a, b; cbn; try (split; [discriminate|congruence]).
  - rewrite Z.eqb_eq. split; congruence.
  - rewrite Z.eqb_eq. split; congruence.
  - rewrite andb_true_iff, !Z.eqb_eq. split; [intros [-> ->]; reflexivity|intros H; injection H; auto].
  - tauto.
Qed.
Lemma val_eqb_refl a : val_eqb a a = true.
Proof. apply val_eqb_eq. reflexivity. Qed.

(* canonical operands: equal value <-> identical representation *)
Lemma canonical_qeq a b qa qb : canonical a = true -> canonical b = true ->
  denote a = Some qa -> denote b = Some qb -> qeq qa qb = val_eqb a b.
Proof.
  intros Ca Cb Da Db. apply eq_true_iff_eq. rewrite val_eqb_eq. unfold qeq. rewrite Z.eqb_eq.
  assert (RatInt : forall n d x, (1 <? d) && (Z.gcd n d =? 1) = true -> x * d <> n * 1).
  { intros n d x H E. apply andb_true_iff in H as [H1 H2]. apply Z.ltb_lt in H1. apply Z.eqb_eq in H2.
    assert (Hd : (d | n)) by (exists x; lia).
    apply Z.divide_gcd_iff in Hd; [|lia]. rewrite Z.gcd_comm in H2. lia. }
  destruct a as [x|x|n d|], b as [y|y|n' d'|]; cbn in Ca, Cb, Da, Db; try discriminate;
    injection Da as <-; injection Db as <-; cbn [fst snd].
  - split; [intros H; f_equal; lia|intros H; injection H; lia].
  - split; [intros H|discriminate]. assert (x = y) by lia. subst. rewrite Ca in Cb. discriminate.
  - split; [intros H|discriminate]. exfalso. apply (RatInt _ _ x Cb). lia.
  - split; [intros H|discriminate]. assert (x = y) by lia. subst. rewrite Cb in Ca. discriminate.
  - split; [intros H; f_equal; lia|intros H; injection H; lia].
  - split; [intros H|discriminate]. exfalso. apply (RatInt _ _ x Cb). lia.
  - split; [intros H|discriminate]. exfalso. apply (RatInt _ _ y Ca). lia.
  - split; [intros H|discriminate]. exfalso. apply (RatInt _ _ y Ca). lia.
  - split; [|intros H; injection H as -> ->; reflexivity].
    intros H. apply andb_true_iff in Ca as [A1 A2]. apply andb_true_iff in Cb as [B1 B2].
    apply Z.ltb_lt in A1, B1. apply Z.eqb_eq in A2, B2.
    assert (D1 : (d | d')).
    { apply (Z.gauss d n d'); [exists n'; lia|rewrite Z.gcd_comm; exact A2]. }
    assert (D2 : (d' | d)).
    { apply (Z.gauss d' n' d); [exists n; lia|rewrite Z.gcd_comm; exact B2]. }
    assert (d = d') by (apply Z.divide_antisym_nonneg; try assumption; lia). subst d'.
    assert (n = n') by nia. subst. reflexivity.
Qed.

(* ---------- the chain of the specification on canonical operands ---------- *)
Fixpoint chain_v (a : val) (rest : list val) : bool :=
  match rest with [] => true | b :: r => val_eqb a b && chain_v b r end.

Lemma s_chain_canonical rest : forall a qa qs, canonical a = true -> forallb canonical rest = true ->
  denote a = Some qa -> denotes rest = Some qs -> s_chain qeq qa qs = chain_v a rest.
Proof.
  induction rest as [|b rest IH]; intros a qa qs Ca Cr Da Dr.
  - cbn in Dr. injection Dr as <-. reflexivity.
  - cbn [forallb] in Cr. apply andb_true_iff in Cr as [Cb Cr]. cbn [denotes] in Dr.
    destruct (denote b) as [qb|] eqn:Db; [|discriminate]. destruct (denotes rest) as [qr|] eqn:Er; [|discriminate].
    injection Dr as <-. cbn [s_chain chain_v]. rewrite (canonical_qeq a b qa qb Ca Cb Da Db).
    rewrite (IH b qb qr Cb Cr Db eq_refl). reflexivity.
Qed.

Lemma chain_v_last init : forall a rest t, a :: rest = init ++ [t] ->
  chain_v a rest = forallb (fun x => val_eqb x t) init.
Proof.
  induction init as [|a' init IH]; intros a rest t E.
  - cbn in E. injection E as Ea Er. subst. reflexivity.
  - cbn in E. injection E as Ea Er. subst a rest. destruct init as [|b init'].
    + cbn. reflexivity.
    + cbn [app chain_v]. rewrite (IH b (init' ++ [t]) t eq_refl). cbn [forallb].
      destruct (val_eqb b t) eqn:Ebt.
      * apply val_eqb_eq in Ebt. subst b. reflexivity.
      * rewrite !andb_false_r. reflexivity.
Qed.

(* ---------- the chain of the code, from the last operand backwards ---------- *)
Fixpoint adj_ok (y : val) (l : list val) : bool :=       (* l in reversed order: the head precedes y *)
  match l with [] => true | x :: more => negb (inexact_pair x y) && adj_ok x more end.
Fixpoint pairs_ok (l : list val) : bool :=
  match l with a :: (b :: _) as r => negb (inexact_pair a b) && pairs_ok r | _ => true end.

Lemma inexact_pair_sym a b : inexact_pair a b = inexact_pair b a.
Proof. destruct a, b; cbn; try reflexivity; destruct (fits64 _); reflexivity. Qed.

Lemma eq_pair_exact t x : inexact_pair t x = false -> eq_pair t x = cmp_pair CEq t x.
Proof.
  unfold eq_pair, inexact_pair, cmp_pair. destruct t, x; cbn [rat_like andb]; try reflexivity; cbn [norm_kind];
    try (destruct (fits64 _); [reflexivity | discriminate]).
  intros _. cbn [as_num as_den as_int]. rewrite !Z.mul_1_r. reflexivity.
Qed.

Lemma eq_chain_exact t : canonical t = true -> forall l, forallb canonical l = true -> adj_ok t l = true ->
  eq_chain t l = RBool (forallb (fun x => val_eqb x t) l).
Proof.
  intros Ct. induction l as [|x more IH]; intros Cl Hadj; [reflexivity|].
  cbn [forallb] in Cl. apply andb_true_iff in Cl as [Cx Cm]. cbn [adj_ok] in Hadj. apply andb_true_iff in Hadj as [Hxt Hm].
  apply negb_true_iff in Hxt.
  assert (Htx : inexact_pair t x = false) by (rewrite inexact_pair_sym; exact Hxt).
  destruct (denote_canonical t Ct) as (nt & dt & Dt & Pt & Nt & Dnt).
  destruct (denote_canonical x Cx) as (nx & dx & Dx & Px & Nx & Dnx).
  cbn [eq_chain forallb]. rewrite (eq_pair_exact t x Htx), (cmp_pair_exact CEq t x nt dt nx dx Htx Dt Dx Nt Dnt Nx Dnx).
  change (cmp_z CEq (nt * dx) (nx * dt)) with (qeq (nt, dt) (nx, dx)).
  rewrite (canonical_qeq t x _ _ Ct Cx Dt Dx).
  destruct (val_eqb t x) eqn:E.
  - apply val_eqb_eq in E. subst x. rewrite val_eqb_refl. cbn [andb]. apply IH; assumption.
  - replace (val_eqb x t) with false; [reflexivity|].
    symmetry. apply not_true_iff_false. intros H. apply val_eqb_eq in H. subst x. rewrite val_eqb_refl in E. discriminate.
Qed.

(* the guard speaks about adjacent pairs in argument order *)
Lemma pairs_ok_snoc M : forall x t, pairs_ok (M ++ [x; t]) = pairs_ok (M ++ [x]) && negb (inexact_pair x t).
Proof.
  induction M as [|m M IH]; intros x t.
  - cbn. rewrite andb_true_r. reflexivity.
  - destruct M as [|m' M'].
    + cbn. rewrite !andb_true_r. reflexivity.
    + change ((m :: m' :: M') ++ [x; t]) with (m :: (m' :: M') ++ [x; t]).
      change ((m :: m' :: M') ++ [x]) with (m :: (m' :: M') ++ [x]).
      change (pairs_ok (m :: (m' :: M') ++ [x; t])) with (negb (inexact_pair m m') && pairs_ok ((m' :: M') ++ [x; t])).
      change (pairs_ok (m :: (m' :: M') ++ [x])) with (negb (inexact_pair m m') && pairs_ok ((m' :: M') ++ [x])).
      rewrite IH. rewrite andb_assoc. reflexivity.
Qed.
Lemma adj_ok_rev L : forall t, pairs_ok (L ++ [t]) = true -> adj_ok t (rev L) = true.
Proof.
  induction L as [|x L IH] using rev_ind; intros t H; [reflexivity|].
  rewrite rev_app_distr. cbn [rev app adj_ok]. rewrite <- app_assoc in H. cbn [app] in H.
  rewrite pairs_ok_snoc in H. apply andb_true_iff in H as [H1 H2]. rewrite H2. cbn [andb]. apply IH, H1.
Qed.
Lemma go_pairs_ok a rest :
  (fix go a rest := match rest with [] => true | b :: rest' => negb (inexact_pair a b) && go b rest' end) a rest
  = pairs_ok (a :: rest).
Proof. revert a. induction rest as [|b rest IH]; intros a; [reflexivity|].
  change (pairs_ok (a :: b :: rest)) with (negb (inexact_pair a b) && pairs_ok (b :: rest)). rewrite <- IH. reflexivity.
Qed.

Lemma forallb_rev {A} (f : A -> bool) l : forallb f (rev l) = forallb f l.
Proof.
  apply eq_true_iff_eq. rewrite !forallb_forall. split; intros H x Hx; apply H.
  - apply -> in_rev. exact Hx.
  - apply <- in_rev. exact Hx.
Qed.

Lemma eq_exact args : in_domain (OCmp CEq) args = true -> s_out (OCmp CEq) args = Some (m_op (OCmp CEq) args).
Proof.
  cbn [in_domain]. rewrite andb_true_iff. intros [Hl Hp]. unfold exact_pairs in Hp. apply andb_true_iff in Hp as [Hp Hcan].
  destruct args as [|a rest]; [discriminate|]. cbn [hd tl] in Hp. rewrite go_pairs_ok in Hp.
  (* split the operands into everything but the last, and the last *)
  destruct (exists_last (l := a :: rest) ltac:(discriminate)) as (init & t & E).
  assert (Hrev : rev (a :: rest) = t :: rev init) by (rewrite E, rev_app_distr; reflexivity).
  assert (Cinit : forallb canonical init = true /\ canonical t = true).
  { rewrite E in Hcan. rewrite forallb_app in Hcan. apply andb_true_iff in Hcan as [H1 H2]. cbn in H2.
    rewrite andb_true_r in H2. auto. }
  destruct Cinit as [Ci Ct].
  assert (Hadj : adj_ok t (rev init) = true) by (apply adj_ok_rev; rewrite <- E; exact Hp).
  cbn [forallb] in Hcan. apply andb_true_iff in Hcan as [Ca Cr].
  destruct (denote_canonical a Ca) as (na & da & Da & _).
  assert (exists qs, denotes rest = Some qs) as [qs Hqs].
  { clear - Cr. induction rest as [|b rest IH]; [exists []; reflexivity|]. cbn in Cr. apply andb_true_iff in Cr as [Cb Cr].
    destruct (denote_canonical b Cb) as (nb & db & Db & _). destruct (IH Cr) as [qs Hq]. exists ((nb, db) :: qs). cbn. rewrite Db, Hq. reflexivity. }
  unfold s_out. cbn [denotes]. rewrite Da, Hqs. cbn [m_op s_op]. unfold m_cmp. f_equal. f_equal.
  rewrite Hrev. rewrite (eq_chain_exact t Ct (rev init)); [|rewrite forallb_rev; exact Ci|exact Hadj].
  rewrite forallb_rev. f_equal.
  rewrite (s_chain_canonical rest a (na, da) qs Ca Cr Da Hqs).
  apply chain_v_last, E.
Qed.
