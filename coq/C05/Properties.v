(* C05 — property theorems only. *)
From C05 Require Import Model Spec Corr Proofs ProofsRound ProofsBits ProofsCmp ProofsDiv ProofsGcd ProofsArith ProofsExt ProofsAll.
Open Scope Z_scope.

(* (1) Inside the guard the code model returns the mathematically exact result in canonical form and
   leaves its operands unchanged, for EVERY modelled operation:
   + - * on fixnums and bignum objects in any order and number: the result is a fixnum as long as every
   prefix result fits in 64 bits, and from the first one that does not (or the first bignum operand) the
   code computes with math/big (no wrap-around since repo_fixes/C05-9..11); unary - ; abs, 1+, 1- on fixnums
   (most-negative-fixnum, the extremes included) and on bignums;
   / on fixnums: the reciprocal (except of -1) and every chain of divisions, a zero divisor signalling
   division-by-zero; the quotient is the exact rational in lowest terms, a fixnum when it is an integer;
   floor (positive divisor, or exact), ceiling, truncate, round (half to even; quotient and the remainder
   number - quotient * divisor), rem on fixnums incl. a zero divisor (division-by-zero) and
   most-negative-fixnum / -1 (the bignum 2^63 and 0); mod on fixnums with a non-zero divisor;
   gcd and lcm of any number of integers of any magnitude in any representation (fixnum loop, math/big
   path): the fold of Z.gcd from 0 / Z.lcm from 1 over the operands, as a fixnum when it fits;
   < <= > >= and = on chains of any length over fixnums, bignums and ratios in canonical form that do not
   pair a bignum beyond 64 bits with a ratio in adjacent positions;
   logand logior logxor (any number of integer operands, 0 included) and lognot;
   max and min of one or more fixnums, bignums and ratios in canonical form without a bignum next to a ratio:
   the operand holding the largest / smallest exact value, whatever the distance between the operands.
   FULL STATEMENT (false of the faithful model, see (4)):  forall o args, denotes args <> None ->
     s_out o args = Some (m_op o args).
   WHAT THE GUARD STILL EXCLUDES, precisely: (a) results that slip does not demote: a + - * accumulator that
   became a bignum object and whose final value fits in 64 bits again, 1+ 1- abs - of a bignum object
   with such a result, the bignum branch of the bitwise operations and of round with most-negative-fixnum
   as an operand, (/ -1) (the ratio -1/1) and a chain of three or more / operands starting with
   most-negative-fixnum; ratio operands of + - * 1+ 1- abs and bignum / ratio operands of / are covered
   by (2) and (7) at the level of values; (b) floor of fixnums by a negative divisor that does not divide
   (wrong adjustment, asserted by slip's tests); (c) mod by zero (arithmetic-error instead of
   division-by-zero, asserted by slip's tests); (d) a bignum beyond 64 bits paired with a ratio (float path).
   Each is a known finding with a witness in (4) or a case of the value-level theorems. *)
Theorem C05_exact_on_domain : forall o args,
  in_domain o args = true -> s_out o args = Some (m_op o args).
Proof. exact exact_on_domain. Qed.
Print Assumptions C05_exact_on_domain.

(* (2) On the value domain - floor ceiling truncate round with one or two operands of which at least one
   is a bignum object or a ratio (any representation the implementation can hold; divisor not zero; no
   bignum beyond 64 bits paired with a ratio), mod and rem with a bignum operand, logand logior logxor on
   any integers - the code model returns the exact VALUES: the quotient is the floor / ceiling /
   truncation / round-half-even of the exact rational quotient, the remainder has the value
   number - quotient * divisor, mod / rem / the bitwise results have the mathematical value. The
   representation is not canonical there (results are always bignum / ratio objects: known findings),
   and the operands are untouched. *)
Theorem C05_value_exact_on_value_domain : forall o args,
  value_domain o args = true ->
  exists so, s_out o args = Some so /\
    res_same_value (o_res so) (o_res (m_op o args)) = true /\
    o_args (m_op o args) = args.
Proof. exact value_exact. Qed.
Print Assumptions C05_value_exact_on_value_domain.

(* (2b) "never alter their operands", for EVERY modelled operation and EVERY operand list (no guard): the
   operands after the call are the operands before it. (True of the model since the repairs
   repo_fixes/C05-1..5: -, /, 1+, 1-, round allocate their math/big results instead of writing them into an
   operand; the correspondence run compares the operand variables re-read after every call.) *)
Theorem C05_operands_never_altered : forall o args, o_args (m_op o args) = args.
Proof. exact operands_untouched. Qed.
Print Assumptions C05_operands_never_altered.

(* (3) exactly one of <, =, > holds, and it is the one of the exact values *)
Theorem C05_trichotomy : forall a b, canonical a = true -> canonical b = true -> inexact_pair a b = false ->
  exists lt eq gt, cmp_pair CLt a b = Some lt /\ cmp_pair CEq a b = Some eq /\ cmp_pair CGt a b = Some gt /\
  ((lt = true /\ eq = false /\ gt = false) \/ (lt = false /\ eq = true /\ gt = false) \/ (lt = false /\ eq = false /\ gt = true)).
Proof. exact trichotomy. Qed.
Print Assumptions C05_trichotomy.

(* (4) outside the guard the faithful model violates the specification: 13 kernel-checked witnesses,
   one per remaining guard clause; each is a known finding replayed on the implementation *)
Theorem C05_outside_guard_refuted :
  forallb (fun w => refuted (fst w) (snd w)) refutation_witnesses = true /\
  forallb (fun w => negb (in_domain (fst w) (snd w))) refutation_witnesses = true.
Proof. exact outside_guard_refuted. Qed.
Print Assumptions C05_outside_guard_refuted.

(* (5) the guard is inhabited by non-trivial operand tuples *)
Theorem C05_guard_nonvacuous :
  in_domain OAdd [VFix 9223372036854775806; VFix 1; VFix (-5)] = true /\
  in_domain (ORound Floor) [VFix (-7); VFix 2] = true /\ in_domain (ORound Ceiling) [VFix 7; VFix (-2)] = true /\
  in_domain OMod [VFix (-7); VFix (-2)] = true /\
  in_domain (OCmp CLt) [VFix 1; VBig B; VRat 1 3] = false /\ in_domain (OCmp CLt) [VRat (-1) 3; VFix 1; VBig B] = true.
Proof. exact guard_examples. Qed.
Print Assumptions C05_guard_nonvacuous.

(* (6) ... also by ties of round, = chains, bitwise operations with bignums; and the value domain by
   ratio and bignum operands of the rounding divisions and of rem *)
Theorem C05_domains_nonvacuous :
  in_domain (ORound Round) [VFix 7; VFix (-2)] = true /\ in_domain (ORound Round) [VFix (-9223372036854775807); VFix 2] = true /\
  in_domain (OCmp CEq) [VRat 1 2; VRat 1 2; VRat 1 2] = true /\ in_domain (OCmp CEq) [VFix 1; VBig B; VRat 1 3] = false /\
  in_domain (OBit BOr) [VFix 5; VBig 18446744073709551616] = true /\
  in_domain (OBit BOr) [VFix (-2); VBig 18446744073709551616] = false /\
  value_domain (OBit BOr) [VFix (-2); VBig 18446744073709551616] = true /\
  value_domain (ORound Round) [VRat (-7) 2; VRat 1 3] = true /\ value_domain (ORound Floor) [VBig (- B); VFix (-3)] = true /\
  value_domain (ORound Ceiling) [VRat 7 2] = true /\ value_domain (ORound Floor) [VRat 1 2; VBig B] = false /\
  value_domain ORem [VBig (-50000000000000000000); VBig 20000000000000000000] = true.
Proof. exact guard_examples_2. Qed.
Print Assumptions C05_domains_nonvacuous.

(* (7) / on ANY operands the implementation can hold (fixnums, bignum objects of any value, ratios with
   any positive denominator; two or more of them): unless some step pairs a bignum beyond 64 bits with a
   ratio (the float path, where the model declines to predict: RVal VInexact), the result has the exact
   rational value - num1 * den2 = num2 * den1 against the specification's canonical quotient - and is in
   lowest terms with a positive denominator (what big.Rat keeps), or is division-by-zero exactly when a
   divisor is zero.  (Not demoted: an integer-valued ratio stays n/1, a small bignum a bignum: findings.) *)
Theorem C05_div_value_exact : forall args,
  forallb wf args = true -> 2 <= Z.of_nat (length args) ->
  exact_res (o_res (m_op ODiv args)) = true ->
  exists so, s_out ODiv args = Some so /\
    res_same_value (o_res so) (o_res (m_op ODiv args)) = true /\
    lowest_res (o_res (m_op ODiv args)) = true /\
    (o_res so = RCond CDivZero <-> o_res (m_op ODiv args) = RCond CDivZero).
Proof. exact div_value_exact. Qed.
Print Assumptions C05_div_value_exact.

(* (8) gcd and lcm of integers in any representation equal Z.gcd / Z.lcm folded over the ABSOLUTE VALUES
   of the operands, are nonnegative, lcm is 0 as soon as an operand is 0, operands untouched *)
Theorem C05_gcd_lcm_values : forall args, all_int args = true ->
  let g := fold_left Z.gcd (map Z.abs (fixes args)) 0 in
  let m := fold_left Z.lcm (map Z.abs (fixes args)) 1 in
  o_res (m_op OGcd args) = RVal (canon_int g) /\ 0 <= g /\
  o_res (m_op OLcm args) = RVal (canon_int m) /\ 0 <= m /\
  (In 0 (fixes args) -> o_res (m_op OLcm args) = RVal (VFix 0)) /\
  o_args (m_op OGcd args) = args /\ o_args (m_op OLcm args) = args.
Proof. exact gcd_lcm_values. Qed.
Print Assumptions C05_gcd_lcm_values.

(* (9) the widened guard is inhabited by the repaired cases *)
Theorem C05_repaired_cases_in_guard :
  in_domain OAdd [VFix 4611686018427387904; VFix 4611686018427387904] = true /\
  in_domain OMul [VFix 4294967296; VFix 4294967296] = true /\
  in_domain OSub [VBig B; VFix 1] = true /\ in_domain OSub [VFix (-9223372036854775808)] = true /\
  in_domain OInc [VFix 9223372036854775807] = true /\ in_domain OAbs [VFix (-9223372036854775808)] = true /\
  in_domain (ORound Truncate) [VFix (-9223372036854775808); VFix (-1)] = true /\
  in_domain ORem [VFix 5; VFix 0] = true /\ in_domain (ORound Round) [VFix 5; VFix 0] = true /\
  in_domain ODiv [VFix 6; VFix 4; VFix (-3)] = true /\ in_domain ODiv [VFix (-9223372036854775808); VFix (-1)] = true /\
  in_domain OGcd [VBig B; VFix 10; VFix (-9223372036854775808)] = true /\
  in_domain OLcm [VFix 4611686018427387904; VFix 3; VBig (- B)] = true.
Proof. exact repaired_examples. Qed.
Print Assumptions C05_repaired_cases_in_guard.

(* (10) + - * abs 1+ 1- on ANY operands math/big can hold (fixnums, bignum objects of any value, ratios in
   lowest terms incl. denominator 1; any number of operands for the first three): unless some step pairs a bignum
   beyond 64 bits with a ratio (float path), the result has the exact rational value and is in lowest terms
   with a positive denominator.  Together with (1), (2), (7), (8): every modelled arithmetic operation
   returns exact values on all operands of the exact types whenever it stays inside them. *)
Theorem C05_arith_value_exact : forall o args,
  arith_value_domain o args (o_res (m_op o args)) = true ->
  exists so, s_out o args = Some so /\
    res_same_value (o_res so) (o_res (m_op o args)) = true /\
    lowest_res (o_res (m_op o args)) = true.
Proof. exact arith_value_exact. Qed.
Print Assumptions C05_arith_value_exact.

(* (11) max and min: inside the guard (1) they return the largest / smallest exact value; for ANY operands the
   result is one of the operand objects itself (never a promoted copy), unless a float took part; and the
   guard contains the pairs of fixnums more than 2^63 apart *)
Theorem C05_max_min_is_an_operand : forall mx args v,
  o_res (m_op (OExt mx) args) = RVal v -> v = VInexact \/ In v args.
Proof. exact ext_operand. Qed.
Print Assumptions C05_max_min_is_an_operand.
Theorem C05_max_min_guard_nonvacuous :
  in_domain (OExt true) [VFix (-9223372036854775808); VFix 1] = true /\
  in_domain (OExt false) [VFix 5000000000000000000; VFix 6000000000000000000; VFix (-5000000000000000000)] = true /\
  in_domain (OExt true) [VRat (-1) 2; VFix 0; VRat 1 3] = true /\ in_domain (OExt false) [VBig B; VFix 1; VBig (- B)] = true /\
  in_domain (OExt true) [VBig B; VRat 1 2] = false /\
  o_res (m_op (OExt true) [VFix (-9223372036854775808); VFix 1]) = RVal (VFix 1) /\
  o_res (m_op (OExt false) [VFix (-4611686018427387904); VFix 4611686018427387904]) = RVal (VFix (-4611686018427387904)).
Proof. exact ext_examples. Qed.
Print Assumptions C05_max_min_guard_nonvacuous.

(* (12) isqrt (pkg/cl/isqrt.go after repo_fixes/C05-21, 23, 24; part of (1) inside the guard: every fixnum, negative
   bignum objects, bignum objects whose root does not fit in 64 bits).  On EVERY non-negative bignum object, whatever the size of the
   value it holds, the model returns the exact root (as a bignum object: value domain) and leaves the operand as
   it was; and what S calls the root of n >= 0 is the largest integer r with r*r <= n.  Not covered: ratios and floats (slip
   truncates the float root). *)
Theorem C05_isqrt_value_exact : forall args,
  value_domain OIsqrt args = true ->
  exists so, s_out OIsqrt args = Some so /\
    res_same_value (o_res so) (o_res (m_op OIsqrt args)) = true /\ o_args (m_op OIsqrt args) = args.
Proof. exact isqrt_value_exact. Qed.
Print Assumptions C05_isqrt_value_exact.
Theorem C05_isqrt_spec_is_the_integer_root : forall n,
  0 <= n -> exists r, s_op OIsqrt [(n, 1)] = RVal (canon_int r) /\ 0 <= r /\ r * r <= n < (r + 1) * (r + 1).
Proof. exact isqrt_spec_root. Qed.
Print Assumptions C05_isqrt_spec_is_the_integer_root.
Theorem C05_isqrt_guard_nonvacuous :
  in_domain OIsqrt [VFix 21] = true /\ in_domain OIsqrt [VFix (-9)] = true /\
  in_domain OIsqrt [VFix 4611686018427387903] = true /\ in_domain OIsqrt [VBig (-100000000000000000000)] = true /\
  m_op OIsqrt [VFix 4611686018427387903] = {| o_res := RVal (VFix 2147483647); o_args := [VFix 4611686018427387903] |} /\
  in_domain OIsqrt [VBig 100000000000000000000] = false /\ value_domain OIsqrt [VBig 100000000000000000000] = true /\
  in_domain OIsqrt [VBig 1361129467683753853853498429727072845824] = true /\
  m_op OIsqrt [VBig 100000000000000000000] = {| o_res := RVal (VBig 10000000000); o_args := [VBig 100000000000000000000] |} /\
  m_op OIsqrt [VBig 5] = {| o_res := RVal (VBig 2); o_args := [VBig 5] |}.
Proof. exact isqrt_examples. Qed.
Print Assumptions C05_isqrt_guard_nonvacuous.
