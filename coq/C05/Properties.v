(* C05 — property theorems only. *)
From C05 Require Import Model Spec Corr Proofs ProofsRound ProofsBits ProofsCmp ProofsAll.
Open Scope Z_scope.

(* (1) Inside the guard the code model returns the mathematically exact result in canonical form and
   leaves its operands unchanged, for EVERY operation the guard admits:
   + - * abs 1+ 1- on fixnums whose exact intermediate results stay in 64 bits;
   floor (positive divisor, or exact), ceiling, truncate, round (half to even; quotient and the remainder
   number - quotient * divisor), mod, rem on fixnums;
   < <= > >= and = on chains of any length over fixnums, bignums and ratios in canonical form that do not
   pair a bignum beyond 64 bits with a ratio in adjacent positions (the result is the mathematical chain
   a1 R a2 /\ a2 R a3 /\ ... on the exact values);
   logand logior logxor (any number of integer operands, 0 included) and lognot, where the exact result
   is a fixnum computed by the fixnum loop or a bignum that does not fit in 64 bits.
   FULL STATEMENT (false of the faithful model, see (4)):  forall o args, denotes args <> None ->
     s_out o args = Some (m_op o args).
   NOT COVERED: / gcd lcm (in_domain is false for them: no theorem, correspondence and S as a judge on
   every run only); operands outside the guard, where either (4) refutes the statement or (2) proves the
   weaker value-level statement. *)
Theorem C05_exact_on_domain_partial : forall o args,
  in_domain o args = true -> s_out o args = Some (m_op o args).
Proof. exact exact_on_domain. Qed.
Print Assumptions C05_exact_on_domain_partial.

(* (2) On the value domain - floor ceiling truncate round with one or two operands of which at least one
   is a bignum object or a ratio (any representation the implementation can hold; divisor not zero; no
   bignum beyond 64 bits paired with a ratio), mod and rem with a bignum operand, logand logior logxor on
   any integers - the code model returns the exact VALUES: the quotient is the floor / ceiling /
   truncation / round-half-even of the exact rational quotient, the remainder has the value
   number - quotient * divisor, mod / rem / the bitwise results have the mathematical value. The
   representation is not canonical there (results are always bignum / ratio objects: known findings),
   and the operands are untouched. *)
Theorem C05_value_exact_on_value_domain : forall o args,
  value_domain o args = true ->
  exists so, s_out o args = Some so /\
    res_same_value (o_res so) (o_res (m_op o args)) = true /\
    o_args (m_op o args) = args.
Proof. exact value_exact. Qed.
Print Assumptions C05_value_exact_on_value_domain.

(* (2b) "never alter their operands", for EVERY modelled operation and EVERY operand list (no guard): the
   operands after the call are the operands before it. (True of the model since the repairs
   repo_fixes/C05-1..5: -, /, 1+, 1-, round allocate their math/big results instead of writing them into an
   operand; the correspondence run compares the operand variables re-read after every call.) *)
Theorem C05_operands_never_altered : forall o args, o_args (m_op o args) = args.
Proof. exact operands_untouched. Qed.
Print Assumptions C05_operands_never_altered.

(* (3) exactly one of <, =, > holds, and it is the one of the exact values *)
Theorem C05_trichotomy : forall a b, canonical a = true -> canonical b = true -> inexact_pair a b = false ->
  exists lt eq gt, cmp_pair CLt a b = Some lt /\ cmp_pair CEq a b = Some eq /\ cmp_pair CGt a b = Some gt /\
  ((lt = true /\ eq = false /\ gt = false) \/ (lt = false /\ eq = true /\ gt = false) \/ (lt = false /\ eq = false /\ gt = true)).
Proof. exact trichotomy. Qed.
Print Assumptions C05_trichotomy.

(* (4) outside the guard the faithful model violates the specification: 20 kernel-checked witnesses,
   one per guard clause / unmodelled clause; each is a known finding replayed on the implementation *)
Theorem C05_outside_guard_refuted :
  forallb (fun w => refuted (fst w) (snd w)) refutation_witnesses = true /\
  forallb (fun w => negb (in_domain (fst w) (snd w))) refutation_witnesses = true.
Proof. exact outside_guard_refuted. Qed.
Print Assumptions C05_outside_guard_refuted.

(* (5) the guard is inhabited by non-trivial operand tuples *)
Theorem C05_guard_nonvacuous :
  in_domain OAdd [VFix 9223372036854775806; VFix 1; VFix (-5)] = true /\
  in_domain (ORound Floor) [VFix (-7); VFix 2] = true /\ in_domain (ORound Ceiling) [VFix 7; VFix (-2)] = true /\
  in_domain OMod [VFix (-7); VFix (-2)] = true /\
  in_domain (OCmp CLt) [VFix 1; VBig B; VRat 1 3] = false /\ in_domain (OCmp CLt) [VRat (-1) 3; VFix 1; VBig B] = true.
Proof. exact guard_examples. Qed.
Print Assumptions C05_guard_nonvacuous.

(* (6) ... also by ties of round, = chains, bitwise operations with bignums; and the value domain by
   ratio and bignum operands of the rounding divisions and of rem *)
Theorem C05_domains_nonvacuous :
  in_domain (ORound Round) [VFix 7; VFix (-2)] = true /\ in_domain (ORound Round) [VFix (-9223372036854775807); VFix 2] = true /\
  in_domain (OCmp CEq) [VRat 1 2; VRat 1 2; VRat 1 2] = true /\ in_domain (OCmp CEq) [VFix 1; VBig B; VRat 1 3] = false /\
  in_domain (OBit BOr) [VFix 5; VBig 18446744073709551616] = true /\
  in_domain (OBit BOr) [VFix (-2); VBig 18446744073709551616] = false /\
  value_domain (OBit BOr) [VFix (-2); VBig 18446744073709551616] = true /\
  value_domain (ORound Round) [VRat (-7) 2; VRat 1 3] = true /\ value_domain (ORound Floor) [VBig (- B); VFix (-3)] = true /\
  value_domain (ORound Ceiling) [VRat 7 2] = true /\ value_domain (ORound Floor) [VRat 1 2; VBig B] = false /\
  value_domain ORem [VBig (-50000000000000000000); VBig 20000000000000000000] = true.
Proof. exact guard_examples_2. Qed.
Print Assumptions C05_domains_nonvacuous.
