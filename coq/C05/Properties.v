(* C05 — property theorems only. *)
From C05 Require Import Model Spec Corr Proofs ProofsRound ProofsBits ProofsAll.
Open Scope Z_scope.

(* (1) Inside the guard the code model returns the mathematically exact result in canonical form and
   leaves its operands unchanged: + - * abs 1+ 1- on fixnums whose exact intermediate results stay in
   64 bits; floor (positive divisor, or exact), ceiling, truncate, mod, rem on fixnums; < <= > >= on
   chains of any length over fixnums, bignums and ratios that do not pair a large bignum with a ratio.
   FULL STATEMENT (false of the faithful model, see (3)):  forall o args, denotes args <> None ->
     s_out o args = Some (m_op o args).
   NOT COVERED by this theorem although inside in_domain (evaluated on every run only): round, and = . *)
Theorem C05_exact_on_domain_partial : forall o args,
  in_domain o args = true -> o <> OCmp CEq ->
  s_out o args = Some (m_op o args).
Proof. exact exact_on_domain. Qed.
Print Assumptions C05_exact_on_domain_partial.

(* (2) exactly one of <, =, > holds, and it is the one of the exact values *)
Theorem C05_trichotomy : forall a b, canonical a = true -> canonical b = true -> inexact_pair a b = false ->
  exists lt eq gt, cmp_pair CLt a b = Some lt /\ cmp_pair CEq a b = Some eq /\ cmp_pair CGt a b = Some gt /\
  ((lt = true /\ eq = false /\ gt = false) \/ (lt = false /\ eq = true /\ gt = false) \/ (lt = false /\ eq = false /\ gt = true)).
Proof. exact trichotomy. Qed.
Print Assumptions C05_trichotomy.

(* (3) outside the guard the faithful model violates the specification: 19 kernel-checked witnesses,
   one per guard clause / unmodelled clause; each is a known finding replayed on the implementation *)
Theorem C05_outside_guard_refuted :
  forallb (fun w => refuted (fst w) (snd w)) refutation_witnesses = true /\
  forallb (fun w => negb (in_domain (fst w) (snd w))) refutation_witnesses = true.
Proof. exact outside_guard_refuted. Qed.
Print Assumptions C05_outside_guard_refuted.

(* (4) the guard is inhabited by non-trivial operand tuples *)
Theorem C05_guard_nonvacuous :
  in_domain OAdd [VFix 9223372036854775806; VFix 1; VFix (-5)] = true /\
  in_domain (ORound Floor) [VFix (-7); VFix 2] = true /\ in_domain (ORound Ceiling) [VFix 7; VFix (-2)] = true /\
  in_domain OMod [VFix (-7); VFix (-2)] = true /\
  in_domain (OCmp CLt) [VFix 1; VBig B; VRat 1 3] = false /\ in_domain (OCmp CLt) [VRat (-1) 3; VFix 1; VBig B] = true.
Proof. exact guard_examples. Qed.
Print Assumptions C05_guard_nonvacuous.
