(* C05 — the theorems assembled over all operations. *)
From C05 Require Import Model Spec Corr Proofs ProofsRound ProofsBits ProofsCmp ProofsDiv ProofsGcd ProofsArith ProofsExt.
Open Scope Z_scope.

(* ---------- isqrt ---------- *)
Lemma isqrt_exact args : in_domain OIsqrt args = true -> s_out OIsqrt args = Some (m_op OIsqrt args).
Proof.
  cbn [in_domain]. destruct args as [|[a|a| |] [|? ?]]; try discriminate; intros Hd;
    unfold s_out; cbn [denotes denote m_op m_isqrt s_op fst snd]; f_equal; f_equal.
  - destruct (Z.ltb_spec a 0) as [Hn|Hp]; [reflexivity|].
    assert (I : in64 (Z.sqrt a) = true).
    { apply in64_spec in Hd. apply in64_spec. pose proof (Z.sqrt_nonneg a). pose proof (Z.sqrt_le_lin a Hp).
      unfold two63 in *. lia. }
    unfold canon_int. rewrite I. reflexivity.
  - destruct (Z.ltb_spec a 0) as [Hn|Hp]; [reflexivity|]. cbn [orb] in Hd.
    unfold canon_int. apply negb_true_iff in Hd. rewrite Hd. reflexivity.
Qed.
Lemma isqrt_value_exact args :
  value_domain OIsqrt args = true ->
  exists so, s_out OIsqrt args = Some so /\
    res_same_value (o_res so) (o_res (m_op OIsqrt args)) = true /\ o_args (m_op OIsqrt args) = args.
Proof.
  cbn [value_domain]. destruct args as [|[a|a| |] [|? ?]]; try discriminate; intros Hd. apply Z.leb_le in Hd.
  eexists. split; [reflexivity|]. cbn [denotes denote m_op m_isqrt s_op fst snd o_res o_args].
  destruct (Z.ltb_spec a 0) as [Hn|_]; [lia|]. split; [|reflexivity].
  cbn [res_same_value]. unfold val_same_value, canon_int.
  destruct (in64 (Z.sqrt a)); cbn [denote]; apply Z.eqb_refl.
Qed.
(* what S demands of isqrt is the integer square root: the largest r with r*r <= n *)
Lemma isqrt_spec_root n :
  0 <= n -> exists r, s_op OIsqrt [(n, 1)] = RVal (canon_int r) /\ 0 <= r /\ r * r <= n < (r + 1) * (r + 1).
Proof.
  intros Hn. exists (Z.sqrt n). cbn [s_op]. destruct (Z.ltb_spec n 0); [lia|].
  split; [reflexivity|]. split; [apply Z.sqrt_nonneg|]. pose proof (Z.sqrt_spec n Hn). unfold Z.succ in *. lia.
Qed.
Lemma isqrt_examples :
  in_domain OIsqrt [VFix 21] = true /\ in_domain OIsqrt [VFix (-9)] = true /\
  in_domain OIsqrt [VFix 4611686018427387903] = true /\ in_domain OIsqrt [VBig (-100000000000000000000)] = true /\
  m_op OIsqrt [VFix 4611686018427387903] = {| o_res := RVal (VFix 2147483647); o_args := [VFix 4611686018427387903] |} /\
  in_domain OIsqrt [VBig 100000000000000000000] = false /\ value_domain OIsqrt [VBig 100000000000000000000] = true /\
  in_domain OIsqrt [VBig 1361129467683753853853498429727072845824] = true /\
  m_op OIsqrt [VBig 100000000000000000000] = {| o_res := RVal (VBig 10000000000); o_args := [VBig 100000000000000000000] |} /\
  m_op OIsqrt [VBig 5] = {| o_res := RVal (VBig 2); o_args := [VBig 5] |}.
Proof. repeat split; vm_compute; reflexivity. Qed.

(* inside the guard: exact result, canonical representation, operands untouched *)
Theorem exact_on_domain o args :
  in_domain o args = true -> s_out o args = Some (m_op o args).
Proof.
  intros Hd. destruct o as [ | | | |m| | | | | | | |c|b| |mx| ].
  - apply add_exact, Hd. - apply sub_exact, Hd. - apply mul_exact, Hd. - apply div_exact, Hd.
  - destruct m; [apply floor_exact|apply ceiling_exact|apply truncate_exact|apply round_exact]; exact Hd.
  - apply mod_exact, Hd. - apply rem_exact, Hd. - apply abs_exact, Hd. - apply inc_exact, Hd. - apply dec_exact, Hd.
  - apply gcd_exact, Hd. - apply lcm_exact, Hd.
  - destruct c; [apply cmp_exact|apply cmp_exact|apply cmp_exact|apply cmp_exact|apply eq_exact]; try discriminate; exact Hd.
  - apply bit_exact, Hd. - apply lognot_exact, Hd. - apply ext_exact, Hd. - apply isqrt_exact, Hd.
Qed.

(* no operation alters an operand, whatever the operands are *)
Theorem operands_untouched o args : o_args (m_op o args) = args.
Proof.
  destruct o as [ | | | |m| | | | | | | |c|b| |mx| ]; cbn [m_op]; try reflexivity.
  - unfold m_sub. destruct args as [|a [|? ?]]; reflexivity.
  - unfold m_div. destruct args as [|a [|? ?]]; try reflexivity.
    destruct a as [[|[?|?|]|?]|z|n d|]; try reflexivity.
    + destruct (z =? 0); [reflexivity|]. destruct (z =? 1); reflexivity.
    + destruct (n =? 0); reflexivity.
  - apply round_operands.
  - unfold m_mod. destruct args as [|n [|d [|? ?]]]; try reflexivity.
    destruct (norm_kind n d); try reflexivity; destruct (as_int d =? 0); reflexivity.
  - unfold m_rem. destruct args as [|n [|d [|? ?]]]; try reflexivity.
    destruct (norm_kind n d); try reflexivity; destruct (as_int d =? 0); reflexivity.
  - unfold m_abs. destruct args as [|[?|?|? ?|] [|? ?]]; reflexivity.
  - unfold m_inc. destruct args as [|[?|?|? ?|] [|? ?]]; reflexivity.
  - unfold m_inc. destruct args as [|[?|?|? ?|] [|? ?]]; reflexivity.
  - unfold m_lognot. destruct args as [|[?|?|? ?|] [|? ?]]; reflexivity.
  - unfold m_isqrt. destruct args as [|[?|?|? ?|] [|? ?]]; reflexivity.
Qed.

(* on the value domain: exact values whatever the representation *)
Theorem value_exact o args :
  value_domain o args = true ->
  exists so, s_out o args = Some so /\
    res_same_value (o_res so) (o_res (m_op o args)) = true /\
    o_args (m_op o args) = args.
Proof.
  intros Hd. destruct o as [ | | | |m| | | | | | | |c|b| |mx| ]; try discriminate Hd; cbn [value_domain] in Hd.
  - destruct (round_value_exact m args Hd) as (so & H1 & H2 & H3). exists so. auto.
  - destruct (modrem_value_exact OMod args (or_introl eq_refl) Hd) as (so & H1 & H2 & H3). exists so. auto.
  - destruct (modrem_value_exact ORem args (or_intror eq_refl) Hd) as (so & H1 & H2 & H3). exists so. auto.
  - destruct (bit_value_exact b args Hd) as (so & H1 & H2 & H3). exists so. auto.
  - destruct (isqrt_value_exact args Hd) as (so & H1 & H2 & H3). exists so. auto.
Qed.

(* both domains are inhabited by the interesting cases *)
Lemma guard_examples_2 :
  in_domain (ORound Round) [VFix 7; VFix (-2)] = true /\ in_domain (ORound Round) [VFix (-9223372036854775807); VFix 2] = true /\
  in_domain (OCmp CEq) [VRat 1 2; VRat 1 2; VRat 1 2] = true /\ in_domain (OCmp CEq) [VFix 1; VBig B; VRat 1 3] = false /\
  in_domain (OBit BOr) [VFix 5; VBig 18446744073709551616] = true /\
  in_domain (OBit BOr) [VFix (-2); VBig 18446744073709551616] = false /\
  value_domain (OBit BOr) [VFix (-2); VBig 18446744073709551616] = true /\
  value_domain (ORound Round) [VRat (-7) 2; VRat 1 3] = true /\ value_domain (ORound Floor) [VBig (- B); VFix (-3)] = true /\
  value_domain (ORound Ceiling) [VRat 7 2] = true /\ value_domain (ORound Floor) [VRat 1 2; VBig B] = false /\
  value_domain ORem [VBig (-50000000000000000000); VBig 20000000000000000000] = true.
Proof. repeat split; vm_compute; reflexivity. Qed.

Lemma repaired_examples :
  in_domain OAdd [VFix 4611686018427387904; VFix 4611686018427387904] = true /\
  in_domain OMul [VFix 4294967296; VFix 4294967296] = true /\
  in_domain OSub [VBig B; VFix 1] = true /\ in_domain OSub [VFix (-9223372036854775808)] = true /\
  in_domain OInc [VFix 9223372036854775807] = true /\ in_domain OAbs [VFix (-9223372036854775808)] = true /\
  in_domain (ORound Truncate) [VFix (-9223372036854775808); VFix (-1)] = true /\
  in_domain ORem [VFix 5; VFix 0] = true /\ in_domain (ORound Round) [VFix 5; VFix 0] = true /\
  in_domain ODiv [VFix 6; VFix 4; VFix (-3)] = true /\ in_domain ODiv [VFix (-9223372036854775808); VFix (-1)] = true /\
  in_domain OGcd [VBig B; VFix 10; VFix (-9223372036854775808)] = true /\
  in_domain OLcm [VFix 4611686018427387904; VFix 3; VBig (- B)] = true.
Proof. repeat split; vm_compute; reflexivity. Qed.

(* max and min: whatever the operands, the result is one of the operand objects (or a float took part) *)
Theorem ext_operand mx args v : o_res (m_op (OExt mx) args) = RVal v -> v = VInexact \/ In v args.
Proof.
  cbn [m_op m_ext o_res]. destruct args as [|a rest]; [discriminate|]. apply ext_is_operand.
Qed.
Lemma ext_examples :
  in_domain (OExt true) [VFix (-9223372036854775808); VFix 1] = true /\
  in_domain (OExt false) [VFix 5000000000000000000; VFix 6000000000000000000; VFix (-5000000000000000000)] = true /\
  in_domain (OExt true) [VRat (-1) 2; VFix 0; VRat 1 3] = true /\ in_domain (OExt false) [VBig B; VFix 1; VBig (- B)] = true /\
  in_domain (OExt true) [VBig B; VRat 1 2] = false /\
  o_res (m_op (OExt true) [VFix (-9223372036854775808); VFix 1]) = RVal (VFix 1) /\
  o_res (m_op (OExt false) [VFix (-4611686018427387904); VFix 4611686018427387904]) = RVal (VFix (-4611686018427387904)).
Proof. repeat split; vm_compute; reflexivity. Qed.
