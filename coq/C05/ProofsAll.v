(* C05 — the guarded exactness theorem assembled over all operations. *)
From C05 Require Import Model Spec Corr Proofs ProofsRound ProofsBits.
Open Scope Z_scope.

Theorem exact_on_domain o args :
  in_domain o args = true -> o <> OCmp CEq ->
  s_out o args = Some (m_op o args).
Proof.
  intros Hd He. destruct o as [ | | | |m| | | | | | | |c|b| ]; try discriminate Hd.
  - apply add_exact, Hd. - apply sub_exact, Hd. - apply mul_exact, Hd.
  - destruct m; [apply floor_exact|apply ceiling_exact|apply truncate_exact|apply round_exact]; exact Hd.
  - apply mod_exact, Hd. - apply rem_exact, Hd. - apply abs_exact, Hd. - apply inc_exact, Hd. - apply dec_exact, Hd.
  - apply cmp_exact; [congruence|exact Hd].
  - apply bit_exact, Hd. - apply lognot_exact, Hd.
Qed.
