(* C05 — proofs: inside the guard the code model returns the exact result in canonical form and
   leaves its operands alone. *)
From C05 Require Import Model Spec.
From Coq Require Import ZifyBool.
Open Scope Z_scope.
Ltac Zify.zify_post_hook ::= Z.to_euclidean_division_equations.

Lemma in64_spec z : in64 z = true <-> - two63 <= z < two63.
Proof. unfold in64. rewrite andb_true_iff, Z.leb_le, Z.ltb_lt. tauto. Qed.
Lemma wrap64_id z : in64 z = true -> wrap64 z = z.
Proof. intros H. apply in64_spec in H. unfold wrap64. rewrite Z.mod_small; unfold two63 in *; lia. Qed.

Lemma canon_int_fix z : in64 z = true -> canon_int z = VFix z.
Proof. unfold canon_int. intros ->. reflexivity. Qed.
Lemma canon_one z : canon z 1 = canon_int z.
Proof.
  unfold canon, mkrat. rewrite Z.gcd_1_r. cbn. rewrite !Z.div_1_r. cbn.
  destruct z; reflexivity.
Qed.

(* operands that are in-range fixnums *)
Lemma all_fix_spec args : all_fix args = true -> args = map VFix (fixes args) /\ forallb in64 (fixes args) = true.
Proof.
  unfold all_fix, fixes. induction args as [|v args IH]; cbn; [auto|].
  destruct v; try discriminate. rewrite andb_true_iff. intros [Hz Hr]. destruct (IH Hr) as [H1 H2].
  cbn. rewrite Hz, H2. split; [f_equal; exact H1|reflexivity].
Qed.
Lemma denotes_fix zs : denotes (map VFix zs) = Some (map (fun z => (z, 1)) zs).
Proof. induction zs as [|z zs IH]; cbn; [reflexivity|]. rewrite IH. reflexivity. Qed.

(* ---------- + - * on fixnums without overflow ---------- *)
Section Folds.
  Variable f : Z -> Z -> Z.
  Variable step : val -> val -> val.
  Variable qf : Z * Z -> Z * Z -> Z * Z.
  Hypothesis step_fix : forall a z, step (VFix a) (VFix z) = VFix (wrap64 (f a z)).
  Hypothesis qf_int : forall a z, qf (a, 1) (z, 1) = (f a z, 1).

  Lemma fold_fix zs : forall a, prefixes_in64 f a zs = true ->
    fold_left step (map VFix zs) (VFix a) = VFix (fold_left f zs a) /\ (zs <> [] -> in64 (fold_left f zs a) = true).
  Proof.
    induction zs as [|z zs IH]; intros a H; cbn in *; [split; [reflexivity|congruence]|].
    apply andb_true_iff in H as [H1 H2]. rewrite step_fix, (wrap64_id _ H1).
    destruct (IH _ H2) as [E1 E2]. split; [exact E1|]. intros _. destruct zs; [exact H1|apply E2; discriminate].
  Qed.
  Lemma fold_q zs : forall a, fold_left qf (map (fun z => (z, 1)) zs) (a, 1) = (fold_left f zs a, 1).
  Proof. induction zs as [|z zs IH]; intros a; cbn; [reflexivity|]. rewrite qf_int. apply IH. Qed.
End Folds.

Lemma add2_fix a z : add2 (VFix a) (VFix z) = VFix (wrap64 (a + z)).
Proof. cbn. f_equal. f_equal. lia. Qed.
Lemma mul2_fix a z : mul2 (VFix a) (VFix z) = VFix (wrap64 (a * z)).
Proof. cbn. f_equal. f_equal. lia. Qed.
Lemma qadd_int a z : qadd (a, 1) (z, 1) = (a + z, 1).
Proof. unfold qadd; cbn. f_equal; lia. Qed.
Lemma qmul_int a z : qmul (a, 1) (z, 1) = (a * z, 1).
Proof. unfold qmul; cbn. f_equal; lia. Qed.
Lemma qsub_int a z : qsub (a, 1) (z, 1) = (a - z, 1).
Proof. unfold qsub; cbn. f_equal; lia. Qed.

Lemma fixes_map zs : fixes (map VFix zs) = zs.
Proof. unfold fixes. rewrite map_map. cbn. apply map_id. Qed.

(* reduce a goal about fixnum operands to one about the list of their values *)
Ltac fix_operands args Hf zs Hin :=
  let H := fresh in
  destruct (all_fix_spec args Hf) as [H Hin];
  remember (fixes args) as zs; rewrite H in *; rewrite ?fixes_map in *; clear H.

Lemma add_exact args : in_domain OAdd args = true -> s_out OAdd args = Some (m_op OAdd args).
Proof.
  cbn [in_domain]. rewrite andb_true_iff. intros [Hf Hp]. fix_operands args Hf zs Hin.
  unfold s_out. rewrite denotes_fix. cbn [m_op s_op]. unfold m_add. f_equal. f_equal. f_equal.
  destruct (fold_fix Z.add add2 add2_fix _ 0 Hp) as [E1 E2]. rewrite E1.
  rewrite (fold_q Z.add qadd qadd_int). cbn [fst snd]. rewrite canon_one.
  destruct zs as [|z zs']; [reflexivity|]. rewrite canon_int_fix; [reflexivity|apply E2; discriminate].
Qed.

Lemma mul_exact args : in_domain OMul args = true -> s_out OMul args = Some (m_op OMul args).
Proof.
  cbn [in_domain]. rewrite andb_true_iff. intros [Hf Hp]. fix_operands args Hf zs Hin.
  unfold s_out. rewrite denotes_fix. cbn [m_op s_op]. unfold m_mul. f_equal. f_equal. f_equal.
  destruct (fold_fix Z.mul mul2 mul2_fix _ 1 Hp) as [E1 E2]. rewrite E1.
  rewrite (fold_q Z.mul qmul qmul_int). cbn [fst snd]. rewrite canon_one.
  destruct zs as [|z zs']; [reflexivity|]. rewrite canon_int_fix; [reflexivity|apply E2; discriminate].
Qed.

(* subtraction: the accumulator is operand 0, but on the fixnum path nothing is written into it *)
Lemma fold_sub_fix zs : forall a op0, prefixes_in64 Z.sub a zs = true ->
  fold_left sub2 (map VFix zs) (VFix a, true, op0) =
    match zs with [] => (VFix a, true, op0) | _ => (VFix (fold_left Z.sub zs a), false, op0) end /\
  (zs <> [] -> in64 (fold_left Z.sub zs a) = true).
Proof.
  assert (G : forall l a b op0, prefixes_in64 Z.sub a l = true ->
            fold_left sub2 (map VFix l) (VFix a, b, op0) =
              match l with [] => (VFix a, b, op0) | _ => (VFix (fold_left Z.sub l a), false, op0) end /\
            (l <> [] -> in64 (fold_left Z.sub l a) = true)).
  { clear zs. induction l as [|z zs IH]; intros a b op0 H; cbn in *; [split; [reflexivity|congruence]|].
    apply andb_true_iff in H as [H1 H2]. rewrite (wrap64_id _ H1).
    destruct (IH (a - z) false op0 H2) as [E1 E2]. rewrite E1. split.
    - destruct zs; reflexivity.
    - intros _. destruct zs; [exact H1|apply E2; discriminate]. }
  intros a op0. apply G.
Qed.

Lemma sub_exact args : in_domain OSub args = true -> s_out OSub args = Some (m_op OSub args).
Proof.
  cbn [in_domain]. rewrite andb_true_iff. intros [Hf Hp]. fix_operands args Hf zs Hin.
  unfold s_out. rewrite denotes_fix. cbn [m_op]. f_equal.
  destruct zs as [|a [|b rest]]; [discriminate| |].
  - cbn [map m_sub neg1 s_op fst snd]. rewrite (wrap64_id _ Hp), canon_one, (canon_int_fix _ Hp). reflexivity.
  - cbn [map m_sub]. change (VFix b :: map VFix rest) with (map VFix (b :: rest)).
    destruct (fold_sub_fix (b :: rest) a (VFix a) Hp) as [E1 E2]. rewrite E1.
    cbn [s_op]. change ((b, 1) :: map (fun z => (z, 1)) rest) with (map (fun z : Z => (z, 1)) (b :: rest)).
    rewrite (fold_q Z.sub qsub qsub_int). cbn [fst snd]. rewrite canon_one, canon_int_fix; [reflexivity|apply E2; discriminate].
Qed.

Lemma inc_exact args : in_domain OInc args = true -> s_out OInc args = Some (m_op OInc args).
Proof.
  cbn [in_domain]. rewrite andb_true_iff. intros [Hf Hp]. fix_operands args Hf zs Hin.
  destruct zs as [|a [|? ?]]; try discriminate. cbn [map s_out denotes denote m_op m_inc s_op fst snd].
  rewrite (wrap64_id _ Hp). rewrite (canon_one (a + 1)), (canon_int_fix _ Hp). reflexivity.
Qed.
Lemma dec_exact args : in_domain ODec args = true -> s_out ODec args = Some (m_op ODec args).
Proof.
  cbn [in_domain]. rewrite andb_true_iff. intros [Hf Hp]. fix_operands args Hf zs Hin.
  destruct zs as [|a [|? ?]]; try discriminate. cbn [map s_out denotes denote m_op m_inc s_op fst snd].
  replace (a + -1) with (a - 1) by lia.
  rewrite (wrap64_id _ Hp). rewrite (canon_one (a - 1)), (canon_int_fix _ Hp). reflexivity.
Qed.
Lemma abs_exact args : in_domain OAbs args = true -> s_out OAbs args = Some (m_op OAbs args).
Proof.
  cbn [in_domain]. rewrite andb_true_iff. intros [Hf Hp]. fix_operands args Hf zs Hin.
  destruct zs as [|a [|? ?]]; try discriminate. cbn [map s_out denotes denote m_op m_abs s_op fst snd].
  rewrite canon_one, (canon_int_fix _ Hp). f_equal. f_equal. f_equal. f_equal.
  destruct (Z.ltb_spec a 0).
  - replace (Z.abs a) with (- a) in * by lia. symmetry. apply wrap64_id, Hp.
  - lia.
Qed.

(* ---------- mod rem ---------- *)
Lemma rem_exact args : in_domain ORem args = true -> s_out ORem args = Some (m_op ORem args).
Proof.
  cbn [in_domain]. rewrite andb_true_iff. intros [Hf Hp]. fix_operands args Hf zs Hin.
  destruct zs as [|n [|d [|? ?]]]; try discriminate. cbn [map s_out denotes denote m_op m_rem s_op norm_kind as_int].
  cbn in Hin. apply andb_true_iff in Hin as [Hn Hd']. apply andb_true_iff in Hd' as [Hd _].
  apply negb_true_iff in Hp. rewrite Hp. unfold grem. f_equal. f_equal. f_equal.
  apply canon_int_fix. apply in64_spec in Hn, Hd. apply in64_spec. unfold two63 in *. apply Z.eqb_neq in Hp. clear Hf Heqzs. lia.
Qed.
Lemma mod_exact args : in_domain OMod args = true -> s_out OMod args = Some (m_op OMod args).
Proof.
  cbn [in_domain]. rewrite andb_true_iff. intros [Hf Hp]. fix_operands args Hf zs Hin.
  destruct zs as [|n [|d [|? ?]]]; try discriminate. cbn [map s_out denotes denote m_op m_mod s_op norm_kind as_int].
  cbn in Hin. apply andb_true_iff in Hin as [Hn Hd']. apply andb_true_iff in Hd' as [Hd _].
  apply negb_true_iff in Hp. rewrite Hp. unfold grem. f_equal. f_equal. f_equal.
  apply in64_spec in Hn, Hd. apply Z.eqb_neq in Hp. clear Hf Heqzs.
  assert (Hm : in64 (n mod d) = true) by (apply in64_spec; unfold two63 in *; lia).
  rewrite (canon_int_fix _ Hm). f_equal.
  destruct ((0 <? d) && (Z.rem n d <? 0) || (d <? 0) && (0 <? Z.rem n d)) eqn:E.
  - assert (n mod d = Z.rem n d + d) as ->.
    { symmetry. apply (Z.mod_unique n d (Z.quot n d - 1)).
      - lia.
      - pose proof (Z.quot_rem' n d). rewrite Z.mul_sub_distr_l. lia. }
    symmetry. apply wrap64_id. apply in64_spec. unfold two63 in *. lia.
  - symmetry. apply (Z.mod_unique n d (Z.quot n d)).
    + lia.
    + apply Z.quot_rem'.
Qed.

(* ---------- truncate floor ceiling on fixnums ---------- *)
Lemma quot_facts n d : d <> 0 -> - two63 <= n < two63 -> - two63 <= d < two63 ->
  n = d * Z.quot n d + Z.rem n d /\ in64 (Z.quot n d * d) = true /\ in64 (n - Z.quot n d * d) = true /\
  n - Z.quot n d * d = Z.rem n d.
Proof.
  intros Hd Hn Hdd. pose proof (Z.quot_rem' n d) as E. unfold two63 in *.
  assert (R : n - Z.quot n d * d = Z.rem n d) by lia.
  repeat split; try exact E; try exact R.
  - apply in64_spec. unfold two63. lia.
  - rewrite R. apply in64_spec. unfold two63. lia.
Qed.

Ltac round_setup args Hf Hp zs Hin n d Hn Hd Hnz Hq Hm :=
  cbn [in_domain] in *; apply andb_true_iff in Hp as [Hf Hp]; fix_operands args Hf zs Hin;
  destruct zs as [|n [|d [|? ?]]]; try discriminate;
  cbn in Hin; apply andb_true_iff in Hin as [Hn Hin]; apply andb_true_iff in Hin as [Hd _];
  apply andb_true_iff in Hp as [Hp Hm]; apply andb_true_iff in Hp as [Hnz Hq];
  apply negb_true_iff in Hnz;
  cbn [map s_out denotes denote m_op m_round s_op norm_kind as_int];
  rewrite Hnz; unfold round_fix; rewrite Hnz; unfold gquot; rewrite (wrap64_id _ Hq);
  apply in64_spec in Hn, Hd; apply Z.eqb_neq in Hnz;
  clear Hf.

Lemma truncate_exact args : in_domain (ORound Truncate) args = true ->
  s_out (ORound Truncate) args = Some (m_op (ORound Truncate) args).
Proof.
  intros Hp. round_setup args Hf Hp zs Hin n d Hn Hd Hnz Hq Hm.
  destruct (quot_facts n d Hnz Hn Hd) as (E & H1 & H2 & R).
  rewrite (wrap64_id _ H1), (wrap64_id _ H2). cbn [s_quot]. rewrite (canon_int_fix _ Hq), (canon_int_fix _ H2). reflexivity.
Qed.

Lemma floor_exact args : in_domain (ORound Floor) args = true ->
  s_out (ORound Floor) args = Some (m_op (ORound Floor) args).
Proof.
  intros Hp. round_setup args Hf Hp zs Hin n d Hn Hd Hnz Hq Hm.
  destruct (quot_facts n d Hnz Hn Hd) as (E & H1 & H2 & R).
  rewrite (wrap64_id _ H1), (wrap64_id _ H2), R. cbn [s_quot].
  assert (Hrb : - two63 <= Z.rem n d < two63) by (unfold two63 in *; lia).
  apply in64_spec in Hq.
  destruct (Z.ltb_spec 0 d) as [Hpos|Hneg].
  - destruct (Z.ltb_spec (Z.rem n d) 0) as [Hr|Hr].
    + assert (Eq : n / d = Z.quot n d - 1).
      { symmetry. apply (Z.div_unique n d (Z.quot n d - 1) (Z.rem n d + d)); [unfold two63 in *; lia|]. rewrite Z.mul_sub_distr_l. lia. }
      rewrite Eq.
      assert (I1 : in64 (Z.quot n d - 1) = true) by (apply in64_spec; unfold two63 in *; nia).
      assert (I2 : in64 (Z.rem n d + d) = true) by (apply in64_spec; unfold two63 in *; lia).
      rewrite (wrap64_id _ I1), (wrap64_id _ I2), (canon_int_fix _ I1).
      replace (n - (Z.quot n d - 1) * d) with (Z.rem n d + d) by (rewrite Z.mul_sub_distr_r; lia).
      rewrite (canon_int_fix _ I2). reflexivity.
    + assert (Eq : n / d = Z.quot n d).
      { symmetry. apply (Z.div_unique n d (Z.quot n d) (Z.rem n d)); [unfold two63 in *; lia|exact E]. }
      rewrite Eq. assert (I1 : in64 (Z.quot n d) = true) by (apply in64_spec; exact Hq).
      rewrite (canon_int_fix _ I1), R, (canon_int_fix (Z.rem n d)); [reflexivity|apply in64_spec; exact Hrb].
  - (* negative divisor: the guard requires an exact division *)
    cbn [orb] in Hm. apply Z.eqb_eq in Hm.
    rewrite Hm. cbn [Z.ltb Z.compare].
    assert (Eq : n / d = Z.quot n d).
    { symmetry. apply (Z.div_unique n d (Z.quot n d) 0); [lia|lia]. }
    rewrite Eq. assert (I1 : in64 (Z.quot n d) = true) by (apply in64_spec; exact Hq).
    rewrite (canon_int_fix _ I1). rewrite R, Hm. reflexivity.
Qed.

Lemma ceiling_exact args : in_domain (ORound Ceiling) args = true ->
  s_out (ORound Ceiling) args = Some (m_op (ORound Ceiling) args).
Proof.
  intros Hp. round_setup args Hf Hp zs Hin n d Hn Hd Hnz Hq Hm.
  destruct (quot_facts n d Hnz Hn Hd) as (E & H1 & H2 & R).
  rewrite (wrap64_id _ H1), (wrap64_id _ H2), R. cbn [s_quot].
  assert (Hrb : - two63 <= Z.rem n d < two63) by (unfold two63 in *; lia).
  apply in64_spec in Hq.
  (* the two cases of the code: round up (q+1, r-d) or keep (q, r) *)
  assert (Up : (0 < d /\ 0 < Z.rem n d) \/ (d < 0 /\ Z.rem n d < 0) ->
               - (- n / d) = Z.quot n d + 1 /\ in64 (Z.quot n d + 1) = true /\ in64 (Z.rem n d - d) = true).
  { intros Hc. split; [|split].
    - assert (- n / d = - (Z.quot n d + 1)); [|lia].
      symmetry. apply (Z.div_unique (- n) d (- (Z.quot n d + 1)) (d - Z.rem n d)); [unfold two63 in *; lia|].
      rewrite Z.mul_opp_r, Z.mul_add_distr_l. lia.
    - apply in64_spec. unfold two63 in *. nia.
    - apply in64_spec. unfold two63 in *. lia. }
  assert (Keep : (0 < d /\ Z.rem n d <= 0) \/ (d < 0 /\ 0 <= Z.rem n d) -> - (- n / d) = Z.quot n d).
  { intros Hc. assert (- n / d = - Z.quot n d); [|lia].
    symmetry. apply (Z.div_unique (- n) d (- Z.quot n d) (- Z.rem n d)); [unfold two63 in *; lia|].
    rewrite Z.mul_opp_r. lia. }
  assert (I0 : in64 (Z.quot n d) = true) by (apply in64_spec; exact Hq).
  assert (Ir : in64 (Z.rem n d) = true) by (apply in64_spec; exact Hrb).
  destruct (Z.ltb_spec 0 d) as [Hpos|Hneg].
  - destruct (Z.ltb_spec 0 (Z.rem n d)) as [Hr|Hr].
    + destruct Up as (Eq & I1 & I2); [left; lia|]. rewrite Eq, (wrap64_id _ I1), (wrap64_id _ I2), (canon_int_fix _ I1).
      replace (n - (Z.quot n d + 1) * d) with (Z.rem n d - d) by (rewrite Z.mul_add_distr_r; lia).
      rewrite (canon_int_fix _ I2). reflexivity.
    + rewrite Keep by (left; lia). rewrite (canon_int_fix _ I0), R, (canon_int_fix _ Ir). reflexivity.
  - destruct (Z.ltb_spec (Z.rem n d) 0) as [Hr|Hr].
    + destruct Up as (Eq & I1 & I2); [right; lia|]. rewrite Eq, (wrap64_id _ I1), (wrap64_id _ I2), (canon_int_fix _ I1).
      replace (n - (Z.quot n d + 1) * d) with (Z.rem n d - d) by (rewrite Z.mul_add_distr_r; lia).
      rewrite (canon_int_fix _ I2). reflexivity.
    + rewrite Keep by (right; lia). rewrite (canon_int_fix _ I0), R, (canon_int_fix _ Ir). reflexivity.
Qed.

(* ---------- comparisons: exactly one of <, =, > ---------- *)
Lemma denote_canonical v : canonical v = true -> exists n d, denote v = Some (n, d) /\ 0 < d /\ as_num v = n /\ as_den v = d.
Proof.
  destruct v as [z|z|n d|]; cbn; try discriminate; intros H.
  - exists z, 1. repeat split; lia.
  - exists z, 1. repeat split; lia.
  - exists n, d. apply andb_true_iff in H as [H _]. repeat split; lia.
Qed.

(* on every pair that does not go through floats the code compares the exact values *)
Lemma cmp_pair_exact c a b na da nb db :
  inexact_pair a b = false -> denote a = Some (na, da) -> denote b = Some (nb, db) ->
  as_num a = na -> as_den a = da -> as_num b = nb -> as_den b = db ->
  cmp_pair c a b = Some (cmp_z c (na * db) (nb * da)).
Proof.
  unfold inexact_pair, cmp_pair. intros Hk Ha Hb <- <- <- <-.
  destruct a as [x|x|x y|], b as [u|u|u w|]; try discriminate; cbn in Ha, Hb |- *;
    try (injection Ha as <- <-); try (injection Hb as <- <-); cbn; rewrite ?Z.mul_1_r; try reflexivity.
  - cbn in Hk. destruct (fits64 x); [cbn; rewrite ?Z.mul_1_r; reflexivity|discriminate].
  - cbn in Hk. destruct (fits64 u); [cbn; rewrite ?Z.mul_1_r; reflexivity|discriminate].
Qed.

Definition rel_of (c : cmp) : Z * Z -> Z * Z -> bool :=
  match c with
  | CLt => qlt | CLe => fun x y => negb (qlt y x) | CGt => fun x y => qlt y x
  | CGe => fun x y => negb (qlt x y) | CEq => qeq end.
Lemma cmp_z_rel c a b : cmp_z c (fst a * snd b) (fst b * snd a) = rel_of c a b.
Proof. destruct c; unfold rel_of, qlt, qeq, cmp_z; try reflexivity; lia. Qed.

Lemma chain_exact c : c <> CEq -> forall rest a qa qs,
  canonical a = true -> forallb canonical rest = true ->
  (fix go a rest := match rest with [] => true | b :: rest' => negb (inexact_pair a b) && go b rest' end) a rest = true ->
  denote a = Some qa -> denotes rest = Some qs ->
  cmp_chain c a rest = RBool (s_chain (rel_of c) qa qs).
Proof.
  intros Hc. induction rest as [|b rest IH]; intros a qa qs Ca Cr Hp Ha Hr.
  - cbn in Hr. injection Hr as <-. reflexivity.
  - cbn [forallb] in Cr. apply andb_true_iff in Cr as [Cb Cr]. apply andb_true_iff in Hp as [Hab Hp].
    apply negb_true_iff in Hab. cbn [denotes] in Hr.
    destruct (denote_canonical a Ca) as (na & da & Da & Pa & Na & Dna).
    destruct (denote_canonical b Cb) as (nb & db & Db & Pb & Nb & Dnb).
    rewrite Db in Hr. destruct (denotes rest) as [qr|] eqn:Er; [|discriminate]. injection Hr as <-.
    rewrite Da in Ha. injection Ha as <-.
    cbn [cmp_chain s_chain]. rewrite (cmp_pair_exact c a b na da nb db Hab Da Db Na Dna Nb Dnb).
    change (na * db) with (fst (na, da) * snd (nb, db)). change (nb * da) with (fst (nb, db) * snd (na, da)).
    rewrite cmp_z_rel. destruct (rel_of c (na, da) (nb, db)); [|reflexivity].
    cbn [andb]. apply IH; assumption || reflexivity.
Qed.

Lemma cmp_exact c args : c <> CEq -> in_domain (OCmp c) args = true -> s_out (OCmp c) args = Some (m_op (OCmp c) args).
Proof.
  intros Hc. cbn [in_domain]. rewrite andb_true_iff. intros [Hl Hp]. unfold exact_pairs in Hp. apply andb_true_iff in Hp as [Hp Hcan].
  destruct args as [|a rest]; [discriminate|]. cbn [hd tl forallb] in *. apply andb_true_iff in Hcan as [Ca Cr].
  destruct (denote_canonical a Ca) as (na & da & Da & _).
  assert (exists qs, denotes rest = Some qs) as [qs Hqs].
  { clear - Cr. induction rest as [|b rest IH]; [exists []; reflexivity|]. cbn in Cr. apply andb_true_iff in Cr as [Cb Cr].
    destruct (denote_canonical b Cb) as (nb & db & Db & _). destruct (IH Cr) as [qs Hq]. exists ((nb, db) :: qs). cbn. rewrite Db, Hq. reflexivity. }
  unfold s_out. cbn [denotes]. rewrite Da, Hqs. cbn [m_op]. unfold m_cmp. f_equal. f_equal.
  assert (Hm : match c with CEq => match rev (a :: rest) with [] => RCond CArith | t :: more => eq_chain t more end
                          | _ => cmp_chain c a rest end = cmp_chain c a rest) by (destruct c; congruence).
  rewrite Hm. rewrite (chain_exact c Hc rest a (na, da) qs Ca Cr Hp Da Hqs).
  cbn [s_op]. destruct c; try congruence; reflexivity.
Qed.

(* trichotomy on exact operands: exactly one of <, =, > *)
Theorem trichotomy a b : canonical a = true -> canonical b = true -> inexact_pair a b = false ->
  exists lt eq gt, cmp_pair CLt a b = Some lt /\ cmp_pair CEq a b = Some eq /\ cmp_pair CGt a b = Some gt /\
  ((lt = true /\ eq = false /\ gt = false) \/ (lt = false /\ eq = true /\ gt = false) \/ (lt = false /\ eq = false /\ gt = true)).
Proof.
  intros Ca Cb Hk.
  destruct (denote_canonical a Ca) as (na & da & Da & Pa & Na & Dna).
  destruct (denote_canonical b Cb) as (nb & db & Db & Pb & Nb & Dnb).
  rewrite !(cmp_pair_exact _ a b na da nb db Hk Da Db Na Dna Nb Dnb).
  do 3 eexists. repeat split. unfold cmp_z. lia.
Qed.

(* the guarded theorem over all operations is assembled in ProofsAll.v *)

(* ---------- refutations outside the guard (the faithful model against S): known findings ---------- *)
Definition B := 100000000000000000000.
Definition refuted (o : opn) (args : list val) : bool :=
  match s_out o args with
  | Some so => negb (match o_res so, o_res (m_op o args) with
                     | RVal x, RVal y => match x, y with
                                         | VFix a, VFix b | VBig a, VBig b => a =? b
                                         | VRat a b, VRat a' b' => (a =? a') && (b =? b')
                                         | _, _ => false end
                     | RVals x1 x2, RVals y1 y2 => match x1, y1, x2, y2 with
                                                   | VFix a, VFix b, VFix c, VFix d => (a =? b) && (c =? d)
                                                   | VBig a, VBig b, VBig c, VBig d => (a =? b) && (c =? d)
                                                   | _, _, _, _ => false end
                     | RBool x, RBool y => Bool.eqb x y
                     | RCond CDivZero, RCond CDivZero => true
                     | _, _ => false end
                 && (fix eq l1 l2 := match l1, l2 with
                                     | [], [] => true
                                     | VFix a :: l1', VFix b :: l2' | VBig a :: l1', VBig b :: l2' => (a =? b) && eq l1' l2'
                                     | VRat a b :: l1', VRat a' b' :: l2' => (a =? a') && (b =? b') && eq l1' l2'
                                     | _, _ => false end) (o_args so) (o_args (m_op o args)))
  | None => false
  end.
Definition refutation_witnesses : list (opn * list val) :=
  [ (OAdd, [VFix 4611686018427387904; VFix 4611686018427387904]);      (* fixnum + wraps *)
    (OMul, [VFix 4294967296; VFix 4294967296]);                        (* fixnum * wraps *)
    (OInc, [VFix 9223372036854775807]);                                (* 1+ wraps *)
    (OAbs, [VFix (-9223372036854775808)]);                             (* abs of most-negative-fixnum *)
    (ORound Floor, [VFix (-7); VFix (-2)]);                            (* floor, negative divisor *)
    (ORound Floor, [VFix 7; VFix (-2)]);
    (OSub, [VBig B; VFix 1]);                                          (* result written into operand 0 *)
    (OSub, [VBig B]);                                                  (* negation in place *)
    (OSub, [VBig B; VBig (B - 5)]);                                    (* small result stays a bignum *)
    (ODiv, [VRat 1 2; VFix 2]);                                        (* ratio operand overwritten *)
    (ODiv, [VRat 1 2; VRat 1 2]);                                      (* integer-valued ratio not demoted *)
    (OInc, [VRat 1 2]);                                                (* 1+ writes into its ratio operand *)
    (ORound Round, [VBig (- B); VFix 3]);                              (* round takes |.| of its operand in place *)
    (OAdd, [VBig B; VRat 1 2]);                                        (* bignum + ratio goes through floats *)
    (OGcd, [VBig B; VFix 10]);                                         (* gcd rejects bignums *)
    (ORem, [VFix 5; VFix 0]);                                          (* rem by zero: Go runtime fault *)
    (OMod, [VFix 5; VFix 0]);                                          (* arithmetic-error, not division-by-zero *)
    (ORound Truncate, [VFix (-9223372036854775808); VFix (-1)]);       (* quotient wraps *)
    (OCmp CLt, [VBig 590295810358705651712; VRat 1180591620717411303425 2]);    (* 2^69 < 2^69 + 1/2 is false through float64 (= is exact since slip repair C16-11) *)
    (OBit BAnd, [VBig B; VFix 1]) ].                                   (* small result of the bignum loop stays a bignum *)
Lemma outside_guard_refuted :
  forallb (fun w => refuted (fst w) (snd w)) refutation_witnesses = true /\
  forallb (fun w => negb (in_domain (fst w) (snd w))) refutation_witnesses = true.
Proof. split; vm_compute; reflexivity. Qed.

(* non-vacuity of the guard *)
Lemma guard_examples :
  in_domain OAdd [VFix 9223372036854775806; VFix 1; VFix (-5)] = true /\
  in_domain (ORound Floor) [VFix (-7); VFix 2] = true /\ in_domain (ORound Ceiling) [VFix 7; VFix (-2)] = true /\
  in_domain OMod [VFix (-7); VFix (-2)] = true /\
  in_domain (OCmp CLt) [VFix 1; VBig B; VRat 1 3] = false /\ in_domain (OCmp CLt) [VRat (-1) 3; VFix 1; VBig B] = true.
Proof. repeat split; vm_compute; reflexivity. Qed.
