(* C05 — proofs: inside the guard the code model returns the exact result in canonical form and
   leaves its operands alone. *)
From C05 Require Import Model Spec.
From Coq Require Import ZifyBool.
Open Scope Z_scope.
Ltac Zify.zify_post_hook ::= Z.to_euclidean_division_equations.

Lemma in64_spec z : in64 z = true <-> - two63 <= z < two63.
Proof. unfold in64. rewrite andb_true_iff, Z.leb_le, Z.ltb_lt. tauto. Qed.
Lemma wrap64_id z : in64 z = true -> wrap64 z = z.
Proof. intros H. apply in64_spec in H. unfold wrap64. rewrite Z.mod_small; unfold two63 in *; lia. Qed.

Lemma canon_int_fix z : in64 z = true -> canon_int z = VFix z.
Proof. unfold canon_int. intros ->. reflexivity. Qed.
Lemma canon_one z : canon z 1 = canon_int z.
Proof.
  unfold canon, mkrat. rewrite Z.gcd_1_r. cbn. rewrite !Z.div_1_r. cbn.
  destruct z; reflexivity.
Qed.

(* operands that are in-range fixnums *)
Lemma all_fix_spec args : all_fix args = true -> args = map VFix (fixes args) /\ forallb in64 (fixes args) = true.
Proof.
  unfold all_fix, fixes. induction args as [|v args IH]; cbn; [auto|].
  destruct v; try discriminate. rewrite andb_true_iff. intros [Hz Hr]. destruct (IH Hr) as [H1 H2].
  cbn. rewrite Hz, H2. split; [f_equal; exact H1|reflexivity].
Qed.
Lemma denotes_fix zs : denotes (map VFix zs) = Some (map (fun z => (z, 1)) zs).
Proof. induction zs as [|z zs IH]; cbn; [reflexivity|]. rewrite IH. reflexivity. Qed.

(* ---------- the overflow tests of the fixnum + - * ---------- *)
(* the division test of * : the wrapped product divided by one factor gives back the other one exactly
   when nothing was lost, except for -1 * most-negative-fixnum, which the code tests separately *)
Lemma wrap64_k z : exists k, wrap64 z = z + k * (2 * two63) /\ (in64 z = true -> k = 0) /\ - two63 <= wrap64 z < two63.
Proof.
  exists (- ((z + two63) / (2 * two63))). unfold wrap64.
  pose proof (Z.div_mod (z + two63) (2 * two63) ltac:(unfold two63; lia)) as E.
  pose proof (Z.mod_pos_bound (z + two63) (2 * two63) ltac:(unfold two63; lia)) as B.
  remember ((z + two63) / (2 * two63)) as q. remember ((z + two63) mod (2 * two63)) as r. clear Heqq Heqr.
  split; [lia|]. split; [|lia]. intros H. apply in64_spec in H. unfold two63 in *. lia.
Qed.
Lemma not_in64 z : in64 z = false -> z < - two63 \/ two63 <= z.
Proof.
  intros H. destruct (Z.lt_ge_cases z (- two63)); [left; assumption|].
  destruct (Z.lt_ge_cases z two63); [|right; assumption].
  assert (in64 z = true) by (apply in64_spec; lia). congruence.
Qed.
Lemma add_fix_spec a b : in64 a = true -> in64 b = true ->
  add_fix a b = if in64 (a + b) then VFix (a + b) else VBig (a + b).
Proof.
  intros Ha Hb. apply in64_spec in Ha, Hb. unfold add_fix. cbv zeta.
  destruct (wrap64_k (a + b)) as (k & Ek & Hk & Bw).
  destruct (in64 (a + b)) eqn:Hin.
  - rewrite (wrap64_id _ Hin). apply in64_spec in Hin.
    destruct (Z.ltb_spec a 0), (Z.ltb_spec b 0), (Z.ltb_spec (a + b) 0); cbn; try reflexivity; unfold two63 in *; lia.
  - apply not_in64 in Hin. remember (wrap64 (a + b)) as w. clear Heqw Hk.
    destruct (Z.ltb_spec a 0), (Z.ltb_spec b 0), (Z.ltb_spec w 0); cbn; try reflexivity; exfalso; unfold two63 in *; lia.
Qed.
Lemma sub_fix_spec a b : in64 a = true -> in64 b = true ->
  sub_fix a b = if in64 (a - b) then VFix (a - b) else VBig (a - b).
Proof.
  intros Ha Hb. apply in64_spec in Ha, Hb. unfold sub_fix. cbv zeta.
  destruct (wrap64_k (a - b)) as (k & Ek & Hk & Bw).
  destruct (in64 (a - b)) eqn:Hin.
  - rewrite (wrap64_id _ Hin). apply in64_spec in Hin.
    destruct (Z.ltb_spec a 0), (Z.ltb_spec b 0), (Z.ltb_spec (a - b) 0); cbn; try reflexivity; unfold two63 in *; lia.
  - apply not_in64 in Hin. remember (wrap64 (a - b)) as w. clear Heqw Hk.
    destruct (Z.ltb_spec a 0), (Z.ltb_spec b 0), (Z.ltb_spec w 0); cbn; try reflexivity; exfalso; unfold two63 in *; lia.
Qed.
Lemma mul_fix_spec a b : in64 a = true -> in64 b = true ->
  mul_fix a b = if in64 (a * b) then VFix (a * b) else VBig (a * b).
Proof.
  intros Ha Hb. unfold mul_fix. cbv zeta.
  destruct (wrap64_k (a * b)) as (k & Ek & Hk & Bw).
  destruct (Z.eqb_spec a 0) as [->|Hnz]; cbn [negb andb].
  - cbn. reflexivity.
  - destruct (in64 (a * b)) eqn:Hin.
    + rewrite (wrap64_id _ Hin). unfold gquot.
      apply in64_spec in Ha, Hb.
      rewrite (Z.mul_comm a b), Z.quot_mul by exact Hnz.
      destruct ((a =? -1) && (b =? - two63)) eqn:Hm.
      * apply andb_true_iff in Hm as [H1 H2]. apply Z.eqb_eq in H1, H2. subst. discriminate Hin.
      * rewrite (wrap64_id b) by (apply in64_spec; exact Hb). rewrite Z.eqb_refl. reflexivity.
    + destruct ((a =? -1) && (b =? - two63)) eqn:Hm; [rewrite orb_true_r; reflexivity|].
      rewrite orb_false_r.
      assert (Hne : gquot (wrap64 (a * b)) a <> b); [|apply Z.eqb_neq in Hne; rewrite Hne; reflexivity].
      unfold gquot. intros Hq.
      assert (Hk0 : k <> 0).
      { intros ->. rewrite Z.mul_0_l, Z.add_0_r in Ek. rewrite Ek in Bw. apply (proj2 (in64_spec _)) in Bw. congruence. }
      apply in64_spec in Ha, Hb.
      assert (Ha2 : 2 <= Z.abs a).
      { destruct (Z.eq_dec a 1) as [->|]; [rewrite Z.mul_1_l in Hin; apply (proj2 (in64_spec _)) in Hb; congruence|].
        destruct (Z.eq_dec a (-1)) as [->|]; [|lia].
        cbn [Z.eqb andb] in Hm. change (-1 =? -1) with true in Hm. cbn [andb] in Hm. apply Z.eqb_neq in Hm.
        assert (in64 (-1 * b) = true) by (apply in64_spec; unfold two63 in *; lia). congruence. }
      pose proof (Z.quot_rem' (wrap64 (a * b)) a) as QR. pose proof (Z.rem_bound_abs (wrap64 (a * b)) a Hnz) as RB.
      pose proof (Z.quot_abs (wrap64 (a * b)) a Hnz) as QA.
      pose proof (Z.mul_quot_le (Z.abs (wrap64 (a * b))) (Z.abs a) (Z.abs_nonneg _) ltac:(lia)) as ML.
      rewrite QA in ML.
      remember (Z.quot (wrap64 (a * b)) a) as q. remember (Z.rem (wrap64 (a * b)) a) as r. clear Heqq Heqr QA.
      assert (Iq : in64 q = true) by (apply in64_spec; unfold two63 in *; nia).
      rewrite (wrap64_id _ Iq) in Hq. subst q.
      rewrite Ek in QR. clear ML Iq Hin Hm Hk Bw Ek. unfold two63 in *. lia.
Qed.

(* ---------- + - * on integers: fixnum accumulator until a prefix result leaves int64, bignum afterwards ---------- *)
Definition intv (v : val) : bool := match v with VFix z => in64 z | VBig _ => true | _ => false end.
Lemma all_int_denotes' args : all_int args = true ->
  denotes args = Some (map (fun z => (z, 1)) (fixes args)).
Proof.
  unfold all_int, fixes. induction args as [|v args IH]; cbn; [reflexivity|].
  rewrite andb_true_iff. intros [Hv Hr]. rewrite (IH Hr). destruct v; try discriminate; reflexivity.
Qed.
Lemma prefixes_total f zs : forall a, in64 a = true -> prefixes_in64 f a zs = true -> in64 (fold_left f zs a) = true.
Proof.
  induction zs as [|z zs IH]; intros a Ha H; cbn in *; [exact Ha|].
  apply andb_true_iff in H as [H1 H2]. apply IH; assumption.
Qed.

Section Folds.
  Variable f : Z -> Z -> Z.
  Variable step : val -> val -> val.
  Variable qf : Z * Z -> Z * Z -> Z * Z.
  Hypothesis step_int : forall acc x, intv acc = true -> intv x = true ->
    step acc x = if is_fix acc && is_fix x && in64 (f (as_int acc) (as_int x))
                 then VFix (f (as_int acc) (as_int x)) else VBig (f (as_int acc) (as_int x)).
  Hypothesis qf_int : forall a z, qf (a, 1) (z, 1) = (f a z, 1).

  Lemma fold_int rest : forall acc, intv acc = true -> all_int rest = true ->
    fold_left step rest acc =
      (if is_fix acc && all_fix rest && prefixes_in64 f (as_int acc) (fixes rest) then VFix else VBig)
        (fold_left f (fixes rest) (as_int acc)).
  Proof.
    induction rest as [|x rest IH]; intros acc Ha Hr.
    - cbn. destruct acc; try discriminate; reflexivity.
    - cbn [all_int forallb] in Hr. apply andb_true_iff in Hr as [Hx Hr].
      assert (Ix : intv x = true) by (destruct x; try discriminate; exact Hx).
      cbn [fold_left fixes map]. rewrite (step_int acc x Ha Ix).
      destruct (is_fix acc && is_fix x && in64 (f (as_int acc) (as_int x))) eqn:C.
      + apply andb_true_iff in C as [C C3]. apply andb_true_iff in C as [C1 C2].
        rewrite (IH (VFix (f (as_int acc) (as_int x))) C3 Hr). cbn [is_fix as_int andb].
        rewrite C1. cbn [andb]. unfold all_fix. cbn [forallb].
        destruct x; try discriminate. cbn [as_int] in *. cbn in Hx. rewrite Hx. cbn [andb prefixes_in64].
        rewrite C3. cbn [andb]. reflexivity.
      + rewrite (IH (VBig (f (as_int acc) (as_int x))) eq_refl Hr). cbn [is_fix as_int andb].
        replace (is_fix acc && all_fix (x :: rest) && prefixes_in64 f (as_int acc) (as_int x :: map as_int rest)) with false; [reflexivity|].
        symmetry. unfold all_fix. cbn [forallb prefixes_in64].
        destruct (is_fix acc); [|reflexivity]. destruct x; try discriminate; cbn [is_fix as_int andb] in *; [|reflexivity].
        cbn in Hx. rewrite Hx. cbn [andb]. rewrite C. cbn [andb]. apply andb_false_r.
  Qed.
  Lemma fold_q zs : forall a, fold_left qf (map (fun z => (z, 1)) zs) (a, 1) = (fold_left f zs a, 1).
  Proof. induction zs as [|z zs IH]; intros a; cbn; [reflexivity|]. rewrite qf_int. apply IH. Qed.

  (* inside fold_domain the model's fold is the canonical form of the exact fold *)
  Lemma fold_canon acc rest : intv acc = true -> fold_domain f (as_int acc) (is_fix acc) rest = true ->
    fold_left step rest acc = canon_int (fold_left f (fixes rest) (as_int acc)).
  Proof.
    intros Ha Hd. unfold fold_domain in Hd. apply andb_true_iff in Hd as [Hr Hc].
    rewrite (fold_int rest acc Ha Hr).
    destruct (is_fix acc && all_fix rest && prefixes_in64 f (as_int acc) (fixes rest)) eqn:C.
    - apply andb_true_iff in C as [C C3]. apply andb_true_iff in C as [C1 C2].
      symmetry. apply canon_int_fix. apply prefixes_total; [|exact C3]. destruct acc; try discriminate; exact Ha.
    - cbn [orb] in Hc. replace (is_fix acc && all_fix rest && prefixes_in64 f (as_int acc) (fixes rest)) with false in Hc.
      cbn [orb] in Hc. apply negb_true_iff in Hc. unfold canon_int. rewrite Hc. reflexivity.
  Qed.
End Folds.

Lemma add2_int acc x : intv acc = true -> intv x = true ->
  add2 acc x = if is_fix acc && is_fix x && in64 (as_int acc + as_int x)
               then VFix (as_int acc + as_int x) else VBig (as_int acc + as_int x).
Proof.
  intros Ha Hx. destruct acc as [a|a| |], x as [z|z| |]; try discriminate; cbn [add2 norm_kind as_int is_fix andb].
  - rewrite (add_fix_spec z a Hx Ha), (Z.add_comm z a). reflexivity.
  - f_equal. lia.
  - f_equal. lia.
  - f_equal. lia.
Qed.
Lemma mul2_int acc x : intv acc = true -> intv x = true ->
  mul2 acc x = if is_fix acc && is_fix x && in64 (as_int acc * as_int x)
               then VFix (as_int acc * as_int x) else VBig (as_int acc * as_int x).
Proof.
  intros Ha Hx. destruct acc as [a|a| |], x as [z|z| |]; try discriminate; cbn [mul2 norm_kind as_int is_fix andb].
  - rewrite (mul_fix_spec z a Hx Ha), (Z.mul_comm z a). reflexivity.
  - f_equal. lia.
  - f_equal. lia.
  - f_equal. lia.
Qed.
Lemma sub2_int acc x : intv acc = true -> intv x = true ->
  sub2 acc x = if is_fix acc && is_fix x && in64 (as_int acc - as_int x)
               then VFix (as_int acc - as_int x) else VBig (as_int acc - as_int x).
Proof.
  intros Ha Hx. destruct acc as [a|a| |], x as [z|z| |]; try discriminate; cbn [sub2 norm_kind as_int is_fix andb]; try reflexivity.
  apply (sub_fix_spec a z Ha Hx).
Qed.
Lemma qadd_int a z : qadd (a, 1) (z, 1) = (a + z, 1).
Proof. unfold qadd; cbn. f_equal; lia. Qed.
Lemma qmul_int a z : qmul (a, 1) (z, 1) = (a * z, 1).
Proof. unfold qmul; cbn. f_equal; lia. Qed.
Lemma qsub_int a z : qsub (a, 1) (z, 1) = (a - z, 1).
Proof. unfold qsub; cbn. f_equal; lia. Qed.

Lemma fixes_map zs : fixes (map VFix zs) = zs.
Proof. unfold fixes. rewrite map_map. cbn. apply map_id. Qed.

(* reduce a goal about fixnum operands to one about the list of their values *)
Ltac fix_operands args Hf zs Hin :=
  let H := fresh in
  destruct (all_fix_spec args Hf) as [H Hin];
  remember (fixes args) as zs; rewrite H in *; rewrite ?fixes_map in *; clear H.

Lemma fold_domain_int f a b rest : fold_domain f a b rest = true -> all_int rest = true.
Proof. unfold fold_domain. intros H. apply andb_true_iff in H as [H _]. exact H. Qed.

Lemma add_exact args : in_domain OAdd args = true -> s_out OAdd args = Some (m_op OAdd args).
Proof.
  cbn [in_domain]. intros Hd. unfold s_out. rewrite (all_int_denotes' _ (fold_domain_int _ _ _ _ Hd)).
  cbn [m_op s_op]. unfold m_add. f_equal. f_equal. f_equal.
  rewrite (fold_q Z.add qadd qadd_int). cbn [fst snd]. rewrite canon_one.
  symmetry. apply (fold_canon Z.add add2 add2_int (VFix 0) args eq_refl Hd).
Qed.
Lemma mul_exact args : in_domain OMul args = true -> s_out OMul args = Some (m_op OMul args).
Proof.
  cbn [in_domain]. intros Hd. unfold s_out. rewrite (all_int_denotes' _ (fold_domain_int _ _ _ _ Hd)).
  cbn [m_op s_op]. unfold m_mul. f_equal. f_equal. f_equal.
  rewrite (fold_q Z.mul qmul qmul_int). cbn [fst snd]. rewrite canon_one.
  symmetry. apply (fold_canon Z.mul mul2 mul2_int (VFix 1) args eq_refl Hd).
Qed.

Lemma neg_min : - - two63 = two63. Proof. reflexivity. Qed.
Lemma sub_exact args : in_domain OSub args = true -> s_out OSub args = Some (m_op OSub args).
Proof.
  cbn [in_domain]. intros Hd.
  assert (Many : forall a rest, rest <> [] -> intv a = true -> fold_domain Z.sub (as_int a) (is_fix a) rest = true ->
            s_out OSub (a :: rest) = Some (m_op OSub (a :: rest))).
  { intros a rest Hne Ia Hf. unfold s_out. cbn [denotes].
    rewrite (all_int_denotes' _ (fold_domain_int _ _ _ _ Hf)).
    assert (Da : denote a = Some (as_int a, 1)) by (destruct a; try discriminate; reflexivity). rewrite Da.
    cbn [m_op]. unfold m_sub. destruct rest as [|b rest]; [congruence|].
    change (map (fun z => (z, 1)) (fixes (b :: rest))) with ((as_int b, 1) :: map (fun z => (z, 1)) (fixes rest)).
    cbn [s_op]. change ((as_int b, 1) :: map (fun z => (z, 1)) (fixes rest)) with (map (fun z : Z => (z, 1)) (fixes (b :: rest))).
    rewrite (fold_q Z.sub qsub qsub_int). cbn [fst snd]. rewrite canon_one.
    rewrite (fold_canon Z.sub sub2 sub2_int a (b :: rest) Ia Hf). reflexivity. }
  destruct args as [|[a|a| |] [|b rest]]; try discriminate.
  - (* unary, fixnum *)
    unfold s_out. cbn [denotes denote m_op m_sub neg1 s_op fst snd]. rewrite canon_one. f_equal. f_equal. f_equal.
    destruct (Z.eqb_spec a (- two63)) as [->|Hne]; [reflexivity|].
    apply in64_spec in Hd. assert (I : in64 (- a) = true) by (apply in64_spec; unfold two63 in *; lia).
    rewrite (wrap64_id _ I), (canon_int_fix _ I). reflexivity.
  - apply andb_true_iff in Hd as [Ha Hf]. apply Many; [discriminate|exact Ha|exact Hf].
  - unfold s_out. cbn [denotes denote m_op m_sub neg1 s_op fst snd]. rewrite canon_one. f_equal. f_equal. f_equal.
    unfold canon_int. apply negb_true_iff in Hd. rewrite Hd. reflexivity.
  - apply Many; [discriminate|reflexivity|exact Hd].
Qed.

Lemma inc_exact args : in_domain OInc args = true -> s_out OInc args = Some (m_op OInc args).
Proof.
  cbn [in_domain]. destruct args as [|[a|a| |] [|? ?]]; try discriminate; intros Hd;
    unfold s_out; cbn [denotes denote m_op m_inc s_op fst snd]; rewrite canon_one; f_equal; f_equal; f_equal.
  - change (1 =? 1) with true. cbv iota.
    destruct (Z.eqb_spec a (two63 - 1)) as [->|Hne]; [reflexivity|].
    apply in64_spec in Hd. assert (I : in64 (a + 1) = true) by (apply in64_spec; unfold two63 in *; lia).
    rewrite (wrap64_id _ I), (canon_int_fix _ I). reflexivity.
  - unfold canon_int. apply negb_true_iff in Hd. rewrite Hd. reflexivity.
Qed.
Lemma dec_exact args : in_domain ODec args = true -> s_out ODec args = Some (m_op ODec args).
Proof.
  cbn [in_domain]. destruct args as [|[a|a| |] [|? ?]]; try discriminate; intros Hd;
    unfold s_out; cbn [denotes denote m_op m_inc s_op fst snd]; rewrite canon_one; f_equal; f_equal; f_equal;
    replace (a + -1) with (a - 1) by lia.
  - change (-1 =? 1) with false. cbv iota.
    destruct (Z.eqb_spec a (- two63)) as [->|Hne]; [reflexivity|].
    apply in64_spec in Hd. assert (I : in64 (a - 1) = true) by (apply in64_spec; unfold two63 in *; lia).
    rewrite (wrap64_id _ I), (canon_int_fix _ I). reflexivity.
  - unfold canon_int. apply negb_true_iff in Hd. rewrite Hd. reflexivity.
Qed.
Lemma abs_exact args : in_domain OAbs args = true -> s_out OAbs args = Some (m_op OAbs args).
Proof.
  cbn [in_domain]. destruct args as [|[a|a| |] [|? ?]]; try discriminate; intros Hd;
    unfold s_out; cbn [denotes denote m_op m_abs s_op fst snd]; rewrite canon_one; f_equal; f_equal; f_equal.
  - destruct (Z.eqb_spec a (- two63)) as [->|Hne]; [reflexivity|].
    apply in64_spec in Hd. assert (I : in64 (Z.abs a) = true) by (apply in64_spec; unfold two63 in *; lia).
    rewrite (canon_int_fix _ I). f_equal.
    destruct (Z.ltb_spec a 0).
    + replace (Z.abs a) with (- a) in * by lia. symmetry. apply wrap64_id, I.
    + lia.
  - unfold canon_int. apply negb_true_iff in Hd. rewrite Hd. reflexivity.
Qed.

(* ---------- mod rem ---------- *)
Lemma rem_exact args : in_domain ORem args = true -> s_out ORem args = Some (m_op ORem args).
Proof.
  cbn [in_domain]. rewrite andb_true_iff. intros [Hf Hp]. fix_operands args Hf zs Hin.
  destruct zs as [|n [|d [|? ?]]]; try discriminate. cbn [map s_out denotes denote m_op m_rem s_op norm_kind as_int].
  cbn in Hin. apply andb_true_iff in Hin as [Hn Hd']. apply andb_true_iff in Hd' as [Hd _].
  clear Hp. destruct (d =? 0) eqn:Hp; [reflexivity|]. unfold grem. f_equal. f_equal. f_equal.
  apply canon_int_fix. apply in64_spec in Hn, Hd. apply in64_spec. unfold two63 in *. apply Z.eqb_neq in Hp. clear Hf Heqzs. lia.
Qed.
Lemma mod_exact args : in_domain OMod args = true -> s_out OMod args = Some (m_op OMod args).
Proof.
  cbn [in_domain]. rewrite andb_true_iff. intros [Hf Hp]. fix_operands args Hf zs Hin.
  destruct zs as [|n [|d [|? ?]]]; try discriminate. cbn [map s_out denotes denote m_op m_mod s_op norm_kind as_int].
  cbn in Hin. apply andb_true_iff in Hin as [Hn Hd']. apply andb_true_iff in Hd' as [Hd _].
  apply negb_true_iff in Hp. rewrite Hp. unfold grem. f_equal. f_equal. f_equal.
  apply in64_spec in Hn, Hd. apply Z.eqb_neq in Hp. clear Hf Heqzs.
  assert (Hm : in64 (n mod d) = true) by (apply in64_spec; unfold two63 in *; lia).
  rewrite (canon_int_fix _ Hm). f_equal.
  destruct ((0 <? d) && (Z.rem n d <? 0) || (d <? 0) && (0 <? Z.rem n d)) eqn:E.
  - assert (n mod d = Z.rem n d + d) as ->.
    { symmetry. apply (Z.mod_unique n d (Z.quot n d - 1)).
      - lia.
      - pose proof (Z.quot_rem' n d). rewrite Z.mul_sub_distr_l. lia. }
    symmetry. apply wrap64_id. apply in64_spec. unfold two63 in *. lia.
  - symmetry. apply (Z.mod_unique n d (Z.quot n d)).
    + lia.
    + apply Z.quot_rem'.
Qed.

(* ---------- truncate floor ceiling on fixnums ---------- *)
Lemma quot_facts n d : d <> 0 -> - two63 <= n < two63 -> - two63 <= d < two63 ->
  n = d * Z.quot n d + Z.rem n d /\ in64 (Z.quot n d * d) = true /\ in64 (n - Z.quot n d * d) = true /\
  n - Z.quot n d * d = Z.rem n d.
Proof.
  intros Hd Hn Hdd. pose proof (Z.quot_rem' n d) as E. unfold two63 in *.
  assert (R : n - Z.quot n d * d = Z.rem n d) by lia.
  repeat split; try exact E; try exact R.
  - apply in64_spec. unfold two63. lia.
  - rewrite R. apply in64_spec. unfold two63. lia.
Qed.

Lemma quot_in64 n d : - two63 <= n < two63 -> - two63 <= d < two63 -> d <> 0 ->
  (n =? - two63) && (d =? -1) = false -> in64 (Z.quot n d) = true.
Proof.
  intros Hn Hd Hnz Hm. apply in64_spec.
  pose proof (Z.quot_abs n d Hnz) as QA.
  pose proof (Z.mul_quot_le (Z.abs n) (Z.abs d) (Z.abs_nonneg _) ltac:(lia)) as ML. rewrite QA in ML.
  destruct (Z.eq_dec d (-1)) as [->|Hd1].
  - change (-1) with (- (1)). rewrite Z.quot_opp_r, Z.quot_1_r by lia.
    rewrite andb_false_iff in Hm. destruct Hm as [Hm|Hm]; [apply Z.eqb_neq in Hm; lia|discriminate].
  - destruct (Z.eq_dec d 1) as [->|Hd2]; [rewrite Z.quot_1_r; exact Hn|].
    clear Hm QA. remember (Z.quot n d) as q. clear Heqq.
    assert (2 * Z.abs q <= Z.abs n).
    { apply Z.le_trans with (Z.abs d * Z.abs q); [apply Z.mul_le_mono_nonneg_r; lia|apply ML]. }
    unfold two63 in *. lia.
Qed.

Ltac round_setup args Hf Hp zs Hin n d Hn Hd Hnz Hq Hm :=
  cbn [in_domain] in *; apply andb_true_iff in Hp as [Hf Hp]; fix_operands args Hf zs Hin;
  destruct zs as [|n [|d [|? ?]]]; try discriminate;
  destruct (d =? 0) eqn:Hnz; [apply Z.eqb_eq in Hnz; subst d; reflexivity|];
  cbn [orb] in Hp;
  destruct ((n =? - two63) && (d =? -1)) eqn:Hq;
  [apply andb_true_iff in Hq as [Hq Hm]; apply Z.eqb_eq in Hq, Hm; subst n d; vm_compute; reflexivity|];
  cbn [orb] in Hp; pose proof Hp as Hm;
  cbn in Hin; apply andb_true_iff in Hin as [Hn Hin]; apply andb_true_iff in Hin as [Hd _];
  cbn [map s_out denotes denote m_op m_round s_op norm_kind as_int];
  rewrite Hnz; unfold round_fix; rewrite Hnz, Hq;
  apply in64_spec in Hn, Hd; apply Z.eqb_neq in Hnz;
  apply (quot_in64 n d Hn Hd Hnz) in Hq;
  unfold gquot; rewrite (wrap64_id _ Hq);
  clear Hf.

Lemma truncate_exact args : in_domain (ORound Truncate) args = true ->
  s_out (ORound Truncate) args = Some (m_op (ORound Truncate) args).
Proof.
  intros Hp. round_setup args Hf Hp zs Hin n d Hn Hd Hnz Hq Hm.
  destruct (quot_facts n d Hnz Hn Hd) as (E & H1 & H2 & R).
  rewrite (wrap64_id _ H1), (wrap64_id _ H2). cbn [s_quot]. rewrite (canon_int_fix _ Hq), (canon_int_fix _ H2). reflexivity.
Qed.

Lemma floor_exact args : in_domain (ORound Floor) args = true ->
  s_out (ORound Floor) args = Some (m_op (ORound Floor) args).
Proof.
  intros Hp. round_setup args Hf Hp zs Hin n d Hn Hd Hnz Hq Hm.
  destruct (quot_facts n d Hnz Hn Hd) as (E & H1 & H2 & R).
  rewrite (wrap64_id _ H1), (wrap64_id _ H2), R. cbn [s_quot].
  assert (Hrb : - two63 <= Z.rem n d < two63) by (unfold two63 in *; lia).
  apply in64_spec in Hq.
  destruct (Z.ltb_spec 0 d) as [Hpos|Hneg].
  - destruct (Z.ltb_spec (Z.rem n d) 0) as [Hr|Hr].
    + assert (Eq : n / d = Z.quot n d - 1).
      { symmetry. apply (Z.div_unique n d (Z.quot n d - 1) (Z.rem n d + d)); [unfold two63 in *; lia|]. rewrite Z.mul_sub_distr_l. lia. }
      rewrite Eq.
      assert (I1 : in64 (Z.quot n d - 1) = true) by (apply in64_spec; unfold two63 in *; nia).
      assert (I2 : in64 (Z.rem n d + d) = true) by (apply in64_spec; unfold two63 in *; lia).
      rewrite (wrap64_id _ I1), (wrap64_id _ I2), (canon_int_fix _ I1).
      replace (n - (Z.quot n d - 1) * d) with (Z.rem n d + d) by (rewrite Z.mul_sub_distr_r; lia).
      rewrite (canon_int_fix _ I2). reflexivity.
    + assert (Eq : n / d = Z.quot n d).
      { symmetry. apply (Z.div_unique n d (Z.quot n d) (Z.rem n d)); [unfold two63 in *; lia|exact E]. }
      rewrite Eq. assert (I1 : in64 (Z.quot n d) = true) by (apply in64_spec; exact Hq).
      rewrite (canon_int_fix _ I1), R, (canon_int_fix (Z.rem n d)); [reflexivity|apply in64_spec; exact Hrb].
  - (* negative divisor: the guard requires an exact division *)
    cbn [orb] in Hm. apply Z.eqb_eq in Hm.
    rewrite Hm. cbn [Z.ltb Z.compare].
    assert (Eq : n / d = Z.quot n d).
    { symmetry. apply (Z.div_unique n d (Z.quot n d) 0); [lia|lia]. }
    rewrite Eq. assert (I1 : in64 (Z.quot n d) = true) by (apply in64_spec; exact Hq).
    rewrite (canon_int_fix _ I1). rewrite R, Hm. reflexivity.
Qed.

Lemma ceiling_exact args : in_domain (ORound Ceiling) args = true ->
  s_out (ORound Ceiling) args = Some (m_op (ORound Ceiling) args).
Proof.
  intros Hp. round_setup args Hf Hp zs Hin n d Hn Hd Hnz Hq Hm.
  destruct (quot_facts n d Hnz Hn Hd) as (E & H1 & H2 & R).
  rewrite (wrap64_id _ H1), (wrap64_id _ H2), R. cbn [s_quot].
  assert (Hrb : - two63 <= Z.rem n d < two63) by (unfold two63 in *; lia).
  apply in64_spec in Hq.
  (* the two cases of the code: round up (q+1, r-d) or keep (q, r) *)
  assert (Up : (0 < d /\ 0 < Z.rem n d) \/ (d < 0 /\ Z.rem n d < 0) ->
               - (- n / d) = Z.quot n d + 1 /\ in64 (Z.quot n d + 1) = true /\ in64 (Z.rem n d - d) = true).
  { intros Hc. split; [|split].
    - assert (- n / d = - (Z.quot n d + 1)); [|lia].
      symmetry. apply (Z.div_unique (- n) d (- (Z.quot n d + 1)) (d - Z.rem n d)); [unfold two63 in *; lia|].
      rewrite Z.mul_opp_r, Z.mul_add_distr_l. lia.
    - apply in64_spec. unfold two63 in *. nia.
    - apply in64_spec. unfold two63 in *. lia. }
  assert (Keep : (0 < d /\ Z.rem n d <= 0) \/ (d < 0 /\ 0 <= Z.rem n d) -> - (- n / d) = Z.quot n d).
  { intros Hc. assert (- n / d = - Z.quot n d); [|lia].
    symmetry. apply (Z.div_unique (- n) d (- Z.quot n d) (- Z.rem n d)); [unfold two63 in *; lia|].
    rewrite Z.mul_opp_r. lia. }
  assert (I0 : in64 (Z.quot n d) = true) by (apply in64_spec; exact Hq).
  assert (Ir : in64 (Z.rem n d) = true) by (apply in64_spec; exact Hrb).
  destruct (Z.ltb_spec 0 d) as [Hpos|Hneg].
  - destruct (Z.ltb_spec 0 (Z.rem n d)) as [Hr|Hr].
    + destruct Up as (Eq & I1 & I2); [left; lia|]. rewrite Eq, (wrap64_id _ I1), (wrap64_id _ I2), (canon_int_fix _ I1).
      replace (n - (Z.quot n d + 1) * d) with (Z.rem n d - d) by (rewrite Z.mul_add_distr_r; lia).
      rewrite (canon_int_fix _ I2). reflexivity.
    + rewrite Keep by (left; lia). rewrite (canon_int_fix _ I0), R, (canon_int_fix _ Ir). reflexivity.
  - destruct (Z.ltb_spec (Z.rem n d) 0) as [Hr|Hr].
    + destruct Up as (Eq & I1 & I2); [right; lia|]. rewrite Eq, (wrap64_id _ I1), (wrap64_id _ I2), (canon_int_fix _ I1).
      replace (n - (Z.quot n d + 1) * d) with (Z.rem n d - d) by (rewrite Z.mul_add_distr_r; lia).
      rewrite (canon_int_fix _ I2). reflexivity.
    + rewrite Keep by (right; lia). rewrite (canon_int_fix _ I0), R, (canon_int_fix _ Ir). reflexivity.
Qed.

(* ---------- comparisons: exactly one of <, =, > ---------- *)
Lemma denote_canonical v : canonical v = true -> exists n d, denote v = Some (n, d) /\ 0 < d /\ as_num v = n /\ as_den v = d.
Proof.
  destruct v as [z|z|n d|]; cbn; try discriminate; intros H.
  - exists z, 1. repeat split; lia.
  - exists z, 1. repeat split; lia.
  - exists n, d. apply andb_true_iff in H as [H _]. repeat split; lia.
Qed.

(* on every pair that does not go through floats the code compares the exact values *)
Lemma cmp_pair_exact c a b na da nb db :
  inexact_pair a b = false -> denote a = Some (na, da) -> denote b = Some (nb, db) ->
  as_num a = na -> as_den a = da -> as_num b = nb -> as_den b = db ->
  cmp_pair c a b = Some (cmp_z c (na * db) (nb * da)).
Proof.
  unfold inexact_pair, cmp_pair. intros Hk Ha Hb <- <- <- <-.
  destruct a as [x|x|x y|], b as [u|u|u w|]; try discriminate; cbn in Ha, Hb |- *;
    try (injection Ha as <- <-); try (injection Hb as <- <-); cbn; rewrite ?Z.mul_1_r; try reflexivity.
  - cbn in Hk. destruct (fits64 x); [cbn; rewrite ?Z.mul_1_r; reflexivity|discriminate].
  - cbn in Hk. destruct (fits64 u); [cbn; rewrite ?Z.mul_1_r; reflexivity|discriminate].
Qed.

Definition rel_of (c : cmp) : Z * Z -> Z * Z -> bool :=
  match c with
  | CLt => qlt | CLe => fun x y => negb (qlt y x) | CGt => fun x y => qlt y x
  | CGe => fun x y => negb (qlt x y) | CEq => qeq end.
Lemma cmp_z_rel c a b : cmp_z c (fst a * snd b) (fst b * snd a) = rel_of c a b.
Proof. destruct c; unfold rel_of, qlt, qeq, cmp_z; try reflexivity; lia. Qed.

Lemma chain_exact c : c <> CEq -> forall rest a qa qs,
  canonical a = true -> forallb canonical rest = true ->
  (fix go a rest := match rest with [] => true | b :: rest' => negb (inexact_pair a b) && go b rest' end) a rest = true ->
  denote a = Some qa -> denotes rest = Some qs ->
  cmp_chain c a rest = RBool (s_chain (rel_of c) qa qs).
Proof.
  intros Hc. induction rest as [|b rest IH]; intros a qa qs Ca Cr Hp Ha Hr.
  - cbn in Hr. injection Hr as <-. reflexivity.
  - cbn [forallb] in Cr. apply andb_true_iff in Cr as [Cb Cr]. apply andb_true_iff in Hp as [Hab Hp].
    apply negb_true_iff in Hab. cbn [denotes] in Hr.
    destruct (denote_canonical a Ca) as (na & da & Da & Pa & Na & Dna).
    destruct (denote_canonical b Cb) as (nb & db & Db & Pb & Nb & Dnb).
    rewrite Db in Hr. destruct (denotes rest) as [qr|] eqn:Er; [|discriminate]. injection Hr as <-.
    rewrite Da in Ha. injection Ha as <-.
    cbn [cmp_chain s_chain]. rewrite (cmp_pair_exact c a b na da nb db Hab Da Db Na Dna Nb Dnb).
    change (na * db) with (fst (na, da) * snd (nb, db)). change (nb * da) with (fst (nb, db) * snd (na, da)).
    rewrite cmp_z_rel. destruct (rel_of c (na, da) (nb, db)); [|reflexivity].
    cbn [andb]. apply IH; assumption || reflexivity.
Qed.

Lemma cmp_exact c args : c <> CEq -> in_domain (OCmp c) args = true -> s_out (OCmp c) args = Some (m_op (OCmp c) args).
Proof.
  intros Hc. cbn [in_domain]. rewrite andb_true_iff. intros [Hl Hp]. unfold exact_pairs in Hp. apply andb_true_iff in Hp as [Hp Hcan].
  destruct args as [|a rest]; [discriminate|]. cbn [hd tl forallb] in *. apply andb_true_iff in Hcan as [Ca Cr].
  destruct (denote_canonical a Ca) as (na & da & Da & _).
  assert (exists qs, denotes rest = Some qs) as [qs Hqs].
  { clear - Cr. induction rest as [|b rest IH]; [exists []; reflexivity|]. cbn in Cr. apply andb_true_iff in Cr as [Cb Cr].
    destruct (denote_canonical b Cb) as (nb & db & Db & _). destruct (IH Cr) as [qs Hq]. exists ((nb, db) :: qs). cbn. rewrite Db, Hq. reflexivity. }
  unfold s_out. cbn [denotes]. rewrite Da, Hqs. cbn [m_op]. unfold m_cmp. f_equal. f_equal.
  assert (Hm : match c with CEq => match rev (a :: rest) with [] => RCond CArith | t :: more => eq_chain t more end
                          | _ => cmp_chain c a rest end = cmp_chain c a rest) by (destruct c; congruence).
  rewrite Hm. rewrite (chain_exact c Hc rest a (na, da) qs Ca Cr Hp Da Hqs).
  cbn [s_op]. destruct c; try congruence; reflexivity.
Qed.

(* trichotomy on exact operands: exactly one of <, =, > *)
Theorem trichotomy a b : canonical a = true -> canonical b = true -> inexact_pair a b = false ->
  exists lt eq gt, cmp_pair CLt a b = Some lt /\ cmp_pair CEq a b = Some eq /\ cmp_pair CGt a b = Some gt /\
  ((lt = true /\ eq = false /\ gt = false) \/ (lt = false /\ eq = true /\ gt = false) \/ (lt = false /\ eq = false /\ gt = true)).
Proof.
  intros Ca Cb Hk.
  destruct (denote_canonical a Ca) as (na & da & Da & Pa & Na & Dna).
  destruct (denote_canonical b Cb) as (nb & db & Db & Pb & Nb & Dnb).
  rewrite !(cmp_pair_exact _ a b na da nb db Hk Da Db Na Dna Nb Dnb).
  do 3 eexists. repeat split. unfold cmp_z. lia.
Qed.

(* the guarded theorem over all operations is assembled in ProofsAll.v *)

(* ---------- refutations outside the guard (the faithful model against S): known findings ---------- *)
Definition B := 100000000000000000000.
Definition refuted (o : opn) (args : list val) : bool :=
  match s_out o args with
  | Some so => negb (match o_res so, o_res (m_op o args) with
                     | RVal x, RVal y => match x, y with
                                         | VFix a, VFix b | VBig a, VBig b => a =? b
                                         | VRat a b, VRat a' b' => (a =? a') && (b =? b')
                                         | _, _ => false end
                     | RVals x1 x2, RVals y1 y2 => match x1, y1, x2, y2 with
                                                   | VFix a, VFix b, VFix c, VFix d => (a =? b) && (c =? d)
                                                   | VBig a, VBig b, VBig c, VBig d => (a =? b) && (c =? d)
                                                   | _, _, _, _ => false end
                     | RBool x, RBool y => Bool.eqb x y
                     | RCond CDivZero, RCond CDivZero => true
                     | _, _ => false end
                 && (fix eq l1 l2 := match l1, l2 with
                                     | [], [] => true
                                     | VFix a :: l1', VFix b :: l2' | VBig a :: l1', VBig b :: l2' => (a =? b) && eq l1' l2'
                                     | VRat a b :: l1', VRat a' b' :: l2' => (a =? a') && (b =? b') && eq l1' l2'
                                     | _, _ => false end) (o_args so) (o_args (m_op o args)))
  | None => false
  end.
Definition refutation_witnesses : list (opn * list val) :=
  [ (ORound Floor, [VFix (-7); VFix (-2)]);                            (* floor, negative divisor *)
    (ORound Floor, [VFix 7; VFix (-2)]);
    (OSub, [VBig B; VBig (B - 5)]);                                    (* small result stays a bignum *)
    (OAdd, [VFix 9223372036854775807; VFix 1; VFix (-5)]);             (* a sum that left int64 and came back stays a bignum *)
    (ORound Round, [VFix (-9223372036854775808); VFix 3]);             (* round of most-negative-fixnum: bignum objects *)
    (ODiv, [VFix (-9223372036854775808); VFix (-1); VFix 2]);          (* 2^63 / 2 stays a bignum *)
    (ODiv, [VRat 1 2; VRat 1 2]);                                      (* integer-valued ratio not demoted *)
    (ODiv, [VFix (-1)]);                                               (* the reciprocal of -1 is the ratio -1/1 *)
    (OAdd, [VBig B; VRat 1 2]);                                        (* bignum + ratio goes through floats *)
    (OMod, [VFix 5; VFix 0]);                                          (* arithmetic-error, not division-by-zero *)
    (OCmp CLt, [VBig 590295810358705651712; VRat 1180591620717411303425 2]);    (* 2^69 < 2^69 + 1/2 is false through float64 (= is exact since slip repair C16-11) *)
    (OBit BAnd, [VBig B; VFix 1]);                                     (* small result of the bignum loop stays a bignum *)
    (OExt true, [VBig 590295810358705651712; VRat 1180591620717411303425 2]) ].  (* max compares 2^69 and 2^69 + 1/2 through floats: answers 2^69 *)
Lemma outside_guard_refuted :
  forallb (fun w => refuted (fst w) (snd w)) refutation_witnesses = true /\
  forallb (fun w => negb (in_domain (fst w) (snd w))) refutation_witnesses = true.
Proof. split; vm_compute; reflexivity. Qed.

(* non-vacuity of the guard *)
Lemma guard_examples :
  in_domain OAdd [VFix 9223372036854775806; VFix 1; VFix (-5)] = true /\
  in_domain (ORound Floor) [VFix (-7); VFix 2] = true /\ in_domain (ORound Ceiling) [VFix 7; VFix (-2)] = true /\
  in_domain OMod [VFix (-7); VFix (-2)] = true /\
  in_domain (OCmp CLt) [VFix 1; VBig B; VRat 1 3] = false /\ in_domain (OCmp CLt) [VRat (-1) 3; VFix 1; VBig B] = true.
Proof. repeat split; vm_compute; reflexivity. Qed.
